(* Proofs about the cluster model Flow/Pipeline.v (property C01). *)
From Coq Require Import List Arith Bool Lia PeanoNat.
From Charon Require Import Common.Quorum Flow.Pipeline.
Import ListNotations.

(* ---------------------------------------------------------------------------------------------
   Arithmetic: any threshold t >= ceil(2n/3) and fault bound f <= floor((n-1)/3) give
   2t - n > f, for every n. *)
Lemma threshold_arith : forall n t f, 2 * n <= 3 * t -> 3 * f + 1 <= n -> n + f < 2 * t.
Proof. intros. lia. Qed.

Lemma threshold_arith_charon : forall n, 1 <= n -> n + faulty n < 2 * quorum n.
Proof.
  intros n Hn. apply threshold_arith.
  - apply quorum_is_ceil.
  - pose proof (faulty_is_floor n Hn). lia.
Qed.

(* ---------------------------------------------------------------------------------------------
   Boolean equalities *)
Lemma partial_eqb_eq : forall p q, partial_eqb p q = true <-> p = q.
Proof.
  intros [a b c] [a' b' c']; unfold partial_eqb; simpl. rewrite !andb_true_iff, !Nat.eqb_eq.
  split; [intros [[-> ->] ->]; reflexivity | intros H; inversion H; auto].
Qed.

Lemma kp_eqb_eq : forall a b, kp_eqb a b = true <-> a = b.
Proof.
  intros [k p] [k' p']; unfold kp_eqb; simpl. rewrite andb_true_iff, Nat.eqb_eq, partial_eqb_eq.
  split; [intros [-> ->]; reflexivity | intros H; inversion H; auto].
Qed.

Lemma ent_eqb_eq : forall a b, ent_eqb a b = true <-> a = b.
Proof.
  intros [[n k] p] [[n' k'] p']; unfold ent_eqb; simpl.
  rewrite !andb_true_iff, !Nat.eqb_eq, partial_eqb_eq.
  split; [intros [[-> ->] ->]; reflexivity | intros H; inversion H; auto].
Qed.

Lemma nkr_eqb_eq : forall a b, nkr_eqb a b = true <-> a = b.
Proof.
  intros [[n k] r] [[n' k'] r']; unfold nkr_eqb; simpl.
  rewrite !andb_true_iff, !Nat.eqb_eq.
  split; [intros [[-> ->] ->]; reflexivity | intros H; inversion H; auto].
Qed.

Lemma existsb_In : forall (A : Type) (eqb : A -> A -> bool),
  (forall a b, eqb a b = true <-> a = b) ->
  forall x l, existsb (eqb x) l = true <-> In x l.
Proof.
  intros A eqb H x l. rewrite existsb_exists. split.
  - intros [y [Hy He]]. apply H in He. subst; auto.
  - intros Hi. exists x. split; auto. apply H; reflexivity.
Qed.

Lemma existsb_nat_In : forall x l, existsb (Nat.eqb x) l = true <-> In x l.
Proof. intros. apply existsb_In. intros; apply Nat.eqb_eq. Qed.

Lemma forallb_false_ex : forall (A : Type) (f : A -> bool) l,
  forallb f l = false -> exists x, In x l /\ f x = false.
Proof.
  induction l as [|a l IH]; simpl; [discriminate|].
  destruct (f a) eqn:E; simpl.
  - intros H. destruct (IH H) as [x [Hx Hf]]. exists x; auto.
  - intros _. exists a; auto.
Qed.

Lemma nodupb_NoDup : forall l, nodupb l = true <-> NoDup l.
Proof.
  induction l as [|a l IH]; simpl.
  - split; [constructor | reflexivity].
  - rewrite andb_true_iff, negb_true_iff, IH. split.
    + intros [H1 H2]. constructor; auto. intros Hi. apply existsb_nat_In in Hi. congruence.
    + intros H. inversion H; subst. split; auto.
      destruct (existsb (Nat.eqb a) l) eqn:E; auto. apply existsb_nat_In in E. contradiction.
Qed.

Lemma list_eqb_eq : forall a b, list_eqb a b = true -> a = b.
Proof.
  unfold list_eqb. induction a as [|x a IH]; intros [|y b]; simpl; try discriminate; auto.
  rewrite !andb_true_iff, Nat.eqb_eq. intros [Hl [Hx Hr]]. apply Nat.eqb_eq in Hx. subst.
  f_equal. apply IH. rewrite andb_true_iff. split; auto. apply Nat.eqb_eq; auto.
Qed.

(* ---------------------------------------------------------------------------------------------
   Counting: two sets of t distinct shares below n meet outside any set B with n + |B| < 2t. *)
Lemma filter_split_length : forall (A : Type) (f : A -> bool) l,
  length (filter f l) + length (filter (fun x => negb (f x)) l) = length l.
Proof. induction l as [|a l IH]; simpl; auto. destruct (f a); simpl; lia. Qed.

Lemma below_length : forall n l, NoDup l -> (forall x, In x l -> x < n) -> length l <= n.
Proof.
  intros n l Hn Hb. rewrite <- (seq_length n 0). apply NoDup_incl_length; auto.
  intros x Hx. apply in_seq. specialize (Hb x Hx). lia.
Qed.

Lemma NoDup_app_disj : forall (A : Type) (l1 l2 : list A),
  NoDup l1 -> NoDup l2 -> (forall x, In x l1 -> ~ In x l2) -> NoDup (l1 ++ l2).
Proof.
  induction l1 as [|a l1 IH]; simpl; intros l2 N1 N2 Hd; auto.
  inversion N1; subst. constructor.
  - rewrite in_app_iff. intros [H|H]; [contradiction | exact (Hd a (or_introl eq_refl) H)].
  - apply IH; auto.
Qed.

Lemma quorum_meet : forall n t B S1 S2,
  NoDup S1 -> NoDup S2 -> length S1 = t -> length S2 = t ->
  (forall x, In x S1 -> x < n) -> (forall x, In x S2 -> x < n) ->
  n + length B < 2 * t ->
  exists x, In x S1 /\ In x S2 /\ ~ In x B.
Proof.
  intros n t B S1 S2 N1 N2 L1 L2 B1 B2 Hq.
  set (inS2 := fun x => existsb (Nat.eqb x) S2).
  set (I := filter inS2 S1). set (D := filter (fun x => negb (inS2 x)) S1).
  assert (HID : length I + length D = t) by (rewrite <- L1; apply filter_split_length).
  assert (HD : length D + t <= n).
  { rewrite <- L2, <- app_length. apply below_length.
    - apply NoDup_app_disj; auto.
      + apply NoDup_filter; auto.
      + intros x Hx Hx2. apply filter_In in Hx. destruct Hx as [_ Hx].
        apply negb_true_iff in Hx. unfold inS2 in Hx.
        apply existsb_nat_In in Hx2. congruence.
    - intros x Hx. apply in_app_iff in Hx. destruct Hx as [Hx|Hx]; auto.
      apply filter_In in Hx. apply B1. tauto. }
  assert (NI : NoDup I) by (apply NoDup_filter; auto).
  destruct (forallb (fun x => existsb (Nat.eqb x) B) I) eqn:E.
  - exfalso. assert (length I <= length B).
    { apply NoDup_incl_length; auto. intros x Hx.
      rewrite forallb_forall in E. apply existsb_nat_In. auto. }
    lia.
  - apply forallb_false_ex in E. destruct E as [x [Hx Hf]].
    apply filter_In in Hx. destruct Hx as [Hx1 Hx2]. exists x. split; auto. split.
    + apply existsb_nat_In. exact Hx2.
    + intros Hb. apply existsb_nat_In in Hb. congruence.
Qed.

(* ---------------------------------------------------------------------------------------------
   The partial-signature store *)
Lemma In_entries : forall st nd k p, In p (entries st nd k) <-> In (nd, k, p) st.
Proof.
  intros st nd k p. unfold entries. rewrite in_map_iff. split.
  - intros [[[nd' k'] p'] [He Hi]]. simpl in He. subst p'. apply filter_In in Hi.
    destruct Hi as [Hi Hm]. simpl in Hm. apply andb_true_iff in Hm.
    destruct Hm as [H1 H2]. apply Nat.eqb_eq in H1, H2. subst. exact Hi.
  - intros Hi. exists (nd, k, p). split; auto. apply filter_In. split; auto.
    simpl. rewrite !Nat.eqb_refl. reflexivity.
Qed.

Lemma entries_app : forall st st' nd k, entries (st ++ st') nd k = entries st nd k ++ entries st' nd k.
Proof. intros. unfold entries. rewrite filter_app, map_app. reflexivity. Qed.

Lemma entries_single : forall nd k p nd' k',
  entries [(nd, k, p)] nd' k' = if (nd =? nd') && (k =? k') then [p] else [].
Proof. intros. unfold entries. simpl. destruct ((nd =? nd') && (k =? k')); reflexivity. Qed.

Definition uniq (st : list ent) : Prop := forall nd k, NoDup (map p_share (entries st nd k)).

Lemma NoDup_map_inj_in : forall (A B : Type) (f : A -> B) l x y,
  NoDup (map f l) -> In x l -> In y l -> f x = f y -> x = y.
Proof.
  induction l as [|a l IH]; simpl; intros x y N Hx Hy E; [contradiction|].
  inversion N; subst.
  destruct Hx as [Hx|Hx], Hy as [Hy|Hy]; subst; auto.
  - exfalso. apply H1. rewrite E. apply in_map. exact Hy.
  - exfalso. apply H1. rewrite <- E. apply in_map. exact Hx.
Qed.

Lemma uniq_same_share : forall st nd k p q,
  uniq st -> In (nd, k, p) st -> In (nd, k, q) st -> p_share p = p_share q -> p = q.
Proof.
  intros st nd k p q U Hp Hq E. apply (NoDup_map_inj_in _ _ p_share (entries st nd k)); auto;
  apply In_entries; assumption.
Qed.

Lemma find_none_share : forall l sh,
  find (fun q => p_share q =? sh) l = None -> ~ In sh (map p_share l).
Proof.
  intros l sh H Hi. apply in_map_iff in Hi. destruct Hi as [q [E Hq]].
  pose proof (find_none _ _ H q Hq) as F. simpl in F. rewrite E, Nat.eqb_refl in F. discriminate.
Qed.

Lemma NoDup_snoc : forall (A : Type) (l : list A) a, NoDup l -> ~ In a l -> NoDup (l ++ [a]).
Proof.
  intros. apply NoDup_app_disj; auto.
  - constructor; [intros []|constructor].
  - intros x Hx [E|[]]. subst. contradiction.
Qed.

Definition fire_ok (t : nat) (st : list ent) (f : fire) : Prop :=
  match f with (nd, k, r, g) =>
    length g = t /\ NoDup (map p_share g) /\ forall q, In q g -> In (nd, k, q) st /\ p_root q = r
  end.

Lemma NoDup_map_filter : forall (A B : Type) (f : A -> B) (g : A -> bool) l,
  NoDup (map f l) -> NoDup (map f (filter g l)).
Proof.
  induction l as [|a l IH]; simpl; intros N; auto. inversion N; subst.
  destruct (g a); simpl; auto. constructor; auto.
  intros Hi. apply H1. apply in_map_iff in Hi. destruct Hi as [x [E Hx]].
  apply filter_In in Hx. rewrite <- E. apply in_map. tauto.
Qed.

Lemma store1_spec : forall t st nd k p st' r f,
  store1 t st nd k p = (st', r, f) -> uniq st ->
  uniq st' /\
  (forall e, In e st -> In e st') /\
  (forall e, In e st' -> In e st \/ e = (nd, k, p)) /\
  (forall g, f = Some g -> fire_ok t st' (nd, k, p_root p, g)).
Proof.
  intros t st nd k p st' r f H U. unfold store1 in H.
  destruct (find (fun q => p_share q =? p_share p) (entries st nd k)) eqn:F.
  - inversion H; subst. split; [auto | split; [auto | split; [auto | intros g Hg; discriminate]]].
  - inversion H; subst; clear H. split; [|split; [|split]].
    + intros nd' k'. rewrite entries_app, entries_single.
      destruct ((nd =? nd') && (k =? k')) eqn:E.
      * apply andb_true_iff in E. destruct E as [E1 E2]. apply Nat.eqb_eq in E1, E2. subst.
        rewrite map_app. simpl. apply NoDup_snoc; [apply U|]. apply find_none_share. exact F.
      * rewrite app_nil_r. apply U.
    + intros e He. apply in_app_iff. auto.
    + intros e He. apply in_app_iff in He. destruct He as [He|[He|[]]]; auto.
    + intros g Hg.
      destruct (length (filter (fun q => p_root q =? p_root p) (entries (st ++ [(nd, k, p)]) nd k)) =? t) eqn:L;
        [|discriminate].
      inversion Hg; subst; clear Hg. apply Nat.eqb_eq in L. simpl. split; [exact L|]. split.
      * apply NoDup_map_filter. rewrite entries_app, entries_single, !Nat.eqb_refl. simpl.
        rewrite map_app. simpl. apply NoDup_snoc; [apply U|]. apply find_none_share. exact F.
      * intros q Hq. apply filter_In in Hq. destruct Hq as [Hq1 Hq2]. apply Nat.eqb_eq in Hq2.
        split; auto. apply In_entries. exact Hq1.
Qed.

Lemma fire_ok_mono : forall t st st' f, (forall e, In e st -> In e st') -> fire_ok t st f -> fire_ok t st' f.
Proof.
  intros t st st' [[[nd k] r] g] Hi [H1 [H2 H3]]. simpl. split; [exact H1|]. split; [exact H2|].
  intros q Hq. split; [apply Hi|]; apply H3; exact Hq.
Qed.

Lemma store_batch_spec : forall t nd b st, uniq st ->
  uniq (b_st (store_batch t st nd b)) /\
  (forall e, In e st -> In e (b_st (store_batch t st nd b))) /\
  (forall e, In e (b_st (store_batch t st nd b)) ->
     In e st \/ exists kp, In kp b /\ e = (nd, fst kp, snd kp)) /\
  (forall f, In f (b_fired (store_batch t st nd b)) ->
     fire_ok t (b_st (store_batch t st nd b)) f /\ fst (fst (fst f)) = nd).
Proof.
  intros t nd. induction b as [|[k p] b IH]; intros st U; simpl.
  - split; [exact U|]. split; [auto|]. split; [auto|]. intros f [].
  - destruct (store1 t st nd k p) as [[st1 r] f1] eqn:S1. simpl.
    destruct (store1_spec _ _ _ _ _ _ _ _ S1 U) as [U1 [I1 [N1 F1]]].
    destruct (IH st1 U1) as [U2 [I2 [N2 F2]]].
    split; [exact U2|]. split; [auto|]. split.
    + intros e He. destruct (N2 e He) as [H|[kp [Hk E]]].
      * destruct (N1 e H) as [H'|H']; auto. right. exists (k, p). split; auto.
      * right. exists kp. split; auto.
    + intros f Hf. apply in_app_iff in Hf. destruct Hf as [Hf|Hf]; [|auto].
      destruct f1 as [g|]; [|destruct Hf]. destruct Hf as [Hf|[]]. subst f. split; [|reflexivity].
      eapply fire_ok_mono; [exact I2|]. apply F1. reflexivity.
Qed.

Lemma take_fire_spec : forall f l l',
  take_fire f l = Some l' -> (exists x, In x l /\ f x = true) /\ (forall y, In y l' -> In y l).
Proof.
  induction l as [|a l IH]; simpl; intros l' H; [discriminate|].
  destruct (f a) eqn:E.
  - inversion H; subst. split; [exists a; auto | auto].
  - destruct (take_fire f l) as [l0|] eqn:T; [|discriminate]. simpl in H. inversion H; subst.
    destruct (IH l0 eq_refl) as [[x [Hx Hf]] Hs]. split; [exists x; auto|].
    intros y [Hy|Hy]; auto.
Qed.

(* ---------------------------------------------------------------------------------------------
   Invariant of the cluster model *)
Section Facts.
Variable c : config.

Definition wf : Prop := c_n c + length (c_byz c) < 2 * c_t c.

Lemma is_byz_spec : forall i, is_byz c i = true <-> i < c_n c /\ In i (c_byz c).
Proof. intros. unfold is_byz. rewrite andb_true_iff, Nat.ltb_lt, existsb_nat_In. tauto. Qed.

Lemma honest_spec : forall i, honest c i = true <-> i < c_n c /\ ~ In i (c_byz c).
Proof.
  intros. unfold honest. rewrite andb_true_iff, Nat.ltb_lt, negb_true_iff. split; intros [H1 H2]; split; auto.
  - intros Hi. apply existsb_nat_In in Hi. congruence.
  - destruct (existsb (Nat.eqb i) (c_byz c)) eqn:E; auto. apply existsb_nat_In in E. contradiction.
Qed.

(* a genuine partial of share sh over (k, r) exists: sh is Byzantine, or the honest node sh holds
   its own partial in its own store (put there by its validator client's submission) *)
Definition signed_in (st : list ent) (sh : nat) (k : key) (r : root) : Prop :=
  is_byz c sh = true \/ (honest c sh = true /\ In (sh, k, mkP sh r 0) st).

Definition Inv (s : state) : Prop :=
  (forall nd k p, In (nd, k, p) (stores s) -> genuine p = true -> signed_in (stores s) (p_share p) k (p_root p)) /\
  (forall k p, In (k, p) (sent s) -> honest c (p_share p) = true /\ p_tag p = 0 /\ In (p_share p, k, p) (stores s)) /\
  uniq (stores s) /\
  (forall f, In f (pending s) -> fire_ok (c_t c) (stores s) f).

Lemma genuine_eta : forall p, genuine p = true -> p = mkP (p_share p) (p_root p) 0.
Proof. intros [a b t]; unfold genuine; simpl. intros H. apply Nat.eqb_eq in H. subst. reflexivity. Qed.

Lemma signed_in_mono : forall st st' sh k r,
  (forall e, In e st -> In e st') -> signed_in st sh k r -> signed_in st' sh k r.
Proof. intros st st' sh k r Hi [H|[H1 H2]]; [left; auto | right; auto]. Qed.

Lemma Inv_init : Inv init.
Proof.
  repeat split; simpl; try contradiction.
  intros nd k. constructor.
Qed.

Lemma do_store_facts : forall s to b o s',
  do_store c s to b o = Some s' -> uniq (stores s) ->
  sent s' = sent s /\ served s' = served s /\ uniq (stores s') /\
  (forall e, In e (stores s) -> In e (stores s')) /\
  (forall e, In e (stores s') -> In e (stores s) \/ exists kp, In kp b /\ e = (to, fst kp, snd kp)) /\
  (forall f, In f (pending s') -> In f (pending s) \/ fire_ok (c_t c) (stores s') f).
Proof.
  intros s to b o s' H U. unfold do_store in H.
  destruct (obs_ok o (store_batch (c_t c) (stores s) to b)); [|discriminate].
  inversion H; subst; clear H. simpl.
  destruct (store_batch_spec (c_t c) to b (stores s) U) as [U' [I' [N' F']]].
  repeat split; auto.
  intros f Hf. apply in_app_iff in Hf. destruct Hf as [Hf|Hf]; auto. right. apply F'. exact Hf.
Qed.

(* a batch is admissible for node [to] if each of its genuine partials is already accounted for,
   or is [to]'s own partial (then storing it is what accounts for it) *)
Definition batch_ok (s : state) (to : node) (b : list (key * partial)) : Prop :=
  forall k p, In (k, p) b -> genuine p = true ->
    signed_in (stores s) (p_share p) k (p_root p) \/ (p_share p = to /\ honest c to = true).

Lemma do_store_inv : forall s to b o s',
  Inv s -> batch_ok s to b -> do_store c s to b o = Some s' -> Inv s'.
Proof.
  intros s to b o s' [I1 [I2 [I3 I4]]] Hb H.
  destruct (do_store_facts _ _ _ _ _ H I3) as [Es [_ [U' [Mono [New Pend]]]]].
  split; [|split; [|split]].
  - intros nd k p Hi Hg. destruct (New _ Hi) as [Ho|[[k' p'] [Hk E]]].
    + eapply signed_in_mono; [exact Mono|]. eapply I1; eauto.
    + simpl in E. inversion E; subst nd k' p'.
      destruct (Hb k p Hk Hg) as [Hs|[Hs Hh]].
      * eapply signed_in_mono; [exact Mono|]. exact Hs.
      * right. split; [rewrite Hs; exact Hh|]. rewrite <- (genuine_eta p Hg). rewrite Hs. exact Hi.
  - rewrite Es. intros k p Hi. destruct (I2 k p Hi) as [A [B C]]. auto.
  - exact U'.
  - intros f Hf. destruct (Pend f Hf) as [Hp|Hp]; auto.
    eapply fire_ok_mono; [exact Mono|]. apply I4. exact Hp.
Qed.

Lemma forallb_In : forall (A : Type) (f : A -> bool) l x, forallb f l = true -> In x l -> f x = true.
Proof. intros A f l x H Hi. rewrite forallb_forall in H. auto. Qed.

Lemma step_inv : forall s l s', Inv s -> step c s l = Some s' -> Inv s'.
Proof.
  intros s l s' HI H. destruct l; simpl in H.
  - (* LDecide *)
    destruct (honest c nd); [|discriminate]. inversion H; subst; clear H.
    destruct ok; exact HI.
  - (* LSign *)
    destruct (honest c nd) eqn:Hh; [|discriminate]. simpl in H.
    destruct (forallb _ b); [|discriminate].
    eapply do_store_inv; [exact HI| |exact H].
    intros k p Hi Hg. right. apply in_map_iff in Hi. destruct Hi as [[k0 r0] [E _]].
    unfold own in E. simpl in E. inversion E; subst. simpl. auto.
  - (* LRelease *)
    destruct (honest c nd) eqn:Hh; [|discriminate]. simpl in H.
    destruct (forallb _ b) eqn:F; [|discriminate]. inversion H; subst; clear H.
    destruct HI as [I1 [I2 [I3 I4]]]. split; [|split; [|split]]; simpl; auto.
    intros k p Hi. apply in_app_iff in Hi. destruct Hi as [Hi|Hi]; [apply I2; auto|].
    apply in_map_iff in Hi. destruct Hi as [[k0 r0] [E Hk]]. unfold own in E; simpl in E.
    inversion E; subst. simpl. split; [exact Hh|]. split; [reflexivity|].
    pose proof (forallb_In _ _ _ _ F Hk) as X. simpl in X. apply (existsb_In _ _ ent_eqb_eq) in X. exact X.
  - (* LDeliver *)
    destruct (honest c to); [|discriminate]. simpl in H.
    destruct (forallb _ b) eqn:F; [|discriminate].
    eapply do_store_inv; [exact HI| |exact H].
    intros k p Hi Hg. left. pose proof (forallb_In _ _ _ _ F Hi) as X.
    apply (existsb_In _ _ kp_eqb_eq) in X.
    destruct HI as [I1 [I2 _]]. destruct (I2 k p X) as [A [B C]].
    right. split; auto. rewrite <- (genuine_eta p Hg). exact C.
  - (* LInject *)
    destruct (honest c to); [|discriminate]. simpl in H.
    destruct (forallb _ b) eqn:F; [|discriminate].
    eapply do_store_inv; [exact HI| |exact H].
    intros k p Hi Hg. left. pose proof (forallb_In _ _ _ _ F Hi) as X.
    unfold adv_can in X. simpl in X. rewrite Hg in X. simpl in X. rewrite orb_false_r in X.
    apply orb_true_iff in X. destruct X as [X|X].
    + apply (existsb_In _ _ kp_eqb_eq) in X.
      destruct HI as [I1 [I2 _]]. destruct (I2 k p X) as [A [B C]].
      right. split; auto. rewrite <- (genuine_eta p Hg). exact C.
    + left. exact X.
  - (* LAggregate *)
    destruct (take_fire _ (pending s)) as [pd|] eqn:T; [|discriminate]. inversion H; subst; clear H.
    destruct (take_fire_spec _ _ _ T) as [_ Hs].
    destruct HI as [I1 [I2 [I3 I4]]]. split; [exact I1|]. split; [exact I2|]. split; [exact I3|].
    simpl. intros f Hf. apply I4. auto.
  - (* LAggFail *)
    destruct (take_fire _ (pending s)) as [pd|] eqn:T; [|discriminate]. inversion H; subst; clear H.
    destruct (take_fire_spec _ _ _ T) as [_ Hs].
    destruct HI as [I1 [I2 [I3 I4]]]. split; [exact I1|]. split; [exact I2|]. split; [exact I3|].
    simpl. intros f Hf. apply I4. auto.
Qed.
End Facts.

(* ---------------------------------------------------------------------------------------------
   Joint invariant of model state and monitor ghost; the main theorem *)
Section Main.
Variable c : config.

Definition qset (st : list ent) (k : key) (r : root) : Prop :=
  exists S, length S = c_t c /\ NoDup S /\ forall sh, In sh S -> signed_in c st sh k r.

Definition J (s : state) (g : ghost) : Prop :=
  Inv c s /\
  (forall sh k r, honest c sh = true -> In (sh, k, mkP sh r 0) (stores s) -> In (sh, k, r) (g_signed g)) /\
  (forall k r, In (k, r) (g_aggs g) -> qset (stores s) k r).

Lemma signed_in_lt : forall st sh k r, signed_in c st sh k r -> sh < c_n c.
Proof.
  intros st sh k r [H|[H _]]; [apply is_byz_spec in H | apply honest_spec in H]; tauto.
Qed.

Lemma honest_not_byz : forall i, honest c i = true -> is_byz c i = true -> False.
Proof. intros i H1 H2. apply honest_spec in H1. apply is_byz_spec in H2. tauto. Qed.

Lemma qset_mono : forall st st' k r, (forall e, In e st -> In e st') -> qset st k r -> qset st' k r.
Proof.
  intros st st' k r Hi [S [H1 [H2 H3]]]. exists S. repeat split; auto.
  intros sh Hs. eapply signed_in_mono; eauto.
Qed.

(* two threshold sets of genuine partials for one key are over one root *)
Lemma qset_same_root : forall st k r r', wf c -> uniq st -> qset st k r -> qset st k r' -> r = r'.
Proof.
  intros st k r r' W U [S [L [N H]]] [S' [L' [N' H']]].
  destruct (quorum_meet (c_n c) (c_t c) (c_byz c) S S' N N' L L') as [x [X1 [X2 X3]]].
  - intros x Hx. eapply signed_in_lt; eauto.
  - intros x Hx. eapply signed_in_lt; eauto.
  - exact W.
  - destruct (H x X1) as [B|[_ E]]; [apply is_byz_spec in B; tauto|].
    destruct (H' x X2) as [B|[_ E']]; [apply is_byz_spec in B; tauto|].
    pose proof (uniq_same_share _ _ _ _ _ U E E' eq_refl) as Q. inversion Q. reflexivity.
Qed.

Definition new_entry (s : state) (l : label) (e : ent) : Prop :=
  match l with
  | LSign nd b _ => exists kr, In kr b /\ e = (nd, fst kr, mkP nd (snd kr) 0)
  | LDeliver to b _ => exists kp, In kp b /\ e = (to, fst kp, snd kp) /\ In kp (sent s)
  | LInject to b _ => exists kp, In kp b /\ e = (to, fst kp, snd kp) /\ adv_can c s kp = true
  | _ => False
  end.

Lemma step_stores : forall s l s', Inv c s -> step c s l = Some s' ->
  (forall e, In e (stores s) -> In e (stores s')) /\
  (forall e, In e (stores s') -> In e (stores s) \/ new_entry s l e).
Proof.
  intros s l s' [_ [_ [U _]]] H. destruct l; simpl in H.
  - destruct (honest c nd); [|discriminate]. inversion H; subst. destruct ok; simpl; auto.
  - destruct (honest c nd && _); [|discriminate].
    destruct (do_store_facts _ _ _ _ _ _ H U) as [_ [_ [_ [M [N _]]]]]. split; auto.
    intros e He. destruct (N e He) as [Ho|[kp [Hk E]]]; auto. right. simpl.
    apply in_map_iff in Hk. destruct Hk as [kr [E2 Hk]]. subst kp. exists kr. split; auto.
  - destruct (honest c nd && _); [|discriminate]. inversion H; subst. simpl; auto.
  - destruct (honest c to); [|discriminate]. simpl in H. destruct (forallb _ b) eqn:F; [|discriminate].
    destruct (do_store_facts _ _ _ _ _ _ H U) as [_ [_ [_ [M [N _]]]]]. split; auto.
    intros e He. destruct (N e He) as [Ho|[kp [Hk E]]]; auto. right. simpl. exists kp.
    repeat split; auto. apply (existsb_In _ _ kp_eqb_eq). apply (forallb_In _ _ _ _ F Hk).
  - destruct (honest c to); [|discriminate]. simpl in H. destruct (forallb _ b) eqn:F; [|discriminate].
    destruct (do_store_facts _ _ _ _ _ _ H U) as [_ [_ [_ [M [N _]]]]]. split; auto.
    intros e He. destruct (N e He) as [Ho|[kp [Hk E]]]; auto. right. simpl. exists kp.
    repeat split; auto. apply (forallb_In _ _ _ _ F Hk).
  - destruct (take_fire _ (pending s)); [|discriminate]. inversion H; subst. simpl; auto.
  - destruct (take_fire _ (pending s)); [|discriminate]. inversion H; subst. simpl; auto.
Qed.

Lemma mon_step_signed : forall g l x, In x (g_signed g) -> In x (g_signed (mon_step c g l)).
Proof. intros g l x H. destruct l; simpl; auto. apply in_app_iff; auto. Qed.

Lemma step_J : forall s g l s', J s g -> step c s l = Some s' ->
  J s' (mon_step c g l) /\
  (g_valid g = true -> g_valid (mon_step c g l) = true) /\
  (wf c -> g_single g = true -> g_single (mon_step c g l) = true).
Proof.
  intros s g l s' [HI [J1 J2]] H.
  pose proof (step_inv c _ _ _ HI H) as HI'.
  destruct (step_stores _ _ _ HI H) as [Mono New].
  assert (J1' : forall sh k r, honest c sh = true -> In (sh, k, mkP sh r 0) (stores s') ->
                In (sh, k, r) (g_signed (mon_step c g l))).
  { intros sh k r Hh Hi. destruct (New _ Hi) as [Ho|Hn]; [apply mon_step_signed; auto|].
    destruct l; simpl in Hn; try contradiction.
    - destruct Hn as [[k0 r0] [Hk E]]. simpl in E. inversion E; subst. simpl.
      apply in_app_iff. left. apply in_map_iff. exists (k0, r0). auto.
    - destruct Hn as [[k0 p0] [Hk [E Hs]]]. simpl in E. inversion E; subst.
      destruct HI as [_ [I2 _]]. destruct (I2 _ _ Hs) as [_ [_ C]]. simpl in C. simpl. auto.
    - destruct Hn as [[k0 p0] [Hk [E Ha]]]. simpl in E. inversion E; subst.
      unfold adv_can in Ha. simpl in Ha. rewrite orb_false_r in Ha. apply orb_true_iff in Ha.
      destruct Ha as [Ha|Ha]; [|exfalso; eapply honest_not_byz; eauto].
      apply (existsb_In _ _ kp_eqb_eq) in Ha.
      destruct HI as [_ [I2 _]]. destruct (I2 _ _ Ha) as [_ [_ C]]. simpl in C. simpl. auto. }
  destruct l; simpl;
    try solve [split; [split; [exact HI'|split; [exact J1'|intros k0 r0 Hk; eapply qset_mono; [exact Mono|auto]]]|auto]].
  (* LAggregate *)
  simpl in H. destruct (take_fire _ (pending s)) as [pd|] eqn:T; [|discriminate].
  destruct (take_fire_spec _ _ _ T) as [[[[[nd' k'] r'] grp] [Hp Hf]] _].
  rewrite !andb_true_iff, !Nat.eqb_eq in Hf. destruct Hf as [[[[E1 E2] E3] E4] E5]. subst nd' k' r'.
  apply list_eqb_eq in E4.
  destruct HI as [I1 [I2 [I3 I4]]]. destruct (I4 _ Hp) as [L [N Q]].
  assert (SG : forall sh, In sh shares -> signed_in c (stores s) sh k r).
  { intros sh Hs. rewrite <- E4 in Hs. apply in_map_iff in Hs. destruct Hs as [q [Eq Hq]].
    destruct (Q q Hq) as [Q1 Q2]. subst sh. rewrite <- Q2. eapply I1; eauto.
    apply (forallb_In _ _ _ _ E5 Hq). }
  assert (QS : qset (stores s) k r).
  { exists shares. rewrite <- E4 at 1 2. rewrite map_length. auto. }
  split; [|split].
  - split; [exact HI'|]. split; [exact J1'|]. simpl. intros k0 r0 [E|Hk].
    + inversion E; subst. eapply qset_mono; [exact Mono|exact QS].
    + eapply qset_mono; [exact Mono|auto].
  - intros V. rewrite V. simpl. unfold agg_valid. rewrite !andb_true_iff. split; [split|].
    + apply Nat.eqb_eq. rewrite <- E4, map_length. exact L.
    + apply nodupb_NoDup. rewrite <- E4. exact N.
    + apply forallb_forall. intros sh Hs. apply andb_true_iff. split.
      * apply Nat.ltb_lt. eapply signed_in_lt; eauto.
      * destruct (SG sh Hs) as [B|[Hh Hi]]; [rewrite B; reflexivity|].
        apply orb_true_iff. right. apply (existsb_In _ _ nkr_eqb_eq). apply J1; auto.
  - intros W V. rewrite V. simpl. unfold agg_single. apply forallb_forall. intros [k0 r0] Hk. simpl.
    destruct (k0 =? k) eqn:E; simpl; auto. apply Nat.eqb_eq in E. subst k0. apply Nat.eqb_eq.
    eapply qset_same_root; eauto.
Qed.

Lemma run_J : forall ls s g s', J s g -> run c s ls = Some s' ->
  J s' (fold_left (mon_step c) ls g) /\
  (g_valid g = true -> g_valid (fold_left (mon_step c) ls g) = true) /\
  (wf c -> g_single g = true -> g_single (fold_left (mon_step c) ls g) = true).
Proof.
  induction ls as [|l ls IH]; simpl; intros s g s' HJ H.
  - inversion H; subst. auto.
  - destruct (step c s l) as [s1|] eqn:S1; [|discriminate].
    destruct (step_J _ _ _ _ HJ S1) as [HJ1 [V1 S1']].
    destruct (IH _ _ _ HJ1 H) as [HJ2 [V2 S2]]. auto.
Qed.

Lemma J_init : J init ginit.
Proof. split; [apply Inv_init|]. split; simpl; intros; contradiction. Qed.

Theorem run_monitor_valid : forall ls s, run c init ls = Some s -> monitor_valid c ls = true.
Proof. intros ls s H. destruct (run_J _ _ _ _ J_init H) as [_ [V _]]. apply V. reflexivity. Qed.

Theorem run_monitor_single : forall ls s, wf c -> run c init ls = Some s -> monitor_single c ls = true.
Proof. intros ls s W H. destruct (run_J _ _ _ _ J_init H) as [_ [_ V]]. apply V; auto. Qed.

Theorem run_monitor : forall ls s, wf c -> run c init ls = Some s -> monitor c ls = true.
Proof.
  intros ls s W H. unfold monitor. rewrite (run_monitor_valid _ _ H), (run_monitor_single _ _ W H). reflexivity.
Qed.

(* ---------------------------------------------------------------------------------------------
   Prop-level readings of the monitor *)
Lemma g_valid_anti : forall ls g, g_valid (fold_left (mon_step c) ls g) = true -> g_valid g = true.
Proof.
  induction ls as [|l ls IH]; simpl; intros g H; auto.
  apply IH in H. destruct l; simpl in H; auto. apply andb_true_iff in H. tauto.
Qed.

Lemma g_single_anti : forall ls g, g_single (fold_left (mon_step c) ls g) = true -> g_single g = true.
Proof.
  induction ls as [|l ls IH]; simpl; intros g H; auto.
  apply IH in H. destruct l; simpl in H; auto. apply andb_true_iff in H. tauto.
Qed.

Lemma g_signed_origin : forall ls g sh k r,
  In (sh, k, r) (g_signed (fold_left (mon_step c) ls g)) ->
  In (sh, k, r) (g_signed g) \/
  exists pre b o post, ls = pre ++ LSign sh b o :: post /\ In (k, r) b.
Proof.
  induction ls as [|l ls IH]; simpl; intros g sh k r H; auto.
  destruct (IH _ _ _ _ H) as [Hg|[pre [b [o [post [E Hb]]]]]].
  - destruct l; simpl in Hg; auto. apply in_app_iff in Hg. destruct Hg as [Hg|Hg]; auto.
    right. apply in_map_iff in Hg. destruct Hg as [[k0 r0] [E Hk]]. simpl in E. inversion E; subst.
    exists [], b, o, ls. auto.
  - right. exists (l :: pre), b, o, post. subst ls. auto.
Qed.

Theorem broadcast_valid_of_monitor : forall ls, monitor_valid c ls = true ->
  forall pre nd k r shares post, ls = pre ++ LAggregate nd k r shares :: post ->
  length shares = c_t c /\ NoDup shares /\
  forall sh, In sh shares ->
    sh < c_n c /\
    (is_byz c sh = true \/ exists pre1 b o post1, pre = pre1 ++ LSign sh b o :: post1 /\ In (k, r) b).
Proof.
  intros ls M pre nd k r shares post E. subst ls.
  unfold monitor_valid, ghost_after in M. rewrite fold_left_app in M. simpl in M.
  apply g_valid_anti in M. simpl in M. apply andb_true_iff in M. destruct M as [_ M].
  unfold agg_valid in M. rewrite !andb_true_iff in M. destruct M as [[M1 M2] M3].
  split; [apply Nat.eqb_eq; exact M1|]. split; [apply nodupb_NoDup; exact M2|].
  intros sh Hs. pose proof (forallb_In _ _ _ _ M3 Hs) as X. simpl in X.
  apply andb_true_iff in X. destruct X as [X1 X2]. split; [apply Nat.ltb_lt; exact X1|].
  apply orb_true_iff in X2. destruct X2 as [X2|X2]; auto. right.
  apply (existsb_In _ _ nkr_eqb_eq) in X2.
  destruct (g_signed_origin _ _ _ _ _ X2) as [[]|Hx]. exact Hx.
Qed.

Definition consistent (g : ghost) : Prop :=
  forall k r r', In (k, r) (g_aggs g) -> In (k, r') (g_aggs g) -> r = r'.

Lemma single_fold : forall ls g, g_single (fold_left (mon_step c) ls g) = true -> consistent g ->
  consistent (fold_left (mon_step c) ls g) /\
  (forall x, In x (g_aggs g) -> In x (g_aggs (fold_left (mon_step c) ls g))) /\
  (forall nd k r sh, In (LAggregate nd k r sh) ls -> In (k, r) (g_aggs (fold_left (mon_step c) ls g))).
Proof.
  induction ls as [|l ls IH]; simpl; intros g H C.
  - repeat split; auto. intros nd k r sh [].
  - pose proof (g_single_anti _ _ H) as H1.
    assert (C1 : consistent (mon_step c g l)).
    { destruct l; simpl; auto. simpl in H1. apply andb_true_iff in H1. destruct H1 as [_ H1].
      unfold agg_single in H1. intros k0 ra rb [Ea|Ha] [Eb|Hb].
      - inversion Ea; inversion Eb; subst. reflexivity.
      - inversion Ea; subst. pose proof (forallb_In _ _ _ _ H1 Hb) as X. simpl in X.
        rewrite Nat.eqb_refl in X. simpl in X. apply Nat.eqb_eq in X. auto.
      - inversion Eb; subst. pose proof (forallb_In _ _ _ _ H1 Ha) as X. simpl in X.
        rewrite Nat.eqb_refl in X. simpl in X. apply Nat.eqb_eq in X. auto.
      - eapply C; eauto. }
    destruct (IH _ H C1) as [C2 [M2 A2]]. split; [exact C2|]. split.
    + intros x Hx. apply M2. destruct l; simpl; auto.
    + intros nd k r sh [E|Hi]; [|eapply A2; eauto]. subst l. apply M2. simpl. auto.
Qed.

Theorem single_root_of_monitor : forall ls, monitor_single c ls = true ->
  forall nd1 nd2 k r1 r2 sh1 sh2,
  In (LAggregate nd1 k r1 sh1) ls -> In (LAggregate nd2 k r2 sh2) ls -> r1 = r2.
Proof.
  intros ls M nd1 nd2 k r1 r2 sh1 sh2 H1 H2.
  destruct (single_fold ls ginit M) as [C [_ A]]; [intros k0 ra rb []|].
  eapply C; eapply A; eauto.
Qed.

Theorem broadcast_valid : forall ls s, run c init ls = Some s ->
  forall pre nd k r shares post, ls = pre ++ LAggregate nd k r shares :: post ->
  length shares = c_t c /\ NoDup shares /\
  forall sh, In sh shares ->
    sh < c_n c /\
    (is_byz c sh = true \/ exists pre1 b o post1, pre = pre1 ++ LSign sh b o :: post1 /\ In (k, r) b).
Proof. intros ls s H. apply broadcast_valid_of_monitor. eapply run_monitor_valid; eauto. Qed.

Theorem single_root : forall ls s, wf c -> run c init ls = Some s ->
  forall nd1 nd2 k r1 r2 sh1 sh2,
  In (LAggregate nd1 k r1 sh1) ls -> In (LAggregate nd2 k r2 sh2) ls -> r1 = r2.
Proof. intros ls s W H. apply single_root_of_monitor. eapply run_monitor_single; eauto. Qed.

(* ---------------------------------------------------------------------------------------------
   Companion: with consensus agreement (C02) and duty-store uniqueness (C06) as hypotheses, every
   root an honest validator client signs for a consensus key is the decided root. *)
Lemma step_served : forall s l s', step c s l = Some s' ->
  forall x, In x (served s') -> In x (served s) \/ exists nd k r, l = LDecide nd k r true /\ x = (nd, k, r).
Proof.
  intros s l s' H x Hx. destruct l; simpl in H.
  - destruct (honest c nd); [|discriminate]. inversion H; subst. destruct ok; auto.
    simpl in Hx. destruct Hx as [E|Hx]; auto. right. exists nd, k, r. auto.
  - destruct (honest c nd && _); [|discriminate]. unfold do_store in H.
    destruct (obs_ok _ _); [|discriminate]. inversion H; subst. auto.
  - destruct (honest c nd && _); [|discriminate]. inversion H; subst. auto.
  - destruct (honest c to && _); [|discriminate]. unfold do_store in H.
    destruct (obs_ok _ _); [|discriminate]. inversion H; subst. auto.
  - destruct (honest c to && _); [|discriminate]. unfold do_store in H.
    destruct (obs_ok _ _); [|discriminate]. inversion H; subst. auto.
  - destruct (take_fire _ _); [|discriminate]. inversion H; subst. auto.
  - destruct (take_fire _ _); [|discriminate]. inversion H; subst. auto.
Qed.

Lemma sign_from_served : forall ls s0 s, run c s0 ls = Some s ->
  forall nd b o k r, In (LSign nd b o) ls -> In (k, r) b -> c_ckey c k = true ->
  In (nd, k, r) (served s0) \/ In (LDecide nd k r true) ls.
Proof.
  induction ls as [|l ls IH]; simpl; intros s0 s H nd b o k r Hi Hb Hc; [contradiction|].
  destruct (step c s0 l) as [s1|] eqn:S1; [|discriminate].
  destruct Hi as [E|Hi].
  - subst l. simpl in S1. destruct (honest c nd); [|discriminate]. simpl in S1.
    destruct (forallb _ b) eqn:F; [|discriminate].
    pose proof (forallb_In _ _ _ _ F Hb) as X. simpl in X. rewrite Hc in X. simpl in X.
    left. apply (existsb_In _ _ nkr_eqb_eq) in X. exact X.
  - destruct (IH _ _ H _ _ _ _ _ Hi Hb Hc) as [Hs|Hd]; auto.
    destruct (step_served _ _ _ S1 _ Hs) as [Ho|[nd' [k' [r' [E1 E2]]]]]; auto.
    inversion E2; subst. auto.
Qed.

Theorem honest_sign_same : forall ls s k nd0 r0,
  run c init ls = Some s -> c_ckey c k = true ->
  (* C02, agreement: consensus hands the same decided datum for k to all nodes *)
  (forall nd nd' r r', nd <> nd' -> In (LDecide nd k r true) ls -> In (LDecide nd' k r' true) ls -> r = r') ->
  (* C06, duty-store uniqueness: a node's duty store accepts at most one datum for k *)
  (forall nd r r', In (LDecide nd k r true) ls -> In (LDecide nd k r' true) ls -> r = r') ->
  In (LDecide nd0 k r0 true) ls ->
  forall nd b o r, In (LSign nd b o) ls -> In (k, r) b -> r = r0.
Proof.
  intros ls s k nd0 r0 H Hc A U D nd b o r Hi Hb.
  destruct (sign_from_served _ _ _ H _ _ _ _ _ Hi Hb Hc) as [[]|Hd].
  destruct (Nat.eq_dec nd nd0) as [E|E].
  - subst. eapply U; eauto.
  - eapply A; eauto.
Qed.

Lemma decided_roots_In : forall ls k r,
  In r (decided_roots ls k) <-> exists nd, In (LDecide nd k r true) ls.
Proof.
  intros ls k r. unfold decided_roots. rewrite in_flat_map. split.
  - intros [l [Hl Hr]]. destruct l; try contradiction. destruct ok; try contradiction.
    destruct (k0 =? k) eqn:E; [|contradiction]. apply Nat.eqb_eq in E. destruct Hr as [Hr|[]]. subst.
    exists nd. exact Hl.
  - intros [nd H]. exists (LDecide nd k r true). split; auto. rewrite Nat.eqb_refl. left. reflexivity.
Qed.

Lemma signed_roots_In : forall ls k r,
  In r (signed_roots ls k) <-> exists nd b o, In (LSign nd b o) ls /\ In (k, r) b.
Proof.
  intros ls k r. unfold signed_roots. rewrite in_flat_map. split.
  - intros [l [Hl Hr]]. destruct l; try contradiction. apply in_flat_map in Hr.
    destruct Hr as [[k0 r0] [Hb Hx]]. simpl in Hx. destruct (k0 =? k) eqn:E; [|contradiction].
    apply Nat.eqb_eq in E. destruct Hx as [Hx|[]]. subst. exists nd, b, o. auto.
  - intros [nd [b [o [Hl Hb]]]]. exists (LSign nd b o). split; auto. apply in_flat_map.
    exists (k, r). split; auto. simpl. rewrite Nat.eqb_refl. left. reflexivity.
Qed.

Theorem sign_same_check_true : forall ls s k,
  run c init ls = Some s -> c_ckey c k = true -> sign_same_check ls k = true.
Proof.
  intros ls s k H Hc. unfold sign_same_check.
  assert (Src : forall r, In r (signed_roots ls k) -> In r (decided_roots ls k)).
  { intros r Hr. apply signed_roots_In in Hr. destruct Hr as [nd [b [o [Hl Hb]]]].
    destruct (sign_from_served _ _ _ H _ _ _ _ _ Hl Hb Hc) as [[]|Hd].
    apply decided_roots_In. exists nd. exact Hd. }
  destruct (decided_roots ls k) as [|r0 rest] eqn:D.
  - destruct (signed_roots ls k) as [|r l]; auto. exfalso. apply (Src r). left. reflexivity.
  - destruct (forallb (Nat.eqb r0) rest) eqn:A; simpl; auto.
    apply forallb_forall. intros r Hr. apply Nat.eqb_eq.
    assert (All : forall x, In x (r0 :: rest) -> x = r0).
    { intros x [E|Hx]; auto. rewrite forallb_forall in A. specialize (A x Hx).
      apply Nat.eqb_eq in A. auto. }
    symmetry. apply All. apply Src. exact Hr.
Qed.

Theorem sign_same_all_true : forall ls s, run c init ls = Some s -> sign_same_all c ls = true.
Proof.
  intros ls s H. unfold sign_same_all. apply forallb_forall. intros k _.
  destruct (c_ckey c k) eqn:E; simpl; auto. eapply sign_same_check_true; eauto.
Qed.
End Main.

(* The charon parameters: t = ceil(2n/3), at most floor((n-1)/3) Byzantine nodes, any n >= 1. *)
Theorem single_root_charon : forall n byz ckey ls s, 1 <= n -> length byz <= faulty n ->
  run (mkCfg n (quorum n) byz ckey) init ls = Some s ->
  forall nd1 nd2 k r1 r2 sh1 sh2,
  In (LAggregate nd1 k r1 sh1) ls -> In (LAggregate nd2 k r2 sh2) ls -> r1 = r2.
Proof.
  intros n byz ckey ls s Hn Hb H. eapply single_root; [|exact H].
  unfold wf. simpl. pose proof (threshold_arith_charon n Hn). lia.
Qed.

(* ---------------------------------------------------------------------------------------------
   Non-vacuity: a 4-node cluster (t = 3, node 3 Byzantine) running an attester-like consensus
   duty (key 10) and a sync-message-like duty (key 11, root chosen by the clients). *)
Definition ex_cfg : config := mkCfg 4 3 [3] Nat.even.

Definition ex_trace : list label :=
  [ LDecide 0 10 5 true; LDecide 1 10 5 true; LDecide 2 10 5 true;
    LSign 0 [(10, 5)] ObsOk; LRelease 0 [(10, 5)];
    LSign 1 [(10, 5)] ObsOk; LRelease 1 [(10, 5)];
    LInject 0 [(10, mkP 3 6 0)] ObsOk;          (* the Byzantine share signs another root for node 0 *)
    LDeliver 0 [(10, mkP 1 5 0)] ObsOk;         (* two partials over root 5 at node 0: no threshold yet *)
    LInject 0 [(10, mkP 3 5 0)] ObsMismatch;    (* second root of the same share: rejected *)
    LSign 2 [(10, 5)] ObsOk; LRelease 2 [(10, 5)];
    LDeliver 0 [(10, mkP 2 5 0)] ObsOk;         (* third honest partial: threshold at node 0 *)
    LAggregate 0 10 5 [0; 1; 2];
    LDeliver 0 [(10, mkP 2 5 0)] ObsOk;         (* duplicate after aggregation: ignored *)
    LDeliver 1 [(10, mkP 0 5 0)] ObsOk;
    LInject 1 [(10, mkP 3 5 0)] ObsOk;          (* node 1 reaches the threshold with the Byzantine share *)
    LAggregate 1 10 5 [1; 0; 3];
    LInject 2 [(10, mkP 0 5 9)] ObsOk;          (* garbage under share 0 reaches node 2 first *)
    LDeliver 2 [(10, mkP 1 5 0)] ObsOk;         (* threshold by count, but the group is not all genuine *)
    LAggFail 2 10;
    LSign 0 [(11, 1)] ObsOk;                    (* non-consensus duty: client 0 signs root 1 ... *)
    LSign 0 [(11, 2)] ObsMismatch;              (* ... and then root 2: rejected by its own node *)
    LRelease 0 [(11, 1)] ].

Example ex_accepted : exists s, run ex_cfg init ex_trace = Some s.
Proof. eexists. vm_compute. reflexivity. Qed.

Example ex_monitor : monitor ex_cfg ex_trace = true.
Proof. vm_compute. reflexivity. Qed.

(* the second root of an honest share can not be released *)
Example ex_second_root_not_released : run ex_cfg init (ex_trace ++ [LRelease 0 [(11, 2)]]) = None.
Proof. vm_compute. reflexivity. Qed.

(* a group containing a non-genuine partial can not be published *)
Example ex_garbage_not_published :
  run ex_cfg init (firstn 20 ex_trace ++ [LAggregate 2 10 5 [2; 0; 1]]) = None.
Proof. vm_compute. reflexivity. Qed.

(* an honest client can not sign a root its duty store does not serve (consensus duty) *)
Example ex_sign_needs_served : run ex_cfg init [LDecide 0 10 5 true; LSign 0 [(10, 6)] ObsOk] = None.
Proof. vm_compute. reflexivity. Qed.

(* The bound is tight: with f + 1 = 2 Byzantine shares out of 4 (t = 3) two different roots are
   published for one key; the model accepts the trace and the monitor rejects it. *)
Definition bad_cfg : config := mkCfg 4 3 [2; 3] (fun _ => false).
Definition bad_trace : list label :=
  [ LSign 0 [(7, 1)] ObsOk; LRelease 0 [(7, 1)];
    LSign 1 [(7, 2)] ObsOk; LRelease 1 [(7, 2)];
    LInject 0 [(7, mkP 2 1 0); (8, mkP 2 1 0)] ObsOk; LInject 0 [(7, mkP 3 1 0)] ObsOk;
    LAggregate 0 7 1 [0; 2; 3];
    LInject 1 [(7, mkP 2 2 0)] ObsOk; LInject 1 [(7, mkP 3 2 0)] ObsOk;
    LAggregate 1 7 2 [1; 2; 3] ].

Lemma too_many_byzantine_refuted :
  length (c_byz bad_cfg) = faulty (c_n bad_cfg) + 1 /\ c_t bad_cfg = quorum (c_n bad_cfg) /\
  (exists s, run bad_cfg init bad_trace = Some s) /\
  monitor_valid bad_cfg bad_trace = true /\ monitor_single bad_cfg bad_trace = false /\
  In (LAggregate 0 7 1 [0; 2; 3]) bad_trace /\ In (LAggregate 1 7 2 [1; 2; 3]) bad_trace.
Proof.
  split; [reflexivity|]. split; [reflexivity|]. split; [eexists; vm_compute; reflexivity|].
  split; [vm_compute; reflexivity|]. split; [vm_compute; reflexivity|].
  split; simpl; tauto.
Qed.
