(* Lifecycle of one consensus instance (one duty) inside one Consensus component
   (core/consensus/qbft/qbft.go: getInstanceIO / getRecvBuffer / deleteInstanceIO, instance.IO.MaybeStart,
   propose / Participate / runInstance, the deadliner).

   State:  io      None: no instance.IO for the duty;  Some r: it exists, r = its Running flag
           active  a qbft.Run for the duty is live and has not decided
           expired the deadliner refuses the duty (Add returns DeadlineExpired)
   Labels (what the wrapper harness zz_verif_wrapper_test.go observes per component and duty):
     LStart Started   Propose/Participate found Running = false, set it (MaybeStart) and runInstance started qbft.Run
     LStart Joined    Propose/Participate found Running = true: no second run (Propose waits for the first run's result)
     LStart Skipped   MaybeStart succeeded but runInstance's deadliner.Add refused the duty: no run
     LDecide          the subscribers were called (Decide callback of the live run; it cancels the run)
     LHandle true     handle accepted a message for the duty: getRecvBuffer creates the IO if absent (Running = false)
     LHandle false    handle rejected a message with "duty expired or exempt"
     LExpire          the deadliner reported the duty: deleteInstanceIO, and from now on Add refuses it
   Theorem: along every run the subscribers are called at most once.  The reason is that Running is set at
   most once while the IO lives, and the IO is only removed at expiry, after which no run starts.
   [step_mut] is the variant that also removes the IO when the run decides (seeded change C03-r3m2): there
   a replayed message re-creates a fresh IO and a late Propose starts a second run -- refuted. *)
From Coq Require Import List Bool Arith Lia.
Import ListNotations.

Inductive outcome := Started | Joined | Skipped.
Inductive llabel := LStart (o : outcome) | LDecide | LHandle (ok : bool) | LExpire.

Record lstate := { io : option bool; active : bool; expired : bool }.
Definition linit : lstate := {| io := None; active := false; expired := false |}.

Definition not_running (s : lstate) : bool := match io s with Some true => false | _ => true end.

Definition lstep_gen (del_on_decide : bool) (s : lstate) (l : llabel) : option lstate :=
  match l with
  | LHandle true =>
    if expired s then None
    else Some {| io := match io s with None => Some false | x => x end; active := active s; expired := false |}
  | LHandle false => if expired s then Some s else None
  | LStart Started =>
    if negb (expired s) && not_running s then Some {| io := Some true; active := true; expired := false |} else None
  | LStart Skipped =>
    if expired s && not_running s then Some {| io := Some true; active := active s; expired := true |} else None
  | LStart Joined => if not_running s then None else Some s
  | LDecide =>
    if active s then Some {| io := if del_on_decide then None else io s; active := false; expired := expired s |} else None
  | LExpire => Some {| io := None; active := active s; expired := true |}
  end.

Definition lstep := lstep_gen false.
Definition lstep_mut := lstep_gen true.

Fixpoint lrun_gen (m : bool) (s : lstate) (ls : list llabel) : option lstate :=
  match ls with
  | [] => Some s
  | l :: r => match lstep_gen m s l with Some s' => lrun_gen m s' r | None => None end
  end.
Definition lrun := lrun_gen false.

Fixpoint lfirst_reject (s : lstate) (ls : list llabel) (i : nat) : option nat :=
  match ls with
  | [] => None
  | l :: r => match lstep s l with Some s' => lfirst_reject s' r (S i) | None => Some i end
  end.

Definition is_decide (l : llabel) : bool := match l with LDecide => true | _ => false end.
Definition decides (ls : list llabel) : nat := length (filter is_decide ls).

(* the monitor: at most one Decide; no message accepted and no run started after expiry *)
Fixpoint after_expiry_ok (ls : list llabel) (exp : bool) : bool :=
  match ls with
  | [] => true
  | LExpire :: r => after_expiry_ok r true
  | LHandle true :: r => negb exp && after_expiry_ok r exp
  | LStart Started :: r => negb exp && after_expiry_ok r exp
  | _ :: r => after_expiry_ok r exp
  end.
Definition lmonitor (ls : list llabel) : bool := (decides ls <=? 1) && after_expiry_ok ls false.

Definition b2n (b : bool) : nat := if b then 1 else 0.

(* n = Decides so far *)
Definition linv (s : lstate) (n : nat) : Prop :=
  n + b2n (active s) <= 1 /\ (n + b2n (active s) = 1 -> io s = Some true \/ expired s = true).

Lemma idle_zero : forall s n, linv s n -> expired s = false -> not_running s = true -> n + b2n (active s) = 0.
Proof.
  intros s n [H1 H2] He Hn. destruct (Nat.eq_dec (n + b2n (active s)) 1) as [E|E]; [|lia].
  destruct (H2 E) as [X|X]; [|congruence]. unfold not_running in Hn. rewrite X in Hn. discriminate.
Qed.

Lemma lstep_inv : forall s l s' n, lstep s l = Some s' -> linv s n -> linv s' (n + b2n (is_decide l)).
Proof.
  intros s l s' n Hs Hi. pose proof Hi as [H1 H2]. unfold lstep, lstep_gen in Hs.
  destruct l as [[| |]| |[|]|]; simpl in *; rewrite ?Nat.add_0_r.
  - destruct (expired s) eqn:He; simpl in Hs; [discriminate|]. destruct (not_running s) eqn:Hn; [|discriminate].
    inversion Hs; subst. pose proof (idle_zero _ _ Hi He Hn) as Z. unfold linv; simpl. split; [lia|auto].
  - destruct (not_running s); inversion Hs; subst. assumption.
  - destruct (expired s) eqn:He; simpl in Hs; [|discriminate]. destruct (not_running s); [|discriminate].
    inversion Hs; subst. unfold linv; simpl. split; [assumption|auto].
  - destruct (active s) eqn:Ha; [|discriminate]. inversion Hs; subst. unfold linv; simpl in *. split; [lia|].
    intros _. apply H2. lia.
  - destruct (expired s) eqn:He; [discriminate|]. inversion Hs; subst. unfold linv; simpl. split; [assumption|].
    intros E. destruct (H2 E) as [X|X]; [|congruence]. rewrite X. left; reflexivity.
  - destruct (expired s); inversion Hs; subst. assumption.
  - inversion Hs; subst. unfold linv; simpl. split; [assumption|auto].
Qed.

Lemma lrun_inv : forall ls s s' n, lrun s ls = Some s' -> linv s n -> linv s' (n + decides ls).
Proof.
  induction ls as [|l r IH]; intros s s' n Hr Hi; simpl in Hr.
  - inversion Hr; subst. unfold decides; simpl. rewrite Nat.add_0_r. assumption.
  - unfold lrun in Hr. simpl in Hr. fold lstep in Hr. destruct (lstep s l) as [s1|] eqn:E; [|discriminate].
    pose proof (IH _ _ _ Hr (lstep_inv _ _ _ _ E Hi)) as X.
    replace (n + decides (l :: r)) with (n + b2n (is_decide l) + decides r); [assumption|].
    unfold decides; simpl. destruct (is_decide l); simpl; lia.
Qed.

Theorem decide_at_most_once : forall ls s, lrun linit ls = Some s -> decides ls <= 1.
Proof.
  intros ls s Hr. assert (Hi : linv linit 0) by (split; simpl; [lia|discriminate]).
  destruct (lrun_inv _ _ _ _ Hr Hi) as [H _]. simpl in H. lia.
Qed.

(* no message is accepted and no run starts after expiry *)
Lemma lrun_after_expiry : forall ls s s', lrun s ls = Some s' -> after_expiry_ok ls (expired s) = true.
Proof.
  induction ls as [|l r IH]; intros s s' Hr; [reflexivity|].
  unfold lrun in Hr; simpl in Hr. fold lstep in Hr. destruct (lstep s l) as [s1|] eqn:E; [|discriminate].
  specialize (IH _ _ Hr). unfold lstep, lstep_gen in E.
  destruct l as [[| |]| |[|]|]; simpl in *.
  - destruct (expired s) eqn:He; simpl in E; [discriminate|]. destruct (not_running s); inversion E; subst; simpl in *. assumption.
  - destruct (not_running s); inversion E; subst; assumption.
  - destruct (expired s) eqn:He; simpl in E; [|discriminate]. destruct (not_running s); inversion E; subst; simpl in *; assumption.
  - destruct (active s); inversion E; subst; simpl in *; assumption.
  - destruct (expired s) eqn:He; [discriminate|]. inversion E; subst; simpl in *. assumption.
  - destruct (expired s) eqn:He; inversion E; subst. rewrite He in IH. assumption.
  - inversion E; subst; simpl in *. assumption.
Qed.

Theorem lrun_monitor : forall ls s, lrun linit ls = Some s -> lmonitor ls = true.
Proof.
  intros ls s Hr. unfold lmonitor. apply andb_true_intro. split.
  - apply Nat.leb_le. eapply decide_at_most_once; eauto.
  - apply (lrun_after_expiry _ _ _ Hr).
Qed.

(* seeded change C03-r3m2 at model level: removing the IO on decide admits a second run and a second Decide *)
Definition mut_trace : list llabel := [LStart Started; LHandle true; LDecide; LHandle true; LStart Started; LDecide].
Lemma delete_on_decide_refuted :
  (exists s, lrun_gen true linit mut_trace = Some s) /\ decides mut_trace = 2 /\ lrun linit mut_trace = None.
Proof. split; [eexists; reflexivity|split; reflexivity]. Qed.

Example life_nonvacuous :
  exists s, lrun linit [LHandle true; LStart Started; LHandle true; LDecide; LHandle true; LStart Joined; LExpire; LHandle false; LStart Skipped; LStart Joined] = Some s.
Proof. eexists; reflexivity. Qed.
