(* Lifecycle of one consensus instance (one duty) inside one Consensus component
   (core/consensus/qbft/qbft.go: getInstanceIO / getRecvBuffer / deleteInstanceIO, instance.IO.MaybeStart,
   propose / Participate / runInstance, the deadliner).

   State:  io      None: no instance.IO for the duty;  Some r: it exists, r = its Running flag
           active  a qbft.Run for the duty is live and has not decided
           expired the deadliner refuses the duty (Add returns DeadlineExpired)
   Labels (what the wrapper harness zz_verif_wrapper_test.go observes per component and duty):
     LStart Started   Propose/Participate found Running = false, set it (MaybeStart) and runInstance started qbft.Run
     LStart Joined    Propose/Participate found Running = true: no second run (Propose waits for the first run's result)
     LStart Skipped   MaybeStart succeeded but runInstance's deadliner.Add refused the duty: no run
     LRun             qbft.Run was entered for the duty (its round timer was asked for round 1): follows a Started, once
     LDecide          the subscribers were called (Decide callback of the live run; it cancels the run)
     LHandle true     handle accepted a message for the duty: getRecvBuffer creates the IO if absent (Running = false)
     LHandle false    handle rejected a message with "duty expired or exempt"
     LExpire          the deadliner reported the duty: deleteInstanceIO, and from now on Add refuses it
     LRefuse          the deadliner refuses the duty from now on without reporting it (exempt duty; or expired but not yet reported)
   Theorems: along every run an instance is started (LStart Started, LRun) at most once per duty, never after the
   deadliner refuses the duty, qbft.Run is entered only after a granted start, and the subscribers are called at most once.  The reason is that Running is set at
   most once while the IO lives, and the IO is only removed at expiry, after which no run starts.
   [step_mut] is the variant that also removes the IO when the run decides (seeded change C03-r3m2): there
   a replayed message re-creates a fresh IO and a late Propose starts a second run -- refuted. *)
From Coq Require Import List Bool Arith Lia.
Import ListNotations.

Inductive outcome := Started | Joined | Skipped.
Inductive llabel := LStart (o : outcome) | LRun | LDecide | LHandle (ok : bool) | LExpire | LRefuse.

Record lstate := { io : option bool; pend : bool; active : bool; expired : bool }.
Definition linit : lstate := {| io := None; pend := false; active := false; expired := false |}.

Definition not_running (s : lstate) : bool := match io s with Some true => false | _ => true end.

Definition lstep_gen (del_on_decide : bool) (s : lstate) (l : llabel) : option lstate :=
  match l with
  | LHandle true =>
    if expired s then None
    else Some {| io := match io s with None => Some false | x => x end; pend := pend s; active := active s; expired := false |}
  | LHandle false => if expired s then Some s else None
  | LStart Started =>
    if negb (expired s) && not_running s then Some {| io := Some true; pend := true; active := true; expired := false |} else None
  | LStart Skipped =>
    (* MaybeStart succeeded, the deadliner refused: NOTHING is started *)
    if expired s && not_running s then Some {| io := Some true; pend := pend s; active := active s; expired := true |} else None
  | LStart Joined => if not_running s then None else Some s
  | LRun => if pend s then Some {| io := io s; pend := false; active := active s; expired := expired s |} else None
  | LDecide =>
    if active s then Some {| io := if del_on_decide then None else io s; pend := pend s; active := false; expired := expired s |} else None
  | LExpire => Some {| io := None; pend := pend s; active := active s; expired := true |}
  | LRefuse => Some {| io := io s; pend := pend s; active := active s; expired := true |}
  end.

Definition lstep := lstep_gen false.
Definition lstep_mut := lstep_gen true.

Fixpoint lrun_gen (m : bool) (s : lstate) (ls : list llabel) : option lstate :=
  match ls with
  | [] => Some s
  | l :: r => match lstep_gen m s l with Some s' => lrun_gen m s' r | None => None end
  end.
Definition lrun := lrun_gen false.

Fixpoint lfirst_reject (s : lstate) (ls : list llabel) (i : nat) : option nat :=
  match ls with
  | [] => None
  | l :: r => match lstep s l with Some s' => lfirst_reject s' r (S i) | None => Some i end
  end.

Definition is_decide (l : llabel) : bool := match l with LDecide => true | _ => false end.
Definition is_run (l : llabel) : bool := match l with LRun => true | _ => false end.
Definition is_started (l : llabel) : bool := match l with LStart Started => true | _ => false end.
Definition count (f : llabel -> bool) (ls : list llabel) : nat := length (filter f ls).
Definition decides := count is_decide.
Definition runs := count is_run.
Definition starts := count is_started.

(* the monitor (labels only):
     - at most one Decide, at most one granted start, at most one qbft.Run;
     - qbft.Run is entered only after a granted start that has not been used yet (k starts, m runs so far);
     - no message accepted and no start granted once the deadliner refuses the duty. *)
Fixpoint after_expiry_ok (ls : list llabel) (exp : bool) : bool :=
  match ls with
  | [] => true
  | LExpire :: r | LRefuse :: r => after_expiry_ok r true
  | LHandle true :: r => negb exp && after_expiry_ok r exp
  | LStart Started :: r => negb exp && after_expiry_ok r exp
  | _ :: r => after_expiry_ok r exp
  end.

Fixpoint runs_follow_starts (ls : list llabel) (k m : nat) : bool :=
  match ls with
  | [] => true
  | LStart Started :: r => runs_follow_starts r (S k) m
  | LRun :: r => (S m <=? k) && runs_follow_starts r k (S m)
  | _ :: r => runs_follow_starts r k m
  end.

Definition lmonitor (ls : list llabel) : bool :=
  (decides ls <=? 1) && (starts ls <=? 1) && (runs ls <=? 1) && runs_follow_starts ls 0 0 && after_expiry_ok ls false.

Definition b2n (b : bool) : nat := if b then 1 else 0.

(* k granted starts, m runs, n decides so far *)
Definition linv (s : lstate) (k m n : nat) : Prop :=
  k <= 1 /\ (k = 1 -> io s = Some true \/ expired s = true) /\ m + b2n (pend s) = k /\ n + b2n (active s) <= k.

Lemma idle_zero : forall s k m n, linv s k m n -> expired s = false -> not_running s = true -> k = 0.
Proof.
  intros s k m n (H1 & H2 & _) He Hn. destruct (Nat.eq_dec k 1) as [E|E]; [|lia].
  destruct (H2 E) as [X|X]; [|congruence]. unfold not_running in Hn. rewrite X in Hn. discriminate.
Qed.

Lemma lstep_inv : forall s l s' k m n, lstep s l = Some s' -> linv s k m n ->
  linv s' (k + b2n (is_started l)) (m + b2n (is_run l)) (n + b2n (is_decide l)).
Proof.
  intros s l s' k m n Hs Hi. pose proof Hi as (H1 & H2 & H3 & H4). unfold lstep, lstep_gen in Hs.
  destruct l as [[| |]| | |[|]| |]; simpl in *; rewrite ?Nat.add_0_r.
  - destruct (expired s) eqn:He; simpl in Hs; [discriminate|]. destruct (not_running s) eqn:Hn; [|discriminate].
    pose proof (idle_zero _ _ _ _ Hi He Hn) as Z. rewrite Z in *. inversion Hs; subst. unfold linv; simpl.
    destruct (pend s); destruct (active s); simpl in *; try lia. repeat split; auto; lia.
  - destruct (not_running s); inversion Hs; subst. assumption.
  - destruct (expired s) eqn:He; simpl in Hs; [|discriminate]. destruct (not_running s); [|discriminate].
    inversion Hs; subst. unfold linv; simpl. repeat split; auto.
  - destruct (pend s) eqn:Hp; [|discriminate]. inversion Hs; subst. unfold linv; simpl in *. repeat split; auto; lia.
  - destruct (active s) eqn:Ha; [|discriminate]. inversion Hs; subst. unfold linv; simpl in *. repeat split; auto; lia.
  - destruct (expired s) eqn:He; [discriminate|]. inversion Hs; subst. unfold linv; simpl. repeat split; auto.
    intros E. destruct (H2 E) as [X|X]; [|congruence]. rewrite X. left; reflexivity.
  - destruct (expired s); inversion Hs; subst. assumption.
  - inversion Hs; subst. unfold linv; simpl. repeat split; auto.
  - inversion Hs; subst. unfold linv; simpl. repeat split; auto.
Qed.

Lemma count_cons : forall f l r, count f (l :: r) = b2n (f l) + count f r.
Proof. intros. unfold count. simpl. destruct (f l); reflexivity. Qed.

Lemma lrun_inv : forall ls s s' k m n, lrun s ls = Some s' -> linv s k m n ->
  linv s' (k + starts ls) (m + runs ls) (n + decides ls).
Proof.
  induction ls as [|l r IH]; intros s s' k m n Hr Hi; simpl in Hr.
  - inversion Hr; subst. unfold starts, runs, decides, count; simpl. rewrite !Nat.add_0_r. assumption.
  - unfold lrun in Hr. simpl in Hr. fold lstep in Hr. destruct (lstep s l) as [s1|] eqn:E; [|discriminate].
    pose proof (IH _ _ _ _ _ Hr (lstep_inv _ _ _ _ _ _ E Hi)) as X.
    unfold starts, runs, decides in *. rewrite !count_cons, !Nat.add_assoc. assumption.
Qed.

Lemma linit_inv : linv linit 0 0 0.
Proof. unfold linv; simpl. repeat split; auto; lia. Qed.

Theorem started_at_most_once : forall ls s, lrun linit ls = Some s -> starts ls <= 1 /\ runs ls <= starts ls /\ decides ls <= starts ls.
Proof.
  intros ls s Hr. destruct (lrun_inv _ _ _ _ _ _ Hr linit_inv) as (H1 & _ & H3 & H4). simpl in *. lia.
Qed.

Theorem decide_at_most_once : forall ls s, lrun linit ls = Some s -> decides ls <= 1.
Proof. intros ls s Hr. destruct (started_at_most_once _ _ Hr) as (A & B & C). lia. Qed.

Lemma lrun_runs_follow : forall ls s s' k m n, lrun s ls = Some s' -> linv s k m n -> runs_follow_starts ls k m = true.
Proof.
  induction ls as [|l r IH]; intros s s' k m n Hr Hi; [reflexivity|].
  unfold lrun in Hr; simpl in Hr. fold lstep in Hr. destruct (lstep s l) as [s1|] eqn:E; [|discriminate].
  pose proof (lstep_inv _ _ _ _ _ _ E Hi) as Hi'. specialize (IH _ _ _ _ _ Hr Hi').
  destruct l as [[| |]| | |[|]| |]; cbn [runs_follow_starts is_started is_run is_decide b2n] in *;
    rewrite ?Nat.add_0_r in IH; try assumption.
  - replace (S k) with (k + 1) by lia. assumption.
  - replace (S m) with (m + 1) by lia. rewrite IH, andb_true_r.
    destruct Hi' as (_ & _ & H3 & _). rewrite Nat.add_0_r in H3. apply Nat.leb_le. lia.
Qed.

(* no message is accepted and no start is granted once the deadliner refuses the duty *)
Lemma lrun_after_expiry : forall ls s s', lrun s ls = Some s' -> after_expiry_ok ls (expired s) = true.
Proof.
  induction ls as [|l r IH]; intros s s' Hr; [reflexivity|].
  unfold lrun in Hr; simpl in Hr. fold lstep in Hr. destruct (lstep s l) as [s1|] eqn:E; [|discriminate].
  specialize (IH _ _ Hr). unfold lstep, lstep_gen in E.
  destruct l as [[| |]| | |[|]| |]; simpl in *.
  - destruct (expired s) eqn:He; simpl in E; [discriminate|]. destruct (not_running s); inversion E; subst; simpl in *. assumption.
  - destruct (not_running s); inversion E; subst; assumption.
  - destruct (expired s) eqn:He; simpl in E; [|discriminate]. destruct (not_running s); inversion E; subst; simpl in *; assumption.
  - destruct (pend s); inversion E; subst; simpl in *; assumption.
  - destruct (active s); inversion E; subst; simpl in *; assumption.
  - destruct (expired s) eqn:He; [discriminate|]. inversion E; subst; simpl in *. assumption.
  - destruct (expired s) eqn:He; inversion E; subst. rewrite He in IH. assumption.
  - inversion E; subst; simpl in *. assumption.
  - inversion E; subst; simpl in *. assumption.
Qed.

Theorem lrun_monitor : forall ls s, lrun linit ls = Some s -> lmonitor ls = true.
Proof.
  intros ls s Hr. unfold lmonitor. destruct (started_at_most_once _ _ Hr) as (A & B & C).
  repeat (apply andb_true_intro; split); try (apply Nat.leb_le; lia).
  - eapply lrun_runs_follow; [exact Hr|exact linit_inv].
  - apply (lrun_after_expiry _ _ _ Hr).
Qed.

(* seeded change C03-r3m2 at model level: removing the IO on decide admits a second run and a second Decide *)
Definition mut_trace : list llabel := [LStart Started; LRun; LHandle true; LDecide; LHandle true; LStart Started; LRun; LDecide].
Lemma delete_on_decide_refuted :
  (exists s, lrun_gen true linit mut_trace = Some s) /\ decides mut_trace = 2 /\ lrun linit mut_trace = None.
Proof. split; [eexists; reflexivity|split; reflexivity]. Qed.

(* seeded change C02-r6m2: a run entered after the deadliner refused the duty (late Propose after expiry) is no run of the model *)
Definition late_trace : list llabel := [LStart Started; LRun; LDecide; LExpire; LHandle false; LStart Skipped; LRun].
Lemma run_after_expiry_refuted : lrun linit late_trace = None /\ lmonitor late_trace = false /\
  exists s, lrun linit [LStart Started; LRun; LDecide; LExpire; LHandle false; LStart Skipped] = Some s.
Proof. split; [reflexivity|split; [reflexivity|eexists; reflexivity]]. Qed.

Example life_nonvacuous :
  exists s, lrun linit [LHandle true; LStart Started; LRun; LHandle true; LDecide; LHandle true; LStart Joined; LExpire; LHandle false; LStart Skipped; LStart Joined] = Some s.
Proof. eexists; reflexivity. Qed.
