(* Cluster-level model for C01: n nodes, each running the signing half of the core workflow as
   core.Wire stitches it (core/interfaces.go; the edge list is regenerated into gen/Wiring.v and
   checked by Flow/WiringCheck.v):

     consensus --> DutyDB --> (validator client signs) --> ValidatorAPI --> ParSigDB.StoreInternal
        ParSigDB.StoreInternal --internal subscription--> ParSigEx.Broadcast  ~~network~~>
        ParSigEx (peer) --> ParSigDB.StoreExternal
        ParSigDB --threshold subscription--> SigAgg.Aggregate --> { AggSigDB.Store, Broadcaster.Broadcast }

   Share i belongs to node i (0-based here; Go uses 1-based share indices, the harness subtracts 1).
   The model is a labelled transition system  step : config -> state -> label -> option state.
   One label = one observable call on a node:

     LDecide nd k r ok   consensus handed the decided datum with signing root r for key k (= duty and
                         validator) to nd's DutyDB.Store; ok = it was stored (no clash error)
     LSign nd b o        the validator client of honest node nd signed, with share nd, the roots
                         b = [(k, r); ...] and submitted them (ValidatorAPI -> ParSigDB.StoreInternal);
                         this label is the store phase of StoreInternal (= StoreExternal on the
                         set); o is the error class observed.  For a key of a consensus duty
                         (c_ckey k) the root must be one nd's DutyDB accepted (the client signs what
                         the duty store serves); for other duties (sync message, randao, ...) the
                         client chooses the root itself and the model lets it choose ANY root, any
                         number of times -- the one-root-per-share guarantee then comes from the
                         ParSigDB rule alone.
     LRelease nd b       ParSigDB's internal subscription called ParSigEx.Broadcast on nd with b:
                         possible only if every partial of b sits in nd's own store (StoreInternal
                         returns before the internal subscribers when the store phase fails).
     LDeliver to b o     the network delivered released partials (any of them, any number of
                         times, in any order, or never: delay / reorder / duplication / loss) to
                         honest node to: ParSigDB.StoreExternal
     LInject to b o      the adversary delivered partials of its choice to honest node to: replays
                         of released partials, GENUINE partials made with a Byzantine share over any
                         root and key, and non-genuine ones (garbage signature bytes, or a signature
                         by the wrong key) under ANY share index.  (The real ParSigEx drops the
                         non-genuine ones before StoreExternal; the model does not rely on it.)
     LAggregate nd k r shares
                         nd's threshold subscription fired for k with the partials of these shares
                         over root r, SigAgg.Aggregate combined and verified them, and the object
                         reached AggSigDB.Store / Broadcaster.Broadcast
     LAggFail nd k       the threshold subscription fired but nothing was published (verification
                         of the combined signature failed, or any other error in SigAgg)

   Crashed or late nodes are nodes that take no (more) steps; nothing in the theorems needs a node
   to take a step.  Byzantine nodes have no modelled state: whatever they do shows as LInject.

   ParSigDB rules mirrored (core/parsigdb/memory.go store / getThresholdMatching): per (node, key)
   at most one entry per share index -- the same share with a different object is rejected
   (mismatch error), an identical one is ignored; the threshold output is produced when the group
   of entries with the root of the NEWLY stored partial has exactly c_t members.

   Symbolic signatures (assumption of this model, justified by the C08 theorems in both
   directions, and by BLS unforgeability): a partial (share, root, tag) is the genuine BLS partial
   signature of that share over that root iff tag = 0 (BLS signing is deterministic, so there is
   exactly one); genuine partials of share i exist only if node i's validator client made them
   (honest i) or i is Byzantine; the combination of a group verifies under the group public key
   for root r iff the group has >= t members with distinct shares, all genuine over r.

   Not modelled: trimming of expired duties and restarts that lose the in-memory stores (an
   honest node keeps its entries for the lifetime of the duty), exempt-duty caps, duty expiry. *)
From Coq Require Import List Arith Bool Lia PeanoNat.
Import ListNotations.

Definition node := nat.
Definition key := nat.
Definition root := nat.

Record partial := mkP { p_share : nat; p_root : root; p_tag : nat }.
Definition genuine (p : partial) : bool := p_tag p =? 0.
Definition partial_eqb (p q : partial) : bool :=
  (p_share p =? p_share q) && (p_root p =? p_root q) && (p_tag p =? p_tag q).

Record config := mkCfg {
  c_n : nat;                (* nodes = shares *)
  c_t : nat;                (* threshold *)
  c_byz : list node;        (* Byzantine nodes (their shares are known to the adversary) *)
  c_ckey : key -> bool      (* keys of duties whose datum comes from consensus via the DutyDB *)
}.

Definition is_byz (c : config) (i : node) : bool := (i <? c_n c) && existsb (Nat.eqb i) (c_byz c).
Definition honest (c : config) (i : node) : bool := (i <? c_n c) && negb (existsb (Nat.eqb i) (c_byz c)).

Inductive obs := ObsOk | ObsMismatch | ObsOther.

Inductive label :=
| LDecide (nd : node) (k : key) (r : root) (ok : bool)
| LSign (nd : node) (b : list (key * root)) (o : obs)
| LRelease (nd : node) (b : list (key * root))
| LDeliver (to : node) (b : list (key * partial)) (o : obs)
| LInject (to : node) (b : list (key * partial)) (o : obs)
| LAggregate (nd : node) (k : key) (r : root) (shares : list nat)
| LAggFail (nd : node) (k : key).

Definition ent := (node * key * partial)%type.
Definition fire := (node * key * root * list partial)%type.

Record state := mkS {
  stores : list ent;                    (* ParSigDB contents of all honest nodes, oldest first *)
  sent : list (key * partial);          (* partials handed to ParSigEx.Broadcast by honest nodes *)
  served : list (node * key * root);    (* roots accepted by the nodes' DutyDBs *)
  pending : list fire                   (* threshold outputs handed to SigAgg, not yet observed *)
}.

Definition init : state := mkS [] [] [] [].

Definition ent_at (nd : node) (k : key) (e : ent) : bool :=
  match e with (nd', k', _) => (nd' =? nd) && (k' =? k) end.
Definition entries (st : list ent) (nd : node) (k : key) : list partial :=
  map (fun e : ent => snd e) (filter (ent_at nd k) st).

Inductive sres := Stored | Dup | Mismatch.

(* MemDB.store + getThresholdMatching for one entry of the set *)
Definition store1 (t : nat) (st : list ent) (nd : node) (k : key) (p : partial)
  : list ent * sres * option (list partial) :=
  match find (fun q => p_share q =? p_share p) (entries st nd k) with
  | Some q => (st, if partial_eqb q p then Dup else Mismatch, None)
  | None =>
      let st' := st ++ [(nd, k, p)] in
      let grp := filter (fun q => p_root q =? p_root p) (entries st' nd k) in
      (st', Stored, if length grp =? t then Some grp else None)
  end.

Record bres := mkB { b_st : list ent; b_exist : bool; b_mis : bool; b_fired : list fire }.

(* the loop of StoreExternal over the set (a failing entry does not stop the loop) *)
Fixpoint store_batch (t : nat) (st : list ent) (nd : node) (b : list (key * partial)) : bres :=
  match b with
  | [] => mkB st false false []
  | (k, p) :: b' =>
      match store1 t st nd k p with
      | (st1, r, f) =>
          let rest := store_batch t st1 nd b' in
          mkB (b_st rest)
              (match r with Stored => false | _ => true end || b_exist rest)
              (match r with Mismatch => true | _ => false end || b_mis rest)
              (match f with Some g => [(nd, k, p_root p, g)] | None => [] end ++ b_fired rest)
      end
  end.

(* what the observed error class must agree with: "mismatching partial signed data" is returned
   only if some entry found its share already present; no error only if no entry mismatched; any
   other error (a subscriber's) is not constrained *)
Definition obs_ok (o : obs) (r : bres) : bool :=
  match o with ObsOther => true | ObsMismatch => b_exist r | ObsOk => negb (b_mis r) end.

Definition kp_eqb (a b : key * partial) : bool := (fst a =? fst b) && partial_eqb (snd a) (snd b).
Definition ent_eqb (a b : ent) : bool :=
  (fst (fst a) =? fst (fst b)) && (snd (fst a) =? snd (fst b)) && partial_eqb (snd a) (snd b).
Definition nkr_eqb (a b : node * key * root) : bool :=
  (fst (fst a) =? fst (fst b)) && (snd (fst a) =? snd (fst b)) && (snd a =? snd b).

Definition own (nd : node) (kr : key * root) : key * partial := (fst kr, mkP nd (snd kr) 0).

(* what the adversary can put on the wire *)
Definition adv_can (c : config) (s : state) (kp : key * partial) : bool :=
  existsb (kp_eqb kp) (sent s) || is_byz c (p_share (snd kp)) || negb (genuine (snd kp)).

Definition do_store (c : config) (s : state) (to : node) (b : list (key * partial)) (o : obs) : option state :=
  let r := store_batch (c_t c) (stores s) to b in
  if obs_ok o r then Some (mkS (b_st r) (sent s) (served s) (pending s ++ b_fired r)) else None.

Fixpoint take_fire (f : fire -> bool) (l : list fire) : option (list fire) :=
  match l with
  | [] => None
  | x :: l' => if f x then Some l' else option_map (cons x) (take_fire f l')
  end.

Definition list_eqb (a b : list nat) : bool :=
  (length a =? length b) && forallb (fun xy => fst xy =? snd xy) (combine a b).

Definition step (c : config) (s : state) (l : label) : option state :=
  match l with
  | LDecide nd k r ok =>
      if honest c nd
      then Some (if ok then mkS (stores s) (sent s) ((nd, k, r) :: served s) (pending s) else s)
      else None
  | LSign nd b o =>
      if honest c nd
         && forallb (fun kr => negb (c_ckey c (fst kr)) || existsb (nkr_eqb (nd, fst kr, snd kr)) (served s)) b
      then do_store c s nd (map (own nd) b) o
      else None
  | LRelease nd b =>
      if honest c nd
         && forallb (fun kr => existsb (ent_eqb (nd, fst kr, mkP nd (snd kr) 0)) (stores s)) b
      then Some (mkS (stores s) (sent s ++ map (own nd) b) (served s) (pending s))
      else None
  | LDeliver to b o =>
      if honest c to && forallb (fun kp => existsb (kp_eqb kp) (sent s)) b
      then do_store c s to b o else None
  | LInject to b o =>
      if honest c to && forallb (adv_can c s) b
      then do_store c s to b o else None
  | LAggregate nd k r shares =>
      match take_fire (fun f => match f with (nd', k', r', g) =>
                          (nd' =? nd) && (k' =? k) && (r' =? r) && list_eqb (map p_share g) shares
                          && forallb genuine g end) (pending s) with
      | Some pd => Some (mkS (stores s) (sent s) (served s) pd)
      | None => None
      end
  | LAggFail nd k =>
      match take_fire (fun f => match f with (nd', k', _, _) => (nd' =? nd) && (k' =? k) end) (pending s) with
      | Some pd => Some (mkS (stores s) (sent s) (served s) pd)
      | None => None
      end
  end.

Fixpoint run (c : config) (s : state) (ls : list label) : option state :=
  match ls with
  | [] => Some s
  | l :: ls' => match step c s l with Some s' => run c s' ls' | None => None end
  end.

(* index of the first label the model rejects (for the correspondence report) *)
Fixpoint first_reject (c : config) (s : state) (ls : list label) (i : nat) : option nat :=
  match ls with
  | [] => None
  | l :: ls' => match step c s l with Some s' => first_reject c s' ls' (S i) | None => Some i end
  end.

(* ---------------------------------------------------------------------------------------------
   The property monitor: a function of the label sequence alone.

   For every object that reaches AggSigDB.Store / Broadcaster.Broadcast (LAggregate nd k r shares):
     (valid)  it combines exactly c_t partials of distinct shares below n, each of them genuinely
              signed over (k, r): the share is Byzantine, or that honest node's validator client
              signed (k, r) earlier in the trace -- by the symbolic-signature assumption this is
              "the signature verifies under the group public key for root r";
     (single) every earlier object for the same key k -- from any node -- has the same root r. *)

Record ghost := mkG { g_signed : list (node * key * root); g_aggs : list (key * root);
                      g_valid : bool; g_single : bool }.
Definition ginit : ghost := mkG [] [] true true.
Definition g_ok (g : ghost) : bool := g_valid g && g_single g.

Fixpoint nodupb (l : list nat) : bool :=
  match l with [] => true | x :: l' => negb (existsb (Nat.eqb x) l') && nodupb l' end.

Definition agg_valid (c : config) (g : ghost) (k : key) (r : root) (shares : list nat) : bool :=
  (length shares =? c_t c) && nodupb shares
  && forallb (fun sh => (sh <? c_n c) && (is_byz c sh || existsb (nkr_eqb (sh, k, r)) (g_signed g))) shares.

Definition agg_single (g : ghost) (k : key) (r : root) : bool :=
  forallb (fun a : key * root => negb (fst a =? k) || (snd a =? r)) (g_aggs g).

Definition mon_step (c : config) (g : ghost) (l : label) : ghost :=
  match l with
  | LSign nd b _ => mkG (map (fun kr : key * root => (nd, fst kr, snd kr)) b ++ g_signed g) (g_aggs g)
                        (g_valid g) (g_single g)
  | LAggregate _ k r shares => mkG (g_signed g) ((k, r) :: g_aggs g)
                                   (g_valid g && agg_valid c g k r shares) (g_single g && agg_single g k r)
  | _ => g
  end.

Definition ghost_after (c : config) (ls : list label) : ghost := fold_left (mon_step c) ls ginit.
Definition monitor_valid (c : config) (ls : list label) : bool := g_valid (ghost_after c ls).
Definition monitor_single (c : config) (ls : list label) : bool := g_single (ghost_after c ls).
Definition monitor (c : config) (ls : list label) : bool := monitor_valid c ls && monitor_single c ls.

Fixpoint first_violation (c : config) (g : ghost) (ls : list label) (i : nat) : option nat :=
  match ls with
  | [] => None
  | l :: ls' => let g' := mon_step c g l in
                if g_ok g' then first_violation c g' ls' (S i) else Some i
  end.

(* Companion monitor (conditional on consensus agreement and duty-store uniqueness, see
   PipelineFacts.honest_sign_same): all roots signed by honest validator clients for a consensus
   key are the root decided for it. *)
Definition decided_roots (ls : list label) (k : key) : list root :=
  flat_map (fun l => match l with LDecide _ k' r true => if k' =? k then [r] else [] | _ => [] end) ls.
Definition signed_roots (ls : list label) (k : key) : list root :=
  flat_map (fun l => match l with
                     | LSign _ b _ => flat_map (fun kr : key * root => if fst kr =? k then [snd kr] else []) b
                     | _ => [] end) ls.

(* boolean form evaluated on observed traces: if all decisions for k carry one root, every signed
   root for k is that root; without a decision nothing is signed for k *)
Definition sign_same_check (ls : list label) (k : key) : bool :=
  match decided_roots ls k with
  | [] => match signed_roots ls k with [] => true | _ => false end
  | r :: rest => negb (forallb (Nat.eqb r) rest) || forallb (Nat.eqb r) (signed_roots ls k)
  end.

Definition keys_of (ls : list label) : list key :=
  flat_map (fun l => match l with
                     | LSign _ b _ => map fst b
                     | LDecide _ k _ _ => [k]
                     | _ => [] end) ls.

Definition sign_same_all (c : config) (ls : list label) : bool :=
  forallb (fun k => negb (c_ckey c k) || sign_same_check ls k) (keys_of ls).
