(* Model of the two entrances through which partial signatures come into a node:
     core/validatorapi/validatorapi.go  (every Submit*/Proposal/*Selections handler + verifyPartialSig)
     core/parsigex/parsigex.go          (handle + NewEth2Verifier), gated by core/gater.go.

   Both entrances share ONE decision rule, [lets_in]: a partial signature for validator v, share
   index i, over an object with signing root rho is let in iff v is in the cluster lock, i is one
   of v's share indices and the signature is the signature of (v, i)'s key share over rho.
   Cryptography is symbolic: a signature is a term -- [GSig v j rho] made with the key share j of
   validator v over the signing root rho, [GZero] the all-zero byte string, [GOther k] any other
   byte string (foreign key, garbage, point at infinity).  The lock is a list (validator, share
   indices); the public share of (v, i) is identified with the pair.

   Neither component keeps state between calls, so the transition system has state [unit] and a
   label carries one whole call as an observer sees it: the entrance (validator API with the
   node's own share index / peer message with what the duty gater looks at), the submitted items
   described abstractly, the error class returned and, per subscriber, what it received.
   Go's map iteration in parsigex.handle (which failing entry's error comes back) is absorbed by
   the label: the observed error must be the error of SOME failing entry.

   An [item] is one submitted partial signature as the component sees it after its own lookups:
     i_who    the validator the component resolves the submission to (validator API: through
              the beacon node's validator set / the duty definitions / pubkey-by-attestation;
              peer: the map key), or None when resolution or a well-formedness check fails
              before any signature is looked at
     i_idx    share index (validator API: always the node's own; peer: the claimed one)
     i_raw    the object is a bare signature (DutySignature), not eth2 signed data
     i_root   signing root of the object AS SUBMITTED (own message root, domain and epoch)
     i_sig    the signature term it carries
     i_prop   validator API proposals: submitted block equals the agreed block (propDataMatchesDuty)
     i_inner  validator API aggregates/contributions: inner selection proof verifies under the group key *)
From Coq Require Import List ZArith NArith Bool Lia.
Import ListNotations.

Inductive gsig := GSig (v : N) (j : Z) (rho : N) | GZero | GOther (k : N).

Definition gsig_eqb (a b : gsig) : bool :=
  match a, b with
  | GSig v j r, GSig v' j' r' => N.eqb v v' && Z.eqb j j' && N.eqb r r'
  | GZero, GZero => true
  | GOther k, GOther k' => N.eqb k k'
  | _, _ => false
  end.

Inductive gerr :=
| EPre         (* lookup of the validator / duty failed or the submission is malformed *)
| EProp        (* "consensus proposal and VC-submitted one do not match" *)
| EInner       (* inner selection proof does not verify *)
| EUnknownKey  (* "unknown public key" / "unknown pubkey, not part of cluster lock" *)
| EShareIdx    (* "invalid shareIdx" *)
| ENotEth2     (* "invalid eth2 signed data" *)
| ENoSig       (* "no signature found" (zero signature) *)
| EBadSig      (* signature does not verify / does not decode *)
| EGate        (* peer: "invalid duty" *)
| EDecode.     (* peer: "convert parsigex proto" *)

Definition gerr_eqb (a b : gerr) : bool :=
  match a, b with
  | EPre, EPre | EProp, EProp | EInner, EInner | EUnknownKey, EUnknownKey | EShareIdx, EShareIdx
  | ENotEth2, ENotEth2 | ENoSig, ENoSig | EBadSig, EBadSig | EGate, EGate | EDecode, EDecode => true
  | _, _ => false
  end.

(* The validator API returns the inner selection-proof failure with the same text as an outer
   signature failure; observed error classes are compared up to "some signature check failed". *)
Definition sigfail (e : gerr) : bool := match e with EInner | ENoSig | EBadSig => true | _ => false end.
Definition err_sim (a b : gerr) : bool := gerr_eqb a b || (sigfail a && sigfail b).

Definition lockt := list (N * list Z).

Fixpoint lookup {A} (v : N) (l : list (N * A)) : option A :=
  match l with [] => None | (k, x) :: r => if N.eqb k v then Some x else lookup v r end.

Definition memz (i : Z) (l : list Z) : bool := existsb (Z.eqb i) l.

(* THE decision rule *)
Definition lets_in (lock : lockt) (v : N) (i : Z) (rho : N) (s : gsig) : bool :=
  match lookup v lock with
  | Some sh => memz i sh && gsig_eqb s (GSig v i rho)
  | None => false
  end.

(* the verifier as the code runs it, with the error class of each refusal
   (parsigex.NewEth2Verifier; validatorapi.verifyPartialSig with i = own share index) *)
Definition verify_share (lock : lockt) (v : N) (i : Z) (raw : bool) (rho : N) (s : gsig) : option gerr :=
  match lookup v lock with
  | None => Some EUnknownKey
  | Some sh =>
      if negb (memz i sh) then Some EShareIdx
      else if raw then Some ENotEth2
      else match s with
           | GZero => Some ENoSig
           | _ => if gsig_eqb s (GSig v i rho) then None else Some EBadSig
           end
  end.

Record item := mki {
  i_who : option N; i_idx : Z; i_raw : bool; i_root : N; i_sig : gsig; i_prop : bool; i_inner : bool }.

(* core/gater.go.  Slots and epochs are unbounded naturals (binary [N]): "outside the allowed window"
   is judged on the numbers themselves, for every uint64 slot a peer can name (2^53, 2^63, 2^64-1 ...),
   never on a machine-time arithmetic that could wrap. *)
Record gate := mkg { g_type_valid : bool; g_duty_slot : N; g_now_slot : N; g_spe : N; g_allowed : N }.
Definition gate_ok (g : gate) : bool :=
  g_type_valid g && N.leb (g_duty_slot g / g_spe g) (g_now_slot g / g_spe g + g_allowed g).

Inductive entrance := VApi (self : Z) | Peer (g : gate) (decode_ok : bool).

Definition item_idx (e : entrance) (it : item) : Z :=
  match e with VApi self => self | Peer _ _ => i_idx it end.

(* None = the item passes *)
Definition item_outcome (lock : lockt) (e : entrance) (it : item) : option gerr :=
  match i_who it with
  | None => Some EPre
  | Some v =>
      if negb (i_prop it) then Some EProp
      else if negb (i_inner it) then Some EInner
      else verify_share lock v (item_idx e it) (i_raw it) (i_root it) (i_sig it)
  end.

(* what a subscriber is observed to receive: validator, share index, signing root of the delivered
   object and whether its signature verifies under the lock's public share for (validator, index)
   (tbls.Verify on the Go side against an independently computed signing root) *)
Record dobs := mkd { d_v : N; d_idx : Z; d_root : N; d_valid : bool }.

Record label := mkl {
  l_lock : lockt; l_ent : entrance; l_items : list item; l_nsubs : nat;
  l_fault : bool;   (* env fault: a beacon-node lookup the component made while handling this call (spec, domain,
                       genesis domain, fork schedule) failed, timed out, or was aborted by the caller *)
  l_err : option gerr; l_calls : list (list dobs) }.

Definition item_matches (e : entrance) (it : item) (d : dobs) : bool :=
  match i_who it with
  | Some v => N.eqb v (d_v d) && Z.eqb (item_idx e it) (d_idx d) && N.eqb (i_root it) (d_root d)
  | None => false
  end.

(* Every submitted item reaches the subscribers -- unless a LATER item of the same request is resolved
   to the same validator: the handlers collect a request into sets keyed by the validator's public
   key (per slot, or per slot and subcommittee), so a later entry may replace an earlier one. *)
Definition same_who (a b : item) : bool :=
  match i_who a, i_who b with Some x, Some y => N.eqb x y | _, _ => false end.

Fixpoint all_delivered (e : entrance) (call : list dobs) (items : list item) : bool :=
  match items with
  | [] => true
  | it :: r => (existsb (item_matches e it) call || existsb (same_who it) r) && all_delivered e call r
  end.

Definition delivered_matches (e : entrance) (items : list item) (call : list dobs) : bool :=
  forallb (fun d => d_valid d && existsb (fun it => item_matches e it d) items) call
  && all_delivered e call items.

Definition first_err (os : list (option gerr)) : option gerr :=
  hd None (filter (fun o => match o with Some _ => true | None => false end) os).

Definition all_empty (calls : list (list dobs)) : bool :=
  forallb (fun c => match c with [] => true | _ => false end) calls.

Definition opt_eqb (a b : option gerr) : bool :=
  match a, b with None, None => true | Some x, Some y => gerr_eqb x y | _, _ => false end.

Fixpoint nodupb (l : list N) : bool :=
  match l with [] => true | x :: r => negb (existsb (N.eqb x) r) && nodupb r end.

Definition own_idx_ok (e : entrance) (items : list item) : bool :=
  match e with VApi self => forallb (fun it => Z.eqb (i_idx it) self) items | Peer _ _ => true end.

Definition accepts_nf (l : label) : bool :=
  let lock := l_lock l in let e := l_ent l in
  nodupb (map fst lock) && own_idx_ok e (l_items l) && Nat.eqb (length (l_calls l)) (l_nsubs l) &&
  let os := map (item_outcome lock e) (l_items l) in
  let errs := flat_map (fun o => match o with Some x => [x] | None => [] end) os in
  let normal :=
      match errs with
      | [] => opt_eqb (l_err l) None && forallb (delivered_matches e (l_items l)) (l_calls l)
      | x :: _ =>
          all_empty (l_calls l) &&
          match e, l_err l with
          | VApi _, Some y => err_sim y x                     (* handlers walk the request in order: first failure *)
          | Peer _ _, Some y => existsb (err_sim y) errs      (* map order: some failure *)
          | _, None => false
          end
      end in
  match e with
  | VApi _ => normal
  | Peer g dec =>
      if negb (gate_ok g) then opt_eqb (l_err l) (Some EGate) && all_empty (l_calls l)
      else if negb dec then opt_eqb (l_err l) (Some EDecode) && all_empty (l_calls l)
      else normal
  end.

(* Under an env fault the decision is Reject: a verification that could not complete lets nothing
   in, whatever the submission was; any error class may be reported. *)
Definition accepts (l : label) : bool :=
  if l_fault l
  then Nat.eqb (length (l_calls l)) (l_nsubs l) && all_empty (l_calls l)
       && match l_err l with Some _ => true | None => false end
  else accepts_nf l.

(* ---- LTS form ---- *)
Definition state := unit.
Definition init : state := tt.
Definition step (s : state) (l : label) : option state := if accepts l then Some tt else None.
Fixpoint run (s : state) (ls : list label) : option state :=
  match ls with [] => Some s | l :: r => match step s l with Some s' => run s' r | None => None end end.

(* ---- the property, read off the label alone ---- *)
(* an item is valid per the rule *)
Definition item_ok (lock : lockt) (e : entrance) (it : item) : bool :=
  match i_who it with
  | Some v => i_prop it && i_inner it && negb (i_raw it) && lets_in lock v (item_idx e it) (i_root it) (i_sig it)
  | None => false
  end.

Definition ent_ok (e : entrance) (d : dobs) : bool :=
  match e with
  | VApi self => Z.eqb (d_idx d) self
  | Peer g _ => gate_ok g
  end.

Definition monitor1_nf (l : label) : bool :=
  let lock := l_lock l in let e := l_ent l in
  (* everything delivered verifies and is a submitted item that is valid per the rule *)
  forallb (fun call => forallb (fun d =>
     d_valid d && ent_ok e d && existsb (fun it => item_matches e it d && item_ok lock e it) (l_items l)) call) (l_calls l)
  (* all-or-nothing: if anything at all was delivered, every submitted item is valid per the rule *)
  && (all_empty (l_calls l) || forallb (item_ok lock e) (l_items l)).

(* ... and nothing is delivered by a call during which verification could not have completed *)
Definition monitor1 (l : label) : bool :=
  monitor1_nf l && (negb (l_fault l) || all_empty (l_calls l)).

Definition monitor (ls : list label) : bool := forallb monitor1 ls.
