(* Obligation for C20 on the regenerated construction data (gen/AppWiring.v, translator/appwire), kept in
   its own file so that a change breaking it does not break the obligations of other properties. *)
From Coq Require Import List String Bool.
From Charon Require Import Flow.AppWiringCheck gen.AppWiring.

(* dutiesCache.InvalidateCache is subscribed to chain reorg events under exactly the condition that creates
   and installs the duties cache (no further feature flag); scheduler / fetcher subscriptions as recorded *)
Lemma app_reorg_subs_ok : reorg_subs_check app_sse_subs app_cache_sites = true.
Proof. vm_compute. reflexivity. Qed.
