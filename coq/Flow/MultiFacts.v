(* Proofs about Flow/Multi.v (model of eth2wrap provide / submit). *)
From Coq Require Import List NArith Bool Arith Lia.
From Charon Require Import Flow.Multi.
Import ListNotations.
Local Open Scope N_scope.

(* ---- boolean equalities ---- *)

Lemma eclass_eqb_eq a b : eclass_eqb a b = true -> a = b.
Proof. destruct a, b; simpl; congruence. Qed.

Lemma eclass_eqb_refl a : eclass_eqb a a = true.
Proof. destruct a; reflexivity. Qed.

Lemma outcome_eqb_refl o : outcome_eqb o o = true.
Proof. destruct o; simpl; auto using N.eqb_refl, eclass_eqb_refl. Qed.

Lemma nref_eqb_eq a b : nref_eqb a b = true -> a = b.
Proof. destruct a, b; simpl; intro H; try discriminate; apply Nat.eqb_eq in H; congruence. Qed.

Lemma result_eqb_eq a b : result_eqb a b = true -> a = b.
Proof.
  destruct a, b; simpl; intro H; try discriminate; try reflexivity;
    apply andb_prop in H; destruct H as [H1 H2]; apply nref_eqb_eq in H1; subst;
    try (apply N.eqb_eq in H2); try (apply eclass_eqb_eq in H2); congruence.
Qed.

Lemma optN_eqb_eq a b : optN_eqb a b = true -> a = b.
Proof. destruct a, b; simpl; intro H; try discriminate; try reflexivity. apply N.eqb_eq in H. congruence. Qed.

(* ---- cancellation ---- *)

Lemma cancelled_mono tc t t' : t <= t' -> cancelled tc t = true -> cancelled tc t' = true.
Proof. destruct tc; simpl; auto. intros H H1. apply N.leb_le in H1. apply N.leb_le. lia. Qed.

Lemma not_cancelled_earlier tc t t' : t <= t' -> cancelled tc t' = false -> cancelled tc t = false.
Proof.
  intros H H1. destruct (cancelled tc t) eqn:E; auto.
  rewrite (cancelled_mono _ _ _ H E) in H1. discriminate.
Qed.

Lemma not_cancelled_lt c t : cancelled (Some c) t = false -> t < c.
Proof. simpl. intro H. apply N.leb_gt in H. exact H. Qed.

(* ---- nodes ---- *)

Definition nonsucc (l : list node) (i : nat) : Prop := is_succ (out (get l i)) = false.

Lemma get_cons_S n r k : get (n :: r) (S k) = get r k.
Proof. reflexivity. Qed.

Lemma get_in l k : (k < length l)%nat -> In (get l k) l.
Proof. intro H. unfold get. apply nth_In. exact H. Qed.

Lemma in_get l n : In n l -> exists k, (k < length l)%nat /\ get l k = n.
Proof. intro H. destruct (In_nth l n hung H) as [k [H1 H2]]. exists k. split; assumption. Qed.

Lemma get_beyond l k : (length l <= k)%nat -> get l k = hung.
Proof. intro H. unfold get. apply nth_overflow. exact H. Qed.

Lemma succ_not_hang o : is_succ o = true -> is_hang o = false.
Proof. destruct o; simpl; congruence. Qed.

Lemma succ_inv o : is_succ o = true -> exists a, o = Success a.
Proof. destruct o; simpl; try discriminate. eauto. Qed.

Lemma has_hang_false l : has_hang l = false -> forall n, In n l -> is_hang (out n) = false.
Proof.
  unfold has_hang. intros H n Hn. destruct (is_hang (out n)) eqn:E; auto.
  assert (existsb (fun n => is_hang (out n)) l = true) by (apply existsb_exists; eauto). congruence.
Qed.

Lemma has_hang_true l : has_hang l = true -> exists n, In n l /\ is_hang (out n) = true.
Proof. unfold has_hang. intro H. apply existsb_exists in H. exact H. Qed.

(* ---- the order oracle ---- *)

Definition in_range (l : list node) (order : list nat) : Prop :=
  Forall (fun i => (i < length l)%nat /\ is_hang (out (get l i)) = false) order.
Definition covers (l : list node) (order : list nat) : Prop :=
  forall i, (i < length l)%nat -> is_hang (out (get l i)) = false -> In i order.

Lemma order_ok_inv l order : order_ok l order = true -> in_range l order /\ covers l order /\ sorted l order = true.
Proof.
  unfold order_ok. intro H. apply andb_prop in H. destruct H as [H H3]. apply andb_prop in H. destruct H as [H1 H2].
  split; [|split]; auto.
  - apply Forall_forall. intros i Hi. rewrite forallb_forall in H1. specialize (H1 i Hi).
    apply andb_prop in H1. destruct H1 as [Ha Hb]. apply Nat.ltb_lt in Ha. apply negb_true_iff in Hb. auto.
  - intros i Hi Hh. rewrite forallb_forall in H2. specialize (H2 i).
    assert (In i (seq 0 (length l))) by (apply in_seq; lia). specialize (H2 H).
    rewrite Hh in H2. simpl in H2. apply existsb_exists in H2. destruct H2 as [x [Hx Hx']].
    apply Nat.eqb_eq in Hx'. subst. exact Hx.
Qed.

Lemma sorted_split l pre i post : sorted l (pre ++ i :: post) = true ->
  Forall (fun j => delay (get l j) <= delay (get l i)) pre /\
  Forall (fun j => delay (get l i) <= delay (get l j)) post.
Proof.
  induction pre as [|j pre IH]; simpl; intro H.
  - apply andb_prop in H. destruct H as [H _]. split; [constructor|].
    apply Forall_forall. intros x Hx. rewrite forallb_forall in H. apply N.leb_le. apply H. exact Hx.
  - apply andb_prop in H. destruct H as [H1 H2]. destruct (IH H2) as [Ha Hb]. split; auto.
    constructor; auto. rewrite forallb_forall in H1. apply N.leb_le. apply H1. apply in_or_app. right. left. reflexivity.
Qed.

Lemma first_succ_split l order :
  (exists k, In k order /\ is_succ (out (get l k)) = true) ->
  exists pre i post, order = pre ++ i :: post /\ Forall (nonsucc l) pre /\ is_succ (out (get l i)) = true.
Proof.
  induction order as [|j r IH]; intros [k [Hk Hs]].
  - destruct Hk.
  - destruct (is_succ (out (get l j))) eqn:E.
    + exists [], j, r. split; [reflexivity|]. split; [constructor|exact E].
    + destruct Hk as [Hk|Hk]; [subst; congruence|].
      destruct IH as [pre [i [post [H1 [H2 H3]]]]]; [eauto|].
      exists (j :: pre), i, post. subst. split; [reflexivity|]. split; [constructor; auto|auto].
Qed.

(* ---- min_succ ---- *)

Lemma min_succ_some l m : min_succ l = Some m ->
  (exists k, (k < length l)%nat /\ is_succ (out (get l k)) = true /\ delay (get l k) = m) /\
  (forall k, (k < length l)%nat -> is_succ (out (get l k)) = true -> m <= delay (get l k)).
Proof.
  revert m. induction l as [|n r IH]; simpl; intros m H; [discriminate|].
  destruct (is_succ (out n)) eqn:E.
  - destruct (min_succ r) as [m'|] eqn:E'.
    + inversion H; subst; clear H. destruct (IH m' eq_refl) as [[k [Hk [Hs Hd]]] Hmin]. split.
      * destruct (N.min_spec (delay n) m') as [[Hlt Hm]|[Hle Hm]]; rewrite Hm.
        -- exists 0%nat. repeat split; auto. lia.
        -- exists (S k). rewrite get_cons_S. repeat split; auto. lia.
      * intros [|k'] Hk' Hs'; simpl in *.
        -- unfold get; simpl. apply N.le_min_l.
        -- rewrite get_cons_S in *. etransitivity; [apply N.le_min_r|]. apply Hmin; auto. lia.
    + inversion H; subst; clear H. split.
      * exists 0%nat. repeat split; auto. simpl. lia.
      * intros [|k'] Hk' Hs'; [unfold get; simpl; lia|].
        rewrite get_cons_S in Hs'. exfalso.
        assert (forall r, min_succ r = None -> forall k, is_succ (out (get r k)) = false) as Hnone.
        { clear. induction r as [|n r IH]; intros H k.
          - unfold get. destruct k; reflexivity.
          - simpl in H. destruct (is_succ (out n)) eqn:E; [discriminate|].
            destruct k; [exact E|]. rewrite get_cons_S. auto. }
        rewrite (Hnone r E' k') in Hs'. discriminate.
  - destruct (IH m H) as [[k [Hk [Hs Hd]]] Hmin]. split.
    + exists (S k). rewrite get_cons_S. repeat split; auto. lia.
    + intros [|k'] Hk' Hs'; [unfold get in Hs'; simpl in Hs'; congruence|].
      rewrite get_cons_S in *. apply Hmin; auto. lia.
Qed.

Lemma min_succ_none l : min_succ l = None -> forall k, is_succ (out (get l k)) = false.
Proof.
  induction l as [|n r IH]; intros H k.
  - unfold get. destruct k; reflexivity.
  - simpl in H. destruct (is_succ (out n)) eqn:E; [discriminate|].
    destruct k; [exact E|]. rewrite get_cons_S. auto.
Qed.

Lemma min_succ_exists l k : is_succ (out (get l k)) = true -> exists m, min_succ l = Some m.
Proof.
  intro H. destruct (min_succ l) eqn:E; eauto. rewrite (min_succ_none l E k) in H. discriminate.
Qed.

(* ---- scan: inversion ---- *)

Fixpoint final (order : list nat) (last : option nat) : option nat :=
  match order with [] => last | i :: r => final r (Some i) end.

Lemma final_in order last i : final order last = Some i -> In i order \/ (order = [] /\ last = Some i).
Proof.
  revert last. induction order as [|j r IH]; simpl; intros last H; auto.
  destruct (IH _ H) as [H1|[H1 H2]]; auto. inversion H2; auto.
Qed.

Lemma final_none order : final order None = None -> order = [].
Proof.
  destruct order as [|j r]; auto. simpl. intro H. exfalso.
  assert (forall r x, final r (Some x) <> None) as Hs.
  { clear. induction r; simpl; intros; [discriminate|auto]. }
  exact (Hs r j H).
Qed.

Definition lastnow (l : list node) (base : N) (last : option nat) (now : N) : Prop :=
  match last with Some i => now = base + delay (get l i) | None => now = base end.

Lemma scan_GOk l base tc order last now i a :
  scan l base tc order last now = GOk i a ->
  exists pre post, order = pre ++ i :: post /\ Forall (nonsucc l) pre /\ out (get l i) = Success a
                   /\ cancelled tc (base + delay (get l i)) = false.
Proof.
  revert last now. induction order as [|j r IH]; simpl; intros last now H.
  - destruct (has_hang l); [destruct tc; discriminate|]. destruct (cancelled tc now); [discriminate|].
    destruct last; discriminate.
  - destruct (cancelled tc (base + delay (get l j))) eqn:Ec; [discriminate|].
    destruct (out (get l j)) eqn:Eo.
    + inversion H; subst. exists [], r. repeat split; auto.
    + destruct (IH _ _ H) as [pre [post [H1 [H2 [H3 H4]]]]]. exists (j :: pre), post. subst.
      repeat split; auto. constructor; auto. unfold nonsucc. rewrite Eo. reflexivity.
    + destruct (IH _ _ H) as [pre [post [H1 [H2 [H3 H4]]]]]. exists (j :: pre), post. subst.
      repeat split; auto. constructor; auto. unfold nonsucc. rewrite Eo. reflexivity.
    + destruct (IH _ _ H) as [pre [post [H1 [H2 [H3 H4]]]]]. exists (j :: pre), post. subst.
      repeat split; auto. constructor; auto. unfold nonsucc. rewrite Eo. reflexivity.
Qed.

Lemma scan_GLast l base tc order last now i :
  lastnow l base last now ->
  scan l base tc order last now = GLast i ->
  has_hang l = false /\ Forall (nonsucc l) order /\ final order last = Some i
  /\ cancelled tc (base + delay (get l i)) = false.
Proof.
  revert last now. induction order as [|j r IH]; simpl; intros last now Hl H.
  - destruct (has_hang l); [destruct tc; discriminate|]. destruct (cancelled tc now) eqn:Ec; [discriminate|].
    destruct last; [|discriminate]. inversion H; subst. simpl in Hl. subst. auto.
  - destruct (cancelled tc (base + delay (get l j))) eqn:Ec; [discriminate|].
    destruct (out (get l j)) eqn:Eo; [discriminate| | |];
      (destruct (IH (Some j) _ eq_refl H) as [H1 [H2 [H3 H4]]]; repeat split; auto;
       constructor; auto; unfold nonsucc; rewrite Eo; reflexivity).
Qed.

Lemma scan_GBug l base tc order last now :
  scan l base tc order last now = GBug ->
  order = [] /\ last = None /\ has_hang l = false /\ cancelled tc now = false.
Proof.
  revert last now. induction order as [|j r IH]; simpl; intros last now H.
  - destruct (has_hang l); [destruct tc; discriminate|]. destruct (cancelled tc now); [discriminate|].
    destruct last; [discriminate|]. auto.
  - destruct (cancelled tc (base + delay (get l j))); [discriminate|].
    destruct (out (get l j)); [discriminate| | |]; destruct (IH _ _ H) as [_ [H1 _]]; discriminate.
Qed.

Lemma scan_GBlocked l base tc order last now :
  scan l base tc order last now = GBlocked -> has_hang l = true /\ tc = None.
Proof.
  revert last now. induction order as [|j r IH]; simpl; intros last now H.
  - destruct (has_hang l); [destruct tc; [discriminate|auto]|]. destruct (cancelled tc now); [discriminate|].
    destruct last; discriminate.
  - destruct (cancelled tc (base + delay (get l j))); [discriminate|].
    destruct (out (get l j)); [discriminate| | |]; eauto.
Qed.

Lemma scan_GCancelled l base tc order last now t :
  scan l base tc order last now = GCancelled t -> tc <> None.
Proof.
  revert last now. induction order as [|j r IH]; simpl; intros last now H.
  - destruct tc; [discriminate|]. simpl in H. destruct (has_hang l); [discriminate|]. destruct last; discriminate.
  - destruct tc; [discriminate|]. simpl in H. destruct (out (get l j)); [discriminate| | |]; eauto.
Qed.

(* ---- scan: computation ---- *)

Lemma scan_first_succ l base tc pre i post last now a :
  Forall (nonsucc l) pre -> out (get l i) = Success a ->
  cancelled tc (base + delay (get l i)) = false ->
  Forall (fun j => delay (get l j) <= delay (get l i)) pre ->
  scan l base tc (pre ++ i :: post) last now = GOk i a.
Proof.
  intros Hn Hs Hc Hd. revert last now. induction pre as [|j pre IH]; simpl; intros last now.
  - rewrite Hc, Hs. reflexivity.
  - inversion Hn; subst. inversion Hd; subst.
    rewrite (not_cancelled_earlier tc (base + delay (get l j)) (base + delay (get l i))); [|lia|exact Hc].
    unfold nonsucc in H1. destruct (out (get l j)); [discriminate| | |]; apply IH; auto.
Qed.

Lemma scan_first_succ_nocancel l base pre i post last now a :
  Forall (nonsucc l) pre -> out (get l i) = Success a ->
  scan l base None (pre ++ i :: post) last now = GOk i a.
Proof.
  intros Hn Hs. revert last now. induction pre as [|j pre IH]; simpl; intros last now.
  - rewrite Hs. reflexivity.
  - inversion Hn; subst. unfold nonsucc in H1. destruct (out (get l j)); [discriminate| | |]; apply IH; auto.
Qed.

Lemma scan_all_fail l base order last now :
  has_hang l = false -> Forall (nonsucc l) order ->
  scan l base None order last now = match final order last with Some i => GLast i | None => GBug end.
Proof.
  intros Hh Hn. revert last now. induction order as [|j r IH]; simpl; intros last now.
  - rewrite Hh. reflexivity.
  - inversion Hn; subst. unfold nonsucc in H1. destruct (out (get l j)); [discriminate| | |]; apply IH; auto.
Qed.

Lemma scan_cancel_or_same l base c order last now :
  (exists t, scan l base (Some c) order last now = GCancelled t) \/
  scan l base (Some c) order last now = scan l base None order last now.
Proof.
  revert last now. induction order as [|j r IH]; simpl; intros last now.
  - destruct (has_hang l); eauto. destruct (c <=? now); eauto.
  - destruct (c <=? base + delay (get l j)); eauto. destruct (out (get l j)); auto.
Qed.

Lemma scan_some_not_blocked l base c order last now : scan l base (Some c) order last now <> GBlocked.
Proof. intro H. apply scan_GBlocked in H. destruct H. discriminate. Qed.

(* Every completion the loop consumed happened before the cancellation. *)
Lemma scan_GLast_uncancelled l base tc order last now i :
  scan l base tc order last now = GLast i ->
  Forall (fun j => cancelled tc (base + delay (get l j)) = false) order.
Proof.
  revert last now. induction order as [|j r IH]; simpl; intros last now H; [constructor|].
  destruct (cancelled tc (base + delay (get l j))) eqn:Ec; [discriminate|].
  destruct (out (get l j)); [discriminate| | |]; constructor; eauto.
Qed.

(* The instant of return of a group is not later than the cancellation when a node that is still
   awaited returns on cancellation: all remaining completions are of such nodes, or one of them
   is and cannot complete before the cancellation, or a node hangs. *)
Definition hearing_rest (l : list node) (base c : N) (order : list nat) : Prop :=
  Forall (fun j => hears (get l j) = true) order \/
  (exists j, In j order /\ hears (get l j) = true /\ c <= base + delay (get l j)) \/
  has_hang l = true.

Lemma scan_time_le l base c order last now :
  base <= c -> lastnow l base last now -> (now = base \/ cancelled (Some c) now = false) ->
  hearing_rest l base c order ->
  exists t, gtime l base (scan l base (Some c) order last now) = Some t /\ t <= c.
Proof.
  intros Hb. revert last now. induction order as [|i r IH]; intros last now Hl Hnow HK.
  - simpl. destruct (has_hang l) eqn:Eh.
    + simpl. eexists; split; [reflexivity|]. lia.
    + destruct (c <=? now) eqn:Ec.
      * simpl. eexists; split; [reflexivity|]. destruct Hnow as [Hn|Hn]; [lia|]. simpl in Hn. congruence.
      * apply N.leb_gt in Ec. destruct last as [k|]; simpl in *.
        -- eexists; split; [reflexivity|]. lia.
        -- eexists; split; [reflexivity|]. lia.
  - simpl. destruct (c <=? base + delay (get l i)) eqn:Ec.
    + simpl. unfold notice. destruct (c <=? base) eqn:Eb.
      * eexists; split; [reflexivity|]. lia.
      * assert (hearer l (i :: r) = true) as Hh.
        { unfold hearer. destruct HK as [HK|[[j [Hj [Hh _]]]|HK]].
          - inversion HK; subst. simpl. rewrite H1. reflexivity.
          - apply orb_true_intro. left. apply existsb_exists. eauto.
          - rewrite HK. apply orb_true_r. }
        rewrite Hh. eexists; split; [reflexivity|]. lia.
    + apply N.leb_gt in Ec.
      assert (hearing_rest l base c r) as HK'.
      { destruct HK as [HK|[[j [Hj [Hh Hc]]]|HK]].
        - left. inversion HK; auto.
        - right. left. destruct Hj as [Hj|Hj]; [subst; lia|]. eauto.
        - right. right. exact HK. }
      destruct (out (get l i)) eqn:Eo.
      * simpl. eexists; split; [reflexivity|]. lia.
      * apply IH; auto. reflexivity. right. simpl. apply N.leb_gt. exact Ec.
      * apply IH; auto. reflexivity. right. simpl. apply N.leb_gt. exact Ec.
      * apply IH; auto. reflexivity. right. simpl. apply N.leb_gt. exact Ec.
Qed.

(* with a cancellation the group always returns *)
Lemma scan_some_time l base c order last now :
  exists t, gtime l base (scan l base (Some c) order last now) = Some t.
Proof.
  destruct (scan l base (Some c) order last now) eqn:E; simpl; eauto.
  apply scan_GBlocked in E. destruct E. discriminate.
Qed.

(* ---- one group ---- *)

Lemma all_failed l order :
  has_hang l = false -> covers l order -> Forall (nonsucc l) order ->
  forallb (fun n => failed (out n)) l = true.
Proof.
  intros Hh Hc Hn. apply forallb_forall. intros n Hin.
  destruct (in_get l n Hin) as [k [Hk Hg]].
  pose proof (has_hang_false l Hh n Hin) as Hnh.
  assert (In k order) as Hko by (apply Hc; [exact Hk|rewrite Hg; exact Hnh]).
  rewrite Forall_forall in Hn. specialize (Hn k Hko). unfold nonsucc in Hn. rewrite Hg in Hn.
  destruct (out n); simpl in *; congruence.
Qed.

(* With an admissible order, the group returns the answer of a successful node of smallest latency
   as soon as one exists and the context is alive at that instant. *)
Lemma group_success l base tc order m :
  order_ok l order = true -> min_succ l = Some m -> cancelled tc (base + m) = false ->
  exists i a, run_group l base tc order = GOk i a /\ out (get l i) = Success a /\ delay (get l i) = m.
Proof.
  intros Hok Hm Hc. destruct (order_ok_inv _ _ Hok) as [Hr [Hcov Hs]].
  destruct (min_succ_some _ _ Hm) as [[k [Hk [Hks Hkd]]] Hmin].
  assert (In k order) as Hko by (apply Hcov; auto using succ_not_hang).
  destruct (first_succ_split l order) as [pre [i [post [Ho [Hpre Hi]]]]]; [eauto|].
  destruct (succ_inv _ Hi) as [a Ha].
  subst order. destruct (sorted_split _ _ _ _ Hs) as [Hle Hge].
  assert ((i < length l)%nat) as Hil.
  { unfold in_range in Hr. rewrite Forall_forall in Hr. apply Hr. apply in_or_app. right. left. reflexivity. }
  assert (delay (get l i) = m) as Hd.
  { apply N.le_antisymm; [|apply Hmin; auto].
    apply in_app_or in Hko. destruct Hko as [Hko|[Hko|Hko]].
    - rewrite Forall_forall in Hpre. specialize (Hpre k Hko). unfold nonsucc in Hpre. congruence.
    - subst. lia.
    - rewrite Forall_forall in Hge. specialize (Hge k Hko). lia. }
  exists i, a. split; [|split; auto]. unfold run_group.
  apply scan_first_succ; auto. rewrite Hd. exact Hc.
Qed.

Lemma group_ok_inv l base tc order i a :
  run_group l base tc order = GOk i a ->
  exists pre post, order = pre ++ i :: post /\ Forall (nonsucc l) pre /\ out (get l i) = Success a.
Proof.
  intro H. apply scan_GOk in H. destruct H as [pre [post [H1 [H2 [H3 _]]]]]. eauto.
Qed.

Lemma group_last_inv l base tc order i :
  order_ok l order = true -> run_group l base tc order = GLast i ->
  has_hang l = false /\ forallb (fun n => failed (out n)) l = true /\ final order None = Some i
  /\ In i order /\ (i < length l)%nat /\ In (get l i) l /\ failed (out (get l i)) = true.
Proof.
  intros Hok H. destruct (order_ok_inv _ _ Hok) as [Hr [Hcov _]].
  apply scan_GLast in H; [|reflexivity]. destruct H as [Hh [Hn [Hf _]]].
  pose proof (all_failed l order Hh Hcov Hn) as Haf.
  destruct (final_in _ _ _ Hf) as [Hin|[_ Hx]]; [|discriminate].
  unfold in_range in Hr. rewrite Forall_forall in Hr. destruct (Hr i Hin) as [Hil _].
  repeat split; auto using get_in.
  rewrite forallb_forall in Haf. apply Haf. apply get_in. exact Hil.
Qed.

Lemma group_bug_inv l base tc order :
  order_ok l order = true -> run_group l base tc order = GBug -> l = [].
Proof.
  intros Hok H. destruct (order_ok_inv _ _ Hok) as [_ [Hcov _]].
  apply scan_GBug in H. destruct H as [Ho [_ [Hh _]]]. subst order.
  destruct l as [|n r]; auto. exfalso. apply (Hcov 0%nat); simpl; [lia|].
  apply (has_hang_false _ Hh). left. reflexivity.
Qed.

Lemma group_all_fail l base order :
  order_ok l order = true -> l <> [] -> forallb (fun n => failed (out n)) l = true ->
  exists i, run_group l base None order = GLast i /\ final order None = Some i /\ In i order /\ (i < length l)%nat.
Proof.
  intros Hok Hne Hf. destruct (order_ok_inv _ _ Hok) as [Hr [Hcov _]].
  assert (has_hang l = false) as Hh.
  { unfold has_hang. destruct (existsb _ l) eqn:E; auto. apply existsb_exists in E. destruct E as [n [Hn Hx]].
    rewrite forallb_forall in Hf. specialize (Hf n Hn). destruct (out n); simpl in *; discriminate. }
  assert (Forall (nonsucc l) order) as Hn.
  { apply Forall_forall. intros k Hk. unfold in_range in Hr. rewrite Forall_forall in Hr. destruct (Hr k Hk) as [Hkl _].
    rewrite forallb_forall in Hf. specialize (Hf _ (get_in l k Hkl)). unfold nonsucc. destruct (out (get l k)); simpl in *; congruence. }
  unfold run_group. rewrite (scan_all_fail l base order None base Hh Hn).
  destruct (final order None) as [i|] eqn:Ef.
  - exists i. destruct (final_in _ _ _ Ef) as [Hin|[_ Hx]]; [|discriminate].
    unfold in_range in Hr. rewrite Forall_forall in Hr. destruct (Hr i Hin). auto.
  - apply final_none in Ef. subst order. destruct l as [|n r]; [congruence|]. exfalso.
    apply (Hcov 0%nat); simpl; [lia|]. apply (has_hang_false _ Hh). left. reflexivity.
Qed.

Lemma lift_answer (w : nat -> nref) l base tc order r :
  lift w l (run_group l base tc order) = r ->
  match r with
  | ROk n a => exists i, n = w i /\ out (get l i) = Success a
  | RSoft n a => exists i, n = w i /\ out (get l i) = Soft a
  | RErr n e => exists i, n = w i /\ out (get l i) = Err e
  | _ => True
  end.
Proof.
  intro H. destruct (run_group l base tc order) eqn:E; simpl in H; subst; simpl; auto.
  - apply group_ok_inv in E. destruct E as [pre [post [_ [_ E]]]]. eauto.
  - destruct (out (get l i)) eqn:Eo; simpl; eauto.
Qed.

(* ---- provide ---- *)

Lemma provide_model prim fb pord ford tc :
  m_res (model prim fb pord ford tc) = provide prim fb pord ford tc
  /\ m_time (model prim fb pord ford tc) = finish_time prim fb pord ford tc.
Proof. unfold model, provide, finish_time. destruct (consult prim fb (run_group prim 0 tc pord)); simpl; auto. Qed.

(* conditions under which the caller's cancellation at c is noticed at once *)
Definition pending_hearerP (c : N) (l : list node) : Prop :=
  exists j, (j < length l)%nat /\ hears (get l j) = true /\ (is_hang (out (get l j)) = true \/ c <= delay (get l j)).

Lemma pending_hearer_inv c l : pending_hearer c l = true -> pending_hearerP c l.
Proof.
  unfold pending_hearer. intro H. apply existsb_exists in H. destruct H as [n [Hn H]].
  destruct (in_get l n Hn) as [j [Hj Hg]]. exists j. rewrite Hg.
  apply andb_prop in H. destruct H as [H1 H2]. repeat split; auto.
  apply orb_prop in H2. destruct H2 as [H2|H2]; auto. right. apply N.leb_le. exact H2.
Qed.

Lemma group_time_le l base c order :
  order_ok l order = true -> base <= c ->
  (forallb hears l = true \/ exists j, (j < length l)%nat /\ hears (get l j) = true /\
                                      (is_hang (out (get l j)) = true \/ c <= base + delay (get l j))) ->
  exists t, gtime l base (run_group l base (Some c) order) = Some t /\ t <= c.
Proof.
  intros Hok Hb H. destruct (order_ok_inv _ _ Hok) as [Hr [Hcov _]].
  unfold run_group. apply scan_time_le; auto; [reflexivity|].
  destruct H as [H|[j [Hj [Hh [Hx|Hx]]]]].
  - left. apply Forall_forall. intros k Hk. unfold in_range in Hr. rewrite Forall_forall in Hr.
    destruct (Hr k Hk) as [Hkl _]. rewrite forallb_forall in H. apply H. apply get_in. exact Hkl.
  - right. right. unfold has_hang. apply existsb_exists. exists (get l j). split; auto using get_in.
  - destruct (is_hang (out (get l j))) eqn:Eh.
    + right. right. unfold has_hang. apply existsb_exists. exists (get l j). split; auto using get_in.
    + right. left. exists j. repeat split; auto.
Qed.

Lemma consult_inv prim fb g : consult prim fb g = true ->
  exists i c, g = GLast i /\ out (get prim i) = Err c /\ unavail c = true /\ fb <> [].
Proof.
  destruct g; simpl; try discriminate. destruct (out (get prim i)) eqn:E; try discriminate.
  intro H. apply andb_prop in H. destruct H as [H1 H2]. exists i, c. repeat split; auto.
  destruct fb; [discriminate|congruence].
Qed.

(* success of a primary: the result, and the instant of return *)
Lemma provide_success prim fb pord ford tc m :
  order_ok prim pord = true -> min_succ prim = Some m -> cancelled tc m = false ->
  exists i a, provide prim fb pord ford tc = ROk (P i) a /\ out (get prim i) = Success a
              /\ delay (get prim i) = m /\ finish_time prim fb pord ford tc = Some m
              /\ consulted prim fb pord tc = false.
Proof.
  intros Hok Hm Hc. destruct (group_success prim 0 tc pord m Hok Hm) as [i [a [Hg [Ha Hd]]]]; [rewrite N.add_0_l; exact Hc|].
  exists i, a. unfold provide, finish_time, consulted. rewrite Hg. simpl. rewrite Hd. auto.
Qed.

Lemma provide_fail_inv prim fb pord ford tc :
  order_ok prim pord = true ->
  match provide prim fb pord ford tc with RErr _ _ | RBug => True | _ => False end ->
  forallb (fun n => failed (out n)) prim = true.
Proof.
  intros Hok. unfold provide. destruct (consult prim fb (run_group prim 0 tc pord)) eqn:Ec.
  - intros _. destruct (consult_inv _ _ _ Ec) as [i [c [Hg _]]].
    destruct (group_last_inv _ _ _ _ _ Hok Hg) as [_ [H _]]. exact H.
  - destruct (run_group prim 0 tc pord) eqn:Hg; simpl; try contradiction.
    + intros _. destruct (group_last_inv _ _ _ _ _ Hok Hg) as [_ [H _]]. exact H.
    + intros _. rewrite (group_bug_inv _ _ _ _ Hok Hg). reflexivity.
Qed.

Lemma provide_bug_inv prim fb pord ford tc :
  order_ok prim pord = true -> order_ok fb ford = true ->
  provide prim fb pord ford tc = RBug -> prim = [].
Proof.
  intros Hp Hf. unfold provide.
  assert (forall w l base order, lift w l (run_group l base tc order) = RBug -> run_group l base tc order = GBug) as G.
  { intros w l base order H. destruct (run_group l base tc order); simpl in H; try discriminate; auto.
    destruct (out (get l i)); discriminate. }
  destruct (consult prim fb (run_group prim 0 tc pord)) eqn:Ec; intro H.
  - destruct (consult_inv _ _ _ Ec) as [i [c [_ [_ [_ Hne]]]]].
    apply G in H. apply (group_bug_inv _ _ _ _ Hf) in H. congruence.
  - apply G in H. apply (group_bug_inv _ _ _ _ Hp) in H. exact H.
Qed.

Lemma consulted_inv prim fb pord tc :
  order_ok prim pord = true -> consulted prim fb pord tc = true ->
  forallb (fun n => failed (out n)) prim = true /\ prim <> [] /\ fb <> [] /\
  exists i c, final pord None = Some i /\ (i < length prim)%nat /\ out (get prim i) = Err c /\ unavail c = true.
Proof.
  unfold consulted. intros Hok Hc. destruct (consult_inv _ _ _ Hc) as [i [c [Hg [Ho [Hu Hf]]]]].
  destruct (group_last_inv _ _ _ _ _ Hok Hg) as [_ [Haf [Hfin [_ [Hil _]]]]].
  repeat split; auto.
  - destruct prim; [simpl in Hil; lia|congruence].
  - exists i, c. auto.
Qed.

(* the fallback decision when every primary failed: it is taken on the last completing failure *)
Lemma consulted_all_fail prim fb pord :
  order_ok prim pord = true -> prim <> [] -> forallb (fun n => failed (out n)) prim = true ->
  exists i, final pord None = Some i /\ In i pord /\ (i < length prim)%nat /\
            consulted prim fb pord None = err_unavail (out (get prim i)) && negb (is_nil fb).
Proof.
  intros Hok Hne Hf. destruct (group_all_fail prim 0 pord Hok Hne Hf) as [i [Hg [Hfin [Hin Hil]]]].
  exists i. repeat split; auto. unfold consulted. rewrite Hg. simpl.
  destruct (out (get prim i)); reflexivity.
Qed.

Lemma provide_cancel_or_same prim fb pord ford c :
  provide prim fb pord ford (Some c) = RCtx \/
  provide prim fb pord ford (Some c) = provide prim fb pord ford None.
Proof.
  unfold provide, run_group.
  destruct (scan_cancel_or_same prim 0 c pord None 0) as [[t H]|H]; rewrite H; simpl; auto.
  destruct (consult prim fb (scan prim 0 None pord None 0)); auto.
  set (b := gbase prim (scan prim 0 None pord None 0)).
  destruct (scan_cancel_or_same fb b c ford None b) as [[t H']|H']; rewrite H'; simpl; auto.
Qed.

Lemma finish_some prim fb pord ford c : exists t, finish_time prim fb pord ford (Some c) = Some t.
Proof.
  unfold finish_time, run_group. destruct (consult prim fb (scan prim 0 (Some c) pord None 0)); apply scan_some_time.
Qed.

(* The call returns not later than the cancellation when an awaited node honours its context. *)
Lemma finish_le_cancel prim fb pord ford c :
  order_ok prim pord = true -> order_ok fb ford = true ->
  (forallb hears (prim ++ fb) = true \/ pending_hearerP c prim \/
   (consulted prim fb pord (Some c) = true /\ pending_hearerP c fb)) ->
  exists t, finish_time prim fb pord ford (Some c) = Some t /\ t <= c.
Proof.
  intros Hp Hf H. unfold finish_time. unfold consulted in H.
  destruct (consult prim fb (run_group prim 0 (Some c) pord)) eqn:Ec.
  - destruct (consult_inv _ _ _ Ec) as [i [cl [Hg _]]]. rewrite Hg. simpl.
    pose proof Hg as Hg'. unfold run_group in Hg'.
    pose proof (scan_GLast_uncancelled _ _ _ _ _ _ _ Hg') as Hunc.
    destruct (group_last_inv _ _ _ _ _ Hp Hg) as [Hh [_ [_ [Hin _]]]].
    assert (delay (get prim i) < c) as Hlt.
    { rewrite Forall_forall in Hunc. specialize (Hunc i Hin). apply not_cancelled_lt in Hunc. lia. }
    apply group_time_le; auto; [lia|].
    destruct H as [H|[[j [Hj [Hhj Hx]]]|[_ [j [Hj [Hhj Hx]]]]]].
    + left. rewrite forallb_app in H. apply andb_prop in H. tauto.
    + exfalso. destruct Hx as [Hx|Hx].
      * rewrite (has_hang_false _ Hh _ (get_in _ _ Hj)) in Hx. discriminate.
      * destruct (order_ok_inv _ _ Hp) as [_ [Hcov _]].
        assert (In j pord) as Hjo by (apply Hcov; auto; apply (has_hang_false _ Hh); apply get_in; exact Hj).
        rewrite Forall_forall in Hunc. specialize (Hunc j Hjo). apply not_cancelled_lt in Hunc. lia.
    + right. exists j. repeat split; auto. destruct Hx as [Hx|Hx]; auto. right. lia.
  - apply group_time_le; auto; [lia|].
    destruct H as [H|[[j [Hj [Hhj Hx]]]|[H _]]].
    + left. rewrite forallb_app in H. apply andb_prop in H. tauto.
    + right. exists j. repeat split; auto.
    + discriminate.
Qed.

Lemma provide_blocked_inv prim fb pord ford tc :
  order_ok prim pord = true -> order_ok fb ford = true ->
  provide prim fb pord ford tc = RBlocked \/ finish_time prim fb pord ford tc = None ->
  tc = None /\ (has_hang prim || has_hang fb) = true.
Proof.
  intros Hp Hf. unfold provide, finish_time.
  assert (forall l base order w, order_ok l order = true ->
            lift w l (run_group l base tc order) = RBlocked \/ gtime l base (run_group l base tc order) = None ->
            tc = None /\ has_hang l = true) as G.
  { intros l base order w Hok H. destruct (run_group l base tc order) eqn:E; simpl in H.
    - destruct H; discriminate.
    - destruct (group_last_inv _ _ _ _ _ Hok E) as [_ [_ [_ [_ [_ [_ Hfl]]]]]].
      destruct H as [H|H]; [|discriminate]. destruct (out (get l i)); simpl in *; discriminate.
    - destruct H; discriminate.
    - apply scan_GBlocked in E. destruct E. auto.
    - destruct H; discriminate. }
  destruct (consult prim fb (run_group prim 0 tc pord)); intro H.
  - destruct (G _ _ _ _ Hf H) as [H1 H2]. rewrite H2. split; auto using orb_true_r.
  - destruct (G _ _ _ _ Hp H) as [H1 H2]. rewrite H2. auto.
Qed.

(* ---- the main theorem: every label the model accepts passes the monitor ---- *)

Lemma accepts_inv c : accepts c = true ->
  order_ok (c_prim c) (c_pord c) = true /\ order_ok (c_fb c) (c_ford c) = true /\
  o_res c = provide (c_prim c) (c_fb c) (c_pord c) (c_ford c) (c_tc c) /\
  o_time c = finish_time (c_prim c) (c_fb c) (c_pord c) (c_ford c) (c_tc c) /\
  length (o_sf c) = length (c_fb c) /\
  fb_called_ok (consulted (c_prim c) (c_fb c) (c_pord c) (c_tc c)) (o_sf c) = true.
Proof.
  unfold accepts. intro H.
  repeat (apply andb_prop in H; let H' := fresh "A" in destruct H as [H H']).
  destruct (provide_model (c_prim c) (c_fb c) (c_pord c) (c_ford c) (c_tc c)) as [E1 E2].
  apply result_eqb_eq in A4. apply optN_eqb_eq in A3. apply Nat.eqb_eq in A1.
  repeat split; auto; congruence.
Qed.

Lemma not_called_none sf : forallb (nstat_eqb NotCalled) sf = true -> existsb called sf = false.
Proof.
  induction sf as [|s r IH]; simpl; auto. intro H. apply andb_prop in H. destruct H as [H1 H2].
  destruct s; simpl in *; try discriminate. auto.
Qed.

Lemma mon_success c : accepts c = true -> m_success c = true.
Proof.
  intro Hacc. destruct (accepts_inv c Hacc) as [Hp [Hf [Hres [Htime [Hlen Hcall]]]]].
  (* success *)
    unfold m_success. destruct (min_succ (c_prim c)) as [m|] eqn:Em; auto.
    destruct (cancelled (c_tc c) m) eqn:Ec; auto.
    destruct (provide_success (c_prim c) (c_fb c) (c_pord c) (c_ford c) (c_tc c) m Hp Em Ec)
      as [i [a [H1 [H2 [H3 [H4 _]]]]]].
    rewrite Htime, H4, Hres, H1. simpl. rewrite N.eqb_refl, H2, H3, N.eqb_refl. simpl. rewrite N.eqb_refl. reflexivity.
Qed.

Lemma mon_fail c : accepts c = true -> m_fail c = true.
Proof.
  intro Hacc. destruct (accepts_inv c Hacc) as [Hp [Hf [Hres [Htime [Hlen Hcall]]]]].
  (* fails only if all fail *)
    unfold m_fail. pose proof (provide_fail_inv (c_prim c) (c_fb c) (c_pord c) (c_ford c) (c_tc c) Hp) as H.
    pose proof (provide_bug_inv (c_prim c) (c_fb c) (c_pord c) (c_ford c) (c_tc c) Hp Hf) as B.
    rewrite <- Hres in H, B. destruct (o_res c); auto. rewrite B; reflexivity.
Qed.

Lemma mon_fallback c : accepts c = true -> m_fallback c = true.
Proof.
  intro Hacc. destruct (accepts_inv c Hacc) as [Hp [Hf [Hres [Htime [Hlen Hcall]]]]].
  (* fallback rule *)
    unfold m_fallback, fb_any_called, fb_all_called.
    destruct (consulted (c_prim c) (c_fb c) (c_pord c) (c_tc c)) eqn:Ec; simpl in Hcall.
    + destruct (consulted_inv _ _ _ _ Hp Ec) as [Haf [Hne [Hfne [i [cl [Hfin [Hil [Ho Hu]]]]]]]].
      repeat (apply andb_true_intro; split).
      * rewrite Haf. destruct (c_prim c); [congruence|]. simpl. destruct (existsb called (o_sf c)); reflexivity.
      * rewrite Hcall. destruct (o_sf c); [destruct (c_fb c); [congruence|discriminate]|].
        simpl. destruct (_ && _); reflexivity.
      * destruct (forallb (fun n => not_unavail (out n)) (c_prim c)) eqn:En; auto. exfalso.
        rewrite forallb_forall in En. specialize (En _ (get_in _ _ Hil)). rewrite Ho in En. simpl in En.
        rewrite Hu in En. discriminate.
    + rewrite (not_called_none _ Hcall). simpl.
      destruct (match c_tc c with None => true | Some _ => false end && negb (is_nil (c_prim c))
                && negb (is_nil (c_fb c)) && forallb (fun n => err_unavail (out n)) (c_prim c)) eqn:E;
        [|destruct (forallb (fun n => not_unavail (out n)) (c_prim c)); reflexivity].
      exfalso. apply andb_prop in E. destruct E as [E E4]. apply andb_prop in E. destruct E as [E E3].
      apply andb_prop in E. destruct E as [E1 E2].
      destruct (c_tc c) eqn:Etc; [discriminate|].
      assert (c_prim c <> []) as Hne by (destruct (c_prim c); [discriminate|congruence]).
      assert (forallb (fun n => failed (out n)) (c_prim c) = true) as Haf.
      { apply forallb_forall. intros n Hn. rewrite forallb_forall in E4. specialize (E4 n Hn). destruct (out n); simpl in *; congruence. }
      destruct (consulted_all_fail (c_prim c) (c_fb c) (c_pord c) Hp Hne Haf) as [i [_ [_ [Hil Hc]]]].
      rewrite Ec in Hc. rewrite forallb_forall in E4. rewrite (E4 _ (get_in _ _ Hil)), E3 in Hc. discriminate.
Qed.

Lemma mon_cancel c : accepts c = true -> m_cancel c = true.
Proof.
  intro Hacc. destruct (accepts_inv c Hacc) as [Hp [Hf [Hres [Htime [Hlen Hcall]]]]].
  unfold m_cancel. destruct (c_tc c) as [tc|] eqn:Etc; auto.
  destruct (finish_some (c_prim c) (c_fb c) (c_pord c) (c_ford c) tc) as [t0 Ht0].
  destruct (forallb hears (c_prim c ++ c_fb c) || pending_hearer tc (c_prim c)
            || fb_any_called c && pending_hearer tc (c_fb c)) eqn:E.
  - destruct (finish_le_cancel (c_prim c) (c_fb c) (c_pord c) (c_ford c) tc Hp Hf) as [t [H1 H2]].
    + apply orb_prop in E. destruct E as [E|E]; [apply orb_prop in E; destruct E as [E|E]|].
      * left. exact E.
      * right. left. apply pending_hearer_inv. exact E.
      * right. right. apply andb_prop in E. destruct E as [E1 E2]. split; [|apply pending_hearer_inv; exact E2].
        destruct (consulted (c_prim c) (c_fb c) (c_pord c) (Some tc)) eqn:Ec; auto.
        simpl in Hcall. unfold fb_any_called in E1. rewrite (not_called_none _ Hcall) in E1. discriminate.
    + rewrite Htime, H1. apply N.leb_le. exact H2.
  - rewrite Htime, Ht0. reflexivity.
Qed.

Lemma mon_answer c : accepts c = true -> m_answer c = true.
Proof.
  intro Hacc. destruct (accepts_inv c Hacc) as [Hp [Hf [Hres [Htime [Hlen Hcall]]]]].
  (* the answer is the node's own *)
    unfold m_answer. rewrite Hres. unfold provide.
    destruct (consult (c_prim c) (c_fb c) (run_group (c_prim c) 0 (c_tc c) (c_pord c))).
    + set (b := gbase (c_prim c) (run_group (c_prim c) 0 (c_tc c) (c_pord c))).
      pose proof (lift_answer F (c_fb c) b (c_tc c) (c_ford c) _ eq_refl) as H.
      destruct (lift F (c_fb c) (run_group (c_fb c) b (c_tc c) (c_ford c))); auto;
        destruct H as [i [H1 H2]]; subst; simpl; rewrite H2; apply outcome_eqb_refl.
    + pose proof (lift_answer P (c_prim c) 0 (c_tc c) (c_pord c) _ eq_refl) as H.
      destruct (lift P (c_prim c) (run_group (c_prim c) 0 (c_tc c) (c_pord c))); auto;
        destruct H as [i [H1 H2]]; subst; simpl; rewrite H2; apply outcome_eqb_refl.
Qed.

Lemma mon_blocked c : accepts c = true -> m_blocked c = true.
Proof.
  intro Hacc. destruct (accepts_inv c Hacc) as [Hp [Hf [Hres [Htime [Hlen Hcall]]]]].
  (* blocked only on a hung node *)
    unfold m_blocked. destruct (stuck c) eqn:Es; auto.
    destruct (provide_blocked_inv (c_prim c) (c_fb c) (c_pord c) (c_ford c) (c_tc c) Hp Hf) as [H1 H2].
    + unfold stuck in Es. apply orb_prop in Es. destruct Es as [Es|Es].
      * left. rewrite <- Hres. destruct (o_res c); try discriminate. reflexivity.
      * right. rewrite <- Htime. destruct (o_time c); try discriminate. reflexivity.
    + rewrite H1. exact H2.
Qed.

Theorem accepts_monitor c : accepts c = true -> monitor c = true.
Proof.
  intro H. unfold monitor.
  rewrite (mon_success c H), (mon_fail c H), (mon_fallback c H), (mon_cancel c H), (mon_answer c H), (mon_blocked c H).
  reflexivity.
Qed.

Lemma monitor_orders c po fo : monitor (with_orders c po fo) = monitor c.
Proof. destruct c; reflexivity. Qed.

Theorem accepts_any_monitor c : accepts_any c = true -> monitor c = true.
Proof.
  unfold accepts_any. destruct (accepts c) eqn:E; [intros _; apply accepts_monitor; exact E|].
  destruct (strict (c_prim c) (c_pord c) && strict (c_fb c) (c_ford c)); [discriminate|].
  intro H. apply existsb_exists in H. destruct H as [po [_ H]]. apply existsb_exists in H. destruct H as [fo [_ H]].
  rewrite <- (monitor_orders c po fo). apply accepts_monitor. exact H.
Qed.

(* ---- Prop-level readings ---- *)

(* The call returns a primary's successful answer iff some primary answers successfully. *)
Theorem succeeds_iff_some_primary_succeeds prim fb pord ford :
  order_ok prim pord = true ->
  (exists i a, provide prim fb pord ford None = ROk (P i) a) <-> (exists i a, out (get prim i) = Success a).
Proof.
  intro Hok. split.
  - intros [i [a H]]. unfold provide in H.
    destruct (consult prim fb (run_group prim 0 None pord)).
    + pose proof (lift_answer F fb _ None ford _ H) as [j [Hj _]]. discriminate.
    + pose proof (lift_answer P prim 0 None pord _ H) as [j [Hj Ho]]. inversion Hj; subst. eauto.
  - intros [i [a H]]. destruct (min_succ_exists prim i) as [m Hm]; [rewrite H; reflexivity|].
    destruct (provide_success prim fb pord ford None m Hok Hm eq_refl) as [i' [a' [H1 _]]]. eauto.
Qed.

(* ... and then it is the answer of the first successful primary in completion order. *)
Theorem returns_first_success prim fb pord ford tc i a :
  provide prim fb pord ford tc = ROk (P i) a ->
  exists pre post, pord = pre ++ i :: post /\ Forall (nonsucc prim) pre /\ out (get prim i) = Success a.
Proof.
  unfold provide. destruct (consult prim fb (run_group prim 0 tc pord)) eqn:Ec; intro H.
  - pose proof (lift_answer F fb _ tc ford _ H) as [j [Hj _]]. discriminate.
  - destruct (run_group prim 0 tc pord) eqn:Eg; simpl in H; try discriminate.
    + inversion H; subst. eapply group_ok_inv. exact Eg.
    + apply scan_GLast in Eg; [|reflexivity]. destruct Eg as [_ [Hn [Hf _]]].
      destruct (out (get prim i0)) eqn:Eo; try discriminate. inversion H; subst.
      destruct (final_in _ _ _ Hf) as [Hin|[_ Hx]]; [|discriminate].
      rewrite Forall_forall in Hn. specialize (Hn _ Hin). unfold nonsucc in Hn. rewrite Eo in Hn. discriminate.
Qed.

(* "Does not wait": once the completions up to the first success have been seen the result is
   final -- whatever completes later, whatever the other nodes (slower, failing, hung) and the
   fallbacks are. *)
Theorem first_success_final prim prim' fb fb' pre i a post post' ford ford' :
  (forall j, In j (pre ++ [i]) -> get prim j = get prim' j) ->
  Forall (nonsucc prim) pre -> out (get prim i) = Success a ->
  provide prim fb (pre ++ i :: post) ford None = ROk (P i) a /\
  provide prim' fb' (pre ++ i :: post') ford' None = ROk (P i) a.
Proof.
  intros Heq Hn Hs.
  assert (Forall (nonsucc prim') pre) as Hn'.
  { apply Forall_forall. intros j Hj. rewrite Forall_forall in Hn. specialize (Hn j Hj).
    unfold nonsucc in *. rewrite <- Heq; auto. apply in_or_app. auto. }
  assert (out (get prim' i) = Success a) as Hs' by (rewrite <- Heq; auto; apply in_or_app; right; left; reflexivity).
  unfold provide, run_group.
  rewrite (scan_first_succ_nocancel prim 0 pre i post None 0 a Hn Hs).
  rewrite (scan_first_succ_nocancel prim' 0 pre i post' None 0 a Hn' Hs'). simpl. auto.
Qed.

(* In time: the call returns at the latency of the fastest successful primary (if the caller has
   not cancelled before that instant). *)
Theorem latency_is_fastest_success prim fb pord ford tc m :
  order_ok prim pord = true -> min_succ prim = Some m -> cancelled tc m = false ->
  finish_time prim fb pord ford tc = Some m /\
  exists i a, provide prim fb pord ford tc = ROk (P i) a /\ out (get prim i) = Success a /\ delay (get prim i) = m.
Proof.
  intros Hok Hm Hc. destruct (provide_success prim fb pord ford tc m Hok Hm Hc) as [i [a [H1 [H2 [H3 [H4 _]]]]]].
  split; eauto.
Qed.

(* An error is returned only when every primary completed without a successful answer. *)
Theorem fails_only_if_all_fail prim fb pord ford tc :
  order_ok prim pord = true ->
  (provide prim fb pord ford tc = RBug \/ exists n e, provide prim fb pord ford tc = RErr n e) ->
  forall k, (k < length prim)%nat -> failed (out (get prim k)) = true.
Proof.
  intros Hok H k Hk. pose proof (provide_fail_inv prim fb pord ford tc Hok) as G.
  assert (forallb (fun n => failed (out n)) prim = true) as Haf.
  { apply G. destruct H as [H|[n [e H]]]; rewrite H; exact I. }
  rewrite forallb_forall in Haf. apply Haf. apply get_in. exact Hk.
Qed.

(* The internal error "bug: no forkjoin results" is returned only when no primary is configured. *)
Theorem bug_only_without_primaries prim fb pord ford tc :
  order_ok prim pord = true -> order_ok fb ford = true ->
  provide prim fb pord ford tc = RBug -> prim = [].
Proof. exact (provide_bug_inv prim fb pord ford tc). Qed.

(* The primaries' error that is returned is that of the LAST completing primary. *)
Theorem error_is_last_completing prim fb pord ford tc i e :
  order_ok prim pord = true -> provide prim fb pord ford tc = RErr (P i) e ->
  final pord None = Some i /\ out (get prim i) = Err e.
Proof.
  intros Hok. unfold provide. destruct (consult prim fb (run_group prim 0 tc pord)) eqn:Ec; intro H.
  - pose proof (lift_answer F fb _ tc ford _ H) as [j [Hj _]]. discriminate.
  - destruct (run_group prim 0 tc pord) eqn:Eg; simpl in H; try discriminate.
    destruct (group_last_inv _ _ _ _ _ Hok Eg) as [_ [_ [Hf _]]].
    destruct (out (get prim i0)) eqn:Eo; try discriminate. inversion H; subst. auto.
Qed.

(* Fallback rule, unambiguous cases. *)
Theorem fallback_all_unavailable prim fb pord :
  order_ok prim pord = true -> prim <> [] -> fb <> [] ->
  (forall n, In n prim -> err_unavail (out n) = true) ->
  consulted prim fb pord None = true.
Proof.
  intros Hok Hne Hfb Hall.
  assert (forallb (fun n => failed (out n)) prim = true) as Haf.
  { apply forallb_forall. intros n Hn. specialize (Hall n Hn). destruct (out n); simpl in *; congruence. }
  destruct (consulted_all_fail prim fb pord Hok Hne Haf) as [i [_ [_ [Hil Hc]]]].
  rewrite Hc, (Hall _ (get_in _ _ Hil)). destruct fb; [congruence|reflexivity].
Qed.

Theorem fallback_none_unavailable prim fb pord tc :
  order_ok prim pord = true ->
  (forall n, In n prim -> not_unavail (out n) = true) ->
  consulted prim fb pord tc = false.
Proof.
  intros Hok Hall. destruct (consulted prim fb pord tc) eqn:Ec; auto. exfalso.
  destruct (consulted_inv _ _ _ _ Hok Ec) as [_ [_ [_ [i [c [_ [Hil [Ho Hu]]]]]]]].
  specialize (Hall _ (get_in _ _ Hil)). rewrite Ho in Hall. simpl in Hall. rewrite Hu in Hall. discriminate.
Qed.

(* Mixed failures: the decision is taken on the class of the last completing failure alone. *)
Theorem fallback_mixed_depends_on_order prim fb pord :
  order_ok prim pord = true -> prim <> [] -> fb <> [] ->
  (forall n, In n prim -> failed (out n) = true) ->
  exists i, final pord None = Some i /\ consulted prim fb pord None = err_unavail (out (get prim i)).
Proof.
  intros Hok Hne Hfb Hall.
  assert (forallb (fun n => failed (out n)) prim = true) as Haf by (apply forallb_forall; exact Hall).
  destruct (consulted_all_fail prim fb pord Hok Hne Haf) as [i [Hf [_ [_ Hc]]]].
  exists i. split; auto. rewrite Hc. destruct fb; [congruence|]. simpl. apply andb_true_r.
Qed.

(* The same two failures, completing in the two possible orders, give the two decisions. *)
Definition mixed_a : list node := [mkn (Err Other) 1 false; mkn (Err Timeout) 2 false].
Definition mixed_b : list node := [mkn (Err Other) 2 false; mkn (Err Timeout) 1 false].
Definition one_fb : list node := [mkn (Success 7) 1 false].
Lemma fallback_mixed_witness :
  order_ok mixed_a [0; 1]%nat = true /\ order_ok mixed_b [1; 0]%nat = true /\
  provide mixed_a one_fb [0; 1]%nat [0%nat] None = ROk (F 0) 7 /\
  provide mixed_b one_fb [1; 0]%nat [0%nat] None = RErr (P 0) Other.
Proof. vm_compute. auto. Qed.

(* Fallbacks are consulted only after every primary failed, and never when there is none. *)
Theorem consulted_only_after_all_failed prim fb pord tc :
  order_ok prim pord = true -> consulted prim fb pord tc = true ->
  prim <> [] /\ fb <> [] /\ forall k, (k < length prim)%nat -> failed (out (get prim k)) = true.
Proof.
  intros Hok Hc. destruct (consulted_inv _ _ _ _ Hok Hc) as [Haf [H1 [H2 _]]]. repeat split; auto.
  intros k Hk. rewrite forallb_forall in Haf. apply Haf. apply get_in. exact Hk.
Qed.

Theorem no_fallback_when_a_primary_succeeds prim fb pord i a :
  order_ok prim pord = true -> out (get prim i) = Success a -> consulted prim fb pord None = false.
Proof.
  intros Hok H. destruct (min_succ_exists prim i) as [m Hm]; [rewrite H; reflexivity|].
  destruct (provide_success prim fb pord [] None m Hok Hm eq_refl) as [_ [_ [_ [_ [_ [_ Hc]]]]]]. exact Hc.
Qed.

(* When the fallbacks are consulted the result is that of the same fork-join over the fallbacks,
   started when the last primary failed; in particular it succeeds iff some fallback succeeds. *)
Theorem fallback_result prim fb pord ford :
  order_ok prim pord = true -> order_ok fb ford = true -> consulted prim fb pord None = true ->
  ((exists j a, provide prim fb pord ford None = ROk (F j) a) <-> (exists j a, out (get fb j) = Success a)).
Proof.
  intros Hp Hf Hc. unfold consulted in Hc. unfold provide. rewrite Hc. split.
  - intros [j [a H]]. pose proof (lift_answer F fb _ None ford _ H) as [j' [Hj Ho]]. inversion Hj; subst. eauto.
  - intros [j [a H]]. destruct (min_succ_exists fb j) as [m Hm]; [rewrite H; reflexivity|].
    destruct (group_success fb (gbase prim (run_group prim 0 None pord)) None ford m Hf Hm eq_refl) as [j' [a' [Hg _]]].
    rewrite Hg. simpl. eauto.
Qed.

Theorem zero_primaries prim_ord fb ford tc :
  provide [] fb [] ford tc = (if cancelled tc 0 then RCtx else RBug) /\ consulted [] fb prim_ord tc = false.
Proof.
  split.
  - unfold provide, run_group. simpl. destruct (cancelled tc 0); reflexivity.
  - unfold consulted, consult. destruct (run_group [] 0 tc prim_ord) eqn:E; auto.
    unfold get. destruct i; reflexivity.
Qed.

(* Cancellation (node calls honour their context): the call returns, not later than the instant
   of cancellation, with ctx.Err() or with what it would have returned anyway. *)
Theorem cancel_returns prim fb pord ford c :
  order_ok prim pord = true -> order_ok fb ford = true ->
  provide prim fb pord ford (Some c) <> RBlocked /\
  (exists t, finish_time prim fb pord ford (Some c) = Some t /\
     ((forallb hears (prim ++ fb) = true \/ pending_hearerP c prim \/
       (consulted prim fb pord (Some c) = true /\ pending_hearerP c fb)) -> t <= c)) /\
  (provide prim fb pord ford (Some c) = RCtx \/
   provide prim fb pord ford (Some c) = provide prim fb pord ford None).
Proof.
  intros Hp Hf. split; [|split].
  - intro H. destruct (provide_blocked_inv prim fb pord ford (Some c) Hp Hf (or_introl H)) as [H1 _]. discriminate.
  - destruct (finish_some prim fb pord ford c) as [t Ht]. exists t. split; auto. intro H.
    destruct (finish_le_cancel prim fb pord ford c Hp Hf H) as [t' [H1 H2]]. congruence.
  - apply provide_cancel_or_same.
Qed.

(* Whatever is returned is one configured node's own answer or error. *)
Theorem returns_one_nodes_answer prim fb pord ford tc :
  match provide prim fb pord ford tc with
  | ROk (P i) a => out (get prim i) = Success a
  | ROk (F j) a => out (get fb j) = Success a
  | RSoft (P i) a => out (get prim i) = Soft a
  | RSoft (F j) a => out (get fb j) = Soft a
  | RErr (P i) e => out (get prim i) = Err e
  | RErr (F j) e => out (get fb j) = Err e
  | _ => True
  end.
Proof.
  unfold provide. destruct (consult prim fb (run_group prim 0 tc pord)).
  - set (b := gbase prim (run_group prim 0 tc pord)).
    pose proof (lift_answer F fb b tc ford _ eq_refl) as H.
    destruct (lift F fb (run_group fb b tc ford)); auto; destruct H as [i [H1 H2]]; subst; exact H2.
  - pose proof (lift_answer P prim 0 tc pord _ eq_refl) as H.
    destruct (lift P prim (run_group prim 0 tc pord)); auto; destruct H as [i [H1 H2]]; subst; exact H2.
Qed.

(* ---- submit ---- *)

Definition sget (l : list (soutcome * N)) (i : nat) : soutcome := fst (nth i l (SHang, 0)).

Lemma get_inj l i : out (get (map inj l) i) = match sget l i with SOk => Success 0 | SErr c => Err c | SHang => Hang end.
Proof.
  unfold get, sget. change hung with (inj (SHang, 0)). rewrite map_nth. reflexivity.
Qed.

Theorem submit_succeeds_iff prim fb pord ford :
  order_ok (map inj prim) pord = true ->
  (exists i, submit prim fb pord ford None = SROk (P i)) <-> (exists i, sget prim i = SOk).
Proof.
  intro Hok. unfold submit. split.
  - intros [i H]. pose proof (returns_one_nodes_answer (map inj prim) (map inj fb) pord ford None) as G.
    destruct (provide (map inj prim) (map inj fb) pord ford None) as [n a|n a|n e| | |]; simpl in H; try discriminate;
      inversion H; subst; rewrite get_inj in G; exists i; destruct (sget prim i); congruence.
  - intros [i H].
    destruct (proj2 (succeeds_iff_some_primary_succeeds (map inj prim) (map inj fb) pord ford Hok)) as [i' [a' G]].
    + exists i, 0. rewrite get_inj, H. reflexivity.
    + exists i'. rewrite G. reflexivity.
Qed.

Theorem submit_fails_only_if_all_fail prim fb pord ford tc :
  order_ok (map inj prim) pord = true ->
  (submit prim fb pord ford tc = SRBug \/ exists n e, submit prim fb pord ford tc = SRErr n e) ->
  forall k, (k < length prim)%nat -> exists c, sget prim k = SErr c.
Proof.
  intros Hok H k Hk. unfold submit in H.
  assert (failed (out (get (map inj prim) k)) = true) as Hf.
  { apply (fails_only_if_all_fail (map inj prim) (map inj fb) pord ford tc Hok); [|rewrite map_length; exact Hk].
    destruct (provide (map inj prim) (map inj fb) pord ford tc) as [n a|n a|n e| | |]; simpl in H.
    - destruct H as [H|[n' [e' H]]]; discriminate.
    - destruct H as [H|[n' [e' H]]]; discriminate.
    - right. eauto.
    - left. reflexivity.
    - destruct H as [H|[n' [e' H]]]; discriminate.
    - destruct H as [H|[n' [e' H]]]; discriminate. }
  rewrite get_inj in Hf. destruct (sget prim k); simpl in Hf; try discriminate. eauto.
Qed.

Theorem submit_cancel_returns prim fb pord ford c :
  order_ok (map inj prim) pord = true -> order_ok (map inj fb) ford = true ->
  submit prim fb pord ford (Some c) <> SRBlocked.
Proof.
  intros Hp Hf H. unfold submit in H.
  destruct (cancel_returns (map inj prim) (map inj fb) pord ford c Hp Hf) as [G _].
  destruct (provide (map inj prim) (map inj fb) pord ford (Some c)); simpl in H; try discriminate. congruence.
Qed.

(* ---- non-vacuity ---- *)

(* a hung primary, a failing one and two successful ones: the faster success wins at its latency;
   the label observed on the real client for this script is accepted and passes the monitor *)
Definition ex_case : case :=
  mkc Plain [mkn Hang 0 false; mkn (Err Gateway) 3 false; mkn (Success 101) 5 false; mkn (Success 102) 900 false] [mkn (Success 200) 1 false]
      [1; 2; 3]%nat [0%nat] None (ROk (P 2) 101) (Some 5)
      [Cancelled 5; Done 3; Done 5; Cancelled 5] [NotCalled].
Lemma ex_case_accepted : accepts ex_case = true /\ monitor ex_case = true.
Proof. vm_compute. auto. Qed.

(* all primaries unavailable, fallback group with a hung node: first successful fallback *)
Definition ex_fallback : case :=
  mkc Submit [mkn (Err Timeout) 4 false; mkn (Err Syncing) 2 false] [mkn Hang 0 false; mkn (Success 0) 7 false]
      [1; 0]%nat [1%nat] None (ROk (F 1) 0) (Some 11)
      [Done 4; Done 2] [Cancelled 11; Done 11].
Lemma ex_fallback_accepted : accepts ex_fallback = true /\ monitor ex_fallback = true.
Proof. vm_compute. auto. Qed.

(* the monitor is not trivially true: waiting for the slower node, missing the fallback, or
   answering although cancelled late are all rejected *)
Lemma monitor_rejects :
  monitor (mkc Plain [mkn (Success 101) 5 false; mkn (Success 102) 900 false] [] [0; 1]%nat [] None
               (ROk (P 0) 101) (Some 900) [Done 5; Done 900] []) = false /\
  monitor (mkc Plain [mkn (Err Timeout) 5 false] [mkn (Success 200) 1 false] [0%nat] [0%nat] None
               (RErr (P 0) Timeout) (Some 5) [Done 5] [NotCalled]) = false /\
  monitor (mkc Plain [mkn (Err Other) 5 false] [mkn (Success 200) 1 false] [0%nat] [0%nat] None
               (ROk (F 0) 200) (Some 6) [Done 5] [Done 6]) = false /\
  monitor (mkc Plain [mkn Hang 0 false] [] [] [] (Some 10) RCtx (Some 11) [Cancelled 10] []) = false.
Proof. vm_compute. auto. Qed.

(* ---- nodes that ignore their context ---- *)

(* a primary hung in a way that ignores cancellation (returns a timeout after an hour) and a healthy
   one: the healthy answer is returned at its own latency, the hung call is abandoned (still
   running when the call returns) *)
Definition ex_deaf_success : case :=
  mkc Plain [mkn (Err Timeout) 3600000 true; mkn (Success 101) 10 false] [] [1; 0]%nat [] None
      (ROk (P 1) 101) (Some 10) [Pending; Done 10] [].
(* the same hung primary next to an ordinary in-flight request, caller cancels at 1000 *)
Definition ex_deaf_cancel : case :=
  mkc Submit [mkn (Err Timeout) 3600000 true; mkn Hang 0 false] [] [0%nat] [] (Some 1000)
      RCtx (Some 1000) [Pending; Cancelled 1000] [].
(* primaries fail, the fallback round contains such a hung node and a healthy one *)
Definition ex_deaf_fallback : case :=
  mkc Proxy [mkn (Err Gateway) 5 false] [mkn (Err Timeout) 3600000 true; mkn (Success 201) 10 false]
      [0%nat] [1; 0]%nat None (ROk (F 1) 201) (Some 15) [Done 5] [Pending; Done 15].
Lemma ex_deaf_accepted :
  (accepts ex_deaf_success = true /\ monitor ex_deaf_success = true) /\
  (accepts ex_deaf_cancel = true /\ monitor ex_deaf_cancel = true) /\
  (accepts ex_deaf_fallback = true /\ monitor ex_deaf_fallback = true).
Proof. vm_compute. auto 10. Qed.

(* what a client that joins its workers before returning shows on the same scripts is rejected *)
Lemma monitor_rejects_waiting_for_deaf :
  monitor (mkc Plain [mkn (Err Timeout) 3600000 true; mkn (Success 101) 10 false] [] [1; 0]%nat [] None
               (ROk (P 1) 101) (Some 3600000) [Done 3600000; Done 10] []) = false /\
  monitor (mkc Submit [mkn (Err Timeout) 3600000 true; mkn Hang 0 false] [] [0%nat] [] (Some 1000)
               RCtx (Some 3600000) [Done 3600000; Cancelled 1000] []) = false.
Proof. vm_compute. auto. Qed.

(* When ONLY context-ignoring calls are awaited the cancellation is noticed with the next result:
   this is what the code does (the join loop has no select on ctx.Done()). *)
Lemma cancel_waits_when_only_deaf_awaited :
  provide [mkn (Err Timeout) 3600000 true] [] [0%nat] [] (Some 1000) = RCtx /\
  finish_time [mkn (Err Timeout) 3600000 true] [] [0%nat] [] (Some 1000) = Some 3600000.
Proof. vm_compute. auto. Qed.

(* ---- scoping ---- *)

Lemma map_get_seq l : map (get l) (seq 0 (length l)) = l.
Proof.
  induction l as [|n r IH]; simpl; [reflexivity|]. f_equal.
  rewrite <- seq_shift, map_map. exact IH.
Qed.

Lemma pickP_seq prim fb : map (pick prim fb) (map P (seq 0 (length prim))) = prim.
Proof. rewrite map_map. rewrite <- (map_get_seq prim) at 2. apply map_ext. reflexivity. Qed.

Lemma pickF_seq prim fb : map (pick prim fb) (map F (seq 0 (length fb))) = fb.
Proof. rewrite map_map. rewrite <- (map_get_seq fb) at 2. apply map_ext. reflexivity. Qed.

(* ClientForAddress("") and ClientForAddress(unknown address) are the multi client itself: the same
   primaries and the same fallbacks -- whatever clients have been created so far. *)
Theorem scope_none_identity prim fb initP initF a :
  a = ANone \/ a = AUnknown ->
  scoped_nodes prim fb (scope (length prim) (length fb) initP initF a) = (prim, fb).
Proof.
  intros [H|H]; subst; unfold scope, unscoped, scoped_nodes; simpl; rewrite pickP_seq, pickF_seq; reflexivity.
Qed.

(* A configured address scopes to that node alone -- all fallbacks kept for a primary, none for a
   fallback -- but only once the node's client exists; before that the multi client is returned. *)
Theorem scope_address prim fb initP initF :
  (forall i, (i < length prim)%nat -> nth i initP false = true ->
     scoped_nodes prim fb (scope (length prim) (length fb) initP initF (AP i)) = ([get prim i], fb)) /\
  (forall j, (j < length fb)%nat -> nth j initF false = true ->
     scoped_nodes prim fb (scope (length prim) (length fb) initP initF (AF j)) = ([get fb j], [])) /\
  (forall i, nth i initP false = false ->
     scoped_nodes prim fb (scope (length prim) (length fb) initP initF (AP i)) = (prim, fb)) /\
  (forall j, nth j initF false = false ->
     scoped_nodes prim fb (scope (length prim) (length fb) initP initF (AF j)) = (prim, fb)).
Proof.
  repeat split; intros k; intros; unfold scope, unscoped, scoped_nodes.
  - apply Nat.ltb_lt in H. rewrite H, H0. simpl. rewrite pickF_seq. reflexivity.
  - apply Nat.ltb_lt in H. rewrite H, H0. reflexivity.
  - rewrite H, andb_false_r. simpl. rewrite pickP_seq, pickF_seq. reflexivity.
  - rewrite H, andb_false_r. simpl. rewrite pickP_seq, pickF_seq. reflexivity.
Qed.

(* Hence everything proved about provide holds for calls through the scoped client with its node
   lists; in particular for "" : the call succeeds iff some configured primary succeeds. *)
Theorem unscoped_succeeds_iff prim fb initP initF pord ford :
  order_ok prim pord = true ->
  let ns := scoped_nodes prim fb (scope (length prim) (length fb) initP initF ANone) in
  ((exists i a, provide (fst ns) (snd ns) pord ford None = ROk (P i) a) <-> (exists i a, out (get prim i) = Success a)).
Proof.
  intros Hok. rewrite (scope_none_identity prim fb initP initF ANone (or_introl eq_refl)). simpl.
  apply succeeds_iff_some_primary_succeeds. exact Hok.
Qed.

(* a fresh client, first primary down and not yet created, second primary healthy, called through
   ClientForAddress(""): accepted; what a client that scopes "" to the first uncreated node shows
   (only P0 called, its error returned) is rejected by the monitor *)
Definition ex_scoped : scase :=
  mks ANone [false; false] []
      (mkc Plain [mkn (Err Other) 1 false; mkn (Success 101) 2 false] [] [0; 1]%nat [] None
           (ROk (P 1) 101) (Some 2) [Done 1; Done 2] []).
Definition ex_scoped_bad : scase :=
  mks ANone [false; false] []
      (mkc Plain [mkn (Err Other) 1 false; mkn (Success 101) 2 false] [] [0; 1]%nat [] None
           (RErr (P 0) Other) (Some 1) [Done 1; NotCalled] []).
Lemma ex_scoped_checked : check_scoped ex_scoped = 0%nat /\ check_scoped ex_scoped_bad = 1%nat.
Proof. vm_compute. auto. Qed.

(* ---- lazily created clients ---- *)

(* Once the client exists (or when creation is immediate) the lazy wrapper is transparent. *)
Theorem lazy_transparent n :
  lazy_node PCreated n = n /\ lazy_node PNone n = n /\
  out (lazy_node (PDelay 0) n) = out n /\ delay (lazy_node (PDelay 0) n) = delay n /\ deaf (lazy_node (PDelay 0) n) = deaf n.
Proof. destruct n; simpl; auto. Qed.

(* A node behind a provider hears its cancellation whenever the node itself does, so the
   cancellation theorem applies to it while the provider runs. *)
Theorem lazy_hears p n : hears n = true -> hears (lazy_node p n) = true.
Proof. destruct p, n; simpl; auto. Qed.

(* first use of a primary whose provider needs 30 (time units) against a hung node, nothing else
   answers, caller cancels at 1: returns at 1; what a client that detaches the provider from the
   call's context shows (returns when the provider gives up) is rejected *)
Definition ex_lazy : lcase :=
  mkl [PDelay 30000] [PDelay 30000]
      (mkc Plain [mkn Hang 0 false] [mkn Hang 0 false] [] [] (Some 100) RCtx (Some 100) [Cancelled 100] [NotCalled]).
Definition ex_lazy_bad : lcase :=
  mkl [PDelay 30000] [PDelay 30000]
      (mkc Plain [mkn Hang 0 false] [mkn Hang 0 false] [] [] (Some 100) RCtx (Some 30000) [Cancelled 30000] [NotCalled]).
Lemma ex_lazy_checked : check_lazy ex_lazy = 0%nat /\ check_lazy ex_lazy_bad = 1%nat.
Proof. vm_compute. auto. Qed.
