(* S1 tie for C02: the hypothesis [trace_cmp_fun cf] of the agreement theorem with compare failures
   (Properties/C02_cmp.v, Qbft/CmpInv.v) says that the verdict of a COMPLETED call of
   Definition.Compare is a function of (member, proposed value): CmpFail => cf i x = true,
   CmpOk => cf i x = false, CmpTimeout unrestricted.

   The harness harness/overlay/core_consensus_qbft/zz_verif_compare_test.go drives the wrapper's real
   Compare callback (core/consensus/qbft/qbft.go newDefinition(...).Compare / attestationChecker) the
   way qbft.Run does and records a table of (local-input id, proposed value hash, verdict).  The
   local input (the member's own attestation data) is fixed for one consensus instance, so "member"
   is represented by the local-input id.  This file decides whether such a table is functional and
   shows that a functional table yields a [cf] under which every recorded consultation satisfies the
   per-label condition of [trace_cmp_fun] -- and that a non-functional table admits no such [cf]. *)
From Coq Require Import List NArith Arith Bool Lia.
From Charon Require Import Qbft.Model Qbft.CmpInv.
Import ListNotations.

Definition entry := (nat * N * cmp)%type.

Definition is_fail (c : cmp) : bool := match c with CmpFail => true | _ => false end.
Definition is_ok (c : cmp) : bool := match c with CmpOk => true | _ => false end.

Definition hit (i : nat) (x : N) (f : cmp -> bool) (e : entry) : bool :=
  let '(j, y, c) := e in (j =? i) && N.eqb y x && f c.

Definition rejects (tbl : list entry) (i : nat) (x : N) : bool := existsb (hit i x is_fail) tbl.
Definition accepts (tbl : list entry) (i : nat) (x : N) : bool := existsb (hit i x is_ok) tbl.

(* no (local input, value) has both a completed accepting and a completed rejecting verdict *)
Definition functional (tbl : list entry) : bool :=
  forallb (fun e => let '(i, x, _) := e in negb (rejects tbl i x && accepts tbl i x)) tbl.

(* the offending pairs (with repetitions) *)
Definition conflicts (tbl : list entry) : list (nat * N) :=
  flat_map (fun e => let '(i, x, c) := e in if is_fail c && accepts tbl i x then [(i, x)] else []) tbl.

Definition pair_eqb (a b : nat * N) : bool := (fst a =? fst b) && N.eqb (snd a) (snd b).
Fixpoint dedup (l : list (nat * N)) : list (nat * N) :=
  match l with
  | [] => []
  | a :: r => if existsb (pair_eqb a) r then dedup r else a :: dedup r
  end.
Definition conflict_pairs (tbl : list entry) : list (nat * N) := dedup (conflicts tbl).

(* the function read off the table: "some recorded comparison of x under local input i failed" *)
Definition cf_table (tbl : list entry) : nat -> N -> bool := rejects tbl.

Definition entry_ok (cf : nat -> N -> bool) (e : entry) : Prop :=
  let '(i, x, c) := e in (c = CmpFail -> cf i x = true) /\ (c = CmpOk -> cf i x = false).

Lemma hit_in : forall tbl i x f, existsb (hit i x f) tbl = true <-> exists c, In (i, x, c) tbl /\ f c = true.
Proof.
  intros tbl i x f. rewrite existsb_exists. split.
  - intros ([[j y] c] & Hin & Hh). unfold hit in Hh. apply andb_true_iff in Hh. destruct Hh as [Hh Hf].
    apply andb_true_iff in Hh. destruct Hh as [Hj Hy]. apply Nat.eqb_eq in Hj. apply N.eqb_eq in Hy. subst.
    exists c; auto.
  - intros (c & Hin & Hf). exists (i, x, c). split; [assumption|]. unfold hit.
    rewrite Nat.eqb_refl, N.eqb_refl, Hf. reflexivity.
Qed.

Theorem functional_sound : forall tbl, functional tbl = true -> forall e, In e tbl -> entry_ok (cf_table tbl) e.
Proof.
  intros tbl F [[i x] c] Hin. unfold functional in F. rewrite forallb_forall in F.
  specialize (F _ Hin). simpl in F. apply negb_true_iff in F. unfold entry_ok, cf_table. split; intros ->.
  - apply hit_in. exists CmpFail; auto.
  - apply andb_false_iff in F. destruct F as [F|F]; [assumption|].
    exfalso. assert (accepts tbl i x = true) by (apply hit_in; exists CmpOk; auto). congruence.
Qed.

(* ... in the vocabulary of Qbft/CmpInv.v: every recorded consultation, seen as the label qbft.Run
   produces for it (rule UponJustifiedPrePrepare on a PRE-PREPARE for value x), satisfies the
   per-label condition of trace_cmp_fun under cf_table. *)
Theorem functional_label_ok : forall tbl, functional tbl = true ->
  forall i x c, In (i, x, c) tbl ->
  forall m rest, val (main m) = x -> label_cmp_ok (cf_table tbl) i (LRecv m c (Upon JustPrePrepare :: rest)).
Proof.
  intros tbl F i x c Hin m rest Hv. pose proof (functional_sound tbl F _ Hin) as [A B].
  unfold label_cmp_ok, label_cmp_gen, consulted, acc_of, rej_of. rewrite Hv.
  destruct c; auto.
Qed.

Lemma forallb_false_ex : forall (A : Type) (f : A -> bool) (l : list A),
  forallb f l = false -> exists x, In x l /\ f x = false.
Proof.
  intros A f l. induction l as [|a r IH]; simpl; [discriminate|].
  destruct (f a) eqn:E; simpl.
  - intros H. destruct (IH H) as (x & Hin & Hx). exists x; auto.
  - intros _. exists a; auto.
Qed.

(* Conversely a non-functional table admits no cf at all: the hypothesis is violated. *)
Theorem not_functional_no_cf : forall tbl, functional tbl = false ->
  ~ exists cf, forall e, In e tbl -> entry_ok cf e.
Proof.
  intros tbl F [cf Hcf]. unfold functional in F.
  apply forallb_false_ex in F. destruct F as ([[i x] c] & Hin & Hb).
  apply negb_false_iff in Hb. apply andb_true_iff in Hb. destruct Hb as [R A].
  apply hit_in in R. apply hit_in in A. destruct R as (c1 & I1 & F1). destruct A as (c2 & I2 & F2).
  destruct c1; try discriminate. destruct c2; try discriminate.
  destruct (Hcf _ I1) as [X _]. destruct (Hcf _ I2) as [_ Y]. rewrite (X eq_refl) in Y. specialize (Y eq_refl). discriminate.
Qed.

Lemma conflicts_nil_functional : forall tbl, conflicts tbl = [] -> functional tbl = true.
Proof.
  intros tbl Hc. unfold functional. apply forallb_forall. intros [[i x] c] Hin. apply negb_true_iff.
  destruct (rejects tbl i x) eqn:R; [|reflexivity]. destruct (accepts tbl i x) eqn:A; [|reflexivity]. exfalso.
  apply hit_in in R. destruct R as (c1 & I1 & F1). destruct c1; try discriminate.
  assert (In (i, x) (conflicts tbl)) as X.
  { unfold conflicts. apply in_flat_map. exists (i, x, CmpFail). split; [assumption|]. simpl. rewrite A. left; reflexivity. }
  rewrite Hc in X. destruct X.
Qed.

(* Examples: the shape recorded when the feature is on. *)
Example functional_ex : functional [(0, 7%N, CmpOk); (0, 8%N, CmpFail); (0, 7%N, CmpTimeout); (1, 7%N, CmpFail); (0, 7%N, CmpOk)] = true.
Proof. reflexivity. Qed.
Example not_functional_ex : functional [(0, 7%N, CmpOk); (0, 7%N, CmpFail)] = false /\ conflicts [(0, 7%N, CmpOk); (0, 7%N, CmpFail)] = [(0, 7%N)].
Proof. split; reflexivity. Qed.
