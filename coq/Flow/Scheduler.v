(* Model of core/scheduler/scheduler.go: Run / newSlotTicker / scheduleSlot / resolveDuties /
   resolveAttDuties / resolveProDuties / resolveSyncCommDuties / setDutyDefinition / trimDuties /
   HandleChainReorgEvent / delaySlotOffset, and core/scheduler/offset.go (slotOffsets).

   Labelled transition system  step : state -> label -> option state.  A label carries what an
   observer of the real scheduler sees:
     LAdv dt            the clock advanced by dt nanoseconds
     LTick t sc outs    the slot ticker delivered slot t; [sc] is the outcome of every beacon-node
                        call made while the Run loop handled the tick, grouped per resolveDuties call
                        (validators; attester / proposer / sync-committee duties: request arguments
                        and success-with-data or error); [outs] is the SET of duties triggered for
                        this tick: (type, slot, definition set, deadline passed to the delay function)
     LReorg ep          HandleChainReorgEvent(ep) ran (feature SSEReorgDuties enabled)
     LHead slot fetch   HandleHeadEvent(slot) ran; [fetch] = the definition set handed to the registered
                        fetch-only function (early attestation-data fetch), None = it was not called
     LFire slot defs    with fetch_att_on_block / fetch_att_on_block_with_delay enabled the attester duty
                        is not delayed through the delay function: its goroutine waits on the clock until
                        slot start + 1/3 slot (+300ms) and then calls the duty subscribers; LFire is that
                        call, observed at the current clock
     LQuiet             every goroutine is blocked, the ticker has nothing to deliver and no waiting
                        attester duty is due
   Correspondence = trace inclusion: the label sequence recorded from the Go scheduler must be
   accepted by [run].  Triggers are launched with `go` and sleep through the injectable delay
   function, so the per-tick output is compared as a set.  Time is in nanoseconds since genesis.

   Go nondeterminism absorbed by the labels: the order of CompleteValidators (a Go map) shows only in
   the order of the requested indices (compared as a set); attester duties are processed after
   slices.SortFunc by slot (not a stable sort): the label lists them in processing order and the
   model requires that order to be sorted by slot (any tie order).

   The feature flags are the parameter [fm] (FOff: neither flag; FOn: fetch_att_on_block only;
   FOnDelay: fetch_att_on_block_with_delay, alone or with the other), [ff] says whether a fetch-only
   function is registered.

   Not modelled: builder registrations, slot subscribers, GetDutyDefinition waiters, nil elements in
   beacon-node responses, context
   cancellation, a tick delivered late because the Run loop is still busy (the delivered slot is then
   older than the clock says; slots still strictly increase), HandleChainReorgEvent running
   concurrently with scheduleSlot (it is three separate critical sections in Go; here it is atomic
   and happens between ticks). *)
From Coq Require Import List NArith Bool Lia.
Import ListNotations.
Local Open Scope N_scope.

(* ---- data ---- *)

(* The duty types the scheduler can trigger; OtherType stands for any other core.DutyType. *)
Inductive dtype := Proposer | Attester | Aggregator | SyncContribution | OtherType.

Definition dtype_eqb (a b : dtype) : bool :=
  match a, b with
  | Proposer, Proposer | Attester, Attester | Aggregator, Aggregator
  | SyncContribution, SyncContribution | OtherType, OtherType => true
  | _, _ => false
  end.

Definition duty := (dtype * N)%type.     (* (type, slot) *)
Definition duty_eqb (a b : duty) : bool := dtype_eqb (fst a) (fst b) && (snd a =? snd b).

(* One validator of CompleteValidators: index, public key, status.IsActive(), activation epoch. *)
Record vrec := V { v_idx : N; v_pk : N; v_active : bool; v_actep : N }.
(* One duty returned by the beacon node (attester / proposer / sync committee): validator index,
   public key, slot (unused for sync committee duties), remaining payload. The stored definition
   is the entry itself. *)
Record entry := E { e_vidx : N; e_pk : N; e_slot : N; e_data : N }.
(* One duties call: requested epoch, requested validator indices, None = error. *)
Record dcall := C { c_ep : N; c_idxs : list N; c_res : option (list entry) }.
(* One resolveDuties call: validators result (None = error) and the duties calls that were made
   (None = call not made). *)
Record resn := R { r_vals : option (list vrec); r_att : option dcall; r_pro : option dcall; r_sync : option dcall }.
(* One triggered duty: type, slot, definition set (public key -> definition), deadline handed to
   the delay function (None = delay function not called). *)
Record trigger := T { t_ty : dtype; t_slot : N; t_defs : list (N * entry); t_deadline : option N }.

Inductive label :=
| LAdv (dt : N)
| LTick (slot : N) (script : list resn) (outs : list trigger)
| LReorg (ep : N)
| LHead (slot : N) (fetch : option (list (N * entry)))
| LFire (slot : N) (defs : list (N * entry))
| LQuiet.

(* Feature flags: neither / fetch_att_on_block only / fetch_att_on_block_with_delay (alone or with the other). *)
Inductive fmode := FOff | FOn | FOnDelay.
Definition flags_on (fm : fmode) : bool := match fm with FOff => false | _ => true end.

(* A waiting attester duty: slot, definition set captured at the tick, instant it is released. *)
Definition waiting := (N * list (N * entry) * N)%type.
Definition w_slot (w : waiting) : N := fst (fst w).
Definition w_defs (w : waiting) : list (N * entry) := snd (fst w).
Definition w_due (w : waiting) : N := snd w.
Definition find_w (slot : N) (l : list waiting) : option waiting := find (fun w => w_slot w =? slot) l.
Definition remove_w (slot : N) (l : list waiting) : list waiting := filter (fun w => negb (w_slot w =? slot)) l.

Definition entry_eqb (a b : entry) : bool :=
  (e_vidx a =? e_vidx b) && (e_pk a =? e_pk b) && (e_slot a =? e_slot b) && (e_data a =? e_data b).

Definition def_eqb (a b : N * entry) : bool := (fst a =? fst b) && entry_eqb (snd a) (snd b).

Definition incl_b {A} (eqb : A -> A -> bool) (l1 l2 : list A) : bool :=
  forallb (fun x => existsb (eqb x) l2) l1.

(* Equality of two lists read as sets of the same size. *)
Definition same_set {A} (eqb : A -> A -> bool) (l1 l2 : list A) : bool :=
  Nat.eqb (length l1) (length l2) && incl_b eqb l1 l2 && incl_b eqb l2 l1.

Definition optN_eqb (a b : option N) : bool :=
  match a, b with Some x, Some y => x =? y | None, None => true | _, _ => false end.

Definition trig_eqb (a b : trigger) : bool :=
  dtype_eqb (t_ty a) (t_ty b) && (t_slot a =? t_slot b) && same_set def_eqb (t_defs a) (t_defs b)
  && optN_eqb (t_deadline a) (t_deadline b).

Fixpoint mem_duty (d : duty) (l : list duty) : bool :=
  match l with [] => false | x :: r => duty_eqb x d || mem_duty d r end.

Fixpoint memN (x : N) (l : list N) : bool :=
  match l with [] => false | y :: r => (y =? x) || memN x r end.

Fixpoint nodupN (l : list N) : bool :=
  match l with [] => true | x :: r => negb (memN x r) && nodupN r end.

Fixpoint nodup_duty (l : list duty) : bool :=
  match l with [] => true | x :: r => negb (mem_duty x r) && nodup_duty r end.

Fixpoint sorted_slots (l : list entry) : bool :=
  match l with
  | [] => true
  | e :: r => match r with [] => true | e' :: _ => (e_slot e <=? e_slot e') && sorted_slots r end
  end.

Section Scheduler.
Variable D : N.      (* slot duration in nanoseconds *)
Variable spe : N.    (* slots per epoch *)
Variable fm : fmode. (* feature flags *)
Variable ff : bool.  (* RegisterFetcherFetchOnly was called *)

Definition epoch_of (slot : N) : N := slot / spe.
Definition last_in_epoch (slot : N) : bool := slot mod spe =? spe - 1.

(* offset.go: slotOffsets / fraction(x, y) = total * x / y; delaySlotOffset: no entry, no delay. *)
Definition offset (ty : dtype) : option N :=
  match ty with
  | Attester => Some (D * 1 / 3)
  | Aggregator => Some (D * 2 / 3)
  | SyncContribution => Some (D * 2 / 3)
  | _ => None
  end.

Definition deadline (ty : dtype) (slot : N) : option N :=
  match offset ty with Some o => Some (slot * D + o) | None => None end.

(* waitForEarlyFetchOrTimeout: with a flag on, the attester duty waits on the clock until slot start +
   1/3 slot, plus 300ms when fetch_att_on_block_with_delay is enabled. *)
Definition att_offset : N := D * 1 / 3 + match fm with FOnDelay => 300000000 | _ => 0 end.
Definition att_due (slot : N) : N := slot * D + att_offset.
(* The duty types that take that path instead of the delay function. *)
Definition fire_later (ty : dtype) : bool := flags_on fm && dtype_eqb ty Attester.

(* resolveActiveValidators: active status, or activation epoch equal to the epoch being resolved. *)
Definition is_active (ep : N) (v : vrec) : bool := v_active v || (v_actep v =? ep).

(* validators.PubKeyFromIndex: first match. *)
Fixpoint pk_of_idx (vs : list vrec) (idx : N) : option N :=
  match vs with [] => None | v :: r => if v_idx v =? idx then Some (v_pk v) else pk_of_idx r idx end.

(* Slots sl >= slot with epoch_of sl = ep (the loop of resolveSyncCommDuties). *)
Definition epoch_slots (slot ep : N) : list N :=
  map (fun i => slot + N.of_nat i) (seq 0 (N.to_nat ((ep + 1) * spe - slot))).

(* ---- the duty store: s.duties and s.dutiesByEpoch ---- *)

Definition dstore := ((duty -> list (N * entry)) * (N -> list duty))%type.

Definition has_pk (pk : N) (ds : list (N * entry)) : bool := existsb (fun x => fst x =? pk) ds.

Definition upd_d (m : duty -> list (N * entry)) (d : duty) (v : list (N * entry)) : duty -> list (N * entry) :=
  fun d' => if duty_eqb d d' then v else m d'.
Definition upd_e (m : N -> list duty) (ep : N) (v : list duty) : N -> list duty :=
  fun ep' => if ep =? ep' then v else m ep'.

(* setDutyDefinition: the first definition per (duty, public key) wins. An absent map entry is the
   empty list (the Go code never stores an empty definition set). *)
Definition set_def (st : dstore) (d : duty) (ep pk : N) (e : entry) : dstore * bool :=
  let ds := fst st d in
  if has_pk pk ds then (st, false)
  else ((upd_d (fst st) d (ds ++ [(pk, e)]), upd_e (snd st) ep (snd st ep ++ [d])), true).

(* trimDuties *)
Definition trim (ep : N) (st : dstore) : dstore :=
  let l := snd st ep in
  (fun d => if mem_duty d l then [] else fst st d, upd_e (snd st) ep []).

(* trimDuties with a flag on also calls trimEventTriggeredAttestations -- after the early return for an
   epoch without duties: every entry for a slot before the end of that epoch is deleted. *)
Definition trim_eta (ep : N) (st : dstore) (eta : list N) : list N :=
  if flags_on fm then
    match snd st ep with
    | [] => eta
    | _ :: _ => filter (fun sl => negb (sl <? (ep + 1) * spe)) eta
    end
  else eta.

(* resolveAttDuties, after the sort; false = "invalid attester duty pubkey" (the loop stops there). *)
Fixpoint proc_att (slot ep : N) (act : list vrec) (l : list entry) (st : dstore) : dstore * bool :=
  match l with
  | [] => (st, true)
  | e :: r =>
      if e_slot e <? slot then proc_att slot ep act r st
      else match pk_of_idx act (e_vidx e) with
           | None => proc_att slot ep act r st
           | Some pk =>
               if negb (e_pk e =? pk) then (st, false)
               else let '(st1, fresh) := set_def st (Attester, e_slot e) ep pk e in
                    let st2 := if fresh then fst (set_def st1 (Aggregator, e_slot e) ep pk e) else st1 in
                    proc_att slot ep act r st2
           end
  end.

Fixpoint proc_pro (slot ep : N) (act : list vrec) (l : list entry) (st : dstore) : dstore * bool :=
  match l with
  | [] => (st, true)
  | e :: r =>
      if e_slot e <? slot then proc_pro slot ep act r st
      else match pk_of_idx act (e_vidx e) with
           | None => proc_pro slot ep act r st
           | Some pk =>
               if negb (e_pk e =? pk) then (st, false)
               else proc_pro slot ep act r (fst (set_def st (Proposer, e_slot e) ep pk e))
           end
  end.

Definition set_sync (slot ep pk : N) (e : entry) (st : dstore) : dstore :=
  fold_left (fun st sl => fst (set_def st (SyncContribution, sl) ep pk e)) (epoch_slots slot ep) st.

Fixpoint proc_sync (slot ep : N) (act : list vrec) (l : list entry) (st : dstore) : dstore * bool :=
  match l with
  | [] => (st, true)
  | e :: r =>
      match pk_of_idx act (e_vidx e) with
      | None => proc_sync slot ep act r st
      | Some pk =>
          if negb (e_pk e =? pk) then (st, false)
          else proc_sync slot ep act r (set_sync slot ep pk e st)
      end
  end.

(* ---- state ---- *)

Record state := mk {
  now : N;                 (* clock *)
  expect : N;              (* the slot the ticker goroutine is waiting for *)
  resolved : option N;     (* resolvedEpoch, None = math.MaxInt64 *)
  store : dstore;
  eta : list N;            (* eventTriggeredAttestations: slots with an entry *)
  pend : list waiting      (* attester goroutines waiting in waitForEarlyFetchOrTimeout *)
}.

Definition init (t0 : N) : state := mk t0 (t0 / D) None (fun _ => [], fun _ => []) [] [].

Definition with_store (s : state) (st : dstore) : state := mk (now s) (expect s) (resolved s) st (eta s) (pend s).
Definition with_resolved (s : state) (r : option N) : state := mk (now s) (expect s) r (store s) (eta s) (pend s).
Definition with_pend (s : state) (p : list waiting) : state := mk (now s) (expect s) (resolved s) (store s) (eta s) p.

Definition none_call (c : option dcall) : bool := match c with None => true | Some _ => false end.

(* The request of a duties call: the epoch being resolved and the active validators' indices. *)
Definition call_ok (c : dcall) (ep : N) (act : list vrec) : bool :=
  (c_ep c =? ep) && same_set N.eqb (c_idxs c) (map v_idx act).

(* resolveDuties(slot) with the beacon-node outcomes [r]. None = the calls recorded in [r] are not the
   calls the code makes. *)
Definition resolve (s : state) (slot : N) (r : resn) : option state :=
  let ep := epoch_of slot in
  match r_vals r with
  | None => if none_call (r_att r) && none_call (r_pro r) && none_call (r_sync r) then Some s else None
  | Some vals =>
      if negb (nodupN (map v_idx vals)) then None else
      let act := filter (is_active ep) vals in
      match act with
      | [] => if none_call (r_att r) && none_call (r_pro r) && none_call (r_sync r)
              then Some (with_resolved s (Some ep)) else None
      | _ :: _ =>
          match r_att r with
          | None => None
          | Some ca =>
              if negb (call_ok ca ep act) then None else
              match c_res ca with
              | None => if none_call (r_pro r) && none_call (r_sync r) then Some s else None
              | Some la =>
                  if negb (sorted_slots la) then None else
                  let '(st1, ok1) := proc_att slot ep act la (store s) in
                  if negb ok1 then
                    (if none_call (r_pro r) && none_call (r_sync r) then Some (with_store s st1) else None)
                  else
                  match r_pro r with
                  | None => None
                  | Some cp =>
                      if negb (call_ok cp ep act) then None else
                      match c_res cp with
                      | None => if none_call (r_sync r) then Some (with_store s st1) else None
                      | Some lp =>
                          let '(st2, ok2) := proc_pro slot ep act lp st1 in
                          if negb ok2 then
                            (if none_call (r_sync r) then Some (with_store s st2) else None)
                          else
                          match r_sync r with
                          | None => None
                          | Some cs =>
                              if negb (call_ok cs ep act) then None else
                              match c_res cs with
                              | None => Some (with_store s st2)
                              | Some ls =>
                                  let '(st3, ok3) := proc_sync slot ep act ls st2 in
                                  if negb ok3 then Some (with_store s st3)
                                  else
                                    (* setResolvedEpoch(ep); trimDuties(ep - trimEpochOffset): the
                                       uint64 subtraction wraps below 3 and then finds nothing. *)
                                    let st4 := if 3 <=? ep then trim (ep - 3) st3 else st3 in
                                    let eta4 := if 3 <=? ep then trim_eta (ep - 3) st3 (eta s) else eta s in
                                    Some (mk (now s) (expect s) (Some ep) st4 eta4 (pend s))
                              end
                          end
                      end
                  end
              end
          end
      end
  end.

(* core.AllDutyTypes() restricted to the types that can have a definition, in iteration order. *)
Definition types : list dtype := [Proposer; Attester; Aggregator; SyncContribution].

(* The loop of scheduleSlot: for every duty type with a definition set, launch the trigger goroutine
   (which either goes through the delay function and calls the subscribers -- an element of the tick's
   output set -- or, for the attester duty with a flag on, starts waiting on the clock), and on the last
   slot of the epoch call resolveDuties(slot.Next()) -- inside the loop, once per such type. *)
Fixpoint tick_loop (tys : list dtype) (slot : N) (s : state) (sc : list resn)
  : option (state * list resn * list trigger) :=
  match tys with
  | [] => Some (s, sc, [])
  | ty :: r =>
      match fst (store s) (ty, slot) with
      | [] => tick_loop r slot s sc
      | ds =>
          let trs := if fire_later ty then [] else [T ty slot ds (deadline ty slot)] in
          let s0 := if fire_later ty then with_pend s (pend s ++ [(slot, ds, att_due slot)]) else s in
          if last_in_epoch slot then
            match sc with
            | [] => None
            | rn :: sc' =>
                match resolve s0 (slot + 1) rn with
                | None => None
                | Some s' =>
                    match tick_loop r slot s' sc' with
                    | Some (s'', sc'', outs) => Some (s'', sc'', trs ++ outs)
                    | None => None
                    end
                end
            end
          else
            match tick_loop r slot s0 sc with
            | Some (s'', sc'', outs) => Some (s'', sc'', trs ++ outs)
            | None => None
            end
      end
  end.

Definition optN_is (o : option N) (x : N) : bool := match o with Some y => y =? x | None => false end.

(* newSlotTicker: the goroutine wakes when the clock reaches the expected slot's start; if the clock is
   strictly past the start of the following slot it jumps to the current slot. *)
Definition ticker_enabled (s : state) : bool := expect s * D <=? now s.
Definition ticker_slot (s : state) : N :=
  if (expect s + 1) * D <? now s then now s / D else expect s.

(* scheduleSlot(slot) *)
Definition sched_slot (s : state) (slot : N) (sc : list resn) : option (state * list resn * list trigger) :=
  let first :=
    if optN_is (resolved s) (epoch_of slot) then Some (s, sc)
    else match sc with
         | [] => None
         | rn :: sc' => match resolve s slot rn with Some s' => Some (s', sc') | None => None end
         end in
  match first with
  | None => None
  | Some (s1, sc1) => tick_loop types slot s1 sc1
  end.

Definition nonempty {A} (l : list A) : bool := match l with [] => false | _ => true end.

Definition due_none (now : N) (p : list waiting) : bool := forallb (fun w => now <? w_due w) p.

Definition step (s : state) (l : label) : option state :=
  match l with
  | LAdv dt => Some (mk (now s + dt) (expect s) (resolved s) (store s) (eta s) (pend s))
  | LTick slot sc outs =>
      if ticker_enabled s && (slot =? ticker_slot s) then
        match sched_slot (mk (now s) (slot + 1) (resolved s) (store s) (eta s) (pend s)) slot sc with
        | Some (s', [], exp) => if same_set trig_eqb outs exp then Some s' else None
        | _ => None
        end
      else None
  | LReorg ep =>
      match resolved s with
      | Some r => if ep <? r
                  then Some (mk (now s) (expect s) None (trim r (store s)) (trim_eta r (store s) (eta s)) (pend s))
                  else Some s
      | None => Some s
      end
  | LHead slot fetch =>
      (* HandleHeadEvent: no fetch-only function -> return; no flag -> return; no attester definitions
         for the slot -> return; LoadOrStore(slot): already there -> return; else fetch (async). *)
      let ds := fst (store s) (Attester, slot) in
      if ff && flags_on fm && nonempty ds && negb (memN slot (eta s)) then
        match fetch with
        | Some defs => if same_set def_eqb defs ds
                       then Some (mk (now s) (expect s) (resolved s) (store s) (slot :: eta s) (pend s))
                       else None
        | None => None
        end
      else match fetch with None => Some s | Some _ => None end
  | LFire slot defs =>
      (* the waiting attester goroutine: released by the clock at its due instant, then
         eventTriggeredAttestations.Store(slot), then the duty subscribers *)
      match find_w slot (pend s) with
      | Some w => if (w_due w <=? now s) && same_set def_eqb defs (w_defs w)
                  then Some (mk (now s) (expect s) (resolved s) (store s) (slot :: eta s) (remove_w slot (pend s)))
                  else None
      | None => None
      end
  | LQuiet => if ticker_enabled s || negb (due_none (now s) (pend s)) then None else Some s
  end.

Fixpoint run (s : state) (ls : list label) : option state :=
  match ls with
  | [] => Some s
  | l :: r => match step s l with Some s' => run s' r | None => None end
  end.

Fixpoint first_reject (s : state) (ls : list label) (i : nat) : option nat :=
  match ls with
  | [] => None
  | l :: r => match step s l with Some s' => first_reject s' r (S i) | None => Some i end
  end.

(* ---- input domain: what is assumed about the beacon node's answers ---- *)

(* Attester and proposer duties returned for epoch e lie in epoch e. (Without this the code can drop a
   duty: a definition stored under dutiesByEpoch[e] for a slot of epoch e+3 is deleted by the trim that
   follows the resolution of e+3, together with the definitions that resolution just added; see
   [off_epoch_answer_drops_duty] in SchedulerFacts.v.) *)
Definition wf_call (c : option dcall) : bool :=
  match c with
  | Some (C ep _ (Some l)) => forallb (fun e => epoch_of (e_slot e) =? ep) l
  | _ => true
  end.
Definition wf_resn (r : resn) : bool := wf_call (r_att r) && wf_call (r_pro r).
Definition wf_label (l : label) : bool :=
  match l with LTick _ sc _ => forallb wf_resn sc | _ => true end.
Definition wf_trace (ls : list label) : bool := forallb wf_label ls.

(* ---- the property, read off the trace alone ---- *)

(* The trace monitor keeps a LOG of the beacon node's successful duties answers, each with the slot
   and the active validators of the resolveDuties call it belongs to, and answers "which definition
   set does duty d have" by a query over the log. It has no duty store, no per-epoch index and no
   trimming. *)
Inductive kind := KAtt | KPro | KSync.
Record item := I { i_kind : kind; i_ep : N; i_slot : N; i_act : list vrec; i_ents : list entry }.

Definition relevant (it : item) (e : entry) : bool :=
  match i_kind it with KSync => true | _ => i_slot it <=? e_slot e end.

(* An answer entry is good when it is for a slot not before the resolving slot and names an active
   cluster validator with that validator's public key; bad when the public key differs. *)
Definition good (it : item) (e : entry) : bool :=
  relevant it e && match pk_of_idx (i_act it) (e_vidx e) with Some pk => e_pk e =? pk | None => false end.
Definition bad (it : item) (e : entry) : bool :=
  relevant it e && match pk_of_idx (i_act it) (e_vidx e) with Some pk => negb (e_pk e =? pk) | None => false end.

(* Entries before the first bad one: a bad entry makes the resolution fail at that point. *)
Fixpoint good_prefix (it : item) (l : list entry) : list entry :=
  match l with [] => [] | e :: r => if bad it e then [] else e :: good_prefix it r end.

Definition aborted (it : item) : bool := existsb (bad it) (i_ents it).

Definition grants_of_entry (it : item) (e : entry) : list (duty * (N * entry)) :=
  match i_kind it with
  | KAtt => [((Attester, e_slot e), (e_pk e, e)); ((Aggregator, e_slot e), (e_pk e, e))]
  | KPro => [((Proposer, e_slot e), (e_pk e, e))]
  | KSync => map (fun sl => ((SyncContribution, sl), (e_pk e, e))) (epoch_slots (i_slot it) (i_ep it))
  end.

(* What one answer assigns: (duty, (public key, definition)). *)
Definition grants (it : item) : list (duty * (N * entry)) :=
  flat_map (grants_of_entry it) (filter (good it) (good_prefix it (i_ents it))).

(* First definition per public key. *)
Fixpoint first_wins (acc l : list (N * entry)) : list (N * entry) :=
  match l with
  | [] => acc
  | x :: r => if has_pk (fst x) acc then first_wins acc r else first_wins (acc ++ [x]) r
  end.

Definition for_duty (d : duty) (gs : list (duty * (N * entry))) : list (N * entry) :=
  map snd (filter (fun g => duty_eqb (fst g) d) gs).

(* The definition set of duty d according to the log. *)
Definition query (log : list item) (d : duty) : list (N * entry) :=
  first_wins [] (for_duty d (flat_map grants log)).

Record ghost := mkg { g_now : N; g_resolved : option N; g_log : list item; g_trig : list duty; g_pend : list waiting }.
Definition ginit (t0 : N) : ghost := mkg t0 None [] [] [].

Definition g_add (g : ghost) (it : item) : ghost := mkg (g_now g) (g_resolved g) (g_log g ++ [it]) (g_trig g) (g_pend g).
Definition g_res (g : ghost) (r : option N) : ghost := mkg (g_now g) r (g_log g) (g_trig g) (g_pend g).

Definition ok_res (c : option dcall) : option (list entry) :=
  match c with Some c' => c_res c' | None => None end.

(* What a resolveDuties(slot) call with outcomes [r] adds to the log, and whether it completes. *)
Definition gres (g : ghost) (slot : N) (r : resn) : ghost :=
  let ep := epoch_of slot in
  match r_vals r with
  | None => g
  | Some vals =>
      let act := filter (is_active ep) vals in
      match act with
      | [] => g_res g (Some ep)
      | _ :: _ =>
          match ok_res (r_att r) with
          | None => g
          | Some la =>
              let ia := I KAtt ep slot act la in
              let g1 := g_add g ia in
              if aborted ia then g1 else
              match ok_res (r_pro r) with
              | None => g1
              | Some lp =>
                  let ip := I KPro ep slot act lp in
                  let g2 := g_add g1 ip in
                  if aborted ip then g2 else
                  match ok_res (r_sync r) with
                  | None => g2
                  | Some ls =>
                      let isy := I KSync ep slot act ls in
                      let g3 := g_add g2 isy in
                      if aborted isy then g3 else g_res g3 (Some ep)
                  end
              end
          end
      end
  end.

(* The triggers the log prescribes for a tick of [slot] (every assigned duty, except the attester duty
   when a flag is on: that one starts waiting and is released at [att_due]). *)
Definition exp_for (log : list item) (slot : N) (tys : list dtype) : list trigger :=
  flat_map (fun ty => match query log (ty, slot) with
                      | [] => []
                      | ds => if fire_later ty then [] else [T ty slot ds (deadline ty slot)]
                      end) tys.
Definition pend_for (log : list item) (slot : N) (tys : list dtype) : list waiting :=
  flat_map (fun ty => match query log (ty, slot) with
                      | [] => []
                      | ds => if fire_later ty then [(slot, ds, att_due slot)] else []
                      end) tys.
Definition with_defs (log : list item) (slot : N) (tys : list dtype) : list dtype :=
  filter (fun ty => nonempty (query log (ty, slot))) tys.
Definition expected (log : list item) (slot : N) : list trigger := exp_for log slot types.

(* The ghost after the first resolution of a tick (made iff the epoch is not the resolved one). *)
Definition g_first (g : ghost) (slot : N) (sc : list resn) : ghost * list resn :=
  if optN_is (g_resolved g) (epoch_of slot) then (g, sc)
  else match sc with [] => (g, []) | rn :: sc' => (gres g slot rn, sc') end.

Fixpoint g_rest (k : nat) (g : ghost) (slot : N) (sc : list resn) : ghost :=
  match k, sc with
  | S k', rn :: sc' => g_rest k' (gres g slot rn) slot sc'
  | _, _ => g
  end.

Definition trig_duty (tr : trigger) : duty := (t_ty tr, t_slot tr).

(* [check g l] : label l is consistent with the property in ghost state g. *)
Definition check (g : ghost) (l : label) : bool :=
  match l with
  | LTick slot sc outs =>
      let '(g1, _) := g_first g slot sc in
      (slot * D <=? g_now g)                                           (* not before the slot starts *)
      && forallb (fun tr => negb (mem_duty (trig_duty tr) (g_trig g))) outs   (* never triggered before *)
      && nodup_duty (map trig_duty outs)                               (* nor twice in this tick *)
      && same_set trig_eqb outs (expected (g_log g1) slot)             (* exactly the assigned duties, with
                                                                          the assigned definitions and the
                                                                          type's deadline *)
  | LFire slot defs =>
      (* the subscribers of an attester duty are called directly: only for a duty that a tick put in
         waiting, with the definitions of that tick, not before slot start + offset, never twice *)
      match find_w slot (g_pend g) with
      | Some w => (w_due w <=? g_now g) && same_set def_eqb defs (w_defs w)
                  && negb (mem_duty (Attester, slot) (g_trig g))
      | None => false
      end
  | LQuiet => due_none (g_now g) (g_pend g)      (* every waiting duty that is due has been triggered *)
  | _ => true
  end.

Definition gstep (g : ghost) (l : label) : ghost :=
  match l with
  | LAdv dt => mkg (g_now g + dt) (g_resolved g) (g_log g) (g_trig g) (g_pend g)
  | LTick slot sc outs =>
      let '(g1, sc1) := g_first g slot sc in
      let k := if last_in_epoch slot then length (with_defs (g_log g1) slot types) else 0%nat in
      let g2 := g_rest k g1 (slot + 1) sc1 in
      mkg (g_now g2) (g_resolved g2) (g_log g2) (g_trig g2 ++ map trig_duty outs)
          (g_pend g2 ++ pend_for (g_log g1) slot types)
  | LReorg ep =>
      match g_resolved g with
      | Some r => if ep <? r
                  then mkg (g_now g) None (filter (fun it => negb (i_ep it =? r)) (g_log g)) (g_trig g) (g_pend g)
                  else g
      | None => g
      end
  | LHead _ _ => g          (* early fetches are not duty triggers: the property does not constrain them *)
  | LFire slot _ => mkg (g_now g) (g_resolved g) (g_log g) (g_trig g ++ [(Attester, slot)]) (remove_w slot (g_pend g))
  | LQuiet => g
  end.

Fixpoint monitor_from (g : ghost) (ls : list label) : bool :=
  match ls with [] => true | l :: r => check g l && monitor_from (gstep g l) r end.
Definition monitor (t0 : N) := monitor_from (ginit t0).

Fixpoint first_violation (g : ghost) (ls : list label) (i : nat) : option nat :=
  match ls with
  | [] => None
  | l :: r => if check g l then first_violation (gstep g l) r (S i) else Some i
  end.

Fixpoint ghost_after (g : ghost) (ls : list label) : ghost :=
  match ls with [] => g | l :: r => ghost_after (gstep g l) r end.

End Scheduler.
