(* Model of app/eth2wrap/cache.go, DutiesCache (ProposerDutiesCache / AttesterDutiesCache /
   SyncCommDutiesCache, fetch*Duties, storeOrAmend*Duties, trimBefore*/trimAfter*, Trim,
   InvalidateCache, UpdateActiveValIndices).

   Labelled transition system  step : state -> label -> option state.  One call
   `<Kind>DutiesCache(ctx, epoch, vidxs)` is split into the atomic steps the Go code performs
   under separate lock acquisitions:

     LLookup c k ep idxs obs   read of activeValIdxs + fetch<Kind>Duties(ep) under RLock, followed by the
                               lock-free computation of `missing` / the cached part.  obs = None: fast
                               path (every requested index was requested before: answer from the cache);
                               obs = Some r: the beacon node will be asked for exactly the indices r
     LFetch c ans m            the beacon node answered ans (duties) and m (metadata)  -- the answer
                               is determined by the chain state at this instant
     LFetchErr c               the beacon node call failed: the call returns the error, nothing is stored
     LStore c stored           storeOrAmend<Kind>Duties under Lock; stored = its boolean result
     LReturn c res m           the call returns duties res and metadata m
     LReorg e                  the chain reorganises back to epoch e (beacon node side): duties of every
                               epoch > e may change
     LInvalidate k e           trimAfter<Kind>Duties(e): the part of InvalidateCache(e) for kind k
     LTrim k e                 the part of Trim(e) for kind k (no-op for e < 3, else trimBefore(e-3))
     LUpdateActive idxs        UpdateActiveValIndices(idxs)

   so concurrent callers, reorgs, invalidations and trims interleave between the atomic steps and the
   theorems (CacheFacts.v) quantify over every interleaving.

   The beacon node is the function  bn k ep req g = duties of (asg k ep g) whose validator is in req,
   g = number of reorgs so far that went back to an epoch < ep ("epoch generation").  asg / metaf
   are arbitrary (Section variables): any duty assignment, validators with none or several duties.
   Assumptions encoded by this: (a) the beacon node answers per validator (the answer for an index
   list is the epoch's assignment filtered by membership, repeats in the list do not repeat duties);
   (b) a reorg back to epoch e changes duties of epochs > e only -- the contract of
   InvalidateCache's parameter.

   The three Go maps duties / metadata / requestedIdxs of a kind are always written together under the
   lock, so they are one map  epoch -> entry.  Reading activeValIdxs and reading the cache are two lock
   acquisitions in Go; they are one label here because UpdateActiveValIndices commutes with the
   cache read.  Not modelled: metrics, logging, the nil-duty error branch, context cancellation. *)
From Coq Require Import List NArith Arith Bool.
Import ListNotations.

Inductive kind := KProp | KAtt | KSync.

Definition kind_eqb (a b : kind) : bool :=
  match a, b with
  | KProp, KProp | KAtt, KAtt | KSync, KSync => true
  | _, _ => false
  end.

(* A duty: validator index and everything else (slot, committee positions, ...) as one number. *)
Definition duty := (N * N)%type.
Definition vidx (d : duty) : N := fst d.
Definition duty_eqb (a b : duty) : bool := N.eqb (fst a) (fst b) && N.eqb (snd a) (snd b).

Fixpoint mem (i : N) (l : list N) : bool :=
  match l with [] => false | x :: r => N.eqb x i || mem i r end.

Fixpoint nodupb (l : list N) : bool :=
  match l with [] => true | x :: r => negb (mem x r) && nodupb r end.

Fixpoint list_eqb {A : Type} (eqb : A -> A -> bool) (l1 l2 : list A) : bool :=
  match l1, l2 with
  | [], [] => true
  | x :: r1, y :: r2 => eqb x y && list_eqb eqb r1 r2
  | _, _ => false
  end.

(* duties of the validators in l (order of ds kept) *)
Definition only (l : list N) (ds : list duty) : list duty := filter (fun d => mem (vidx d) l) ds.
(* duties of validator i *)
Definition of_val (i : N) (ds : list duty) : list duty := filter (fun d => N.eqb (vidx d) i) ds.
(* indices of l not in old: order and repeats of l kept (Go: `missing`, `newlyFetchedIdxs`) *)
Definition minus (l old : list N) : list N := filter (fun i => negb (mem i old)) l.

Definition is_nil {A : Type} (l : list A) : bool := match l with [] => true | _ => false end.

(* vidxs as given by the caller; empty means all active validators *)
Definition resolve (act idxs : list N) : list N := if is_nil idxs then act else idxs.

(* number of reorgs so far that changed epoch ep *)
Definition egen (reorgs : list N) (ep : N) : nat := length (filter (fun r => N.ltb r ep) reorgs).

Definition trim_threshold : N := 3%N.   (* dutiesCacheTrimThreshold *)

Inductive label :=
| LLookup (c : nat) (k : kind) (ep : N) (idxs : list N) (obs : option (list N))
| LFetch (c : nat) (ans : list duty) (m : N)
| LFetchErr (c : nat)
| LStore (c : nat) (stored : bool)
| LReturn (c : nat) (res : list duty) (m : N)
| LReorg (e : N)
| LInvalidate (k : kind) (e : N)
| LTrim (k : kind) (e : N)
| LUpdateActive (idxs : list N).

Definition obs_eqb (a b : option (list N)) : bool :=
  match a, b with
  | None, None => true
  | Some x, Some y => list_eqb N.eqb x y
  | _, _ => false
  end.

Record entry := mkE { e_duties : list duty; e_meta : N; e_req : list N }.
Record kstate := mkK { k_gen : nat; k_map : N -> option entry }.

Inductive phase :=
| PLooked (cached : list duty) (req : list N) (lgen : nat)
| PFetched (cached : list duty) (req : list N) (lgen : nat) (ans : list duty) (am : N)
| PReady (res : list duty) (rm : N).

Record call := mkC { c_kind : kind; c_ep : N; c_phase : phase }.

Record state := mk { active : list N; reorgs : list N; ks : kind -> kstate; calls : nat -> option call }.

Definition set_k (s : state) (k : kind) (K : kstate) : state :=
  mk (active s) (reorgs s) (fun k' => if kind_eqb k k' then K else ks s k') (calls s).

Definition set_call (s : state) (c : nat) (oc : option call) : state :=
  mk (active s) (reorgs s) (ks s) (fun c' => if Nat.eqb c c' then oc else calls s c').

Definition set_entry (K : kstate) (ep : N) (en : entry) : kstate :=
  mkK (k_gen K) (fun ep' => if N.eqb ep ep' then Some en else k_map K ep').

Definition init_k : kstate := mkK 0 (fun _ => None).
Definition init_with (act : list N) : state := mk act [] (fun _ => init_k) (fun _ => None).
Definition init : state := init_with [].

Section Cache.
Variable asg : kind -> N -> nat -> list duty.   (* the epoch's duty assignment at an epoch generation *)
Variable metaf : kind -> N -> nat -> N.         (* the response metadata at an epoch generation *)

Definition bn (k : kind) (ep : N) (req : list N) (g : nat) : list duty := only req (asg k ep g).

(* storeOrAmend<Kind>Duties once the generation check passed: new map entry and the boolean result *)
Definition store_or_amend (K : kstate) (ep : N) (req : list N) (ans : list duty) (am : N) : kstate * bool :=
  match k_map K ep with
  | None => (set_entry K ep (mkE ans am req), true)
  | Some en =>
      let newly := minus req (e_req en) in
      (set_entry K ep (mkE (e_duties en ++ flat_map (fun i => of_val i ans) newly) (e_meta en) (e_req en ++ newly)),
       negb (is_nil newly))
  end.

(* [gencheck] = false is the code before the repair of F10 (no generation check in storeOrAmend). *)
Definition step_gen (gencheck : bool) (s : state) (l : label) : option state :=
  match l with
  | LLookup c k ep idxs obs =>
      match calls s c with
      | Some _ => None
      | None =>
          let req0 := resolve (active s) idxs in
          let K := ks s k in
          match k_map K ep with
          | None =>
              if obs_eqb obs (Some req0)
              then Some (set_call s c (Some (mkC k ep (PLooked [] req0 (k_gen K)))))
              else None
          | Some en =>
              let missing := minus req0 (e_req en) in
              let cached := only req0 (e_duties en) in
              if is_nil missing
              then (if obs_eqb obs None
                    then Some (set_call s c (Some (mkC k ep (PReady cached (e_meta en)))))
                    else None)
              else (if obs_eqb obs (Some missing)
                    then Some (set_call s c (Some (mkC k ep (PLooked cached missing (k_gen K)))))
                    else None)
          end
      end
  | LFetch c ans m =>
      match calls s c with
      | Some (mkC k ep (PLooked cached req lgen)) =>
          let g := egen (reorgs s) ep in
          if list_eqb duty_eqb ans (bn k ep req g) && N.eqb m (metaf k ep g)
          then Some (set_call s c (Some (mkC k ep (PFetched cached req lgen ans m))))
          else None
      | _ => None
      end
  | LFetchErr c =>
      match calls s c with
      | Some (mkC k ep (PLooked _ _ _)) => Some (set_call s c None)
      | _ => None
      end
  | LStore c stored =>
      match calls s c with
      | Some (mkC k ep (PFetched cached req lgen ans am)) =>
          let K := ks s k in
          let ready := Some (mkC k ep (PReady (cached ++ ans) am)) in
          if gencheck && negb (Nat.eqb lgen (k_gen K))
          then (if Bool.eqb stored false then Some (set_call s c ready) else None)
          else let (K', ok) := store_or_amend K ep req ans am in
               if Bool.eqb stored ok then Some (set_call (set_k s k K') c ready) else None
      | _ => None
      end
  | LReturn c res m =>
      match calls s c with
      | Some (mkC k ep (PReady r rm)) =>
          if list_eqb duty_eqb res r && N.eqb m rm then Some (set_call s c None) else None
      | _ => None
      end
  | LReorg e => Some (mk (active s) (e :: reorgs s) (ks s) (calls s))
  | LInvalidate k e =>
      let K := ks s k in
      Some (set_k s k (mkK (S (k_gen K)) (fun ep => if N.ltb e ep then None else k_map K ep)))
  | LTrim k e =>
      if N.ltb e trim_threshold then Some s
      else let K := ks s k in
           Some (set_k s k (mkK (k_gen K) (fun ep => if N.ltb ep (e - trim_threshold) then None else k_map K ep)))
  | LUpdateActive idxs => Some (mk idxs (reorgs s) (ks s) (calls s))
  end.

Definition step := step_gen true.

Fixpoint run_gen (gc : bool) (s : state) (ls : list label) : option state :=
  match ls with
  | [] => Some s
  | l :: r => match step_gen gc s l with Some s' => run_gen gc s' r | None => None end
  end.

Definition run := run_gen true.

(* Index of the first label the model refuses (None = whole trace accepted). *)
Fixpoint first_reject (gc : bool) (s : state) (ls : list label) (i : nat) : option nat :=
  match ls with
  | [] => None
  | l :: r => match step_gen gc s l with Some s' => first_reject gc s' r (S i) | None => Some i end
  end.

(* ---- The property, read off the label sequence alone (no model state). ----

   Monitor A ("answers"): what a returned answer must look like.  The ghost state remembers, per
   kind and epoch, the epoch generation at the most recent invalidation that covered the epoch
   ([h_floor]) and, per open call, that floor at the moment of its lookup.  An answer is accepted iff
   it contains duties of requested validators only, and for every requested validator its duties in
   the answer are the beacon node's duties of that validator at ONE epoch generation that is neither
   older than the last invalidation completed before the call started nor newer than the chain now;
   the metadata likewise.  When no reorg is pending or overlapping (floor = current generation) this
   says: the answer is the beacon node's answer (CacheFacts.answers_equal_bn). *)

Record gcall := mkG { g_kind : kind; g_ep : N; g_idxs : list N; g_fl : nat }.
Record ghost := mkH { h_active : list N; h_reorgs : list N; h_floor : kind -> N -> nat; h_calls : nat -> option gcall }.

Definition ginit_with (act : list N) : ghost := mkH act [] (fun _ _ => 0) (fun _ => None).
Definition ginit : ghost := ginit_with [].

(* generations fl, fl+1, ..., hi *)
Definition gens (fl hi : nat) : list nat := seq fl (S hi - fl).

Definition answer_ok (k : kind) (ep : N) (idxs : list N) (fl hi : nat) (res : list duty) (m : N) : bool :=
  let tabs := map (asg k ep) (gens fl hi) in
  forallb (fun d => mem (vidx d) idxs) res
  && forallb (fun i => existsb (fun t => list_eqb duty_eqb (of_val i res) (of_val i t)) tabs) idxs
  && existsb (fun g => N.eqb m (metaf k ep g)) (gens fl hi).

Definition check_ans (g : ghost) (l : label) : bool :=
  match l with
  | LReturn c res m =>
      match h_calls g c with
      | Some gc => answer_ok (g_kind gc) (g_ep gc) (g_idxs gc) (g_fl gc) (egen (h_reorgs g) (g_ep gc)) res m
      | None => true
      end
  | _ => true
  end.

Definition gstep (g : ghost) (l : label) : ghost :=
  match l with
  | LLookup c k ep idxs _ =>
      mkH (h_active g) (h_reorgs g) (h_floor g)
          (fun c' => if Nat.eqb c c' then Some (mkG k ep (resolve (h_active g) idxs) (h_floor g k ep)) else h_calls g c')
  | LFetchErr c | LReturn c _ _ =>
      mkH (h_active g) (h_reorgs g) (h_floor g) (fun c' => if Nat.eqb c c' then None else h_calls g c')
  | LReorg e => mkH (h_active g) (e :: h_reorgs g) (h_floor g) (h_calls g)
  | LInvalidate k e =>
      mkH (h_active g) (h_reorgs g)
          (fun k' ep => if kind_eqb k k' && N.ltb e ep then egen (h_reorgs g) ep else h_floor g k' ep)
          (h_calls g)
  | LUpdateActive idxs => mkH idxs (h_reorgs g) (h_floor g) (h_calls g)
  | LFetch _ _ _ | LStore _ _ | LTrim _ _ => g
  end.

Fixpoint monitor_from (g : ghost) (ls : list label) : bool :=
  match ls with [] => true | l :: r => check_ans g l && monitor_from (gstep g l) r end.
Definition monitor_ans := monitor_from ginit.

Fixpoint first_violation_ans (g : ghost) (ls : list label) (i : nat) : option nat :=
  match ls with
  | [] => None
  | l :: r => if check_ans g l then first_violation_ans (gstep g l) r (S i) else Some i
  end.

(* Every request is an explicit index SET: no index twice (for an empty list: in the active set). *)
Fixpoint sets_only_from (act : list N) (ls : list label) : bool :=
  match ls with
  | [] => true
  | LLookup _ _ _ idxs _ :: r => nodupb (resolve act idxs) && sets_only_from act r
  | LUpdateActive a :: r => sets_only_from a r
  | _ :: r => sets_only_from act r
  end.
Definition sets_only := sets_only_from [].

(* Monitor B ("fresh"): after an invalidation of epochs > e (resp. a trim of epochs < e - 3 during
   which no call on that epoch was in flight) the first call that looks the epoch up finds nothing:
   the beacon node is asked for all requested indices. *)

Record fghost := mkF { f_active : list N; f_fresh : kind -> N -> bool; f_open : list (nat * (kind * N)) }.
Definition finit_with (act : list N) : fghost := mkF act (fun _ _ => false) [].
Definition finit : fghost := finit_with [].

Definition open_on (k : kind) (ep : N) (o : list (nat * (kind * N))) : bool :=
  existsb (fun x => kind_eqb k (fst (snd x)) && N.eqb ep (snd (snd x))) o.

Definition close (c : nat) (o : list (nat * (kind * N))) : list (nat * (kind * N)) :=
  filter (fun x => negb (Nat.eqb c (fst x))) o.

Definition check_fresh (f : fghost) (l : label) : bool :=
  match l with
  | LLookup c k ep idxs obs =>
      if f_fresh f k ep then obs_eqb obs (Some (resolve (f_active f) idxs)) else true
  | _ => true
  end.

Definition fstep (f : fghost) (l : label) : fghost :=
  match l with
  | LLookup c k ep idxs obs =>
      mkF (f_active f)
          (fun k' ep' => if kind_eqb k k' && N.eqb ep ep' then false else f_fresh f k' ep')
          (match obs with Some _ => (c, (k, ep)) :: f_open f | None => f_open f end)
  | LStore c _ | LFetchErr c => mkF (f_active f) (f_fresh f) (close c (f_open f))
  | LInvalidate k e =>
      mkF (f_active f) (fun k' ep => if kind_eqb k k' && N.ltb e ep then true else f_fresh f k' ep) (f_open f)
  | LTrim k e =>
      if N.ltb e trim_threshold then f
      else mkF (f_active f)
               (fun k' ep => if kind_eqb k k' && N.ltb ep (e - trim_threshold) && negb (open_on k ep (f_open f))
                             then true else f_fresh f k' ep)
               (f_open f)
  | LUpdateActive idxs => mkF idxs (f_fresh f) (f_open f)
  | LFetch _ _ _ | LReturn _ _ _ | LReorg _ => f
  end.

Fixpoint fmonitor_from (f : fghost) (ls : list label) : bool :=
  match ls with [] => true | l :: r => check_fresh f l && fmonitor_from (fstep f l) r end.
Definition monitor_fresh := fmonitor_from finit.

Fixpoint first_violation_fresh (f : fghost) (ls : list label) (i : nat) : option nat :=
  match ls with
  | [] => None
  | l :: r => if check_fresh f l then first_violation_fresh (fstep f l) r (S i) else Some i
  end.

End Cache.

(* ---- A closed family of duty assignments used by the correspondence harness (the Go side computes
   the same function, harness/cache): every validator 0..nv-1 gets 0..3 duties per kind, epoch and
   epoch generation, chosen by a multiplicative hash of (seed, kind, epoch, generation, validator). ---- *)
Local Open Scope N_scope.

Definition kind_num (k : kind) : N := match k with KProp => 0 | KAtt => 1 | KSync => 2 end.

Definition mask32 : N := 4294967295.

Definition mix (seed k ep g v : N) : N :=
  let t := N.land ((((seed * 31 + k) * 37 + ep) * 41 + g) * 43 + v) mask32 in
  N.land (t * 2654435761 + 974711) mask32.

Definition cnt_of (k : kind) (h : N) : N :=
  let c := N.land (N.shiftr h 16) 7 in
  match k with
  | KProp => nth (N.to_nat c) [0; 1; 1; 2; 1; 0; 3; 1] 0
  | KAtt => nth (N.to_nat c) [0; 1; 1; 1; 1; 0; 2; 1] 0
  | KSync => nth (N.to_nat c) [0; 1; 0; 1; 2; 0; 1; 0] 0
  end.

Definition payload_of (ep h j : N) : N := ep * 32 + N.land (N.land (N.shiftr h 8) 31 + 7 * j) 31.

Definition nseq (n : N) : list N := map N.of_nat (seq 0 (N.to_nat n)).

Definition hasg (seed nv : N) (k : kind) (ep : N) (g : nat) : list duty :=
  flat_map (fun j =>
    flat_map (fun v =>
      let h := mix seed (kind_num k) ep (N.of_nat g) v in
      if N.ltb j (cnt_of k h) then [(v, payload_of ep h j)] else []) (nseq nv)) [0; 1; 2].

Definition hmeta (seed : N) (k : kind) (ep : N) (g : nat) : N :=
  1 + N.land (N.shiftr (mix seed (kind_num k) ep (N.of_nat g) 99) 16) 1023.
