(* C05 -> C02 bridge, sending side closed: the premise [honest_signs_only_broadcasts] of
   Flow/WireToNet.v is DERIVED from the composed system "every honest member runs the transport
   model Flow/WireSend.v on top of its qbft.Run (Qbft/Net.v)".

   Composition hypothesis [node_ok] (the wrapper passes transport.Broadcast to qbft.Run as the
   Broadcast callback, runInstance): an honest node i owns, per consensus instance (duty d'), one
   transport whose label sequence is a run of WireSend from the empty state with the node's key, and
     - every Broadcast call into that transport carries the instance's duty d' (qbft.Run passes its
       [instance] argument through unchanged), and
     - for the instance d under study, every such call IS a [Bcast b J] output of a step of member i
       in the global trace of Net.v, with b = the abstraction of the arguments.
   "The holder of an honest key has signed content c" then means: c is in the ghost signing log of one
   of that node's transports -- by WireSend.sign_only_in_broadcast that is the content built from
   the arguments of a successful Broadcast call.

   Proved here:
     wire_roundtrip          abs_wire (wire_of k a vals) = Some (mkm (absb (content_of a)) (map absb (a_just a)))
                             -- justification list preserved IN ORDER (createMsg keeps the order)
     args_of_bmsg_roundtrip  every Model.bmsg b is the abstraction of the arguments [args_of d b J]
     nreach_sent             Net.v's [sent] is exactly the Bcast main parts of the global trace, in order
     composed_honest_signs_only_broadcasts   the former premise (a)
     accepted_is_deliverable_composed        the bridge theorem with (a) replaced by [node_ok]
   Still assumed (explicit premises): injective serialisation, collision-free hash, unforgeable
   signatures for honest members' keys, one key per member.
   Still by inspection (each checked mechanically on the source / in the harness on every run, not
   proved): signMsg is called only from createMsg, createMsg only from transport.Broadcast, the
   private key reaches only newTransport (source scan in props/c05_bridge.py); qbft.Run passes
   [instance]/[process] unchanged to the callback and the transport model matches transport.go
   (trace inclusion of recorded Broadcast/ProcessReceives calls, harness zz_verif_send_test.go);
   ProcessReceives forwards the very message handle enqueued (pointer identity checked there). *)
From Coq Require Import List ZArith NArith Bool Lia PeanoNat.
From Charon Require Import Flow.WireMsg Flow.WireMsgFacts Flow.WireSend Flow.WireToNet
  Qbft.Model Qbft.Inv Qbft.Net.
Import ListNotations.

Definition type_code (t : mtype) : Z :=
  match t with PrePrepare => 1 | Prepare => 2 | Commit => 3 | RoundChange => 4 | Decided => 5 end%Z.

Lemma abs_type_code : forall t, abs_type (type_code t) = t.
Proof. destruct t; reflexivity. Qed.

Lemma abs_hash_32 : forall v, abs_hash (32, v) = v.
Proof.
  intros v. unfold abs_hash, to_hash32. simpl. destruct (N.eqb v 0) eqn:E; simpl; [|reflexivity].
  apply N.eqb_eq in E. auto.
Qed.

(* the sent list of Net.v is the list of Bcast main parts of the global trace *)
Lemma nreach_sent : forall c nt tr, nreach c nt tr ->
  sent nt = flat_map (fun e : nat * label => bc_mains (label_outs (snd e))) tr.
Proof.
  intros c nt tr Hr. induction Hr as [|nt tr i l nt' Hr IH Hs]; [reflexivity|].
  inversion Hs; subst. simpl. rewrite flat_map_app. simpl. rewrite app_nil_r, IH. reflexivity.
Qed.

Lemma bcast_in_bc_mains : forall outs b J, In (Bcast b J) outs -> In b (bc_mains outs).
Proof.
  induction outs as [|o r IH]; intros b J Hin; [destruct Hin|].
  destruct Hin as [->|Hin]; simpl; [left; reflexivity|].
  destruct o; simpl; try (eapply IH; eassumption). right. eapply IH; eassumption.
Qed.

Section Compose.
  Variables key sigT ebytes digest typeurl vbytes cbytes extra : Type.
  Variable encode : content extra -> ebytes.
  Variable H : ebytes -> digest.
  Variable verify : key -> digest -> sigT -> bool.
  Variable decode : typeurl -> vbytes -> option cbytes.
  Variable Hv : cbytes -> N.
  Variable sign : key -> digest -> sigT.
  Variable extra0 : extra.
  Variable weq : wire sigT typeurl vbytes extra -> wire sigT typeurl vbytes extra -> bool.

  Notation bargs := (bargs sigT extra).
  Notation content_of := (@content_of sigT extra extra0).
  Notation slabel := (slabel sigT typeurl vbytes extra).
  Notation srun := (srun encode H sign extra0 weq).
  Notation sinit := (sinit typeurl vbytes extra).

  (* ---- the wire message built by Broadcast abstracts to the Bcast output it was called for ---- *)

  Lemma abs_justs_map_some : forall J : list (part sigT extra),
    abs_justs (map (@Some _) J) = map (fun j => absb (p_c j)) J.
  Proof. induction J as [|j r IH]; simpl; [reflexivity|rewrite IH; reflexivity]. Qed.

  Theorem wire_roundtrip : forall k (a : bargs) (vals : vmap typeurl vbytes),
    abs_wire (wire_of encode H sign extra0 k a vals) =
    Some (mkm (absb (content_of a)) (map (fun j => absb (p_c j)) (a_just a))).
  Proof. intros. unfold abs_wire, wire_of. simpl. rewrite abs_justs_map_some. reflexivity. Qed.

  Definition args_of (d : dutyv) (b : bmsg) (J : list (part sigT extra)) : bargs :=
    {| a_type := type_code (ty b); a_duty := d; a_peer := Z.of_nat (src b); a_round := Z.of_nat (rnd b);
       a_vh := val b; a_pr := Z.of_nat (pr b); a_pvh := pv b; a_just := J |}.

  Theorem args_of_bmsg_roundtrip : forall d b J, absb (content_of (args_of d b J)) = b.
  Proof.
    intros d [t s r v p q] J. unfold absb, args_of. simpl.
    rewrite abs_type_code, !Nat2Z.id, !abs_hash_32. reflexivity.
  Qed.

  (* ---- the composed system ---- *)

  Variable c : cfg.
  Variable d : dutyv.                              (* the instance under study *)
  Variable e : env key.                            (* a receiving component *)
  Variable nt : net.
  Variable tr : list (nat * label).
  Hypothesis reach : nreach c nt tr.

  Variable keyof : nat -> key.                     (* member -> its key *)
  Variable nruns : nat -> list (dutyv * list slabel).   (* member -> its transports: (duty, labels) *)

  Definition node_ok : Prop :=
    forall i, good c i -> forall d' ls, In (d', ls) (nruns i) ->
      (exists st, srun (sinit (keyof i)) ls = Some st) /\
      forall a newv obs, In (SBcast a newv obs) ls ->
        a_duty a = d' /\
        (d' = d -> exists l J, In (i, l) tr /\ In (Bcast (absb (content_of a)) J) (label_outs l)).

  (* the holder of key k (an honest member's node) has signed cnt: cnt is in the signing log of one of its transports *)
  Definition node_signed (k : key) (cnt : content extra) : Prop :=
    exists i d' ls st, good c i /\ keyof i = k /\ In (d', ls) (nruns i) /\
                       srun (sinit (keyof i)) ls = Some st /\ In cnt (s_log st).

  Hypothesis Hnode : node_ok.

  (* premise (a) of WireToNet.v, now a theorem *)
  Theorem composed_honest_signs_only_broadcasts : forall k cnt,
    node_signed k cnt -> c_duty cnt = Some d -> In (absb cnt) (sent nt).
  Proof.
    intros k cnt (i & d' & ls & st & Hg & _ & Hin & Hrun & Hlog) Hd.
    destruct (Hnode i Hg _ _ Hin) as [_ Hcb].
    pose proof Hrun as Hrun2. eapply sign_only_in_broadcast_init in Hrun2; [|exact Hlog].
    destruct Hrun2 as (a & nv & w & Hl & ->).
    destruct (Hcb _ _ _ Hl) as [Ed Hb].
    simpl in Hd. inversion Hd as [Hd']. rewrite Ed in Hd'. destruct (Hb Hd') as (l & J & Htr & Hout).
    rewrite (nreach_sent _ _ _ reach). apply in_flat_map. exists (i, l). split; [assumption|].
    simpl. eapply bcast_in_bc_mains; eassumption.
  Qed.

  Hypothesis encode_inj : forall x y, encode x = encode y -> x = y.
  Hypothesis H_inj : forall x y, H x = H y -> x = y.
  Hypothesis unforgeable : forall k cnt s,
    honest_key c e k -> verify k (H (encode cnt)) s = true ->
    exists c0, node_signed k c0 /\ H (encode c0) = H (encode cnt).
  Hypothesis keys_of_members : WireMsg.nodes e = c_n c.

  (* THE BRIDGE, sending side included: whatever handle accepts for instance d abstracts to a message
     that Net.v's adversary may deliver in the current global state. *)
  Theorem accepted_is_deliverable_composed : forall st id req dl st' w,
    handle encode H verify decode Hv e st id req = (Accept, dl, st') ->
    req = Some w -> wire_duty req = Some d ->
    exists m, abs_wire w = Some m /\ msg_deliv c (sent nt) m /\
              length (just m) = length (w_just w) /\ length (just m) <= 2 * c_n c.
  Proof.
    intros st id req dl st' w X Hreq Hd.
    eapply accepted_is_deliverable with (signed := node_signed) (d := d); eauto.
    intros k cnt _ Hs Hdu. eapply composed_honest_signs_only_broadcasts; eauto.
  Qed.
End Compose.

Arguments node_ok {key sigT ebytes digest typeurl vbytes extra} encode H sign extra0 weq c d tr keyof nruns.
Arguments node_signed {key sigT ebytes digest typeurl vbytes extra} encode H sign extra0 weq c keyof nruns k cnt.
Arguments args_of {sigT extra} d b J.
