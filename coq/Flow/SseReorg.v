(* app/sse/listener.go handleChainReorgEvent + notifyChainReorg: which epoch the subscribers of chain-reorg events
   (duties cache InvalidateCache, scheduler HandleChainReorgEvent, fetcher) are told for a beacon-node event
   chain_reorg{slot, depth, epoch}.

     if slot < depth            -> error, nobody is told
     reorgEpoch := (slot - depth) / slotsPerEpoch          -- the epoch of the common ancestor
     if reorgEpoch == lastReorgEpoch (initially 0) -> nobody is told (several beacon nodes report the same reorg)
     else lastReorgEpoch := reorgEpoch; every subscriber is told reorgEpoch

   The event's own `epoch` field (the NEW head's epoch) plays no role.  Label = one event with what was observed:
   LReorg slot depth epochField errored told.  Executable; the harness (harness/overlay/app_sse) replays the same
   events through the real listener.eventHandler and the check evaluates [first_reject] / [monitor] on them. *)
From Coq Require Import List NArith Bool.
Import ListNotations.
Local Open Scope N_scope.

Inductive label := LReorg (slot depth epoch_field : N) (errored : bool) (told : option N).

Record state := mk { last : N }.
Definition init : state := mk 0.

Definition opt_eqb (a b : option N) : bool :=
  match a, b with Some x, Some y => N.eqb x y | None, None => true | _, _ => false end.

Definition step (spe : N) (s : state) (l : label) : option state :=
  match l with
  | LReorg slot depth _ errored told =>
      if slot <? depth then (if errored && opt_eqb told None then Some s else None)
      else
        let e := (slot - depth) / spe in
        if e =? last s then (if negb errored && opt_eqb told None then Some s else None)
        else (if negb errored && opt_eqb told (Some e) then Some (mk e) else None)
  end.

Fixpoint run (spe : N) (s : state) (ls : list label) : option state :=
  match ls with
  | [] => Some s
  | l :: r => match step spe s l with Some s' => run spe s' r | None => None end
  end.

Fixpoint first_reject (spe : N) (s : state) (ls : list label) (i : nat) : option nat :=
  match ls with
  | [] => None
  | l :: r => match step spe s l with Some s' => first_reject spe s' r (S i) | None => Some i end
  end.

(* The property side, over labels only (ghost: the last epoch told).  For every event:
   - told e  ->  depth <= slot and e is the epoch of the common ancestor slot - depth (NOT the new head's epoch,
                 NOT an epoch above the ancestor's: the cache drops epochs >= e, so a larger e leaves stale epochs);
   - a well-formed event (depth <= slot, no error) that tells nobody has the ancestor epoch that was told last
     (or 0 before anything was told): nothing else is dropped silently. *)
Fixpoint monitor_from (spe : N) (lastTold : N) (ls : list label) : bool :=
  match ls with
  | [] => true
  | LReorg slot depth _ errored told :: r =>
      match told with
      | Some e => (depth <=? slot) && (e =? (slot - depth) / spe) && negb errored && monitor_from spe e r
      | None => (errored || ((depth <=? slot) && ((slot - depth) / spe =? lastTold))) && monitor_from spe lastTold r
      end
  end.
Definition monitor (spe : N) (ls : list label) : bool := monitor_from spe 0 ls.

Fixpoint first_violation_from (spe : N) (lastTold : N) (ls : list label) (i : nat) : option nat :=
  match ls with
  | [] => None
  | LReorg slot depth _ errored told :: r =>
      match told with
      | Some e => if (depth <=? slot) && (e =? (slot - depth) / spe) && negb errored then first_violation_from spe e r (S i) else Some i
      | None => if errored || ((depth <=? slot) && ((slot - depth) / spe =? lastTold)) then first_violation_from spe lastTold r (S i) else Some i
      end
  end.
Definition first_violation (spe : N) (ls : list label) : option nat := first_violation_from spe 0 ls 0.

(* --- facts --- *)
Lemma opt_eqb_true a b : opt_eqb a b = true -> a = b.
Proof.
  destruct a as [x|], b as [y|]; simpl; intros H; try discriminate; [apply N.eqb_eq in H; subst|]; reflexivity.
Qed.

Lemma run_monitor_from spe ls : forall s, run spe s ls <> None -> monitor_from spe (last s) ls = true.
Proof.
  induction ls as [|l r IH]; intros s Hr; [reflexivity|].
  destruct l as [slot depth ef errored told]. cbn [run step] in Hr.
  destruct (slot <? depth) eqn:Hsd.
  - destruct (errored && opt_eqb told None) eqn:Hc; [|congruence].
    apply andb_true_iff in Hc. destruct Hc as [He Ht]. apply opt_eqb_true in Ht. subst told errored.
    cbn [monitor_from orb andb]. apply IH. exact Hr.
  - assert (Hle : (depth <=? slot) = true).
    { apply N.leb_le. apply N.ltb_ge in Hsd. exact Hsd. }
    destruct ((slot - depth) / spe =? last s) eqn:He.
    + destruct (negb errored && opt_eqb told None) eqn:Hc; [|congruence].
      apply andb_true_iff in Hc. destruct Hc as [Hne Ht]. apply opt_eqb_true in Ht. subst told.
      cbn [monitor_from]. rewrite Hle, He. cbn [andb]. rewrite orb_true_r. cbn [andb]. apply IH. exact Hr.
    + destruct (negb errored && opt_eqb told (Some ((slot - depth) / spe))) eqn:Hc; [|congruence].
      apply andb_true_iff in Hc. destruct Hc as [Hne Ht]. apply opt_eqb_true in Ht. subst told.
      cbn [monitor_from]. rewrite Hle, N.eqb_refl, Hne. cbn [andb]. exact (IH (mk ((slot - depth) / spe)) Hr).
Qed.

Theorem run_monitor spe ls s : run spe init ls = Some s -> monitor spe ls = true.
Proof. intros H. unfold monitor. apply (run_monitor_from spe ls init). congruence. Qed.

(* what a subscriber that drops everything from the told epoch on (InvalidateCache) relies on *)
Lemma monitor_told_from spe ls : forall lt slot depth ef errored e,
  monitor_from spe lt ls = true -> In (LReorg slot depth ef errored (Some e)) ls ->
  depth <= slot /\ e = (slot - depth) / spe.
Proof.
  induction ls as [|l r IH]; intros lt slot depth ef errored e Hm Hin; [destruct Hin|].
  destruct l as [sl dp f er told]. cbn [monitor_from] in Hm.
  destruct Hin as [Heq|Hin].
  - inversion Heq; subst.
    apply andb_true_iff in Hm. destruct Hm as [Hm _].
    apply andb_true_iff in Hm. destruct Hm as [Hm _].
    apply andb_true_iff in Hm. destruct Hm as [Hle He]. split; [apply N.leb_le; exact Hle | apply N.eqb_eq; exact He].
  - destruct told as [e'|].
    + apply andb_true_iff in Hm. destruct Hm as [_ Hm]. exact (IH _ _ _ _ _ _ Hm Hin).
    + apply andb_true_iff in Hm. destruct Hm as [_ Hm]. exact (IH _ _ _ _ _ _ Hm Hin).
Qed.

Theorem told_covers_affected spe ls s slot depth ef errored e :
  spe <> 0 -> run spe init ls = Some s -> In (LReorg slot depth ef errored (Some e)) ls ->
  depth <= slot /\
  (* e is the ancestor's epoch: not above it ... *) e * spe <= slot - depth /\
  (* ... and every slot after the common ancestor (the slots whose blocks changed) lies in an epoch >= e *)
  (forall s', slot - depth < s' -> e <= s' / spe).
Proof.
  intros Hspe Hrun Hin. pose proof (run_monitor _ _ _ Hrun) as Hm. unfold monitor in Hm.
  destruct (monitor_told_from _ _ _ _ _ _ _ _ Hm Hin) as [Hle He]. subst e. split; [exact Hle|]. split.
  - rewrite N.mul_comm. apply N.mul_div_le. exact Hspe.
  - intros s' Hs'. apply N.div_le_mono; [exact Hspe|]. apply N.lt_le_incl. exact Hs'.
Qed.

(* the two seeded mistakes, as labels the model rejects (and the monitor flags) *)
Example slotdiv_minus_depthdiv_rejected :   (* slot/spe - depth/spe = 2 for slot 64 depth 2; the ancestor is slot 62 in epoch 1 *)
  run 32 init [LReorg 64 2 2 false (Some 2)] = None /\ monitor 32 [LReorg 64 2 2 false (Some 2)] = false /\
  (exists s, run 32 init [LReorg 64 2 2 false (Some 1)] = Some s).
Proof. repeat split; try reflexivity. eexists; reflexivity. Qed.

Example event_epoch_field_rejected :        (* the event's epoch field (new head) instead of the ancestor's epoch *)
  run 8 init [LReorg 9 3 1 false (Some 1)] = None /\ (exists s, run 8 init [LReorg 9 3 1 false None] = Some s).
Proof. split; [reflexivity|eexists; reflexivity]. Qed.
