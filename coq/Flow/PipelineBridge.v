(* C01 as a COMPOSITION: bridges from the component models (frozen, read-only here)
     Stores/ParSigDB.v (C07), Flow/SigAgg.v (C09), Stores/DutyDB.v (C06), Qbft/Net.v (C02)
   to the cluster model Flow/Pipeline.v.  See Properties/C01_bridge.v for the statements and the end
   of this header for what remains assumed.

   Part A (ParSigDB => node rule of Pipeline).  Abstraction: a ParSigDB key (duty, pubkey,
   subcommittee) is numbered by Cantor pairing [kenc] (injective, proved); a ParSigDB partial
   (share, root, pid) becomes the Pipeline partial (share, eroot ty root, tag) where tag = 0 iff
   [gen pid] (pid names a genuine encoding), else pid+1; [rootof] says which message root an
   encoding carries (pid identifies the JSON encoding, of which the root is a function: entries must
   satisfy root = rootof pid, [wfp]).  Relation [Rn nd s st]: for every key, the Pipeline entries of
   node nd under kenc k are the abstraction of ParSigDB's entry list of k, in the same order.
   [store1_abs]: one AEntry of a non-exempt call and Pipeline's store1 on the abstracted partial
   agree on acceptance (VNew <-> Stored), on the new store and on the threshold output (same group).
   [call_sim]: a whole sequential call ABegin; AEntry*; AEnd on a Scheduled duty and Pipeline's
   store_batch agree (store, fired groups in order, and: no mismatch => every entry of the set is
   in the store afterwards, which is what licenses the release to the peers).
   Gaps of Part A: exempt duties (exit, builder registration: caps/eviction), expired duties, ATrim
   (the duty's lifetime) and CONCURRENT calls on one node are outside the simulation (calls are
   run one after the other); EBad entries are not admitted; the error class of a call is not
   carried into Pipeline's observation field (the composed run maps every store to ObsOther, which
   Pipeline never constrains) -- C07's own theorems speak about the error class.

   Part B (SigAgg => "publishes only all-genuine groups over one root"), from aggregate_sound.
   Part C (composed cluster): node stores ARE ParSigDB model states driven by ParSigDB.step, the
   publish condition IS SigAgg.aggregate returning an aggregate; forward simulation into Pipeline;
   C01_composed = single_root + broadcast_valid for the composed cluster.
   Part D (DutyDB, consensus): C06_answers_unique and C02 agreement restated in Pipeline's
   vocabulary under explicit coupling predicates (which ARE the wiring obligation + validator client
   honesty); composed companion.

   DEPENDS ON (definitions / lemmas of the frozen component developments; a change of any of these
   breaks this file):
     Stores/ParSigDB.v      key, kduty, dtype, partial (P share root pid), entry (EGood/EBad), status (Scheduled),
                            err (ENone/EMismatch/EOther), label (ABegin/AEntry/AEnd), call and its fields c_open c_int
                            c_duty c_st c_todo c_out c_mis c_abort, new_call, remove1, entry_eqb, key_eqb, upd, updc,
                            state (ent, calls), init, step, run, classify/verdict (VNew VDup VMismatch), find_share,
                            eroot, is_sig, group, thresh, dflt, store_new, outmap
     Stores/ParSigDBFacts.v ekey_of, ex_of, mfire, mcall, mstore, outl, step_begin, step_entry, step_end, mcall_static,
                            mcall_out, mfire_iff, thresh_spec, find_share_some, key_eqb_eq, key_eqb_refl, entry_eqb_eq,
                            upd_same, upd_other, updc_same, updc_other, out_ok_spec, MInv (m_nodup), minv_init, run_minv,
                            reject_reported, delivery
     Flow/SigAgg.v          sigt (PSig SOther), kind (KTyped), mkobj, mkps, p_idx, p_sig, o_content, share_map, aggregate
     Flow/SigAggFacts.v     aggregate_sound, share_map_last, share_map_In, share_map_nodup, get_In
     Stores/DutyDB.v        label (LAnswer), key, run, xinit, disciplined
     Stores/DutyDBFacts.v   answers_unique, run_monitor
     Qbft/Model.v           label;  Qbft/Net.v  cfg, wf_cfg, nreach, trace_nofail, trace_decides
     Qbft/Agreement.v       agreement_default;  Qbft/CmpInv.v  trace_cmp_fun;  Qbft/AgreementCmp.v  agreement_cmp
     Common/Quorum.v        quorum, faulty (through Flow/PipelineFacts.v)

   Still assumed after composition: symbolic BLS (genuine partials of honest shares come only from
   their own validator client; SigAgg's symbolic verifier = C08 + unforgeability), the wiring
   obligation (C01_wiring, checked on the regenerated list, here visible as the shape of the
   composed step and as the coupling predicates of Part D), validator-client honesty for the
   companion only, n + |Byz| < 2t. *)
From Coq Require Import List Arith Bool Lia PeanoNat Cantor ZArith NArith.
From Charon Require Import Common.Quorum Flow.Pipeline Flow.PipelineFacts.
From Charon Require Stores.ParSigDB Stores.ParSigDBFacts.
Import ListNotations.

Module PS := Charon.Stores.ParSigDB.
Module PF := Charon.Stores.ParSigDBFacts.

(* ---------------------------------------------------------------------------------------------
   Part A *)
Definition kenc (k : PS.key) : nat :=
  match k with (sl, ty, pk, sub) => Cantor.to_nat (Cantor.to_nat (Cantor.to_nat (sl, ty), pk), sub) end.

Lemma kenc_inj : forall a b, kenc a = kenc b -> a = b.
Proof.
  intros [[[s1 t1] p1] u1] [[[s2 t2] p2] u2] H. unfold kenc in H.
  apply Cantor.to_nat_inj in H.
  pose proof (f_equal fst H) as H1. pose proof (f_equal snd H) as H2. cbv [fst snd] in H1, H2.
  apply Cantor.to_nat_inj in H1.
  pose proof (f_equal fst H1) as H3. pose proof (f_equal snd H1) as H4. cbv [fst snd] in H3, H4.
  apply Cantor.to_nat_inj in H3.
  pose proof (f_equal fst H3) as H5. pose proof (f_equal snd H3) as H6. cbv [fst snd] in H5, H6.
  subst. reflexivity.
Qed.

Arguments kenc k : simpl never.

Section ParSig.
Variable t : nat.                 (* threshold *)
Variable gen : nat -> bool.       (* the encoding pid is a genuine partial signature of its share over its root *)
Variable rootof : nat -> nat.     (* the message root an encoding carries *)

Definition ptag (pid : nat) : nat := if gen pid then 0 else S pid.
Definition pabs (ty : nat) (p : PS.partial) : partial := mkP (PS.share p) (PS.eroot ty p) (ptag (PS.pid p)).
Definition wfp (p : PS.partial) : Prop := PS.root p = rootof (PS.pid p).
Definition kty (k : PS.key) : nat := PS.dtype (PS.kduty k).

Definition Rn (nd : node) (s : PS.state) (st : list ent) : Prop :=
  forall k, entries st nd (kenc k) = map (pabs (kty k)) (PS.ent s k).
Definition wfstore (s : PS.state) : Prop := forall k q, In q (PS.ent s k) -> wfp q.

Lemma find_abs : forall ty sh l,
  find (fun q => p_share q =? sh) (map (pabs ty) l) = option_map (pabs ty) (PS.find_share sh l).
Proof.
  intros ty sh l. unfold PS.find_share. induction l as [|a l IH]; simpl; auto.
  destruct (PS.share a =? sh); simpl; auto.
Qed.

Lemma filter_abs : forall ty p l,
  filter (fun q => p_root q =? PS.eroot ty p) (map (pabs ty) l) = map (pabs ty) (PS.group ty p l).
Proof.
  intros ty p l. unfold PS.group. induction l as [|a l IH]; simpl; auto.
  rewrite IH. destruct (PS.eroot ty a =? PS.eroot ty p); reflexivity.
Qed.

Lemma eroot_wf : forall ty p q, wfp p -> wfp q -> PS.pid p = PS.pid q -> PS.eroot ty p = PS.eroot ty q.
Proof. intros ty p q Hp Hq E. unfold PS.eroot. destruct (PS.is_sig ty); auto. rewrite Hp, Hq, E. reflexivity. Qed.

(* One entry: ParSigDB's verdict and store/threshold vs Pipeline's store1 on the abstraction. *)
Lemma store1_abs : forall nd s st k p,
  Rn nd s st -> wfstore s -> wfp p ->
  match PS.classify p (PS.ent s k) with
  | PS.VNew =>
      store1 t st nd (kenc k) (pabs (kty k) p) =
      (st ++ [(nd, kenc k, pabs (kty k) p)], Stored,
       option_map (map (pabs (kty k))) (PS.thresh t (kty k) (PS.ent s k ++ [p])))
  | PS.VDup => store1 t st nd (kenc k) (pabs (kty k) p) = (st, Dup, None)
  | PS.VMismatch => exists r, store1 t st nd (kenc k) (pabs (kty k) p) = (st, r, None) /\ r <> Stored
  end.
Proof.
  intros nd s st k p HR Hw Hp. unfold store1, PS.classify.
  rewrite (HR k), find_abs. simpl.
  destruct (PS.find_share (PS.share p) (PS.ent s k)) as [q|] eqn:F; simpl.
  - apply PF.find_share_some in F. destruct F as [Hq Hs].
    destruct (PS.pid q =? PS.pid p) eqn:E.
    + apply Nat.eqb_eq in E. unfold partial_eqb, pabs. simpl.
      rewrite (eroot_wf (kty k) q p (Hw k q Hq) Hp E), E, Hs, !Nat.eqb_refl. reflexivity.
    + eexists. split; [reflexivity|]. destruct (partial_eqb _ _); discriminate.
  - rewrite entries_app, entries_single, !Nat.eqb_refl. simpl. rewrite (HR k).
    change [pabs (kty k) p] with (map (pabs (kty k)) [p]). rewrite <- map_app, filter_abs, map_length.
    rewrite PF.thresh_spec, last_last. destruct (length (PS.group (kty k) p (PS.ent s k ++ [p])) =? t); reflexivity.
Qed.

Lemma group_last : forall ty p l, last (PS.group ty p (l ++ [p])) PS.dflt = p.
Proof.
  intros ty p l. unfold PS.group. rewrite filter_app. simpl. rewrite Nat.eqb_refl. apply last_last.
Qed.

Lemma thresh_last : forall ty l p g, PS.thresh t ty (l ++ [p]) = Some g -> last g PS.dflt = p.
Proof.
  intros ty l p g H. rewrite PF.thresh_spec, last_last in H.
  destruct (length (PS.group ty p (l ++ [p])) =? t); [|discriminate]. inversion H. apply group_last.
Qed.

Definition absout (nd : node) (d : PS.duty) (x : nat * nat * list PS.partial) : fire :=
  match x with (pk, sub, g) =>
    (nd, kenc (d, pk, sub), PS.eroot (PS.dtype d) (last g PS.dflt), map (pabs (PS.dtype d)) g) end.

Definition ofire (nd : node) (k : nat) (r : root) (f : option (list partial)) : list fire :=
  match f with Some g => [(nd, k, r, g)] | None => [] end.

Lemma classify_dup_in : forall p l, PS.classify p l = PS.VDup ->
  exists q, In q l /\ PS.share q = PS.share p /\ PS.pid q = PS.pid p.
Proof.
  intros p l H. unfold PS.classify in H. destruct (PS.find_share (PS.share p) l) as [q|] eqn:F; [|discriminate].
  apply PF.find_share_some in F. destruct F as [Hq Hs]. exists q. repeat split; auto.
  destruct (PS.pid q =? PS.pid p) eqn:E; [apply Nat.eqb_eq; exact E | discriminate].
Qed.

(* One AEntry of a call on a Scheduled (non-exempt, non-expired) duty. *)
Lemma entry_sim : forall nd s st c cl pk sub p s' st1 r f,
  PS.step t s (PS.AEntry c (PS.EGood pk sub p)) = Some s' ->
  PS.calls s c = Some cl -> PS.c_st cl = PS.Scheduled ->
  Rn nd s st -> wfstore s -> wfp p ->
  store1 t st nd (kenc (PS.c_duty cl, pk, sub)) (pabs (PS.dtype (PS.c_duty cl)) p) = (st1, r, f) ->
  Rn nd s' st1 /\ wfstore s' /\
  exists cl', PS.calls s' c = Some cl' /\
    PS.c_open cl' = PS.c_open cl /\ PS.c_int cl' = PS.c_int cl /\ PS.c_duty cl' = PS.c_duty cl /\
    PS.c_st cl' = PS.c_st cl /\ PS.c_abort cl' = PS.c_abort cl /\
    PS.c_todo cl' = PS.remove1 (PS.EGood pk sub p) (PS.c_todo cl) /\
    map (absout nd (PS.c_duty cl)) (PS.c_out cl') =
      map (absout nd (PS.c_duty cl)) (PS.c_out cl)
      ++ ofire nd (kenc (PS.c_duty cl, pk, sub)) (PS.eroot (PS.dtype (PS.c_duty cl)) p) f /\
    (PS.c_mis cl' = false ->
       PS.c_mis cl = false /\ In (nd, kenc (PS.c_duty cl, pk, sub), pabs (PS.dtype (PS.c_duty cl)) p) st1) /\
    (forall c0, c0 <> c -> PS.calls s' c0 = PS.calls s c0).
Proof.
  intros nd s st c cl pk sub p s' st1 r f Hstep Hc Hst HR Hw Hp Hs1.
  apply PF.step_entry in Hstep. destruct Hstep as [cl0 [Hc0 [_ [_ [_ Es']]]]].
  rewrite Hc in Hc0. inversion Hc0; subst cl0; clear Hc0.
  set (k := (PS.c_duty cl, pk, sub)) in *. set (ty := PS.dtype (PS.c_duty cl)) in *.
  assert (Ek : PF.ekey_of cl pk sub = k) by reflexivity.
  assert (Ety : kty k = ty) by reflexivity.
  assert (Eex : PF.ex_of cl = false) by (unfold PF.ex_of; rewrite Hst; reflexivity).
  pose proof (store1_abs nd s st k p HR Hw Hp) as HA. rewrite Ety in HA.
  pose proof (PF.mcall_static t s cl (PS.EGood pk sub p)) as [M1 [M2 [M3 [M4 [M5 M6]]]]].
  assert (Hcalls : forall c0, c0 <> c -> PS.calls s' c0 = PS.calls s c0).
  { intros c0 Hne. subst s'. simpl. apply PF.updc_other. exact Hne. }
  assert (Hcl' : PS.calls s' c = Some (PF.mcall t s cl (PS.EGood pk sub p))).
  { subst s'. simpl. apply PF.updc_same. }
  destruct (PS.classify p (PS.ent s k)) eqn:Ecl.
  - (* VDup *)
    rewrite HA in Hs1. inversion Hs1; subst st1 r f; clear Hs1.
    assert (Eent : PS.ent s' = PS.ent s).
    { subst s'. simpl. unfold PF.mstore. rewrite Ek, Ecl. reflexivity. }
    split; [intro k'; rewrite Eent; apply HR|]. split; [intros k' q; rewrite Eent; apply Hw|].
    eexists. split; [exact Hcl'|]. repeat (split; [assumption|]).
    split.
    + rewrite PF.mcall_out. unfold PF.mfire. rewrite Ek, Ecl. simpl. rewrite !app_nil_r. reflexivity.
    + split; [|exact Hcalls]. unfold PF.mcall. rewrite Ek, Ecl. simpl. intros Hm. split; [exact Hm|].
      destruct (classify_dup_in _ _ Ecl) as [q [Hq [Hs Hpid]]].
      apply In_entries. rewrite (HR k), Ety. apply in_map_iff. exists q. split; auto.
      unfold pabs. rewrite Hs, Hpid, (eroot_wf ty q p (Hw k q Hq) Hp Hpid). reflexivity.
  - (* VMismatch *)
    destruct HA as [r0 [HA _]]. rewrite HA in Hs1. inversion Hs1; subst st1 r f; clear Hs1.
    assert (Eent : PS.ent s' = PS.ent s).
    { subst s'. simpl. unfold PF.mstore. rewrite Ek, Ecl. reflexivity. }
    split; [intro k'; rewrite Eent; apply HR|]. split; [intros k' q; rewrite Eent; apply Hw|].
    eexists. split; [exact Hcl'|]. repeat (split; [assumption|]).
    split.
    + rewrite PF.mcall_out. unfold PF.mfire. rewrite Ek, Ecl. simpl. rewrite !app_nil_r. reflexivity.
    + split; [|exact Hcalls]. unfold PF.mcall. rewrite Ek, Ecl. simpl. discriminate.
  - (* VNew *)
    rewrite HA in Hs1. inversion Hs1; subst st1 r f; clear Hs1.
    assert (Eent : PS.ent s' = PS.upd (PS.ent s) k (PS.ent s k ++ [p])).
    { subst s'. simpl. unfold PF.mstore. rewrite Ek, Ecl, Eex. reflexivity. }
    split; [|split].
    + intro k'. rewrite Eent, entries_app, entries_single.
      destruct (PS.key_eqb k' k) eqn:E.
      * apply PF.key_eqb_eq in E. subst k'. rewrite !Nat.eqb_refl, PF.upd_same, (HR k), map_app. reflexivity.
      * assert (Hne : k' <> k) by (intro; subst; rewrite PF.key_eqb_refl in E; discriminate).
        rewrite PF.upd_other by exact Hne. rewrite Nat.eqb_refl. simpl.
        destruct (kenc k =? kenc k') eqn:E2.
        -- apply Nat.eqb_eq, kenc_inj in E2. congruence.
        -- rewrite app_nil_r. apply HR.
    + intros k' q. rewrite Eent. destruct (PS.key_eqb k' k) eqn:E.
      * apply PF.key_eqb_eq in E. subst k'. rewrite PF.upd_same. intros Hq. apply in_app_iff in Hq.
        destruct Hq as [Hq|[Hq|[]]]; [eapply Hw; eauto | subst; exact Hp].
      * assert (Hne : k' <> k) by (intro; subst; rewrite PF.key_eqb_refl in E; discriminate).
        rewrite PF.upd_other by exact Hne. apply Hw.
    + eexists. split; [exact Hcl'|]. repeat (split; [assumption|]).
      split.
      * rewrite PF.mcall_out, map_app. f_equal.
        unfold PF.mfire. rewrite Ek, Ecl, Eex. unfold PS.store_new. simpl. rewrite PF.upd_same.
        change (PS.dtype (PS.kduty k)) with ty.
        destruct (PS.thresh t ty (PS.ent s k ++ [p])) as [g|] eqn:Et; simpl; auto.
        rewrite (thresh_last _ _ _ _ Et). reflexivity.
      * split; [|exact Hcalls]. unfold PF.mcall. rewrite Ek, Ecl. simpl. intros Hm. split; [exact Hm|].
        apply in_app_iff. right. left. reflexivity.
Qed.

(* ---- a whole sequential call ---- *)
Fixpoint psdb_entries (s : PS.state) (c : nat) (es : list PS.entry) : option PS.state :=
  match es with
  | [] => Some s
  | e :: r => match PS.step t s (PS.AEntry c e) with Some s' => psdb_entries s' c r | None => None end
  end.

Definition psdb_call (s : PS.state) (c : nat) (i : bool) (d : PS.duty) (es : list PS.entry)
  (er : PS.err) (out : option PS.outmap) (il : bool) : option PS.state :=
  match PS.step t s (PS.ABegin c i d PS.Scheduled es) with
  | Some s1 => match psdb_entries s1 c es with
               | Some s2 => PS.step t s2 (PS.AEnd c er out il)
               | None => None
               end
  | None => None
  end.

(* the call is literally a piece of a ParSigDB trace *)
Lemma psdb_entries_run : forall es s c rest,
  PS.run t s (map (PS.AEntry c) es ++ rest) =
  match psdb_entries s c es with Some s' => PS.run t s' rest | None => None end.
Proof.
  induction es as [|e es IH]; intros s c rest; [reflexivity|].
  cbn [map app psdb_entries].
  change (PS.run t s (?l :: ?r)) with (match PS.step t s l with Some s' => PS.run t s' r | None => None end).
  destruct (PS.step t s (PS.AEntry c e)) as [s1|]; auto.
Qed.

Lemma psdb_call_is_run : forall s c i d es er out il,
  psdb_call s c i d es er out il =
  PS.run t s (PS.ABegin c i d PS.Scheduled es :: map (PS.AEntry c) es ++ [PS.AEnd c er out il]).
Proof.
  intros. unfold psdb_call. change (PS.run t s (?l :: ?r)) with
    (match PS.step t s l with Some s' => PS.run t s' r | None => None end).
  destruct (PS.step t s (PS.ABegin c i d PS.Scheduled es)) as [s1|]; auto.
  rewrite psdb_entries_run. destruct (psdb_entries s1 c es) as [s2|]; auto.
  change (PS.run t s2 [?l]) with (match PS.step t s2 l with Some s' => Some s' | None => None end).
  destruct (PS.step t s2 (PS.AEnd c er out il)); reflexivity.
Qed.

Definition good_entry (e : PS.entry) : Prop := exists pk sub p, e = PS.EGood pk sub p /\ wfp p.
Definition eabs (d : PS.duty) (e : PS.entry) : key * partial :=
  match e with
  | PS.EGood pk sub p => (kenc (d, pk, sub), pabs (PS.dtype d) p)
  | PS.EBad pk => (kenc (d, pk, 0), mkP 0 0 1)
  end.

Lemma store1_mono : forall st nd k p e, In e st -> In e (fst (fst (store1 t st nd k p))).
Proof.
  intros st nd k p e H. unfold store1. destruct (find _ _); simpl; auto. apply in_app_iff. auto.
Qed.

Lemma store_batch_mono : forall nd b st e, In e st -> In e (b_st (store_batch t st nd b)).
Proof.
  intros nd. induction b as [|[k p] b IH]; intros st e H; simpl; auto.
  pose proof (store1_mono st nd k p e H) as H1.
  destruct (store1 t st nd k p) as [[st1 r] f]. simpl in *. apply IH. exact H1.
Qed.

Lemma entries_sim : forall es nd s st c cl s',
  PS.calls s c = Some cl -> PS.c_st cl = PS.Scheduled -> PS.c_todo cl = es ->
  Rn nd s st -> wfstore s -> Forall good_entry es ->
  psdb_entries s c es = Some s' ->
  Rn nd s' (b_st (store_batch t st nd (map (eabs (PS.c_duty cl)) es))) /\ wfstore s' /\
  exists cl', PS.calls s' c = Some cl' /\
    PS.c_open cl' = PS.c_open cl /\ PS.c_int cl' = PS.c_int cl /\ PS.c_duty cl' = PS.c_duty cl /\
    PS.c_st cl' = PS.c_st cl /\ PS.c_abort cl' = PS.c_abort cl /\ PS.c_todo cl' = [] /\
    map (absout nd (PS.c_duty cl)) (PS.c_out cl') =
      map (absout nd (PS.c_duty cl)) (PS.c_out cl)
      ++ b_fired (store_batch t st nd (map (eabs (PS.c_duty cl)) es)) /\
    (PS.c_mis cl' = false ->
       PS.c_mis cl = false /\
       forall e, In e es -> In (nd, fst (eabs (PS.c_duty cl) e), snd (eabs (PS.c_duty cl) e))
                               (b_st (store_batch t st nd (map (eabs (PS.c_duty cl)) es)))) /\
    (forall c0, c0 <> c -> PS.calls s' c0 = PS.calls s c0).
Proof.
  induction es as [|e es IH]; intros nd s st c cl s' Hc Hst Htodo HR Hw Hg Hrun; cbn [psdb_entries map store_batch b_st b_fired] in *.
  - inversion Hrun; subst s'. split; [exact HR|]. split; [exact Hw|]. exists cl.
    split; [exact Hc|]. do 5 (split; [reflexivity|]). split; [exact Htodo|].
    split; [rewrite app_nil_r; reflexivity|]. split; [|auto].
    intros Hm. split; [exact Hm|]. intros e [].
  - apply Forall_cons_iff in Hg. destruct Hg as [[pk [sub [p [Ee Hp]]]] Hg']. subst e.
    destruct (PS.step t s (PS.AEntry c (PS.EGood pk sub p))) as [s1|] eqn:S1; [|discriminate].
    cbn [eabs].
    destruct (store1 t st nd (kenc (PS.c_duty cl, pk, sub)) (pabs (PS.dtype (PS.c_duty cl)) p)) as [[st1 r0] f] eqn:E1.
    destruct (entry_sim nd s st c cl pk sub p s1 st1 r0 f S1 Hc Hst HR Hw Hp E1)
      as [HR1 [Hw1 [cl1 [Hc1 [A1 [A2 [A3 [A4 [A5 [A6 [A7 [A8 A9]]]]]]]]]]]].
    assert (Ht1 : PS.c_todo cl1 = es).
    { rewrite A6, Htodo. cbn [PS.remove1]. assert (X : PS.entry_eqb (PS.EGood pk sub p) (PS.EGood pk sub p) = true)
        by (apply PF.entry_eqb_eq; reflexivity). rewrite X. reflexivity. }
    assert (Hst1 : PS.c_st cl1 = PS.Scheduled) by congruence.
    destruct (IH nd s1 st1 c cl1 s' Hc1 Hst1 Ht1 HR1 Hw1 Hg' Hrun)
      as [HR2 [Hw2 [cl2 [Hc2 [B1 [B2 [B3 [B4 [B5 [B6 [B7 [B8 B9]]]]]]]]]]]].
    rewrite A3 in *. simpl.
    split; [exact HR2|]. split; [exact Hw2|]. exists cl2.
    split; [exact Hc2|]. split; [congruence|]. split; [congruence|]. split; [congruence|].
    split; [congruence|]. split; [congruence|]. split; [exact B6|]. split.
    + rewrite B7, A7, <- app_assoc. reflexivity.
    + split.
      * intros Hm. destruct (B8 Hm) as [Hm1 Hall]. destruct (A8 Hm1) as [Hm0 Hin]. split; [exact Hm0|].
        intros e [Ee|He]; [subst e; simpl; apply store_batch_mono; exact Hin | apply Hall; exact He].
      * intros c0 Hne. rewrite B9 by exact Hne. apply A9. exact Hne.
Qed.

(* The whole call: ABegin c i d Scheduled es ; AEntry c e (e in es, in order) ; AEnd c er out il. *)
Theorem call_sim : forall nd s st c i d es er out il s',
  psdb_call s c i d es er out il = Some s' ->
  Rn nd s st -> wfstore s -> Forall good_entry es ->
  PS.calls s c = None /\
  Rn nd s' (b_st (store_batch t st nd (map (eabs d) es))) /\ wfstore s' /\
  exists cl, PS.calls s' c = Some cl /\ PS.c_duty cl = d /\
    map (absout nd d) (PS.c_out cl) = b_fired (store_batch t st nd (map (eabs d) es)) /\
    (forall x, In x (PF.outl out) <-> In x (PS.c_out cl)) /\
    (er = PS.EMismatch -> PS.c_mis cl = true) /\
    (il = true -> i = true /\ er = PS.ENone /\
       forall e, In e es -> In (nd, fst (eabs d e), snd (eabs d e)) (b_st (store_batch t st nd (map (eabs d) es)))) /\
    (forall c0, c0 <> c -> PS.calls s' c0 = PS.calls s c0).
Proof.
  intros nd s st c i d es er out il s' H HR Hw Hg. unfold psdb_call in H.
  destruct (PS.step t s (PS.ABegin c i d PS.Scheduled es)) as [s1|] eqn:S1; [|discriminate].
  destruct (psdb_entries s1 c es) as [s2|] eqn:S2; [|discriminate].
  apply (PF.step_begin t) in S1. destruct S1 as [Hnone [_ E1]].
  assert (Hc1 : PS.calls s1 c = Some (PS.new_call i d PS.Scheduled es)) by (subst s1; simpl; apply PF.updc_same).
  assert (HR1 : Rn nd s1 st) by (subst s1; exact HR).
  assert (Hw1 : wfstore s1) by (subst s1; exact Hw).
  destruct (entries_sim es nd s1 st c _ s2 Hc1 eq_refl eq_refl HR1 Hw1 Hg S2)
    as [HR2 [Hw2 [cl2 [Hc2 [B1 [B2 [B3 [B4 [B5 [B6 [B7 [B8 B9]]]]]]]]]]]].
  simpl in *.
  apply (PF.step_end t) in H. destruct H as [cl3 [Hc3 [Ho [Hab [Herr [Hil E3]]]]]].
  rewrite Hc2 in Hc3. inversion Hc3; subst cl3; clear Hc3.
  split; [exact Hnone|]. subst s'. simpl.
  split; [exact HR2|]. split; [exact Hw2|].
  exists (PS.closed cl2). split; [apply PF.updc_same|]. split; [exact B3|]. split; [exact B7|].
  destruct (Hab B5) as [_ Hok]. split.
  - apply PF.out_ok_spec in Hok. simpl. tauto.
  - split.
    + intros ->. simpl in Herr. exact Herr.
    + split.
      * intros ->. symmetry in Hil. apply andb_true_iff in Hil. destruct Hil as [Hi He].
        destruct er; try discriminate. simpl in Herr. apply andb_true_iff in Herr. destruct Herr as [Hm _].
        apply negb_true_iff in Hm. split; [congruence|]. split; [reflexivity|]. apply B8. exact Hm.
      * intros c0 Hne. rewrite PF.updc_other by exact Hne. rewrite B9 by exact Hne.
        subst s1. simpl. apply PF.updc_other. exact Hne.
Qed.
End ParSig.

(* ---------------------------------------------------------------------------------------------
   Part B: SigAgg (C09).  A Pipeline group for validator key k is handed to the aggregator model as
   a list of partial signed objects: share i -> index i+1; payload content = the root; the
   signature term is PSig v (i+1) root for a genuine partial and an unrelated point otherwise. *)
From Charon Require Flow.SigAgg Flow.SigAggFacts.
Module SA := Charon.Flow.SigAgg.
Module SF := Charon.Flow.SigAggFacts.

Definition sa_idx (p : partial) : Z := Z.of_nat (S (p_share p)).
Definition sa_enc (v : N) (p : partial) : SA.parsig nat :=
  SA.mkps (sa_idx p) (SA.mkobj SA.KTyped 0%N (p_root p))
    (if genuine p then SA.PSig v (sa_idx p) (N.of_nat (p_root p)) else SA.SOther (N.of_nat (p_tag p))).

Definition sa_publishes (t : nat) (k : key) (g : list partial) : bool :=
  match SA.aggregate nat N.of_nat t (N.of_nat k) (map (sa_enc (N.of_nat k)) g) with
  | inr _ => true
  | inl _ => false
  end.

Lemma sa_enc_in_map : forall v g p, NoDup (map p_share g) -> In p g ->
  In (sa_idx p, SA.p_sig _ (sa_enc v p)) (SA.share_map nat (map (sa_enc v) g)).
Proof.
  intros v g p N Hp. apply in_split in Hp. destruct Hp as [pre [post E]]. subst g.
  rewrite map_app. simpl. apply SF.get_In.
  change (sa_idx p) with (SA.p_idx _ (sa_enc v p)).
  apply SF.share_map_last. intros q Hq. apply in_map_iff in Hq. destruct Hq as [q0 [E Hq0]]. subst q.
  simpl. unfold sa_idx. intros Heq. apply Nat2Z.inj in Heq. inversion Heq as [Hs].
  rewrite map_app in N. simpl in N. apply NoDup_remove_2 in N. apply N. apply in_app_iff. right.
  rewrite <- Hs. apply in_map. exact Hq0.
Qed.

(* C09 in Pipeline's vocabulary: whatever the aggregator publishes for a group with distinct shares
   is a group of genuine partials over ONE root (the payload's). *)
Theorem sigagg_publishes_only_genuine : forall t k g,
  NoDup (map p_share g) -> sa_publishes t k g = true ->
  forallb genuine g = true /\ t <= length g /\ exists r, forall p, In p g -> p_root p = r.
Proof.
  intros t k g N H. unfold sa_publishes in H.
  destruct (SA.aggregate nat N.of_nat t (N.of_nat k) (map (sa_enc (N.of_nat k)) g)) as [e|[o m]] eqn:E; [discriminate|].
  apply SF.aggregate_sound in E. destruct E as [Hlen Hall].
  assert (Hp : forall p, In p g -> genuine p = true /\ p_root p = SA.o_content _ o).
  { intros p Hp. pose proof (Hall _ _ (sa_enc_in_map (N.of_nat k) g p N Hp)) as X. simpl in X.
    destruct (genuine p); [|discriminate]. inversion X as [Hr]. apply Nat2N.inj in Hr. auto. }
  split; [apply forallb_forall; intros p Hp'; apply Hp; exact Hp'|]. split.
  - pose proof (SF.share_map_nodup nat (map (sa_enc (N.of_nat k)) g)) as ND.
    assert (L : length (SA.share_map nat (map (sa_enc (N.of_nat k)) g)) <= length g).
    { rewrite <- (map_length fst). rewrite <- (map_length sa_idx g).
      apply NoDup_incl_length; auto. intros i Hi. apply in_map_iff in Hi. destruct Hi as [[i' s] [Ei Hi]].
      simpl in Ei. subst i'. apply SF.share_map_In in Hi. destruct Hi as [q [Hq [Hqi _]]].
      apply in_map_iff in Hq. destruct Hq as [p0 [Ep0 Hp0]]. subst q. simpl in Hqi. subst i.
      apply in_map. exact Hp0. }
    lia.
  - exists (SA.o_content _ o). intros p Hp'. apply Hp. exact Hp'.
Qed.

(* ---------------------------------------------------------------------------------------------
   Part C: the composed cluster.  Node stores are ParSigDB model states, every store action is a
   complete ParSigDB call run by ParSigDB.step, the publish condition is SigAgg.aggregate. *)
Section Composed.
Variable c : config.
Variable gen : nat -> bool.
Variable rootof : nat -> nat.

Record cstate := mkCS {
  c_db : node -> PS.state;
  c_sent : list (key * partial);
  c_served : list (node * key * root);
  c_pending : list fire
}.
Definition cinit : cstate := mkCS (fun _ => PS.init) [] [] [].

Inductive skind := KSign | KDeliver | KInject.
Inductive clabel :=
| CDecide (nd : node) (k : PS.key) (r : root) (ok : bool)
| CStore (kd : skind) (to : node) (cid : nat) (d : PS.duty) (es : list PS.entry)
         (er : PS.err) (out : option PS.outmap) (il : bool)
| CAggregate (nd : node) (k : PS.key) (r : root) (shares : list nat)
| CAggFail (nd : node) (k : PS.key).

Definition good_entryb (e : PS.entry) : bool :=
  match e with PS.EGood _ _ p => PS.root p =? rootof (PS.pid p) | PS.EBad _ => false end.

Definition eab (d : PS.duty) (e : PS.entry) : key * partial := eabs gen d e.

Definition admissible (s : cstate) (kd : skind) (to : node) (d : PS.duty) (e : PS.entry) : bool :=
  match kd with
  | KSign =>
      match e with
      | PS.EGood pk sub p =>
          (PS.share p =? to) && gen (PS.pid p)
          && (negb (c_ckey c (kenc (d, pk, sub)))
              || existsb (nkr_eqb (to, kenc (d, pk, sub), PS.eroot (PS.dtype d) p)) (c_served s))
      | PS.EBad _ => false
      end
  | KDeliver => existsb (kp_eqb (eab d e)) (c_sent s)
  | KInject => existsb (kp_eqb (eab d e)) (c_sent s) || is_byz c (p_share (snd (eab d e)))
               || negb (genuine (snd (eab d e)))
  end.

Definition is_sign (kd : skind) : bool := match kd with KSign => true | _ => false end.
Definition updn {A} (f : node -> A) (n : node) (v : A) : node -> A := fun m => if m =? n then v else f m.

Fixpoint take_first (f : fire -> bool) (l : list fire) : option (fire * list fire) :=
  match l with
  | [] => None
  | x :: l' => if f x then Some (x, l')
               else match take_first f l' with Some (y, r) => Some (y, x :: r) | None => None end
  end.

Definition idm (nd : node) (k : key) (r : root) (shares : list nat) (f : fire) : bool :=
  match f with (nd', k', r', g) => (nd' =? nd) && (k' =? k) && (r' =? r) && list_eqb (map p_share g) shares end.
Definition fgrp (f : fire) : list partial := match f with (_, _, _, g) => g end.

Definition cstep (s : cstate) (l : clabel) : option cstate :=
  match l with
  | CDecide nd k r ok =>
      if honest c nd
      then Some (if ok then mkCS (c_db s) (c_sent s) ((nd, kenc k, r) :: c_served s) (c_pending s) else s)
      else None
  | CStore kd to cid d es er out il =>
      if honest c to && forallb good_entryb es && forallb (admissible s kd to d) es
      then match psdb_call (c_t c) (c_db s to) cid (is_sign kd) d es er out il with
           | Some db' =>
               match PS.calls db' cid with
               | Some cl =>
                   Some (mkCS (updn (c_db s) to db')
                              (if il then c_sent s ++ map (eab d) es else c_sent s)
                              (c_served s)
                              (c_pending s ++ map (absout gen to d) (PS.c_out cl)))
               | None => None
               end
           | None => None
           end
      else None
  | CAggregate nd k r shares =>
      match take_first (idm nd (kenc k) r shares) (c_pending s) with
      | Some (x, pd) => if sa_publishes (c_t c) (kenc k) (fgrp x)
                        then Some (mkCS (c_db s) (c_sent s) (c_served s) pd) else None
      | None => None
      end
  | CAggFail nd k =>
      match take_fire (fun f => match f with (nd', k', _, _) => (nd' =? nd) && (k' =? kenc k) end) (c_pending s) with
      | Some pd => Some (mkCS (c_db s) (c_sent s) (c_served s) pd)
      | None => None
      end
  end.

Fixpoint crun (s : cstate) (ls : list clabel) : option cstate :=
  match ls with
  | [] => Some s
  | l :: r => match cstep s l with Some s' => crun s' r | None => None end
  end.

(* the Pipeline reading of a composed label *)
Definition kr_of (d : PS.duty) (e : PS.entry) : key * root := (fst (eab d e), p_root (snd (eab d e))).
Definition lmap (l : clabel) : list label :=
  match l with
  | CDecide nd k r ok => [LDecide nd (kenc k) r ok]
  | CStore KSign to _ d es _ _ il =>
      LSign to (map (kr_of d) es) ObsOther :: (if il then [LRelease to (map (kr_of d) es)] else [])
  | CStore KDeliver to _ d es _ _ _ => [LDeliver to (map (eab d) es) ObsOther]
  | CStore KInject to _ d es _ _ _ => [LInject to (map (eab d) es) ObsOther]
  | CAggregate nd k r shares => [LAggregate nd (kenc k) r shares]
  | CAggFail nd k => [LAggFail nd (kenc k)]
  end.

Definition RC (cs : cstate) (ps : state) : Prop :=
  (forall nd, Rn gen nd (c_db cs nd) (stores ps)) /\ (forall nd, wfstore rootof (c_db cs nd)) /\
  c_sent cs = sent ps /\ c_served cs = served ps /\ c_pending cs = pending ps.

Lemma good_entryb_spec : forall es, forallb good_entryb es = true -> Forall (good_entry rootof) es.
Proof.
  intros es H. apply Forall_forall. intros e He. pose proof (forallb_In _ _ _ _ H He) as X.
  destruct e as [pk sub p|pk]; simpl in X; [|discriminate]. exists pk, sub, p. split; auto.
  apply Nat.eqb_eq. exact X.
Qed.

Lemma store1_other_node : forall t st to k p nd k', nd <> to ->
  entries (fst (fst (store1 t st to k p))) nd k' = entries st nd k'.
Proof.
  intros t st to k p nd k' Hne. unfold store1. destruct (find _ _); simpl; auto.
  rewrite entries_app, entries_single.
  destruct (to =? nd) eqn:E; [apply Nat.eqb_eq in E; congruence|]. simpl. apply app_nil_r.
Qed.

Lemma store_batch_other_node : forall t to b st nd k', nd <> to ->
  entries (b_st (store_batch t st to b)) nd k' = entries st nd k'.
Proof.
  intros t to. induction b as [|[k p] b IH]; intros st nd k' Hne; simpl; auto.
  pose proof (store1_other_node t st to k p nd k' Hne) as H1.
  destruct (store1 t st to k p) as [[st1 r] f]. simpl in *. rewrite IH by exact Hne. exact H1.
Qed.

Lemma take_first_fire : forall (f g : fire -> bool) l x r,
  take_first f l = Some (x, r) -> g x = true -> take_fire (fun y => f y && g y) l = Some r.
Proof.
  induction l as [|a l IH]; simpl; intros x r H Hg; [discriminate|].
  destruct (f a) eqn:Fa.
  - inversion H; subst. rewrite Hg. reflexivity.
  - simpl. destruct (take_first f l) as [[y r0]|] eqn:T; [|discriminate]. inversion H; subst.
    rewrite (IH _ _ eq_refl Hg). reflexivity.
Qed.

Lemma take_first_in : forall f l x r, take_first f l = Some (x, r) -> In x l /\ f x = true.
Proof.
  induction l as [|a l IH]; simpl; intros x r H; [discriminate|].
  destruct (f a) eqn:Fa.
  - inversion H; subst. auto.
  - destruct (take_first f l) as [[y r0]|] eqn:T; [|discriminate]. inversion H; subst.
    destruct (IH _ _ eq_refl). auto.
Qed.

Lemma take_fire_ext : forall f g l, (forall x, f x = g x) -> take_fire f l = take_fire g l.
Proof. induction l as [|a l IH]; simpl; intros H; auto. rewrite H, IH; auto. Qed.
Lemma forallb_map : forall (A B : Type) (f : B -> bool) (g : A -> B) l,
  forallb f (map g l) = forallb (fun x => f (g x)) l.
Proof. induction l as [|a l IH]; simpl; auto. rewrite IH. reflexivity. Qed.

Lemma sign_eab : forall s to d e, admissible s KSign to d e = true -> own to (kr_of d e) = eab d e.
Proof.
  intros s to d e H. destruct e as [pk sub p|pk]; simpl in H; [|discriminate].
  apply andb_true_iff in H. destruct H as [H _]. apply andb_true_iff in H. destruct H as [H1 H2].
  apply Nat.eqb_eq in H1. unfold own, kr_of, eab, eabs, pabs, ptag. simpl. rewrite H1, H2. reflexivity.
Qed.

Lemma do_store_other : forall ps to b,
  do_store c ps to b ObsOther =
  Some (mkS (b_st (store_batch (c_t c) (stores ps) to b)) (sent ps) (served ps)
            (pending ps ++ b_fired (store_batch (c_t c) (stores ps) to b))).
Proof. intros. reflexivity. Qed.

Lemma RC_after_store : forall cs ps to d es db' (cl : PS.call) (il : bool),
  RC cs ps ->
  Rn gen to db' (b_st (store_batch (c_t c) (stores ps) to (map (eab d) es))) ->
  wfstore rootof db' ->
  map (absout gen to d) (PS.c_out cl) = b_fired (store_batch (c_t c) (stores ps) to (map (eab d) es)) ->
  forall snt, snt = (if il then sent ps ++ map (eab d) es else sent ps) ->
  RC (mkCS (updn (c_db cs) to db') (if il then c_sent cs ++ map (eab d) es else c_sent cs) (c_served cs)
           (c_pending cs ++ map (absout gen to d) (PS.c_out cl)))
     (mkS (b_st (store_batch (c_t c) (stores ps) to (map (eab d) es))) snt (served ps)
          (pending ps ++ b_fired (store_batch (c_t c) (stores ps) to (map (eab d) es)))).
Proof.
  intros cs ps to d es db' cl il [R1 [R2 [R3 [R4 R5]]]] HR Hw Hout snt Hs. unfold RC. simpl.
  split; [|split; [|split; [|split]]].
  - intros nd. unfold updn. destruct (nd =? to) eqn:E.
    + apply Nat.eqb_eq in E. subst nd. exact HR.
    + apply Nat.eqb_neq in E. intros k. rewrite store_batch_other_node by exact E. apply R1.
  - intros nd. unfold updn. destruct (nd =? to); [exact Hw | apply R2].
  - subst snt. rewrite R3. reflexivity.
  - exact R4.
  - rewrite R5, Hout. reflexivity.
Qed.

Theorem csim : forall cs ps l cs', RC cs ps -> Inv c ps -> cstep cs l = Some cs' ->
  exists ps', run c ps (lmap l) = Some ps' /\ RC cs' ps'.
Proof.
  intros cs ps l cs' HRC HI H. pose proof HRC as [R1 [R2 [R3 [R4 R5]]]].
  destruct l as [nd k r ok|kd to cid d es er out il|nd k r shares|nd k]; simpl in H.
  - (* CDecide *)
    destruct (honest c nd) eqn:Hh; [|discriminate]. inversion H; subst; clear H.
    simpl. rewrite Hh. eexists. split; [reflexivity|]. destruct ok; [|exact HRC].
    unfold RC. simpl. rewrite R4. auto.
  - (* CStore *)
    destruct (honest c to && forallb good_entryb es && forallb (admissible cs kd to d) es) eqn:G; [|discriminate].
    apply andb_true_iff in G. destruct G as [G Hadm]. apply andb_true_iff in G. destruct G as [Hh Hgood].
    destruct (psdb_call (c_t c) (c_db cs to) cid (is_sign kd) d es er out il) as [db'|] eqn:Hcall; [|discriminate].
    destruct (PS.calls db' cid) as [cl|] eqn:Hcl; [|discriminate]. inversion H; subst cs'; clear H.
    destruct (call_sim (c_t c) gen rootof to (c_db cs to) (stores ps) cid (is_sign kd) d es er out il db'
                Hcall (R1 to) (R2 to) (good_entryb_spec es Hgood))
      as [_ [HR' [Hw' [cl0 [Hcl0 [_ [Hout [_ [_ [Hil _]]]]]]]]]].
    rewrite Hcl in Hcl0. inversion Hcl0; subst cl0; clear Hcl0.
    fold (eab d) in HR', Hout, Hil.
    destruct kd; simpl lmap.
    + (* KSign *)
      assert (Eown : map (own to) (map (kr_of d) es) = map (eab d) es).
      { rewrite map_map. apply map_ext_in. intros e He. eapply sign_eab. apply (forallb_In _ _ _ _ Hadm He). }
      assert (S1 : step c ps (LSign to (map (kr_of d) es) ObsOther) =
                   Some (mkS (b_st (store_batch (c_t c) (stores ps) to (map (eab d) es))) (sent ps) (served ps)
                             (pending ps ++ b_fired (store_batch (c_t c) (stores ps) to (map (eab d) es))))).
      { simpl. rewrite Hh. simpl. rewrite forallb_map.
        assert (X : forallb (fun x => negb (c_ckey c (fst (kr_of d x)))
                     || existsb (nkr_eqb (to, fst (kr_of d x), snd (kr_of d x))) (served ps)) es = true).
        { apply forallb_forall. intros e He. pose proof (forallb_In _ _ _ _ Hadm He) as A.
          destruct e as [pk sub p|pk]; simpl in A; [|discriminate].
          apply andb_true_iff in A. destruct A as [_ A]. rewrite <- R4. exact A. }
        rewrite X, Eown. apply do_store_other. }
      destruct il.
      * (* released *)
        cbn [run]. rewrite S1.
        assert (S2 : forallb (fun kr : key * root => existsb (ent_eqb (to, fst kr, mkP to (snd kr) 0))
                       (b_st (store_batch (c_t c) (stores ps) to (map (eab d) es)))) (map (kr_of d) es) = true).
        { rewrite forallb_map. apply forallb_forall. intros e He. apply (existsb_In _ _ ent_eqb_eq).
          destruct (Hil eq_refl) as [_ [_ Hall]]. specialize (Hall e He).
          pose proof (sign_eab cs to d e (forallb_In _ _ _ _ Hadm He)) as Eo. unfold own, eab in Eo.
          rewrite <- Eo in Hall. simpl in Hall. exact Hall. }
        cbn [run step stores sent served pending]. rewrite Hh, S2. simpl.
        eexists. split; [reflexivity|]. rewrite Eown.
        apply (RC_after_store cs ps to d es db' cl true HRC HR' Hw' Hout). reflexivity.
      * cbn [run]. rewrite S1. eexists. split; [reflexivity|].
        apply (RC_after_store cs ps to d es db' cl false HRC HR' Hw' Hout). reflexivity.
    + (* KDeliver *)
      assert (Eil : il = false) by (destruct il; auto; destruct (Hil eq_refl) as [X _]; discriminate).
      subst il. simpl. rewrite Hh. simpl. rewrite forallb_map.
      assert (X : forallb (fun x => existsb (kp_eqb (eab d x)) (sent ps)) es = true).
      { apply forallb_forall. intros e He. pose proof (forallb_In _ _ _ _ Hadm He) as A. simpl in A.
        rewrite <- R3. exact A. }
      rewrite X, do_store_other. eexists. split; [reflexivity|].
      apply (RC_after_store cs ps to d es db' cl false HRC HR' Hw' Hout). reflexivity.
    + (* KInject *)
      assert (Eil : il = false) by (destruct il; auto; destruct (Hil eq_refl) as [X _]; discriminate).
      subst il. simpl. rewrite Hh. simpl. rewrite forallb_map.
      assert (X : forallb (fun x => adv_can c ps (eab d x)) es = true).
      { apply forallb_forall. intros e He. pose proof (forallb_In _ _ _ _ Hadm He) as A. simpl in A.
        unfold adv_can. rewrite <- R3. exact A. }
      rewrite X, do_store_other. eexists. split; [reflexivity|].
      apply (RC_after_store cs ps to d es db' cl false HRC HR' Hw' Hout). reflexivity.
  - (* CAggregate *)
    destruct (take_first (idm nd (kenc k) r shares) (c_pending cs)) as [[x pd]|] eqn:T; [|discriminate].
    destruct (sa_publishes (c_t c) (kenc k) (fgrp x)) eqn:P; [|discriminate]. inversion H; subst cs'; clear H.
    destruct (take_first_in _ _ _ _ T) as [Hin Hid]. rewrite R5 in Hin, T.
    destruct HI as [_ [_ [_ I4]]]. specialize (I4 x Hin). destruct x as [[[nd' k'] r'] g]. simpl in I4, P.
    destruct I4 as [_ [ND _]].
    destruct (sigagg_publishes_only_genuine _ _ _ ND P) as [Hg _].
    simpl. rewrite (take_fire_ext _ (fun y => idm nd (kenc k) r shares y && forallb genuine (fgrp y))).
    + rewrite (take_first_fire _ (fun y => forallb genuine (fgrp y)) _ _ _ T Hg).
      eexists. split; [reflexivity|]. unfold RC. simpl. auto.
    + intros [[[a b] c0] g0]. reflexivity.
  - (* CAggFail *)
    rewrite R5 in H.
    destruct (take_fire _ (pending ps)) as [pd|] eqn:T; [|discriminate]. inversion H; subst cs'; clear H.
    simpl. rewrite T. eexists. split; [reflexivity|]. unfold RC. simpl. auto.
Qed.
End Composed.

(* ---- run-level simulation and the composed theorems ---- *)
Section ComposedRun.
Variable c : config.
Variable gen : nat -> bool.
Variable rootof : nat -> nat.

Lemma run_app_p : forall l1 l2 s, run c s (l1 ++ l2) = match run c s l1 with Some s' => run c s' l2 | None => None end.
Proof. induction l1 as [|l l1 IH]; intros l2 s; simpl; auto. destruct (step c s l); auto. Qed.

Lemma run_inv_p : forall ls s s', Inv c s -> run c s ls = Some s' -> Inv c s'.
Proof.
  induction ls as [|l ls IH]; simpl; intros s s' HI H; [inversion H; subst; exact HI|].
  destruct (step c s l) as [s1|] eqn:S1; [|discriminate]. eapply IH; [eapply step_inv; eauto | exact H].
Qed.

Lemma RC_init : RC gen rootof (cinit) init.
Proof.
  unfold RC, cinit. simpl. split; [|split; [|auto]].
  - intros nd k. reflexivity.
  - intros nd k q H. simpl in H. destruct H.
Qed.

Theorem csim_run : forall ls cs ps cs', RC gen rootof cs ps -> Inv c ps ->
  crun c gen rootof cs ls = Some cs' ->
  exists ps', run c ps (flat_map (lmap gen) ls) = Some ps' /\ RC gen rootof cs' ps' /\ Inv c ps'.
Proof.
  induction ls as [|l ls IH]; simpl; intros cs ps cs' HR HI H.
  - inversion H; subst. exists ps. auto.
  - destruct (cstep c gen rootof cs l) as [cs1|] eqn:S1; [|discriminate].
    destruct (csim c gen rootof cs ps l cs1 HR HI S1) as [ps1 [Hr1 HR1]].
    pose proof (run_inv_p _ _ _ HI Hr1) as HI1.
    destruct (IH cs1 ps1 cs' HR1 HI1 H) as [ps' [Hr' [HR' HI']]].
    exists ps'. rewrite run_app_p, Hr1. auto.
Qed.

(* Refinement: every run of the composed cluster (ParSigDB + SigAgg inside) reads as a run of the
   abstract cluster model. *)
Theorem composed_refines : forall ls cs, crun c gen rootof cinit ls = Some cs ->
  exists ps, run c init (flat_map (lmap gen) ls) = Some ps /\ RC gen rootof cs ps.
Proof.
  intros ls cs H. destruct (csim_run ls _ _ _ RC_init (Inv_init c) H) as [ps [Hr [HR _]]]. eauto.
Qed.

Theorem composed_single_root : forall ls cs, wf c -> crun c gen rootof cinit ls = Some cs ->
  forall nd1 nd2 k r1 r2 sh1 sh2,
  In (CAggregate nd1 k r1 sh1) ls -> In (CAggregate nd2 k r2 sh2) ls -> r1 = r2.
Proof.
  intros ls cs W H nd1 nd2 k r1 r2 sh1 sh2 H1 H2.
  destruct (composed_refines ls cs H) as [ps [Hr _]].
  eapply (single_root c _ _ W Hr nd1 nd2 (kenc k) r1 r2 sh1 sh2); apply in_flat_map.
  - exists (CAggregate nd1 k r1 sh1). simpl. auto.
  - exists (CAggregate nd2 k r2 sh2). simpl. auto.
Qed.

Lemma lsign_origin : forall pre sh b o, In (LSign sh b o) (flat_map (lmap gen) pre) ->
  exists cid d es er out il, In (CStore KSign sh cid d es er out il) pre /\ b = map (kr_of gen d) es.
Proof.
  intros pre sh b o H. apply in_flat_map in H. destruct H as [l [Hl Hi]].
  destruct l as [nd k r ok|kd to cid d es er out il|nd k r shares|nd k]; simpl in Hi.
  - destruct Hi as [E|[]]; discriminate.
  - destruct kd; simpl in Hi.
    + destruct Hi as [E|Hi].
      * inversion E; subst. exists cid, d, es, er, out, il. auto.
      * destruct il; simpl in Hi; [destruct Hi as [E|[]]; discriminate | destruct Hi].
    + destruct Hi as [E|[]]; discriminate.
    + destruct Hi as [E|[]]; discriminate.
  - destruct Hi as [E|[]]; discriminate.
  - destruct Hi as [E|[]]; discriminate.
Qed.

Theorem composed_broadcast_valid : forall ls cs, crun c gen rootof cinit ls = Some cs ->
  forall pre nd k r shares post, ls = pre ++ CAggregate nd k r shares :: post ->
  length shares = c_t c /\ NoDup shares /\
  forall sh, In sh shares ->
    sh < c_n c /\
    (is_byz c sh = true \/
     exists cid d es er out il e, In (CStore KSign sh cid d es er out il) pre /\ In e es /\
                                  kr_of gen d e = (kenc k, r)).
Proof.
  intros ls cs H pre nd k r shares post E.
  destruct (composed_refines ls cs H) as [ps [Hr _]].
  assert (E2 : flat_map (lmap gen) ls = flat_map (lmap gen) pre ++ LAggregate nd (kenc k) r shares :: flat_map (lmap gen) post).
  { subst ls. rewrite flat_map_app. simpl. reflexivity. }
  destruct (broadcast_valid c _ _ Hr _ _ _ _ _ _ E2) as [L [N Hall]].
  split; [exact L|]. split; [exact N|]. intros sh Hs. destruct (Hall sh Hs) as [Hlt [Hb|[pre1 [b [o [post1 [Ep Hb]]]]]]].
  - split; auto.
  - split; [exact Hlt|]. right.
    assert (Hin : In (LSign sh b o) (flat_map (lmap gen) pre)) by (rewrite Ep; apply in_app_iff; right; left; reflexivity).
    destruct (lsign_origin _ _ _ _ Hin) as [cid [d [es [er [out [il [Hc Eb]]]]]]].
    subst b. apply in_map_iff in Hb. destruct Hb as [e [Ee He]].
    exists cid, d, es, er, out, il, e. auto.
Qed.
End ComposedRun.

(* ---- the three facts the coordinator's brief names, in Pipeline's vocabulary ---- *)
Section ThreeFacts.
Variable t : nat.
Variable gen : nat -> bool.
Variable rootof : nat -> nat.

(* (a) at most one entry per share per key: ParSigDB's invariant, read through the abstraction *)
Theorem parsig_one_entry_per_share : forall ls s nd st k,
  PS.run t PS.init ls = Some s -> Rn gen nd s st -> NoDup (map p_share (entries st nd (kenc k))).
Proof.
  intros ls s nd st k H HR. rewrite (HR k), map_map. simpl.
  pose proof (PF.run_minv t ls PS.init s PF.minv_init H) as [Hn _]. apply Hn.
Qed.

(* (b) a rejected (mismatching) entry => the call returns an error and the internal subscribers
   (ParSigEx.Broadcast) are NOT called: C07_reject_reported + C07_delivery *)
Theorem parsig_mismatch_not_released : forall p1 c pk sub p p2 er out il p3 s s0 cl,
  PS.run t PS.init (p1 ++ PS.AEntry c (PS.EGood pk sub p) :: p2 ++ PS.AEnd c er out il :: p3) = Some s ->
  PS.run t PS.init p1 = Some s0 -> PS.calls s0 c = Some cl ->
  PS.classify p (PS.ent s0 (PF.ekey_of cl pk sub)) = PS.VMismatch -> er <> PS.ENone /\ il = false.
Proof.
  intros p1 c pk sub p p2 er out il p3 s s0 cl H H0 Hc Hm.
  pose proof (PF.reject_reported t p1 c pk sub p p2 er out il p3 s s0 cl H H0 Hc Hm) as Her.
  split; [exact Her|].
  replace (p1 ++ PS.AEntry c (PS.EGood pk sub p) :: p2 ++ PS.AEnd c er out il :: p3)
    with ((p1 ++ PS.AEntry c (PS.EGood pk sub p) :: p2) ++ PS.AEnd c er out il :: p3) in H
    by (rewrite <- app_assoc; reflexivity).
  destruct (PF.delivery t _ _ _ _ _ _ _ H) as [s1 [cl1 [_ [_ [_ [_ [_ [_ [_ [_ [_ [_ Hil]]]]]]]]]]]].
  rewrite Hil. destruct er; simpl; try apply andb_false_r. contradiction.
Qed.

(* (c) the threshold output of one accepted entry is the same group on both sides, and it exists iff
   the new partial's root group has exactly t members (C07_fires_iff) *)
Theorem parsig_fires_iff : forall nd s st cl pk sub p,
  Rn gen nd s st -> wfstore rootof s -> wfp rootof p -> PS.c_st cl = PS.Scheduled ->
  PS.classify p (PS.ent s (PF.ekey_of cl pk sub)) = PS.VNew ->
  let k := PF.ekey_of cl pk sub in
  snd (store1 t st nd (kenc k) (pabs gen (kty k) p)) =
    option_map (fun x => map (pabs gen (kty k)) (snd x)) (PF.mfire t s cl (PS.EGood pk sub p)) /\
  (PF.mfire t s cl (PS.EGood pk sub p) <> None <->
   length (PS.group (kty k) p (PS.ent s k ++ [p])) = t).
Proof.
  intros nd s st cl pk sub p HR Hw Hp Hst Hcl k.
  pose proof (store1_abs t gen rootof nd s st k p HR Hw Hp) as HA. fold k in Hcl. rewrite Hcl in HA.
  rewrite HA. cbn [snd]. split.
  - unfold PF.mfire. fold k. rewrite Hcl. unfold PF.ex_of. rewrite Hst. simpl.
    unfold PS.store_new. simpl. rewrite PF.upd_same.
    change (PS.dtype (PS.kduty k)) with (kty k).
    destruct (PS.thresh t (kty k) (PS.ent s k ++ [p])); reflexivity.
  - destruct (PF.mfire t s cl (PS.EGood pk sub p)) as [x|] eqn:E.
    + split; [|intros _ X0; discriminate X0]. intros _.
      apply PF.mfire_iff in E. destruct E as [_ [E _]]. exact E.
    + split; [intros Hne; exfalso; apply Hne; reflexivity|]. intros Hl. exfalso.
      assert (X : PF.mfire t s cl (PS.EGood pk sub p) = Some (pk, sub, PS.group (kty k) p (PS.ent s k ++ [p]))).
      { apply PF.mfire_iff. auto. }
      congruence.
Qed.
End ThreeFacts.

(* ---- non-vacuity of the composed cluster: n = 4, t = 3, node 3 Byzantine ---- *)
Definition cx_cfg : config := mkCfg 4 3 [3] (fun _ => false).
Definition cx_gen (pid : nat) : bool := pid <? 1000.
Definition cx_rootof (pid : nat) : nat := pid mod 1000.
Definition cx_d : PS.duty := (0, 1).   (* small numbers: kenc is Cantor pairing on unary nat *)
Definition cx_k : PS.key := (cx_d, 0, 0).
Definition cx_e (sh r pid : nat) : PS.entry := PS.EGood 0 0 (PS.P sh r pid).
Definition cx_trace : list clabel :=
  [ CStore KSign 0 1 cx_d [cx_e 0 5 5] PS.ENone None true;
    CStore KSign 1 1 cx_d [cx_e 1 5 5] PS.ENone None true;
    CStore KDeliver 0 2 cx_d [cx_e 1 5 5] PS.ENone None false;
    CStore KInject 0 3 cx_d [cx_e 3 6 6] PS.ENone None false;          (* the Byzantine share signs another root *)
    CStore KInject 0 4 cx_d [cx_e 3 5 5] PS.EMismatch None false;      (* and then this one: rejected *)
    CStore KInject 0 5 cx_d [cx_e 2 5 1005] PS.ENone
           (Some [(0, 0, [PS.P 0 5 5; PS.P 1 5 5; PS.P 2 5 1005])]) false; (* garbage under share 2 arrives first: threshold BY COUNT at node 0 *)
    CStore KSign 2 1 cx_d [cx_e 2 5 5] PS.ENone None true;
    CStore KDeliver 0 6 cx_d [cx_e 2 5 5] PS.EMismatch None false;     (* so the genuine partial of share 2 is refused *)
    CStore KDeliver 1 2 cx_d [cx_e 0 5 5] PS.ENone None false;
    CStore KDeliver 1 3 cx_d [cx_e 2 5 5] PS.ENone
           (Some [(0, 0, [PS.P 1 5 5; PS.P 0 5 5; PS.P 2 5 5])]) false; (* threshold at node 1 *)
    CAggregate 1 cx_k 5 [1; 0; 2] ].

Definition cx_ok (ls : list clabel) : bool :=
  match crun cx_cfg cx_gen cx_rootof cinit ls with Some _ => true | None => false end.

Example cx_accepted : cx_ok cx_trace = true.
Proof. vm_compute. reflexivity. Qed.

Lemma cx_accepted_ex : exists cs, crun cx_cfg cx_gen cx_rootof cinit cx_trace = Some cs.
Proof.
  pose proof cx_accepted as H. unfold cx_ok in H.
  destruct (crun cx_cfg cx_gen cx_rootof cinit cx_trace) as [cs|]; [eauto | discriminate].
Qed.

(* node 0 reached the count with a garbage partial: SigAgg does not publish that group (only CAggFail is possible) *)
Example cx_garbage_not_published :
  cx_ok (firstn 6 cx_trace ++ [CAggregate 0 cx_k 5 [0; 1; 2]]) = false /\
  cx_ok (firstn 6 cx_trace ++ [CAggFail 0 cx_k]) = true /\
  sa_publishes 3 (kenc cx_k) [mkP 0 5 0; mkP 1 5 0; mkP 2 5 1006] = false /\
  sa_publishes 3 (kenc cx_k) [mkP 0 5 0; mkP 1 5 0; mkP 2 5 0] = true.
Proof. repeat split; vm_compute; reflexivity. Qed.

(* ---------------------------------------------------------------------------------------------
   Part D: DutyDB (C06) and consensus (C02) in Pipeline's vocabulary.
   The coupling predicates below are exactly what the wiring obligation and validator-client honesty
   say: [decide_coupled] = what reaches DutyDB.Store (LDecide) is what the node's consensus instance
   decided (DutyDB.Store is fed ONLY by Consensus.Subscribe: C01_wiring), [vroot] reads the root
   of the datum for key k off the decided value; [vc_follows] = an honest validator client signs,
   for a consensus duty, only content its node's duty store answered. *)
From Charon Require Stores.DutyDB Stores.DutyDBFacts Qbft.Net Qbft.Agreement Qbft.CmpInv Qbft.AgreementCmp.
Module DD := Charon.Stores.DutyDB.
Module DF := Charon.Stores.DutyDBFacts.
Module QN := Charon.Qbft.Net.
Module QA := Charon.Qbft.Agreement.
Module QC := Charon.Qbft.CmpInv.
Module QAC := Charon.Qbft.AgreementCmp.

Lemma in_two_split : forall (A : Type) (a b : A) l, In a l -> In b l ->
  a = b \/ (exists p m q, l = p ++ a :: m ++ b :: q) \/ (exists p m q, l = p ++ b :: m ++ a :: q).
Proof.
  induction l as [|x l IH]; simpl; intros Ha Hb; [contradiction|].
  destruct Ha as [Ea|Ha], Hb as [Eb|Hb].
  - left. congruence.
  - subst x. apply in_split in Hb. destruct Hb as [m [q E]]. right. left. exists [], m, q. subst l. reflexivity.
  - subst x. apply in_split in Ha. destruct Ha as [m [q E]]. right. right. exists [], m, q. subst l. reflexivity.
  - destruct (IH Ha Hb) as [E|[[p [m [q E]]]|[p [m [q E]]]]]; auto.
    + right. left. exists (x :: p), m, q. subst l. reflexivity.
    + right. right. exists (x :: p), m, q. subst l. reflexivity.
Qed.

(* C06_answers_unique without the order: all answers a duty store ever gives for one key carry the
   same content. *)
Theorem dutydb_answers_one_content : forall dls ds, DD.run DD.xinit dls = Some ds -> DD.disciplined dls = true ->
  forall q1 q2 k c1 c2, In (DD.LAnswer q1 k c1) dls -> In (DD.LAnswer q2 k c2) dls -> c1 = c2.
Proof.
  intros dls ds H D q1 q2 k c1 c2 H1 H2.
  pose proof (DF.answers_unique dls (DF.run_monitor dls ds H) D) as U.
  destruct (in_two_split _ _ _ _ H1 H2) as [E|[[p [m [q E]]]|[p [m [q E]]]]].
  - inversion E. reflexivity.
  - eapply U; eauto.
  - symmetry. eapply U; eauto.
Qed.

Definition vc_follows (ckey : key -> bool) (ls : list label) (nd : node) (dls : list DD.label)
  (dkey : key -> DD.key) (croot : N -> root) : Prop :=
  forall b o k r, In (LSign nd b o) ls -> In (k, r) b -> ckey k = true ->
    exists q cnt, In (DD.LAnswer q (dkey k) cnt) dls /\ croot cnt = r.

(* ... hence a validator client that signs what it is served signs at most one root per key. *)
Theorem vc_one_root_per_key : forall ckey ls nd dls ds dkey croot,
  DD.run DD.xinit dls = Some ds -> DD.disciplined dls = true -> vc_follows ckey ls nd dls dkey croot ->
  forall b o b' o' k r r', ckey k = true ->
    In (LSign nd b o) ls -> In (k, r) b -> In (LSign nd b' o') ls -> In (k, r') b' -> r = r'.
Proof.
  intros ckey ls nd dls ds dkey croot H D F b o b' o' k r r' Hk H1 H2 H3 H4.
  destruct (F _ _ _ _ H1 H2 Hk) as [q [cnt [A E]]]. destruct (F _ _ _ _ H3 H4 Hk) as [q' [cnt' [A' E']]].
  rewrite <- E, <- E'. f_equal. eapply dutydb_answers_one_content; eauto.
Qed.

Definition decide_coupled (ls : list label) (k : key) (tr : list (nat * Charon.Qbft.Model.label)) (vroot : N -> root) : Prop :=
  forall nd r ok, In (LDecide nd k r ok) ls ->
    exists v rnd, In (nd, v, rnd) (QN.trace_decides tr) /\ vroot v = r.

(* C02 in Pipeline's vocabulary: all LDecide labels of one consensus duty carry one root. *)
Theorem consensus_one_decided_root : forall cq nt tr ls k vroot,
  QN.wf_cfg cq -> QN.nreach cq nt tr -> QN.trace_nofail tr -> decide_coupled ls k tr vroot ->
  forall nd nd' r r' ok ok', In (LDecide nd k r ok) ls -> In (LDecide nd' k r' ok') ls -> r = r'.
Proof.
  intros cq nt tr ls k vroot W R NF Cp nd nd' r r' ok ok' H1 H2.
  destruct (Cp _ _ _ H1) as [v [rn [D1 E1]]]. destruct (Cp _ _ _ H2) as [v' [rn' [D2 E2]]].
  rewrite <- E1, <- E2. f_equal. eapply QA.agreement_default; eauto.
Qed.

(* the same with compare failures (feature chain_split_halt), from C02_cmp_agreement *)
Theorem consensus_one_decided_root_cmp : forall cf cq nt tr ls k vroot,
  QN.wf_cfg cq -> QN.nreach cq nt tr -> QC.trace_cmp_fun cf tr -> decide_coupled ls k tr vroot ->
  forall nd nd' r r' ok ok', In (LDecide nd k r ok) ls -> In (LDecide nd' k r' ok') ls -> r = r'.
Proof.
  intros cf cq nt tr ls k vroot W R NF Cp nd nd' r r' ok ok' H1 H2.
  destruct (Cp _ _ _ H1) as [v [rn [D1 E1]]]. destruct (Cp _ _ _ H2) as [v' [rn' [D2 E2]]].
  rewrite <- E1, <- E2. f_equal. eapply QAC.agreement_cmp; eauto.
Qed.

(* The companion with its two hypotheses discharged by the consensus theorem: given an execution of
   the QBFT network model coupled to the decisions of the trace, every root an honest validator
   client signs for the consensus duty k is the decided root. *)
Theorem composed_sign_same : forall c ls s k cq nt tr vroot nd0 r0,
  run c init ls = Some s -> c_ckey c k = true ->
  QN.wf_cfg cq -> QN.nreach cq nt tr -> QN.trace_nofail tr -> decide_coupled ls k tr vroot ->
  In (LDecide nd0 k r0 true) ls ->
  forall nd b o r, In (LSign nd b o) ls -> In (k, r) b -> r = r0.
Proof.
  intros c ls s k cq nt tr vroot nd0 r0 H Hk W R NF Cp D nd b o r Hs Hb.
  eapply (honest_sign_same c ls s k nd0 r0 H Hk); eauto.
  - intros n1 n2 x y _ A B. eapply consensus_one_decided_root; eauto.
  - intros n1 x y A B. eapply consensus_one_decided_root; eauto.
Qed.

(* for the composed cluster (ParSigDB + SigAgg inside), through the refinement *)
Theorem composed_cluster_sign_same : forall c gen rootof cls cs k cq nt tr vroot nd0 r0,
  crun c gen rootof cinit cls = Some cs -> c_ckey c (kenc k) = true ->
  QN.wf_cfg cq -> QN.nreach cq nt tr -> QN.trace_nofail tr ->
  decide_coupled (flat_map (lmap gen) cls) (kenc k) tr vroot ->
  In (CDecide nd0 k r0 true) cls ->
  forall nd cid d es er out il e, In (CStore KSign nd cid d es er out il) cls -> In e es ->
    fst (kr_of gen d e) = kenc k -> snd (kr_of gen d e) = r0.
Proof.
  intros c gen rootof cls cs k cq nt tr vroot nd0 r0 H Hk W R NF Cp D nd cid d es er out il e Hs He Ek.
  destruct (composed_refines c gen rootof cls cs H) as [ps [Hr _]].
  eapply (composed_sign_same c _ ps (kenc k) cq nt tr vroot nd0 r0 Hr Hk W R NF Cp).
  - apply in_flat_map. exists (CDecide nd0 k r0 true). simpl. auto.
  - apply in_flat_map. exists (CStore KSign nd cid d es er out il). split; [exact Hs|]. simpl. left. reflexivity.
  - apply in_map_iff. exists e. split; auto. rewrite <- Ek. destruct (kr_of gen d e); reflexivity.
Qed.
