(* Proofs about the aggregator model Flow/SigAgg.v. *)
From Coq Require Import List ZArith NArith Bool Lia.
From Charon Require Import Flow.SigAgg.
Import ListNotations.

(* ---------- generic helpers ---------- *)

Lemma sigt_eqb_eq : forall a b, sigt_eqb a b = true <-> a = b.
Proof.
  destruct a, b; simpl; split; intro H; try discriminate; try congruence.
  - apply andb_true_iff in H as [H H3]. apply andb_true_iff in H as [H1 H2].
    apply N.eqb_eq in H1, H3. apply Z.eqb_eq in H2. subst. reflexivity.
  - inversion H; subst. rewrite !N.eqb_refl, Z.eqb_refl. reflexivity.
  - apply N.eqb_eq in H. subst. reflexivity.
  - inversion H. apply N.eqb_refl.
  - apply N.eqb_eq in H. subst. reflexivity.
  - inversion H. apply N.eqb_refl.
  - apply N.eqb_eq in H. subst. reflexivity.
  - inversion H. apply N.eqb_refl.
Qed.

Lemma err_eqb_eq : forall a b, err_eqb a b = true <-> a = b.
Proof. destruct a, b; simpl; split; intro H; try discriminate; try reflexivity. Qed.

Lemma nodupb_NoDup : forall l, nodupb l = true -> NoDup l.
Proof.
  induction l as [|x r IH]; simpl; intro H; [constructor|].
  apply andb_true_iff in H as [H1 H2]. constructor; [|auto].
  intro Hin. apply negb_true_iff in H1.
  assert (existsb (N.eqb x) r = true) by (apply existsb_exists; exists x; split; [assumption|apply N.eqb_refl]).
  congruence.
Qed.

Lemma lookup_In : forall A (v : N) (l : list (N * A)) x, lookup v l = Some x -> In (v, x) l.
Proof.
  induction l as [|[k y] r IH]; simpl; intros x H; [discriminate|].
  destruct (N.eqb k v) eqn:E.
  - apply N.eqb_eq in E. inversion H; subst. left; reflexivity.
  - right; auto.
Qed.

Lemma In_lookup : forall A (v : N) (l : list (N * A)) x,
  NoDup (map fst l) -> In (v, x) l -> lookup v l = Some x.
Proof.
  induction l as [|[k y] r IH]; simpl; intros x Hnd Hin; [contradiction|].
  inversion Hnd; subst. destruct Hin as [Heq|Hin].
  - inversion Heq; subst. rewrite N.eqb_refl. reflexivity.
  - destruct (N.eqb k v) eqn:E.
    + apply N.eqb_eq in E; subst. exfalso. apply H1. apply in_map_iff. exists (v, x). split; auto.
    + auto.
Qed.

Lemma In_fst_lookup : forall A (v : N) (l : list (N * A)), In v (map fst l) -> exists x, lookup v l = Some x.
Proof.
  induction l as [|[k y] r IH]; simpl; intro H; [contradiction|].
  destruct (N.eqb k v) eqn:E; [eauto|].
  destruct H as [H|H]; [subst; rewrite N.eqb_refl in E; discriminate|auto].
Qed.

(* ---------- the share map ---------- *)

Lemma put_keys_nodup : forall i s m, NoDup (map fst m) -> NoDup (map fst (put i s m)).
Proof.
  induction m as [|[j x] r IH]; simpl; intro H.
  - constructor; [intros []|constructor].
  - inversion H; subst. destruct (Z.eqb i j) eqn:E; simpl.
    + constructor; assumption.
    + constructor; [|auto].
      intro Hin. apply H2. clear -Hin E.
      induction r as [|[k y] r IH]; simpl in *.
      * destruct Hin as [Hin|[]]. subst. rewrite Z.eqb_refl in E. discriminate.
      * destruct (Z.eqb i k); simpl in *; [assumption|]. destruct Hin as [Hin|Hin]; [left; assumption|right; auto].
Qed.

Lemma fold_put_nodup : forall content (ps : list (parsig content)) m,
  NoDup (map fst m) ->
  NoDup (map fst (fold_left (fun m p => put (p_idx _ p) (p_sig _ p) m) ps m)).
Proof. induction ps as [|p r IH]; simpl; intros m H; [assumption|]. apply IH, put_keys_nodup, H. Qed.

Lemma share_map_nodup : forall content (ps : list (parsig content)), NoDup (map fst (share_map content ps)).
Proof. intros. unfold share_map. apply fold_put_nodup. constructor. Qed.

(* every entry of the share map is the (index, signature) of one of the partials given *)
Lemma put_In : forall i s m e, In e (put i s m) -> e = (i, s) \/ In e m.
Proof.
  induction m as [|[j x] r IH]; simpl; intros e H.
  - destruct H as [H|[]]; auto.
  - destruct (Z.eqb i j) eqn:E; simpl in H.
    + apply Z.eqb_eq in E; subst. destruct H as [H|H]; [left; auto|right; right; assumption].
    + destruct H as [H|H]; [right; left; assumption|]. apply IH in H as [H|H]; auto.
Qed.

Lemma fold_put_In : forall content (ps : list (parsig content)) m e,
  In e (fold_left (fun m p => put (p_idx _ p) (p_sig _ p) m) ps m) ->
  In e m \/ exists p, In p ps /\ e = (p_idx _ p, p_sig _ p).
Proof.
  induction ps as [|p r IH]; simpl; intros m e H; [left; assumption|].
  apply IH in H as [H|[q [Hq He]]].
  - apply put_In in H as [H|H]; [right; exists p; auto|left; assumption].
  - right; exists q; auto.
Qed.

Lemma share_map_In : forall content (ps : list (parsig content)) i s,
  In (i, s) (share_map content ps) -> exists p, In p ps /\ p_idx _ p = i /\ p_sig _ p = s.
Proof.
  intros content ps i s H. unfold share_map in H. apply fold_put_In in H as [[]|[p [Hp He]]].
  inversion He; subst. eauto.
Qed.

(* the map holds, for a share index, the signature of the LAST partial given with that index *)
Lemma get_put_same : forall i s m, get i (put i s m) = Some s.
Proof.
  induction m as [|[j x] r IH]; simpl; [rewrite Z.eqb_refl; reflexivity|].
  destruct (Z.eqb i j) eqn:E; simpl; rewrite E; auto.
Qed.

Lemma get_put_other : forall i j s m, i <> j -> get i (put j s m) = get i m.
Proof.
  induction m as [|[k x] r IH]; simpl; intro H.
  - destruct (Z.eqb i j) eqn:E; [apply Z.eqb_eq in E; contradiction|reflexivity].
  - destruct (Z.eqb j k) eqn:E; simpl.
    + apply Z.eqb_eq in E; subst. destruct (Z.eqb i k) eqn:E2; [apply Z.eqb_eq in E2; contradiction|reflexivity].
    + destruct (Z.eqb i k); auto.
Qed.

Lemma fold_put_keep : forall content (post : list (parsig content)) i s m,
  get i m = Some s -> (forall q, In q post -> p_idx _ q <> i) ->
  get i (fold_left (fun m q => put (p_idx content q) (p_sig content q) m) post m) = Some s.
Proof.
  induction post as [|q r IH]; simpl; intros i s m G H; [assumption|].
  apply IH.
  - rewrite get_put_other; [assumption|]. intro E. apply (H q); [left; reflexivity|symmetry; assumption].
  - intros q' Hq'. apply H. right; assumption.
Qed.

Lemma share_map_last : forall content (pre : list (parsig content)) p post,
  (forall q, In q post -> p_idx _ q <> p_idx _ p) ->
  get (p_idx _ p) (share_map content (pre ++ p :: post)) = Some (p_sig _ p).
Proof.
  intros content pre p post H. unfold share_map. rewrite fold_left_app. simpl.
  apply fold_put_keep; [apply get_put_same|assumption].
Qed.

Lemma get_In : forall i m s, get i m = Some s -> In (i, s) m.
Proof.
  induction m as [|[j x] r IH]; simpl; intros s H; [discriminate|].
  destruct (Z.eqb i j) eqn:E; [apply Z.eqb_eq in E; inversion H; subst; left; reflexivity|right; auto].
Qed.

(* ---------- comb_valid ---------- *)

Lemma comb_valid_spec : forall t v rho m,
  comb_valid t v rho m = true <-> (t <= length m)%nat /\ forall i s, In (i, s) m -> s = PSig v i rho.
Proof.
  intros. unfold comb_valid. rewrite andb_true_iff, Nat.leb_le, forallb_forall. split; intros [H1 H2]; split; auto.
  - intros i s Hin. apply (H2 (i, s)) in Hin. simpl in Hin. apply sigt_eqb_eq in Hin. assumption.
  - intros [i s] Hin. simpl. apply sigt_eqb_eq. auto.
Qed.

Section Facts.
Variable content : Type.
Variable sroot : content -> N.

Notation aggregate := (aggregate content sroot).
Notation accepts := (accepts content sroot).
Notation monitor1 := (monitor1 content sroot).
Notation monitor := (monitor content sroot).
Notation share_map := (share_map content).
Notation results := (results content sroot).
Notation parsig := (parsig content).
Notation obj := (obj content).

(* ---------- one validator ---------- *)

Lemma aggregate_inr : forall t v ps o m,
  aggregate t v ps = inr (o, m) ->
  m = share_map ps /\ comb_valid t v (sroot (o_content _ o)) m = true /\ tbls_ok m = true /\
  o_kind _ o <> KRaw /\ (t <= length ps)%nat /\
  exists p0 r, ps = p0 :: r /\ o = payload content p0 ps.
Proof.
  intros t v ps o m H. unfold SigAgg.aggregate in H. destruct ps as [|p0 r]; [discriminate|].
  destruct (Nat.ltb (length (p0 :: r)) t) eqn:E1; [discriminate|].
  destruct (existsb _ (p0 :: r)) eqn:E2; [discriminate|].
  destruct (Nat.ltb (length (share_map (p0 :: r))) t) eqn:E3; [discriminate|].
  destruct (negb (tbls_ok (share_map (p0 :: r)))) eqn:E4; [discriminate|].
  remember (payload content p0 (p0 :: r)) as o'.
  destruct (o_kind content o') eqn:E5; try discriminate;
  (destruct (comb_valid t v (sroot (o_content content o')) (share_map (p0 :: r))) eqn:E6; [|discriminate]);
  inversion H; subst o m; (split; [reflexivity|]); (split; [assumption|]);
  (split; [apply negb_false_iff in E4; assumption|]); (split; [congruence|]);
  (split; [apply Nat.ltb_ge in E1; assumption|]); exists p0, r; auto.
Qed.

(* Every error class is reached only under its own condition; in particular: *)
Lemma aggregate_too_few : forall t v ps, (length (share_map ps) < t)%nat -> exists e, aggregate t v ps = inl e.
Proof.
  intros t v ps H. destruct (aggregate t v ps) as [e|[o m]] eqn:E; [eauto|].
  apply aggregate_inr in E as [Hm [Hc _]]. subst m. apply comb_valid_spec in Hc as [Hc _]. lia.
Qed.

Lemma aggregate_sound : forall t v ps o m,
  aggregate t v ps = inr (o, m) ->
  (t <= length (share_map ps))%nat /\
  forall i s, In (i, s) (share_map ps) -> s = PSig v i (sroot (o_content _ o)).
Proof.
  intros t v ps o m H. apply aggregate_inr in H as [Hm [Hc _]]. subst m. apply comb_valid_spec in Hc. assumption.
Qed.

(* Completeness (and the form of the "repeated share" clause the code has, N1): if the partials
   that count -- the last one per share index -- are at least t and all genuine over the payload's
   root, an object is published, however many repeats the list contains. *)
Lemma aggregate_complete : forall t v p0 r,
  let ps := p0 :: r in
  (forall p, In p ps -> is_badlen (p_sig _ p) = false) ->
  (forall i s, In (i, s) (share_map ps) -> i <> 0%Z) ->
  o_kind _ (payload content p0 ps) <> KRaw ->
  comb_valid t v (sroot (o_content _ (payload content p0 ps))) (share_map ps) = true ->
  aggregate t v ps = inr (payload content p0 ps, share_map ps).
Proof.
  intros t v p0 r ps Hlen H0 Hk Hc. unfold SigAgg.aggregate. fold ps.
  pose proof Hc as Hc'. apply comb_valid_spec in Hc' as [Ht Hall].
  assert (Hl : (length (share_map ps) <= length ps)%nat).
  { clear. unfold SigAgg.share_map.
    assert (G : forall (l : list parsig) m, (length (fold_left (fun m p => put (p_idx _ p) (p_sig _ p) m) l m) <= length m + length l)%nat).
    { induction l as [|p l IH]; simpl; intro m; [lia|]. specialize (IH (put (p_idx _ p) (p_sig _ p) m)).
      assert (length (put (p_idx _ p) (p_sig _ p) m) <= S (length m))%nat.
      { clear. induction m as [|[j x] m IH]; simpl; [lia|]. destruct (Z.eqb _ j); simpl; lia. }
      lia. }
    specialize (G ps []). simpl in G. assumption. }
  change (match ps with [] => inl ELen | p1 :: _ => _ end) with
    (if Nat.ltb (length ps) t then inl ELen
     else if existsb (fun p => is_badlen (p_sig _ p)) ps then inl ESigConv
     else if Nat.ltb (length (share_map ps)) t then inl EDistinct
     else if negb (tbls_ok (share_map ps)) then inl ETbls
     else match o_kind _ (payload content p0 ps) with
          | KRaw => inl ENotEth2
          | _ => if comb_valid t v (sroot (o_content _ (payload content p0 ps))) (share_map ps)
                 then inr (payload content p0 ps, share_map ps) else inl EVerify
          end : err + agg content).
  assert (E1 : Nat.ltb (length ps) t = false) by (apply Nat.ltb_ge; lia). rewrite E1.
  assert (E2 : existsb (fun p => is_badlen (p_sig _ p)) ps = false).
  { destruct (existsb _ ps) eqn:E; [|reflexivity]. apply existsb_exists in E as [p [Hp Hb]]. rewrite Hlen in Hb; [discriminate|assumption]. }
  rewrite E2.
  assert (E3 : Nat.ltb (length (share_map ps)) t = false) by (apply Nat.ltb_ge; lia). rewrite E3.
  assert (E4 : tbls_ok (share_map ps) = true).
  { unfold tbls_ok. apply forallb_forall. intros [i s] Hin. simpl.
    rewrite (Hall i s Hin). simpl. apply negb_true_iff. apply Z.eqb_neq. eapply H0; eassumption. }
  rewrite E4. simpl. rewrite Hc.
  destruct (o_kind _ (payload content p0 ps)); try reflexivity. contradiction.
Qed.

(* ---------- the batch ---------- *)

Lemma results_keys : forall t b, map fst (results t b) = map fst b.
Proof. intros. unfold SigAgg.results. rewrite map_map. simpl. reflexivity. Qed.

Lemma errors_nil : forall t b, errors_of content (results t b) = [] ->
  forall v ps, In (v, ps) b -> exists a, aggregate t v ps = inr a /\ In (v, a) (pubs_of content (results t b)).
Proof.
  intros t b. unfold SigAgg.results. induction b as [|[k qs] r IH]; simpl; intros H v ps Hin; [contradiction|].
  destruct (aggregate t k qs) as [e|a] eqn:E; simpl in H; [discriminate|].
  destruct Hin as [Heq|Hin].
  - inversion Heq; subst. exists a. split; [assumption|]. left; reflexivity.
  - destruct (IH H v ps Hin) as [a' [Ha Hi]]. exists a'. split; [assumption|]. simpl. right; assumption.
Qed.

Lemma pubs_In : forall t b v a, In (v, a) (pubs_of content (results t b)) ->
  exists ps, In (v, ps) b /\ aggregate t v ps = inr a.
Proof.
  intros t b. unfold SigAgg.results. induction b as [|[k qs] r IH]; simpl; intros v a H; [contradiction|].
  destruct (aggregate t k qs) as [e|a'] eqn:E; simpl in H.
  - destruct (IH v a H) as [ps [Hp Ha]]. exists ps; auto.
  - destruct H as [H|H].
    + inversion H; subst. exists qs; auto.
    + destruct (IH v a H) as [ps [Hp Ha]]. exists ps; auto.
Qed.

Lemma pubs_keys_noerr : forall t b, errors_of content (results t b) = [] ->
  map fst (pubs_of content (results t b)) = map fst b.
Proof.
  intros t b. unfold SigAgg.results. induction b as [|[k qs] r IH]; simpl; intro H; [reflexivity|].
  destruct (aggregate t k qs); simpl in *; [discriminate|]. f_equal. auto.
Qed.

Lemma errors_some : forall t b v ps e, In (v, ps) b -> aggregate t v ps = inl e ->
  errors_of content (results t b) <> [].
Proof.
  intros t b v ps e Hin Ha Hnil. destruct (errors_nil t b Hnil v ps Hin) as [a [Ha' _]]. congruence.
Qed.

(* ---------- accepted labels satisfy the monitor ---------- *)

Lemma call_matches_ok : forall t b call,
  b <> [] -> NoDup (map fst b) -> errors_of content (results t b) = [] ->
  call_matches content sroot (pubs_of content (results t b)) call = true ->
  call_ok content sroot t b call = true.
Proof.
  intros t b call Hne Hnd Herr Hm. unfold call_matches in Hm.
  apply andb_true_iff in Hm as [Hm Hall]. apply andb_true_iff in Hm as [Hlen Hndc].
  apply Nat.eqb_eq in Hlen. apply nodupb_NoDup in Hndc.
  pose proof (pubs_keys_noerr t b Herr) as Hkeys.
  rewrite forallb_forall in Hall.
  (* keys of call are keys of b *)
  assert (Hincl : incl (map fst call) (map fst b)).
  { intros v Hv. apply in_map_iff in Hv as [[v' po] [Hf Hin]]. simpl in Hf; subst v'.
    specialize (Hall _ Hin). simpl in Hall.
    destruct (lookup v (pubs_of content (results t b))) as [[o m]|] eqn:El; [|discriminate].
    apply lookup_In in El. rewrite <- Hkeys. apply in_map_iff. exists (v, (o, m)). auto. }
  assert (Hincl' : incl (map fst b) (map fst call)).
  { apply NoDup_length_incl; [assumption| |assumption].
    rewrite !map_length. rewrite Hlen. rewrite <- (map_length fst (pubs_of _ _)), Hkeys, map_length. lia. }
  unfold call_ok. apply andb_true_iff. split.
  - apply forallb_forall. intros [v ps] Hin. simpl.
    assert (Hv : In v (map fst call)) by (apply Hincl'; apply in_map_iff; exists (v, ps); auto).
    destruct (In_fst_lookup _ v call Hv) as [po Hpo]. rewrite Hpo.
    pose proof (lookup_In _ _ _ _ Hpo) as Hinc. specialize (Hall _ Hinc). simpl in Hall.
    destruct (lookup v (pubs_of content (results t b))) as [[o m]|] eqn:El; [|discriminate].
    apply lookup_In in El. apply pubs_In in El as [ps' [Hps' Ha]].
    assert (ps' = ps).
    { assert (L1 := In_lookup _ v b ps' Hnd Hps'). assert (L2 := In_lookup _ v b ps Hnd Hin). congruence. }
    subst ps'.
    apply andb_true_iff in Hall as [Hall Hver]. apply andb_true_iff in Hall as [Hall Hroot].
    apply N.eqb_eq in Hroot. rewrite Hver. simpl.
    apply aggregate_inr in Ha as [Hmm [Hc _]]. subst m. unfold good. rewrite Hroot. assumption.
  - apply forallb_forall. intros [v po] Hin. simpl.
    assert (Hv : In v (map fst b)) by (apply Hincl; apply in_map_iff; exists (v, po); auto).
    destruct (In_fst_lookup _ v b Hv) as [x Hx]. rewrite Hx. reflexivity.
Qed.

Lemma accepts_monitor1 : forall l, accepts l = true -> monitor1 l = true.
Proof.
  intros l H. unfold SigAgg.accepts in H. apply andb_true_iff in H as [Hnd H]. apply nodupb_NoDup in Hnd.
  unfold SigAgg.monitor1.
  destruct (l_batch content l) as [|e0 b0] eqn:Eb.
  - apply andb_true_iff in H as [_ H]. destruct (l_calls content l); [reflexivity|discriminate].
  - rewrite andb_true_r.
    destruct (errors_of content (results (l_t content l) (e0 :: b0))) as [|x xs] eqn:Ee.
    + destruct (expected_calls (l_subs content l)) as [n ok].
      apply andb_true_iff in H as [H _]. apply andb_true_iff in H as [_ H].
      rewrite forallb_forall in H. apply forallb_forall. intros call Hc.
      apply call_matches_ok; [discriminate|assumption|assumption|auto].
    + apply andb_true_iff in H as [_ H]. destruct (l_calls content l); [reflexivity|discriminate].
Qed.

Theorem run_monitor : forall ls s, run content sroot (init) ls = Some s -> monitor ls = true.
Proof.
  intros ls s. generalize init. induction ls as [|l r IH]; simpl; intros s0 H; [reflexivity|].
  unfold step in H. destruct (accepts l) eqn:E; [|discriminate].
  rewrite (accepts_monitor1 l E). simpl. eapply IH; eassumption.
Qed.

Lemma run_accepts : forall ls s, run content sroot init ls = Some s -> forall l, In l ls -> accepts l = true.
Proof.
  intros ls s. generalize init. induction ls as [|l r IH]; simpl; intros s0 H l' Hin; [contradiction|].
  unfold step in H. destruct (accepts l) eqn:E; [|discriminate].
  destruct Hin as [Heq|Hin]; [subst; assumption|eapply IH; eassumption].
Qed.

(* ---------- Prop-level readings ---------- *)

(* what a delivered object satisfies *)
Lemma monitor1_delivered : forall l, monitor1 l = true ->
  forall call v po, In call (l_calls _ l) -> In (v, po) call ->
  exists ps po', In (v, ps) (l_batch _ l) /\ lookup v call = Some po' /\
    po_verifies _ po' = true /\
    (l_t _ l <= length (share_map ps))%nat /\
    forall i s, In (i, s) (share_map ps) -> s = PSig v i (sroot (po_content _ po')).
Proof.
  intros l H call v po Hc Hin. unfold SigAgg.monitor1 in H. apply andb_true_iff in H as [H _].
  rewrite forallb_forall in H. specialize (H call Hc). unfold call_ok in H.
  apply andb_true_iff in H as [H1 H2]. rewrite forallb_forall in H1, H2.
  specialize (H2 _ Hin). simpl in H2.
  destruct (lookup v (l_batch content l)) as [ps|] eqn:El; [|discriminate].
  apply lookup_In in El. specialize (H1 _ El). simpl in H1.
  destruct (lookup v call) as [po'|] eqn:Ec; [|discriminate].
  apply andb_true_iff in H1 as [Hv Hg]. unfold good in Hg. apply comb_valid_spec in Hg as [Ht Hall].
  exists ps, po'. repeat split; auto.
Qed.

(* whenever anything is delivered, every validator of the batch is good *)
Lemma monitor1_all_good : forall l, monitor1 l = true ->
  forall call, In call (l_calls _ l) ->
  forall v ps, In (v, ps) (l_batch _ l) ->
  exists po, lookup v call = Some po /\ po_verifies _ po = true /\
    (l_t _ l <= length (share_map ps))%nat /\
    forall i s, In (i, s) (share_map ps) -> s = PSig v i (sroot (po_content _ po)).
Proof.
  intros l H call Hc v ps Hin. unfold SigAgg.monitor1 in H. apply andb_true_iff in H as [H _].
  rewrite forallb_forall in H. specialize (H call Hc). unfold call_ok in H.
  apply andb_true_iff in H as [H1 _]. rewrite forallb_forall in H1. specialize (H1 _ Hin). simpl in H1.
  destruct (lookup v call) as [po|] eqn:Ec; [|discriminate].
  apply andb_true_iff in H1 as [Hv Hg]. unfold good in Hg. apply comb_valid_spec in Hg as [Ht Hall].
  exists po. repeat split; auto.
Qed.

Section Injective.
Hypothesis sroot_inj : forall c c', sroot c = sroot c' -> c = c'.

(* published_valid *)
Theorem published_valid : forall l, accepts l = true ->
  forall call v po, In call (l_calls _ l) -> In (v, po) call ->
  exists ps po', In (v, ps) (l_batch _ l) /\ lookup v call = Some po' /\
    po_verifies _ po' = true /\
    (l_t _ l <= length (share_map ps))%nat /\
    (forall i s, In (i, s) (share_map ps) -> s = PSig v i (sroot (po_content _ po'))) /\
    (* the signed content is the content every contributing partial was made over *)
    (forall i v' j c, In (i, PSig v' j (sroot c)) (share_map ps) -> v' = v /\ j = i /\ c = po_content _ po').
Proof.
  intros l Ha call v po Hc Hin.
  destruct (monitor1_delivered l (accepts_monitor1 l Ha) call v po Hc Hin) as [ps [po' [H1 [H2 [H3 [H4 H5]]]]]].
  exists ps, po'. repeat split; auto; specialize (H5 _ _ H); inversion H5; subst; auto.
Qed.
End Injective.

(* batch_atomic: one failing validator suppresses every subscriber call *)
Theorem batch_atomic : forall l, accepts l = true ->
  forall v ps e, In (v, ps) (l_batch _ l) -> aggregate (l_t _ l) v ps = inl e ->
  l_calls _ l = [] /\ l_err _ l <> None.
Proof.
  intros l H v ps e Hin Ha. unfold SigAgg.accepts in H. apply andb_true_iff in H as [_ H].
  destruct (l_batch content l) as [|e0 b0] eqn:Eb; [contradiction|].
  pose proof (errors_some _ _ _ _ _ Hin Ha) as Hne.
  destruct (errors_of content (results (l_t content l) (e0 :: b0))) as [|x xs]; [contradiction|].
  apply andb_true_iff in H as [H1 H2]. split.
  - destruct (l_calls content l); [reflexivity|discriminate].
  - destruct (l_err content l); [discriminate|discriminate].
Qed.

(* the same, from the property side: a delivered set implies no validator failed for any reason *)
Theorem too_few_never : forall l, accepts l = true ->
  forall v ps, In (v, ps) (l_batch _ l) -> (length (share_map ps) < l_t _ l)%nat -> l_calls _ l = [].
Proof.
  intros l H v ps Hin Hlt. destruct (aggregate_too_few (l_t _ l) v ps Hlt) as [e He].
  eapply batch_atomic; eassumption.
Qed.

Theorem mixed_content_never : forall l, accepts l = true ->
  forall v ps i j v1 v2 k1 k2 r1 r2, In (v, ps) (l_batch _ l) ->
  In (i, PSig v1 k1 r1) (share_map ps) -> In (j, PSig v2 k2 r2) (share_map ps) -> r1 <> r2 ->
  l_calls _ l = [].
Proof.
  intros l H v ps i j v1 v2 k1 k2 r1 r2 Hin H1 H2 Hne.
  destruct (l_calls content l) as [|call rest] eqn:Ec; [reflexivity|exfalso].
  destruct (monitor1_all_good l (accepts_monitor1 l H) call) with (v := v) (ps := ps) as [po [_ [_ [_ Hall]]]];
    [rewrite Ec; left; reflexivity|assumption|].
  pose proof (Hall _ _ H1) as E1. pose proof (Hall _ _ H2) as E2. inversion E1; inversion E2; subst. congruence.
Qed.

(* an entry that is not the genuine signature of share i of this validator (wrong share's
   signature, wrong index, other validator, undecodable, zero, other key) suppresses everything *)
Theorem invalid_share_never : forall l, accepts l = true ->
  forall v ps i s, In (v, ps) (l_batch _ l) -> In (i, s) (share_map ps) ->
  (forall rho, s <> PSig v i rho) -> l_calls _ l = [].
Proof.
  intros l H v ps i s Hin Hs Hbad.
  destruct (l_calls content l) as [|call rest] eqn:Ec; [reflexivity|exfalso].
  destruct (monitor1_all_good l (accepts_monitor1 l H) call) with (v := v) (ps := ps) as [po [_ [_ [_ Hall]]]];
    [rewrite Ec; left; reflexivity|assumption|].
  eapply Hbad. eauto.
Qed.

(* the payload (possibly taken from a partial that did not contribute) must agree with the
   contributors: if the object whose data is reused was made over other content, nothing is published *)
Theorem payload_mismatch_never : forall t v ps o m,
  aggregate t v ps = inr (o, m) ->
  forall i s, In (i, s) m -> s = PSig v i (sroot (o_content _ o)).
Proof. intros t v ps o m H. pose proof H as H'. apply aggregate_inr in H' as [Hm _]. subst m. apply (aggregate_sound _ _ _ _ _ H). Qed.

End Facts.

(* ---------- N1: a repeated share with surplus still publishes a valid object ---------- *)
(* threshold 2, shares 1,1,2 of validator 7 over root 5: the literal property text says "repeat a
   share => nothing published"; the code (and the model) publish, and what they publish is valid. *)
Definition n1_ps : list (parsig N) :=
  [ mkps 1%Z (mkobj KTyped 0%N 5%N) (PSig 7 1 5);
    mkps 1%Z (mkobj KTyped 0%N 5%N) (PSig 7 1 5);
    mkps 2%Z (mkobj KTyped 0%N 5%N) (PSig 7 2 5) ].

Lemma repeat_with_surplus_still_valid :
  aggregate N (fun c => c) 2 7%N n1_ps = inr (mkobj KTyped 0%N 5%N, [(1%Z, PSig 7 1 5); (2%Z, PSig 7 2 5)])
  /\ comb_valid 2 7%N 5%N [(1%Z, PSig 7 1 5); (2%Z, PSig 7 2 5)] = true.
Proof. split; vm_compute; reflexivity. Qed.

(* general form: repeats never matter, only the last partial per share index does *)
Lemma repeats_irrelevant : forall content sroot t v p0 r,
  (forall p, In p (p0 :: r) -> is_badlen (p_sig _ p) = false) ->
  (forall i s, In (i, s) (share_map content (p0 :: r)) -> i <> 0%Z) ->
  o_kind _ (payload content p0 (p0 :: r)) <> KRaw ->
  comb_valid t v (sroot (o_content _ (payload content p0 (p0 :: r)))) (share_map content (p0 :: r)) = true ->
  exists a, aggregate content sroot t v (p0 :: r) = inr a.
Proof. intros. eexists. apply aggregate_complete; assumption. Qed.

(* with fewer than t distinct shares nothing is published, whatever the repeats *)
Example repeat_without_surplus_nothing :
  aggregate N (fun c => c) 2 7%N
    [ mkps 1%Z (mkobj KTyped 0%N 5%N) (PSig 7 1 5); mkps 1%Z (mkobj KTyped 0%N 5%N) (PSig 7 1 5) ] = inl EDistinct.
Proof. vm_compute. reflexivity. Qed.

(* ---------- non-vacuity ---------- *)
Definition ex_label : label N :=
  mkl 2%nat [ (7%N, n1_ps);
              (8%N, [ mkps 3%Z (mkobj KAtt 0%N 6%N) (PSig 8 3 6); mkps 1%Z (mkobj KAtt 44%N 6%N) (PSig 8 1 6) ]) ]
      [true; true] 0%N (1%N, 3%N) [] None
      [ [ (7%N, mkpo KTyped 0%N 5%N true); (8%N, mkpo KAtt 44%N 6%N true) ];
        [ (8%N, mkpo KAtt 44%N 6%N true); (7%N, mkpo KTyped 0%N 5%N true) ] ].
Example ex_label_accepted : run N (fun c => c) init [ex_label] = Some tt.
Proof. vm_compute. reflexivity. Qed.

(* a batch with one bad validator: error observed, no call; claiming a call is refused *)
Definition ex_bad : label N :=
  mkl 2%nat [ (7%N, n1_ps);
              (8%N, [ mkps 3%Z (mkobj KAtt 0%N 6%N) (PSig 8 3 6); mkps 1%Z (mkobj KAtt 44%N 9%N) (PSig 8 1 9) ]) ]
      [true] 2%N (1%N, 3%N) [(1%N, 100%N)] (Some EVerify) [].
Example ex_bad_accepted : accepts N (fun c => c) ex_bad = true.
Proof. vm_compute. reflexivity. Qed.
Example ex_bad_with_call_refused :
  accepts N (fun c => c) (mkl 2%nat (l_batch _ ex_bad) [true] 0%N (1%N, 3%N) [] None [ [ (7%N, mkpo KTyped 0%N 5%N true) ] ]) = false.
Proof. vm_compute. reflexivity. Qed.
