(* Obligation for C19 on the regenerated construction data (gen/AppWiring.v, translator/appwire), kept in
   its own file so that a change breaking it does not break the obligations of other properties. *)
From Coq Require Import List String Bool.
From Charon Require Import Flow.AppWiringCheck gen.AppWiring.

(* query and submission clients both get conf.FallbackBeaconNodeAddrs as fallbacks and conf.BeaconNodeAddrs as
   primaries (each its own timeout), forwarded to eth2wrap.NewMultiHTTP in NewMultiHTTP's parameter order *)
Lemma app_eth2_clients_ok :
  eth2_clients_check app_neweth2_params app_neweth2_callers app_client_sites app_neweth2_field_assignments
    app_configure_params app_configure_sites app_multihttp_params app_multihttp_body = true.
Proof. vm_compute. reflexivity. Qed.
