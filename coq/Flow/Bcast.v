(* Model of dkg/bcast (server.go handleSigRequest / handleMessage / dedupHash, client.go Broadcast,
   impl.go New / newSenderHashAny / newK1Signer / newPeerK1Verifier / RegisterMessageIDFuncs).

   One ceremony instance = (session, member): bcast.New(host, peers, secret, sessionHash).  The
   model is a labelled transition system  step : state -> label -> option state  whose trace is the
   interleaving of ALL handler invocations at ALL honest instances (of any number of sessions run
   with the same keys), plus the two things an honest client does that matter for safety: signing
   its own hash locally and returning from Broadcast.  A label carries what an observer sees:

     LReg s m id                      RegisterMessageIDFuncs(id, ..) at instance (s, m)
     LSigReq s r q id p ck o          handleSigRequest at (s, r), transport peer q, request (id, p);
                                      ck = what the registered checkMessage returned (application
                                      code, environment: an input); o = response observed by the
                                      requester: a signature, an error class, or OSAny (the request was seen
                                      arriving at r but the response went to an honest client and was not observed)
     LMsg s r q id p sigs um o        handleMessage at (s, r), transport peer q, message
                                      (id, p, sigs); um = whether anypb UnmarshalNew succeeds on p
                                      (library, environment); o = callback(q, id, p) invoked | error class
     LSelfSign s m id p ok            honest client of (s, m): c.signFunc(id, hash(m, id, p)) in Broadcast
     LBcastRet s m id p ok            Broadcast(id, p) of the honest client of (s, m) returned nil / an error

   Correspondence = trace inclusion: the label sequence recorded from real components must be
   accepted by [run].  The ADVERSARY is the environment: every LSigReq / LMsg label may carry any
   transport peer q <> r (member or not, honest or not), any id, any payload, any signature list.
   So faulty members may send any request or message, relay, equivocate per receiver, withhold,
   replay across ids and sessions.  Honest clients are a special case of that environment, so the
   theorems do not depend on client.go at all, except for the self signature (LSelfSign), which
   client.go makes WITHOUT consulting the dedup table.  The only restrictions on the environment:

     (unforgeable)  a signature term  Sig m d  of an HONEST member m occurs in a message only if m
                    executed sign on d before ([knowable]: (m, d) is in the [signed] component, which
                    is written exactly where the code calls signFunc).  Faulty members' signatures are
                    always available.  Assumes the k1 key is used for bcast hashes only (no other
                    protocol signs attacker-chosen 32-byte strings with it).
     (no self dial) q <> r : libp2p refuses to dial the own peer id, and honest clients skip themselves.

   Cryptography is symbolic (DESIGN.md section 3): [hash] is an injective function into an abstract
   digest type (Section hypothesis), a signature is a term.  Signature terms:
     Sig m d     65 bytes that verify under member m's public key for digest d
     Junk len    len bytes that verify for no (member, digest) the observer knows of

   Variants ([variant]): [cur] is the code as it is now (commit bbde178: hash binds the broadcaster);
   [pre_fix] is the code before (hash = H(session, id, typeURL, bytes)); [weak_fix] is pre_fix plus
   "handleMessage requires dedup[(peer, id)] = received hash" - the repair that does NOT suffice.

   Not modelled: protonil rejection of malformed protobuf frames before the handler runs, stream
   timeouts, callback errors (the callback is invoked, then its error is returned: a delivery all the same),
   hashFunc / PeerIDToKey errors (cannot happen for well-formed peer ids). *)
From Coq Require Import List NArith Arith Bool Lia.
Import ListNotations.

Definition payload := (N * N)%type.      (* (type URL, value bytes) of the anypb.Any, as codes *)
Definition payload_eqb (a b : payload) : bool := N.eqb (fst a) (fst b) && N.eqb (snd a) (snd b).

(* Error classes, named after the message of the returning statement. *)
Inductive err :=
| EUnknownId   (* handleSigRequest: "unknown message id" *)
| ECheck       (* handleSigRequest: "signature request message check" *)
| EDedup       (* handleSigRequest: "dedup": duplicate ID, mismatching hash *)
| ESignId      (* signFunc: "invalid message id" (reachable only from the client's local signature) *)
| ENumSigs     (* verifyFunc: "invalid number of signatures" *)
| EVerifyId    (* verifyFunc: "invalid message id" *)
| ELen         (* verifyFunc: "invalid signature length" *)
| EBadSig      (* verifyFunc: "invalid signature" / "verify signature" *)
| EUnmarshal   (* handleMessage: "unmarshal any" *)
| EDedupMsg.   (* weak_fix only *)

Definition err_eqb (a b : err) : bool :=
  match a, b with
  | EUnknownId, EUnknownId | ECheck, ECheck | EDedup, EDedup | ESignId, ESignId | ENumSigs, ENumSigs
  | EVerifyId, EVerifyId | ELen, ELen | EBadSig, EBadSig | EUnmarshal, EUnmarshal | EDedupMsg, EDedupMsg => true
  | _, _ => false
  end.

Record variant := mkv { bind : bool; mchk : bool }.
Definition cur : variant := mkv true false.
Definition pre_fix : variant := mkv false false.
Definition weak_fix : variant := mkv false true.

Definition key4 := (N * nat * nat * N)%type.             (* session, member, requester, id *)
Definition key4_eqb (a b : key4) : bool :=
  match a, b with (s, m, q, i), (s', m', q', i') => N.eqb s s' && Nat.eqb m m' && Nat.eqb q q' && N.eqb i i' end.
Definition key3 := (N * nat * N)%type.
Definition key3_eqb (a b : key3) : bool :=
  match a, b with (s, m, i), (s', m', i') => N.eqb s s' && Nat.eqb m m' && N.eqb i i' end.

Section Bcast.
Variable D : Type.                                        (* digests *)
Variable D_eqb : D -> D -> bool.
Hypothesis D_eqb_ok : forall a b, D_eqb a b = true <-> a = b.
(* hash session (Some sender | None) id payload *)
Variable hash : N -> option nat -> N -> payload -> D.
Hypothesis hash_inj : forall s q i p s' q' i' p',
  hash s q i p = hash s' q' i' p' -> s = s' /\ q = q' /\ i = i' /\ p = p'.
Variable n : nat.                                         (* peers = members 0 .. n-1, in this order *)
Variable faulty : nat -> bool.

Inductive sg := Sig (m : nat) (d : D) | Junk (len : nat).
Definition sg_eqb (a b : sg) : bool :=
  match a, b with
  | Sig m d, Sig m' d' => Nat.eqb m m' && D_eqb d d'
  | Junk l, Junk l' => Nat.eqb l l'
  | _, _ => false
  end.

Inductive sobs := OSig (x : sg) | OSErr (e : option err) | OSAny.
Inductive mobs := ODeliver | OMErr (e : option err).     (* None: refused, class not captured *)

Inductive label :=
| LReg (s : N) (m : nat) (id : N)
| LSigReq (s : N) (r q : nat) (id : N) (p : payload) (ck : bool) (o : sobs)
| LMsg (s : N) (r q : nat) (id : N) (p : payload) (sigs : list sg) (um : bool) (o : mobs)
| LSelfSign (s : N) (m : nat) (id : N) (p : payload) (ok : bool)
| LBcastRet (s : N) (m : nat) (id : N) (p : payload) (ok : bool).

Record state := mk {
  regs : list key3;               (* allowedMsgIDs / msgIDFuncs of every instance *)
  ded : list (key4 * D);          (* server.dedup of every instance *)
  signed : list (nat * D)         (* (m, d): honest m executed signFunc on d *)
}.
Definition init : state := mk [] [] [].

Definition reg_mem (k : key3) (l : list key3) : bool := existsb (key3_eqb k) l.
Fixpoint ded_get (k : key4) (l : list (key4 * D)) : option D :=
  match l with [] => None | (k', d) :: r => if key4_eqb k k' then Some d else ded_get k r end.
Definition signed_mem (m : nat) (d : D) (l : list (nat * D)) : bool :=
  existsb (fun e => Nat.eqb m (fst e) && D_eqb d (snd e)) l.

Definition hash_of (v : variant) (s : N) (q : nat) (id : N) (p : payload) : D :=
  hash s (if bind v then Some q else None) id p.

(* handleSigRequest *)
Definition sig_result (v : variant) (st : state) (s : N) (r q : nat) (id : N) (p : payload) (ck : bool)
  : err + (sg * state) :=
  if negb (reg_mem (s, r, id) (regs st)) then inl EUnknownId
  else if negb ck then inl ECheck
  else
    let d := hash_of v s q id p in
    match ded_get (s, r, q, id) (ded st) with
    | Some d' => if D_eqb d' d then inr (Sig r d, mk (regs st) (ded st) ((r, d) :: signed st)) else inl EDedup
    | None => inr (Sig r d, mk (regs st) (((s, r, q, id), d) :: ded st) ((r, d) :: signed st))
    end.

(* the loop of newPeerK1Verifier: signature i must be peers[i]'s signature over the hash *)
Fixpoint verify_from (i : nat) (d : D) (sigs : list sg) : option err :=
  match sigs with
  | [] => None
  | Junk len :: r => if Nat.eqb len 65 then Some EBadSig else Some ELen
  | Sig m d' :: r => if Nat.eqb m i && D_eqb d' d then verify_from (S i) d r else Some EBadSig
  end.

(* handleMessage: None = callback invoked *)
Definition msg_result (v : variant) (st : state) (s : N) (r q : nat) (id : N) (p : payload)
  (sigs : list sg) (um : bool) : option err :=
  if negb (Nat.eqb (length sigs) n) then Some ENumSigs
  else if negb (reg_mem (s, r, id) (regs st)) then Some EVerifyId
  else
    let d := hash_of v s q id p in
    match verify_from 0 d sigs with
    | Some e => Some e
    | None =>
        if mchk v && negb (match ded_get (s, r, q, id) (ded st) with Some d' => D_eqb d' d | None => false end)
        then Some EDedupMsg
        else if negb um then Some EUnmarshal else None
    end.

Definition knowable (st : state) (sigs : list sg) : bool :=
  forallb (fun x => match x with Sig m d => faulty m || signed_mem m d (signed st) | Junk _ => true end) sigs.

Definition honest_member (m : nat) : bool := negb (faulty m) && Nat.ltb m n.

Definition sobs_ok (res : err + (sg * state)) (o : sobs) : bool :=
  match res, o with
  | _, OSAny => true
  | inl _, OSErr None => true
  | inl e, OSErr (Some e') => err_eqb e e'
  | inr (x, _), OSig y => sg_eqb x y
  | _, _ => false
  end.

Definition mobs_ok (res : option err) (o : mobs) : bool :=
  match res, o with
  | None, ODeliver => true
  | Some _, OMErr None => true
  | Some e, OMErr (Some e') => err_eqb e e'
  | _, _ => false
  end.

Definition all_members (f : nat -> bool) : bool := forallb f (seq 0 n).

Definition step (v : variant) (st : state) (l : label) : option state :=
  match l with
  | LReg s m id =>
      if honest_member m then Some (mk ((s, m, id) :: regs st) (ded st) (signed st)) else None
  | LSigReq s r q id p ck o =>
      if honest_member r && negb (Nat.eqb r q) then
        let res := sig_result v st s r q id p ck in
        if sobs_ok res o then Some (match res with inl _ => st | inr (_, st') => st' end) else None
      else None
  | LMsg s r q id p sigs um o =>
      if honest_member r && negb (Nat.eqb r q) && knowable st sigs then
        if mobs_ok (msg_result v st s r q id p sigs um) o then Some st else None
      else None
  | LSelfSign s m id p ok =>
      if honest_member m then
        if reg_mem (s, m, id) (regs st)
        then (if ok then Some (mk (regs st) (ded st) ((m, hash_of v s m id p) :: signed st)) else None)
        else (if ok then None else Some st)
      else None
  | LBcastRet s m id p ok =>
      if honest_member m then
        if ok then
          (if all_members (fun i => faulty i || signed_mem i (hash_of v s m id p) (signed st)) then Some st else None)
        else Some st
      else None
  end.

Fixpoint run_from (v : variant) (st : state) (ls : list label) : option state :=
  match ls with
  | [] => Some st
  | l :: r => match step v st l with Some st' => run_from v st' r | None => None end
  end.
Definition run (v : variant) := run_from v init.

(* Index of the first label the model refuses (None = whole trace accepted). *)
Fixpoint first_reject (v : variant) (st : state) (ls : list label) (i : nat) : option nat :=
  match ls with
  | [] => None
  | l :: r => match step v st l with Some st' => first_reject v st' r (S i) | None => Some i end
  end.

(* ---- The property, read off the trace alone (no model state, no signature terms). ---- *)

Definition ev5 := (key4 * payload)%type.                 (* member m answered (s, q, id, p) *)
Record ghost := mkg {
  g_regs : list key3;
  g_def : list ev5;        (* sign events observed: request answered with a signature; local signature *)
  g_may : list ev5;        (* request passed its check, response not observed *)
  g_del : list (key3 * payload)   (* deliveries: (s, sender, id), payload *)
}.
Definition ginit : ghost := mkg [] [] [] [].

Definition ev_mem (k : key4) (p : payload) (l : list ev5) : bool :=
  existsb (fun e => key4_eqb k (fst e) && payload_eqb p (snd e)) l.
Definition evid (g : ghost) (s : N) (m q : nat) (id : N) (p : payload) : bool :=
  ev_mem (s, m, q, id) p (g_def g) || ev_mem (s, m, q, id) p (g_may g).
Definition noconf4 (k : key4) (p : payload) (l : list ev5) : bool :=
  forallb (fun e => if key4_eqb k (fst e) then payload_eqb p (snd e) else true) l.
Definition noconf3 (k : key3) (p : payload) (l : list (key3 * payload)) : bool :=
  forallb (fun e => if key3_eqb k (fst e) then payload_eqb p (snd e) else true) l.

Definition check (g : ghost) (l : label) : bool :=
  match l with
  | LSigReq s r q id p ck (OSig _) =>
      (* signs only registered ids, only after the application check, one payload per (requester, id) *)
      reg_mem (s, r, id) (g_regs g) && ck && negb (Nat.eqb r q) && noconf4 (s, r, q, id) p (g_def g)
  | LMsg s r q id p _ _ ODeliver =>
      (* delivered only if registered, every honest member (receiver included) signed exactly
         (session, sender, id, payload), and no honest member delivered another payload for (sender, id) *)
      reg_mem (s, r, id) (g_regs g)
      && all_members (fun m => faulty m || evid g s m q id p)
      && noconf3 (s, q, id) p (g_del g)
  | LSelfSign s m id p true => reg_mem (s, m, id) (g_regs g)
  | LBcastRet s m id p true => all_members (fun i => faulty i || evid g s i m id p)
  | _ => true
  end.

Definition gstep (g : ghost) (l : label) : ghost :=
  match l with
  | LReg s m id => mkg ((s, m, id) :: g_regs g) (g_def g) (g_may g) (g_del g)
  | LSigReq s r q id p _ (OSig _) => mkg (g_regs g) (((s, r, q, id), p) :: g_def g) (g_may g) (g_del g)
  | LSigReq s r q id p true OSAny => mkg (g_regs g) (g_def g) (((s, r, q, id), p) :: g_may g) (g_del g)
  | LMsg s r q id p _ _ ODeliver => mkg (g_regs g) (g_def g) (g_may g) (((s, q, id), p) :: g_del g)
  | LSelfSign s m id p true => mkg (g_regs g) (((s, m, m, id), p) :: g_def g) (g_may g) (g_del g)
  | _ => g
  end.

Fixpoint monitor_from (g : ghost) (ls : list label) : bool :=
  match ls with [] => true | l :: r => check g l && monitor_from (gstep g l) r end.
Definition monitor := monitor_from ginit.

Fixpoint first_violation (g : ghost) (ls : list label) (i : nat) : option nat :=
  match ls with
  | [] => None
  | l :: r => if check g l then first_violation (gstep g l) r (S i) else Some i
  end.

Fixpoint ghost_after (g : ghost) (ls : list label) : ghost :=
  match ls with [] => g | l :: r => ghost_after (gstep g l) r end.

End Bcast.

Arguments regs {D}.
Arguments ded {D}.
Arguments signed {D}.
Arguments mk {D}.
Arguments Sig {D}.
Arguments Junk {D}.
Arguments OSig {D}.
Arguments OSErr {D}.
Arguments OSAny {D}.
Arguments LReg {D}.
Arguments LSigReq {D}.
Arguments LMsg {D}.
Arguments LSelfSign {D}.
Arguments LBcastRet {D}.

(* ---- A concrete injective hash for evaluation: the digest IS the tuple of hashed fields. ---- *)
Definition TD := (N * option nat * N * payload)%type.
Definition thash (s : N) (q : option nat) (i : N) (p : payload) : TD := (s, q, i, p).
Definition TD_eqb (a b : TD) : bool :=
  match a, b with
  | (s, q, i, p), (s', q', i', p') =>
      N.eqb s s'
      && match q, q' with Some x, Some y => Nat.eqb x y | None, None => true | _, _ => false end
      && N.eqb i i' && payload_eqb p p'
  end.
Definition fset (l : list nat) : nat -> bool := fun m => existsb (Nat.eqb m) l.
