(* Proofs about the model Flow/Bcast.v of dkg/bcast.  Statements are repeated in Properties/C13.v. *)
From Coq Require Import List NArith Arith Bool Lia.
From Charon Require Import Flow.Bcast.
Import ListNotations.

Lemma payload_eqb_ok : forall a b : payload, payload_eqb a b = true <-> a = b.
Proof.
  intros [a1 a2] [b1 b2]; unfold payload_eqb; simpl.
  rewrite andb_true_iff, !N.eqb_eq. split; [intros [-> ->]; reflexivity | intros H; inversion H; auto].
Qed.

Lemma key4_eqb_ok : forall a b : key4, key4_eqb a b = true <-> a = b.
Proof.
  intros [[[s m] q] i] [[[s' m'] q'] i']; simpl.
  rewrite !andb_true_iff, !N.eqb_eq, !Nat.eqb_eq.
  split; [intros [[[-> ->] ->] ->]; reflexivity | intros H; inversion H; auto].
Qed.

Lemma key3_eqb_ok : forall a b : key3, key3_eqb a b = true <-> a = b.
Proof.
  intros [[s m] i] [[s' m'] i']; simpl.
  rewrite !andb_true_iff, !N.eqb_eq, !Nat.eqb_eq.
  split; [intros [[-> ->] ->]; reflexivity | intros H; inversion H; auto].
Qed.

Lemma key4_eqb_refl : forall k, key4_eqb k k = true.
Proof. intros; apply key4_eqb_ok; reflexivity. Qed.

Lemma reg_mem_In : forall k l, reg_mem k l = true <-> In k l.
Proof.
  intros; unfold reg_mem; rewrite existsb_exists; split.
  - intros [x [Hin He]]. apply key3_eqb_ok in He; subst; auto.
  - intros; exists k; split; auto. apply key3_eqb_ok; reflexivity.
Qed.

Lemma ev_mem_In : forall k p l, ev_mem k p l = true <-> In (k, p) l.
Proof.
  intros; unfold ev_mem; rewrite existsb_exists; split.
  - intros [[k' p'] [Hin He]]; simpl in He. apply andb_true_iff in He as [H1 H2].
    apply key4_eqb_ok in H1; apply payload_eqb_ok in H2; subst; auto.
  - intros; exists (k, p); split; auto; simpl.
    apply andb_true_iff; split; [apply key4_eqb_ok | apply payload_eqb_ok]; reflexivity.
Qed.

Section Facts.
Variable D : Type.
Variable D_eqb : D -> D -> bool.
Hypothesis D_eqb_ok : forall a b, D_eqb a b = true <-> a = b.
Variable hash : N -> option nat -> N -> payload -> D.
Hypothesis hash_inj : forall s q i p s' q' i' p',
  hash s q i p = hash s' q' i' p' -> s = s' /\ q = q' /\ i = i' /\ p = p'.
Variable n : nat.
Variable faulty : nat -> bool.

Notation state := (state D).
Notation label := (label D).
Notation stepc := (step D D_eqb hash n faulty cur).
Notation runc := (run_from D D_eqb hash n faulty cur).
Notation chk := (check D n faulty).
Notation H := (fun s q id p => hash s (Some q) id p).

Lemma signed_mem_In : forall m d (l : list (nat * D)), signed_mem D D_eqb m d l = true <-> In (m, d) l.
Proof.
  intros; unfold signed_mem; rewrite existsb_exists; split.
  - intros [[m' d'] [Hin He]]; simpl in He. apply andb_true_iff in He as [H1 H2].
    apply Nat.eqb_eq in H1; apply D_eqb_ok in H2; subst; auto.
  - intros; exists (m, d); split; auto; simpl.
    apply andb_true_iff; split; [apply Nat.eqb_eq | apply D_eqb_ok]; reflexivity.
Qed.

Lemma all_members_ok : forall f, all_members n f = true <-> forall m, m < n -> f m = true.
Proof.
  intros; unfold all_members; rewrite forallb_forall; split; intros Hf m Hm.
  - apply Hf, in_seq; lia.
  - apply Hf. apply in_seq in Hm; lia.
Qed.

Lemma ded_get_cons : forall k k' d (l : list (key4 * D)),
  ded_get D k ((k', d) :: l) = if key4_eqb k k' then Some d else ded_get D k l.
Proof. reflexivity. Qed.

Lemma verify_from_ok : forall sigs i d,
  verify_from D D_eqb i d sigs = None ->
  forall k, k < length sigs -> nth_error sigs k = Some (Sig (i + k) d).
Proof.
  induction sigs as [|x r IH]; intros i d Hv k Hk; simpl in *; [lia|].
  destruct x as [m d'|len].
  - destruct (Nat.eqb m i && D_eqb d' d) eqn:E; [|discriminate].
    apply andb_true_iff in E as [E1 E2]. apply Nat.eqb_eq in E1; apply D_eqb_ok in E2; subst.
    destruct k; simpl.
    + rewrite Nat.add_0_r; reflexivity.
    + rewrite (IH _ _ Hv k) by lia. f_equal; f_equal; lia.
  - destruct (Nat.eqb len 65); discriminate.
Qed.

Lemma knowable_nth : forall (st : state) sigs k m d,
  knowable D D_eqb faulty st sigs = true -> nth_error sigs k = Some (Sig m d) ->
  faulty m = false -> In (m, d) (signed st).
Proof.
  intros st sigs k m d Hk Hn Hf. unfold knowable in Hk. rewrite forallb_forall in Hk.
  specialize (Hk _ (nth_error_In _ _ Hn)). simpl in Hk. rewrite Hf in Hk; simpl in Hk.
  apply signed_mem_In; exact Hk.
Qed.

(* What an accepted delivery means in terms of the message and the state (any variant). *)
Lemma msg_delivered : forall v (st : state) s r q id p sigs um,
  msg_result D D_eqb hash n v st s r q id p sigs um = None ->
  length sigs = n /\ reg_mem (s, r, id) (regs st) = true /\ um = true /\
  (forall k, k < n -> nth_error sigs k = Some (Sig k (hash_of D hash v s q id p))) /\
  (mchk v = true -> ded_get D (s, r, q, id) (ded st) = Some (hash_of D hash v s q id p)).
Proof.
  intros v st s r q id p sigs um. unfold msg_result.
  destruct (Nat.eqb (length sigs) n) eqn:El; simpl; [|discriminate].
  destruct (reg_mem (s, r, id) (regs st)) eqn:Er; simpl; [|discriminate].
  destruct (verify_from D D_eqb 0 (hash_of D hash v s q id p) sigs) eqn:Ev; [discriminate|].
  apply Nat.eqb_eq in El.
  destruct (mchk v) eqn:Em; simpl.
  - destruct (ded_get D (s, r, q, id) (ded st)) as [d'|] eqn:Ed; simpl; [|discriminate].
    destruct (D_eqb d' (hash_of D hash v s q id p)) eqn:Ee; simpl; [|discriminate].
    apply D_eqb_ok in Ee; subst d'.
    destruct um; simpl; [|discriminate]. intros _.
    repeat split; auto. intros k Hk. rewrite <- El in Hk. apply (verify_from_ok _ _ _ Ev k Hk).
  - destruct um; simpl; [|discriminate]. intros _.
    repeat split; auto; [|discriminate]. intros k Hk. rewrite <- El in Hk. apply (verify_from_ok _ _ _ Ev k Hk).
Qed.

Lemma sig_result_inr : forall (st : state) s r q id p ck x st',
  sig_result D D_eqb hash cur st s r q id p ck = inr (x, st') ->
  reg_mem (s, r, id) (regs st) = true /\ ck = true /\ x = Sig r (H s q id p) /\
  regs st' = regs st /\ signed st' = (r, H s q id p) :: signed st /\
  ded_get D (s, r, q, id) (ded st') = Some (H s q id p) /\
  (forall k d0, ded_get D k (ded st) = Some d0 -> ded_get D k (ded st') = Some d0).
Proof.
  intros st s r q id p ck x st'. unfold sig_result, hash_of; simpl.
  destruct (reg_mem (s, r, id) (regs st)); simpl; [|discriminate].
  destruct ck; simpl; [|discriminate].
  destruct (ded_get D (s, r, q, id) (ded st)) as [d'|] eqn:Ed.
  - destruct (D_eqb d' (hash s (Some q) id p)) eqn:Ee; [|discriminate].
    apply D_eqb_ok in Ee; subst d'. intros E; inversion E; subst; simpl. repeat split; auto.
  - intros E; inversion E; subst; cbn [regs ded signed]. repeat split; auto.
    + rewrite ded_get_cons, key4_eqb_refl; reflexivity.
    + intros k d0 Hk. rewrite ded_get_cons. destruct (key4_eqb k (s, r, q, id)) eqn:Ek; auto.
      apply key4_eqb_ok in Ek; subst. congruence.
Qed.

(* ---- Invariant relating model state and the ghost computed from the trace ---- *)

Record Inv (st : state) (g : ghost) : Prop := {
  inv_regs : regs st = g_regs g;
  (* every signature an honest member made is over H(s, q, id, p) for a request (or local signature) the trace
     shows, of a registered id, and for q <> m it is the one recorded in the dedup table *)
  inv_prov : forall m d, In (m, d) (signed st) ->
     exists s q id p, d = H s q id p /\ evid g s m q id p = true /\ reg_mem (s, m, id) (regs st) = true /\
                      (q <> m -> ded_get D (s, m, q, id) (ded st) = Some d);
  inv_def : forall s m q id p, In ((s, m, q, id), p) (g_def g) -> q <> m ->
     ded_get D (s, m, q, id) (ded st) = Some (H s q id p);
  inv_del : forall s q id p, In ((s, q, id), p) (g_del g) ->
     forall m, m < n -> faulty m = false -> In (m, H s q id p) (signed st)
}.

Lemma inv_init : Inv (init D) ginit.
Proof. constructor; simpl; intros; try contradiction; auto. Qed.

Lemma evid_def_cons : forall g e s m q id p,
  evid g s m q id p = true ->
  evid (mkg (g_regs g) (e :: g_def g) (g_may g) (g_del g)) s m q id p = true.
Proof.
  intros g e s m q id p. unfold evid; simpl. rewrite !orb_true_iff. intuition.
Qed.
Lemma evid_may_cons : forall g e s m q id p,
  evid g s m q id p = true ->
  evid (mkg (g_regs g) (g_def g) (e :: g_may g) (g_del g)) s m q id p = true.
Proof.
  intros g e s m q id p. unfold evid; simpl. rewrite !orb_true_iff. intuition.
Qed.

Lemma evid_def_here : forall rg df my dl s m q id p,
  evid (mkg rg (((s, m, q, id), p) :: df) my dl) s m q id p = true.
Proof. intros. unfold evid. apply orb_true_iff; left. apply ev_mem_In. left; reflexivity. Qed.
Lemma evid_may_here : forall rg df my dl s m q id p,
  evid (mkg rg df (((s, m, q, id), p) :: my) dl) s m q id p = true.
Proof. intros. unfold evid. apply orb_true_iff; right. apply ev_mem_In. left; reflexivity. Qed.

Lemma honest_member_ok : forall m, honest_member n faulty m = true -> faulty m = false /\ m < n.
Proof.
  intros m Hh. unfold honest_member in Hh. apply andb_true_iff in Hh as [H1 H2].
  apply negb_true_iff in H1. apply Nat.ltb_lt in H2. auto.
Qed.

(* Two signatures of an honest member r for the same (s, q, id), q <> r, are over the same payload. *)
Lemma signed_unique : forall st g s r q id p p',
  Inv st g -> q <> r ->
  In (r, H s q id p) (signed st) -> In (r, H s q id p') (signed st) -> p = p'.
Proof.
  intros st g s r q id p p' I Hq H1 H2.
  destruct (inv_prov _ _ I _ _ H1) as (s1 & q1 & i1 & p1 & E1 & _ & _ & D1).
  destruct (inv_prov _ _ I _ _ H2) as (s2 & q2 & i2 & p2 & E2 & _ & _ & D2).
  pose proof (hash_inj _ _ _ _ _ _ _ _ E1) as (-> & Eq1 & -> & ->). inversion Eq1; subst q1.
  pose proof (hash_inj _ _ _ _ _ _ _ _ E2) as (-> & Eq2 & -> & ->). inversion Eq2; subst q2.
  specialize (D1 Hq). specialize (D2 Hq). rewrite D1 in D2. inversion D2 as [E].
  apply hash_inj in E. tauto.
Qed.

Lemma step_inv : forall st g l st',
  Inv st g -> stepc st l = Some st' -> chk g l = true /\ Inv st' (gstep D g l).
Proof.
  intros st g l st' I Hs. destruct l as [s m id | s r q id p ck o | s r q id p sigs um o | s m id p ok | s m id p ok];
    simpl in Hs.
  - (* LReg *)
    destruct (honest_member n faulty m); [|discriminate]. inversion Hs; subst; clear Hs.
    split; [reflexivity|]. destruct I as [Ir Ip Id Il]. constructor; simpl; auto.
    + f_equal; auto.
    + intros m0 d Hin. destruct (Ip _ _ Hin) as (s1 & q1 & i1 & p1 & E & Ev & Rg & Dd).
      exists s1, q1, i1, p1. repeat split; auto. rewrite Rg. apply orb_true_r.
  - (* LSigReq *)
    destruct (honest_member n faulty r && negb (Nat.eqb r q)) eqn:Hh; [|discriminate].
    apply andb_true_iff in Hh as [Hh Hrq]. apply negb_true_iff, Nat.eqb_neq in Hrq.
    destruct (sig_result D D_eqb hash cur st s r q id p ck) as [e | [x st1]] eqn:Er.
    + (* refused: no state change, no ghost change unless unobserved *)
      destruct o as [y | e' | ]; simpl in Hs; try discriminate.
      * destruct (match e' with Some e'0 => err_eqb e e'0 | None => true end); [|destruct e'; discriminate].
        assert (st' = st) by (destruct e'; inversion Hs; auto). subst.
        split; [reflexivity|]. destruct ck; exact I.
      * inversion Hs; subst. split; [reflexivity|].
        destruct ck; [|exact I].
        destruct I as [Ir Ip Id Il]. constructor; simpl; auto.
        intros m0 d Hin. destruct (Ip _ _ Hin) as (s1 & q1 & i1 & p1 & E & Ev & Rg & Dd).
        exists s1, q1, i1, p1. repeat split; auto. apply evid_may_cons; auto.
    + apply sig_result_inr in Er as (Rg & Hck & -> & Rs & Ss & Dg & Dm). subst ck.
      destruct I as [Ir Ip Id Il].
      destruct o as [y | e' | ]; unfold sobs_ok in Hs; try discriminate.
      * (* answered with a signature *)
        destruct (sg_eqb D D_eqb (Sig r (H s q id p)) y) eqn:Ey; [|discriminate]. inversion Hs; subst st1; clear Hs.
        split.
        -- simpl. rewrite <- Ir, Rg; simpl.
           assert (Nat.eqb r q = false) as -> by (apply Nat.eqb_neq; auto). simpl.
           unfold noconf4. apply forallb_forall. intros [k' p'] Hin; cbn [fst snd].
           destruct (key4_eqb (s, r, q, id) k') eqn:Ek; auto.
           apply key4_eqb_ok in Ek; subst k'.
           assert (Hd := Id _ _ _ _ _ Hin (not_eq_sym Hrq)).
           assert (Hd' := Dm _ _ Hd). rewrite Dg in Hd'. inversion Hd' as [E].
           apply hash_inj in E. apply payload_eqb_ok. tauto.
        -- constructor; simpl.
           ++ congruence.
           ++ intros m0 d. rewrite Ss. intros [E | Hin].
              ** inversion E; subst. exists s, q, id, p. repeat split; auto.
                 --- apply evid_def_here.
                 --- rewrite Rs; auto.
              ** destruct (Ip _ _ Hin) as (s1 & q1 & i1 & p1 & E & Ev & Rg1 & Dd).
                 exists s1, q1, i1, p1. repeat split; auto.
                 --- apply evid_def_cons; auto.
                 --- rewrite Rs; auto.
           ++ intros s0 m0 q0 id0 p0 [E | Hin] Hq.
              ** inversion E; subst. exact Dg.
              ** apply Dm. apply Id; auto.
           ++ intros s0 q0 id0 p0 Hin m0 Hm Hf. rewrite Ss. right. eapply Il; eauto.
      * (* unobserved *)
        inversion Hs; subst st1; clear Hs. split; [reflexivity|].
        constructor; simpl.
        ++ congruence.
        ++ intros m0 d. rewrite Ss. intros [E | Hin].
           ** inversion E; subst. exists s, q, id, p. repeat split; auto.
              --- apply evid_may_here.
              --- rewrite Rs; auto.
           ** destruct (Ip _ _ Hin) as (s1 & q1 & i1 & p1 & E & Ev & Rg1 & Dd).
              exists s1, q1, i1, p1. repeat split; auto.
              --- apply evid_may_cons; auto.
              --- rewrite Rs; auto.
        ++ intros s0 m0 q0 id0 p0 Hin Hq. apply Dm. apply Id; auto.
        ++ intros s0 q0 id0 p0 Hin m0 Hm Hf. rewrite Ss. right. eapply Il; eauto.
  - (* LMsg *)
    destruct (honest_member n faulty r && negb (Nat.eqb r q) && knowable D D_eqb faulty st sigs) eqn:Hh; [|discriminate].
    apply andb_true_iff in Hh as [Hh Hk]. apply andb_true_iff in Hh as [Hh Hrq].
    apply negb_true_iff, Nat.eqb_neq in Hrq. apply honest_member_ok in Hh as [Hfr Hrn].
    destruct (msg_result D D_eqb hash n cur st s r q id p sigs um) as [e|] eqn:Em.
    + destruct o as [| e']; simpl in Hs; [discriminate|].
      destruct (match e' with Some e'0 => err_eqb e e'0 | None => true end); [|destruct e'; discriminate].
      assert (st' = st) by (destruct e'; inversion Hs; auto). subst. split; [reflexivity | exact I].
    + destruct o as [| e']; simpl in Hs; [|discriminate]. inversion Hs; subst st'; clear Hs.
      apply msg_delivered in Em as (Hl & Rg & Hum & Hn & _). unfold hash_of in Hn; simpl in Hn.
      assert (Hall : forall m, m < n -> faulty m = false -> In (m, H s q id p) (signed st)).
      { intros m Hm Hf. eapply knowable_nth; eauto. }
      split.
      * simpl. rewrite <- (inv_regs _ _ I), Rg; simpl. apply andb_true_iff; split.
        -- apply all_members_ok. intros m Hm. destruct (faulty m) eqn:Hf; auto; simpl.
           destruct (inv_prov _ _ I _ _ (Hall m Hm Hf)) as (s1 & q1 & i1 & p1 & E & Ev & _ & _).
           apply hash_inj in E as (-> & Eq & -> & ->). inversion Eq; subst. exact Ev.
        -- unfold noconf3. apply forallb_forall. intros [k' p'] Hin; cbn [fst snd].
           destruct (key3_eqb (s, q, id) k') eqn:Ek; auto.
           apply key3_eqb_ok in Ek; subst k'. apply payload_eqb_ok.
           eapply (signed_unique st g s r q id p p'); eauto.
           eapply (inv_del _ _ I); eauto.
      * destruct I as [Ir Ip Id Il]. constructor; simpl; auto.
        intros s0 q0 id0 p0 [E | Hin] m Hm Hf.
        -- inversion E; subst. apply Hall; auto.
        -- eapply Il; eauto.
  - (* LSelfSign *)
    destruct (honest_member n faulty m) eqn:Hh; [|discriminate].
    destruct (reg_mem (s, m, id) (regs st)) eqn:Rg.
    + destruct ok; [|discriminate]. inversion Hs; subst st'; clear Hs.
      destruct I as [Ir Ip Id Il]. split.
      * simpl. rewrite <- Ir. exact Rg.
      * constructor; simpl.
        -- exact Ir.
        -- intros m0 d [E | Hin].
           ++ inversion E; subst. exists s, m0, id, p. unfold hash_of; simpl. repeat split; auto.
              ** apply evid_def_here.
              ** intros Hne; contradiction.
           ++ destruct (Ip _ _ Hin) as (s1 & q1 & i1 & p1 & E & Ev & Rg1 & Dd).
              exists s1, q1, i1, p1. repeat split; auto. apply evid_def_cons; auto.
        -- intros s0 m0 q0 id0 p0 [E | Hin] Hq.
           ++ inversion E; subst. contradiction.
           ++ apply Id; auto.
        -- intros s0 q0 id0 p0 Hin m0 Hm Hf. right. eapply Il; eauto.
    + destruct ok; [discriminate|]. inversion Hs; subst. split; [reflexivity | exact I].
  - (* LBcastRet *)
    destruct (honest_member n faulty m) eqn:Hh; [|discriminate].
    destruct ok.
    + destruct (all_members n (fun i => faulty i || signed_mem D D_eqb i (hash_of D hash cur s m id p) (signed st))) eqn:Ha;
        [|discriminate]. inversion Hs; subst st'; clear Hs. split; [|exact I].
      simpl. apply all_members_ok. intros i Hi. rewrite all_members_ok in Ha. specialize (Ha i Hi).
      destruct (faulty i) eqn:Hf; auto; simpl in *. apply signed_mem_In in Ha.
      unfold hash_of in Ha; simpl in Ha.
      destruct (inv_prov _ _ I _ _ Ha) as (s1 & q1 & i1 & p1 & E & Ev & _ & _).
      apply hash_inj in E as (-> & Eq & -> & ->). inversion Eq; subst. exact Ev.
    + inversion Hs; subst. split; [reflexivity | exact I].
Qed.

Lemma run_inv : forall ls st g st',
  Inv st g -> runc st ls = Some st' ->
  monitor_from D n faulty g ls = true /\ Inv st' (ghost_after D g ls).
Proof.
  induction ls as [|l r IH]; intros st g st' I Hr; simpl in *.
  - inversion Hr; subst; auto.
  - destruct (stepc st l) as [st1|] eqn:Hs; [|discriminate].
    destruct (step_inv _ _ _ _ I Hs) as [Hc I1]. rewrite Hc; simpl. eapply IH; eauto.
Qed.

(* Main theorem: every trace of the model passes the monitor. *)
Theorem run_monitor : forall ls st, run D D_eqb hash n faulty cur ls = Some st -> monitor D n faulty ls = true.
Proof. intros ls st Hr. exact (proj1 (run_inv ls _ _ _ inv_init Hr)). Qed.

Theorem run_invariant : forall ls st, run D D_eqb hash n faulty cur ls = Some st -> Inv st (ghost_after D ginit ls).
Proof. intros ls st Hr. exact (proj2 (run_inv ls _ _ _ inv_init Hr)). Qed.


(* ---- Reading the ghost back as facts about the trace ---- *)

(* label l shows member m signing exactly (s, q, id, p): a signature request from q answered with a signature,
   a request that passed m's check and whose response was not observed, or m's own local signature (q = m) *)
Definition sign_label (s : N) (m q : nat) (id : N) (p : payload) (l : label) : Prop :=
  (exists ck x, l = LSigReq s m q id p ck (OSig x)) \/
  l = LSigReq s m q id p true OSAny \/
  (q = m /\ l = LSelfSign s m id p true).

Ltac case_label l :=
  destruct l as [?s ?m ?id | ?s ?r ?q ?id ?p ck o | ?s ?r ?q ?id ?p ?sigs ?um o | ?s ?m ?id ?p ok | ?s ?m ?id ?p ok];
  [ | destruct o as [?x| ?e |]; destruct ck | destruct o as [| ?e] | destruct ok | destruct ok ].

Lemma g_regs_after : forall ls g k, In k (g_regs (ghost_after D g ls)) ->
  In k (g_regs g) \/ exists s m id, k = (s, m, id) /\ In (LReg s m id) ls.
Proof.
  induction ls as [|l r IH]; intros g k Hin; simpl in *; auto.
  destruct (IH _ _ Hin) as [Hg | (s & m & id & E & Hl)]; [|right; exists s, m, id; auto].
  case_label l; simpl in Hg; auto.
  destruct Hg as [E | Hg]; auto. right; eexists _, _, _; split; [symmetry; exact E | auto].
Qed.

Lemma g_def_after : forall ls g s m q id p, In ((s, m, q, id), p) (g_def (ghost_after D g ls)) ->
  In ((s, m, q, id), p) (g_def g) \/
  exists l, In l ls /\ ((exists ck x, l = LSigReq s m q id p ck (OSig x)) \/ (q = m /\ l = LSelfSign s m id p true)).
Proof.
  induction ls as [|l r IH]; intros g s m q id p Hin; simpl in *; auto.
  destruct (IH _ _ _ _ _ _ Hin) as [Hg | (l' & Hl & Hk)]; [|right; exists l'; auto].
  case_label l; simpl in Hg; auto;
    (destruct Hg as [E | Hg]; auto; inversion E; subst; right; eexists; split; [left; reflexivity|]; eauto).
Qed.

Lemma g_may_after : forall ls g s m q id p, In ((s, m, q, id), p) (g_may (ghost_after D g ls)) ->
  In ((s, m, q, id), p) (g_may g) \/ In (LSigReq s m q id p true OSAny) ls.
Proof.
  induction ls as [|l r IH]; intros g s m q id p Hin; simpl in *; auto.
  destruct (IH _ _ _ _ _ _ Hin) as [Hg | Hl]; auto.
  case_label l; simpl in Hg; auto.
  destruct Hg as [E | Hg]; auto. inversion E; subst. auto.
Qed.

Lemma evid_after : forall ls s m q id p, evid (ghost_after D ginit ls) s m q id p = true ->
  exists l, In l ls /\ sign_label s m q id p l.
Proof.
  intros ls s m q id p He. unfold evid in He. apply orb_true_iff in He as [He | He]; apply ev_mem_In in He.
  - apply g_def_after in He as [[] | (l & Hl & [Hk | Hk])]; exists l; split; auto; unfold sign_label; auto.
  - apply g_may_after in He as [[] | Hl]. eexists; split; eauto. unfold sign_label; auto.
Qed.

(* converse directions: what a label in the trace leaves in the ghost *)
Lemma g_def_keeps : forall ls g e, In e (g_def g) -> In e (g_def (ghost_after D g ls)).
Proof.
  induction ls as [|l r IH]; intros g e Hin; simpl; auto. apply IH.
  case_label l; simpl; auto.
Qed.
Lemma g_del_keeps : forall ls g e, In e (g_del g) -> In e (g_del (ghost_after D g ls)).
Proof.
  induction ls as [|l r IH]; intros g e Hin; simpl; auto. apply IH.
  case_label l; simpl; auto.
Qed.
Lemma g_def_of_label : forall ls g s r q id p ck x,
  In (LSigReq s r q id p ck (OSig x)) ls -> In ((s, r, q, id), p) (g_def (ghost_after D g ls)).
Proof.
  induction ls as [|l r0 IH]; intros g s r q id p ck x Hin; simpl in *; [contradiction|].
  destruct Hin as [-> | Hin]; [|eapply IH; eauto].
  apply g_def_keeps. destruct ck; simpl; auto.
Qed.
Lemma g_del_of_label : forall ls g s r q id p sigs um,
  In (LMsg s r q id p sigs um ODeliver) ls -> In ((s, q, id), p) (g_del (ghost_after D g ls)).
Proof.
  induction ls as [|l r0 IH]; intros g s r q id p sigs um Hin; simpl in *; [contradiction|].
  destruct Hin as [-> | Hin]; [|eapply IH; eauto].
  apply g_del_keeps. simpl. auto.
Qed.

Lemma monitor_split : forall pre g l post,
  monitor_from D n faulty g (pre ++ l :: post) = true -> chk (ghost_after D g pre) l = true.
Proof.
  induction pre as [|a r IH]; intros g l post Hm; simpl in *.
  - apply andb_true_iff in Hm; tauto.
  - apply andb_true_iff in Hm as [_ Hm]. eapply IH; eauto.
Qed.

Lemma run_split : forall pre st l post st',
  runc st (pre ++ l :: post) = Some st' ->
  exists st1 st2, runc st pre = Some st1 /\ stepc st1 l = Some st2 /\ runc st2 post = Some st'.
Proof.
  induction pre as [|a r IH]; intros st l post st' Hr; simpl in *.
  - destruct (stepc st l) as [st2|] eqn:Hs; [|discriminate]. exists st, st2; auto.
  - destruct (stepc st a) as [sa|]; [|discriminate]. eapply IH; eauto.
Qed.

Notation runi := (run D D_eqb hash n faulty cur).

(* 1. A callback invocation for (sender q, id, p) at instance (s, r) implies: r is an honest member, the id is
   registered at r, and every honest member m < n - the receiver included - shows in the trace before it a sign
   event for exactly (s, q, id, p); in model terms: executed signFunc on exactly H(s, q, id, p). *)
Theorem deliver_all_signed : forall ls st, runi ls = Some st ->
  forall pre s r q id p sigs um post, ls = pre ++ LMsg s r q id p sigs um ODeliver :: post ->
  (r < n /\ faulty r = false /\ q <> r) /\
  forall m, m < n -> faulty m = false -> exists l, In l pre /\ sign_label s m q id p l.
Proof.
  intros ls st Hr pre s r q id p sigs um post ->.
  pose proof (run_monitor _ _ Hr) as Hm. apply monitor_split in Hm. simpl in Hm.
  apply run_split in Hr as (st1 & st2 & _ & Hs & _). simpl in Hs.
  destruct (honest_member n faulty r && negb (Nat.eqb r q) && knowable D D_eqb faulty st1 sigs) eqn:Hh; [|discriminate].
  apply andb_true_iff in Hh as [Hh _]. apply andb_true_iff in Hh as [Hh Hrq].
  apply negb_true_iff, Nat.eqb_neq in Hrq. apply honest_member_ok in Hh as [Hf Hn].
  split; [repeat split; auto|].
  intros m Hmn Hfm. apply andb_true_iff in Hm as [Hm _]. apply andb_true_iff in Hm as [_ Hm].
  rewrite all_members_ok in Hm. specialize (Hm m Hmn). rewrite Hfm in Hm; simpl in Hm.
  apply evid_after; auto.
Qed.

Theorem deliver_all_signed_state : forall pre st s r q id p sigs um st',
  runi pre = Some st -> stepc st (LMsg s r q id p sigs um ODeliver) = Some st' ->
  length sigs = n /\
  (forall k, k < n -> nth_error sigs k = Some (Sig k (H s q id p))) /\
  (forall m, m < n -> faulty m = false -> In (m, H s q id p) (signed st)).
Proof.
  intros pre st s r q id p sigs um st' _ Hs. simpl in Hs.
  destruct (honest_member n faulty r && negb (Nat.eqb r q) && knowable D D_eqb faulty st sigs) eqn:Hh; [|discriminate].
  apply andb_true_iff in Hh as [_ Hk].
  destruct (msg_result D D_eqb hash n cur st s r q id p sigs um) as [e|] eqn:Em; [discriminate|].
  apply msg_delivered in Em as (Hl & _ & _ & Hn & _). unfold hash_of in Hn; simpl in Hn.
  repeat split; auto. intros m Hm Hf. eapply knowable_nth; eauto.
Qed.

(* Every signature an honest member ever made is over H(s, q, id, p) for a sign event (s, q, id, p) of that
   member that the trace shows, and the id was registered at that member. *)
Theorem signed_sound : forall ls st, runi ls = Some st ->
  forall m d, In (m, d) (signed st) ->
  exists s q id p, d = H s q id p /\ (exists l, In l ls /\ sign_label s m q id p l) /\ In (LReg s m id) ls.
Proof.
  intros ls st Hr m d Hin. pose proof (run_invariant _ _ Hr) as I.
  destruct (inv_prov _ _ I _ _ Hin) as (s & q & id & p & E & Ev & Rg & _).
  exists s, q, id, p. repeat split; auto.
  - apply evid_after; auto.
  - rewrite (inv_regs _ _ I) in Rg. apply reg_mem_In in Rg.
    apply g_regs_after in Rg as [[] | (s' & m' & id' & E' & Hl)]. inversion E'; subst; auto.
Qed.

(* 2. Honest members sign at most one payload per (requester, id) and session. *)
Theorem no_equivocation_per_requester : forall ls st, runi ls = Some st ->
  forall pre s r q id p1 ck1 x1 p2 ck2 x2 post,
  ls = pre ++ LSigReq s r q id p2 ck2 (OSig x2) :: post ->
  In (LSigReq s r q id p1 ck1 (OSig x1)) pre -> p1 = p2.
Proof.
  intros ls st Hr pre s r q id p1 ck1 x1 p2 ck2 x2 post -> Hin.
  pose proof (run_monitor _ _ Hr) as Hm. apply monitor_split in Hm. simpl in Hm.
  apply andb_true_iff in Hm as [_ Hm]. unfold noconf4 in Hm. rewrite forallb_forall in Hm.
  specialize (Hm _ (g_def_of_label _ ginit _ _ _ _ _ _ _ Hin)). simpl fst in Hm; simpl snd in Hm.
  rewrite key4_eqb_refl in Hm. apply payload_eqb_ok in Hm. auto.
Qed.

Theorem no_equivocation_state : forall ls st, runi ls = Some st ->
  forall s r q id p1 p2, q <> r ->
  In (r, H s q id p1) (signed st) -> In (r, H s q id p2) (signed st) -> p1 = p2.
Proof. intros ls st Hr s r q id p1 p2 Hq H1 H2. exact (signed_unique st _ s r q id p1 p2 (run_invariant _ _ Hr) Hq H1 H2). Qed.

(* 3. No two honest members deliver different payloads for the same sender and message id (same session),
   whatever the other members - any number of them - do. *)
Theorem agreement_prefix : forall ls st, runi ls = Some st ->
  forall pre s r1 r2 q id p1 p2 sg1 sg2 u1 u2 post,
  ls = pre ++ LMsg s r2 q id p2 sg2 u2 ODeliver :: post ->
  In (LMsg s r1 q id p1 sg1 u1 ODeliver) pre -> p1 = p2.
Proof.
  intros ls st Hr pre s r1 r2 q id p1 p2 sg1 sg2 u1 u2 post -> Hin.
  pose proof (run_monitor _ _ Hr) as Hm. apply monitor_split in Hm. simpl in Hm.
  apply andb_true_iff in Hm as [_ Hm]. unfold noconf3 in Hm. rewrite forallb_forall in Hm.
  specialize (Hm _ (g_del_of_label _ ginit _ _ _ _ _ _ _ Hin)). simpl fst in Hm; simpl snd in Hm.
  assert (key3_eqb (s, q, id) (s, q, id) = true) as E by (apply key3_eqb_ok; auto). rewrite E in Hm.
  apply payload_eqb_ok in Hm. auto.
Qed.

Lemma two_in : forall (A : Type) (a b : A) l, In a l -> In b l ->
  a = b \/ (exists pre post, l = pre ++ b :: post /\ In a pre) \/ (exists pre post, l = pre ++ a :: post /\ In b pre).
Proof.
  induction l as [|x r IH]; intros Ha Hb; [contradiction|].
  destruct Ha as [-> | Ha]; destruct Hb as [-> | Hb]; auto.
  - right; left. apply in_split in Hb as (r1 & r2 & ->). exists (a :: r1), r2; simpl; auto.
  - right; right. apply in_split in Ha as (r1 & r2 & ->). exists (b :: r1), r2; simpl; auto.
  - destruct (IH Ha Hb) as [E | [(pre & post & -> & Hin) | (pre & post & -> & Hin)]]; auto.
    + right; left. exists (x :: pre), post; simpl; auto.
    + right; right. exists (x :: pre), post; simpl; auto.
Qed.

Theorem agreement_per_sender : forall ls st, runi ls = Some st ->
  forall s r1 r2 q id p1 p2 sg1 sg2 u1 u2,
  In (LMsg s r1 q id p1 sg1 u1 ODeliver) ls -> In (LMsg s r2 q id p2 sg2 u2 ODeliver) ls -> p1 = p2.
Proof.
  intros ls st Hr s r1 r2 q id p1 p2 sg1 sg2 u1 u2 H1 H2.
  destruct (two_in _ _ _ _ H1 H2) as [E | [(pre & post & E & Hin) | (pre & post & E & Hin)]].
  - inversion E; auto.
  - eapply agreement_prefix; eauto.
  - symmetry. eapply agreement_prefix; eauto.
Qed.

(* 4. Replays: a message is delivered only if its i-th signature is member i's signature over exactly
   H(s, q, id, p); a signature over any other session / sender / id / payload at any position makes it fail. *)
Theorem delivered_sigs_exact : forall (st : state) s r q id p sigs um st',
  stepc st (LMsg s r q id p sigs um ODeliver) = Some st' ->
  forall k x, nth_error sigs k = Some x -> x = Sig k (H s q id p).
Proof.
  intros st s r q id p sigs um st' Hs k x Hn. simpl in Hs.
  destruct (honest_member n faulty r && negb (Nat.eqb r q) && knowable D D_eqb faulty st sigs); [|discriminate].
  destruct (msg_result D D_eqb hash n cur st s r q id p sigs um) as [e|] eqn:Em; [discriminate|].
  apply msg_delivered in Em as (Hl & _ & _ & Hk & _). unfold hash_of in Hk; simpl in Hk.
  assert (k < n) as Hlt by (rewrite <- Hl; apply nth_error_Some; congruence).
  rewrite (Hk k Hlt) in Hn. inversion Hn; auto.
Qed.

Theorem replay_rejected : forall (st : state) s r q id p sigs um k m s' q' id' p',
  nth_error sigs k = Some (Sig m (hash s' q' id' p')) ->
  (s', q', id', p') <> (s, Some q, id, p) ->
  stepc st (LMsg s r q id p sigs um ODeliver) = None.
Proof.
  intros st s r q id p sigs um k m s' q' id' p' Hn Hne.
  destruct (stepc st (LMsg s r q id p sigs um ODeliver)) as [st'|] eqn:Hs; auto.
  pose proof (delivered_sigs_exact _ _ _ _ _ _ _ _ _ Hs _ _ Hn) as E. inversion E as [[Em Eh]].
  apply hash_inj in Eh as (-> & -> & -> & ->). contradiction.
Qed.

Theorem cross_session_replay_rejected : forall (st : state) s r q id p sigs um k m s' q' id' p',
  nth_error sigs k = Some (Sig m (hash s' q' id' p')) -> s' <> s ->
  stepc st (LMsg s r q id p sigs um ODeliver) = None.
Proof.
  intros. eapply replay_rejected; eauto. intros E; inversion E; auto.
Qed.

(* 5. Allow-list: ids that are not registered at an instance are neither signed nor delivered there. *)
Lemma reg_in_pre : forall pre s r id, reg_mem (s, r, id) (g_regs (ghost_after D ginit pre)) = true -> In (LReg s r id) pre.
Proof.
  intros pre s r id Hr. apply reg_mem_In in Hr. apply g_regs_after in Hr as [[] | (s' & m' & id' & E & Hl)].
  inversion E; subst; auto.
Qed.

Theorem allowlist : forall ls st, runi ls = Some st ->
  forall pre l post, ls = pre ++ l :: post ->
  forall s r id,
  ((exists q p ck x, l = LSigReq s r q id p ck (OSig x)) \/
   (exists q p sigs um, l = LMsg s r q id p sigs um ODeliver) \/
   (exists p, l = LSelfSign s r id p true)) ->
  In (LReg s r id) pre.
Proof.
  intros ls st Hr pre l post -> s r id Hl.
  pose proof (run_monitor _ _ Hr) as Hm. apply monitor_split in Hm.
  destruct Hl as [(q & p & ck & x & ->) | [(q & p & sigs & um & ->) | (p & ->)]]; simpl in Hm.
  - repeat (apply andb_true_iff in Hm as [Hm _]). apply reg_in_pre; auto.
  - repeat (apply andb_true_iff in Hm as [Hm _]). apply reg_in_pre; auto.
  - apply reg_in_pre; auto.
Qed.

(* the application check ran (and passed) at every member whose signature request was answered *)
Theorem signed_only_after_check : forall ls st, runi ls = Some st ->
  forall s r q id p ck x, In (LSigReq s r q id p ck (OSig x)) ls -> ck = true /\ x = Sig r (H s q id p).
Proof.
  intros ls st Hr s r q id p ck x Hin. apply in_split in Hin as (pre & post & ->).
  apply run_split in Hr as (st1 & st2 & _ & Hs & _). simpl in Hs.
  destruct (honest_member n faulty r && negb (Nat.eqb r q)); [|discriminate].
  destruct (sig_result D D_eqb hash cur st1 s r q id p ck) as [e | [y st3]] eqn:Er; simpl in Hs; [discriminate|].
  apply sig_result_inr in Er as (_ & Hck & -> & _). split; auto.
  destruct (sg_eqb D D_eqb (Sig r (H s q id p)) x) eqn:Ex; [|discriminate].
  destruct x as [m d|len]; simpl in Ex; [|discriminate].
  apply andb_true_iff in Ex as [E1 E2]. apply Nat.eqb_eq in E1. apply D_eqb_ok in E2. subst; auto.
Qed.

(* An honest client's Broadcast returns nil only if every honest member signed exactly its (s, m, id, p). *)
Theorem broadcast_ok_all_signed : forall ls st, runi ls = Some st ->
  forall pre s m id p post, ls = pre ++ LBcastRet s m id p true :: post ->
  forall i, i < n -> faulty i = false -> exists l, In l pre /\ sign_label s i m id p l.
Proof.
  intros ls st Hr pre s m id p post -> i Hi Hf.
  pose proof (run_monitor _ _ Hr) as Hm. apply monitor_split in Hm. simpl in Hm.
  rewrite all_members_ok in Hm. specialize (Hm i Hi). rewrite Hf in Hm; simpl in Hm.
  apply evid_after; auto.
Qed.

End Facts.

(* ---- The Section hypotheses are satisfiable: the tuple "hash" used for evaluation is injective. ---- *)
Lemma TD_eqb_ok : forall a b : TD, TD_eqb a b = true <-> a = b.
Proof.
  intros [[[s q] i] p] [[[s' q'] i'] p']; simpl.
  rewrite !andb_true_iff, !N.eqb_eq, payload_eqb_ok. split.
  - intros [[[-> Hq] ->] ->]. destruct q, q'; try discriminate; auto. apply Nat.eqb_eq in Hq; subst; auto.
  - intros E; inversion E; subst. repeat split; auto. destruct q'; auto. apply Nat.eqb_refl.
Qed.
Lemma thash_inj : forall s q i p s' q' i' p', thash s q i p = thash s' q' i' p' -> s = s' /\ q = q' /\ i = i' /\ p = p'.
Proof. unfold thash; intros; inversion H; auto. Qed.

(* ---- Witnesses (3 members: 0 and 1 honest, 2 faulty; session 1; message id 1) ---- *)
Definition f2 : nat -> bool := fset [2].
Definition P0 : payload := (0, 10)%N.
Definition P1 : payload := (0, 11)%N.
Definition P2 : payload := (0, 12)%N.
Definition full (d : TD) : list (sg TD) := [Sig 0 d; Sig 1 d; Sig 2 d].
Definition trun (v : variant) := run TD TD_eqb thash 3 f2 v.
Definition tmon := monitor TD 3 f2.

(* Non-vacuity: an honest broadcast by member 0, then a complete broadcast by the faulty member 2 speaking the
   protocol itself, a refused second payload, a refused unregistered id: all accepted by the model as it is now. *)
Definition ok_trace : list (label TD) :=
  let d0 := thash 1 (Some 0) 1 P0 in let d2 := thash 1 (Some 2) 1 P2 in
  [ LReg 1 0 1; LReg 1 1 1;
    LSelfSign 1 0 1 P0 true; LSigReq 1 1 0 1 P0 true OSAny; LBcastRet 1 0 1 P0 true;
    LMsg 1 1 0 1 P0 (full d0) true ODeliver;
    LSigReq 1 0 2 1 P2 true (OSig (Sig 0 d2)); LSigReq 1 1 2 1 P2 true (OSig (Sig 1 d2));
    LSigReq 1 1 2 1 P1 true (OSErr (Some EDedup)); LSigReq 1 1 2 7 P1 true (OSErr (Some EUnknownId));
    LSigReq 1 0 2 1 P2 false (OSErr (Some ECheck));
    LMsg 1 0 2 1 P2 (full d2) true ODeliver; LMsg 1 1 2 1 P2 (full d2) true ODeliver;
    LMsg 1 1 2 1 P2 [Sig 0 d2; Sig 1 d2] true (OMErr (Some ENumSigs));
    LMsg 1 1 2 1 P2 [Sig 1 d2; Sig 0 d2; Sig 2 d2] true (OMErr (Some EBadSig));
    LMsg 1 1 2 1 P2 [Sig 0 d2; Junk 64; Sig 2 d2] true (OMErr (Some ELen));
    LMsg 1 1 2 7 P2 (full d2) true (OMErr (Some EVerifyId));
    LMsg 1 1 2 1 P2 (full d2) false (OMErr (Some EUnmarshal)) ].
Lemma ok_trace_accepted : (exists st, trun cur ok_trace = Some st) /\ tmon ok_trace = true.
Proof. split; [eexists|]; vm_compute; reflexivity. Qed.

(* F8, the relay.  Member 0 broadcasts (id 1, P0); the faulty member 2 obtains signatures for its own payload P2
   under the same id, has member 0 deliver it, and re-sends member 0's fully signed (id 1, P0) to member 1 over
   its own connection. *)
Definition relay_trace (sender_bound : bool) (last : mobs) : list (label TD) :=
  let b := fun q : nat => if sender_bound then Some q else None in
  let d0 := thash 1 (b 0) 1 P0 in let d2 := thash 1 (b 2) 1 P2 in
  [ LReg 1 0 1; LReg 1 1 1;
    LSelfSign 1 0 1 P0 true; LSigReq 1 1 0 1 P0 true (OSig (Sig 1 d0)); LBcastRet 1 0 1 P0 true;
    LMsg 1 1 0 1 P0 (full d0) true ODeliver;
    LSigReq 1 0 2 1 P2 true (OSig (Sig 0 d2)); LSigReq 1 1 2 1 P2 true (OSig (Sig 1 d2));
    LMsg 1 0 2 1 P2 (full d2) true ODeliver;
    LMsg 1 1 2 1 P0 (full d0) true last ].

(* Before the repair (hash without the sender) the model accepts the relay as a delivery: members 0 and 1 deliver
   different payloads for sender 2 and message id 1, and the monitor rejects the trace. *)
Lemma agreement_per_sender_refuted_before_fix :
  (exists st, trun pre_fix (relay_trace false ODeliver) = Some st) /\
  In (LMsg 1 0 2 1 P2 (full (thash 1 None 1 P2)) true ODeliver) (relay_trace false ODeliver) /\
  In (LMsg 1 1 2 1 P0 (full (thash 1 None 1 P0)) true ODeliver) (relay_trace false ODeliver) /\
  P2 <> P0 /\ tmon (relay_trace false ODeliver) = false.
Proof.
  split; [eexists; vm_compute; reflexivity|].
  split; [vm_compute; auto 12|]. split; [vm_compute; auto 12|]. split; [discriminate|]. vm_compute; reflexivity.
Qed.

(* Now: the same relay is refused ("invalid signature": member 0's signature is over H(.., sender 0, ..)). *)
Lemma relay_rejected_now :
  trun cur (relay_trace true ODeliver) = None /\
  (exists st, trun cur (relay_trace true (OMErr (Some EBadSig))) = Some st).
Proof. split; [|eexists]; vm_compute; reflexivity. Qed.

(* Why the weaker repair would not have sufficed.  [weak_fix] = hash without sender, plus handleMessage requires
   dedup[(peer, id)] to equal the received hash.  Honest members 0 and 1 broadcast P1 and P2 under the same id
   (normal: every node broadcasts its own round data under one id).  The faulty member 2 asks member 1 to sign P1
   and member 0 to sign P2, both for (2, id), then re-sends 0's full set to 1 and 1's full set to 0. *)
Definition weak_trace : list (label TD) :=
  let d1 := thash 1 None 1 P1 in let d2 := thash 1 None 1 P2 in
  [ LReg 1 0 1; LReg 1 1 1;
    LSelfSign 1 0 1 P1 true; LSigReq 1 1 0 1 P1 true (OSig (Sig 1 d1)); LBcastRet 1 0 1 P1 true;
    LMsg 1 1 0 1 P1 (full d1) true ODeliver;
    LSelfSign 1 1 1 P2 true; LSigReq 1 0 1 1 P2 true (OSig (Sig 0 d2)); LBcastRet 1 1 1 P2 true;
    LMsg 1 0 1 1 P2 (full d2) true ODeliver;
    LSigReq 1 1 2 1 P1 true (OSig (Sig 1 d1)); LSigReq 1 0 2 1 P2 true (OSig (Sig 0 d2));
    LMsg 1 1 2 1 P1 (full d1) true ODeliver;
    LMsg 1 0 2 1 P2 (full d2) true ODeliver ].

Lemma dedup_check_alone_insufficient :
  (exists st, trun weak_fix weak_trace = Some st) /\
  In (LMsg 1 1 2 1 P1 (full (thash 1 None 1 P1)) true ODeliver) weak_trace /\
  In (LMsg 1 0 2 1 P2 (full (thash 1 None 1 P2)) true ODeliver) weak_trace /\
  P1 <> P2 /\ tmon weak_trace = false.
Proof.
  split; [eexists; vm_compute; reflexivity|].
  split; [vm_compute; auto 20|]. split; [vm_compute; auto 20|]. split; [discriminate|]. vm_compute; reflexivity.
Qed.

(* ... and the weak repair does stop the plain relay (so the two-broadcaster shape is what separates the repairs). *)
Lemma weak_fix_stops_plain_relay :
  trun weak_fix (relay_trace false ODeliver) = None /\
  (exists st, trun weak_fix (relay_trace false (OMErr (Some EDedupMsg))) = Some st).
Proof. split; [|eexists]; vm_compute; reflexivity. Qed.
