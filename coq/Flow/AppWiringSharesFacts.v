(* Obligation for C10 (and C01) on the regenerated construction data (gen/AppWiring.v, translator/appwire),
   kept in its own file so that a change breaking it does not break the obligations of other properties. *)
From Coq Require Import List String Bool.
From Charon Require Import Flow.AppWiringCheck gen.AppWiring.

(* the public-share maps have exactly the entries i+1 -> PubShares[i]: share indices 1..n, no index 0 *)
Lemma app_pubshares_ok : pubshares_check app_pubshares_sites = true.
Proof. vm_compute. reflexivity. Qed.
