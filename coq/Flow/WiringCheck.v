(* Decision procedure over the edge list that translator/wire regenerates from core.Wire
   (gen/Wiring.v).  An edge  P.pm -> C.cm  stands for a statement  w.P_pm(w.C_cm)  of Wire:
   component P calls C.cm for every output it announces on its Subscribe*/Register* hook pm.
   [Adapter] marks an edge installed through a one-line closure that forwards to C.cm.

   wiring_check decides the shape of the signing path that the cluster model Flow/Pipeline.v
   assumes (each line: the consumer is fed by that producer and by nothing else):

     Fetcher.Fetch             <- Scheduler.SubscribeDuties
     Consensus.Propose         <- Fetcher.Subscribe
     DutyDB.Store              <- Consensus.Subscribe          (LDecide)
     ParSigDB.StoreInternal    <- ValidatorAPI.Subscribe       (LSign)
     ParSigEx.Broadcast        <- ParSigDB.SubscribeInternal   (LRelease)
     ParSigDB.StoreExternal    <- ParSigEx.Subscribe           (LDeliver / LInject)
     SigAgg.Aggregate          <- ParSigDB.SubscribeThreshold  (LAggregate / LAggFail)
     AggSigDB.Store            <- SigAgg.Subscribe             (LAggregate)
     Broadcaster.Broadcast     <- SigAgg.Subscribe             (LAggregate)

   that AggSigDB.Store is subscribed to SigAgg BEFORE Broadcaster.Broadcast (order_check below),
   and that every WireOption only wraps a field around its own previous value (tracing, tracking
   and async retry call clone.F from the replacement of F and nothing else of the wiring). *)
From Coq Require Import List String Bool.
Import ListNotations.
Local Open Scope string_scope.

Inductive ekind := Direct | Adapter.
Record binding := mkBinding { b_field : string; b_comp : string; b_method : string }.
Record edge := mkEdge { e_pc : string; e_pm : string; e_cc : string; e_cm : string; e_kind : ekind }.
Record wrapper := mkWrapper { w_opt : string; w_field : string; w_clone : list string; w_w : list string }.

Definition is_cons (e : edge) (c m : string) : bool := String.eqb (e_cc e) c && String.eqb (e_cm e) m.
Definition is_prod (e : edge) (c m : string) : bool := String.eqb (e_pc e) c && String.eqb (e_pm e) m.

(* consumer C.cm is fed by P.pm, and only by P.pm *)
Definition only_fed_by (es : list edge) (c cm p pm : string) : bool :=
  forallb (fun e => negb (is_cons e c cm) || is_prod e p pm) es
  && existsb (fun e => is_cons e c cm && is_prod e p pm) es.

Definition signing_path : list (string * string * string * string) :=
  [ ("Fetcher", "Fetch", "Scheduler", "SubscribeDuties");
    ("Consensus", "Propose", "Fetcher", "Subscribe");
    ("DutyDB", "Store", "Consensus", "Subscribe");
    ("ParSigDB", "StoreInternal", "ValidatorAPI", "Subscribe");
    ("ParSigEx", "Broadcast", "ParSigDB", "SubscribeInternal");
    ("ParSigDB", "StoreExternal", "ParSigEx", "Subscribe");
    ("SigAgg", "Aggregate", "ParSigDB", "SubscribeThreshold");
    ("AggSigDB", "Store", "SigAgg", "Subscribe");
    ("Broadcaster", "Broadcast", "SigAgg", "Subscribe") ].

Definition edges_check (es : list edge) : bool :=
  forallb (fun q => match q with (c, cm, p, pm) => only_fed_by es c cm p pm end) signing_path.

Definition wrapper_ok (w : wrapper) : bool :=
  match w_clone w, w_w w with
  | [f], [] => String.eqb f (w_field w)
  | _, _ => false
  end.

(* a field name is bound once, and two fields never alias one component method *)
Fixpoint nodup_str (l : list string) : bool :=
  match l with [] => true | x :: l' => negb (existsb (String.eqb x) l') && nodup_str l' end.

Definition bindings_check (bs : list binding) : bool :=
  nodup_str (map b_field bs) && nodup_str (map (fun b => b_comp b ++ "." ++ b_method b) bs).

(* ORDER.  The edge list keeps the order of the statements of Wire, which is the order in which a
   producer calls its subscribers (Subscribe appends, the producer walks the list and stops at the
   first error).  SigAgg must hand an aggregate to AggSigDB.Store BEFORE Broadcaster.Broadcast:
   aggsigdb refuses a second, different object for a key ("mismatching data") and sigagg.Aggregate
   then returns before the broadcaster is called -- the store is the gate in front of the beacon
   node (defence in depth behind the single-root theorem). *)
Fixpoint index_of (f : edge -> bool) (es : list edge) : option nat :=
  match es with
  | [] => None
  | e :: r => if f e then Some 0 else option_map S (index_of f r)
  end.

Definition subscribed_before (es : list edge) (p pm c1 m1 c2 m2 : string) : bool :=
  match index_of (fun e => is_prod e p pm && is_cons e c1 m1) es,
        index_of (fun e => is_prod e p pm && is_cons e c2 m2) es with
  | Some i, Some j => Nat.ltb i j
  | _, _ => false
  end.

Definition order_check (es : list edge) : bool :=
  subscribed_before es "SigAgg" "Subscribe" "AggSigDB" "Store" "Broadcaster" "Broadcast".

Definition wiring_check (bs : list binding) (es : list edge) (ws : list wrapper) : bool :=
  bindings_check bs && edges_check es && order_check es && forallb wrapper_ok ws.

(* Sanity of the checker itself: it rejects the wirings a C01 violation would come from. *)
Definition good_edges : list edge :=
  map (fun q => match q with (c, cm, p, pm) => mkEdge p pm c cm Direct end) signing_path.

Example check_accepts_path : edges_check good_edges = true.
Proof. vm_compute. reflexivity. Qed.

(* the partial-signature store's internal subscription also feeding the broadcaster *)
Example check_rejects_bcast_from_parsigdb :
  edges_check (mkEdge "ParSigDB" "SubscribeInternal" "Broadcaster" "Broadcast" Direct :: good_edges) = false.
Proof. vm_compute. reflexivity. Qed.

(* peer messages entering through the validator API hook *)
Example check_rejects_external_from_vapi :
  edges_check (mkEdge "ValidatorAPI" "Subscribe" "ParSigDB" "StoreExternal" Direct :: good_edges) = false.
Proof. vm_compute. reflexivity. Qed.

(* the aggregator disconnected from the threshold subscription *)
Example check_rejects_missing_edge :
  edges_check (filter (fun e => negb (is_cons e "SigAgg" "Aggregate")) good_edges) = false.
Proof. vm_compute. reflexivity. Qed.

Example check_accepts_order : order_check good_edges = true.
Proof. vm_compute. reflexivity. Qed.

(* the broadcaster subscribed to the aggregator before the aggregate store *)
Example check_rejects_bcast_before_aggsigdb :
  order_check (mkEdge "SigAgg" "Subscribe" "Broadcaster" "Broadcast" Direct
               :: filter (fun e => negb (is_cons e "Broadcaster" "Broadcast")) good_edges) = false
  /\ edges_check (mkEdge "SigAgg" "Subscribe" "Broadcaster" "Broadcast" Direct
                  :: filter (fun e => negb (is_cons e "Broadcaster" "Broadcast")) good_edges) = true.
Proof. split; vm_compute; reflexivity. Qed.

Example check_rejects_redirecting_option :
  wrapper_ok (mkWrapper "WithX" "BroadcasterBroadcast" ["AggSigDBStore"] []) = false.
Proof. vm_compute. reflexivity. Qed.
