(* Concrete instance of Flow/WireMsg.v used by the correspondence check of C05, non-vacuity
   examples, and the witness for finding F11 (the Any type URL is not covered by the value hash).

   Instance: keys, type URLs, value bytes, canonical bytes and "everything else in the
   serialisation" are interned numbers (N); the serialisation and its hash are the identity on the
   signed content (so injective by construction); a signature is the term
       Sg k c      made with key k over the content c            (recorded by the harness whenever it
                                                                  signs with the real signMsg/createMsg)
       SgBad n     bytes that were not produced by signing        (altered / random signature bytes)
   and verifies under k over c iff it is [Sg k c].  Value decoding and hashing are finite tables
   written by the harness from independent calls of anypb.UnmarshalNew / hashProto. *)
From Coq Require Import List ZArith NArith Bool Lia PeanoNat.
From Charon Require Import Flow.WireMsg Flow.WireMsgFacts.
Import ListNotations.

Definition ccontent := content N.

Inductive csig := Sg (k : N) (c : ccontent) | SgBad (n : N).

Definition odutyv_eqb (a b : option dutyv) : bool :=
  match a, b with
  | Some x, Some y => duty_eqb x y
  | None, None => true
  | _, _ => false
  end.

Definition hfield_eqb (a b : hfield) : bool := Nat.eqb (fst a) (fst b) && N.eqb (snd a) (snd b).

Definition content_eqb (a b : ccontent) : bool :=
  Z.eqb (c_type a) (c_type b) && odutyv_eqb (c_duty a) (c_duty b) && Z.eqb (c_peer a) (c_peer b) &&
  Z.eqb (c_round a) (c_round b) && hfield_eqb (c_vhash a) (c_vhash b) && Z.eqb (c_pr a) (c_pr b) &&
  hfield_eqb (c_pvhash a) (c_pvhash b) && N.eqb (c_extra a) (c_extra b).

Definition cverify (k : N) (d : ccontent) (s : csig) : bool :=
  match s with
  | Sg k' c => N.eqb k k' && content_eqb c d
  | SgBad _ => false
  end.

Definition cpart := part csig N.
Definition cvalue := value N N.
Definition cwire := wire csig N N N.
Definition cenv := env N.
Definition clabel := label N csig N N N.
Definition cstate := state csig N N N.

(* Tables: (type URL, value bytes) -> canonical bytes of the decoded inner message (absent or None:
   UnmarshalNew / hashProto fails); canonical bytes -> hash. *)
Definition dtab := list (N * N * option N).
Definition htab := list (N * N).

Fixpoint dlook (t : dtab) (tu b : N) : option N :=
  match t with
  | [] => None
  | (tu', b', r) :: rest => if N.eqb tu' tu && N.eqb b' b then r else dlook rest tu b
  end.

Fixpoint hlook (t : htab) (c : N) : N :=
  match t with
  | [] => 0%N
  | (c', h) :: rest => if N.eqb c' c then h else hlook rest c
  end.

Section Tables.
  Variable dt : dtab.
  Variable ht : htab.

  Definition cid (c : ccontent) : ccontent := c.
  Definition cdecode := dlook dt.
  Definition cHv := hlook ht.

  Definition c_handle := handle cid cid cverify cdecode cHv.
  Definition c_decide := decide cid cid cverify cdecode cHv.
  Definition c_step := step cid cid cverify cdecode cHv.
  Definition c_run := run cid cid cverify cdecode cHv.
  Definition c_first_violation := first_violation cid cid cverify cdecode cHv.
  Definition c_spec_ok := spec_ok cid cid cverify cdecode cHv.

  (* Index of the first label the model does not accept, with what the model computes there. *)
  Fixpoint c_first_reject (st : cstate) (ls : list clabel) (i : nat) : option (nat * result * bool * snapshot) :=
    match ls with
    | [] => None
    | l :: r =>
      match c_step st l with
      | Some st' => c_first_reject st' r (S i)
      | None =>
        match l with
        | LHandle id e req _ _ _ => let '(res, dl, st') := c_handle e st id req in Some (i, res, dl, snap st')
        | _ => Some (i, Accept, false, snap st)
        end
      end
    end.
End Tables.

(* ---------------------------------------------------------------------------------------------- *)
(* Environment descriptions rendered by the harness *)

Inductive gdesc :=
| GAll                                         (* func(core.Duty) bool { return true } *)
| GDeny (ds : list dutyv)                      (* scripted: refuses exactly these duties *)
| GReal (cur_epoch spe allowed : N).           (* core.NewDutyGater: valid type and duty epoch <= current epoch + allowed *)

Definition gater_of (g : gdesc) (d : dutyv) : bool :=
  match g with
  | GAll => true
  | GDeny ds => negb (existsb (duty_eqb d) ds)
  | GReal cur spe allowed =>
    dutytype_valid (snd d) && (N.div (fst d) spe <=? cur + allowed)%N
  end.

Definition dl_of (tab : list (dutyv * status)) (d : dutyv) : status :=
  match find (fun x => duty_eqb (fst x) d) tab with
  | Some x => snd x
  | None => Scheduled
  end.

(* The REAL deadliner (core.NewDeadliner over core.NewDutyDeadlineFunc) read mathematically, over Z without
   wrap-around: times in nanoseconds since genesis; exit (4) and builder registration (6) never expire;
   deadline = slot start + per-type duration + slotDuration/12; Add refuses a duty whose deadline is not
   after now.  (The Go code computes slotDuration * slot in int64 nanoseconds, which wraps for slots beyond
   ~2^63/slotDuration; no such slot passes the duty gater, which is consulted first.) *)
Definition dl_real (now sd spe : Z) (d : dutyv) : status :=
  let t := snd d in
  if ((t =? 4) || (t =? 6))%Z then Exempt else
  let dur := (if (t =? 1) || (t =? 7) then sd / 3
              else if (t =? 2) || (t =? 9) then spe * sd
              else if (t =? 8) || (t =? 11) then 2 * spe * sd
              else sd)%Z in
  if (sd * Z.of_N (fst d) + dur + sd / 12 <=? now)%Z then Expired else Scheduled.

(* ctx.Err() is non-nil from the k-th poll on *)
Definition ctx_of (k : option nat) (i : nat) : bool :=
  match k with Some k => Nat.leb k i | None => false end.

Definition mkenv_real (keys : list N) (g : gdesc) (now sd spe : Z) (k : option nat) : cenv :=
  {| e_keys := keys; e_gater := gater_of g; e_deadline := dl_real now sd spe; e_ctx := ctx_of k |}.

Definition mkenv (keys : list N) (g : gdesc) (dl : list (dutyv * status)) (k : option nat) : cenv :=
  {| e_keys := keys; e_gater := gater_of g; e_deadline := dl_of dl; e_ctx := ctx_of k |}.

(* Short constructors for the generated case files *)
Definition C (ty : Z) (d : option dutyv) (peer round : Z) (vh : hfield) (pr : Z) (pvh : hfield) (ex : N) : ccontent :=
  {| c_type := ty; c_duty := d; c_peer := peer; c_round := round; c_vhash := vh; c_pr := pr; c_pvhash := pvh; c_extra := ex |}.
Definition P (c : ccontent) (s : option csig) : cpart := {| p_c := c; p_sig := s |}.
Definition W (m : option cpart) (js : list (option cpart)) (vs : list (option cvalue)) : cwire :=
  {| w_msg := m; w_just := js; w_values := vs |}.

Definition Hf (l : nat) (v : N) : hfield := (l, v).
Definition D (s : N) (t : Z) : dutyv := (s, t).
Definition V (tu b : N) : option cvalue := Some (tu, b).
Definition DT (tu b : N) (r : option N) : N * N * option N := (tu, b, r).
Definition HT (c h : N) : N * N := (c, h).
Definition LH (id : N) (e : cenv) (req : option cwire) (res : result) (dl : bool) (after : snapshot) : clabel :=
  LHandle id e req res dl after.
Definition LDr (d : dutyv) (ids : list N) : clabel := LDrain N csig N N N d ids.
Definition LDe (d : dutyv) : clabel := LDelete N csig N N N d.

(* Go's Valid() tables against the model's *)
Definition valid_tables_ok (msg_tab duty_tab : list (Z * bool)) : bool :=
  forallb (fun x => Bool.eqb (msgtype_valid (fst x)) (snd x)) msg_tab &&
  forallb (fun x => Bool.eqb (dutytype_valid (fst x)) (snd x)) duty_tab.

(* ---------------------------------------------------------------------------------------------- *)
(* Non-vacuity: a PRE-PREPARE of round 2 justified by three ROUND-CHANGEs (one of them prepared,
   with its PREPARE) carrying two values is accepted; a second message fills nothing; a tampered
   copy is rejected and changes nothing. *)

Module Ex.
  Definition dt : dtab := [(1, 100, Some 100); (1, 200, Some 200); (9, 100, Some 100)]%N.
  Definition ht : htab := [(100, 7001); (200, 7002)]%N.
  Definition d0 : dutyv := (5%N, 2%Z).
  Definition h1 : hfield := (32, 7001%N).
  Definition h2 : hfield := (32, 7002%N).
  Definition hz : hfield := (32, 0%N).
  Definition sgn (k : N) (c : ccontent) : cpart := P c (Some (Sg k c)).
  Definition rc1 := sgn 11 (C 4 (Some d0) 1 2 hz 0 hz 0).
  Definition rc2 := sgn 12 (C 4 (Some d0) 2 2 hz 1 h2 0).
  Definition rc3 := sgn 13 (C 4 (Some d0) 3 2 hz 0 hz 0).
  Definition pp2 := sgn 12 (C 2 (Some d0) 2 1 h2 0 hz 0).
  Definition main := sgn 10 (C 1 (Some d0) 0 2 h2 0 hz 0).
  Definition good : cwire := W (Some main) [Some rc1; Some rc2; Some rc3; Some pp2] [Some (1, 200); Some (1, 100)]%N.
  Definition e0 : cenv := mkenv [10; 11; 12; 13]%N GAll [] None.
  (* the round of the second justification raised by one, signature kept *)
  Definition rc2' : cpart := P (C 4 (Some d0) 2 3 hz 1 h2 0) (p_sig rc2).
  Definition bad : cwire := W (Some main) [Some rc1; Some rc2'; Some rc3; Some pp2] (w_values good).
  Definition trace : list clabel :=
    [ LH 0 e0 (Some good) Accept true [(d0, [0]%N)];
      LH 1 e0 (Some bad) (Reject (RJust PSig)) false [(d0, [0]%N)];
      LH 2 (mkenv [10; 11; 12; 13]%N GAll [(d0, Expired)] None) (Some good) (Reject RDeadline) true [(d0, [0]%N)];
      LH 3 e0 (Some good) Accept true [(d0, [0; 3]%N)];
      LDr d0 [0]%N;
      LH 4 e0 None (Reject (RMain PInvalid)) false [(d0, [3]%N)];
      LDe d0;
      LH 5 (mkenv [10; 11; 12; 13]%N GAll [] (Some 2)) (Some good) (Reject RCtxJust) false [] ].

  Lemma trace_accepted : exists s, c_run dt ht [] trace = Some s.
  Proof. vm_compute. eexists; reflexivity. Qed.
End Ex.

(* ---------------------------------------------------------------------------------------------- *)
(* Finding F11.  The value hash is  Hv (decode tu b): it does not cover the type URL.  In the real
   code several registered types decode any byte string b and re-serialise it to the same bytes
   (google.protobuf.Empty and every message type keep unknown fields; the agreed bytes parsed as
   another message type with compatible fields re-serialise identically), so (tu, b) and (tu', b)
   have the same hash.  The tables below are that situation: type 1 = the proposed type
   (UnsignedDataSet), type 9 = google.protobuf.Empty. *)

Module F11.
  Import Ex.
  Definition commit := sgn 11 (C 3 (Some d0) 1 1 h1 0 hz 0).
  Definition proposed : cvalue := (1%N, 100%N).
  Definition retyped : cvalue := (9%N, 100%N).
  Definition w_good : cwire := W (Some commit) [] [Some proposed].
  Definition w_bad : cwire := W (Some commit) [] [Some retyped].

  Definition accepted (w : cwire) : option (qmsg csig N N N) :=
    match c_handle dt ht e0 [] 0 (Some w) with
    | (Accept, _, st) => match buf0 st d0 with q :: _ => Some q | [] => None end
    | _ => None
    end.

  (* A subscriber registered for one proto type (Consensus.Subscribe type-asserts) is called only
     with a value of that type. *)
  Definition sub_calls (want : N) (del : option (N * N)) : nat :=
    match del with Some (tu, _) => if N.eqb tu want then 1 else 0 | None => 0 end.

  Definition deliveries (w : cwire) : option nat :=
    match accepted w with
    | Some q => Some (sub_calls 1 (delivered (cdecode dt) q 7001))
    | None => None
    end.

  Definition cache_after (ws : list cwire) : vmap N N :=
    fold_left (fun c w => match accepted w with Some q => set_values c q | None => c end) ws [].

  (* The claim that would have to hold for "altering the type URL of a referenced value gets the
     message rejected" (the type-URL analogue of value_bytes_tamper_rejected). *)
  Definition typeurl_tamper_claim : Prop :=
    forall (e : cenv) (st : cstate) id (w : cwire) i tu tu' b,
      nth_error (w_values w) i = Some (Some (tu, b)) -> tu <> tu' ->
      (exists dl st', c_handle dt ht e st id (Some w) = (Accept, dl, st')) ->
      length (w_values w) = 1 ->
      exists r dl st',
        c_handle dt ht e st id (Some (W (w_msg w) (w_just w) [Some (tu', b)])) = (Reject r, dl, st').

  Lemma typeurl_tamper_refuted :
    ~ typeurl_tamper_claim /\
    (* both messages are accepted ... *)
    deliveries w_good = Some 1 /\
    (* ... but Decide with the re-typed one first in qcommit calls the typed subscriber zero times *)
    deliveries w_bad = Some 0 /\
    (* and a transport that had cached the good value serves the re-typed one afterwards *)
    vlookup (cache_after [w_good; w_bad]) 7001 = Some retyped.
  Proof.
    split; [|vm_compute; auto].
    intros Cl.
    destruct (Cl e0 [] 0%N w_good 0 1%N 9%N 100%N eq_refl) as (r & dl & st' & X).
    - discriminate.
    - vm_compute. eexists; eexists; reflexivity.
    - reflexivity.
    - vm_compute in X. discriminate.
  Qed.
End F11.
