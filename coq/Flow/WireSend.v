(* Sending side of the consensus wrapper: core/consensus/qbft/transport.go
     transport.Broadcast -> getValue* -> createMsg -> signMsg -> loop-back + broadcaster.Broadcast
     transport.ProcessReceives (setValues, then hand the buffered message to qbft.Run unchanged)
   as a small labelled transition system on top of the vocabulary of Flow/WireMsg.v.

   State of one transport (= one consensus instance of one node):
     s_key    the node's private key (symbolic: the key id)
     s_cache  t.values : value hash -> Any           (newest binding first; a later binding for the same
                                                      hash replaces an earlier one, as in the Go map)
     s_log    GHOST: every content this transport has signed, oldest first.  signMsg is called only from
              createMsg, createMsg only from transport.Broadcast (checked on the source on every run by
              props/c05_bridge.py), so this log is everything the node's key signs for this instance.
   Labels:
     SBcast a newv obs   qbft.Run called the Broadcast callback with arguments [a] (type, duty, peer index,
                         round, value hash, prepared round, prepared value hash, justification messages);
                         [newv] = the (hash, Any) pair that getValue drained from the value channel during
                         this call (None: nothing drained); [obs] = the wire message handed to the
                         broadcaster and looped back to the own receive buffer, or None if Broadcast
                         returned an error ("unknown value": a needed hash is not in the cache) -- then
                         nothing is signed and nothing is sent.
     SRecv q             ProcessReceives took q from the outer buffer: maps.Copy(t.values, q.values)
                         (bindings of q REPLACE cached ones -- the overwrite finding F11 exploits), then q
                         goes to qbft.Run unchanged.
   What Broadcast computes ([do_bcast]):
     needed hashes = value hash, prepared value hash, then Value()/PreparedValue() of every justification
                     message, zero hashes skipped, each hash once;
     values        = the cache binding of every needed hash (all must be present);
     main part     = the arguments, ValueHash/PreparedValueHash always 32 bytes, no other field, signed with
                     the node's key over the hash of the deterministic serialisation;
     justification = the protos of the justification messages, IN THE ORDER GIVEN (createMsg appends
                     impl.Msg() in a loop; nested justifications are dropped);
     Values        = the values, in Go map order (compared as a set by the correspondence check). *)
From Coq Require Import List ZArith NArith Bool Lia PeanoNat.
From Charon Require Import Flow.WireMsg.
Import ListNotations.
Set Implicit Arguments.

Section Send.
  Variables key sigT ebytes digest typeurl vbytes cbytes extra : Type.
  Variable encode : content extra -> ebytes.
  Variable H : ebytes -> digest.
  Variable sign : key -> digest -> sigT.
  Variable extra0 : extra.            (* "no other field": what c_extra is for a freshly built QBFTMsg *)

  Notation part := (part sigT extra).
  Notation wire := (wire sigT typeurl vbytes extra).
  Notation value := (value typeurl vbytes).
  Notation vmap := (vmap typeurl vbytes).
  Notation qmsg := (qmsg sigT typeurl vbytes extra).

  (* arguments of the Broadcast callback *)
  Record bargs := {
    a_type : Z; a_duty : dutyv; a_peer : Z; a_round : Z;
    a_vh : N;            (* [32]byte as a number, 0 = the zero hash *)
    a_pr : Z; a_pvh : N;
    a_just : list part;  (* Msg.Msg() of each justification message *)
  }.

  Definition content_of (a : bargs) : content extra :=
    {| c_type := a_type a; c_duty := Some (a_duty a); c_peer := a_peer a; c_round := a_round a;
       c_vhash := (32, a_vh a); c_pr := a_pr a; c_pvhash := (32, a_pvh a); c_extra := extra0 |}.

  (* Msg.Value() / Msg.PreparedValue(): the field as a hash, or the zero hash *)
  Definition hash_of (f : hfield) : N := match to_hash32 f with Some h => h | None => 0%N end.

  Fixpoint memN (x : N) (l : list N) : bool :=
    match l with [] => false | y :: r => N.eqb y x || memN x r end.

  Fixpoint dedupN (l : list N) (seen : list N) : list N :=
    match l with
    | [] => []
    | x :: r => if N.eqb x 0 || memN x seen then dedupN r seen else x :: dedupN r (x :: seen)
    end.

  Definition needed (a : bargs) : list N :=
    dedupN (a_vh a :: a_pvh a ::
            flat_map (fun j : part => [hash_of (c_vhash (p_c j)); hash_of (c_pvhash (p_c j))]) (a_just a)) [].

  Fixpoint lookup_all (m : vmap) (hs : list N) : option vmap :=
    match hs with
    | [] => Some []
    | h :: r => match vlookup m h, lookup_all m r with
                | Some v, Some l => Some ((h, v) :: l)
                | _, _ => None
                end
    end.

  Record sstate := { s_key : key; s_cache : vmap; s_log : list (content extra) }.

  Definition sinit (k : key) : sstate := {| s_key := k; s_cache := []; s_log := [] |}.

  Definition signed_part (k : key) (c : content extra) : part :=
    {| p_c := c; p_sig := Some (sign k (H (encode c))) |}.

  (* the wire message built from the arguments and the looked-up values *)
  Definition wire_of (k : key) (a : bargs) (vals : vmap) : wire :=
    {| w_msg := Some (signed_part k (content_of a));
       w_just := map (@Some _) (a_just a);
       w_values := map (fun hv => Some (snd hv)) vals |}.

  Definition drain (newv : option (N * value)) (m : vmap) : vmap :=
    match newv with Some hv => hv :: m | None => m end.

  (* transport.Broadcast: new state and, on success, the message sent (with its values map) *)
  Definition do_bcast (st : sstate) (a : bargs) (newv : option (N * value)) : sstate * option (wire * vmap) :=
    let cache := drain newv (s_cache st) in
    match lookup_all cache (needed a) with
    | Some vals =>
      ({| s_key := s_key st; s_cache := cache; s_log := s_log st ++ [content_of a] |},
       Some (wire_of (s_key st) a vals, vals))
    | None => ({| s_key := s_key st; s_cache := cache; s_log := s_log st |}, None)
    end.

  (* transport.ProcessReceives on one message *)
  Definition do_recv (st : sstate) (q : qmsg) : sstate :=
    {| s_key := s_key st; s_cache := q_vm q ++ s_cache st; s_log := s_log st |}.

  Inductive slabel :=
  | SBcast (a : bargs) (newv : option (N * value)) (obs : option wire)
  | SRecv (q : qmsg).

  (* [weq expected observed]: equality up to the order of Values (instantiated by the concrete check) *)
  Variable weq : wire -> wire -> bool.

  Definition sstep (st : sstate) (l : slabel) : option sstate :=
    match l with
    | SBcast a newv obs =>
      (* getValue is only called if some hash is needed: otherwise the value channel is not read *)
      if (match needed a, newv with [], Some _ => false | _, _ => true end) then
        match do_bcast st a newv, obs with
        | (st', Some (w, _)), Some o => if weq w o then Some st' else None
        | (st', None), None => Some st'
        | _, _ => None
        end
      else None
    | SRecv q => Some (do_recv st q)
    end.

  Fixpoint srun (st : sstate) (ls : list slabel) : option sstate :=
    match ls with
    | [] => Some st
    | l :: r => match sstep st l with Some st' => srun st' r | None => None end
    end.

  Fixpoint sfirst_reject (st : sstate) (ls : list slabel) (i : nat) : option nat :=
    match ls with
    | [] => None
    | l :: r => match sstep st l with Some st' => sfirst_reject st' r (S i) | None => Some i end
    end.

  (* -------------------------------------------------------------------------------------------- *)
  (* Facts *)

  Lemma sstep_key : forall st l st', sstep st l = Some st' -> s_key st' = s_key st.
  Proof.
    intros st l st'. destruct l as [a newv obs|q]; simpl.
    - destruct (match needed a, newv with [] , Some _ => false | _, _ => true end); [|discriminate].
      unfold do_bcast. destruct (lookup_all (drain newv (s_cache st)) (needed a)); destruct obs; try discriminate.
      + destruct (weq _ _); [|discriminate]. intros X; inversion X; reflexivity.
      + intros X; inversion X; reflexivity.
    - intros X; inversion X; reflexivity.
  Qed.

  (* one step extends the ghost log by at most the content of a SUCCESSFUL Broadcast *)
  Lemma sstep_log : forall st l st', sstep st l = Some st' ->
    s_log st' = s_log st \/
    exists a newv w, l = SBcast a newv (Some w) /\ s_log st' = s_log st ++ [content_of a].
  Proof.
    intros st l st'. destruct l as [a newv obs|q]; simpl.
    - destruct (match needed a, newv with [] , Some _ => false | _, _ => true end); [|discriminate].
      unfold do_bcast. destruct (lookup_all (drain newv (s_cache st)) (needed a)); destruct obs; try discriminate.
      + destruct (weq _ _); [|discriminate]. intros X; inversion X; subst. right. exists a, newv, w. auto.
      + intros X; inversion X; subst. left; reflexivity.
    - intros X; inversion X; subst. left; reflexivity.
  Qed.

  (* sign_only_in_broadcast: everything the transport ever signed is the content built from the
     arguments of some successful Broadcast call of its qbft.Run. *)
  Theorem sign_only_in_broadcast : forall ls st st',
    srun st ls = Some st' ->
    forall c, In c (s_log st') ->
    In c (s_log st) \/ exists a newv w, In (SBcast a newv (Some w)) ls /\ c = content_of a.
  Proof.
    induction ls as [|l r IH]; intros st st' X c Hc; simpl in X.
    - inversion X; subst. left; assumption.
    - destruct (sstep st l) as [st1|] eqn:E; [|discriminate].
      destruct (IH _ _ X c Hc) as [Hin|(a & nv & w & Hin & ->)].
      + destruct (sstep_log _ _ E) as [Eq|(a & nv & w & -> & Eq)]; rewrite Eq in Hin.
        * left; assumption.
        * apply in_app_or in Hin. destruct Hin as [Hin|[<-|[]]]; [left; assumption|].
          right. exists a, nv, w. split; [left; reflexivity|reflexivity].
      + right. exists a, nv, w. split; [right; assumption|reflexivity].
  Qed.

  Corollary sign_only_in_broadcast_init : forall k ls st,
    srun (sinit k) ls = Some st ->
    forall c, In c (s_log st) -> exists a newv w, In (SBcast a newv (Some w)) ls /\ c = content_of a.
  Proof.
    intros k ls st X c Hc. destruct (sign_only_in_broadcast _ _ X c Hc) as [[]|Y]; exact Y.
  Qed.

  (* a successful Broadcast attaches a value for every needed hash, taken from the cache *)
  Lemma lookup_all_spec : forall (m : vmap) hs vals, lookup_all m hs = Some vals ->
    map fst vals = hs /\ forall h v, In (h, v) vals -> vlookup m h = Some v.
  Proof.
    intros m hs; induction hs as [|h r IH]; intros vals X; simpl in X.
    - inversion X; subst. split; [reflexivity|intros ? ? []].
    - destruct (vlookup m h) as [v|] eqn:E; [|discriminate].
      destruct (lookup_all m r) as [l|]; [|discriminate]. inversion X; subst.
      destruct (IH l eq_refl) as [A B]. split; [simpl; rewrite A; reflexivity|].
      intros h' v' [Eq|Hin]; [inversion Eq; subst; assumption|apply B; assumption].
  Qed.

  Theorem bcast_values_from_cache : forall st a newv st' w vals,
    do_bcast st a newv = (st', Some (w, vals)) ->
    w = wire_of (s_key st) a vals /\ map fst vals = needed a /\
    (forall h v, In (h, v) vals -> vlookup (drain newv (s_cache st)) h = Some v) /\
    s_log st' = s_log st ++ [content_of a].
  Proof.
    intros st a newv st' w vals. unfold do_bcast.
    destruct (lookup_all (drain newv (s_cache st)) (needed a)) as [l|] eqn:E; [|discriminate].
    intros X; inversion X; subst. destruct (lookup_all_spec _ _ E) as [A B]. auto.
  Qed.

  (* the failing case signs and sends nothing *)
  Theorem bcast_error_signs_nothing : forall st a newv st',
    do_bcast st a newv = (st', None) -> s_log st' = s_log st.
  Proof.
    intros st a newv st'. unfold do_bcast.
    destruct (lookup_all (drain newv (s_cache st)) (needed a)); [discriminate|].
    intros X; inversion X; reflexivity.
  Qed.

  (* ProcessReceives hands the message on unchanged and never signs *)
  Theorem recv_signs_nothing : forall st q, s_log (do_recv st q) = s_log st.
  Proof. reflexivity. Qed.
End Send.
