(* Decision procedure over the data that translator/appwire regenerates from app/app.go
   (func wireCoreWorkflow) into gen/AppWiring.v: how the components handed to core.Wire are
   constructed.  The C01 cluster theorems (Flow/Pipeline.v, Flow/PipelineBridge.v) assume
     - ONE threshold t, shared by every node's partial-signature store and its aggregator;
     - an aggregator that verifies the combined signature under the group key before it publishes;
     - peer partials verified against the public share of the claimed share index (and gated by duty)
       before they reach the store.
   In the code these are facts about wireCoreWorkflow's constructor calls:
     parsigdb.NewMemDB(lock.Threshold, ...)          sigagg.New(lock.Threshold, sigagg.NewVerifier(eth2Cl))
     parsigex.NewParSigEx(..., verifyFunc, gaterFunc) with verifyFunc := parsigex.NewEth2Verifier(eth2Cl, allPubSharesByKey)
                                                       and  gaterFunc  := core.NewDutyGater(ctx, eth2Cl)
   An expression is compared as printed Go source: anything else in these positions (a wrapper
   closure around the verifier, another threshold expression, however equivalent it may look) fails
   the obligation, which is the intended reading of "a rewrite we can not interpret".
   The translator itself refuses: several / no core.Wire calls, a Wire argument that is not a local
   variable, a variable reaching core.Wire that is assigned inside a function literal or whose
   address is taken, a reassigned parameter, an assignment to a field of a parameter (lock.Threshold). *)
From Coq Require Import List String Bool.
Import ListNotations.
Local Open Scope string_scope.

Inductive rhs := RCall (f : string) (args : list string) | RExpr (e : string).
Record vdef := mkDef { d_var : string; d_rhs : list rhs }.
Record hook := mkHook { h_var : string; h_method : string; h_args : list string; h_guard : string }.
(* a call / assignment site with the stack of enclosing conditions, outermost first ("C" in the body of
   `if C`, "!(C)" in its else branch, "loop", "switch", "func literal") *)
Record site := mkSite { s_what : string; s_args : list string; s_conds : list string }.

Fixpoint slist_eqb (a b : list string) : bool :=
  match a, b with
  | [], [] => true
  | x :: r, y :: s => String.eqb x y && slist_eqb r s
  | _, _ => false
  end.

Definition mem_str (x : string) (l : list string) : bool := existsb (String.eqb x) l.

Fixpoint lookup (v : string) (ds : list vdef) : list rhs :=
  match ds with
  | [] => []
  | d :: r => if String.eqb (d_var d) v then d_rhs d else lookup v r
  end.

(* the calls a variable is assigned from; any other right-hand side must be a bare declaration *)
Definition calls_of (rs : list rhs) : list (string * list string) :=
  flat_map (fun r => match r with RCall f a => [(f, a)] | RExpr _ => [] end) rs.
Definition only_decls (rs : list rhs) : bool :=
  forallb (fun r => match r with RCall _ _ => true | RExpr e => String.prefix "var " e end) rs.

Definition call_eqb (c : string * list string) (f : string) (args : list string) : bool :=
  String.eqb (fst c) f && slist_eqb (snd c) args.

(* exactly one constructor call [f], whose leading arguments are [pre] *)
Definition built_by (ds : list vdef) (v f : string) (pre : list string) : bool :=
  only_decls (lookup v ds) &&
  match calls_of (lookup v ds) with
  | [(g, a)] => String.eqb g f && slist_eqb (firstn (List.length pre) a) pre && Nat.leb (List.length pre) (List.length a)
  | _ => false
  end.
Definition built_exactly (ds : list vdef) (v f : string) (args : list string) : bool :=
  only_decls (lookup v ds) &&
  match calls_of (lookup v ds) with [c] => call_eqb c f args | _ => false end.

Definition threshold_expr : string := "lock.Threshold".

Definition threshold_check (ds : list vdef) : bool :=
  built_by ds "parSigDB" "parsigdb.NewMemDB" [threshold_expr]
  && built_exactly ds "sigAgg" "sigagg.New" [threshold_expr; "sigagg.NewVerifier(eth2Cl)"].

Definition parsigex_check (ds : list vdef) : bool :=
  only_decls (lookup "parSigEx" ds) &&
  match calls_of (lookup "parSigEx" ds) with
  | [t; c] => call_eqb t "conf.TestConfig.ParSigExFunc" []      (* the transport hook of the integration tests *)
              && call_eqb c "parsigex.NewParSigEx" ["p2pNode"; "sender.SendAsync"; "nodeIdx.PeerIdx"; "peerIDs"; "verifyFunc"; "gaterFunc"]
  | _ => false
  end
  && built_exactly ds "verifyFunc" "parsigex.NewEth2Verifier" ["eth2Cl"; "allPubSharesByKey"]
  && built_exactly ds "gaterFunc" "core.NewDutyGater" ["ctx"; "eth2Cl"].

Definition stores_check (ds : list vdef) : bool :=
  built_by ds "dutyDB" "dutydb.NewMemDB" []
  && only_decls (lookup "aggSigDB" ds)
  && negb (match calls_of (lookup "aggSigDB" ds) with [] => true | _ => false end)
  && forallb (fun c => (String.eqb (fst c) "aggsigdb.NewMemDBV2" || String.eqb (fst c) "aggsigdb.NewMemDB")
                       && Nat.eqb (List.length (snd c)) 1) (calls_of (lookup "aggSigDB" ds))
  && built_exactly ds "broadcaster" "bcast.New" ["ctx"; "submissionEth2Cl"]
  && built_by ds "vapi" "validatorapi.NewComponent" ["eth2Cl"; "allPubSharesByKey"; "nodeIdx.ShareIdx"].

Definition consensus_check (ds : list vdef) : bool :=
  built_exactly ds "coreConsensus" "consensusController.CurrentConsensus" []
  && built_by ds "consensusController" "consensus.NewConsensusController"
       ["ctx"; "eth2Cl"; "p2pNode"; "sender"; "peers"; "p2pKey"; "deadlineFunc"; "gaterFunc"]
  && built_exactly ds "peers" "lock.Peers" [].

Definition wire_check (args opts : list string) : bool :=
  slist_eqb args ["sched"; "fetch"; "coreConsensus"; "dutyDB"; "vapi"; "parSigDB"; "parSigEx"; "sigAgg"; "aggSigDB"; "broadcaster"]
  && slist_eqb opts ["core.WithTracing()"; "core.WithTracking(track, inclusion)"; "core.WithAsyncRetry(retryer)"].

Definition params_check (ps : list string) : bool :=
  forallb (fun p => mem_str p ps) ["ctx"; "lock"; "nodeIdx"; "p2pNode"; "eth2Cl"; "submissionEth2Cl"; "peerIDs"; "sender"].

(* Subscribe*/Register* calls on the components of the signing path outside core.Wire: only the
   broadcast callback of the integration tests, behind its nil check *)
Definition protected : list string := ["coreConsensus"; "dutyDB"; "parSigDB"; "parSigEx"; "sigAgg"; "aggSigDB"; "broadcaster"].
Definition hook_ok (h : hook) : bool :=
  negb (mem_str (h_var h) protected)
  || (String.eqb (h_var h) "sigAgg" && String.eqb (h_method h) "Subscribe"
      && slist_eqb (h_args h) ["conf.TestConfig.BroadcastCallback"]
      && String.eqb (h_guard h) "conf.TestConfig.BroadcastCallback != nil").

Definition app_wiring_check (ps args opts : list string) (ds : list vdef) (hs : list hook) : bool :=
  params_check ps && wire_check args opts && threshold_check ds && parsigex_check ds && stores_check ds
  && consensus_check ds && forallb hook_ok hs.

(* ---------------------------------------------------------------------------------------------
   C20: chain-reorg / head event subscriptions of wireCoreWorkflow.  The duties cache must be
   invalidated on every reorg whenever it exists: dutiesCache.InvalidateCache is subscribed under
   EXACTLY the condition under which the cache is created and installed into the clients (one
   condition, no further feature flag); the scheduler and fetcher subscriptions are as recorded. *)
Definition site_eqb (a b : site) : bool :=
  String.eqb (s_what a) (s_what b) && slist_eqb (s_args a) (s_args b) && slist_eqb (s_conds a) (s_conds b).
Fixpoint sites_eqb (a b : list site) : bool :=
  match a, b with
  | [], [] => true
  | x :: r, y :: s => site_eqb x y && sites_eqb r s
  | _, _ => false
  end.

Definition cache_cond : string := "!featureset.Enabled(featureset.DisableDutiesCache)".

Definition expected_sse : list site := [
  mkSite "SubscribeChainReorgEvent" ["sched.HandleChainReorgEvent"] [];
  mkSite "SubscribeHeadEvent" ["sched.HandleHeadEvent"] [];
  mkSite "SubscribeChainReorgEvent" ["dutiesCache.InvalidateCache"] [cache_cond];
  mkSite "SubscribeChainReorgEvent" ["fetch.HandleChainReorg"]
         ["featureset.Enabled(featureset.FetchAttOnBlock) || featureset.Enabled(featureset.FetchAttOnBlockWithDelay)"] ].

Definition is_site (what : string) (s : site) : bool := String.eqb (s_what s) what.
Definition is_setcache (s : site) : bool := String.prefix "call " (s_what s).

Definition reorg_subs_check (sse cache : list site) : bool :=
  sites_eqb sse expected_sse
  && match filter (fun s => slist_eqb (s_args s) ["dutiesCache.InvalidateCache"]) sse,
           filter (is_site "assign dutiesCache") cache with
     | [inv], [mk] =>
         String.eqb (s_what inv) "SubscribeChainReorgEvent"
         && match s_conds mk with [_] => true | _ => false end            (* one condition creates the cache *)
         && slist_eqb (s_conds inv) (s_conds mk)                           (* invalidation subscribed under exactly it *)
         && negb (match filter is_setcache cache with [] => true | _ => false end)
         && forallb (fun s => slist_eqb (s_conds s) (s_conds mk)) (filter is_setcache cache)   (* and installed under it *)
     | _, _ => false
     end.

(* ---------------------------------------------------------------------------------------------
   C19: the beacon-node clients.  newETH2Client builds the query client and the submission client
   (the one handed to bcast.New) with configureEth2Client; BOTH must get the configured fallbacks as
   fallbacks and the configured beacon nodes as primaries, each its own timeout; configureEth2Client
   forwards them to eth2wrap.NewMultiHTTP in NewMultiHTTP's (different) parameter order. *)
Fixpoint pos_of (x : string) (l : list string) : option nat :=
  match l with
  | [] => None
  | y :: r => if String.eqb x y then Some 0 else option_map S (pos_of x r)
  end.
Definition arg_at (params args : list string) (p : string) : string :=
  match pos_of p params with Some i => nth i args "<missing>" | None => "<no such parameter>" end.

Definition expected_client_sites : list site := [
  mkSite "fb <- eth2wrap.NewSimnetFallbacks" ["bnTimeout"; "[4]byte(forkVersion)"; "beaconNodeHeaders"; "conf.FallbackBeaconNodeAddrs"] ["conf.SimnetBMockFuzz"];
  mkSite "fb <- eth2wrap.NewSimnetFallbacks" ["bnTimeout"; "[4]byte(forkVersion)"; "beaconNodeHeaders"; "conf.FallbackBeaconNodeAddrs"] ["conf.SimnetBMock"];
  mkSite "eth2Cl <- configureEth2Client"
         ["ctx"; "forkVersion"; "conf.FallbackBeaconNodeAddrs"; "conf.BeaconNodeAddrs"; "beaconNodeHeaders"; "bnTimeout"; "conf.SyntheticBlockProposals"] [];
  mkSite "submissionEth2Cl <- configureEth2Client"
         ["ctx"; "forkVersion"; "conf.FallbackBeaconNodeAddrs"; "conf.BeaconNodeAddrs"; "beaconNodeHeaders"; "submissionBnTimeout"; "conf.SyntheticBlockProposals"] [] ].

Definition configure_call_ok (cparams : list string) (timeout : string) (s : site) : bool :=
  String.eqb (arg_at cparams (s_args s) "fallbackAddrs") "conf.FallbackBeaconNodeAddrs"
  && String.eqb (arg_at cparams (s_args s) "addrs") "conf.BeaconNodeAddrs"
  && String.eqb (arg_at cparams (s_args s) "timeout") timeout
  && Nat.eqb (List.length (s_args s)) (List.length cparams)
  && match s_conds s with [] => true | _ => false end.

Definition eth2_clients_check (nparams : list string) (callers clients : list site) (assigned cparams : list string)
  (csites : list site) (mparams : list string) (mbody : string) : bool :=
  slist_eqb nparams ["ctx"; "conf"; "life"; "lock"; "forkVersion"; "bnTimeout"; "submissionBnTimeout"]
  && sites_eqb callers [mkSite "Run" ["ctx"; "conf"; "life"; "lock"; "lock.ForkVersion"; "conf.BeaconNodeTimeout"; "conf.BeaconNodeSubmitTimeout"] []]
  && sites_eqb clients expected_client_sites
  && match filter (is_site "eth2Cl <- configureEth2Client") clients,
           filter (is_site "submissionEth2Cl <- configureEth2Client") clients with
     | [q], [sub] => configure_call_ok cparams "bnTimeout" q && configure_call_ok cparams "submissionBnTimeout" sub
     | _, _ => false
     end
  && slist_eqb assigned ["conf.SimnetSlotDuration"]      (* the only field of conf that newETH2Client overwrites *)
  && match csites with
     | [m] => String.eqb (s_what m) "eth2wrap.NewMultiHTTP"
              && String.eqb (arg_at mparams (s_args m) "addrs") "addrs"
              && String.eqb (arg_at mparams (s_args m) "fallbackAddrs") "fallbackAddrs"
              && String.eqb (arg_at mparams (s_args m) "timeout") "timeout"
              && Nat.eqb (List.length (s_args m)) (List.length mparams)
     | _ => false
     end
  && String.eqb mbody "Instrument(newClients(timeout, forkVersion, headers, addrs), newClients(timeout, forkVersion, headers, fallbackAddrs))".

(* ---------------------------------------------------------------------------------------------
   C10 / C01: the public-share maps handed to validatorapi.NewComponent and parsigex.NewEth2Verifier.
   allPubSharesByKey[validator] = allPubShares with allPubShares[i+1] = PubShares[i] for the entries of
   val.PubShares and NOTHING else: share indices are 1..n, in particular no entry 0 (the group key) --
   a partial "signature" with an out-of-range share index has no public share to verify under and is
   refused before it reaches the store. *)
Definition expected_pubshares : list site := [
  mkSite "range" ["vi"; "val"; "lock.Validators"] [];
  mkSite "assign corePubkey" ["core.PubKeyFromBytes(val.PubKey)"] ["loop"];
  mkSite "assign allPubShares" ["make(map[int]tbls.PublicKey)"] ["loop"];
  mkSite "range" ["i"; "b"; "val.PubShares"] ["loop"];
  mkSite "assign pubshare" ["tblsconv.PubkeyFromBytes(b)"] ["loop"; "loop"];
  mkSite "allPubShares[i+1]" ["pubshare"] ["loop"; "loop"];
  mkSite "allPubSharesByKey[corePubkey]" ["allPubShares"] ["loop"];
  mkSite "declare allPubSharesByKey" ["make(map[core.PubKey]map[int]tbls.PublicKey)"] [] ].
Definition pubshares_check (ss : list site) : bool := sites_eqb ss expected_pubshares.

(* Sanity of the checker: it accepts the shape above and rejects the rewrites it is there for. *)
Definition good_defs : list vdef := [
  mkDef "parSigDB" [RCall "parsigdb.NewMemDB" ["lock.Threshold"; "d"; "m"]];
  mkDef "sigAgg" [RCall "sigagg.New" ["lock.Threshold"; "sigagg.NewVerifier(eth2Cl)"]] ].

Example threshold_accepts : threshold_check good_defs = true.
Proof. vm_compute. reflexivity. Qed.

(* another threshold expression for the store *)
Example threshold_rejects_other_expr :
  threshold_check [mkDef "parSigDB" [RCall "parsigdb.NewMemDB" ["sigThreshold"; "d"; "m"]];
                   mkDef "sigAgg" [RCall "sigagg.New" ["lock.Threshold"; "sigagg.NewVerifier(eth2Cl)"]]] = false.
Proof. vm_compute. reflexivity. Qed.

(* a wrapper around the aggregator's verifier *)
Example threshold_rejects_wrapped_verifier :
  threshold_check [mkDef "parSigDB" [RCall "parsigdb.NewMemDB" ["lock.Threshold"; "d"; "m"]];
                   mkDef "sigAgg" [RCall "sigagg.New" ["lock.Threshold"; "func(ctx context.Context, pubkey core.PubKey, data core.SignedData) error { return nil }"]]] = false.
Proof. vm_compute. reflexivity. Qed.

(* the component assigned a second time *)
Example threshold_rejects_reassignment :
  threshold_check (mkDef "sigAgg" [RCall "sigagg.New" ["lock.Threshold"; "sigagg.NewVerifier(eth2Cl)"]; RCall "other.New" []] :: good_defs) = false.
Proof. vm_compute. reflexivity. Qed.

Example hook_rejects_extra_subscriber :
  hook_ok (mkHook "sigAgg" "Subscribe" ["leak"] "") = false /\ hook_ok (mkHook "parSigDB" "SubscribeThreshold" ["x"] "") = false.
Proof. split; vm_compute; reflexivity. Qed.

(* the invalidation moved under a further feature flag *)
Example reorg_rejects_extra_flag :
  reorg_subs_check
    [mkSite "SubscribeChainReorgEvent" ["sched.HandleChainReorgEvent"] [];
     mkSite "SubscribeHeadEvent" ["sched.HandleHeadEvent"] [];
     mkSite "SubscribeChainReorgEvent" ["dutiesCache.InvalidateCache"] [cache_cond; "featureset.Enabled(featureset.SSEReorgDuties)"];
     mkSite "SubscribeChainReorgEvent" ["fetch.HandleChainReorg"]
            ["featureset.Enabled(featureset.FetchAttOnBlock) || featureset.Enabled(featureset.FetchAttOnBlockWithDelay)"]]
    [mkSite "assign dutiesCache" ["eth2wrap.NewDutiesCache(eth2Cl, []eth2p0.ValidatorIndex{})"] [cache_cond];
     mkSite "call eth2Cl.SetDutiesCache" [] [cache_cond]] = false.
Proof. vm_compute. reflexivity. Qed.

Example reorg_accepts_clean :
  reorg_subs_check expected_sse
    [mkSite "assign dutiesCache" ["eth2wrap.NewDutiesCache(eth2Cl, []eth2p0.ValidatorIndex{})"] [cache_cond];
     mkSite "call eth2Cl.SetDutiesCache" [] [cache_cond]] = true.
Proof. vm_compute. reflexivity. Qed.

(* the submission client given the primaries as its fallbacks *)
Example clients_rejects_swapped_fallbacks :
  configure_call_ok ["ctx"; "forkVersion"; "fallbackAddrs"; "addrs"; "headers"; "timeout"; "syntheticBlockProposals"] "submissionBnTimeout"
    (mkSite "submissionEth2Cl <- configureEth2Client"
       ["ctx"; "forkVersion"; "conf.BeaconNodeAddrs"; "conf.BeaconNodeAddrs"; "beaconNodeHeaders"; "submissionBnTimeout"; "conf.SyntheticBlockProposals"] []) = false.
Proof. vm_compute. reflexivity. Qed.
