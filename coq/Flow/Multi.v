(* Model of app/eth2wrap/eth2wrap.go  provide / submit  (with app/forkjoin/forkjoin.go as it is used
   there: WithoutFailFast, one worker per client) and of the fallback decision
   isTimeoutError || isSyncingError || isBadGateway.

   A call is described by its configured nodes (primaries, fallbacks), each with an outcome and a
   latency, the completion order inside each group (the order in which the results reach the join
   loop: an oracle, constrained only to be non-decreasing in latency) and the instant at which the
   caller's context is cancelled (if ever).  The model is a pure function of these; what an
   observer sees (result, completion time, which nodes were called, which were cancelled and when)
   is computed by [model] and compared with the real multi client on every check ([accepts]).

   runForkJoin, as read from the Go:
     for res := range join() {            // results in completion order
       if ctx.Err() != nil  -> return ctx.Err()
       if res.Err == nil && isSuccess(res.Output) -> return res.Output    (defer cancel(): the rest is cancelled)
       nokResp = res                      // the LAST completing non-success is kept
     }                                    // loop ends only when every node has completed
     if ctx.Err() != nil -> ctx.Err();  if no result at all -> "bug: no forkjoin results"
     return nokResp.Output, nokResp.Err   // Err may be nil when isSuccess rejected the answer ([Soft])
   provide:
     out, err := runForkJoin(primaries)
     if err != nil && len(fallbacks) != 0 && (isTimeout err || isSyncing err || isBadGateway err)
        -> return runForkJoin(fallbacks)
     return out, err

   A node call may ignore cancellation of its context ([deaf], e.g. stuck in a dial / DNS lookup / TLS
   handshake): it returns at its own latency whatever happens.  provide abandons such calls (the
   deferred cancel() of the fork-join does not wait for the workers), so they delay neither another
   node's successful answer nor -- as long as some awaited node does honour its context -- the
   caller's cancellation.  When ONLY deaf calls are awaited at the instant of cancellation the join
   loop notices the cancellation with the next result, i.e. when the next deaf call returns.

   Not modelled: the HTTP stack; metrics and the best-node selector (its counter is used by the
   harness only as an observation of the winner). *)
From Coq Require Import List NArith Bool Arith Lia.
Import ListNotations.
Local Open Scope N_scope.

(* ---- error classes ---- *)

Inductive eclass := Timeout | Syncing | Gateway | Other.

(* The fallback test of provide: isTimeoutError || isSyncingError || isBadGateway. *)
Definition unavail (c : eclass) : bool := match c with Other => false | _ => true end.

(* Constructed Go errors used to compare the classification with the code (harness/multi reps). *)
Inductive ekind :=
| KDeadline        (* wraps context.DeadlineExceeded *)
| KHttpTimeoutMsg  (* message contains "http request timeout" *)
| KNotActiveMsg    (* message contains "client is not active" *)
| KSyncingMsg      (* message contains "syncing" *)
| KHeadNotVerified (* message contains "HeadBlockNotFullyVerified" *)
| KApi (code : N)  (* *eth2api.Error with that status code *)
| KApiSyncingBody  (* *eth2api.Error 500 whose body says "... is syncing" *)
| KConnRefused     (* *net.OpError wrapping syscall.ECONNREFUSED *)
| KErrno (unreach : bool) (* bare syscall.Errno: ECONNRESET (true) / EPIPE (false) *)
| KNetTimeout      (* a net.Error with Timeout() = true, message "i/o timeout" *)
| KAbortHandler    (* http.ErrAbortHandler *)
| KCanceled        (* wraps context.Canceled (node-local) *)
| KPlain           (* errors.New("boom") *)
| KRefusedText.    (* plain text "connection refused", no errno *)

Definition kind_class (k : ekind) : eclass :=
  match k with
  | KDeadline | KHttpTimeoutMsg | KNotActiveMsg => Timeout
  | KSyncingMsg | KHeadNotVerified | KApiSyncingBody => Syncing
  | KApi c => if (c =? 502) || (c =? 503) || (c =? 504) then Gateway else Other
  | KConnRefused | KNetTimeout | KAbortHandler => Gateway
  | KErrno _ => Gateway      (* syscall.Errno implements net.Error, so every errno counts *)
  | KCanceled | KPlain | KRefusedText => Other
  end.

(* ---- nodes ---- *)

Inductive outcome :=
| Success (a : N)   (* answers a without error (and the success predicate, if any, accepts a) *)
| Soft (a : N)      (* answers a without error but the success predicate rejects it (NodeSyncing, AggregateAttestation only) *)
| Err (c : eclass)
| Hang.             (* never completes by itself; returns when its context is cancelled *)

Record node := mkn { out : outcome; delay : N; deaf : bool }.   (* deaf: the call ignores its context *)
Definition hung : node := mkn Hang 0 false.
Definition get (l : list node) (i : nat) : node := nth i l hung.

Definition is_hang (o : outcome) : bool := match o with Hang => true | _ => false end.
Definition is_succ (o : outcome) : bool := match o with Success _ => true | _ => false end.
Definition failed (o : outcome) : bool := match o with Err _ | Soft _ => true | _ => false end.
Definition has_hang (l : list node) : bool := existsb (fun n => is_hang (out n)) l.
(* the call returns as soon as its context is cancelled (a Hang node does by definition) *)
Definition hears (n : node) : bool := negb (deaf n) || is_hang (out n).
Definition is_nil {A} (l : list A) : bool := match l with [] => true | _ => false end.

(* ctx.Err() != nil at instant t, when the context is cancelled at tc. *)
Definition cancelled (tc : option N) (t : N) : bool :=
  match tc with Some c => c <=? t | None => false end.

(* ---- one fork-join over a group of nodes started at instant [base] ---- *)

Inductive gres :=
| GOk (i : nat) (a : N)   (* first success in completion order *)
| GLast (i : nat)         (* every node completed, none succeeded: the last completing one is kept *)
| GBug                    (* no node at all *)
| GBlocked                (* waits for a hung node forever *)
| GCancelled (t : N).     (* ctx.Err(), noticed at instant t *)

(* Some node still awaited (the remaining completions [rest], or a hung node) returns when cancelled. *)
Definition hearer (l : list node) (rest : list nat) : bool :=
  existsb (fun j => hears (get l j)) rest || has_hang l.

(* Instant at which the loop, blocked since before the cancellation at tc, receives its next result;
   t = instant of the next completion by itself.  A context that is dead before the group starts
   means no node is called at all (the workers skip the work). *)
Definition notice (l : list node) (base : N) (tc : option N) (rest : list nat) (t : N) : N :=
  match tc with
  | Some c => if c <=? base then base else if hearer l rest then c else t
  | None => t
  end.

Fixpoint scan (l : list node) (base : N) (tc : option N) (order : list nat) (last : option nat) (now : N) : gres :=
  match order with
  | [] =>
      if has_hang l then match tc with Some c => GCancelled (N.max c base) | None => GBlocked end
      else if cancelled tc now then GCancelled now
      else match last with None => GBug | Some i => GLast i end
  | i :: r =>
      let t := base + delay (get l i) in
      if cancelled tc t then GCancelled (notice l base tc (i :: r) t)
      else match out (get l i) with
           | Success a => GOk i a
           | _ => scan l base tc r (Some i) t
           end
  end.

Definition run_group (l : list node) (base : N) (tc : option N) (order : list nat) : gres :=
  scan l base tc order None base.

(* instant at which the group's loop returns *)
Definition gtime (l : list node) (base : N) (g : gres) : option N :=
  match g with
  | GOk i _ | GLast i => Some (base + delay (get l i))
  | GBug => Some base
  | GCancelled t => Some t
  | GBlocked => None
  end.

(* ---- provide ---- *)

Inductive nref := P (i : nat) | F (j : nat).

Inductive result :=
| ROk (n : nref) (a : N)       (* (a, nil): the successful answer of node n *)
| RSoft (n : nref) (a : N)     (* (a, nil): the rejected answer of the last completing node n *)
| RErr (n : nref) (c : eclass) (* the error of node n *)
| RBug                         (* "bug: no forkjoin results" *)
| RCtx                         (* ctx.Err() *)
| RBlocked.                    (* does not return *)

Definition lift (w : nat -> nref) (l : list node) (g : gres) : result :=
  match g with
  | GOk i a => ROk (w i) a
  | GLast i => match out (get l i) with
               | Soft a => RSoft (w i) a
               | Err c => RErr (w i) c
               | Success a => ROk (w i) a    (* unreachable *)
               | Hang => RBlocked             (* unreachable *)
               end
  | GBug => RBug
  | GBlocked => RBlocked
  | GCancelled _ => RCtx
  end.

(* err != nil && len(fallbacks) != 0 && (isTimeoutError err || isSyncingError err || isBadGateway err).
   "bug: no forkjoin results" matches none of the three.  When the primaries' loop returned
   ctx.Err() = DeadlineExceeded the Go test is true and runForkJoin(fallbacks) is entered with a dead
   context: no fallback node is called and ctx.Err() is returned again, which is observably the same
   as not consulting them; the model says "not consulted". *)
Definition consult (prim fb : list node) (g : gres) : bool :=
  match g with
  | GLast i => match out (get prim i) with Err c => unavail c && negb (is_nil fb) | _ => false end
  | _ => false
  end.

Definition gbase (prim : list node) (g : gres) : N :=
  match g with GLast i => delay (get prim i) | _ => 0 end.

Definition provide (prim fb : list node) (pord ford : list nat) (tc : option N) : result :=
  let g := run_group prim 0 tc pord in
  if consult prim fb g then lift F fb (run_group fb (gbase prim g) tc ford)
  else lift P prim g.

Definition consulted (prim fb : list node) (pord : list nat) (tc : option N) : bool :=
  consult prim fb (run_group prim 0 tc pord).

Definition finish_time (prim fb : list node) (pord ford : list nat) (tc : option N) : option N :=
  let g := run_group prim 0 tc pord in
  if consult prim fb g then gtime fb (gbase prim g) (run_group fb (gbase prim g) tc ford)
  else gtime prim 0 g.

(* ---- submit: provide over work functions that return no value, success predicate nil ---- *)

Inductive soutcome := SOk | SErr (c : eclass) | SHang.
Definition inj (n : soutcome * N) : node :=
  mkn (match fst n with SOk => Success 0 | SErr c => Err c | SHang => Hang end) (snd n) false.
Inductive sresult := SROk (n : nref) | SRErr (n : nref) (c : eclass) | SRBug | SRCtx | SRBlocked.
Definition erase (r : result) : sresult :=
  match r with
  | ROk n _ | RSoft n _ => SROk n
  | RErr n c => SRErr n c
  | RBug => SRBug | RCtx => SRCtx | RBlocked => SRBlocked
  end.
Definition submit (prim fb : list (soutcome * N)) (pord ford : list nat) (tc : option N) : sresult :=
  erase (provide (map inj prim) (map inj fb) pord ford tc).

(* ---- what an observer of the nodes sees ---- *)

Inductive nstat :=
| NotCalled
| Done (t : N)        (* completed by itself at t *)
| Cancelled (t : N)   (* saw its context cancelled at t *)
| Pending.            (* called, still running when the observation was taken (blocked call, or a deaf call) *)

Definition expect_stat (started : bool) (base : N) (T : option N) (n : node) : nstat :=
  if negb started then NotCalled
  else let t := base + delay n in
       match T with
       | None => if is_hang (out n) then Pending else Done t
       | Some T => if negb (is_hang (out n)) && (t <=? T) then Done t
                   else if hears n then Cancelled T else Pending
       end.

Record mobs := mkm { m_res : result; m_time : option N; m_sp : list nstat; m_sf : list nstat }.

Definition model (prim fb : list node) (pord ford : list nat) (tc : option N) : mobs :=
  let g := run_group prim 0 tc pord in
  let tp := gtime prim 0 g in
  let sp := map (expect_stat (negb (cancelled tc 0)) 0 tp) prim in
  if consult prim fb g then
    let b := gbase prim g in
    let gf := run_group fb b tc ford in
    let tf := gtime fb b gf in
    mkm (lift F fb gf) tf sp (map (expect_stat true b tf) fb)
  else mkm (lift P prim g) tp sp (map (fun _ => NotCalled) fb).

(* ---- labels (one per observed call) and their acceptance by the model ---- *)

Inductive style := Plain | Pred | Submit | Proxy.   (* success predicate nil / non-nil / submit / multi.Proxy *)

Record case := mkc {
  c_style : style;
  c_prim : list node; c_fb : list node;
  c_pord : list nat; c_ford : list nat;      (* completion orders *)
  c_tc : option N;                           (* instant of cancellation of the caller's context *)
  o_res : result; o_time : option N;         (* observed result and instant of return *)
  o_sp : list nstat; o_sf : list nstat }.    (* observed per-node status *)

Definition eclass_eqb (a b : eclass) : bool :=
  match a, b with Timeout, Timeout | Syncing, Syncing | Gateway, Gateway | Other, Other => true | _, _ => false end.
Definition outcome_eqb (a b : outcome) : bool :=
  match a, b with
  | Success x, Success y | Soft x, Soft y => x =? y
  | Err x, Err y => eclass_eqb x y
  | Hang, Hang => true
  | _, _ => false
  end.
Definition nref_eqb (a b : nref) : bool :=
  match a, b with P i, P j | F i, F j => Nat.eqb i j | _, _ => false end.
Definition result_eqb (a b : result) : bool :=
  match a, b with
  | ROk n x, ROk m y | RSoft n x, RSoft m y => nref_eqb n m && (x =? y)
  | RErr n x, RErr m y => nref_eqb n m && eclass_eqb x y
  | RBug, RBug | RCtx, RCtx | RBlocked, RBlocked => true
  | _, _ => false
  end.
Definition optN_eqb (a b : option N) : bool :=
  match a, b with Some x, Some y => x =? y | None, None => true | _, _ => false end.
Definition nstat_eqb (a b : nstat) : bool :=
  match a, b with
  | NotCalled, NotCalled | Pending, Pending => true
  | Done x, Done y | Cancelled x, Cancelled y => x =? y
  | _, _ => false
  end.
Fixpoint list_eqb {A} (e : A -> A -> bool) (a b : list A) : bool :=
  match a, b with
  | [], [] => true
  | x :: r, y :: s => e x y && list_eqb e r s
  | _, _ => false
  end.

(* non-decreasing latency along the order *)
Fixpoint sorted (l : list node) (order : list nat) : bool :=
  match order with
  | [] => true
  | i :: r => forallb (fun j => delay (get l i) <=? delay (get l j)) r && sorted l r
  end.
Fixpoint strict (l : list node) (order : list nat) : bool :=
  match order with
  | [] => true
  | i :: r => forallb (fun j => delay (get l i) <? delay (get l j)) r && strict l r
  end.

(* the order lists exactly the nodes that complete by themselves, by non-decreasing latency *)
Definition order_ok (l : list node) (order : list nat) : bool :=
  forallb (fun i => (i <? length l)%nat && negb (is_hang (out (get l i)))) order
  && forallb (fun i => is_hang (out (get l i)) || existsb (Nat.eqb i) order) (seq 0 (length l))
  && sorted l order.

Definition no_soft (l : list node) : bool :=
  forallb (fun n => match out n with Soft _ => false | _ => true end) l.
Definition style_ok (c : case) : bool :=
  match c_style c with
  | Pred => true
  | Plain | Proxy => no_soft (c_prim c) && no_soft (c_fb c)
  | Submit => no_soft (c_prim c) && no_soft (c_fb c)
              && forallb (fun n => match out n with Success a => a =? 0 | _ => true end) (c_prim c ++ c_fb c)
  end.

(* All events of the call happen at pairwise different instants (then the per-node status is
   determined; with equal instants a timer and a cancellation race, legitimately). *)
Definition no_ties (c : case) : bool :=
  let prim := c_prim c in let fb := c_fb c in
  let b := fold_right (fun n m => if is_hang (out n) then m else N.max (delay n) m) 0 prim in
  strict prim (c_pord c) && strict fb (c_ford c)
  && match c_tc c with
     | None => true
     | Some tc => forallb (fun n => negb (delay n =? tc)) prim
                  && forallb (fun n => negb (b + delay n =? tc)) fb && negb (b =? tc)
     end.

(* which fallback nodes were started is determined even when instants coincide *)
Definition called (s : nstat) : bool := negb (nstat_eqb NotCalled s).
Definition fb_called_ok (consulted : bool) (sf : list nstat) : bool :=
  if consulted then forallb called sf else forallb (nstat_eqb NotCalled) sf.

Definition accepts (c : case) : bool :=
  let m := model (c_prim c) (c_fb c) (c_pord c) (c_ford c) (c_tc c) in
  style_ok c && order_ok (c_prim c) (c_pord c) && order_ok (c_fb c) (c_ford c)
  && result_eqb (m_res m) (o_res c) && optN_eqb (m_time m) (o_time c)
  && Nat.eqb (length (o_sp c)) (length (c_prim c)) && Nat.eqb (length (o_sf c)) (length (c_fb c))
  && fb_called_ok (consulted (c_prim c) (c_fb c) (c_pord c) (c_tc c)) (o_sf c)
  && (if no_ties c then list_eqb nstat_eqb (m_sp m) (o_sp c) && list_eqb nstat_eqb (m_sf m) (o_sf c) else true).

(* With equal instants the completion order is not determined by the latencies: the observed
   behaviour must be the model's for SOME admissible order. *)
Fixpoint inserts {A} (x : A) (l : list A) : list (list A) :=
  match l with
  | [] => [[x]]
  | y :: r => (x :: l) :: map (cons y) (inserts x r)
  end.
Fixpoint perms {A} (l : list A) : list (list A) :=
  match l with [] => [[]] | x :: r => flat_map (inserts x) (perms r) end.

Definition with_orders (c : case) (po fo : list nat) : case :=
  mkc (c_style c) (c_prim c) (c_fb c) po fo (c_tc c) (o_res c) (o_time c) (o_sp c) (o_sf c).

Definition accepts_any (c : case) : bool :=
  if accepts c then true
  else if strict (c_prim c) (c_pord c) && strict (c_fb c) (c_ford c) then false   (* the order is determined *)
  else existsb (fun po => existsb (fun fo => accepts (with_orders c po fo)) (perms (c_ford c))) (perms (c_pord c)).

(* ---- the property, read off the label alone (no run of the model) ---- *)

Fixpoint min_succ (l : list node) : option N :=
  match l with
  | [] => None
  | n :: r => if is_succ (out n)
              then Some (match min_succ r with Some m => N.min (delay n) m | None => delay n end)
              else min_succ r
  end.

Definition getn (c : case) (n : nref) : node :=
  match n with P i => get (c_prim c) i | F j => get (c_fb c) j end.

Definition fb_any_called (c : case) : bool := existsb called (o_sf c).
Definition fb_all_called (c : case) : bool := forallb called (o_sf c) && negb (is_nil (o_sf c)).

Definition err_unavail (o : outcome) : bool := match o with Err c => unavail c | _ => false end.
Definition not_unavail (o : outcome) : bool :=
  match o with Err c => negb (unavail c) | Soft _ => true | _ => false end.

(* "succeeds whenever at least one primary answers successfully, returns exactly one node's answer,
   does not wait for slower or hung nodes": if a primary succeeds (before any cancellation) the call
   returns a successful primary's own answer at the smallest latency of any successful primary. *)
Definition m_success (c : case) : bool :=
  match min_succ (c_prim c) with
  | None => true
  | Some m =>
      if cancelled (c_tc c) m then true
      else optN_eqb (o_time c) (Some m)
           && match o_res c with
              | ROk (P i) a => outcome_eqb (out (get (c_prim c) i)) (Success a) && (delay (get (c_prim c) i) =? m)
              | _ => false
              end
  end.

(* "fails only when all primaries fail" (and the internal "no results" error only without primaries) *)
Definition m_fail (c : case) : bool :=
  match o_res c with
  | RErr _ _ => forallb (fun n => failed (out n)) (c_prim c)
  | RBug => is_nil (c_prim c)
  | _ => true
  end.

(* "fallback nodes are then consulted if the failure indicates unavailability" *)
Definition m_fallback (c : case) : bool :=
  let prim := c_prim c in
  (if fb_any_called c then forallb (fun n => failed (out n)) prim && negb (is_nil prim) else true)
  && (if match c_tc c with None => true | _ => false end && negb (is_nil prim) && negb (is_nil (c_fb c))
         && forallb (fun n => err_unavail (out n)) prim
      then fb_all_called c else true)
  && (if forallb (fun n => not_unavail (out n)) prim then negb (fb_any_called c) else true).

(* "cancelling the caller's context returns promptly": not later than the cancellation, provided a
   node that is awaited at that instant honours its context (every node does; or a primary that has
   not completed by then does; or the fallbacks are running and one of them that cannot have
   completed by then does).  A call that awaits only context-ignoring nodes returns with the next of
   them; the property text cannot be met by any implementation then, the monitor is silent. *)
Definition pending_hearer (tc : N) (l : list node) : bool :=
  existsb (fun n => hears n && (is_hang (out n) || (tc <=? delay n))) l.
Definition m_cancel (c : case) : bool :=
  match c_tc c with
  | None => true
  | Some tc =>
      if forallb hears (c_prim c ++ c_fb c) || pending_hearer tc (c_prim c)
         || (fb_any_called c && pending_hearer tc (c_fb c))
      then match o_time c with Some t => t <=? tc | None => false end
      else match o_time c with Some _ => true | None => false end
  end.

(* whatever is returned is one configured node's own answer or error *)
Definition m_answer (c : case) : bool :=
  match o_res c with
  | ROk n a => outcome_eqb (out (getn c n)) (Success a)
  | RSoft n a => outcome_eqb (out (getn c n)) (Soft a)
  | RErr n e => outcome_eqb (out (getn c n)) (Err e)
  | _ => true
  end.

(* the call stays blocked only while a hung node is awaited and nobody cancels *)
Definition stuck (c : case) : bool :=
  match o_res c with RBlocked => true | _ => false end || match o_time c with None => true | _ => false end.
Definition m_blocked (c : case) : bool :=
  if stuck c
  then match c_tc c with None => has_hang (c_prim c) || has_hang (c_fb c) | Some _ => false end
  else true.

Definition monitor (c : case) : bool :=
  m_success c && m_fail c && m_fallback c && m_cancel c && m_answer c && m_blocked c.

(* Evaluation helpers for the generated case files. *)
Definition check_case (c : case) : nat :=   (* 0 = fine, 1 = monitor fails, 2 = model rejects *)
  if monitor c then (if accepts_any c then 0%nat else 2%nat) else 1%nat.

(* ---- multi.ClientForAddress: scoping a multi client to one configured node ----

   func (m multi) ClientForAddress(addr string) Client:
     addr == ""                      -> m
     first primary  cl with cl.Address() == addr -> multi{clients: [cl], fallbacks: m.fallbacks}
     first fallback cl with cl.Address() == addr -> multi{clients: [cl], fallbacks: nil}
     otherwise                       -> m
   The configured clients are lazy wrappers (newBeaconClient): lazy.Address() is "" until the
   underlying client has been created by a first call, so a configured address matches only a node
   whose client exists ([init]); all configured addresses are distinct and non-empty. *)

Inductive addr := ANone | AP (i : nat) | AF (j : nat) | AUnknown.

Definition unscoped (np nf : nat) : list nref * list nref := (map P (seq 0 np), map F (seq 0 nf)).

Definition scope (np nf : nat) (initP initF : list bool) (a : addr) : list nref * list nref :=
  match a with
  | AP i => if (i <? np)%nat && nth i initP false then ([P i], map F (seq 0 nf)) else unscoped np nf
  | AF j => if (j <? nf)%nat && nth j initF false then ([F j], []) else unscoped np nf
  | ANone | AUnknown => unscoped np nf
  end.

Definition pick (prim fb : list node) (r : nref) : node :=
  match r with P i => get prim i | F j => get fb j end.

Definition scoped_nodes (prim fb : list node) (s : list nref * list nref) : list node * list node :=
  (map (pick prim fb) (fst s), map (pick prim fb) (snd s)).

(* A label of a call made through ClientForAddress(a): the inner case is over ALL configured nodes
   (observed result named by configured node, observed status of every configured node). *)
Record scase := mks { s_addr : addr; s_initP : list bool; s_initF : list bool; s_case : case }.

Fixpoint pos (r : nref) (l : list nref) : option nat :=
  match l with
  | [] => None
  | x :: t => if nref_eqb x r then Some 0%nat else option_map S (pos r t)
  end.

Definition retag (sp sf : list nref) (r : nref) : nref :=
  match pos r sp with
  | Some k => P k
  | None => match pos r sf with Some k => F k | None => P (length sp) (* not a node of the scoped client *) end
  end.

Definition retag_res (sp sf : list nref) (r : result) : result :=
  match r with
  | ROk n a => ROk (retag sp sf n) a
  | RSoft n a => RSoft (retag sp sf n) a
  | RErr n e => RErr (retag sp sf n) e
  | r => r
  end.

Definition stat_of (c : case) (r : nref) : nstat :=
  match r with P i => nth i (o_sp c) NotCalled | F j => nth j (o_sf c) NotCalled end.

(* the completing nodes by latency (evaluation only; [accepts] re-checks admissibility) *)
Fixpoint insert_by (l : list node) (i : nat) (o : list nat) : list nat :=
  match o with
  | [] => [i]
  | j :: r => if delay (get l i) <=? delay (get l j) then i :: o else j :: insert_by l i r
  end.
Definition canon_order (l : list node) : list nat :=
  fold_right (insert_by l) [] (filter (fun i => negb (is_hang (out (get l i)))) (seq 0 (length l))).

(* the label of the same call, seen as a call of the scoped client *)
Definition scoped_case (sc : scase) : case :=
  let c := s_case sc in
  let s := scope (length (c_prim c)) (length (c_fb c)) (s_initP sc) (s_initF sc) (s_addr sc) in
  let ns := scoped_nodes (c_prim c) (c_fb c) s in
  mkc (c_style c) (fst ns) (snd ns) (canon_order (fst ns)) (canon_order (snd ns)) (c_tc c)
      (retag_res (fst s) (snd s) (o_res c)) (o_time c)
      (map (stat_of c) (fst s)) (map (stat_of c) (snd s)).

Definition in_scope (s : list nref * list nref) (r : nref) : bool :=
  existsb (nref_eqb r) (fst s) || existsb (nref_eqb r) (snd s).

(* nodes that are not part of the scoped client are not called *)
Definition outside_untouched (sc : scase) : bool :=
  let c := s_case sc in
  let s := scope (length (c_prim c)) (length (c_fb c)) (s_initP sc) (s_initF sc) (s_addr sc) in
  forallb (fun r => in_scope s r || nstat_eqb NotCalled (stat_of c r))
          (map P (seq 0 (length (c_prim c))) ++ map F (seq 0 (length (c_fb c)))).

Definition check_scoped (sc : scase) : nat :=   (* 0 = fine, 1 = monitor fails, 2 = model rejects *)
  let c' := scoped_case sc in
  if monitor c' then (if accepts_any c' && outside_untouched sc then 0%nat else 2%nat) else 1%nat.

(* ---- lazily created node clients (app/eth2wrap/lazy.go) ----

   The production constructor wraps every node in a lazy client: the first call that needs the
   node runs provider(ctx) -- with the CALL's context -- to create the underlying client, caches it,
   and then makes the call.  Seen from provide, such a node is a node whose call takes
   provider latency + call latency and which returns as soon as its context is cancelled also while
   the provider runs; a provider that fails makes the node fail with that error (the client stays
   uncreated).  Once the client exists the wrapper is transparent. *)

Inductive prov :=
| PNone | PCreated            (* not wrapped / client already exists *)
| PDelay (d : N)              (* provider returns the client after d (0 = immediately), honouring its context *)
| PFail (c : eclass) (d : N). (* provider fails with an error of class c after d *)

Definition lazy_node (p : prov) (n : node) : node :=
  match p with
  | PNone | PCreated => n
  | PDelay d => mkn (out n) (d + delay n) (deaf n)
  | PFail c d => mkn (Err c) d false
  end.

Fixpoint lazy_nodes (ps : list prov) (l : list node) : list node :=
  match ps, l with
  | p :: ps', n :: l' => lazy_node p n :: lazy_nodes ps' l'
  | _, _ => l
  end.

Record lcase := mkl { l_pp : list prov; l_pf : list prov; l_case : case }.

Definition lazy_case (lc : lcase) : case :=
  let c := l_case lc in
  let prim := lazy_nodes (l_pp lc) (c_prim c) in
  let fb := lazy_nodes (l_pf lc) (c_fb c) in
  mkc (c_style c) prim fb (canon_order prim) (canon_order fb) (c_tc c) (o_res c) (o_time c) (o_sp c) (o_sf c).

Definition check_lazy (lc : lcase) : nat := check_case (lazy_case lc).
