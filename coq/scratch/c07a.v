From Coq Require Import List Arith Bool.
From Charon Require Import Stores.ParSigDB.
Import ListNotations.
Definition d : duty := (5, 2).
Definition e (pk sh r : nat) := EGood pk 0 (P sh r (100*r+sh)).
(* t=3: shares 1,2,3 on root 7 then 4 on root 8 *)
Definition one c en := [ABegin c false d Scheduled [en]; AEntry c en].
Definition tr_a := one 1 (e 0 1 7) ++ [AEnd 1 ENone None false] ++ one 2 (e 0 2 7) ++ [AEnd 2 ENone None false]
  ++ one 3 (e 0 3 7) ++ [AEnd 3 ENone (Some [(0,0,[P 1 7 701; P 2 7 702; P 3 7 703])]) false]
  ++ one 4 (e 0 4 8) ++ [AEnd 4 ENone (Some [(0,0,[P 1 7 701; P 2 7 702; P 3 7 703])]) false].
Compute (first_reject 3 true false (init) tr_a 0, first_reject 3 false false init tr_a 0, first_violation 3 (ginit) tr_a 0).
Definition tr_ok := one 1 (e 0 1 7) ++ [AEnd 1 ENone None false] ++ one 2 (e 0 2 7) ++ [AEnd 2 ENone None false]
  ++ one 3 (e 0 3 7) ++ [AEnd 3 ENone (Some [(0,0,[P 1 7 701; P 2 7 702; P 3 7 703])]) false]
  ++ one 4 (e 0 4 8) ++ [AEnd 4 ENone None false] ++ one 5 (e 0 3 7) ++ [AEnd 5 ENone None false]
  ++ one 6 (EGood 0 0 (P 3 8 999)) ++ [AEnd 6 EMismatch None false].
Compute (first_reject 3 false false init tr_ok 0, first_violation 3 ginit tr_ok 0, status_ok tr_ok, no_evict 3 tr_ok).
(* F1b t=2 *)
Definition tr_b := [ABegin 1 false d Scheduled [e 0 1 7; e 1 2 7]; AEntry 1 (e 0 1 7); AEntry 1 (e 1 2 7); AEnd 1 ENone None false;
  ABegin 2 false d Scheduled [e 0 2 7; EGood 1 0 (P 2 9 555)]; AEntry 2 (e 0 2 7); AEntry 2 (EGood 1 0 (P 2 9 555)); AEnd 2 EMismatch None false].
Compute (first_reject 2 true false init tr_b 0, first_reject 2 false false init tr_b 0, first_violation 2 ginit tr_b 0).
(* eviction refire t=2: exit duty type 4 *)
Definition dx (s : nat) : duty := (s, 4).
Definition ex (c slot sh : nat) (out : option outmap) := [ABegin c false (dx slot) Exempt [EGood 0 0 (P sh 7 (sh))]; AEntry c (EGood 0 0 (P sh 7 sh)); AEnd c ENone out false].
Definition tr_e := ex 1 0 1 None ++ ex 2 0 2 (Some [(0,0,[P 1 7 1; P 2 7 2])])
  ++ flat_map (fun i => ex (2+i) i 2 None) (seq 1 10)
  ++ ex 20 0 2 (Some [(0,0,[P 1 7 1; P 2 7 2])]).
Compute (first_reject 2 false true init tr_e 0, first_reject 2 false false init tr_e 0, first_violation 2 ginit tr_e 0, status_ok tr_e, no_evict 2 tr_e, length tr_e).
