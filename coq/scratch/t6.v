From Coq Require Import ZArith.
From mathcomp Require Import all_ssreflect all_algebra finfield.
From mathcomp Require Import zify ssrZ.
Import GRing.Theory.
Check expf_card. Check card_Fp. Check char_Fp. Check val_Fp_nat. Check charf0. Check horner_cons. Check size_Poly. Check coef_Poly.
Check Z_of_intK. Check rmorph_nat. Check natz. Check Fp_cast.
Goal forall (p: nat) (m : Z), Z.of_nat p = m -> (2 < m)%Z -> Pos.to_nat (Z.to_pos (m - 2)) = (p - 2)%N.
Proof. move=> p m; lia. Qed.
