From Coq Require Import List NArith Arith Bool Lia.
From Charon Require Import Common.Quorum Qbft.Model Qbft.ModelFacts.
Import ListNotations.

Ltac destr_hyp H :=
  repeat match type of H with
  | context[match ?x with _ => _ end] => destruct x eqn:?; try discriminate H
  end.

Ltac inv_eqs :=
  repeat match goal with
  | E : Some _ = Some _ |- _ => inversion E; subst; clear E
  | E : (_, _) = (_, _) |- _ => inversion E; subst; clear E
  end.

Ltac crush_fstep H :=
  unfold fstep in H; destr_hyp H;
  repeat match goal with
  | E : apply_rule _ _ _ _ _ _ = Some _ |- _ => unfold apply_rule in E; destr_hyp E
  | E : timeout_body _ _ _ = Some _ |- _ => unfold timeout_body in E; destr_hyp E
  | E : change_round _ _ _ = (_, _) |- _ => unfold change_round in E; destr_hyp E
  end;
  inv_eqs.

Definition decides_of (outs : list output) : list (N * nat * list bmsg) :=
  flat_map (fun o => match o with Decide v r qc => [(v, r, qc)] | _ => [] end) outs.

Lemma t : forall p s e o s' outs, fstep p s e o = Some (s', outs) ->
  (decided s = true -> decides_of outs = [] /\ qcommit s' = qcommit s).
Proof.
  intros p s e o s' outs H Hd. destruct e; crush_fstep H; simpl; try (split; reflexivity); try congruence.
  all: idtac "remaining".
  all: try (rewrite Hd in *; discriminate).
  Show.
Abort.
