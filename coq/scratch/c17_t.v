From Coq Require Import List NArith Bool.
From Charon Require Import Stores.AggSigDB Stores.AggSigDBv1 Stores.AggSigDBv2 .
Import ListNotations.
Definition kA : key := (40%N, 1%N).
Definition kB : key := (40%N, 2%N).
Definition f3b_trace : list label2 :=
  [LStore 40 [(kB, 5%N)] WOk; LAwait 1 kA; LLookup 1 None; LQuiet2; LWake 1; LLookup 1 None; LQuiet2;
   LStore 40 [(kA, 7%N); (kB, 6%N)] WMismatch; LQuiet2].
Eval vm_compute in first_reject2 true init2 f3b_trace 0.
Eval vm_compute in first_violation2 f3b_trace.
