From Coq Require Import List NArith Arith Bool Lia.
From Charon Require Import Common.Quorum Qbft.Model Qbft.Monitor Qbft.ModelFacts Qbft.Inv.
Import ListNotations.
Record linv (p : params) (s : state) (log : list bmsg) : Prop := mklinv {
  l_src : forall b, In b log -> src b = self p;
  l_round1 : decided s = false -> 1 <= round s;
  l_prep : forall b, In b log -> ty b = Prepare -> decided s = false ->
           rnd b < round s \/ (rnd b = round s /\ is_dup s JustPrePrepare (rnd b) = true);
  l_prep_uniq : forall b b', In b log -> In b' log -> ty b = Prepare -> ty b' = Prepare -> rnd b = rnd b' -> val b = val b';
  l_commit : forall b, In b log -> ty b = Commit -> decided s = false ->
           rnd b < round s \/ (rnd b = round s /\ is_dup s QPrepares (rnd b) = true);
  l_commit_uniq : forall b b', In b log -> In b' log -> ty b = Commit -> ty b' = Commit -> rnd b = rnd b' -> val b = val b';
  l_commit_lock : forall b, In b log -> ty b = Commit -> rnd b <= prepR s /\ (rnd b = prepR s -> val b = prepV s);
  l_prepR_le : decided s = false -> prepR s <= round s;
  l_rc : forall b, In b log -> ty b = RoundChange -> decided s = false -> rnd b <= round s;
  l_rc_lock : forall c b, In c log -> In b log -> ty c = Commit -> ty b = RoundChange -> rnd c < rnd b ->
              rnd c <= pr b /\ (rnd c = pr b -> val c = pv b)
}.

Lemma linv_init : forall p, linv p init [].
Proof. intro p. constructor; simpl; intros; try contradiction; try lia. Qed.

Lemma linv_effects : forall p s s' outs log, linv p s log -> effects p s s' outs -> linv p s' (log ++ bc_mains outs).
Proof.
  intros p s s' outs log [L1 L2 L3 L4 L5 L6 L7 L8 L9 L10] E.
  destruct E as [E1 [E2 [E3 [E4 [E5 [E6 [E7 [E8 [E9 [E10 E11]]]]]]]]]].
  set (B := bc_mains outs) in *.
  assert (HB : B = [] \/ exists x, B = [x]).
  { destruct B as [|x [|y B']]; [left; reflexivity | right; exists x; reflexivity | simpl in E1; lia]. }
  destruct (decided s) eqn:Hd.
  - (* already decided *)
    destruct (E3 eq_refl) as [Hd' [Hpr [Hpv [Hrd Hty]]]].
    assert (Hnp : forall b, In b B -> ty b <> Prepare /\ ty b <> Commit /\ ty b <> RoundChange).
    { intros b Hb. destruct (Hty b Hb) as [T|T]; rewrite T; repeat split; discriminate. }
    constructor; intros; try (rewrite Hd' in *; discriminate).
    + apply in_app_or in H. destruct H; auto.
    + apply in_app_or in H, H0. destruct H as [H|H]; [|destruct (Hnp b H); tauto].
      destruct H0 as [H0|H0]; [|destruct (Hnp b' H0); tauto]. eauto.
    + apply in_app_or in H, H0. destruct H as [H|H]; [|destruct (Hnp b H); tauto].
      destruct H0 as [H0|H0]; [|destruct (Hnp b' H0); tauto]. eauto.
    + apply in_app_or in H. destruct H as [H|H]; [|destruct (Hnp b H); tauto]. rewrite Hpr, Hpv. auto.
    + apply in_app_or in H, H0. destruct H as [H|H]; [|destruct (Hnp c H); tauto].
      destruct H0 as [H0|H0]; [|destruct (Hnp b H0); tauto]. eauto.
  - destruct (decided s') eqn:Hd'.
    + (* this step decides: nothing is broadcast *)
      rewrite (E10 eq_refl eq_refl) in *. rewrite app_nil_r.
      destruct E9 as [[b [Hb _]]|[Hpr Hpv]]; [contradiction|].
      constructor; intros; try congruence; eauto. all: rewrite ?Hpr, ?Hpv; auto.
    + (* ordinary step before the decision *)
      specialize (E4 eq_refl). specialize (E5 eq_refl). specialize (E11 eq_refl (L2 eq_refl)).
      specialize (L8 eq_refl).
      constructor; intros; auto.
      * apply in_app_or in H. destruct H; auto.
      * apply in_app_or in H. destruct H as [H|H].
        -- destruct (L3 b H H0 eq_refl) as [Hlt|[Heq Hdup]]; [left; lia|].
           destruct (Nat.eq_dec (round s') (round s)) as [Er|Er]; [right; split; [lia | apply E5; auto] | left; lia].
        -- destruct (E6 b H H0) as [_ [Hr [Hdup _]]]. right. auto.
      * apply in_app_or in H, H0. destruct H as [H|H]; destruct H0 as [H0|H0].
        -- eauto.
        -- exfalso. destruct (E6 b' H0 H2) as [_ [Hr [_ Hor]]].
           destruct (L3 b H H1 eq_refl) as [Hlt|[Heq Hdup]]; [lia|].
           destruct Hor as [Hor|Hor]; [lia|]. rewrite <- H3 in Hor. congruence.
        -- exfalso. destruct (E6 b H H1) as [_ [Hr [_ Hor]]].
           destruct (L3 b' H0 H2 eq_refl) as [Hlt|[Heq Hdup]]; [lia|].
           destruct Hor as [Hor|Hor]; [lia|]. rewrite H3 in Hor. congruence.
        -- destruct HB as [HB|[x HB]]; rewrite HB in *; [contradiction|].
           destruct H as [H|[]], H0 as [H0|[]]. congruence.
      * apply in_app_or in H. destruct H as [H|H].
        -- destruct (L5 b H H0 eq_refl) as [Hlt|[Heq Hdup]]; [left; lia|].
           destruct (Nat.eq_dec (round s') (round s)) as [Er|Er]; [right; split; [lia | apply E5; auto] | left; lia].
        -- destruct (E7 b H H0) as [_ [Hr [Hr' [Hdup _]]]]. right. split; [lia | assumption].
      * apply in_app_or in H, H0. destruct H as [H|H]; destruct H0 as [H0|H0].
        -- eauto.
        -- exfalso. destruct (E7 b' H0 H2) as [_ [Hr [_ [_ [Hnd _]]]]].
           destruct (L5 b H H1 eq_refl) as [Hlt|[Heq Hdup]]; [lia|]. rewrite <- H3 in Hnd. congruence.
        -- exfalso. destruct (E7 b H H1) as [_ [Hr [_ [_ [Hnd _]]]]].
           destruct (L5 b' H0 H2 eq_refl) as [Hlt|[Heq Hdup]]; [lia|]. rewrite H3 in Hnd. congruence.
        -- destruct HB as [HB|[x HB]]; rewrite HB in *; [contradiction|].
           destruct H as [H|[]], H0 as [H0|[]]. congruence.
      * apply in_app_or in H. destruct H as [H|H].
        -- destruct (L7 b H H0) as [Hle Heq].
           destruct E9 as [[c [Hc Hcty]]|[Hpr Hpv]]; [|rewrite Hpr, Hpv; auto].
           destruct (E7 c Hc Hcty) as [_ [Hr [_ [_ [Hnd [Hpr Hpv]]]]]].
           destruct (L5 b H H0 eq_refl) as [Hlt|[Heq' Hdup]].
           ++ split; [lia|]. intro. lia.
           ++ exfalso. rewrite Heq', <- Hr in Hdup. congruence.
        -- destruct (E7 b H H0) as [_ [_ [_ [_ [_ [Hpr Hpv]]]]]]. split; [lia | auto].
      * destruct E9 as [[c [Hc Hcty]]|[Hpr Hpv]]; [|lia].
        destruct (E7 c Hc Hcty) as [_ [Hr [Hr' [_ [_ [Hpr _]]]]]]. lia.
      * apply in_app_or in H. destruct H as [H|H].
        -- specialize (L9 b H H0 eq_refl). lia.
        -- destruct (E8 b H H0) as [_ [Hr _]]. lia.
      * apply in_app_or in H, H0. destruct H as [H|H]; destruct H0 as [H0|H0].
        -- eauto.
        -- destruct (E8 b H0 H2) as [_ [_ [_ [Hpr Hpv]]]]. rewrite Hpr, Hpv. apply L7; assumption.
        -- exfalso. destruct (E7 c H H1) as [_ [Hr _]]. specialize (L9 b H0 H2 eq_refl). lia.
        -- exfalso. destruct HB as [HB|[x HB]]; rewrite HB in *; [contradiction|].
           destruct H as [H|[]], H0 as [H0|[]]. congruence.
Qed.
