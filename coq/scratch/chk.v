From Charon Require Import Qbft.Agreement.
Check decided_quorum. Check byz_lt_q. Check deliv_honest_in. Check sent_prepare_nonzero.
