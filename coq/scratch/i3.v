From Coq Require Import List NArith Arith Bool Lia.
From Charon Require Import Common.Quorum Qbft.Model Qbft.Monitor Qbft.ModelFacts Qbft.Inv.
Import ListNotations.
Set Warnings "-unused-intro-pattern".

(* parts of the message an event delivers *)
Definition ev_parts (e : event) : list bmsg := match e with ERecv m _ => main m :: just m | _ => [] end.
Definition ev_cmpfail (e : event) : bool := match e with ERecv _ CmpFail => true | _ => false end.

Lemma In_skipn : forall {A} k (l : list A) x, In x (skipn k l) -> In x l.
Proof.
  intros A k. induction k as [|k IH]; intros l x H; [exact H|].
  destruct l as [|y l]; [exact H|]. right. apply IH. exact H.
Qed.

Lemma flat_msgs_In : forall ms b, In b (flat_msgs ms) <-> exists m, In m ms /\ (main m = b \/ In b (just m)).
Proof.
  intros ms b. unfold flat_msgs. rewrite in_flat_map. split; intros [m [Hm Hb]]; exists m; (split; [assumption|]); simpl in *; tauto.
Qed.

Lemma flat_msgs_lastn : forall k ms b, In b (flat_msgs (lastn k ms)) -> In b (flat_msgs ms).
Proof.
  intros k ms b H. apply flat_msgs_In in H. destruct H as [m [Hm Hb]]. apply flat_msgs_In. exists m. split; [|assumption].
  unfold lastn in Hm. eapply In_skipn. eassumption.
Qed.

Lemma flat_buffer_add : forall k buf m b, In b (flat (buffer_add k buf m)) -> In b (flat buf) \/ main m = b \/ In b (just m).
Proof.
  intros k buf m b. induction buf as [|[s0 q0] buf IH]; simpl; intro H.
  - unfold flat in H. simpl in H. rewrite app_nil_r in H. apply flat_msgs_lastn in H. simpl in H. rewrite app_nil_r in H. tauto.
  - destruct (s0 =? src (main m)).
    + unfold flat in H |- *. simpl in H |- *. apply in_app_or in H. destruct H as [H|H].
      * apply flat_msgs_lastn in H. unfold flat_msgs in H. rewrite flat_map_app in H. apply in_app_or in H.
        destruct H as [H|H]; [left; apply in_or_app; left; exact H|]. simpl in H. rewrite app_nil_r in H. tauto.
      * left. apply in_or_app. right. exact H.
    + unfold flat in H |- *. simpl in H |- *. apply in_app_or in H. destruct H as [H|H].
      * left. apply in_or_app. left. exact H.
      * destruct (IH H) as [H1|H1]; [left; apply in_or_app; right; exact H1 | right; exact H1].
Qed.

Lemma fstep_provenance : forall p s e o s' outs, fstep p s e o = Some (s', outs) ->
  (forall b, In b (flat (buffer s')) -> In b (flat (buffer s)) \/ In b (ev_parts e)) /\
  (forall b, In b (prepJ s') -> In b (prepJ s) \/ In b (flat (buffer s'))) /\
  (forall b, In b (qcommit s') -> In b (qcommit s) \/ In b (flat (buffer s')) \/ In b (ev_parts e)) /\
  (ev_cmpfail e = false -> cfr s' = cfr s).
Proof.
  intros p s e o s' outs H.
  destruct e; crush_fstep H; simpl; repeat split; st; intros; auto; try discriminate.
  all: try (match goal with Hb : In _ (flat (buffer_add _ _ _)) |- _ => apply flat_buffer_add in Hb; tauto end).
  all: try (right; apply (proj1 (dedupb_In _ _)) in H; apply filter_In in H; tauto).
  all: try (right; left; match goal with E : pick_ok _ _ _ = true |- _ => apply pick_ok_spec in E; destruct E as [_ [_ [E _]]]; apply E; assumption end).
Qed.

(* where PREPARE and COMMIT broadcasts come from *)
Lemma fstep_origins : forall p s e o s' outs, fstep p s e o = Some (s', outs) ->
  forall b, In b (bc_mains outs) ->
  (ty b = Prepare -> exists m c, e = ERecv m c /\ ty (main m) = PrePrepare /\ rnd b = rnd (main m)
                       /\ val b = val (main m) /\ justified p m (cfr s) = true) /\
  (ty b = Commit -> qn p <= nsrc (f_trv Prepare (rnd b) (val b)) (flat (buffer s'))).
Proof.
  intros p s e o s' outs H b Hb.
  destruct e; crush_fstep H; try rule_facts2; prep_facts; rewrite ?bc_mains_app in Hb; simpl in Hb; split_in; subst; simpl;
    (split; intro Hty; try discriminate Hty).
  all: st; try contradiction.
  all: try (apply negb_false_iff in Heqb2; exists m, CmpOk; auto 10; fail).
  all: rewrite <- H0; exact H1.
Qed.
