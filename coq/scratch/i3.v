From Coq Require Import List NArith Arith Bool Lia.
From Charon Require Import Common.Quorum Qbft.Model Qbft.Monitor Qbft.ModelFacts Qbft.Inv.
Import ListNotations.
Set Warnings "-unused-intro-pattern".

(* parts of the message an event delivers *)
Definition ev_parts (e : event) : list bmsg := match e with ERecv m _ => main m :: just m | _ => [] end.
Definition ev_cmpfail (e : event) : bool := match e with ERecv _ CmpFail => true | _ => false end.

Lemma flat_buffer_add : forall k buf m b, In b (flat (buffer_add k buf m)) -> In b (flat buf) \/ b = main m \/ In b (just m).
Proof.
Admitted.

Lemma fstep_provenance : forall p s e o s' outs, fstep p s e o = Some (s', outs) ->
  (forall b, In b (flat (buffer s')) -> In b (flat (buffer s)) \/ In b (ev_parts e)) /\
  (forall b, In b (prepJ s') -> In b (prepJ s) \/ In b (flat (buffer s'))) /\
  (forall b, In b (qcommit s') -> In b (qcommit s) \/ In b (flat (buffer s')) \/ In b (ev_parts e)) /\
  (ev_cmpfail e = false -> cfr s' = cfr s).
Proof.
  intros p s e o s' outs H.
  destruct e; crush_fstep H; simpl; repeat split; st; intros; auto; try discriminate.
  all: try (match goal with Hb : In _ (flat (buffer_add _ _ _)) |- _ => apply flat_buffer_add in Hb; tauto end).
  all: idtac "goal". Show 1. Show 2.
Abort.
