From Coq Require Import List NArith Arith Bool Lia.
From Charon Require Import Common.Quorum Qbft.Model Qbft.ModelFacts.
Import ListNotations.
Load "scratch/t3body.v".

Definition f_prep (s : state) : bmsg -> bool := f_trv Prepare (prepR s) (prepV s).

Record inv (p : params) (s : state) : Prop := mkinv {
  i_timer : decided s = true -> timer s = None;
  i_started : decided s = true -> started s = true;
  i_qc : decided s = true -> qn p <= nsrc (f_trv Commit (round s) (qcommitV s)) (qcommit s);
  i_prep : (prepJ s = [] /\ prepR s = 0 /\ prepV s = 0%N) \/ qn p <= nsrc (f_prep s) (prepJ s);
  i_ppj : match ppj s with
          | PNone => True
          | PEmpty => round s = 1 /\ is_leader p 1 (self p) = true
          | PQrc _ _ => is_leader p (round s) (self p) = true
          end;
  i_res : decided s = false -> resends s = []
}.

Lemma inv_init : forall p, inv p init.
Proof. intro p. constructor; simpl; auto; discriminate. Qed.

Lemma decided_nonempty : forall s, decided s = true <-> qcommit s <> [].
Proof. intro s. unfold decided. destruct (qcommit s); split; try congruence; auto. Qed.

Lemma inv_fstep : forall p s e o s' outs, 1 <= nodes p ->
  inv p s -> fstep p s e o = Some (s', outs) -> inv p s'.
Proof.
  intros p s e o s' outs Hn [I1 I2 I3 I4 I5 I6] H.
  pose proof (quorum_pos (nodes p) Hn) as Hq. fold (qn p) in Hq.
  destruct e; crush_fstep H.
  all: constructor; st; auto; try discriminate; try congruence.
  all: idtac "goal".
  all: match goal with |- ?G => idtac G end.
Abort.
