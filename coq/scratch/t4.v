From Coq Require Import List NArith Arith Bool Lia.
From Charon Require Import Common.Quorum Qbft.Model Qbft.ModelFacts.
Import ListNotations.
Load "scratch/t3body.v".

Definition f_prep0 (s : state) : bmsg -> bool := f_trv Prepare (prepR s) (prepV s).

Record inv (p : params) (s : state) : Prop := mkinv {
  i_timer : decided s = true -> timer s = None;
  i_started : decided s = true -> started s = true;
  i_qc : decided s = true -> qn p <= nsrc (f_trv Commit (round s) (qcommitV s)) (qcommit s);
  i_prep : (prepJ s = [] /\ prepR s = 0 /\ prepV s = 0%N) \/ qn p <= nsrc (f_prep s) (prepJ s);
  i_ppj : match ppj s with
          | PNone => True
          | PEmpty => round s = 1 /\ is_leader p 1 (self p) = true
          | PQrc _ _ => is_leader p (round s) (self p) = true
          end;
  i_res : decided s = false -> resends s = [];
  i_init : started s = false -> s = init
}.

Lemma inv_init : forall p, inv p init.
Proof. intro p. constructor; simpl; auto; discriminate. Qed.

Lemma decided_nonempty : forall s, decided s = true <-> qcommit s <> [].
Proof. intro s. unfold decided. destruct (qcommit s); split; try congruence; auto. Qed.

Ltac rule_facts :=
  match goal with E : existsb (rule_eqb ?rl) (rules_of ?p ?s ?m) && _ = true |- _ =>
    let Hr := fresh "Hr" in apply andb_true_iff in E; destruct E as [Hr _]; apply rules_of_inv in Hr; simpl in Hr end.
Ltac started_fact :=
  match goal with E : negb (started ?s) || dead ?s = false |- _ =>
    let Hst := fresh "Hst" in let Hdd := fresh "Hdd" in
    apply orb_false_iff in E; destruct E as [Hst Hdd]; apply negb_false_iff in Hst end.

Lemma inv_fstep : forall p s e o s' outs, 1 <= nodes p ->
  inv p s -> fstep p s e o = Some (s', outs) -> inv p s'.
Proof.
  intros p s e o s' outs Hn [I1 I2 I3 I4 I5 I6 I7] H.
  pose proof (quorum_pos (nodes p) Hn) as Hq. fold (qn p) in Hq.
  destruct e.
  - (* start *) crush_fstep H; apply orb_false_iff in Heqb; destruct Heqb as [Hst Hdd]; rewrite (I7 Hst) in *;
      constructor; simpl; auto; try discriminate.
  - crush_fstep H; constructor; st; auto; try discriminate; try congruence.
    all: try (match goal with E : ppj _ = _ |- _ => rewrite E end; auto).
    all: try (intro Hx; apply I7 in Hx; rewrite Hx in *; discriminate).
  - crush_fstep H.
    all: try rule_facts.
    all: started_fact.
    all: constructor; st; auto; try discriminate; try congruence.
    all: try (match goal with E : ppj _ = _ |- _ => rewrite E end; auto).
    all: try (intro Hx; apply I7 in Hx; rewrite Hx in *; discriminate).
    all: try (right; destruct Hr as [_ [Hr1 Hr2]]; rewrite <- Hr1; rewrite nsrc_dedupb_filter; exact Hr2).
    all: try (intros _; destruct Hr as [_ [Hr1 Hr2]]; rewrite <- ?Hr1;
              match goal with E : pick_ok _ _ _ = true |- _ => rewrite (pick_ok_nsrc _ _ _ E); exact Hr2 end).
    all: try (destruct Hr as [_ [Hr1 Hr2]]; rewrite <- Hr1; exact Hr2).
    all: try (intros _; apply negb_false_iff in Heqb1; unfold justified in Heqb1; rewrite Hr in Heqb1;
              unfold justified_decided in Heqb1; apply Nat.leb_le in Heqb1;
              try (match goal with E : (round _ =? rnd _) = true |- _ => apply Nat.eqb_eq in E; rewrite E end); exact Heqb1).
  - crush_fstep H. all: started_fact. all: constructor; st; auto; try discriminate; try congruence.
    all: intro Hd; specialize (I1 Hd); discriminate.
Qed.
