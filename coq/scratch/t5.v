From mathcomp Require Import all_ssreflect all_algebra.
From Charon Require Import Tbls.Shamir.
Check split_recover. Check recover_same_secret. Check split_recover_lmod. Check recover_linear.
Check wrong_share_iff. Check recover_image. Check iota_ids_ok.
Check verify_shares_reconstruct_sound. Check verify_shares_reconstruct_complete.
Check verify_iff. Check threshold_signature_correct. Check wrong_partial_iff.
Check wrong_share_sig_iff. Check wrong_index_iff. Check wrong_message_iff.
Print Assumptions wrong_message_iff. Print Assumptions verify_shares_reconstruct_sound.
