From Coq Require Import List.
Check map_eq_cons. Check map_eq_app. Check NoDup_filter. Check in_app_iff. Check forallb_forall. Check existsb_exists. Check filter_In. Check in_map_iff.
Check rev_ind. Check app_assoc. Check filter_app. Check forallb_app.
