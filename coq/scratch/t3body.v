Ltac destr_hyp H :=
  repeat match type of H with
  | context[match ?x with _ => _ end] => destruct x eqn:?; try discriminate H
  end.
Ltac inv_eqs :=
  repeat match goal with
  | E : Some _ = Some _ |- _ => inversion E; subst; clear E
  | E : (_, _) = (_, _) |- _ => inversion E; subst; clear E
  end.
Ltac crush_fstep H :=
  unfold fstep in H; destr_hyp H;
  repeat match goal with
  | E : apply_rule _ _ _ _ _ _ = Some _ |- _ => unfold apply_rule in E; destr_hyp E
  | E : timeout_body _ _ _ = Some _ |- _ => unfold timeout_body in E; destr_hyp E
  | E : change_round _ _ _ = (_, _) |- _ => unfold change_round in E; destr_hyp E
  end;
  inv_eqs.

(* mark only touches dedup *)
Lemma mark_round : forall s rl r, round (mark s rl r) = round s. Proof. intros; unfold mark; destruct (is_dup s rl r); reflexivity. Qed.
Lemma mark_input : forall s rl r, input (mark s rl r) = input s. Proof. intros; unfold mark; destruct (is_dup s rl r); reflexivity. Qed.
Lemma mark_ppj : forall s rl r, ppj (mark s rl r) = ppj s. Proof. intros; unfold mark; destruct (is_dup s rl r); reflexivity. Qed.
Lemma mark_prepR : forall s rl r, prepR (mark s rl r) = prepR s. Proof. intros; unfold mark; destruct (is_dup s rl r); reflexivity. Qed.
Lemma mark_prepV : forall s rl r, prepV (mark s rl r) = prepV s. Proof. intros; unfold mark; destruct (is_dup s rl r); reflexivity. Qed.
Lemma mark_prepJ : forall s rl r, prepJ (mark s rl r) = prepJ s. Proof. intros; unfold mark; destruct (is_dup s rl r); reflexivity. Qed.
Lemma mark_cfr : forall s rl r, cfr (mark s rl r) = cfr s. Proof. intros; unfold mark; destruct (is_dup s rl r); reflexivity. Qed.
Lemma mark_qcommit : forall s rl r, qcommit (mark s rl r) = qcommit s. Proof. intros; unfold mark; destruct (is_dup s rl r); reflexivity. Qed.
Lemma mark_qcommitV : forall s rl r, qcommitV (mark s rl r) = qcommitV s. Proof. intros; unfold mark; destruct (is_dup s rl r); reflexivity. Qed.
Lemma mark_buffer : forall s rl r, buffer (mark s rl r) = buffer s. Proof. intros; unfold mark; destruct (is_dup s rl r); reflexivity. Qed.
Lemma mark_resends : forall s rl r, resends (mark s rl r) = resends s. Proof. intros; unfold mark; destruct (is_dup s rl r); reflexivity. Qed.
Lemma mark_timer : forall s rl r, timer (mark s rl r) = timer s. Proof. intros; unfold mark; destruct (is_dup s rl r); reflexivity. Qed.
Lemma mark_started : forall s rl r, started (mark s rl r) = started s. Proof. intros; unfold mark; destruct (is_dup s rl r); reflexivity. Qed.
Lemma mark_dead : forall s rl r, dead (mark s rl r) = dead s. Proof. intros; unfold mark; destruct (is_dup s rl r); reflexivity. Qed.
Lemma mark_decided : forall s rl r, decided (mark s rl r) = decided s. Proof. intros; unfold decided; rewrite mark_qcommit; reflexivity. Qed.
Global Hint Rewrite mark_round mark_input mark_ppj mark_prepR mark_prepV mark_prepJ mark_cfr mark_qcommit mark_qcommitV
  mark_buffer mark_resends mark_timer mark_started mark_dead mark_decided : st.

Definition f_prep (s : state) : bmsg -> bool := f_trv Prepare (prepR s) (prepV s).
Ltac st := unfold decided, f_prep in *; simpl in *; repeat (progress (autorewrite with st in *; simpl in *)).

(* what membership of a rule in rules_of says *)
Lemma rules_of_inv : forall p s m rl, existsb (rule_eqb rl) (rules_of p s m) = true ->
  match rl with
  | JustPrePrepare => ty (main m) = PrePrepare /\ round s <= rnd (main m)
  | QPrepares => ty (main m) = Prepare /\ rnd (main m) = round s
                 /\ qn p <= nsrc (f_trv Prepare (rnd (main m)) (val (main m))) (flat (buffer s))
  | QCommits => ty (main m) = Commit /\ rnd (main m) = round s
                 /\ qn p <= nsrc (f_trv Commit (rnd (main m)) (val (main m))) (flat (buffer s))
  | JustDecided => ty (main m) = Decided
  | FPlus1RC => ty (main m) = RoundChange /\ round s < rnd (main m)
  | QRC => ty (main m) = RoundChange /\ rnd (main m) = round s /\ is_leader p (rnd (main m)) (self p) = true
  | UnjustQRC => ty (main m) = RoundChange /\ rnd (main m) = round s
  | Nothing => True
  | RoundTimeout => False
  end.
Proof.
  intros p s m rl H. unfold rules_of in H.
  destruct (ty (main m)) eqn:Ety.
  - destruct (rnd (main m) <? round s) eqn:E; simpl in H; rewrite orb_false_r in H; apply rule_eqb_eq in H; subst; auto.
    apply Nat.ltb_ge in E. auto.
  - destruct (negb (rnd (main m) =? round s)) eqn:E; [simpl in H; rewrite orb_false_r in H; apply rule_eqb_eq in H; subst; exact I|].
    apply negb_false_iff, Nat.eqb_eq in E.
    destruct (qn p <=? nsrc _ _) eqn:E2; simpl in H; rewrite orb_false_r in H; apply rule_eqb_eq in H; subst; auto.
    apply Nat.leb_le in E2. auto.
  - destruct (negb (rnd (main m) =? round s)) eqn:E; [simpl in H; rewrite orb_false_r in H; apply rule_eqb_eq in H; subst; exact I|].
    apply negb_false_iff, Nat.eqb_eq in E.
    destruct (qn p <=? nsrc _ _) eqn:E2; simpl in H; rewrite orb_false_r in H; apply rule_eqb_eq in H; subst; auto.
    apply Nat.leb_le in E2. auto.
  - destruct (rnd (main m) <? round s) eqn:E1; [simpl in H; rewrite orb_false_r in H; apply rule_eqb_eq in H; subst; exact I|].
    destruct (round s <? rnd (main m)) eqn:E2.
    + apply Nat.ltb_lt in E2.
      destruct (fn p + 1 <=? _); simpl in H; rewrite orb_false_r in H; apply rule_eqb_eq in H; subst; auto.
    + apply Nat.ltb_ge in E1. apply Nat.ltb_ge in E2. assert (Er : rnd (main m) = round s) by lia.
      destruct (nsrc _ _ <? qn p); [simpl in H; rewrite orb_false_r in H; apply rule_eqb_eq in H; subst; exact I|].
      rewrite existsb_app in H. apply orb_true_iff in H. destruct H as [H|H].
      * destruct (may_ok p _ _); [|discriminate]. simpl in H. rewrite orb_false_r in H. apply rule_eqb_eq in H.
        destruct (is_leader p (rnd (main m)) (self p)) eqn:El; subst; auto.
      * destruct (may_fail p _ _); [|discriminate]. simpl in H. rewrite orb_false_r in H. apply rule_eqb_eq in H. subst; auto.
  - simpl in H. rewrite orb_false_r in H. apply rule_eqb_eq in H. subst. reflexivity.
Qed.
