From Coq Require Import List NArith Arith Bool Lia.
From Charon Require Import Common.Quorum Qbft.Model.
Import ListNotations.

Ltac destr_in H :=
  repeat match type of H with
  | context[match ?x with _ => _ end] => destruct x eqn:?; try discriminate H
  end.

Lemma test : forall p s e o s' outs, fstep p s e o = Some (s', outs) -> True.
Proof.
  intros p s e o s' outs H.
  unfold fstep in H. destruct e.
  - destr_in H; exact I.
  - destr_in H; exact I.
  - Time destr_in H. all: try exact I. 
    all: unfold apply_rule, timeout_body, change_round in *. 
    Time all: destr_in Heqo0.
    all: exact I.
  - destr_in H; unfold timeout_body in H; destr_in H; exact I.
Qed.
