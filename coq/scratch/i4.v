From Coq Require Import List NArith Arith Bool Lia.
From Charon Require Import Common.Quorum Qbft.Model Qbft.Monitor Qbft.ModelFacts Qbft.Inv.
Import ListNotations.
Set Warnings "-unused-intro-pattern".

(* every part of a justification getJustifiedQrc may return is in the flattened buffer it was computed from *)
Lemma adm_qrc_sub : forall p all r J, adm_qrc p all r J = true -> forall y, In y J -> In y all.
Proof.
  intros p all r J H y Hy. unfold adm_qrc in H. destruct (nullQ p all r).
  - apply pick_ok_spec in H. destruct H as [_ [_ [H _]]]. auto.
  - apply andb_true_iff in H. destruct H as [HJ H]. apply list_beq_eq in HJ.
    destruct (filter (is_ty Prepare) J) as [|p0 Jp'] eqn:EJp; [discriminate|].
    rewrite !andb_true_iff in H. destruct H as [[[[[[Hpick _] _] Hall] _] _] _].
    rewrite HJ in Hy. apply in_app_or in Hy. destruct Hy as [Hy|Hy].
    + rewrite forallb_forall in Hall. specialize (Hall y Hy). rewrite !andb_true_iff in Hall. apply memb_In. tauto.
    + apply pick_ok_spec in Hpick. destruct Hpick as [_ [_ [Hp _]]]. auto.
Qed.

(* a successful getSingleJustifiedPrPv names the value of some PREPARE of the list *)
Lemma single_true_witness : forall q J spr spv, 1 <= q -> single q J = (spr, spv, true) ->
  exists y, In y J /\ ty y = Prepare /\ rnd y = spr /\ val y = spv.
Proof.
  intros q J spr spv Hq H. unfold single in H.
  remember (filter (is_ty Prepare) J) as P eqn:EP. destruct P as [|p0 P'].
  - inversion H. apply Nat.leb_le in H3. lia.
  - destruct (nodupn (map src (p0 :: P')) && forallb (fun b => (rnd b =? rnd p0) && N.eqb (val b) (val p0)) (p0 :: P')); [|discriminate].
    inversion H; subst. assert (Hin : In p0 (filter (is_ty Prepare) J)) by (rewrite <- EP; left; reflexivity).
    apply filter_In in Hin. destruct Hin as [H1 H2]. apply mtype_eqb_eq in H2. exists p0. auto.
Qed.

Ltac bool_facts :=
  repeat match goal with
  | H : _ || _ = false |- _ => apply orb_false_iff in H; destruct H
  | H : _ && _ = true |- _ => apply andb_true_iff in H; destruct H
  | H : negb _ = false |- _ => apply negb_false_iff in H
  | H : negb _ = true |- _ => apply negb_true_iff in H
  | H : N.eqb _ _ = true |- _ => apply N.eqb_eq in H
  | H : N.eqb _ _ = false |- _ => apply N.eqb_neq in H
  end.

(* where PRE-PREPARE broadcasts take their value from; the input value never changes once set *)
Lemma fstep_pp_origin : forall p s e o s' outs, 1 <= nodes p -> fstep p s e o = Some (s', outs) ->
  (forall b, In b (bc_mains outs) -> ty b = PrePrepare ->
     (val b = input s' /\ input s' <> 0%N) \/
     (exists y, (In y (flat (buffer s')) \/ exists all c, ppj s = PQrc all c /\ In y all) /\ ty y = Prepare /\ val y = val b)) /\
  (input s <> 0%N -> input s' = input s) /\
  (input s' <> input s -> e = EInput (input s')).
Proof.
  intros p s e o s' outs Hn H.
  pose proof (quorum_pos (nodes p) Hn) as Hq. fold (qn p) in Hq.
  destruct e; crush_fstep H; try rule_facts2; prep_facts; bool_facts; rewrite ?bc_mains_app; simpl; (split; [|split]); st; intros; split_in; subst;
    simpl in *; try discriminate; try contradiction; try congruence; auto.
  all: right; destruct (single_true_witness _ _ _ _ Hq Heqp0) as [y [Y1 [Y2 [Y3 Y4]]]]; exists y;
       (split; [left; eapply adm_qrc_sub; eassumption | auto]).
Qed.
