From Coq Require Import List NArith Arith Bool Lia.
From Charon Require Import Common.Quorum Qbft.Model Qbft.Monitor Qbft.ModelFacts.
Import ListNotations.
Set Warnings "-unused-intro-pattern".

(* main parts of the Broadcast callbacks, in order *)
Fixpoint bc_mains (outs : list output) : list bmsg :=
  match outs with
  | [] => []
  | Bcast b _ :: r => b :: bc_mains r
  | _ :: r => bc_mains r
  end.

Lemma bc_mains_app : forall a b, bc_mains (a ++ b) = bc_mains a ++ bc_mains b.
Proof. induction a as [|o a IH]; simpl; intros; [reflexivity|]. destruct o; simpl; rewrite IH; reflexivity. Qed.

Lemma is_dup_mark_same : forall s rl r, is_dup (mark s rl r) rl r = true.
Proof.
  intros. unfold mark. destruct (is_dup s rl r) eqn:E; [assumption|].
  unfold is_dup. simpl. assert (H : rule_eqb rl rl = true) by (apply rule_eqb_eq; reflexivity).
  rewrite H, Nat.eqb_refl. reflexivity.
Qed.

Lemma is_dup_mark_mono : forall s rl r rl' r', is_dup s rl' r' = true -> is_dup (mark s rl r) rl' r' = true.
Proof.
  intros. unfold mark. destruct (is_dup s rl r); [assumption|]. unfold is_dup in *. simpl. rewrite H. apply orb_true_r.
Qed.

Record linv (p : params) (s : state) (log : list bmsg) : Prop := mklinv {
  l_src : forall b, In b log -> src b = self p;
  l_round1 : decided s = false -> 1 <= round s;
  l_prep : forall b, In b log -> ty b = Prepare -> decided s = false ->
           rnd b < round s \/ (rnd b = round s /\ is_dup s JustPrePrepare (rnd b) = true);
  l_prep_uniq : forall b b', In b log -> In b' log -> ty b = Prepare -> ty b' = Prepare -> rnd b = rnd b' -> val b = val b';
  l_commit : forall b, In b log -> ty b = Commit -> decided s = false ->
           rnd b < round s \/ (rnd b = round s /\ is_dup s QPrepares (rnd b) = true);
  l_commit_uniq : forall b b', In b log -> In b' log -> ty b = Commit -> ty b' = Commit -> rnd b = rnd b' -> val b = val b';
  l_commit_lock : forall b, In b log -> ty b = Commit -> rnd b <= prepR s /\ (rnd b = prepR s -> val b = prepV s);
  l_prepR_le : decided s = false -> prepR s <= round s;
  l_rc : forall b, In b log -> ty b = RoundChange -> decided s = false -> rnd b <= round s;
  l_rc_lock : forall c b, In c log -> In b log -> ty c = Commit -> ty b = RoundChange -> rnd c < rnd b ->
              rnd c <= pr b /\ (rnd c = pr b -> val c = pv b)
}.

Lemma linv_init : forall p, linv p init [].
Proof. intro p. constructor; simpl; intros; try contradiction; try lia. Qed.

Ltac split_in :=
  repeat match goal with
  | H : In _ (_ ++ _) |- _ => apply in_app_or in H; destruct H as [H|H]
  | H : In _ (_ :: _) |- _ => destruct H as [H|H]; [subst|]
  | H : In _ [] |- _ => contradiction H
  end.

Ltac fin := intros; split_in; simpl in *; try discriminate; try congruence; eauto; try lia.

Lemma linv_fstep : forall p s e o s' outs log,
  linv p s log -> fstep p s e o = Some (s', outs) -> linv p s' (log ++ bc_mains outs).
Proof.
  intros p s e o s' outs log [L1 L2 L3 L4 L5 L6 L7 L8 L9 L10] H.
  destruct e.
  - crush_fstep H; simpl; rewrite app_nil_r; constructor; st; auto.
  - crush_fstep H; simpl; rewrite ?app_nil_r; constructor; st; auto; fin.
  - crush_fstep H; rewrite ?bc_mains_app; simpl; rewrite ?app_nil_r; constructor; st; auto; fin.
    all: idtac "goal". Show 1. Show 2. Show 3.
Abort.
