(* Executable instance of Tbls/Shamir.v over the integers modulo m (binary integers Z, evaluated
   by vm_compute), and its relation to the abstract theorems.

   All functions take the modulus m as their first argument.  The computations of the
   correspondence check use m := r, the order of the BLS12-381 scalar field.  The theorems relate
   the Z functions to the field 'F_p (mathcomp) for ANY modulus m = Z.of_nat p with p prime, p > 2:
   primality is a hypothesis of each theorem, it is not proved for r here and it is not an axiom.

   Encoding facts mirrored from tbls/herumi.go + herumi bls (ETH mode), observed on the real code:
   secrets/shares are 32-byte big-endian scalars; Deserialize rejects values >= r and accepts 0;
   share ids are the decimal share indices 1..n. *)
From Coq Require Import ZArith.
From mathcomp Require Import all_ssreflect all_algebra finfield.
From mathcomp Require Import zify ssrZ.
From Charon Require Import Tbls.Shamir.
Set Implicit Arguments.
Unset Strict Implicit.
Unset Printing Implicit Defensive.
Import GRing.Theory.

(* BLS12-381 scalar field order *)
Definition r : Z := 0x73eda753299d7d483339d80809a1d80553bda402fffe5bfeffffffff00000001%Z.

Section ModArith.
Variable m : Z.

Definition redm (a : Z) : Z := Z.modulo a m.
Definition addm (a b : Z) : Z := Z.modulo (Z.add a b) m.
Definition subm (a b : Z) : Z := Z.modulo (Z.sub a b) m.
Definition mulm (a b : Z) : Z := Z.modulo (Z.mul a b) m.
Definition eqm (a b : Z) : bool := Z.eqb (Z.modulo a m) (Z.modulo b m).

(* a^e mod m by square and multiply *)
Fixpoint powm_pos (a : Z) (e : positive) : Z :=
  match e with
  | xH => redm a
  | xO e' => let b := powm_pos a e' in mulm b b
  | xI e' => let b := powm_pos a e' in mulm a (mulm b b)
  end.

(* inverse by Fermat: a^(m-2) *)
Definition invm (a : Z) : Z := powm_pos a (Z.to_pos (Z.sub m 2)).

(* Lagrange coefficient at 0 of the share with id xi among the shares with ids [ids] *)
Definition lamZ (ids : seq Z) (xi : Z) : Z :=
  let num := foldr (fun xk acc => if eqm xk xi then acc else mulm xk acc) 1%Z ids in
  let den := foldr (fun xk acc => if eqm xk xi then acc else mulm (subm xk xi) acc) 1%Z ids in
  mulm num (invm den).

Definition lagrange_coeffs (ids : seq Z) : seq Z := map (lamZ ids) ids.

(* shares as (id, value) pairs — the Go maps  map[int]PrivateKey *)
Definition recoverZ (sh : seq (Z * Z)) : Z :=
  let ids := map fst sh in
  foldr (fun s acc => addm (mulm (lamZ ids s.1) s.2) acc) 0%Z sh.

(* Horner evaluation of the polynomial with coefficients cs (constant term first) *)
Definition evalZ (cs : seq Z) (a : Z) : Z := foldr (fun c acc => addm c (mulm a acc)) 0%Z cs.

(* shares for ids 1..n:  sk.Set(poly, id) for id = 1..total *)
Definition splitZ (cs : seq Z) (n : nat) : seq Z :=
  map (fun i => evalZ cs (Z.of_nat i)) (iota 1 n).

Definition with_ids (ys : seq Z) : seq (Z * Z) :=
  zip (map (fun i => Z.of_nat i) (iota 1 (size ys))) ys.

(* generateInsecureSecret: up to 100 reads of 32 bytes, the first chunk that deserialises
   (value < m) is taken; [chunks] are the successive 32-byte reads as big-endian integers *)
Fixpoint draw1 (fuel : nat) (chunks : seq Z) : option (Z * seq Z) :=
  match fuel, chunks with
  | S f, c :: rest => if Z.ltb c m then Some (c, rest) else draw1 f rest
  | _, _ => None
  end.

Fixpoint draw (k : nat) (chunks : seq Z) : option (seq Z) :=
  match k with
  | 0 => Some [::]
  | S k' => match draw1 100 chunks with
            | Some (c, rest) => match draw k' rest with Some cs => Some (c :: cs) | None => None end
            | None => None
            end
  end.

(* ThresholdSplitInsecure secret total threshold reader *)
Definition split_insecure (secret : Z) (total threshold : nat) (chunks : seq Z) : option (seq Z) :=
  if (threshold <= 1)%N then None
  else if ~~ Z.ltb secret m then None
  else match draw threshold.-1 chunks with
       | Some cs => Some (splitZ (secret :: cs) total)
       | None => None
       end.

(* cluster.verifySharesReconstruct on scalars: ys are the n shares of ids 1..n *)
Definition sub_shares (ys : seq Z) (idx : seq nat) : seq (Z * Z) :=
  map (fun i => (Z.of_nat i.+1, nth 0%Z ys i)) idx.

Definition vsr_checkZ (dv : Z) (ys : seq Z) (t : nat) : bool :=
  [&& (0 < t)%N, (t <= size ys)%N, Z.eqb (recoverZ (sub_shares ys (vsr_first t))) (redm dv)
    & all (fun i => Z.eqb (recoverZ (sub_shares ys (vsr_extra t i))) (redm dv)) (iota t (size ys - t))].

(* the relational check used for ThresholdSplit and for the DKG outputs: all shares lie on one
   polynomial of degree < t whose constant term is what the first t shares recover *)
Definition on_one_polyZ (ys : seq Z) (t : nat) : bool :=
  vsr_checkZ (recoverZ (sub_shares ys (vsr_first t))) ys t.

End ModArith.

(* ------------------------------------------------------------------------------------------ *)
(* Relation to the field 'F_p                                                                   *)

Set Default Timeout 20.
Section Refinement.
Variable p : nat.
Variable m : Z.
Hypothesis p_prime : prime p.
Hypothesis m_p : Z.of_nat p = m.
Hypothesis p_gt2 : (2 < p)%N.

Local Notation Fp := 'F_p.
Local Open Scope ring_scope.

Definition phi (z : Z) : Fp := (int_of_Z z)%:~R.
Definition psi (u : Fp) : Z := Z.of_nat (val u).

Lemma phiD a b : phi (Z.add a b) = phi a + phi b.
Proof. by rewrite /phi -rmorphD -[Z.add a b]/(a + b) rmorphD. Qed.
Lemma phiM a b : phi (Z.mul a b) = phi a * phi b.
Proof. by rewrite /phi -rmorphM -[Z.mul a b]/(a * b) rmorphM. Qed.
Lemma phiN a : phi (Z.opp a) = - phi a.
Proof. by rewrite /phi -rmorphN -[Z.opp a]/(- a) rmorphN. Qed.
Lemma phiB a b : phi (Z.sub a b) = phi a - phi b.
Proof. by rewrite -phiN -phiD. Qed.
Lemma phi0 : phi 0%Z = 0. Proof. by []. Qed.
Lemma phi1 : phi 1%Z = 1. Proof. by []. Qed.

Lemma phi_nat n : phi (Z.of_nat n) = n%:R.
Proof.
have -> : Z.of_nat n = Z_of_int (Posz n) by [].
by rewrite /phi Z_of_intK.
Qed.

Lemma phi_m : phi m = 0.
Proof. by rewrite -m_p phi_nat; apply: charf0; apply: char_Fp. Qed.

Lemma m_pos : (0 < m)%Z. Proof. by move: p_gt2 m_p; lia. Qed.

Lemma phi_mod a : phi (Z.modulo a m) = phi a.
Proof.
have mne : m <> 0%Z by have := m_pos; lia.
rewrite [in RHS](Z.div_mod a m mne) phiD phiM phi_m mul0r add0r.
by [].
Qed.

Lemma phi_add a b : phi (addm m a b) = phi a + phi b. Proof. by rewrite phi_mod phiD. Qed.
Lemma phi_sub a b : phi (subm m a b) = phi a - phi b. Proof. by rewrite phi_mod phiB. Qed.
Lemma phi_mul a b : phi (mulm m a b) = phi a * phi b. Proof. by rewrite phi_mod phiM. Qed.

Lemma psi_phi a : psi (phi a) = Z.modulo a m.
Proof.
have mp := m_pos.
have [lo hi] := Z.mod_pos_bound a m mp.
rewrite -(phi_mod a) -[in LHS](Z2Nat.id _ lo) phi_nat /psi val_Fp_nat // modn_small.
  by rewrite Z2Nat.id.
by move: hi lo m_p; lia.
Qed.

Lemma phi_inj_mod a b : (phi a == phi b) = eqm m a b.
Proof.
apply/eqP/idP => [e|]; first by rewrite /eqm -!psi_phi e Z.eqb_refl.
by rewrite /eqm => /Z.eqb_spec e; rewrite -(phi_mod a) e phi_mod.
Qed.

Lemma phi_powm a e : phi (powm_pos m a e) = phi a ^+ Pos.to_nat e.
Proof.
elim: e => [e IH|e IH|] /=.
- by rewrite !phi_mul IH Pos2Nat.inj_xI exprS -mul2n mulnC exprM expr2.
- by rewrite phi_mul IH Pos2Nat.inj_xO -mul2n mulnC exprM expr2.
- by rewrite phi_mod Pos2Nat.inj_1 expr1.
Qed.

Lemma fermat_inv (u : Fp) : u ^+ (p - 2) = u^-1.
Proof.
have [->|nz] := eqVneq u 0.
  by rewrite invr0 expr0n; move: p_gt2; case: (p - 2)%N (subn_gt0 2 p) => // <-.
apply: (mulfI nz); rewrite divff // -exprS.
have -> : (p - 2).+1 = (p - 1)%N by move: p_gt2; lia.
apply: (mulfI nz); rewrite mulr1 -exprS.
have -> : (p - 1).+1 = p by move: p_gt2; lia.
by rewrite -[in X in _ ^+ X](card_Fp p_prime) expf_card.
Qed.

Lemma phi_inv a : phi (invm m a) = (phi a)^-1.
Proof.
rewrite /invm phi_powm -fermat_inv; congr (_ ^+ _).
by move: p_gt2 m_p; lia.
Qed.

(* ids as field elements *)
Definition xf (s : Z * Z) : Fp := phi s.1.
Definition yf (s : Z * Z) : Fp^o := phi s.2.

Lemma phi_lamZ (sh : seq (Z * Z)) xi :
  phi (lamZ m (map fst sh) xi) = \prod_(k <- sh | xf k != phi xi) (xf k / (xf k - phi xi)).
Proof.
rewrite /lamZ phi_mul phi_inv prodf_div; congr (_ / _).
  elim: sh => [|s sh IH]; first by rewrite big_nil.
  rewrite big_cons /= -phi_inj_mod /xf; case: (_ == _) => //=.
  by rewrite phi_mul IH.
elim: sh => [|s sh IH]; first by rewrite big_nil.
rewrite big_cons /= -phi_inj_mod /xf; case: (_ == _) => //=.
by rewrite phi_mul phi_sub IH.
Qed.

Lemma phi_recoverZ (sh : seq (Z * Z)) : phi (recoverZ m sh) = recover xf sh yf.
Proof.
rewrite /recoverZ /recover; set ids := map fst sh.
have lamE s : phi (lamZ m ids s.1) = lam xf sh s by rewrite phi_lamZ.
elim: {1 3}sh => [|s sh' IH]; first by rewrite big_nil.
by rewrite big_cons /= phi_add phi_mul IH lamE.
Qed.

Lemma recoverZ_red (sh : seq (Z * Z)) : recoverZ m sh = psi (phi (recoverZ m sh)).
Proof.
rewrite psi_phi /recoverZ; case: sh => [|s sh] /=; first by rewrite Z.mod_0_l //; have := m_pos; lia.
by rewrite /addm Z.mod_mod //; have := m_pos; lia.
Qed.

Definition polyZ (cs : seq Z) : {poly Fp} := Poly (map phi cs).

Lemma phi_evalZ cs a : phi (evalZ m cs a) = (polyZ cs).[phi a].
Proof.
rewrite /polyZ; elim: cs => [|c cs IH] /=; first by rewrite horner0.
by rewrite horner_cons phi_add phi_mul IH addrC mulrC.
Qed.

Lemma size_polyZ cs : (size (polyZ cs) <= size cs)%N.
Proof. by apply: leq_trans (size_Poly _) _; rewrite size_map. Qed.

Lemma polyZ_at0 cs : (polyZ cs).[0] = phi (head 0%Z cs).
Proof. by rewrite horner_coef0 coef_Poly; case: cs. Qed.

(* admissible ids: pairwise distinct and non-zero modulo m *)
Definition ids_okZ (ids : seq Z) : bool :=
  uniq (map (redm m) ids) && all (fun a => ~~ Z.eqb (redm m a) 0%Z) ids.

Lemma ids_okZ_distinct (sh : seq (Z * Z)) : ids_okZ (map fst sh) -> ids_distinct xf sh.
Proof.
case/andP=> U _; rewrite /ids_distinct.
have -> : map xf sh = map phi (map (redm m) (map fst sh)).
  by rewrite -!map_comp; apply: eq_map => s /=; rewrite /xf /redm phi_mod.
rewrite map_inj_in_uniq // => a b /mapP[a' _ ->] /mapP[b' _ ->] /eqP.
rewrite phi_inj_mod /eqm /redm => /Z.eqb_spec.
by rewrite !Z.mod_mod //; have := m_pos; lia.
Qed.

Lemma ids_okZ_nonzero (sh : seq (Z * Z)) : ids_okZ (map fst sh) -> ids_nonzero xf sh.
Proof.
case/andP=> _ /allP nz; apply/allP => s sin.
have := nz s.1 (map_f _ sin); apply: contra; rewrite /xf -phi0 phi_inj_mod /eqm /redm.
by rewrite Z.mod_0_l //; have := m_pos; lia.
Qed.

(* Z1: recovery from the shares of a polynomial returns its constant term, for every admissible
   id list with at least (length cs) ids — in particular for every subset of 1..n of size >= t *)
Theorem recoverZ_split cs ids :
  ids_okZ ids -> (size cs <= size ids)%N ->
  recoverZ m (zip ids (map (evalZ m cs) ids)) = redm m (head 0%Z cs).
Proof.
move=> ok sz; set sh := zip _ _.
have fst_sh : map fst sh = ids by rewrite /sh unzip1_zip // size_map.
rewrite recoverZ_red phi_recoverZ /redm -psi_phi; congr psi.
have U : ids_distinct xf sh by apply: ids_okZ_distinct; rewrite fst_sh.
rewrite -polyZ_at0 -(@split_recover _ _ xf sh (polyZ cs) (size cs) U (size_polyZ cs)); last first.
  by rewrite -(size_map fst) fst_sh.
rewrite /recover big_seq_cond [in RHS]big_seq_cond; apply: eq_bigr => s /andP[sin _].
rewrite /yf /xf -phi_evalZ; congr (_ * phi _).
move: sin; rewrite /sh => /(nthP (0%Z, 0%Z)) [i]; rewrite size_zip size_map minnn => lt <-.
by rewrite nth_zip ?size_map //= (nth_map 0%Z).
Qed.

End Refinement.
