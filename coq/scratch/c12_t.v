From Charon Require Import Codec.HashProgFacts.
Print Assumptions root_injective.
Check root_injective.
