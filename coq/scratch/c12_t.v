(* SSZ hash-tree model with the semantics of github.com/ferranbt/fastssz v1.0.0 hasher.go, as used
   by cluster/ssz.go.

   The Go [Hasher] keeps a byte buffer that (for every call sequence cluster/ssz.go makes) is a
   whole number of 32-byte chunks; [Index] marks a position, [Merkleize(indx)] replaces the chunks
   after the mark by their merkle root, [MerkleizeWithMixin(indx,num,limit)] replaces them by
   H(root-with-limit, uint64le(num)).  The model keeps the buffer as a list of chunks; a chunk is a
   list of bytes (bytes are [N]; nothing below depends on bytes being < 256 or chunks having 32
   elements, which keeps the injectivity hypothesis on [H] satisfiable).

   The compression function [H] (SHA-256 of the 64-byte concatenation in Go) is a Section
   variable.  Injectivity lemmas carry the Section hypothesis [H_inj] (collision-freedom
   idealisation); evaluation lemmas do not. *)
From Coq Require Import List NArith Bool Arith Lia.
Import ListNotations.

Definition chunk := list N.

Definition zero_chunk : chunk := repeat 0%N 32.

(* AppendBytes32: right-pad with zero bytes to a multiple of 32. *)
Definition pad32 (b : list N) : chunk := b ++ repeat 0%N (32 - length b).

Fixpoint chunks_aux (fuel : nat) (b : list N) : list chunk :=
  match fuel with
  | O => []
  | S f => match b with
           | [] => []
           | _ => pad32 (firstn 32 b) :: chunks_aux f (skipn 32 b)
           end
  end.

(* The chunks appended by AppendBytes32(b): none for the empty string. *)
Definition chunks_of (b : list N) : list chunk := chunks_aux (length b) b.

(* little-endian bytes of n, k of them (binary.LittleEndian.PutUint64 for k = 8) *)
Fixpoint le_bytes (k : nat) (n : N) : list N :=
  match k with
  | O => []
  | S k' => N.modulo n 256 :: le_bytes k' (N.div n 256)
  end.

Definition u64chunk (n : N) : chunk := pad32 (le_bytes 8 n).

(* leftPad of cluster/helpers.go *)
Definition left_pad (b : list N) (n : nat) : list N := repeat 0%N (n - length b) ++ b.

(* ---------------------------------------------------------------------------------------- *)
(* byte-level facts (no hash involved) *)
Local Arguments firstn : simpl never.
Local Arguments skipn : simpl never.

Lemma pad32_inj : forall a b, length a = length b -> pad32 a = pad32 b -> a = b.
Proof.
  unfold pad32. intros a b L E. rewrite L in E.
  apply app_inv_tail in E. exact E.
Qed.

Lemma app_inj_len {A} : forall (a b c d : list A), length a = length c -> a ++ b = c ++ d -> a = c /\ b = d.
Proof.
  induction a; destruct c; simpl; intros; try discriminate; auto.
  inversion H0; subst. inversion H. destruct (IHa _ _ _ H2 H3). subst. auto.
Qed.

Lemma cons_inj {A} : forall (a b : A) l m, a :: l = b :: m -> a = b /\ l = m.
Proof. intros. inversion H. auto. Qed.

Lemma chunks_aux_len : forall f a b, length a = length b ->
  length (chunks_aux f a) = length (chunks_aux f b).
Proof.
  induction f; simpl; intros; auto.
  destruct a, b; simpl in *; try discriminate; auto.
  f_equal. apply IHf. rewrite !skipn_length. simpl. lia.
Qed.

Lemma chunks_aux_inj : forall f a b, length a = length b -> length a <= f ->
  chunks_aux f a = chunks_aux f b -> a = b.
Proof.
  induction f; simpl; intros a b L F E.
  - destruct a; simpl in F; [|lia]. destruct b; simpl in L; [reflexivity|discriminate].
  - destruct a as [|x a], b as [|y b]; try discriminate; auto.
    apply cons_inj in E. destruct E as [E1 E2].
    assert (LF : length (firstn 32 (x :: a)) = length (firstn 32 (y :: b))).
    rewrite !firstn_length. simpl in *. Show.
