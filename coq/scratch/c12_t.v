From mathcomp Require Import all_ssreflect all_algebra.
From Charon Require Import Tbls.Shamir.
About verify_shares_reconstruct_sound.
About split_recover_lmod.
About sub_ids_distinct.
About recover_ext.
About recover.
About vsr_check.
About on_one_poly.
About evalV.
Print Assumptions verify_shares_reconstruct_sound.
