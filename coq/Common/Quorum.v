(* Quorum arithmetic of core/qbft.Definition:
     Quorum() = int(math.Ceil(float64(Nodes*2) / 3))      -- ceil(2n/3)
     Faulty() = int(math.Floor(float64(Nodes-1) / 3))     -- floor((n-1)/3)
   The model uses the integer forms  quorum n = (2n+2)/3  and  faulty n = (n-1)/3  (natural numbers);
   the harness compares them with the Go functions for n = 1..200.  Every fact below is for ALL n >= 1
   (unbounded), by lia after expanding the divisions.  These are exactly the counting facts an
   agreement / termination argument uses. *)
From Coq Require Import Arith ZArith Lia List.

Definition quorum (n : nat) : nat := (2 * n + 2) / 3.
Definition faulty (n : nat) : nat := (n - 1) / 3.

(* expand the two divisions into their defining (in)equalities, then linear arithmetic *)
Ltac qf n :=
  unfold quorum, faulty;
  generalize (Nat.div_mod (2 * n + 2) 3 (ltac:(discriminate))) (Nat.mod_upper_bound (2 * n + 2) 3 (ltac:(discriminate)))
             (Nat.div_mod (n - 1) 3 (ltac:(discriminate))) (Nat.mod_upper_bound (n - 1) 3 (ltac:(discriminate)));
  generalize ((2 * n + 2) / 3) ((2 * n + 2) mod 3) ((n - 1) / 3) ((n - 1) mod 3); intros; lia.

(* quorum n is the ceiling of 2n/3: the least k with 3k >= 2n. *)
Lemma quorum_is_ceil : forall n, 2 * n <= 3 * quorum n /\ 3 * quorum n < 2 * n + 3.
Proof. intros n. qf n. Qed.

Lemma quorum_least : forall n k, 2 * n <= 3 * k -> quorum n <= k.
Proof. intros n k. qf n. Qed.

(* faulty n is the floor of (n-1)/3: the greatest k with 3k <= n-1. *)
Lemma faulty_is_floor : forall n, 1 <= n -> 3 * faulty n <= n - 1 /\ n - 1 < 3 * faulty n + 3.
Proof. intros n. qf n. Qed.

Lemma faulty_greatest : forall n k, 3 * k + 1 <= n -> k <= faulty n.
Proof. intros n k. qf n. Qed.

Lemma three_f_lt_n : forall n, 1 <= n -> 3 * faulty n < n.
Proof. intros n. qf n. Qed.

Lemma quorum_pos : forall n, 1 <= n -> 1 <= quorum n.
Proof. intros n. qf n. Qed.

Lemma quorum_le_n : forall n, 1 <= n -> quorum n <= n.
Proof. intros n. qf n. Qed.

Lemma faulty_lt_quorum : forall n, 1 <= n -> faulty n < quorum n.
Proof. intros n. qf n. Qed.

Lemma fplus1_le_quorum : forall n, 1 <= n -> faulty n + 1 <= quorum n.
Proof. intros n. qf n. Qed.

(* Two quorums intersect in more than f processes (hence in at least one honest process). *)
Lemma quorum_intersection : forall n, 1 <= n -> n + faulty n < 2 * quorum n.
Proof. intros n. qf n. Qed.

Lemma quorum_intersection_sub : forall n, 1 <= n -> faulty n < 2 * quorum n - n.
Proof. intros n. qf n. Qed.

(* A quorum and a set of q-f (honest members of another quorum) intersect: q + (q - f) - n >= 1. *)
Lemma quorum_meets_honest_part : forall n, 1 <= n -> n + 1 <= quorum n + (quorum n - faulty n).
Proof. intros n. qf n. Qed.

(* The processes outside a quorum are fewer than the honest part of a quorum: n - q < q - f. *)
Lemma outside_quorum_lt_honest_part : forall n, 1 <= n -> n - quorum n < quorum n - faulty n.
Proof. intros n. qf n. Qed.

(* Every quorum contains at least one honest process beyond f+... : q - f >= f + 1 (an honest majority of the quorum). *)
Lemma honest_part_gt_f : forall n, 1 <= n -> faulty n + 1 <= quorum n - faulty n.
Proof. intros n. qf n. Qed.

(* Liveness counting: the n - f non-faulty processes form a quorum. *)
Lemma nonfaulty_form_quorum : forall n, 1 <= n -> quorum n <= n - faulty n.
Proof. intros n. qf n. Qed.

(* f+1 processes contain one honest process. *)
Lemma fplus1_has_honest : forall n, 1 <= n -> faulty n < faulty n + 1 <= n.
Proof. intros n. qf n. Qed.

(* Set-level form used by the agreement proof: two sets A, B of process ids below n with at least
   q members each share more than f members, stated on cardinalities. *)
Lemma two_quorums_card : forall n a b i, 1 <= n -> quorum n <= a -> quorum n <= b ->
  a + b <= n + i (* |A|+|B| <= |A u B| + |A n B| <= n + |A n B| *) -> faulty n < i.
Proof. intros n a b i. qf n. Qed.

Lemma quorum_and_honest_part_card : forall n a b i, 1 <= n -> quorum n <= a -> quorum n - faulty n <= b ->
  a + b <= n + i -> 1 <= i.
Proof. intros n a b i. qf n. Qed.

(* Small table, also printed by the correspondence check against Go. *)
Example quorum_table : map quorum (seq 1 10) = (1 :: 2 :: 2 :: 3 :: 4 :: 4 :: 5 :: 6 :: 6 :: 7 :: nil).
Proof. reflexivity. Qed.
Example faulty_table : map faulty (seq 1 10) = (0 :: 0 :: 0 :: 1 :: 1 :: 1 :: 2 :: 2 :: 2 :: 3 :: nil).
Proof. reflexivity. Qed.
