(* SHA-256 over primitive 63-bit integers (each holding one 32-bit word).

   Used ONLY for translation validation: the SSZ tree model (Codec/SszTree.v) is parametric in the
   64-byte -> 32-byte compression function; the evaluation files instantiate it with [sha_pair] and
   compare the result, under vm_compute, with hashes computed by the Go code.  No theorem about the
   cluster hashes depends on this file (theorems are over an abstract injective H).

   The implementation follows FIPS 180-4 literally; it is tested against the standard vectors at
   the end of the file (checked by the kernel at compile time). *)
From Coq Require Import List NArith ZArith Uint63.
Import ListNotations.
Local Open Scope uint63_scope.

Definition mask32 : int := 0xFFFFFFFF.
Definition add32 (a b : int) : int := (a + b) land mask32.
Definition rotr (x : int) (n : int) : int := ((x >> n) lor (x << (32 - n))) land mask32.
Definition shr (x : int) (n : int) : int := x >> n.
Definition not32 (x : int) : int := x lxor mask32.

Definition ch (x y z : int) := (x land y) lxor ((not32 x) land z).
Definition maj (x y z : int) := (x land y) lxor (x land z) lxor (y land z).
Definition bsig0 x := rotr x 2 lxor rotr x 13 lxor rotr x 22.
Definition bsig1 x := rotr x 6 lxor rotr x 11 lxor rotr x 25.
Definition ssig0 x := rotr x 7 lxor rotr x 18 lxor shr x 3.
Definition ssig1 x := rotr x 17 lxor rotr x 19 lxor shr x 10.

Definition K : list int := [
 0x428a2f98; 0x71374491; 0xb5c0fbcf; 0xe9b5dba5; 0x3956c25b; 0x59f111f1; 0x923f82a4; 0xab1c5ed5;
 0xd807aa98; 0x12835b01; 0x243185be; 0x550c7dc3; 0x72be5d74; 0x80deb1fe; 0x9bdc06a7; 0xc19bf174;
 0xe49b69c1; 0xefbe4786; 0x0fc19dc6; 0x240ca1cc; 0x2de92c6f; 0x4a7484aa; 0x5cb0a9dc; 0x76f988da;
 0x983e5152; 0xa831c66d; 0xb00327c8; 0xbf597fc7; 0xc6e00bf3; 0xd5a79147; 0x06ca6351; 0x14292967;
 0x27b70a85; 0x2e1b2138; 0x4d2c6dfc; 0x53380d13; 0x650a7354; 0x766a0abb; 0x81c2c92e; 0x92722c85;
 0xa2bfe8a1; 0xa81a664b; 0xc24b8b70; 0xc76c51a3; 0xd192e819; 0xd6990624; 0xf40e3585; 0x106aa070;
 0x19a4c116; 0x1e376c08; 0x2748774c; 0x34b0bcb5; 0x391c0cb3; 0x4ed8aa4a; 0x5b9cca4f; 0x682e6ff3;
 0x748f82ee; 0x78a5636f; 0x84c87814; 0x8cc70208; 0x90befffa; 0xa4506ceb; 0xbef9a3f7; 0xc67178f2 ].

Definition IV : list int := [
 0x6a09e667; 0xbb67ae85; 0x3c6ef372; 0xa54ff53a; 0x510e527f; 0x9b05688c; 0x1f83d9ab; 0x5be0cd19 ].

(* Message schedule: the window holds the last 16 words, oldest first. *)
Fixpoint schedule (n : nat) (win : list int) (acc : list int) : list int :=
  match n with
  | O => rev acc
  | S n' =>
    match win with
    | w0 :: w1 :: w2 :: w3 :: w4 :: w5 :: w6 :: w7 :: w8 :: w9 :: w10 :: w11 :: w12 :: w13 :: w14 :: w15 :: nil =>
      let w := add32 (add32 (ssig1 w14) w9) (add32 (ssig0 w1) w0) in
      schedule n' [w1; w2; w3; w4; w5; w6; w7; w8; w9; w10; w11; w12; w13; w14; w15; w] (w :: acc)
    | _ => rev acc
    end
  end.

Definition expand (block : list int) : list int := block ++ schedule 48 block [].

Record st := { sa : int; sb : int; sc : int; sd : int; se : int; sf : int; sg : int; sh : int }.

Definition round (s : st) (kw : int * int) : st :=
  let '(k, w) := kw in
  let t1 := add32 (add32 (add32 (sh s) (bsig1 (se s))) (add32 (ch (se s) (sf s) (sg s)) k)) w in
  let t2 := add32 (bsig0 (sa s)) (maj (sa s) (sb s) (sc s)) in
  {| sa := add32 t1 t2; sb := sa s; sc := sb s; sd := sc s; se := add32 (sd s) t1; sf := se s; sg := sf s; sh := sg s |}.

Definition compress (h : list int) (block : list int) : list int :=
  match h with
  | [a; b; c; d; e; f; g; hh] =>
    let s0 := {| sa := a; sb := b; sc := c; sd := d; se := e; sf := f; sg := g; sh := hh |} in
    let s := fold_left round (combine K (expand block)) s0 in
    [add32 a (sa s); add32 b (sb s); add32 c (sc s); add32 d (sd s);
     add32 e (se s); add32 f (sf s); add32 g (sg s); add32 hh (sh s)]
  | _ => h
  end.

(* bytes (as N) <-> big-endian words *)
Definition b2i (b : N) : int := of_Z (Z.of_N b).
Definition i2b (i : int) : N := Z.to_N (to_Z i).

Fixpoint words_of (bs : list N) : list int :=
  match bs with
  | a :: b :: c :: d :: r => ((b2i a << 24) lor (b2i b << 16) lor (b2i c << 8) lor b2i d) :: words_of r
  | _ => []
  end.

Definition bytes_of_word (w : int) : list N :=
  [i2b ((w >> 24) land 0xFF); i2b ((w >> 16) land 0xFF); i2b ((w >> 8) land 0xFF); i2b (w land 0xFF)].

Fixpoint blocks (fuel : nat) (ws : list int) : list (list int) :=
  match fuel with
  | O => []
  | S f => match ws with [] => [] | _ => firstn 16 ws :: blocks f (skipn 16 ws) end
  end.

(* FIPS padding: 0x80, zeros up to 56 mod 64, 64-bit big-endian bit length. *)
Definition be64 (n : N) : list N :=
  map (fun i => N.modulo (N.shiftr n (8 * i)) 256) [7; 6; 5; 4; 3; 2; 1; 0]%N.

Definition padded (msg : list N) : list N :=
  let l := length msg in
  let k := (Nat.modulo (64 + 55 - Nat.modulo l 64) 64) in
  msg ++ [128%N] ++ repeat 0%N k ++ be64 (N.of_nat l * 8).

Definition sha256 (msg : list N) : list N :=
  let ws := words_of (padded msg) in
  let h := fold_left compress (blocks (S (length ws)) ws) IV in
  flat_map bytes_of_word h.

(* The compression function of the SSZ merkle tree: SHA-256 of the 64-byte concatenation. *)
Definition sha_pair (a b : list N) : list N := sha256 (a ++ b).

(* ---- test vectors (FIPS 180-4 / NIST CAVS) ---- *)
Definition bytes_eqb (a b : list N) : bool :=
  Nat.eqb (length a) (length b) && forallb (fun p => N.eqb (fst p) (snd p)) (combine a b).

Local Open Scope N_scope.

(* sha256("") *)
Example sha256_empty : bytes_eqb (sha256 [])
  [0xe3;0xb0;0xc4;0x42;0x98;0xfc;0x1c;0x14;0x9a;0xfb;0xf4;0xc8;0x99;0x6f;0xb9;0x24;
   0x27;0xae;0x41;0xe4;0x64;0x9b;0x93;0x4c;0xa4;0x95;0x99;0x1b;0x78;0x52;0xb8;0x55] = true.
Proof. vm_compute. reflexivity. Qed.

(* sha256("abc") *)
Example sha256_abc : bytes_eqb (sha256 [97;98;99])
  [0xba;0x78;0x16;0xbf;0x8f;0x01;0xcf;0xea;0x41;0x41;0x40;0xde;0x5d;0xae;0x22;0x23;
   0xb0;0x03;0x61;0xa3;0x96;0x17;0x7a;0x9c;0xb4;0x10;0xff;0x61;0xf2;0x00;0x15;0xad] = true.
Proof. vm_compute. reflexivity. Qed.

(* sha256("abcdbcdecdefdefgefghfghighijhijkijkljklmklmnlmnomnopnopq"), 56 bytes: two blocks *)
Example sha256_two_blocks : bytes_eqb (sha256
  [97;98;99;100; 98;99;100;101; 99;100;101;102; 100;101;102;103; 101;102;103;104; 102;103;104;105;
   103;104;105;106; 104;105;106;107; 105;106;107;108; 106;107;108;109; 107;108;109;110; 108;109;110;111;
   109;110;111;112; 110;111;112;113])
  [0x24;0x8d;0x6a;0x61;0xd2;0x06;0x38;0xb8;0xe5;0xc0;0x26;0x93;0x0c;0x3e;0x60;0x39;
   0xa3;0x3c;0xe4;0x59;0x64;0xff;0x21;0x67;0xf6;0xec;0xed;0xd4;0x19;0xdb;0x06;0xc1] = true.
Proof. vm_compute. reflexivity. Qed.

(* sha256 of 64 zero bytes = the SSZ zero hash of depth 1 *)
Example sha256_zero64 : bytes_eqb (sha_pair (repeat 0 32) (repeat 0 32))
  [0xf5;0xa5;0xfd;0x42;0xd1;0x6a;0x20;0x30;0x27;0x98;0xef;0x6e;0xd3;0x09;0x97;0x9b;
   0x43;0x00;0x3d;0x23;0x20;0xd9;0xf0;0xe8;0xea;0x98;0x31;0xa9;0x27;0x59;0xfb;0x4b] = true.
Proof. vm_compute. reflexivity. Qed.

(* 1000 x 'a' (16 blocks); reference value from an independent implementation *)
Example sha256_1000a : bytes_eqb (sha256 (repeat 97 1000))
  [0x41;0xed;0xec;0xe4;0x2d;0x63;0xe8;0xd9;0xbf;0x51;0x5a;0x9b;0xa6;0x93;0x2e;0x1c;
   0x20;0xcb;0xc9;0xf5;0xa5;0xd1;0x34;0x64;0x5a;0xdb;0x5d;0xb1;0xb9;0x73;0x7e;0xa3] = true.
Proof. vm_compute. reflexivity. Qed.

(* bytes 0..118 (119 = 64+55: the padding fills the second block exactly) *)
Example sha256_119 : bytes_eqb (sha256 (map N.of_nat (seq 0 119))) [0xda;0x18;0x79;0x7e;0xd7;0xc3;0xa7;0x77;0xf0;0x84;0x7f;0x42;0x97;0x24;0xa2;0xd8;0xcd;0x51;0x38;0xe6;0xed;0x28;0x95;0xc3;0xfa;0x1a;0x6d;0x39;0xd1;0x8f;0x7e;0xc6] = true.
Proof. vm_compute. reflexivity. Qed.
