package main

// pinnedDigests are the digests of the helper sources whose semantics are hand-written in Coq
// (Codec/SszTree.v, Codec/HashProg.v).  Regenerate with `go run ./hashprog -pins` only after
// re-deriving the Coq definitions from the changed Go source.
var pinnedDigests = map[string]string{
	"LegacyValidatorAddresses": "e1277afab6000a40",
	"fastssz/hasher.go":        "2acfdc91b983b528",
	"from0xHex":                "ef32ffe7b49080a5",
	"isAnyVersion":             "5c8b26d2f6861656",
	"leftPad":                  "8bdaa1fe195dc34a",
	"putByteList":              "7e78d2a70994830a",
	"putBytesN":                "ad0700018aaffa4f",
	"putHexBytes20":            "2a8bbc7eda2ac3c3",
	"putK1SigList":             "71f54f749ee739af",
	"to0xHex":                  "c57a6a691bbb3fbd",
}
