package main

// pinnedDigests are the digests of the helper sources whose semantics are hand-written in Coq
// (regenerate with `go run ./hashprog -pins` after re-deriving the Coq definitions).
var pinnedDigests = map[string]string{}
