// hashprog translates the SSZ hash walkers of charon's cluster package (cluster/ssz.go) into terms
// of the Coq DSL Charon.Codec.HashProg.hprog, one per hash (config / definition / lock) and format
// version.  It is a symbolic executor over the Go AST: version tests and the configOnly flag are
// evaluated, calls and closures are inlined, the calls on the fastssz HashWalker are recorded.
// Anything it does not understand makes it FAIL (exit 1): the C12 check then reports the
// correspondence between ssz.go and the Coq model as broken.
//
// Trusted primitives: the helpers putByteList, putBytesN, putHexBytes20, putK1SigList, leftPad,
// to0xHex, from0xHex, isAnyVersion, Definition.LegacyValidatorAddresses and fastssz's hasher.go
// have hand-written Coq counterparts; their source text is pinned by digest here, any change fails.
//
// usage: hashprog -repo /repo -modcache $(go env GOMODCACHE) -out coq/gen/HashProgs.v [-pins]
package main

import (
	"bytes"
	"crypto/sha256"
	"encoding/hex"
	"flag"
	"fmt"
	"go/ast"
	"go/parser"
	"go/printer"
	"go/token"
	"os"
	"path/filepath"
	"reflect"
	"regexp"
	"sort"
	"strconv"
	"strings"
)

// ------------------------------------------------------------------------------------------
// pinned sources

var pinned = map[string]string{
	"putByteList":              "",
	"putK1SigList":             "",
	"putBytesN":                "",
	"putHexBytes20":            "",
	"leftPad":                  "",
	"to0xHex":                  "",
	"from0xHex":                "",
	"isAnyVersion":             "",
	"LegacyValidatorAddresses": "",
	"fastssz/hasher.go":        "",
}

func init() {
	for k, v := range pinnedDigests {
		pinned[k] = v
	}
}

// ------------------------------------------------------------------------------------------
// values

type (
	vStr  string
	vInt  int64
	vBool bool
	vNil  struct{}
	// vErr is a definitely non-nil error, vMayErr an error that is non-nil exactly when the
	// primitive that produced it fails (the failure condition is part of the primitive's model).
	vErr    struct{}
	vMayErr struct{}
	vHasher struct{}
	vPool   struct{}
	vRoot   struct{}
	vOpaque struct{ what string }
	vPkg    string
	vFunc   struct {
		decl *ast.FuncDecl
		lit  *ast.FuncLit
		env  *env
	}
	vSlice []any
	vTuple []any
	vIndex struct {
		buf *opbuf
		pos int
	}
	// rv is a value only known at run time, located by a path in the environment.
	rv struct {
		kind   string // field | bytes | hex0x | hex0xbytes | fromhex | len | u64 | unix | u64list | zero
		scope  int
		path   []string
		typ    string // Go type of the field (for kind field)
		tag    string // ssz tag of the field
		n      int    // fromhex length
		static *string
	}
)

type env struct {
	vars   map[string]any
	parent *env
}

func newEnv(p *env) *env { return &env{vars: map[string]any{}, parent: p} }

func (e *env) get(n string) (any, bool) {
	for x := e; x != nil; x = x.parent {
		if v, ok := x.vars[n]; ok {
			return v, true
		}
	}
	return nil, false
}

func (e *env) set(n string, v any) bool {
	for x := e; x != nil; x = x.parent {
		if _, ok := x.vars[n]; ok {
			x.vars[n] = v
			return true
		}
	}
	return false
}

// ------------------------------------------------------------------------------------------
// recorded operations

type op struct {
	kind string // PutU64 PutU64Const PutBool PutBytes PutBytesN PutHex20 PutByteList PutK1SigList PutU64Array Merk MerkMixin ForEach IfNonEmpty
	path []string
	bexp string // rendered bexp
	n    int64
	decl int // declared size, -1 none
	lim  string
	body []*op
}

type opbuf struct{ ops []*op }

func coqPath(p []string) string {
	q := make([]string, len(p))
	for i, s := range p {
		q[i] = strconv.Quote(s)
	}
	return "[" + strings.Join(q, "; ") + "]"
}

func (o *op) render(ind string) string {
	body := func() string {
		if len(o.body) == 0 {
			return "[]"
		}
		var parts []string
		for _, b := range o.body {
			parts = append(parts, ind+"  "+b.render(ind+"  "))
		}
		return "[\n" + strings.Join(parts, ";\n") + "\n" + ind + "]"
	}
	switch o.kind {
	case "PutU64", "PutBool", "PutHex20":
		return fmt.Sprintf("%s %s", o.kind, coqPath(o.path))
	case "PutU64Const":
		return fmt.Sprintf("PutU64Const %d", o.n)
	case "PutBytes":
		d := "None"
		if o.decl >= 0 {
			d = fmt.Sprintf("(Some %d%%nat)", o.decl)
		}
		return fmt.Sprintf("PutBytes %s %s", o.bexp, d)
	case "PutBytesN", "PutByteList", "PutK1SigList":
		return fmt.Sprintf("%s %s %d%%nat", o.kind, o.bexp, o.n)
	case "PutU64Array":
		return fmt.Sprintf("PutU64Array %s %d", coqPath(o.path), o.n)
	case "Merk":
		return "Merk " + body()
	case "MerkMixin":
		return fmt.Sprintf("MerkMixin %s %s %s", coqPath(o.path), o.lim, body())
	case "ForEach", "IfNonEmpty":
		return fmt.Sprintf("%s %s %s", o.kind, coqPath(o.path), body())
	}
	panic("render: " + o.kind)
}

// ------------------------------------------------------------------------------------------
// the interpreter

type ctrl int

const (
	cNone ctrl = iota
	cReturn
	cContinue
)

type fieldInfo struct {
	typ string
	tag string
}

type interp struct {
	fset    *token.FileSet
	funcs   map[string]*ast.FuncDecl
	methods map[string]*ast.FuncDecl // "Type.Method"
	consts  map[string]ast.Expr
	structs map[string]*ast.StructType
	statics map[string]string // "path.joined" at scope 0 -> static string value
	bufs    []*opbuf
	scope   int
	nscope  int
	depth   int
	ret     []any
	trace   []string
}

type failure struct{ msg string }

func (in *interp) fail(n ast.Node, format string, a ...any) {
	pos := ""
	if n != nil && n.Pos().IsValid() {
		p := in.fset.Position(n.Pos())
		pos = fmt.Sprintf("%s:%d: ", filepath.Base(p.Filename), p.Line)
	}
	src := ""
	if n != nil {
		var b bytes.Buffer
		_ = printer.Fprint(&b, in.fset, n)
		src = b.String()
		if len(src) > 160 {
			src = src[:160] + "..."
		}
		src = " in `" + src + "`"
	}
	panic(failure{pos + fmt.Sprintf(format, a...) + src})
}

func (in *interp) cur() *opbuf { return in.bufs[len(in.bufs)-1] }

func (in *interp) emit(o *op) { in.cur().ops = append(in.cur().ops, o) }

func exprStr(e ast.Expr) string {
	var b bytes.Buffer
	_ = printer.Fprint(&b, token.NewFileSet(), e)
	return b.String()
}

func (in *interp) fieldOf(structName, field string) (fieldInfo, []string, bool) {
	st, ok := in.structs[structName]
	if !ok {
		return fieldInfo{}, nil, false
	}
	for _, f := range st.Fields.List {
		tag := ""
		if f.Tag != nil {
			if s, err := strconv.Unquote(f.Tag.Value); err == nil {
				tag = reflect.StructTag(s).Get("ssz")
			}
		}
		for _, nm := range f.Names {
			if nm.Name == field {
				return fieldInfo{typ: exprStr(f.Type), tag: tag}, []string{field}, true
			}
		}
		if len(f.Names) == 0 && exprStr(f.Type) == field { // embedded struct named explicitly
			return fieldInfo{typ: field, tag: tag}, []string{field}, true
		}
	}
	// promoted through embedded structs
	for _, f := range st.Fields.List {
		if len(f.Names) == 0 {
			emb := exprStr(f.Type)
			if fi, p, ok := in.fieldOf(emb, field); ok {
				return fi, append([]string{emb}, p...), true
			}
		}
	}
	return fieldInfo{}, nil, false
}

func (in *interp) sel(r rv, field string, n ast.Node) rv {
	if r.kind != "field" && r.kind != "zero" {
		in.fail(n, "field %s of a converted value", field)
	}
	fi, p, ok := in.fieldOf(r.typ, field)
	if !ok {
		in.fail(n, "unknown field %s.%s", r.typ, field)
	}
	// an embedded struct named explicitly (l.Definition)
	out := rv{kind: "field", scope: r.scope, path: append(append([]string{}, r.path...), p...), typ: fi.typ, tag: fi.tag}
	if out.scope == 0 {
		if s, ok := in.statics[strings.Join(out.path, ".")]; ok {
			out.static = &s
		}
	}
	return out
}

var reBytesN = regexp.MustCompile(`^Bytes(\d+)$`)
var reElemBytesN = regexp.MustCompile(`,Bytes(\d+)$`)

func declaredSize(tag string) int {
	if m := reBytesN.FindStringSubmatch(tag); m != nil {
		n, _ := strconv.Atoi(m[1])
		return n
	}
	return -1
}

// bexpOf renders a run-time byte string argument and its declared size.
func (in *interp) bexpOf(v any, n ast.Node) (string, int) {
	switch x := v.(type) {
	case vNil:
		return "BNil", -1
	case rv:
		in.needScope(x, n)
		switch x.kind {
		case "field":
			if x.typ == "[]byte" || x.typ == "ethHex" {
				return "(BField " + coqPath(x.path) + ")", declaredSize(x.tag)
			}
			in.fail(n, "byte-string argument of type %s", x.typ)
		case "bytes":
			return "(BField " + coqPath(x.path) + ")", -1
		case "hex0xbytes":
			return "(BHex0x " + coqPath(x.path) + ")", -1
		case "fromhex":
			return fmt.Sprintf("(BFromHex %s %d%%nat)", coqPath(x.path), x.n), x.n
		}
		in.fail(n, "byte-string argument of kind %s", x.kind)
	}
	in.fail(n, "byte-string argument %T", v)
	return "", -1
}

func (in *interp) needScope(x rv, n ast.Node) {
	if x.scope != in.scope {
		in.fail(n, "value of an outer scope used inside a loop (scope %d, now %d)", x.scope, in.scope)
	}
}

func (in *interp) constVal(name string) (any, bool) {
	e, ok := in.consts[name]
	if !ok {
		return nil, false
	}
	return in.eval(e, newEnv(nil)), true
}

func isErrNilTest(e ast.Expr) (string, bool) {
	b, ok := e.(*ast.BinaryExpr)
	if !ok || b.Op != token.NEQ {
		return "", false
	}
	x, ok1 := b.X.(*ast.Ident)
	y, ok2 := b.Y.(*ast.Ident)
	if ok1 && ok2 && y.Name == "nil" {
		return x.Name, true
	}
	return "", false
}

func (in *interp) eval(e ast.Expr, en *env) any {
	switch x := e.(type) {
	case *ast.ParenExpr:
		return in.eval(x.X, en)
	case *ast.BasicLit:
		switch x.Kind {
		case token.STRING:
			s, err := strconv.Unquote(x.Value)
			if err != nil {
				in.fail(x, "string literal")
			}
			return vStr(s)
		case token.INT:
			i, err := strconv.ParseInt(x.Value, 0, 64)
			if err != nil {
				in.fail(x, "int literal")
			}
			return vInt(i)
		}
		in.fail(x, "literal kind")
	case *ast.Ident:
		switch x.Name {
		case "true":
			return vBool(true)
		case "false":
			return vBool(false)
		case "nil":
			return vNil{}
		case "errors", "ssz", "z":
			if _, ok := en.get(x.Name); !ok {
				return vPkg(x.Name)
			}
		}
		if v, ok := en.get(x.Name); ok {
			return v
		}
		if v, ok := in.constVal(x.Name); ok {
			return v
		}
		if fd, ok := in.funcs[x.Name]; ok {
			return vFunc{decl: fd}
		}
		in.fail(x, "unknown identifier %s", x.Name)
	case *ast.FuncLit:
		return vFunc{lit: x, env: en}
	case *ast.CompositeLit:
		// []T{ f1, f2 } of function values; [32]byte{} as an opaque zero
		if at, ok := x.Type.(*ast.ArrayType); ok && at.Len != nil {
			return vOpaque{"array"}
		}
		var out vSlice
		for _, el := range x.Elts {
			v := in.eval(el, en)
			if _, ok := v.(vFunc); !ok {
				in.fail(el, "composite literal element is not a function value")
			}
			out = append(out, v)
		}
		return out
	case *ast.UnaryExpr:
		if x.Op == token.NOT {
			v := in.eval(x.X, en)
			b, ok := v.(vBool)
			if !ok {
				in.fail(x, "negation of a non-static condition")
			}
			return !b
		}
		in.fail(x, "unary operator")
	case *ast.BinaryExpr:
		return in.evalBinary(x, en)
	case *ast.SelectorExpr:
		base := in.eval(x.X, en)
		switch b := base.(type) {
		case rv:
			return in.sel(b, x.Sel.Name, x)
		case vPkg:
			if b == "ssz" && x.Sel.Name == "DefaultHasherPool" {
				return vPool{}
			}
			return vOpaque{string(b) + "." + x.Sel.Name}
		}
		in.fail(x, "selector on %T", base)
	case *ast.TypeAssertExpr:
		v := in.eval(x.X, en)
		if _, ok := v.(vHasher); ok && exprStr(x.Type) == "*ssz.Hasher" {
			return vTuple{vHasher{}, vBool(true)}
		}
		in.fail(x, "type assertion")
	case *ast.CallExpr:
		return in.call(x, en)
	}
	in.fail(e, "unsupported expression %T", e)
	return nil
}

func staticEq(a, b any) (bool, bool) {
	switch x := a.(type) {
	case vStr:
		if y, ok := b.(vStr); ok {
			return x == y, true
		}
	case vInt:
		if y, ok := b.(vInt); ok {
			return x == y, true
		}
	case vBool:
		if y, ok := b.(vBool); ok {
			return x == y, true
		}
	}
	return false, false
}

func staticOf(v any) any {
	if r, ok := v.(rv); ok && r.static != nil {
		return vStr(*r.static)
	}
	return v
}

func (in *interp) evalBinary(x *ast.BinaryExpr, en *env) any {
	switch x.Op {
	case token.LAND, token.LOR:
		a, ok := in.eval(x.X, en).(vBool)
		if !ok {
			in.fail(x, "non-static operand of %s", x.Op)
		}
		if x.Op == token.LAND && !bool(a) {
			return vBool(false)
		}
		if x.Op == token.LOR && bool(a) {
			return vBool(true)
		}
		b, ok := in.eval(x.Y, en).(vBool)
		if !ok {
			in.fail(x, "non-static operand of %s", x.Op)
		}
		return b
	case token.EQL, token.NEQ:
		a, b := in.eval(x.X, en), in.eval(x.Y, en)
		// error tests
		if _, isNil := b.(vNil); isNil {
			switch a.(type) {
			case vNil:
				return vBool(x.Op == token.EQL)
			case vErr:
				return vBool(x.Op == token.NEQ)
			case vMayErr:
				in.fail(x, "test of a primitive's error outside the `if err != nil { return ... }` shape")
			}
		}
		if eq, ok := staticEq(staticOf(a), staticOf(b)); ok {
			return vBool(eq == (x.Op == token.EQL))
		}
		in.fail(x, "comparison of non-static values (%T, %T)", a, b)
	case token.ADD, token.SUB, token.MUL, token.QUO, token.GTR, token.LSS, token.GEQ, token.LEQ:
		a, ok1 := in.eval(x.X, en).(vInt)
		b, ok2 := in.eval(x.Y, en).(vInt)
		if !ok1 || !ok2 {
			in.fail(x, "arithmetic on non-static values")
		}
		switch x.Op {
		case token.ADD:
			return a + b
		case token.SUB:
			return a - b
		case token.MUL:
			return a * b
		case token.QUO:
			if b == 0 {
				in.fail(x, "division by zero")
			}
			return a / b
		case token.GTR:
			return vBool(a > b)
		case token.LSS:
			return vBool(a < b)
		case token.GEQ:
			return vBool(a >= b)
		case token.LEQ:
			return vBool(a <= b)
		}
	}
	in.fail(x, "unsupported binary operator %s", x.Op)
	return nil
}

func (in *interp) call(c *ast.CallExpr, en *env) any {
	// conversions []byte(x)
	if at, ok := c.Fun.(*ast.ArrayType); ok {
		if exprStr(at) != "[]byte" || len(c.Args) != 1 {
			in.fail(c, "conversion")
		}
		v := in.eval(c.Args[0], en)
		r, ok := v.(rv)
		if !ok {
			in.fail(c, "[]byte of a static value")
		}
		switch {
		case r.kind == "field" && r.typ == "string":
			return rv{kind: "bytes", scope: r.scope, path: r.path}
		case r.kind == "field" && (r.typ == "[]byte" || r.typ == "ethHex"):
			return r
		case r.kind == "hex0x":
			return rv{kind: "hex0xbytes", scope: r.scope, path: r.path}
		}
		in.fail(c, "[]byte of %s %s", r.kind, r.typ)
	}
	switch f := c.Fun.(type) {
	case *ast.Ident:
		if _, shadow := en.get(f.Name); !shadow {
			switch f.Name {
			case "len":
				v := in.eval(c.Args[0], en)
				r, ok := v.(rv)
				if !ok || r.kind != "field" || !strings.HasPrefix(r.typ, "[]") {
					in.fail(c, "len of %v", v)
				}
				return rv{kind: "len", scope: r.scope, path: r.path}
			case "uint64", "int", "uint":
				v := in.eval(c.Args[0], en)
				switch r := v.(type) {
				case vInt:
					return r
				case rv:
					switch {
					case r.kind == "len":
						return r
					case r.kind == "unix":
						return rv{kind: "u64", scope: r.scope, path: r.path}
					case r.kind == "field" && (r.typ == "int" || r.typ == "uint" || r.typ == "uint64" || r.typ == "eth2p0.Gwei"):
						return rv{kind: "u64", scope: r.scope, path: r.path}
					}
				}
				in.fail(c, "integer conversion of %v", v)
			case "isAnyVersion":
				v, ok := staticOf(in.eval(c.Args[0], en)).(vStr)
				if !ok {
					in.fail(c, "isAnyVersion on a non-static version")
				}
				for _, a := range c.Args[1:] {
					w, ok := in.eval(a, en).(vStr)
					if !ok {
						in.fail(c, "isAnyVersion argument")
					}
					if w == v {
						return vBool(true)
					}
				}
				return vBool(false)
			case "to0xHex":
				r, ok := in.eval(c.Args[0], en).(rv)
				if !ok || r.kind != "field" || r.typ != "[]byte" {
					in.fail(c, "to0xHex argument")
				}
				return rv{kind: "hex0x", scope: r.scope, path: r.path}
			case "from0xHex":
				r, ok := in.eval(c.Args[0], en).(rv)
				n, ok2 := in.eval(c.Args[1], en).(vInt)
				if !ok || !ok2 || r.kind != "field" || r.typ != "string" {
					in.fail(c, "from0xHex arguments")
				}
				return vTuple{rv{kind: "fromhex", scope: r.scope, path: r.path, n: int(n)}, vMayErr{}}
			case "putByteList", "putK1SigList":
				in.wantHasher(c.Args[0], en)
				b, _ := in.bexpOf(in.eval(c.Args[1], en), c)
				n, ok := in.eval(c.Args[2], en).(vInt)
				if !ok {
					in.fail(c, "limit is not static")
				}
				kind := "PutByteList"
				if f.Name == "putK1SigList" {
					kind = "PutK1SigList"
				}
				in.emit(&op{kind: kind, bexp: b, n: int64(n)})
				return vMayErr{}
			case "putBytesN":
				in.wantHasher(c.Args[0], en)
				b, _ := in.bexpOf(in.eval(c.Args[1], en), c)
				n, ok := in.eval(c.Args[2], en).(vInt)
				if !ok {
					in.fail(c, "size is not static")
				}
				in.emit(&op{kind: "PutBytesN", bexp: b, n: int64(n)})
				return vMayErr{}
			case "putHexBytes20":
				in.wantHasher(c.Args[0], en)
				r, ok := in.eval(c.Args[1], en).(rv)
				if !ok || r.kind != "field" || r.typ != "string" {
					in.fail(c, "putHexBytes20 argument")
				}
				in.needScope(r, c)
				in.emit(&op{kind: "PutHex20", path: r.path})
				return vMayErr{}
			case "leftPad", "append":
				in.fail(c, "%s outside a pinned helper", f.Name)
			}
		}
		fv := in.eval(f, en)
		return in.apply(fv, c, en)
	case *ast.SelectorExpr:
		recv := in.eval(f.X, en)
		switch r := recv.(type) {
		case vPkg:
			switch {
			case r == "errors" && (f.Sel.Name == "New" || f.Sel.Name == "Wrap"):
				return vErr{}
			}
			in.fail(c, "call into package %s", r)
		case vPool:
			if f.Sel.Name == "Get" && len(c.Args) == 0 {
				return vHasher{}
			}
			in.fail(c, "hasher pool method")
		case vHasher:
			return in.hasherCall(f.Sel.Name, c, en)
		case rv:
			switch {
			case f.Sel.Name == "LegacyValidatorAddresses" && r.kind == "field" && r.typ == "Definition":
				fi, p, ok := in.fieldOf("Definition", "ValidatorAddresses")
				if !ok || fi.typ != "[]ValidatorAddresses" {
					in.fail(c, "Definition.ValidatorAddresses")
				}
				return vTuple{rv{kind: "field", scope: r.scope, path: append(append(append([]string{}, r.path...), p...), "#0"), typ: "ValidatorAddresses"}, vMayErr{}}
			case f.Sel.Name == "Unix" && r.kind == "field" && r.typ == "time.Time":
				return rv{kind: "unix", scope: r.scope, path: r.path}
			}
			in.fail(c, "method %s on a run-time value of type %s", f.Sel.Name, r.typ)
		}
		in.fail(c, "method call on %T", recv)
	case *ast.FuncLit:
		return in.apply(in.eval(f, en), c, en)
	}
	in.fail(c, "unsupported call")
	return nil
}

func (in *interp) wantHasher(e ast.Expr, en *env) {
	if _, ok := in.eval(e, en).(vHasher); !ok {
		in.fail(e, "expected the hasher")
	}
}

func (in *interp) hasherCall(name string, c *ast.CallExpr, en *env) any {
	arg := func(i int) any {
		if i >= len(c.Args) {
			in.fail(c, "missing argument")
		}
		return in.eval(c.Args[i], en)
	}
	switch name {
	case "Index":
		return vIndex{buf: in.cur(), pos: len(in.cur().ops)}
	case "PutBytes":
		b, d := in.bexpOf(arg(0), c)
		in.emit(&op{kind: "PutBytes", bexp: b, decl: d})
		return nil
	case "PutUint64":
		switch v := arg(0).(type) {
		case vInt:
			in.emit(&op{kind: "PutU64Const", n: int64(v)})
		case rv:
			if v.kind != "u64" {
				in.fail(c, "PutUint64 of %s", v.kind)
			}
			in.needScope(v, c)
			in.emit(&op{kind: "PutU64", path: v.path})
		default:
			in.fail(c, "PutUint64 argument %T", v)
		}
		return nil
	case "PutBool":
		v, ok := arg(0).(rv)
		if !ok || v.kind != "field" || v.typ != "bool" {
			in.fail(c, "PutBool argument")
		}
		in.needScope(v, c)
		in.emit(&op{kind: "PutBool", path: v.path})
		return nil
	case "PutUint64Array":
		v, ok := arg(0).(rv)
		if !ok || v.kind != "u64list" || len(c.Args) != 2 {
			in.fail(c, "PutUint64Array arguments")
		}
		in.needScope(v, c)
		n, ok := arg(1).(vInt)
		if !ok {
			in.fail(c, "PutUint64Array capacity")
		}
		in.emit(&op{kind: "PutU64Array", path: v.path, n: int64(n)})
		return nil
	case "Merkleize", "MerkleizeWithMixin":
		idx, ok := arg(0).(vIndex)
		if !ok || idx.buf != in.cur() || idx.pos > len(idx.buf.ops) {
			in.fail(c, "index does not belong to the current buffer")
		}
		body := append([]*op{}, idx.buf.ops[idx.pos:]...)
		idx.buf.ops = idx.buf.ops[:idx.pos]
		if name == "Merkleize" {
			in.emit(&op{kind: "Merk", body: body})
			return nil
		}
		num, ok := arg(1).(rv)
		if !ok || num.kind != "len" {
			in.fail(c, "mixed-in number is not uint64(len(field))")
		}
		in.needScope(num, c)
		lim := ""
		switch l := arg(2).(type) {
		case vInt:
			lim = fmt.Sprintf("(LConst %d)", int64(l))
		case rv:
			if l.kind != "len" {
				in.fail(c, "limit")
			}
			in.needScope(l, c)
			lim = "(LLen " + coqPath(l.path) + ")"
		default:
			in.fail(c, "limit %T", l)
		}
		in.emit(&op{kind: "MerkMixin", path: num.path, lim: lim, body: body})
		return nil
	case "HashRoot":
		return vTuple{vRoot{}, vMayErr{}}
	}
	in.fail(c, "hasher method %s is not modelled", name)
	return nil
}

// apply inlines a call of a function value.
func (in *interp) apply(fv any, c *ast.CallExpr, en *env) any {
	f, ok := fv.(vFunc)
	if !ok {
		in.fail(c, "call of a non-function %T", fv)
	}
	var ft *ast.FuncType
	var body *ast.BlockStmt
	parent := f.env
	if f.decl != nil {
		ft, body = f.decl.Type, f.decl.Body
		if _, pinnedFn := pinned[f.decl.Name.Name]; pinnedFn {
			in.fail(c, "pinned helper %s reached by inlining", f.decl.Name.Name)
		}
	} else {
		ft, body = f.lit.Type, f.lit.Body
	}
	args := make([]any, len(c.Args))
	for i, a := range c.Args {
		args[i] = in.eval(a, en)
	}
	fe := newEnv(parent)
	i := 0
	for _, p := range ft.Params.List {
		if len(p.Names) == 0 {
			i++
			continue
		}
		for _, nm := range p.Names {
			if i >= len(args) {
				in.fail(c, "too few arguments")
			}
			fe.vars[nm.Name] = args[i]
			i++
		}
	}
	if i != len(args) {
		in.fail(c, "argument count")
	}
	in.depth++
	if in.depth > 40 {
		in.fail(c, "call depth")
	}
	cc, vals := in.block(body.List, fe)
	in.depth--
	if cc != cReturn {
		if ft.Results != nil && len(ft.Results.List) > 0 {
			in.fail(c, "function ended without return")
		}
		return nil
	}
	if len(vals) == 1 {
		return vals[0]
	}
	return vTuple(vals)
}

func (in *interp) assign(lhs []ast.Expr, v any, define bool, en *env, n ast.Node) {
	var vals []any
	if t, ok := v.(vTuple); ok && len(lhs) > 1 {
		vals = t
	} else {
		vals = []any{v}
	}
	if len(vals) != len(lhs) {
		in.fail(n, "assignment arity")
	}
	for i, l := range lhs {
		id, ok := l.(*ast.Ident)
		if !ok {
			in.fail(n, "assignment target")
		}
		if id.Name == "_" {
			continue
		}
		if define {
			en.vars[id.Name] = vals[i]
		} else if !en.set(id.Name, vals[i]) {
			in.fail(n, "assignment to unknown variable %s", id.Name)
		}
	}
}

func isReturnOnly(b *ast.BlockStmt) bool {
	if len(b.List) != 1 {
		return false
	}
	_, ok := b.List[0].(*ast.ReturnStmt)
	return ok
}

func (in *interp) block(stmts []ast.Stmt, en *env) (ctrl, []any) {
	for _, s := range stmts {
		if c, v := in.stmt(s, en); c != cNone {
			return c, v
		}
	}
	return cNone, nil
}

func (in *interp) stmt(s ast.Stmt, en *env) (ctrl, []any) {
	switch x := s.(type) {
	case *ast.BlockStmt:
		return in.block(x.List, newEnv(en))
	case *ast.ExprStmt:
		in.eval(x.X, en)
		return cNone, nil
	case *ast.DeclStmt:
		gd, ok := x.Decl.(*ast.GenDecl)
		if !ok || gd.Tok != token.VAR {
			in.fail(x, "declaration")
		}
		for _, sp := range gd.Specs {
			vs := sp.(*ast.ValueSpec)
			if len(vs.Values) != 0 {
				if len(vs.Values) != len(vs.Names) {
					in.fail(x, "var with tuple value")
				}
				for i, nm := range vs.Names {
					en.vars[nm.Name] = in.eval(vs.Values[i], en)
				}
				continue
			}
			t := exprStr(vs.Type)
			for _, nm := range vs.Names {
				if _, isStruct := in.structs[t]; isStruct {
					en.vars[nm.Name] = rv{kind: "zero", scope: in.scope, typ: t}
				} else {
					en.vars[nm.Name] = vOpaque{"zero " + t}
				}
			}
		}
		return cNone, nil
	case *ast.AssignStmt:
		if len(x.Rhs) != 1 {
			in.fail(x, "parallel assignment")
		}
		if x.Tok != token.DEFINE && x.Tok != token.ASSIGN {
			in.fail(x, "assignment operator")
		}
		v := in.eval(x.Rhs[0], en)
		in.assign(x.Lhs, v, x.Tok == token.DEFINE, en, x)
		return cNone, nil
	case *ast.DeferStmt:
		if exprStr(x.Call.Fun) == "ssz.DefaultHasherPool.Put" {
			return cNone, nil
		}
		in.fail(x, "defer")
	case *ast.ReturnStmt:
		var vals []any
		for _, r := range x.Results {
			vals = append(vals, in.eval(r, en))
		}
		if len(vals) == 1 {
			if t, ok := vals[0].(vTuple); ok {
				vals = t
			}
		}
		return cReturn, vals
	case *ast.BranchStmt:
		if x.Tok == token.CONTINUE && x.Label == nil {
			return cContinue, nil
		}
		in.fail(x, "branch statement")
	case *ast.IfStmt:
		return in.ifStmt(x, en)
	case *ast.SwitchStmt:
		if x.Init != nil || x.Tag != nil {
			in.fail(x, "switch with tag")
		}
		var def *ast.CaseClause
		for _, cl := range x.Body.List {
			cc := cl.(*ast.CaseClause)
			if cc.List == nil {
				def = cc
				continue
			}
			for _, ce := range cc.List {
				b, ok := in.eval(ce, en).(vBool)
				if !ok {
					in.fail(ce, "non-static switch case")
				}
				if b {
					return in.block(cc.Body, newEnv(en))
				}
			}
		}
		if def != nil {
			return in.block(def.Body, newEnv(en))
		}
		return cNone, nil
	case *ast.RangeStmt:
		return in.rangeStmt(x, en)
	}
	in.fail(s, "unsupported statement %T", s)
	return cNone, nil
}

func (in *interp) ifStmt(x *ast.IfStmt, en *env) (ctrl, []any) {
	ie := newEnv(en)
	if x.Init != nil {
		if c, v := in.stmt(x.Init, ie); c != cNone {
			return c, v
		}
	}
	// `if err != nil { return ... }` on a primitive's error: the failing path is part of the primitive
	if name, ok := isErrNilTest(x.Cond); ok {
		if v, ok := ie.get(name); ok {
			if _, may := v.(vMayErr); may {
				if x.Else != nil || !isReturnOnly(x.Body) {
					in.fail(x, "error test of a primitive with a body other than a single return")
				}
				return cNone, nil
			}
		}
	}
	// `if len(P) > 0 { X = P[0] }`
	if b, ok := x.Cond.(*ast.BinaryExpr); ok && b.Op == token.GTR && x.Else == nil && len(x.Body.List) == 1 {
		if call, ok := b.X.(*ast.CallExpr); ok && exprStr(call.Fun) == "len" && exprStr(b.Y) == "0" {
			if as, ok := x.Body.List[0].(*ast.AssignStmt); ok && as.Tok == token.ASSIGN && len(as.Lhs) == 1 && len(as.Rhs) == 1 {
				if ix, ok := as.Rhs[0].(*ast.IndexExpr); ok && exprStr(ix.X) == exprStr(call.Args[0]) && exprStr(ix.Index) == "0" {
					lst, ok1 := in.eval(ix.X, ie).(rv)
					old, ok2 := in.eval(as.Lhs[0], ie).(rv)
					if ok1 && ok2 && lst.kind == "field" && strings.HasPrefix(lst.typ, "[]") && old.kind == "zero" && old.typ == lst.typ[2:] {
						in.assign(as.Lhs, rv{kind: "field", scope: lst.scope, path: append(append([]string{}, lst.path...), "#0"), typ: lst.typ[2:]}, false, ie, x)
						return cNone, nil
					}
				}
			}
		}
	}
	// `if field != "" { ... }`
	if b, ok := x.Cond.(*ast.BinaryExpr); ok && b.Op == token.NEQ && exprStr(b.Y) == `""` {
		if r, ok := in.eval(b.X, ie).(rv); ok && r.static == nil {
			if r.kind != "field" || r.typ != "string" || x.Else != nil {
				in.fail(x, "run-time string test")
			}
			in.needScope(r, x)
			in.bufs = append(in.bufs, &opbuf{})
			c, _ := in.block(x.Body.List, newEnv(ie))
			body := in.cur().ops
			in.bufs = in.bufs[:len(in.bufs)-1]
			if c != cNone {
				in.fail(x, "control transfer inside a run-time conditional")
			}
			in.emit(&op{kind: "IfNonEmpty", path: r.path, body: body})
			return cNone, nil
		}
	}
	cond, ok := in.eval(x.Cond, ie).(vBool)
	if !ok {
		in.fail(x.Cond, "condition is not static")
	}
	if cond {
		return in.block(x.Body.List, newEnv(ie))
	}
	if x.Else != nil {
		return in.stmt(x.Else, ie)
	}
	return cNone, nil
}

func (in *interp) rangeStmt(x *ast.RangeStmt, en *env) (ctrl, []any) {
	if x.Tok != token.DEFINE {
		in.fail(x, "range without :=")
	}
	if k, ok := x.Key.(*ast.Ident); !ok || k.Name != "_" {
		in.fail(x, "range key is used")
	}
	val, ok := x.Value.(*ast.Ident)
	if !ok {
		in.fail(x, "range value")
	}
	coll := in.eval(x.X, en)
	switch c := coll.(type) {
	case vNil:
		return cNone, nil
	case vSlice:
		for _, el := range c {
			le := newEnv(en)
			le.vars[val.Name] = el
			cc, v := in.block(x.Body.List, le)
			if cc == cReturn {
				return cc, v
			}
		}
		return cNone, nil
	case rv:
		if c.kind != "field" || !strings.HasPrefix(c.typ, "[]") {
			in.fail(x, "range over %s %s", c.kind, c.typ)
		}
		in.needScope(c, x)
		elemT := c.typ[2:]
		// `for _, a := range P { X = append(X, uint64(a)) }`
		if len(x.Body.List) == 1 {
			if as, ok := x.Body.List[0].(*ast.AssignStmt); ok && as.Tok == token.ASSIGN && len(as.Lhs) == 1 && len(as.Rhs) == 1 {
				want := fmt.Sprintf("append(%s, uint64(%s))", exprStr(as.Lhs[0]), val.Name)
				if exprStr(as.Rhs[0]) == want && (elemT == "eth2p0.Gwei" || elemT == "uint64" || elemT == "int") {
					if old, ok := in.eval(as.Lhs[0], en).(vOpaque); ok && old.what == "zero []uint64" {
						in.assign(as.Lhs, rv{kind: "u64list", scope: c.scope, path: c.path}, false, en, x)
						return cNone, nil
					}
				}
			}
		}
		elemTag := ""
		if m := reElemBytesN.FindStringSubmatch(c.tag); m != nil {
			elemTag = "Bytes" + m[1]
		}
		in.nscope++
		saved := in.scope
		in.scope = in.nscope
		in.bufs = append(in.bufs, &opbuf{})
		le := newEnv(en)
		le.vars[val.Name] = rv{kind: "field", scope: in.scope, path: nil, typ: elemT, tag: elemTag}
		cc, _ := in.block(x.Body.List, le)
		body := in.cur().ops
		in.bufs = in.bufs[:len(in.bufs)-1]
		in.scope = saved
		if cc == cReturn {
			in.fail(x, "return inside a run-time loop")
		}
		in.emit(&op{kind: "ForEach", path: c.path, body: body})
		return cNone, nil
	}
	in.fail(x, "range over %T", coll)
	return cNone, nil
}

// ------------------------------------------------------------------------------------------

func digest(s string) string {
	h := sha256.Sum256([]byte(s))
	return hex.EncodeToString(h[:8])
}

func funcText(fset *token.FileSet, fd *ast.FuncDecl) string {
	cp := *fd
	cp.Doc = nil
	var b bytes.Buffer
	_ = printer.Fprint(&b, fset, &cp)
	return b.String()
}

var versions = []string{"v1.0.0", "v1.1.0", "v1.2.0", "v1.3.0", "v1.4.0", "v1.5.0", "v1.6.0", "v1.7.0", "v1.8.0", "v1.9.0", "v1.10.0", "v1.11.0"}

func vname(v string) string {
	p := strings.Split(strings.TrimPrefix(v, "v"), ".")
	return "v" + p[0] + "_" + p[1]
}

func main() {
	repo := flag.String("repo", "/repo", "charon working tree")
	modcache := flag.String("modcache", "", "GOMODCACHE")
	out := flag.String("out", "", "output .v file (stdout when empty)")
	pins := flag.Bool("pins", false, "print the current digests of the pinned helpers and exit")
	flag.Parse()

	fset := token.NewFileSet()
	pkgs, err := parser.ParseDir(fset, filepath.Join(*repo, "cluster"), func(fi os.FileInfo) bool {
		return !strings.HasSuffix(fi.Name(), "_test.go")
	}, parser.ParseComments)
	if err != nil {
		fmt.Fprintln(os.Stderr, "hashprog: parse:", err)
		os.Exit(1)
	}
	pkg, ok := pkgs["cluster"]
	if !ok {
		fmt.Fprintln(os.Stderr, "hashprog: package cluster not found")
		os.Exit(1)
	}
	in := &interp{fset: fset, funcs: map[string]*ast.FuncDecl{}, methods: map[string]*ast.FuncDecl{}, consts: map[string]ast.Expr{}, structs: map[string]*ast.StructType{}}
	var fnames []string
	for fn := range pkg.Files {
		fnames = append(fnames, fn)
	}
	sort.Strings(fnames)
	for _, fn := range fnames {
		for _, d := range pkg.Files[fn].Decls {
			switch x := d.(type) {
			case *ast.FuncDecl:
				if x.Recv == nil {
					in.funcs[x.Name.Name] = x
				} else {
					in.methods[x.Name.Name] = x
				}
			case *ast.GenDecl:
				for _, sp := range x.Specs {
					switch s := sp.(type) {
					case *ast.ValueSpec:
						if x.Tok == token.CONST {
							for i, nm := range s.Names {
								if i < len(s.Values) {
									in.consts[nm.Name] = s.Values[i]
								}
							}
						}
					case *ast.TypeSpec:
						if st, ok := s.Type.(*ast.StructType); ok {
							in.structs[s.Name.Name] = st
						}
					}
				}
			}
		}
	}

	// pinned helpers
	cur := map[string]string{}
	for name := range pinned {
		switch {
		case name == "fastssz/hasher.go":
			gomod, err := os.ReadFile(filepath.Join(*repo, "go.mod"))
			if err != nil {
				fmt.Fprintln(os.Stderr, "hashprog:", err)
				os.Exit(1)
			}
			m := regexp.MustCompile(`github.com/ferranbt/fastssz (v[^\s]+)`).FindSubmatch(gomod)
			if m == nil {
				fmt.Fprintln(os.Stderr, "hashprog: fastssz requirement not found in go.mod")
				os.Exit(1)
			}
			b, err := os.ReadFile(filepath.Join(*modcache, "github.com/ferranbt/fastssz@"+string(m[1]), "hasher.go"))
			if err != nil {
				fmt.Fprintln(os.Stderr, "hashprog:", err)
				os.Exit(1)
			}
			cur[name] = digest(string(b))
		case name == "LegacyValidatorAddresses":
			fd, ok := in.methods[name]
			if !ok {
				fmt.Fprintln(os.Stderr, "hashprog: method not found:", name)
				os.Exit(1)
			}
			cur[name] = digest(funcText(fset, fd))
		default:
			fd, ok := in.funcs[name]
			if !ok {
				fmt.Fprintln(os.Stderr, "hashprog: helper not found:", name)
				os.Exit(1)
			}
			cur[name] = digest(funcText(fset, fd))
		}
	}
	var pnames []string
	for n := range cur {
		pnames = append(pnames, n)
	}
	sort.Strings(pnames)
	if *pins {
		for _, n := range pnames {
			fmt.Printf("\t%q: %q,\n", n, cur[n])
		}
		return
	}
	bad := false
	for _, n := range pnames {
		if cur[n] != pinned[n] {
			fmt.Fprintf(os.Stderr, "hashprog: FAIL: pinned helper %s changed (digest %s, expected %s): its hand-written Coq semantics (Codec/HashProg.v, Codec/SszTree.v) must be re-derived\n", n, cur[n], pinned[n])
			bad = true
		}
	}
	if bad {
		os.Exit(1)
	}

	// the versions of the code must be the versions translated
	{
		have := map[string]bool{}
		for name := range in.consts {
			if regexp.MustCompile(`^v\d+_\d+$`).MatchString(name) {
				if v, ok := in.constVal(name); ok {
					if sv, ok := v.(vStr); ok {
						have[string(sv)] = true
					}
				}
			}
		}
		want := map[string]bool{}
		for _, v := range versions {
			want[v] = true
		}
		if !reflect.DeepEqual(have, want) {
			fmt.Fprintf(os.Stderr, "hashprog: FAIL: the format versions declared in cluster/version.go (%d) are not the ones this translator and the Coq development cover (%d): extend `versions`, Codec/ClusterHash.v and the harness\n", len(have), len(want))
			os.Exit(1)
		}
	}

	type prog struct{ name, text string }
	var progs []prog
	run := func(name, version, entry string, args func() []any, statics map[string]string) {
		defer func() {
			if r := recover(); r != nil {
				if f, ok := r.(failure); ok {
					fmt.Fprintf(os.Stderr, "hashprog: FAIL translating %s: %s\n", name, f.msg)
					os.Exit(1)
				}
				panic(r)
			}
		}()
		in.statics = statics
		in.bufs = []*opbuf{{}}
		in.scope, in.nscope, in.depth = 0, 0, 0
		fd, ok := in.funcs[entry]
		if !ok {
			in.fail(nil, "entry %s not found", entry)
		}
		fe := newEnv(nil)
		i := 0
		a := args()
		for _, p := range fd.Type.Params.List {
			for _, nm := range p.Names {
				fe.vars[nm.Name] = a[i]
				i++
			}
		}
		c, vals := in.block(fd.Body.List, fe)
		if c != cReturn || len(vals) != 2 {
			in.fail(fd, "entry did not return (root, err)")
		}
		if _, ok := vals[0].(vRoot); !ok {
			in.fail(fd, "entry returns %T, not the hasher root (unsupported version?)", vals[0])
		}
		if _, ok := vals[1].(vNil); !ok {
			in.fail(fd, "entry returns a non-nil error")
		}
		if len(in.bufs) != 1 || len(in.bufs[0].ops) != 1 {
			in.fail(fd, "the hasher buffer does not hold exactly one item at HashRoot (%d)", len(in.bufs[0].ops))
		}
		progs = append(progs, prog{name, in.bufs[0].ops[0].render("")})
	}
	for _, v := range versions {
		vv := v
		for _, cfg := range []bool{true, false} {
			nm := "def"
			if cfg {
				nm = "config"
			}
			c := cfg
			run("prog_"+nm+"_"+vname(v), v, "hashDefinition", func() []any {
				return []any{rv{kind: "field", scope: 0, typ: "Definition"}, vBool(c)}
			}, map[string]string{"Version": vv})
		}
		run("prog_lock_"+vname(v), v, "hashLock", func() []any {
			return []any{rv{kind: "field", scope: 0, typ: "Lock"}}
		}, map[string]string{"Definition.Version": vv})
	}

	var sb strings.Builder
	sb.WriteString("(* GENERATED by translator/hashprog from cluster/ssz.go of the checked working tree -- do not edit.\n")
	sb.WriteString("   One hash program per hash function (config hash, definition hash, lock hash) and format version. *)\n")
	sb.WriteString("From Coq Require Import List NArith String.\nFrom Charon Require Import Codec.HashProg.\nImport ListNotations.\nLocal Open Scope string_scope.\nLocal Open Scope N_scope.\n\n")
	for _, p := range progs {
		fmt.Fprintf(&sb, "Definition %s : hprog :=\n%s.\n\n", p.name, p.text)
	}
	sb.WriteString("Definition all_progs : list (string * hprog) := [\n")
	for i, p := range progs {
		sep := ";"
		if i == len(progs)-1 {
			sep = ""
		}
		fmt.Fprintf(&sb, "  (%q, %s)%s\n", strings.TrimPrefix(p.name, "prog_"), p.name, sep)
	}
	sb.WriteString("].\n")
	if *out == "" {
		fmt.Print(sb.String())
		return
	}
	old, _ := os.ReadFile(*out)
	if string(old) == sb.String() {
		return
	}
	if err := os.WriteFile(*out, []byte(sb.String()), 0o644); err != nil {
		fmt.Fprintln(os.Stderr, "hashprog:", err)
		os.Exit(1)
	}
}
