// Command appwire regenerates coq/gen/AppWiring.v from app/app.go (func wireCoreWorkflow) of the
// repository under verification: how the components handed to core.Wire are CONSTRUCTED -- the
// constructor calls with their argument expressions, resolved through the local variables they are
// assigned to -- plus the core.Wire call itself, its options, and every Subscribe*/Register* call made
// on a workflow component outside core.Wire.  The C01 theorems assume one threshold shared by the
// partial-signature store and the aggregator and an aggregator that verifies before publishing; both
// are facts about this construction code, decided in Coq on the generated data (Flow/AppWiringCheck.v).
//
// It FAILS loudly (exit 2) on shapes it can not interpret: no or several core.Wire calls, a Wire
// argument that is not a local variable, a variable of interest assigned inside a function literal or
// whose address is taken, an assignment to a field of a parameter.
package main

import (
	"bytes"
	"flag"
	"fmt"
	"go/ast"
	"go/parser"
	"go/printer"
	"go/token"
	"os"
	"path/filepath"
	"strings"
)

var fset = token.NewFileSet()

func fail(n ast.Node, format string, args ...any) {
	pos := ""
	if n != nil {
		pos = fset.Position(n.Pos()).String() + ": "
	}
	fmt.Fprintf(os.Stderr, "translator/appwire: %s%s\n", pos, fmt.Sprintf(format, args...))
	os.Exit(2)
}

// text prints an expression on one line.
func text(n ast.Node) string {
	var b bytes.Buffer
	_ = printer.Fprint(&b, fset, n)
	s := strings.Join(strings.Fields(b.String()), " ")
	s = strings.ReplaceAll(s, "( ", "(")
	s = strings.ReplaceAll(s, ", )", ")")
	s = strings.ReplaceAll(s, " )", ")")
	var o strings.Builder
	for _, r := range s {
		if r > 126 {
			o.WriteByte('?')
		} else {
			o.WriteRune(r)
		}
	}

	return o.String()
}

func q(s string) string { return `"` + strings.ReplaceAll(s, `"`, `""`) + `"` }

func qlist(l []string) string {
	var qs []string
	for _, s := range l {
		qs = append(qs, q(s))
	}

	return "[" + strings.Join(qs, "; ") + "]"
}

type rhs struct {
	call bool
	fun  string
	args []string
	expr string // whole expression (also for calls)
	node ast.Expr
}

func mkRHS(e ast.Expr) rhs {
	if c, ok := e.(*ast.CallExpr); ok {
		r := rhs{call: true, fun: text(c.Fun), expr: text(e), node: e}
		for _, a := range c.Args {
			r.args = append(r.args, text(a))
		}

		return r
	}

	return rhs{expr: text(e), node: e}
}

type use struct {
	v, method, guard string
	args             []string
}

// walkConds visits every node of n with the stack of enclosing conditions (outermost first):
// "C" inside the body of `if C`, "!(C)" inside its else branch, "loop" inside a for/range body,
// "switch" inside a switch or select, "func literal" inside a function literal.
func walkConds(n ast.Node, stack []string, visit func(ast.Node, []string)) {
	if n == nil {
		return
	}
	push := func(c string) []string { return append(append([]string(nil), stack...), c) }
	ast.Inspect(n, func(m ast.Node) bool {
		if m == nil || m == n {
			if m == n {
				visit(m, stack)
			}

			return m != nil
		}
		switch x := m.(type) {
		case *ast.IfStmt:
			visit(x, stack)
			walkConds(x.Init, stack, visit)
			walkConds(x.Cond, stack, visit)
			walkConds(x.Body, push(text(x.Cond)), visit)
			walkConds(x.Else, push("!("+text(x.Cond)+")"), visit)

			return false
		case *ast.ForStmt:
			visit(x, stack)
			walkConds(x.Init, stack, visit)
			walkConds(x.Cond, stack, visit)
			walkConds(x.Post, stack, visit)
			walkConds(x.Body, push("loop"), visit)

			return false
		case *ast.RangeStmt:
			visit(x, stack)
			walkConds(x.X, stack, visit)
			walkConds(x.Body, push("loop"), visit)

			return false
		case *ast.SwitchStmt:
			visit(x, stack)
			walkConds(x.Init, stack, visit)
			walkConds(x.Tag, stack, visit)
			walkConds(x.Body, push("switch"), visit)

			return false
		case *ast.TypeSwitchStmt:
			visit(x, stack)
			walkConds(x.Body, push("switch"), visit)

			return false
		case *ast.SelectStmt:
			visit(x, stack)
			walkConds(x.Body, push("switch"), visit)

			return false
		case *ast.FuncLit:
			visit(x, stack)
			walkConds(x.Body, push("func literal"), visit)

			return false
		}
		visit(m, stack)

		return true
	})
}

func findFunc(f *ast.File, name string) *ast.FuncDecl {
	var fn *ast.FuncDecl
	for _, d := range f.Decls {
		if fd, ok := d.(*ast.FuncDecl); ok && fd.Recv == nil && fd.Name.Name == name {
			if fn != nil {
				fail(fd, "two functions named %s", name)
			}
			fn = fd
		}
	}
	if fn == nil || fn.Body == nil {
		fail(nil, "func %s not found", name)
	}

	return fn
}

func paramNames(fn *ast.FuncDecl) []string {
	var ps []string
	for _, p := range fn.Type.Params.List {
		for _, n := range p.Names {
			ps = append(ps, n.Name)
		}
	}

	return ps
}

type site struct {
	what  string
	args  []string
	conds []string
}

func emitSites(b *strings.Builder, name string, sites []site) {
	fmt.Fprintf(b, "Definition %s : list site := [\n", name)
	for i, s := range sites {
		sep := ";"
		if i == len(sites)-1 {
			sep = ""
		}
		fmt.Fprintf(b, "  mkSite %s %s %s%s\n", q(s.what), qlist(s.args), qlist(s.conds), sep)
	}
	b.WriteString("].\n\n")
}

func main() {
	repo := flag.String("repo", "/repo", "repository root")
	out := flag.String("out", "", "output .v file (default stdout)")
	flag.Parse()

	path := filepath.Join(*repo, "app", "app.go")
	f, err := parser.ParseFile(fset, path, nil, parser.SkipObjectResolution)
	if err != nil {
		fail(nil, "parse %s: %v", path, err)
	}
	var fn *ast.FuncDecl
	for _, d := range f.Decls {
		if fd, ok := d.(*ast.FuncDecl); ok && fd.Recv == nil && fd.Name.Name == "wireCoreWorkflow" {
			if fn != nil {
				fail(fd, "two functions named wireCoreWorkflow")
			}
			fn = fd
		}
	}
	if fn == nil || fn.Body == nil {
		fail(nil, "func wireCoreWorkflow not found in %s", path)
	}
	var params []string
	isParam := map[string]bool{}
	for _, p := range fn.Type.Params.List {
		for _, n := range p.Names {
			params = append(params, n.Name)
			isParam[n.Name] = true
		}
	}

	// ---- all assignments / declarations of the function, outside and inside function literals
	defs := map[string][]rhs{}
	var order []string
	inLit := map[string]bool{}  // variables assigned inside a function literal
	addrOf := map[string]bool{} // &x taken
	var fieldAssigned []string  // roots x of assignments x.f = ..., x[i] = ... (outside literals and inside)
	plainAssigned := map[string]bool{}
	addDef := func(name string, r rhs, lit bool) {
		if name == "_" {
			return
		}
		if lit {
			inLit[name] = true
			return
		}
		if _, ok := defs[name]; !ok {
			order = append(order, name)
		}
		defs[name] = append(defs[name], r)
	}
	root := func(e ast.Expr) string {
		for {
			switch x := e.(type) {
			case *ast.SelectorExpr:
				e = x.X
			case *ast.IndexExpr:
				e = x.X
			case *ast.StarExpr:
				e = x.X
			case *ast.ParenExpr:
				e = x.X
			case *ast.Ident:
				return x.Name
			default:
				return ""
			}
		}
	}
	var walk func(n ast.Node, lit bool, shadow map[string]bool)
	walk = func(n ast.Node, lit bool, shadow map[string]bool) {
		ast.Inspect(n, func(m ast.Node) bool {
			switch x := m.(type) {
			case *ast.FuncLit:
				sh := map[string]bool{}
				for k := range shadow {
					sh[k] = true
				}
				for _, p := range x.Type.Params.List {
					for _, nm := range p.Names {
						sh[nm.Name] = true
					}
				}
				walk(x.Body, true, sh)

				return false
			case *ast.AssignStmt:
				for i, l := range x.Lhs {
					var r ast.Expr
					if len(x.Rhs) == len(x.Lhs) {
						r = x.Rhs[i]
					} else if len(x.Rhs) == 1 {
						r = x.Rhs[0]
					}
					if id, ok := l.(*ast.Ident); ok {
						if shadow[id.Name] {
							continue
						}
						if x.Tok == token.ASSIGN {
							plainAssigned[id.Name] = true
						}
						if r != nil {
							addDef(id.Name, mkRHS(r), lit)
						}
					} else if rt := root(l); rt != "" && !shadow[rt] {
						fieldAssigned = append(fieldAssigned, rt)
					}
				}
			case *ast.GenDecl:
				for _, sp := range x.Specs {
					vs, ok := sp.(*ast.ValueSpec)
					if !ok {
						continue
					}
					for i, nm := range vs.Names {
						if i < len(vs.Values) {
							addDef(nm.Name, mkRHS(vs.Values[i]), lit)
						} else if len(vs.Values) == 1 {
							addDef(nm.Name, mkRHS(vs.Values[0]), lit)
						} else if vs.Type != nil {
							addDef(nm.Name, rhs{expr: "var " + text(vs.Type)}, lit)
						}
					}
				}
			case *ast.UnaryExpr:
				if x.Op == token.AND {
					if id, ok := x.X.(*ast.Ident); ok && !shadow[id.Name] {
						addrOf[id.Name] = true
					}
				}
			case *ast.IncDecStmt:
				if rt := root(x.X); rt != "" && !shadow[rt] {
					fieldAssigned = append(fieldAssigned, rt)
				}
			}

			return true
		})
	}
	walk(fn.Body, false, map[string]bool{})

	// ---- the core.Wire call (not inside a function literal)
	var wire *ast.CallExpr
	var findWire func(n ast.Node)
	findWire = func(n ast.Node) {
		ast.Inspect(n, func(m ast.Node) bool {
			if _, ok := m.(*ast.FuncLit); ok {
				lit := m.(*ast.FuncLit)
				ast.Inspect(lit.Body, func(k ast.Node) bool {
					if c, ok := k.(*ast.CallExpr); ok && text(c.Fun) == "core.Wire" {
						fail(c, "core.Wire called inside a function literal")
					}

					return true
				})

				return false
			}
			if c, ok := m.(*ast.CallExpr); ok && text(c.Fun) == "core.Wire" {
				if wire != nil {
					fail(c, "core.Wire called more than once")
				}
				wire = c
			}

			return true
		})
	}
	findWire(fn.Body)
	if wire == nil {
		fail(fn, "no core.Wire call in wireCoreWorkflow")
	}
	var wireArgs []string
	optsVar := ""
	for i, a := range wire.Args {
		id, ok := a.(*ast.Ident)
		if !ok {
			fail(a, "core.Wire argument %d is not a local variable: %s", i, text(a))
		}
		if i == len(wire.Args)-1 && wire.Ellipsis.IsValid() {
			optsVar = id.Name
			continue
		}
		wireArgs = append(wireArgs, id.Name)
	}
	var wireOpts []string
	if optsVar != "" {
		ds := defs[optsVar]
		if len(ds) != 1 {
			fail(wire, "the options variable %s of core.Wire is assigned %d times", optsVar, len(ds))
		}
		cl, ok := ds[0].node.(*ast.CompositeLit)
		if !ok {
			fail(wire, "the options variable %s is not a composite literal: %s", optsVar, ds[0].expr)
		}
		for _, e := range cl.Elts {
			wireOpts = append(wireOpts, text(e))
		}
	}

	// ---- variables of interest: Wire arguments and, transitively, local variables among constructor arguments
	interest := map[string]bool{}
	var iorder []string
	var add func(name string, depth int)
	add = func(name string, depth int) {
		if interest[name] || isParam[name] || depth > 4 {
			return
		}
		if _, ok := defs[name]; !ok {
			return
		}
		interest[name] = true
		iorder = append(iorder, name)
		for _, d := range defs[name] {
			if c, ok := d.node.(*ast.CallExpr); ok {
				for _, a := range c.Args {
					if id, ok := a.(*ast.Ident); ok {
						add(id.Name, depth+1)
					}
				}
				if se, ok := c.Fun.(*ast.SelectorExpr); ok {
					if id, ok := se.X.(*ast.Ident); ok {
						add(id.Name, depth+1)
					}
				}
			}
		}
	}
	for _, a := range wireArgs {
		if _, ok := defs[a]; !ok {
			fail(wire, "core.Wire argument %s is not defined in wireCoreWorkflow", a)
		}
		add(a, 0)
	}
	for _, v := range iorder {
		if inLit[v] {
			fail(fn, "variable %s (reaches core.Wire) is assigned inside a function literal", v)
		}
	}
	for _, v := range wireArgs {
		if addrOf[v] {
			fail(fn, "the address of workflow component %s is taken", v)
		}
	}
	for _, rt := range fieldAssigned {
		if isParam[rt] {
			fail(fn, "a field or element of parameter %s is assigned in wireCoreWorkflow", rt)
		}
	}
	for _, p := range params {
		if plainAssigned[p] || inLit[p] {
			fail(fn, "parameter %s is reassigned in wireCoreWorkflow", p)
		}
	}

	// ---- Subscribe*/Register* calls on workflow components outside core.Wire, with the innermost if-condition
	var uses []use
	isWireArg := map[string]bool{}
	for _, a := range wireArgs {
		isWireArg[a] = true
	}
	var scan func(n ast.Node, guard string)
	scan = func(n ast.Node, guard string) {
		ast.Inspect(n, func(m ast.Node) bool {
			switch x := m.(type) {
			case *ast.IfStmt:
				if x.Init != nil {
					scan(x.Init, guard)
				}
				scan(x.Cond, guard)
				scan(x.Body, text(x.Cond))
				if x.Else != nil {
					scan(x.Else, "!("+text(x.Cond)+")")
				}

				return false
			case *ast.CallExpr:
				if se, ok := x.Fun.(*ast.SelectorExpr); ok {
					if id, ok := se.X.(*ast.Ident); ok && isWireArg[id.Name] &&
						(strings.HasPrefix(se.Sel.Name, "Subscribe") || strings.HasPrefix(se.Sel.Name, "Register")) {
						u := use{v: id.Name, method: se.Sel.Name, guard: guard}
						for _, a := range x.Args {
							u.args = append(u.args, text(a))
						}
						uses = append(uses, u)
					}
				}
			}

			return true
		})
	}
	scan(fn.Body, "")

	// ---- SSE subscriptions of wireCoreWorkflow and the sites that create / install what they serve
	var sseSites, cacheSites []site
	handlerRoots := map[string]bool{}
	walkConds(fn.Body, nil, func(m ast.Node, st []string) {
		c, ok := m.(*ast.CallExpr)
		if !ok {
			return
		}
		se, ok := c.Fun.(*ast.SelectorExpr)
		if !ok {
			return
		}
		if id, ok := se.X.(*ast.Ident); ok && id.Name == "sseListener" {
			if len(c.Args) != 1 {
				fail(c, "sseListener.%s with %d arguments", se.Sel.Name, len(c.Args))
			}
			sseSites = append(sseSites, site{what: se.Sel.Name, args: []string{text(c.Args[0])}, conds: st})
			if h, ok := c.Args[0].(*ast.SelectorExpr); ok {
				if r, ok := h.X.(*ast.Ident); ok {
					handlerRoots[r.Name] = true
				}
			} else {
				fail(c, "SSE handler is not a method value: %s", text(c.Args[0]))
			}
		}
	})
	walkConds(fn.Body, nil, func(m ast.Node, st []string) {
		switch x := m.(type) {
		case *ast.AssignStmt:
			for i, l := range x.Lhs {
				if id, ok := l.(*ast.Ident); ok && handlerRoots[id.Name] {
					r := x.Rhs[0]
					if len(x.Rhs) == len(x.Lhs) {
						r = x.Rhs[i]
					}
					cacheSites = append(cacheSites, site{what: "assign " + id.Name, args: []string{text(r)}, conds: st})
				}
			}
		case *ast.CallExpr:
			if se, ok := x.Fun.(*ast.SelectorExpr); ok && strings.HasPrefix(se.Sel.Name, "SetDutiesCache") {
				var as []string
				for _, a := range x.Args {
					as = append(as, text(a))
				}
				cacheSites = append(cacheSites, site{what: "call " + text(x.Fun), args: as, conds: st})
			}
		}
	})

	// ---- construction of the public-share maps handed to validatorapi and to the peer verifier
	var shareSites []site
	shareVars := map[string]bool{"allPubShares": true, "allPubSharesByKey": true}
	walkConds(fn.Body, nil, func(m ast.Node, st []string) {
		switch x := m.(type) {
		case *ast.RangeStmt:
			uses := false
			ast.Inspect(x.Body, func(k ast.Node) bool {
				if as, ok := k.(*ast.AssignStmt); ok {
					for _, l := range as.Lhs {
						if ix, ok := l.(*ast.IndexExpr); ok {
							if id, ok := ix.X.(*ast.Ident); ok && shareVars[id.Name] {
								uses = true
							}
						}
					}
				}

				return true
			})
			if uses {
				k, v := "_", "_"
				if x.Key != nil {
					k = text(x.Key)
				}
				if x.Value != nil {
					v = text(x.Value)
				}
				shareSites = append(shareSites, site{what: "range", args: []string{k, v, text(x.X)}, conds: st})
			}
		case *ast.AssignStmt:
			for i, l := range x.Lhs {
				r := x.Rhs[0]
				if len(x.Rhs) == len(x.Lhs) {
					r = x.Rhs[i]
				}
				switch lx := l.(type) {
				case *ast.IndexExpr:
					if id, ok := lx.X.(*ast.Ident); ok && shareVars[id.Name] {
						shareSites = append(shareSites, site{what: text(l), args: []string{text(r)}, conds: st})
					}
				case *ast.Ident:
					if shareVars[lx.Name] || lx.Name == "pubshare" || lx.Name == "corePubkey" {
						shareSites = append(shareSites, site{what: "assign " + lx.Name, args: []string{text(r)}, conds: st})
					}
				}
			}
		case *ast.CallExpr:
			// the maps must not be handed to anything that could change them, other than the two consumers
			for _, a := range x.Args {
				if id, ok := a.(*ast.Ident); ok && shareVars[id.Name] {
					f := text(x.Fun)
					if f != "validatorapi.NewComponent" && f != "parsigex.NewEth2Verifier" && f != "make" && f != "len" {
						fail(x, "%s is passed to %s: unknown shape", id.Name, f)
					}
				}
			}
		}
	})
	for _, d := range defs["allPubSharesByKey"] {
		shareSites = append(shareSites, site{what: "declare allPubSharesByKey", args: []string{d.expr}})
	}

	// ---- beacon node clients: newETH2Client, configureEth2Client, eth2wrap.NewMultiHTTP
	nec := findFunc(f, "newETH2Client")
	cfg := findFunc(f, "configureEth2Client")
	var clientSites []site
	necAssigned := []string{}
	walkConds(nec.Body, nil, func(m ast.Node, st []string) {
		switch x := m.(type) {
		case *ast.AssignStmt:
			for _, l := range x.Lhs {
				if _, ok := l.(*ast.Ident); !ok {
					necAssigned = append(necAssigned, text(l))
				}
			}
			if len(x.Rhs) == 1 {
				if c, ok := x.Rhs[0].(*ast.CallExpr); ok {
					fnm := text(c.Fun)
					if fnm == "configureEth2Client" || fnm == "eth2wrap.NewSimnetFallbacks" || fnm == "eth2wrap.NewMultiHTTP" {
						id, ok := x.Lhs[0].(*ast.Ident)
						if !ok {
							fail(x, "result of %s is not assigned to a variable", fnm)
						}
						var as []string
						for _, a := range c.Args {
							as = append(as, text(a))
						}
						clientSites = append(clientSites, site{what: id.Name + " <- " + fnm, args: as, conds: st})
					}
				}
			}
		case *ast.CallExpr:
			fnm := text(x.Fun)
			if fnm == "configureEth2Client" || fnm == "eth2wrap.NewSimnetFallbacks" || fnm == "eth2wrap.NewMultiHTTP" {
				// must be the right-hand side of an assignment recorded above
				found := false
				for _, cs := range clientSites {
					if strings.HasSuffix(cs.what, "<- "+fnm) && len(cs.args) == len(x.Args) {
						same := true
						for i, a := range x.Args {
							if cs.args[i] != text(a) {
								same = false
							}
						}
						found = found || same
					}
				}
				if !found {
					fail(x, "call of %s in newETH2Client is not of the form `x, err = %s(...)`", fnm, fnm)
				}
			}
		}
	})
	var cfgSites []site
	walkConds(cfg.Body, nil, func(m ast.Node, st []string) {
		if c, ok := m.(*ast.CallExpr); ok && strings.HasPrefix(text(c.Fun), "eth2wrap.New") {
			var as []string
			for _, a := range c.Args {
				as = append(as, text(a))
			}
			cfgSites = append(cfgSites, site{what: text(c.Fun), args: as, conds: st})
		}
	})
	var callers []site
	for _, d := range f.Decls {
		fd, ok := d.(*ast.FuncDecl)
		if !ok || fd.Body == nil {
			continue
		}
		walkConds(fd.Body, nil, func(m ast.Node, st []string) {
			if c, ok := m.(*ast.CallExpr); ok && text(c.Fun) == "newETH2Client" {
				var as []string
				for _, a := range c.Args {
					as = append(as, text(a))
				}
				callers = append(callers, site{what: fd.Name.Name, args: as, conds: st})
			}
		})
	}
	wpath := filepath.Join(*repo, "app", "eth2wrap", "eth2wrap.go")
	wf, err := parser.ParseFile(fset, wpath, nil, parser.SkipObjectResolution)
	if err != nil {
		fail(nil, "parse %s: %v", wpath, err)
	}
	nmh := findFunc(wf, "NewMultiHTTP")
	if len(nmh.Body.List) != 1 {
		fail(nmh, "eth2wrap.NewMultiHTTP is not a single return statement")
	}
	ret, ok := nmh.Body.List[0].(*ast.ReturnStmt)
	if !ok || len(ret.Results) != 1 {
		fail(nmh, "eth2wrap.NewMultiHTTP is not a single return statement")
	}
	// ---- emit
	var b strings.Builder
	b.WriteString("(* GENERATED by translator/appwire from app/app.go (func wireCoreWorkflow): how the workflow\n")
	b.WriteString("   components handed to core.Wire are constructed.  Regenerated on every check; do not edit. *)\n")
	b.WriteString("From Coq Require Import List String.\nFrom Charon Require Import Flow.AppWiringCheck.\nImport ListNotations.\nLocal Open Scope string_scope.\n\n")
	fmt.Fprintf(&b, "Definition app_params : list string := %s.\n\n", qlist(params))
	fmt.Fprintf(&b, "Definition app_wire_args : list string := %s.\n\n", qlist(wireArgs))
	fmt.Fprintf(&b, "Definition app_wire_opts : list string := %s.\n\n", qlist(wireOpts))
	b.WriteString("Definition app_defs : list vdef := [\n")
	for i, v := range iorder {
		var rs []string
		for _, d := range defs[v] {
			if d.call {
				rs = append(rs, fmt.Sprintf("RCall %s %s", q(d.fun), qlist(d.args)))
			} else {
				rs = append(rs, fmt.Sprintf("RExpr %s", q(d.expr)))
			}
		}
		sep := ";"
		if i == len(iorder)-1 {
			sep = ""
		}
		fmt.Fprintf(&b, "  mkDef %s [%s]%s\n", q(v), strings.Join(rs, "; "), sep)
	}
	b.WriteString("].\n\nDefinition app_hooks : list hook := [\n")
	for i, u := range uses {
		sep := ";"
		if i == len(uses)-1 {
			sep = ""
		}
		fmt.Fprintf(&b, "  mkHook %s %s %s %s%s\n", q(u.v), q(u.method), qlist(u.args), q(u.guard), sep)
	}
	b.WriteString("].\n")

	b.WriteString("\n")
	emitSites(&b, "app_pubshares_sites", shareSites)
	emitSites(&b, "app_sse_subs", sseSites)
	emitSites(&b, "app_cache_sites", cacheSites)
	fmt.Fprintf(&b, "Definition app_neweth2_params : list string := %s.\n\n", qlist(paramNames(nec)))
	emitSites(&b, "app_neweth2_callers", callers)
	emitSites(&b, "app_client_sites", clientSites)
	fmt.Fprintf(&b, "Definition app_neweth2_field_assignments : list string := %s.\n\n", qlist(necAssigned))
	fmt.Fprintf(&b, "Definition app_configure_params : list string := %s.\n\n", qlist(paramNames(cfg)))
	emitSites(&b, "app_configure_sites", cfgSites)
	fmt.Fprintf(&b, "Definition app_multihttp_params : list string := %s.\n\n", qlist(paramNames(nmh)))
	fmt.Fprintf(&b, "Definition app_multihttp_body : string := %s.\n", q(text(ret.Results[0])))

	if *out == "" {
		fmt.Print(b.String())
		return
	}
	old, err := os.ReadFile(*out)
	if err == nil && string(old) == b.String() {
		fmt.Fprintf(os.Stderr, "translator/appwire: %s unchanged (%d definitions, %d hooks)\n", *out, len(iorder), len(uses))
		return
	}
	if err := os.MkdirAll(filepath.Dir(*out), 0o755); err != nil {
		fail(nil, "%v", err)
	}
	if err := os.WriteFile(*out, []byte(b.String()), 0o644); err != nil {
		fail(nil, "%v", err)
	}
	fmt.Fprintf(os.Stderr, "translator/appwire: wrote %s (%d definitions, %d hooks)\n", *out, len(iorder), len(uses))
}
