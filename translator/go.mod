// Translators from /repo's Go source to Coq (go/ast only, no dependencies, no module downloads).
module verif/translator

go 1.22
