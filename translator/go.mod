// Translators from /repo's Go source to Coq (standard library only: go/ast, go/parser).
module verif/translator

go 1.21
