// Command wire regenerates coq/gen/Wiring.v from core/interfaces.go of the repository under
// verification: the producer -> consumer edges that core.Wire installs, the field bindings of the
// wireFuncs literal, and what every WireOption (tracing / tracking / async retry) does to a field.
//
// It understands exactly the statement shapes that occur in Wire and in the With* options and
// FAILS (exit 2, message on stderr) on anything else, so that a change of the wiring can not slip
// past the Coq obligation wiring_ok unnoticed.
package main

import (
	"bytes"
	"flag"
	"fmt"
	"go/ast"
	"go/parser"
	"go/printer"
	"go/token"
	"os"
	"path/filepath"
	"sort"
	"strings"
)

var fset = token.NewFileSet()

func fail(n ast.Node, format string, args ...any) {
	pos := ""
	if n != nil {
		pos = fset.Position(n.Pos()).String() + ": "
	}
	fmt.Fprintf(os.Stderr, "translator/wire: %s%s\n", pos, fmt.Sprintf(format, args...))
	os.Exit(2)
}

func src(n ast.Node) string {
	var b bytes.Buffer
	_ = printer.Fprint(&b, fset, n)
	s := b.String()
	if len(s) > 200 {
		s = s[:200] + "..."
	}
	return s
}

type binding struct{ field, comp, method string }
type edge struct{ pc, pm, cc, cm, kind string }
type wrap struct {
	opt, field string
	clone, w   []string
}

// selOn returns (sel, true) if e is `<name>.<sel>`.
func selOn(e ast.Expr, name string) (string, bool) {
	s, ok := e.(*ast.SelectorExpr)
	if !ok {
		return "", false
	}
	id, ok := s.X.(*ast.Ident)
	if !ok || id.Name != name {
		return "", false
	}
	return s.Sel.Name, true
}

func main() {
	repo := flag.String("repo", "/repo", "repository root")
	out := flag.String("out", "", "output .v file (default stdout)")
	flag.Parse()

	dir := filepath.Join(*repo, "core")
	pkgs, err := parser.ParseDir(fset, dir, func(fi os.FileInfo) bool { return !strings.HasSuffix(fi.Name(), "_test.go") }, parser.SkipObjectResolution)
	if err != nil {
		fail(nil, "parse %s: %v", dir, err)
	}
	pkg, ok := pkgs["core"]
	if !ok {
		fail(nil, "package core not found in %s", dir)
	}

	var wire *ast.FuncDecl
	var files []string
	for name := range pkg.Files {
		files = append(files, name)
	}
	sort.Strings(files)
	for _, name := range files {
		for _, d := range pkg.Files[name].Decls {
			if fd, ok := d.(*ast.FuncDecl); ok && fd.Recv == nil && fd.Name.Name == "Wire" {
				if wire != nil {
					fail(fd, "two functions named Wire")
				}
				if filepath.Base(name) != "interfaces.go" {
					fail(fd, "Wire is expected in core/interfaces.go, found in %s", name)
				}
				wire = fd
			}
		}
	}
	if wire == nil {
		fail(nil, "func Wire not found in %s", dir)
	}

	// parameters: name -> interface type
	ptype := map[string]string{}
	optsParam := ""
	for _, f := range wire.Type.Params.List {
		switch t := f.Type.(type) {
		case *ast.Ident:
			for _, n := range f.Names {
				ptype[n.Name] = t.Name
			}
		case *ast.Ellipsis:
			id, ok := t.Elt.(*ast.Ident)
			if !ok || id.Name != "WireOption" || len(f.Names) != 1 {
				fail(f, "unexpected variadic parameter %s", src(f))
			}
			optsParam = f.Names[0].Name
		default:
			fail(f, "unexpected parameter type %s", src(f))
		}
	}

	var (
		binds    []binding
		byField  = map[string]binding{}
		edges    []edge
		wname    string
		optsDone bool
	)
	resolve := func(n ast.Node, field string) binding {
		b, ok := byField[field]
		if !ok {
			fail(n, "field %s is not bound in the wireFuncs literal", field)
		}
		return b
	}
	for i, st := range wire.Body.List {
		switch s := st.(type) {
		case *ast.AssignStmt:
			if i != 0 || s.Tok != token.DEFINE || len(s.Lhs) != 1 || len(s.Rhs) != 1 {
				fail(s, "unexpected assignment in Wire: %s", src(s))
			}
			wname = s.Lhs[0].(*ast.Ident).Name
			cl, ok := s.Rhs[0].(*ast.CompositeLit)
			if !ok {
				fail(s, "expected a wireFuncs composite literal: %s", src(s))
			}
			if id, ok := cl.Type.(*ast.Ident); !ok || id.Name != "wireFuncs" {
				fail(s, "expected a wireFuncs composite literal: %s", src(s))
			}
			for _, el := range cl.Elts {
				kv, ok := el.(*ast.KeyValueExpr)
				if !ok {
					fail(el, "unkeyed wireFuncs element: %s", src(el))
				}
				key, ok := kv.Key.(*ast.Ident)
				if !ok {
					fail(el, "unexpected key: %s", src(el))
				}
				sel, ok := kv.Value.(*ast.SelectorExpr)
				if !ok {
					fail(el, "wireFuncs field is not bound to <component>.<Method>: %s", src(el))
				}
				x, ok := sel.X.(*ast.Ident)
				if !ok {
					fail(el, "wireFuncs field is not bound to <component>.<Method>: %s", src(el))
				}
				comp, ok := ptype[x.Name]
				if !ok {
					fail(el, "wireFuncs field bound to something that is not a parameter of Wire: %s", src(el))
				}
				if _, dup := byField[key.Name]; dup {
					fail(el, "field %s bound twice", key.Name)
				}
				b := binding{key.Name, comp, sel.Sel.Name}
				binds = append(binds, b)
				byField[key.Name] = b
			}
		case *ast.RangeStmt:
			// for _, opt := range opts { opt(&w) }
			x, ok := s.X.(*ast.Ident)
			if !ok || x.Name != optsParam || optsDone || len(edges) != 0 || len(s.Body.List) != 1 {
				fail(s, "unexpected range statement in Wire: %s", src(s))
			}
			es, ok := s.Body.List[0].(*ast.ExprStmt)
			if !ok {
				fail(s, "unexpected range body in Wire: %s", src(s))
			}
			call, ok := es.X.(*ast.CallExpr)
			v, _ := s.Value.(*ast.Ident)
			if !ok || v == nil || len(call.Args) != 1 {
				fail(s, "unexpected range body in Wire: %s", src(s))
			}
			fn, ok := call.Fun.(*ast.Ident)
			un, ok2 := call.Args[0].(*ast.UnaryExpr)
			if !ok || !ok2 || fn.Name != v.Name || un.Op != token.AND {
				fail(s, "unexpected range body in Wire: %s", src(s))
			}
			if id, ok := un.X.(*ast.Ident); !ok || id.Name != wname {
				fail(s, "unexpected range body in Wire: %s", src(s))
			}
			optsDone = true
		case *ast.ExprStmt:
			call, ok := s.X.(*ast.CallExpr)
			if !ok || len(call.Args) != 1 {
				fail(s, "unexpected statement in Wire: %s", src(s))
			}
			pf, ok := selOn(call.Fun, wname)
			if !ok {
				fail(s, "unexpected statement in Wire (not a call through the wireFuncs value): %s", src(s))
			}
			prod := resolve(s, pf)
			if !strings.HasPrefix(prod.method, "Subscribe") && !strings.HasPrefix(prod.method, "Register") {
				fail(s, "producer side %s.%s is neither a Subscribe* nor a Register* method: %s", prod.comp, prod.method, src(s))
			}
			switch a := call.Args[0].(type) {
			case *ast.SelectorExpr:
				cf, ok := selOn(a, wname)
				if !ok {
					fail(s, "argument is not a wireFuncs field: %s", src(s))
				}
				cons := resolve(s, cf)
				edges = append(edges, edge{prod.comp, prod.method, cons.comp, cons.method, "Direct"})
			case *ast.FuncLit:
				// func(...) error { return w.X(...) }
				if len(a.Body.List) != 1 {
					fail(s, "adapter closure with more than one statement: %s", src(s))
				}
				ret, ok := a.Body.List[0].(*ast.ReturnStmt)
				if !ok || len(ret.Results) != 1 {
					fail(s, "adapter closure is not a single return: %s", src(s))
				}
				inner, ok := ret.Results[0].(*ast.CallExpr)
				if !ok {
					fail(s, "adapter closure does not return a call: %s", src(s))
				}
				cf, ok := selOn(inner.Fun, wname)
				if !ok {
					fail(s, "adapter closure does not call a wireFuncs field: %s", src(s))
				}
				for _, arg := range inner.Args {
					if _, ok := arg.(*ast.Ident); !ok {
						fail(s, "adapter closure passes something other than its own parameters: %s", src(s))
					}
				}
				cons := resolve(s, cf)
				edges = append(edges, edge{prod.comp, prod.method, cons.comp, cons.method, "Adapter"})
			default:
				fail(s, "unexpected argument shape in Wire: %s", src(s))
			}
		default:
			fail(st, "unexpected statement in Wire: %s", src(st))
		}
	}
	if wname == "" || !optsDone {
		fail(wire, "Wire has no wireFuncs literal or does not apply its options")
	}

	// ---- options: every function (literal) in package core taking *wireFuncs
	var wraps []wrap
	isWireFuncsPtr := func(e ast.Expr) bool {
		st, ok := e.(*ast.StarExpr)
		if !ok {
			return false
		}
		id, ok := st.X.(*ast.Ident)
		return ok && id.Name == "wireFuncs"
	}
	seenLits := map[*ast.FuncLit]bool{}
	for _, name := range files {
		f := pkg.Files[name]
		for _, d := range f.Decls {
			fd, ok := d.(*ast.FuncDecl)
			if !ok || fd.Body == nil {
				continue
			}
			for _, p := range fd.Type.Params.List {
				if isWireFuncsPtr(p.Type) {
					fail(fd, "function %s takes *wireFuncs directly: unknown shape", fd.Name.Name)
				}
			}
			returnsOpt := false
			if fd.Type.Results != nil && len(fd.Type.Results.List) == 1 {
				if id, ok := fd.Type.Results.List[0].Type.(*ast.Ident); ok && id.Name == "WireOption" {
					returnsOpt = true
				}
			}
			if !returnsOpt {
				continue
			}
			if len(fd.Body.List) != 1 {
				fail(fd, "option %s: body is not a single return", fd.Name.Name)
			}
			ret, ok := fd.Body.List[0].(*ast.ReturnStmt)
			if !ok || len(ret.Results) != 1 {
				fail(fd, "option %s: body is not a single return", fd.Name.Name)
			}
			lit, ok := ret.Results[0].(*ast.FuncLit)
			if !ok || len(lit.Type.Params.List) != 1 || len(lit.Type.Params.List[0].Names) != 1 || !isWireFuncsPtr(lit.Type.Params.List[0].Type) {
				fail(fd, "option %s: does not return func(w *wireFuncs)", fd.Name.Name)
			}
			seenLits[lit] = true
			wn := lit.Type.Params.List[0].Names[0].Name
			cloneName := ""
			for i, st := range lit.Body.List {
				as, ok := st.(*ast.AssignStmt)
				if !ok || len(as.Lhs) != 1 || len(as.Rhs) != 1 {
					fail(st, "option %s: unexpected statement %s", fd.Name.Name, src(st))
				}
				if i == 0 {
					// clone := *w
					id, ok := as.Lhs[0].(*ast.Ident)
					st2, ok2 := as.Rhs[0].(*ast.StarExpr)
					if !ok || !ok2 || as.Tok != token.DEFINE {
						fail(st, "option %s: first statement is not `clone := *w`: %s", fd.Name.Name, src(st))
					}
					if x, ok := st2.X.(*ast.Ident); !ok || x.Name != wn {
						fail(st, "option %s: first statement is not `clone := *w`: %s", fd.Name.Name, src(st))
					}
					cloneName = id.Name
					continue
				}
				field, ok := selOn(as.Lhs[0], wn)
				if !ok || as.Tok != token.ASSIGN {
					fail(st, "option %s: unexpected assignment %s", fd.Name.Name, src(st))
				}
				if _, ok := byField[field]; !ok {
					fail(st, "option %s assigns unknown field %s", fd.Name.Name, field)
				}
				body, ok := as.Rhs[0].(*ast.FuncLit)
				if !ok {
					fail(st, "option %s: field %s is not replaced by a function literal", fd.Name.Name, field)
				}
				cset, wset := map[string]bool{}, map[string]bool{}
				ast.Inspect(body, func(n ast.Node) bool {
					if id, ok := n.(*ast.Ident); ok && (id.Name == wn || id.Name == cloneName) {
						// every use must be a selector handled below; bare uses are flagged after the walk
						_ = id
					}
					if se, ok := n.(*ast.SelectorExpr); ok {
						if f, ok := selOn(se, cloneName); ok {
							cset[f] = true
						}
						if f, ok := selOn(se, wn); ok {
							wset[f] = true
						}
					}
					return true
				})
				// bare uses of w / clone (passing the struct around) are an unknown shape
				bare := 0
				ast.Inspect(body, func(n ast.Node) bool {
					switch x := n.(type) {
					case *ast.SelectorExpr:
						if id, ok := x.X.(*ast.Ident); ok && (id.Name == wn || id.Name == cloneName) {
							return false
						}
					case *ast.Ident:
						if x.Name == wn || x.Name == cloneName {
							bare++
						}
					}
					return true
				})
				if bare > 0 {
					fail(st, "option %s: field %s uses the wireFuncs value other than through a field", fd.Name.Name, field)
				}
				wr := wrap{opt: fd.Name.Name, field: field}
				for f := range cset {
					wr.clone = append(wr.clone, f)
				}
				for f := range wset {
					wr.w = append(wr.w, f)
				}
				sort.Strings(wr.clone)
				sort.Strings(wr.w)
				wraps = append(wraps, wr)
			}
		}
		// any other function literal with a *wireFuncs parameter is an unknown shape
		ast.Inspect(f, func(n ast.Node) bool {
			if lit, ok := n.(*ast.FuncLit); ok && !seenLits[lit] {
				for _, p := range lit.Type.Params.List {
					if isWireFuncsPtr(p.Type) {
						fail(lit, "function literal taking *wireFuncs outside a recognised option")
					}
				}
			}
			return true
		})
	}

	// ---- emit
	q := func(s string) string { return `"` + s + `"` }
	var b strings.Builder
	b.WriteString("(* GENERATED by translator/wire from core/interfaces.go (func Wire) and the WireOption\n")
	b.WriteString("   constructors of package core.  Regenerated on every check; do not edit. *)\n")
	b.WriteString("From Coq Require Import List String.\nFrom Charon Require Import Flow.WiringCheck.\nImport ListNotations.\nLocal Open Scope string_scope.\n\n")
	b.WriteString("Definition bindings : list binding := [\n")
	for i, x := range binds {
		sep := ";"
		if i == len(binds)-1 {
			sep = ""
		}
		fmt.Fprintf(&b, "  mkBinding %s %s %s%s\n", q(x.field), q(x.comp), q(x.method), sep)
	}
	b.WriteString("].\n\nDefinition edges : list edge := [\n")
	for i, e := range edges {
		sep := ";"
		if i == len(edges)-1 {
			sep = ""
		}
		fmt.Fprintf(&b, "  mkEdge %s %s %s %s %s%s\n", q(e.pc), q(e.pm), q(e.cc), q(e.cm), e.kind, sep)
	}
	b.WriteString("].\n\nDefinition wrappers : list wrapper := [\n")
	for i, w := range wraps {
		sep := ";"
		if i == len(wraps)-1 {
			sep = ""
		}
		ql := func(l []string) string {
			var qs []string
			for _, s := range l {
				qs = append(qs, q(s))
			}
			return "[" + strings.Join(qs, "; ") + "]"
		}
		fmt.Fprintf(&b, "  mkWrapper %s %s %s %s%s\n", q(w.opt), q(w.field), ql(w.clone), ql(w.w), sep)
	}
	b.WriteString("].\n")

	if *out == "" {
		fmt.Print(b.String())
		return
	}
	old, err := os.ReadFile(*out)
	if err == nil && string(old) == b.String() {
		fmt.Fprintf(os.Stderr, "translator/wire: %s unchanged (%d bindings, %d edges, %d wrappers)\n", *out, len(binds), len(edges), len(wraps))
		return
	}
	if err := os.MkdirAll(filepath.Dir(*out), 0o755); err != nil {
		fail(nil, "%v", err)
	}
	if err := os.WriteFile(*out, []byte(b.String()), 0o644); err != nil {
		fail(nil, "%v", err)
	}
	fmt.Fprintf(os.Stderr, "translator/wire: wrote %s (%d bindings, %d edges, %d wrappers)\n", *out, len(binds), len(edges), len(wraps))
}
