// tblsconv part of C08: every conversion between the byte / core / eth2 / tbls representations of keys and
// signatures must be the byte-level identity, pure and history independent. Inputs are adversarially related:
// pairs that agree on every short projection a cache might use as its key (the logging abbreviation
// core.PubKey.String(), the first / last 4 and 8 bytes, a hex prefix), converted in both orders and interleaved
// with failing conversions (wrong lengths, non-hex). Then the C08 aggregate/verify monitor is run with CONVERTED
// keys of two validators whose real group public keys collide on the abbreviation (ground deterministically from
// the seed): the threshold aggregate of B's shares verifies under convert(B) and not under convert(A), and
// partials made with A's shares are not accepted for B.
package tbls

import (
	"crypto/sha256"
	"encoding/binary"
	"encoding/hex"
	"fmt"
	"math/big"
	"math/rand"
	"strings"
	"testing"

	"github.com/obolnetwork/charon/core"
	rtbls "github.com/obolnetwork/charon/tbls"
	"github.com/obolnetwork/charon/tbls/tblsconv"
)

// execConv performs one conversion call (ops conv_*) and renders the outcome; Items[0] is the input
// (a core.PubKey string for conv_pubkey_from_core / conv_verify / conv_core_to_eth2, hex otherwise).
func execConv(c GCall) string {
	in := ""
	if len(c.Items) > 0 {
		in = c.Items[0]
	}
	raw := func() []byte {
		b, err := hex.DecodeString(in)
		if err != nil {
			return nil
		}
		return b
	}
	switch c.Op {
	case "conv_pubkey_from_core":
		pk, err := tblsconv.PubkeyFromCore(core.PubKey(in))
		if err != nil {
			return "error"
		}
		return hex.EncodeToString(pk[:])
	case "conv_core_roundtrip": // bytes -> core.PubKey -> tbls.PublicKey
		cpk, err := core.PubKeyFromBytes(raw())
		if err != nil {
			return "error"
		}
		pk, err := tblsconv.PubkeyFromCore(cpk)
		if err != nil {
			return "error"
		}
		back := core.PubKeyFrom48Bytes(pk)
		if back != cpk {
			return "roundtrip-differs"
		}
		return hex.EncodeToString(pk[:])
	case "conv_core_to_eth2":
		e, err := core.PubKey(in).ToETH2()
		if err != nil {
			return "error"
		}
		return hex.EncodeToString(e[:])
	case "conv_pubkey_from_bytes":
		pk, err := tblsconv.PubkeyFromBytes(raw())
		if err != nil {
			return "error"
		}
		e, err := tblsconv.PubkeyToETH2(pk)
		if err != nil || hex.EncodeToString(e[:]) != hex.EncodeToString(pk[:]) {
			return "eth2-differs"
		}
		return hex.EncodeToString(pk[:])
	case "conv_privkey_from_bytes":
		k, err := tblsconv.PrivkeyFromBytes(raw())
		if err != nil {
			return "error"
		}
		return hex.EncodeToString(k[:])
	case "conv_signature_from_bytes":
		s, err := tblsconv.SignatureFromBytes(raw())
		if err != nil {
			return "error"
		}
		return hex.EncodeToString(s[:])
	case "conv_sig_core": // bytes -> core.Signature -> tbls.Signature -> core.Signature / eth2
		s, err := tblsconv.SigFromCore(core.Signature(raw()))
		if err != nil {
			return "error"
		}
		back := tblsconv.SigToCore(s)
		e := tblsconv.SigToETH2(s)
		if hex.EncodeToString(back) != hex.EncodeToString(s[:]) || hex.EncodeToString(e[:]) != hex.EncodeToString(s[:]) {
			return "roundtrip-differs"
		}
		return hex.EncodeToString(s[:])
	case "conv_verify": // PubkeyFromCore(Items[0]) then tbls.Verify(pk, Msg, Sig)
		pk, err := tblsconv.PubkeyFromCore(core.PubKey(in))
		if err != nil {
			return "conv-error"
		}
		var sig rtbls.Signature
		if !fill(sig[:], c.Sig) {
			return "bad-input"
		}
		if rtbls.Verify(pk, unhex(c.Msg), sig) != nil {
			return "does-not-verify"
		}
		return "verifies"
	}
	return "unknown-op"
}

func corePK(b []byte) string { return "0x" + hex.EncodeToString(b) }

// relatedPair returns two different byte strings of the given length that agree on the named projection.
func relatedPair(r *rand.Rand, n int, proj string) ([]byte, []byte) {
	a, b := randMsg(r, n), randMsg(r, n)
	same := func(lo, hi int) {
		if hi > n {
			hi = n
		}
		copy(b[lo:hi], a[lo:hi])
	}
	switch proj {
	case "abbreviation": // core.PubKey.String(): hex digits 0..2 and 92..94 of a 48-byte key
		same(0, 2)
		same(n-2, n)
	case "first4":
		same(0, 4)
	case "first8":
		same(0, 8)
	case "last4":
		same(n-4, n)
	case "last8":
		same(n-8, n)
	case "first8_last8":
		same(0, 8)
		same(n-8, n)
	case "all_but_one_byte":
		same(0, n)
		b[n/2] ^= 0x40
	}
	if hex.EncodeToString(a) == hex.EncodeToString(b) {
		b[n/2] ^= 1
	}
	return a, b
}

var convProjections = []string{"abbreviation", "first4", "first8", "last4", "last8", "first8_last8", "all_but_one_byte"}

// convCalls builds the conversion sequences over related inputs (every expected value is the byte-level identity).
func convCalls(r *rand.Rand) [][]GCall {
	var seqs [][]GCall
	id := func(op string, in []byte, asCore bool, note string) GCall {
		item := hex.EncodeToString(in)
		if asCore {
			item = corePK(in)
		}
		return GCall{Op: op, Items: []string{item}, Honest: true, Expect: hex.EncodeToString(in), Note: note}
	}
	bad := func(op, item, note string) GCall {
		return GCall{Op: op, Items: []string{item}, Honest: false, Expect: "error", Note: "failing conversion: " + note}
	}
	for _, proj := range convProjections {
		for _, order := range []int{0, 1} {
			a, b := relatedPair(r, 48, proj)
			if order == 1 {
				a, b = b, a
			}
			na, nb := "first key of a pair agreeing on "+proj, "second key of a pair agreeing on "+proj
			var s []GCall
			for _, op := range []string{"conv_pubkey_from_core", "conv_core_to_eth2"} {
				s = append(s, id(op, a, true, na), id(op, b, true, nb),
					bad(op, corePK(a)[:97], "core public key one hex digit short"), id(op, b, true, nb), id(op, a, true, na),
					bad(op, "0x"+strings.Repeat("zz", 48), "non-hex core public key"), id(op, b, true, nb))
			}
			for _, op := range []string{"conv_core_roundtrip", "conv_pubkey_from_bytes"} {
				s = append(s, id(op, a, false, na), id(op, b, false, nb), bad(op, hex.EncodeToString(a[:47]), "47 bytes"),
					id(op, b, false, nb), bad(op, hex.EncodeToString(append(clone(a), 0)), "49 bytes"), id(op, a, false, na), bad(op, "", "empty"))
			}
			ka, kb := relatedPair(r, 32, proj)
			s = append(s, id("conv_privkey_from_bytes", ka, false, na), id("conv_privkey_from_bytes", kb, false, nb),
				bad("conv_privkey_from_bytes", hex.EncodeToString(ka[:31]), "31 bytes"), id("conv_privkey_from_bytes", kb, false, nb), id("conv_privkey_from_bytes", ka, false, na))
			sa, sb := relatedPair(r, 96, proj)
			for _, op := range []string{"conv_signature_from_bytes", "conv_sig_core"} {
				s = append(s, id(op, sa, false, na), id(op, sb, false, nb), bad(op, hex.EncodeToString(sa[:95]), "95 bytes"),
					id(op, sb, false, nb), bad(op, hex.EncodeToString(append(clone(sa), 1)), "97 bytes"), id(op, sa, false, na))
			}
			seqs = append(seqs, s)
		}
	}
	return seqs
}

// grindCollision finds, deterministically from the seed, two secrets whose REAL public keys have the same
// core.PubKey.String() abbreviation.
func grindCollision(seed int64, salt int) (a, b *big.Int, tried int) {
	seen := map[string]*big.Int{}
	for i := 0; i < 200000; i++ {
		var buf [24]byte
		binary.BigEndian.PutUint64(buf[:8], uint64(seed))
		binary.BigEndian.PutUint64(buf[8:16], uint64(salt))
		binary.BigEndian.PutUint64(buf[16:], uint64(i))
		h := sha256.Sum256(buf[:])
		sk := new(big.Int).Mod(new(big.Int).SetBytes(h[:]), order)
		if sk.Sign() == 0 {
			continue
		}
		pk, err := rtbls.SecretToPublicKey(sc(sk))
		if err != nil {
			continue
		}
		ab := core.PubKeyFrom48Bytes(pk).String()
		if o, ok := seen[ab]; ok && o.Cmp(sk) != 0 {
			return o, sk, i + 1
		}
		seen[ab] = sk
	}
	return nil, nil, 200000
}

// convMonitor: two validators A, B with colliding abbreviations, each split t-of-n; the aggregate/verify monitor
// through converted keys, in the given order of first conversion.
func convMonitor(t *testing.T, r *rand.Rand, seed int64, salt, n, th int, msg []byte) []GCall {
	t.Helper()
	sa, sb, _ := grindCollision(seed, salt)
	if sa == nil {
		return nil
	}
	if salt%2 == 1 {
		sa, sb = sb, sa
	}
	agg := func(secret *big.Int) (string, string) {
		var coeffs []*big.Int
		for i := 1; i < th; i++ {
			coeffs = append(coeffs, randScalar(r))
		}
		sh, _, err := splitInsecure(t, secret, n, th, coeffs, r)
		if err != nil {
			t.Fatalf("split: %v", err)
		}
		sub := randSubset(r, n, th)
		ps := map[int]rtbls.Signature{}
		for _, i := range sub {
			sg, err := rtbls.Sign(sh[i], msg)
			if err != nil {
				t.Fatalf("sign: %v", err)
			}
			ps[i] = sg
		}
		ag, err := rtbls.ThresholdAggregate(ps)
		if err != nil {
			t.Fatalf("aggregate: %v", err)
		}
		pk, err := rtbls.SecretToPublicKey(sc(secret))
		if err != nil {
			t.Fatalf("pubkey: %v", err)
		}
		return corePK(pk[:]), hex.EncodeToString(ag[:])
	}
	pa, aggA := agg(sa)
	pb, aggB := agg(sb)
	m := hex.EncodeToString(msg)
	ab := core.PubKey(pa).String()
	mk := func(pk, sig, exp, note string) GCall {
		return GCall{Op: "conv_verify", Items: []string{pk}, Msg: m, Sig: sig, Honest: true, N: n, T: th, Expect: exp,
			Note: note + fmt.Sprintf(" (validators A and B: real group keys with the same logging abbreviation %s, %d-of-%d)", ab, th, n)}
	}
	return []GCall{
		mk(pa, aggA, "verifies", "threshold aggregate of A's shares under convert(A)"),
		mk(pb, aggB, "verifies", "threshold aggregate of B's shares under convert(B)"),
		mk(pb, aggA, "does-not-verify", "aggregate made with A's shares submitted as B's, under convert(B)"),
		mk(pa, aggB, "does-not-verify", "threshold aggregate of B's shares under convert(A)"),
		mk(pb, aggB, "verifies", "threshold aggregate of B's shares under convert(B), again"),
		{Op: "conv_pubkey_from_core", Items: []string{pb}, Honest: true, Expect: pb[2:], Note: "PubkeyFromCore(B) is B"},
		{Op: "conv_pubkey_from_core", Items: []string{pa}, Honest: true, Expect: pa[2:], Note: "PubkeyFromCore(A) is A"},
	}
}
