// History independence, part 2: FAILING calls interleaved with honest calls, for every tbls entry point
// (RecoverPubkey, RecoverSecret, ThresholdAggregate, Verify, VerifyAggregate, ThresholdSplit,
// ThresholdSplitInsecure). A failing call (malformed G1/G2 point at some position, scalar >= r, id 0,
// negative id, empty map, bad threshold, rejecting reader, ...) is followed back to back, on the same
// goroutine, by an honest call, many times over (so that any state recycled between calls — pools,
// caches — is actually reused), in both orders and in bursts. Every honest call's result is compared
// with the value of the pure function, recomputed independently (big.Int Lagrange interpolation /
// polynomial evaluation, images taken with SecretToPublicKey / Sign); every failing call must behave
// the same each time it is repeated.
package tbls

import (
	"encoding/hex"
	"fmt"
	"math/big"
	"math/rand"
	"runtime"
	"strings"
	"testing"

	rtbls "github.com/obolnetwork/charon/tbls"
)

// GCall is one call of a failure-history sequence with everything needed to repeat it, and its expected outcome.
type GCall struct {
	Op     string   `json:"op"` // recover_pubkey | recover_secret | threshold_aggregate | verify | verify_aggregate | split | split_insecure
	IDs    []int    `json:"ids,omitempty"`
	Items  []string `json:"items_hex,omitempty"` // values for IDs (keys / scalars / signatures), or the public keys of verify[_aggregate]
	Msg    string   `json:"msg_hex,omitempty"`
	Sig    string   `json:"sig_hex,omitempty"`
	Secret string   `json:"secret_hex,omitempty"`
	N      int      `json:"n,omitempty"`
	T      int      `json:"t,omitempty"`
	Chunks []string `json:"chunks_hex,omitempty"`
	Honest bool     `json:"honest"`
	Expect string   `json:"expect"` // hex of the result, "ok", "error", "onpoly"/"offpoly"
	Note   string   `json:"note"`
}

func fill(dst []byte, h string) bool {
	b, err := hex.DecodeString(h)
	if err != nil || len(b) != len(dst) {
		return false
	}
	copy(dst, b)
	return true
}

// bigRecover is Lagrange interpolation at 0 over the scalar field, independent of herumi.
func bigRecover(ids []int, vals []*big.Int) *big.Int {
	acc := new(big.Int)
	for i, xi := range ids {
		num, den := big.NewInt(1), big.NewInt(1)
		for j, xj := range ids {
			if i == j {
				continue
			}
			num.Mul(num, big.NewInt(int64(xj)))
			num.Mod(num, order)
			den.Mul(den, big.NewInt(int64(xj-xi)))
			den.Mod(den, order)
		}
		l := new(big.Int).Mul(num, new(big.Int).ModInverse(den, order))
		acc.Add(acc, l.Mul(l, vals[i]))
		acc.Mod(acc, order)
	}
	return acc
}

func bigEval(cs []*big.Int, x int) *big.Int {
	acc := new(big.Int)
	for i := len(cs) - 1; i >= 0; i-- {
		acc.Mul(acc, big.NewInt(int64(x)))
		acc.Add(acc, cs[i])
		acc.Mod(acc, order)
	}
	return acc
}

// onPoly: shares of ids 1..n lie on one polynomial of degree < t with constant term secret.
func onPoly(secret *big.Int, shares []*big.Int, t int) bool {
	n := len(shares)
	if t < 1 || t > n {
		return false
	}
	first := make([]int, t)
	for i := range first {
		first[i] = i + 1
	}
	if bigRecover(first, shares[:t]).Cmp(secret) != 0 {
		return false
	}
	for i := t; i < n; i++ {
		ids := append(append([]int(nil), first[:t-1]...), i+1)
		vals := append(append([]*big.Int(nil), shares[:t-1]...), shares[i])
		if bigRecover(ids, vals).Cmp(secret) != 0 {
			return false
		}
	}
	return true
}

type chunkReader struct{ chunks [][]byte }

func (c *chunkReader) Read(p []byte) (int, error) {
	for i := range p {
		p[i] = 0
	}
	if len(c.chunks) > 0 {
		copy(p, c.chunks[0])
		c.chunks = c.chunks[1:]
	} else {
		for i := range p {
			p[i] = 0xff // exhausted script: every further read is rejected by Deserialize
		}
	}
	return len(p), nil
}

// execG performs the call against the process-wide implementation and renders the outcome.
func execG(t *testing.T, c GCall) string {
	t.Helper()
	if strings.HasPrefix(c.Op, "conv_") {
		return execConv(c)
	}
	switch c.Op {
	case "recover_pubkey":
		m := map[int]rtbls.PublicKey{}
		for i, id := range c.IDs {
			var k rtbls.PublicKey
			if !fill(k[:], c.Items[i]) {
				return "bad-input"
			}
			m[id] = k
		}
		res, err := rtbls.RecoverPubkey(m)
		if err != nil {
			return "error"
		}
		return hex.EncodeToString(res[:])
	case "recover_secret":
		m := map[int]rtbls.PrivateKey{}
		for i, id := range c.IDs {
			var k rtbls.PrivateKey
			if !fill(k[:], c.Items[i]) {
				return "bad-input"
			}
			m[id] = k
		}
		res, err := rtbls.RecoverSecret(m, uint(c.N), uint(c.T))
		if err != nil {
			return "error"
		}
		return hex.EncodeToString(res[:])
	case "threshold_aggregate":
		m := map[int]rtbls.Signature{}
		for i, id := range c.IDs {
			var k rtbls.Signature
			if !fill(k[:], c.Items[i]) {
				return "bad-input"
			}
			m[id] = k
		}
		res, err := rtbls.ThresholdAggregate(m)
		if err != nil {
			return "error"
		}
		return hex.EncodeToString(res[:])
	case "aggregate_verify": // ThresholdAggregate(items under ids), then Verify(public key in Chunks[0], msg, aggregate)
		m := map[int]rtbls.Signature{}
		for i, id := range c.IDs {
			var k rtbls.Signature
			if !fill(k[:], c.Items[i]) {
				return "bad-input"
			}
			m[id] = k
		}
		var pk rtbls.PublicKey
		if len(c.Chunks) != 1 || !fill(pk[:], c.Chunks[0]) {
			return "bad-input"
		}
		agg, err := rtbls.ThresholdAggregate(m)
		if err != nil {
			return "aggregate-error"
		}
		if rtbls.Verify(pk, unhex(c.Msg), agg) != nil {
			return "does-not-verify"
		}
		return "verifies"
	case "verify", "verify_aggregate":
		var sig rtbls.Signature
		if !fill(sig[:], c.Sig) {
			return "bad-input"
		}
		var pks []rtbls.PublicKey
		for _, h := range c.Items {
			var k rtbls.PublicKey
			if !fill(k[:], h) {
				return "bad-input"
			}
			pks = append(pks, k)
		}
		var err error
		if c.Op == "verify" {
			err = rtbls.Verify(pks[0], unhex(c.Msg), sig)
		} else {
			err = rtbls.VerifyAggregate(pks, sig, unhex(c.Msg))
		}
		if err != nil {
			return "error"
		}
		return "ok"
	case "split", "split_insecure":
		var sk rtbls.PrivateKey
		if !fill(sk[:], c.Secret) {
			return "bad-input"
		}
		var sh map[int]rtbls.PrivateKey
		var err error
		if c.Op == "split" {
			sh, err = rtbls.ThresholdSplit(sk, uint(c.N), uint(c.T))
		} else {
			rd := &chunkReader{}
			for _, h := range c.Chunks {
				rd.chunks = append(rd.chunks, unhex(h))
			}
			sh, err = rtbls.ThresholdSplitInsecure(t, sk, uint(c.N), uint(c.T), rd)
		}
		if err != nil {
			return "error"
		}
		var vals []*big.Int
		var parts []string
		for i := 1; i <= c.N; i++ {
			v, ok := sh[i]
			if !ok || len(sh) != c.N {
				return "bad-keys"
			}
			vals = append(vals, bi(v))
			parts = append(parts, hex.EncodeToString(v[:]))
		}
		if c.Op == "split_insecure" {
			return strings.Join(parts, ",")
		}
		if onPoly(bi(sk), vals, c.T) {
			return "onpoly"
		}
		return "offpoly"
	}
	return "unknown-op"
}

// runGCalls replays a failure-history sequence (map iteration order inside tbls is random, so a stale-state
// defect may need several passes); "" if every outcome is the expected one.
func runGCalls(t *testing.T, calls []GCall, passes int) string {
	t.Helper()
	for p := 0; p < passes; p++ {
		for i, c := range calls {
			if got := execG(t, c); got != c.Expect {
				return describeG(i, c, got)
			}
		}
	}
	return ""
}

func short(s string) string {
	if len(s) > 24 {
		return s[:24] + "…"
	}
	return s
}

func describeG(i int, c GCall, got string) string {
	kind := "failing call is not repeatable"
	if c.Honest {
		kind = "honest call returns a value other than the pure function's"
	}
	return fmt.Sprintf("call %d of the sequence, %s(%v) [%s]: %s: got %s, expected %s", i, c.Op, c.IDs, c.Note, kind, short(got), short(c.Expect))
}

func hx32(v *big.Int) string { k := sc(v); return hex.EncodeToString(k[:]) }

// keyset: a split whose scalars the harness knows, with public shares and partial signatures over msg.
type keyset struct {
	n, t   int
	secret *big.Int
	coeffs []*big.Int
	sk     map[int]*big.Int
	pub    map[int]string
	sig    map[int]string
	msg    []byte
}

func newKeyset(t *testing.T, r *rand.Rand, n, th int, msg []byte) (*keyset, bool) {
	t.Helper()
	ks := &keyset{n: n, t: th, secret: randScalar(r), sk: map[int]*big.Int{}, pub: map[int]string{}, sig: map[int]string{}, msg: msg}
	if ks.secret.Sign() == 0 {
		ks.secret.SetInt64(1)
	}
	ks.coeffs = []*big.Int{ks.secret}
	for i := 1; i < th; i++ {
		ks.coeffs = append(ks.coeffs, randScalar(r))
	}
	for i := 1; i <= 2*n; i++ { // ids beyond n are used for the foreign entries of failing calls
		v := bigEval(ks.coeffs, i)
		if v.Sign() == 0 {
			return nil, false
		}
		ks.sk[i] = v
		pk, err := rtbls.SecretToPublicKey(sc(v))
		if err != nil {
			return nil, false
		}
		ks.pub[i] = hex.EncodeToString(pk[:])
		sg, err := rtbls.Sign(sc(v), msg)
		if err != nil {
			return nil, false
		}
		ks.sig[i] = hex.EncodeToString(sg[:])
	}
	return ks, true
}

func (ks *keyset) pkOf(v *big.Int) string {
	pk, err := rtbls.SecretToPublicKey(sc(v))
	if err != nil {
		return "error"
	}
	return hex.EncodeToString(pk[:])
}

func (ks *keyset) sigOf(v *big.Int, msg []byte) string {
	sg, err := rtbls.Sign(sc(v), msg)
	if err != nil {
		return "error"
	}
	return hex.EncodeToString(sg[:])
}

// honest builds an honest call of the given entry point over a random subset, with the pure function's value.
func (ks *keyset) honest(r *rand.Rand, op string) GCall {
	size := 1 + r.Intn(ks.n)
	if r.Intn(3) != 0 && ks.t <= ks.n {
		size = ks.t + r.Intn(ks.n-ks.t+1)
	}
	ids := randSubset(r, ks.n, size)
	var vals []*big.Int
	for _, i := range ids {
		vals = append(vals, ks.sk[i])
	}
	rec := bigRecover(ids, vals)
	c := GCall{Op: op, IDs: ids, Honest: true, N: ks.n, T: ks.t, Note: fmt.Sprintf("honest call over %d of %d shares (t=%d)", size, ks.n, ks.t)}
	switch op {
	case "recover_pubkey":
		for _, i := range ids {
			c.Items = append(c.Items, ks.pub[i])
		}
		c.Expect = ks.pkOf(rec)
	case "recover_secret":
		for _, i := range ids {
			c.Items = append(c.Items, hx32(ks.sk[i]))
		}
		c.Expect = hx32(rec)
	case "threshold_aggregate":
		for _, i := range ids {
			c.Items = append(c.Items, ks.sig[i])
		}
		c.Expect = ks.sigOf(rec, ks.msg)
	case "verify":
		i := ids[0]
		c.IDs = nil
		c.Items = []string{ks.pub[i]}
		c.Msg = hex.EncodeToString(ks.msg)
		if r.Intn(2) == 0 {
			c.Sig, c.Expect, c.Note = ks.sig[i], "ok", "honest call: valid signature"
		} else {
			j := i%ks.n + 1
			c.Sig, c.Expect, c.Note = ks.sig[j], "error", "honest call: well-formed signature of another share"
		}
	case "verify_aggregate":
		c.IDs = nil
		var sgs []rtbls.Signature
		for _, i := range ids {
			c.Items = append(c.Items, ks.pub[i])
			var s rtbls.Signature
			fill(s[:], ks.sig[i])
			sgs = append(sgs, s)
		}
		ag, _ := rtbls.Aggregate(sgs)
		c.Sig, c.Msg, c.Expect = hex.EncodeToString(ag[:]), hex.EncodeToString(ks.msg), "ok"
		if r.Intn(2) == 0 && len(ids) > 1 {
			c.Items = c.Items[1:]
			c.Expect, c.Note = "error", "honest call: aggregate of one more signer than public keys listed"
		}
	case "split_insecure":
		c.IDs = nil
		secret := randScalar(r)
		cs := []*big.Int{secret}
		for i := 1; i < ks.t; i++ {
			v := randScalar(r)
			cs = append(cs, v)
			c.Chunks = append(c.Chunks, hx32(v))
		}
		var parts []string
		for i := 1; i <= ks.n; i++ {
			parts = append(parts, hx32(bigEval(cs, i)))
		}
		c.Secret, c.Expect = hx32(secret), strings.Join(parts, ",")
	case "split":
		c.IDs = nil
		c.Secret, c.Expect = hx32(randScalar(r)), "onpoly"
	}
	return c
}

var ffG1 = strings.Repeat("ff", 48)
var ffG2 = strings.Repeat("ff", 96)

// failing builds the failing-call templates of an entry point; foreign is another key set whose (valid) entries
// accompany the malformed one, under ids that collide (1..n) or do not collide (n+1..2n) with honest calls.
func (ks *keyset) failing(r *rand.Rand, op string, foreign *keyset) []GCall {
	var out []GCall
	n := ks.n
	rnd := func(k int) string { b := make([]byte, k); r.Read(b); b[0] |= 0x80; return hex.EncodeToString(b) }
	mapFail := func(item func(fk *keyset, i int) string, bads map[string]string) {
		for _, base := range []int{0, n} { // ids 1..n or n+1..2n
			ids := make([]int, n)
			for i := range ids {
				ids[i] = base + i + 1
			}
			for pos := 0; pos < n; pos++ {
				for name, bad := range bads {
					if pos > 0 && pos < n-1 && name != "ff" {
						continue
					}
					c := GCall{Op: op, IDs: ids, N: n, T: ks.t, Note: fmt.Sprintf("failing call: %d entries of another key set under ids %d..%d, entry %d malformed (%s)", n, base+1, base+n, pos+1, name)}
					for i, id := range ids {
						if i == pos {
							c.Items = append(c.Items, bad)
						} else {
							c.Items = append(c.Items, item(foreign, id))
						}
					}
					out = append(out, c)
				}
			}
		}
		// id 0, negative id, empty map
		c0 := GCall{Op: op, IDs: []int{0, 1, 2}, N: n, T: ks.t, Note: "failing call: id 0 next to valid entries of another key set"}
		cn := GCall{Op: op, IDs: []int{-1, 1, 2}, N: n, T: ks.t, Note: "failing call: negative id next to valid entries of another key set"}
		for _, id := range []int{n + 1, 1, 2} {
			c0.Items = append(c0.Items, item(foreign, id))
			cn.Items = append(cn.Items, item(foreign, id))
		}
		out = append(out, c0, cn, GCall{Op: op, N: n, T: ks.t, Note: "failing call: empty map"})
	}
	switch op {
	case "recover_pubkey":
		mapFail(func(fk *keyset, i int) string { return fk.pub[i] }, map[string]string{"ff": ffG1, "zero": strings.Repeat("00", 48), "random": rnd(48)})
	case "recover_secret":
		mapFail(func(fk *keyset, i int) string { return hx32(fk.sk[i]) }, map[string]string{"ff": strings.Repeat("ff", 32), "r": hx32(order)})
	case "threshold_aggregate":
		mapFail(func(fk *keyset, i int) string { return fk.sig[i] }, map[string]string{"ff": ffG2, "zero": strings.Repeat("00", 96), "random": rnd(96)})
	case "verify":
		m := hex.EncodeToString(ks.msg)
		out = append(out,
			GCall{Op: op, Items: []string{ffG1}, Msg: m, Sig: ks.sig[1], Note: "failing call: malformed public key, valid signature"},
			GCall{Op: op, Items: []string{ks.pub[1]}, Msg: m, Sig: ffG2, Note: "failing call: valid public key, malformed signature"},
			GCall{Op: op, Items: []string{rnd(48)}, Msg: m, Sig: rnd(96), Note: "failing call: random bytes"})
	case "verify_aggregate":
		m := hex.EncodeToString(ks.msg)
		for pos := 0; pos < n; pos++ {
			c := GCall{Op: op, Msg: m, Sig: foreign.sig[1], Note: fmt.Sprintf("failing call: public key %d of %d malformed", pos+1, n)}
			for i := 1; i <= n; i++ {
				if i-1 == pos {
					c.Items = append(c.Items, ffG1)
				} else {
					c.Items = append(c.Items, foreign.pub[i])
				}
			}
			out = append(out, c)
		}
		out = append(out, GCall{Op: op, Items: []string{foreign.pub[1], foreign.pub[2]}, Msg: m, Sig: ffG2, Note: "failing call: malformed signature"},
			GCall{Op: op, Msg: m, Sig: foreign.sig[1], Note: "failing call: empty public key list"})
	case "split", "split_insecure":
		out = append(out,
			GCall{Op: op, Secret: hx32(foreign.secret), N: n, T: 1, Note: "failing call: threshold 1"},
			GCall{Op: op, Secret: hx32(foreign.secret), N: n, T: 0, Note: "failing call: threshold 0"},
			GCall{Op: op, Secret: hx32(order), N: n, T: ks.t, Note: "failing call: secret = r"})
		if op == "split_insecure" && ks.t > 2 {
			out = append(out, GCall{Op: op, Secret: hx32(foreign.secret), N: n, T: ks.t, Chunks: []string{hx32(foreign.coeffs[1])}, Note: "failing call: the reader delivers one coefficient, then only rejected chunks"})
		}
	}
	return out
}

var failOps = []string{"recover_pubkey", "recover_secret", "threshold_aggregate", "verify", "verify_aggregate", "split", "split_insecure"}

// failureHistory runs the sequences; returns counters and the violations found (first one per block).
func failureHistory(t *testing.T, r *rand.Rand, thorough bool) (blocks, calls int, stats map[string]int, viols []Violation) {
	t.Helper()
	stats = map[string]int{}
	reps := 64
	cfgs := [][2]int{{3, 2}, {4, 3}}
	if thorough {
		reps = 160
		cfgs = [][2]int{{2, 2}, {3, 2}, {4, 2}, {4, 3}, {5, 3}, {7, 5}}
	}
	for ci, cfg := range cfgs {
		n, th := cfg[0], cfg[1]
		msg := randMsg(r, msgLens[(ci+3)%len(msgLens)])
		ks, ok1 := newKeyset(t, r, n, th, msg)
		foreign, ok2 := newKeyset(t, r, n, th, msg)
		if !ok1 || !ok2 {
			continue
		}
		for _, op := range failOps {
			tpls := ks.failing(r, op, foreign)
			for ti, tpl := range tpls {
				if !thorough && ci > 0 && ti%3 != 0 {
					continue // quick: all templates on the first configuration, every third on the others
				}
				for _, single := range []bool{false, true} {
					if single && (ti%4 != 0 || !(op == "recover_pubkey" || op == "threshold_aggregate" || op == "recover_secret")) {
						continue
					}
					blocks++
					var seq []GCall
					fail := ""
					do := func(c GCall) {
						if fail != "" {
							return
						}
						got := execG(t, c)
						if !c.Honest && c.Expect == "" {
							c.Expect = got // first occurrence of the failing call fixes its outcome
						}
						seq = append(seq, c)
						calls++
						if c.Honest {
							stats[op+"_honest"]++
						} else {
							stats[op+"_failing_"+c.Expect[:min(5, len(c.Expect))]]++
						}
						if got != c.Expect {
							fail = describeG(len(seq)-1, c, got)
						}
					}
					old := 0
					if single {
						old = runtime.GOMAXPROCS(1)
					}
					f := tpl
					do(f)
					f.Expect = seq[0].Expect
					k := reps
					if op == "verify" || op == "verify_aggregate" || op == "threshold_aggregate" {
						k = reps / 2 // pairings are slow; still dozens of back-to-back reuses
					}
					if ti > 0 && !thorough {
						k /= 2
					}
					do(ks.honest(r, op)) // both orders: honest right after the first failure ...
					for i := 0; i < k && fail == ""; i++ {
						switch i % 8 {
						case 3: // ... a burst of failing calls, then honest
							do(f)
							do(f)
							do(f)
							do(ks.honest(r, op))
						case 6: // ... honest, honest, fail
							do(ks.honest(r, op))
							do(ks.honest(r, op))
							do(f)
						default:
							do(f)
							do(ks.honest(r, op))
						}
					}
					if single {
						runtime.GOMAXPROCS(old)
					}
					if fail != "" && len(viols) < 6 {
						viols = append(viols, Violation{Key: "history:result-depends-on-earlier-failed-call", What: fail,
							Replay: Scenario{Kind: "fail_sequence", N: n, T: th, GCalls: seq}})
					}
				}
			}
		}
	}
	return blocks, calls, stats, viols
}
