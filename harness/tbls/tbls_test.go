// Correspondence harness for C08: drives the real tbls package (herumi) and records
//   - the Lagrange coefficients herumi applies (RecoverSecret on unit share vectors),
//   - ThresholdSplitInsecure with a scripted reader (exact shares),
//   - ThresholdSplit (CSPRNG; relational check in Coq),
//   - RecoverSecret on sampled share subsets (also below the threshold),
//
// for evaluation against coq/Tbls/ShamirZ.v, and runs the group-side monitors directly on the real
// curve: every subset of >= t shares recovers secret / group public key / group signature, and a
// single substitution of a share, an index or a message verifies exactly in the degenerate cases
// named by the theorems wrong_share_sig_iff / wrong_index_iff / wrong_message_iff.
package tbls

import (
	"bytes"
	"encoding/hex"
	"fmt"
	"math/big"
	"math/rand"
	"sort"
	"testing"

	rtbls "github.com/obolnetwork/charon/tbls"

	"verif/harness/hx"
)

var order, _ = new(big.Int).SetString("73eda753299d7d483339d80809a1d80553bda402fffe5bfeffffffff00000001", 16)

func sc(v *big.Int) rtbls.PrivateKey {
	var p rtbls.PrivateKey
	v.FillBytes(p[:])
	return p
}

func bi(p rtbls.PrivateKey) *big.Int { return new(big.Int).SetBytes(p[:]) }

func dec(v *big.Int) string { return v.String() }

func undec(s string) *big.Int {
	v, ok := new(big.Int).SetString(s, 10)
	if !ok {
		panic("bad decimal " + s)
	}
	return v
}

func randScalar(r *rand.Rand) *big.Int {
	b := make([]byte, 40)
	r.Read(b)
	return new(big.Int).Mod(new(big.Int).SetBytes(b), order)
}

// scripted reader: hands out the scripted 32-byte chunks, then PRNG chunks; records all of them.
type reader struct {
	script []*big.Int
	r      *rand.Rand
	given  []*big.Int
}

func (rd *reader) Read(p []byte) (int, error) {
	var v *big.Int
	if len(rd.script) > 0 {
		v, rd.script = rd.script[0], rd.script[1:]
	} else {
		v = randScalar(rd.r)
	}
	rd.given = append(rd.given, v)
	for i := range p {
		p[i] = 0
	}
	b := v.Bytes()
	copy(p[len(p)-len(b):], b)
	return len(p), nil
}

type LagCase struct {
	ID     int      `json:"id"`
	IDs    []int    `json:"ids"`
	Coeffs []string `json:"coeffs"`
}

type SplitCase struct {
	ID     int      `json:"id"`
	Kind   string   `json:"kind"`
	Secret string   `json:"secret"`
	N      int      `json:"n"`
	T      int      `json:"t"`
	Chunks []string `json:"chunks"`
	OK     bool     `json:"ok"`
	Shares []string `json:"shares"`
}

type SecureCase struct {
	ID     int      `json:"id"`
	Secret string   `json:"secret"`
	N      int      `json:"n"`
	T      int      `json:"t"`
	Shares []string `json:"shares"`
}

type RecCase struct {
	ID     int      `json:"id"`
	T      int      `json:"t"`
	IDs    []int    `json:"ids"`
	Vals   []string `json:"vals"`
	OK     bool     `json:"ok"`
	Result string   `json:"result"`
}

// Scenario is one group-side monitor evaluation; it is also the replay format.
type Scenario struct {
	Kind    string   `json:"kind"` // positive | wrong_share | wrong_index | moved_index | wrong_message
	Secret  string   `json:"secret"`
	Coeffs  []string `json:"coeffs"` // higher coefficients handed to ThresholdSplitInsecure through the reader
	N       int      `json:"n"`
	T       int      `json:"t"`
	S       []int    `json:"s"`
	J       int      `json:"j,omitempty"`        // substituted position
	K       int      `json:"k,omitempty"`        // other index
	Foreign string   `json:"foreign,omitempty"`  // foreign secret for wrong_share
	Msg     string   `json:"msg_hex"`            // message, hex (lengths 0, 1, 31, 32, 33, 64, 96 are cycled)
	Msg2    string   `json:"msg2_hex,omitempty"` // the other message of wrong_message, related to Msg
	Calls   []Call   `json:"calls,omitempty"`    // kind "sequence": the call sequence against the process-wide tbls implementation
	GCalls  []GCall  `json:"gcalls,omitempty"`   // kind "fail_sequence": failing calls interleaved with honest calls (failhist_test.go)
	Shares  []string `json:"shares,omitempty"`   // explicit shares of ids 1..n (ThresholdSplit output) instead of Coeffs
	Shape   string   `json:"shape,omitempty"`
}

// Call is one Verify / VerifyAggregate call of a stateful sequence with the verdict the (pure) model gives.
type Call struct {
	Op     string   `json:"op"` // verify | verify_aggregate
	PKs    []string `json:"pks_hex"`
	Msg    string   `json:"msg_hex"`
	Sig    string   `json:"sig_hex"`
	Expect bool     `json:"expect"`
	Note   string   `json:"note"`
}

type Violation struct {
	Key    string   `json:"key"`
	What   string   `json:"what"`
	Replay Scenario `json:"replay"`
}

type Out struct {
	Lagrange    []LagCase      `json:"lagrange"`
	Split       []SplitCase    `json:"split"`
	Secure      []SecureCase   `json:"secure"`
	Recover     []RecCase      `json:"recover"`
	GroupEvals  int            `json:"group_evals"`
	GroupKinds  map[string]int `json:"group_kinds"`
	Degenerate  int            `json:"degenerate_expected_verifies"`
	Violations  []Violation    `json:"violations"`
	Dist        map[string]int `json:"dist"`
	Broken      []string       `json:"broken"` // correspondence breaks that are not property violations
	HistCalls   int            `json:"history_calls"`
	HistBlocks  int            `json:"history_blocks"`
	HistStats   map[string]int `json:"history_stats"`
	FailBlocks  int            `json:"failure_history_sequences"`
	FailCalls   int            `json:"failure_history_calls"`
	FailStats   map[string]int `json:"failure_history_stats"`
	AliasBlocks int            `json:"alias_sequences"`
	FarIDCalls  int            `json:"far_id_calls"`
	ConvCalls   int            `json:"conversion_calls"`
	ConvGround  int            `json:"conversion_monitor_pairs"`
	Distinct    int            `json:"distinct_scenarios"`
	Samples     []Scenario     `json:"samples"`
}

func subsetsOf(n int, minSize int) [][]int {
	var out [][]int
	for mask := 1; mask < 1<<n; mask++ {
		var s []int
		for i := 0; i < n; i++ {
			if mask&(1<<i) != 0 {
				s = append(s, i+1)
			}
		}
		if len(s) >= minSize {
			out = append(out, s)
		}
	}
	return out
}

func randSubset(r *rand.Rand, n, size int) []int {
	p := r.Perm(n)[:size]
	for i := range p {
		p[i]++
	}
	sort.Ints(p)
	return p
}

// lagrange: RecoverSecret on the unit vector e_i over the id set S yields herumi's coefficient of share i.
func lagrange(t *testing.T, ids []int) []string {
	t.Helper()
	var out []string
	for _, i := range ids {
		sh := map[int]rtbls.PrivateKey{}
		for _, k := range ids {
			if k == i {
				sh[k] = sc(big.NewInt(1))
			} else {
				sh[k] = sc(big.NewInt(0))
			}
		}
		res, err := rtbls.RecoverSecret(sh, uint(len(ids)), uint(len(ids)))
		if err != nil {
			return nil // reported by the caller: the model has coefficients for every set of distinct non-zero ids
		}
		out = append(out, dec(bi(res)))
	}
	return out
}

func splitInsecure(t *testing.T, secret *big.Int, n, th int, script []*big.Int, r *rand.Rand) (map[int]rtbls.PrivateKey, []*big.Int, error) {
	t.Helper()
	rd := &reader{script: script, r: r}
	var sk rtbls.PrivateKey
	if secret.Cmp(new(big.Int).Lsh(big.NewInt(1), 256)) < 0 {
		sk = sc(secret)
	}
	sh, err := rtbls.ThresholdSplitInsecure(t, sk, uint(n), uint(th), rd)
	return sh, rd.given, err
}

func decs(vs []*big.Int) []string {
	out := make([]string, len(vs))
	for i, v := range vs {
		out[i] = dec(v)
	}
	return out
}

func sharesList(sh map[int]rtbls.PrivateKey, n int) []string {
	out := make([]string, 0, n)
	for i := 1; i <= n; i++ {
		v, ok := sh[i]
		if !ok {
			return nil
		}
		out = append(out, dec(bi(v)))
	}
	return out
}

func pick(sh map[int]rtbls.PrivateKey, s []int) map[int]rtbls.PrivateKey {
	out := map[int]rtbls.PrivateKey{}
	for _, i := range s {
		out[i] = sh[i]
	}
	return out
}

// runScenario evaluates one group-side monitor on the real curve; returns "" or a description of the failure,
// and whether the scenario was a degenerate one in which the substituted combination is expected to verify.
func runScenario(t *testing.T, s Scenario) (string, bool) {
	t.Helper()
	if s.Kind == "sequence" {
		return runCalls(s.Calls), false
	}
	if s.Kind == "fail_sequence" {
		return runGCalls(t, s.GCalls, 5), false
	}
	if s.Kind == "alias" {
		return aliasBlock(t, s), false
	}
	secret := undec(s.Secret)
	var script []*big.Int
	for _, c := range s.Coeffs {
		script = append(script, undec(c))
	}
	var sh map[int]rtbls.PrivateKey
	if len(s.Shares) > 0 {
		sh = map[int]rtbls.PrivateKey{}
		for i, v := range s.Shares {
			sh[i+1] = sc(undec(v))
		}
	} else {
		var err error
		sh, _, err = splitInsecure(t, secret, s.N, s.T, script, rand.New(rand.NewSource(1)))
		if err != nil {
			return "split failed: " + err.Error(), false
		}
	}
	msg := unhex(s.Msg)
	groupPK, err := rtbls.SecretToPublicKey(sc(secret))
	if err != nil {
		return "group public key: " + err.Error(), false
	}
	groupSig, err := rtbls.Sign(sc(secret), msg)
	if err != nil {
		return "group signature: " + err.Error(), false
	}
	sigOf := func(key rtbls.PrivateKey, m []byte) rtbls.Signature {
		sg, err := rtbls.Sign(key, m)
		if err != nil {
			t.Fatalf("sign: %v", err)
		}
		return sg
	}
	sigs := map[int]rtbls.Signature{}
	for _, i := range s.S {
		sigs[i] = sigOf(sh[i], msg)
	}

	switch s.Kind {
	case "positive":
		rec, err := rtbls.RecoverSecret(pick(sh, s.S), uint(s.N), uint(s.T))
		if err != nil {
			return "RecoverSecret: " + err.Error(), false
		}
		if bi(rec).Cmp(secret) != 0 {
			return fmt.Sprintf("RecoverSecret over %v = %s, secret = %s", s.S, dec(bi(rec)), s.Secret), false
		}
		pubs := map[int]rtbls.PublicKey{}
		for _, i := range s.S {
			pk, err := rtbls.SecretToPublicKey(sh[i])
			if err != nil {
				pubs = nil // a zero share has no public key in herumi (SecretToPublicKey refuses): skip the public-key part
				break
			}
			pubs[i] = pk
		}
		if pubs != nil {
			rpk, err := rtbls.RecoverPubkey(pubs)
			if err != nil {
				return "RecoverPubkey: " + err.Error(), false
			}
			if rpk != groupPK {
				return fmt.Sprintf("RecoverPubkey over %v differs from the public key of the secret", s.S), false
			}
		}
		agg, err := rtbls.ThresholdAggregate(sigs)
		if err != nil {
			return "ThresholdAggregate: " + err.Error(), false
		}
		if agg != groupSig {
			return fmt.Sprintf("ThresholdAggregate over %v differs from the signature of the undivided key", s.S), false
		}
		if err := rtbls.Verify(groupPK, msg, agg); err != nil {
			return fmt.Sprintf("aggregate over %v does not verify under the group key: %v", s.S, err), false
		}
		return "", false
	}

	// negative kinds: expected verdict by the iff theorems (H(m) = 0 does not occur for a hash-to-curve output)
	expect := false
	switch s.Kind {
	case "wrong_share":
		f := undec(s.Foreign)
		sigs[s.J] = sigOf(sc(f), msg)
		expect = f.Cmp(bi(sh[s.J])) == 0
	case "wrong_index": // the partial signature of share K presented under index J (J in S)
		sigs[s.J] = sigOf(sh[s.K], msg)
		expect = bi(sh[s.K]).Cmp(bi(sh[s.J])) == 0
	case "moved_index": // the partial signature of share J presented under index K not in S, J dropped
		delete(sigs, s.J)
		sigs[s.K] = sigOf(sh[s.J], msg)
		expect = bi(sh[s.K]).Cmp(bi(sh[s.J])) == 0
	case "wrong_message":
		sigs[s.J] = sigOf(sh[s.J], unhex(s.Msg2))
		expect = bi(sh[s.J]).Sign() == 0 || s.Msg2 == s.Msg
	default:
		return "unknown scenario kind " + s.Kind, false
	}
	agg, err := rtbls.ThresholdAggregate(sigs)
	if err != nil {
		return "ThresholdAggregate: " + err.Error(), expect
	}
	got := rtbls.Verify(groupPK, msg, agg) == nil
	if got != expect {
		return fmt.Sprintf("%s at position %d (other index %d) over %v: verifies=%v, theorem says %v", s.Kind, s.J, s.K, s.S, got, expect), expect
	}
	if got != (agg == groupSig) {
		return fmt.Sprintf("%s: verification verdict %v but equality with the group signature is %v", s.Kind, got, agg == groupSig), expect
	}
	return "", expect
}

func notIn(s []int, n int) []int {
	in := map[int]bool{}
	for _, i := range s {
		in[i] = true
	}
	var out []int
	for i := 1; i <= n; i++ {
		if !in[i] {
			out = append(out, i)
		}
	}
	return out
}

func unhex(s string) []byte {
	b, err := hex.DecodeString(s)
	if err != nil {
		panic("bad hex " + s)
	}
	return b
}

var msgLens = []int{0, 1, 31, 32, 33, 64, 96}

func randMsg(r *rand.Rand, n int) []byte {
	b := make([]byte, n)
	r.Read(b)
	return b
}

func cat(bs ...[]byte) []byte {
	var out []byte
	for _, b := range bs {
		out = append(out, b...)
	}
	return out
}

// relatedMsgs returns messages different from a that share structure with it: same 32-byte prefix and
// another / a longer tail, truncations, zero extensions, trailing zeros stripped, same tail and another prefix.
func relatedMsgs(r *rand.Rand, a []byte) [][]byte {
	var out [][]byte
	add := func(b []byte) {
		if bytes.Equal(a, b) {
			return
		}
		for _, o := range out {
			if bytes.Equal(o, b) {
				return
			}
		}
		out = append(out, b)
	}
	add(cat(a, randMsg(r, 1)))
	add(cat(a, randMsg(r, 32)))
	add(cat(a, []byte{0}))
	add(cat(a, make([]byte, 32)))
	if len(a) < 32 {
		add(cat(a, make([]byte, 32-len(a))))                // zero-extended to 32 bytes
		add(cat(a, make([]byte, 32-len(a)), randMsg(r, 8))) // ... and a tail
	}
	if len(a) > 32 {
		add(a[:32])
		f := append([]byte(nil), a...)
		f[32] ^= 0x01 // same 32-byte prefix, other tail
		add(f)
		f = append([]byte(nil), a...)
		f[len(f)-1] ^= 0x80
		add(f)
		add(cat(a[:32], randMsg(r, len(a)-32)))
	}
	if len(a) > 0 {
		add(a[:len(a)-1])
		add(a[1:])
		add([]byte{})
		f := append([]byte(nil), a...)
		f[0] ^= 0x01 // same tail, other prefix
		add(f)
		z := a
		for len(z) > 0 && z[len(z)-1] == 0 {
			z = z[:len(z)-1]
		}
		add(z) // trailing zeros stripped
	}
	if len(a) > 31 {
		add(a[:31])
	}
	return out
}

func pkHex(pks []rtbls.PublicKey) []string {
	out := make([]string, len(pks))
	for i, p := range pks {
		out[i] = hex.EncodeToString(p[:])
	}
	return out
}

// doCall performs one call against the process-wide implementation and returns its verdict.
func doCall(c Call) (bool, string) {
	var sig rtbls.Signature
	sb := unhex(c.Sig)
	if len(sb) != len(sig) {
		return false, "bad signature length"
	}
	copy(sig[:], sb)
	var pks []rtbls.PublicKey
	for _, h := range c.PKs {
		var pk rtbls.PublicKey
		b := unhex(h)
		if len(b) != len(pk) {
			return false, "bad public key length"
		}
		copy(pk[:], b)
		pks = append(pks, pk)
	}
	switch c.Op {
	case "verify":
		return rtbls.Verify(pks[0], unhex(c.Msg), sig) == nil, ""
	case "verify_aggregate":
		return rtbls.VerifyAggregate(pks, sig, unhex(c.Msg)) == nil, ""
	}
	return false, "unknown op " + c.Op
}

// runCalls replays a call sequence; "" if every verdict is the model's.
func runCalls(calls []Call) string {
	for i, c := range calls {
		got, bad := doCall(c)
		if bad != "" {
			return bad
		}
		if got != c.Expect {
			return fmt.Sprintf("call %d of the sequence (%s, %d-byte message; %s): verdict %v, the pure verification function gives %v", i, c.Op, len(c.Msg)/2, c.Note, got, c.Expect)
		}
	}
	return ""
}

// entity: a key whose discrete logarithm the harness knows.
type entity struct {
	name string
	sk   *big.Int
	pk   rtbls.PublicKey
}

type sigInfo struct {
	sk  *big.Int // discrete log of the signature w.r.t. H(msg): sum of the signers' secrets
	msg []byte
	sig rtbls.Signature
	by  string
}

// historyBlock builds and runs one stateful sequence: after every successful verification the same
// signature is re-offered for related messages and related public keys, wrong calls are repeated, and
// positives are re-checked. Returns the calls made and the description of the first wrong verdict.
func historyBlock(t *testing.T, r *rand.Rand, n, th, msgLen int, trailingZeros bool) ([]Call, string, map[string]int) {
	t.Helper()
	stats := map[string]int{}
	secret := randScalar(r)
	if secret.Sign() == 0 {
		secret.SetInt64(1)
	}
	sh, _, err := splitInsecure(t, secret, n, th, nil, r)
	if err != nil {
		return nil, "split: " + err.Error(), stats
	}
	mk := func(name string, v *big.Int) (entity, bool) {
		pk, err := rtbls.SecretToPublicKey(sc(v))
		return entity{name: name, sk: v, pk: pk}, err == nil
	}
	group, _ := mk("group", secret)
	var shares []entity
	for i := 1; i <= n; i++ {
		if e, ok := mk(fmt.Sprintf("share%d", i), bi(sh[i])); ok {
			shares = append(shares, e)
		}
	}
	foreign, _ := mk("foreign", randScalar(r))
	if len(shares) < 2 {
		return nil, "", stats
	}
	a := randMsg(r, msgLen)
	if trailingZeros && msgLen >= 3 {
		a[msgLen-1], a[msgLen-2] = 0, 0
	}
	rel := relatedMsgs(r, a)

	var calls []Call
	fail := ""
	verify := func(pk entity, m []byte, s sigInfo, note string) bool {
		if fail != "" {
			return false
		}
		c := Call{Op: "verify", PKs: pkHex([]rtbls.PublicKey{pk.pk}), Msg: hex.EncodeToString(m), Sig: hex.EncodeToString(s.sig[:]),
			Expect: pk.sk.Cmp(s.sk) == 0 && bytes.Equal(m, s.msg),
			Note:   fmt.Sprintf("%s; public key of %s, signature by %s over a %d-byte message", note, pk.name, s.by, len(s.msg))}
		calls = append(calls, c)
		got, _ := doCall(c)
		stats[fmt.Sprintf("verify_expect_%v", c.Expect)]++
		if got != c.Expect {
			fail = fmt.Sprintf("call %d of the sequence (Verify, %d-byte message; %s): verdict %v, the pure verification function gives %v", len(calls)-1, len(m), c.Note, got, c.Expect)
		}
		return got
	}
	sign := func(e entity, m []byte) sigInfo {
		sg, err := rtbls.Sign(sc(e.sk), m)
		if err != nil {
			t.Fatalf("sign: %v", err)
		}
		return sigInfo{sk: e.sk, msg: m, sig: sg, by: e.name}
	}
	// the group signature obtained by threshold aggregation over a random subset of >= t shares
	thresholdSig := func(m []byte) sigInfo {
		sub := randSubset(r, n, th+r.Intn(n-th+1))
		ps := map[int]rtbls.Signature{}
		for _, i := range sub {
			sg, err := rtbls.Sign(sh[i], m)
			if err != nil {
				t.Fatalf("sign: %v", err)
			}
			ps[i] = sg
		}
		agg, err := rtbls.ThresholdAggregate(ps)
		if err != nil {
			t.Fatalf("aggregate: %v", err)
		}
		return sigInfo{sk: secret, msg: m, sig: agg, by: fmt.Sprintf("threshold aggregate of shares %v", sub)}
	}

	type signer struct {
		e   entity
		sig func(m []byte) sigInfo
	}
	others := func(e entity) []entity {
		var out []entity
		for _, o := range append([]entity{group, foreign}, shares...) {
			if o.name != e.name {
				out = append(out, o)
			}
		}
		r.Shuffle(len(out), func(i, j int) { out[i], out[j] = out[j], out[i] })
		if len(out) > 3 {
			out = out[:3]
		}
		return out
	}
	signers := []signer{
		{group, thresholdSig},
		{shares[r.Intn(len(shares))], nil},
		{foreign, nil},
	}
	for _, sg := range signers {
		e := sg.e
		mkSig := sg.sig
		if mkSig == nil {
			mkSig = func(m []byte) sigInfo { return sign(e, m) }
		}
		sa := mkSig(a)
		verify(e, rel[0], sa, "before any success: related message")
		verify(e, a, sa, "first verification")
		for _, b := range rel {
			verify(e, b, sa, "after the success: same signature, related message")
			verify(e, b, sa, "repeat of the wrong call")
		}
		verify(e, a, sa, "the valid call again")
		for _, o := range others(e) {
			verify(o, a, sa, "after the success: same signature and message, related public key")
			verify(o, a, sa, "repeat of the wrong call")
			so := sign(o, a)
			verify(o, a, so, "valid call for the related public key")
			verify(e, a, so, "signature of the related key under the first public key")
			verify(o, a, sa, "wrong call once more after the related key's success")
		}
		for k, b := range rel {
			if k%3 != 0 {
				continue
			}
			sb := mkSig(b)
			verify(e, b, sb, "valid call for a related message")
			verify(e, a, sb, "signature over the related message offered for the first message")
			verify(e, b, sa, "signature over the first message offered for the related message, again")
			verify(e, a, sa, "the first valid call again")
		}
	}

	// VerifyAggregate (FastAggregateVerify) over all public shares, as cluster.Lock.VerifySignatures uses it
	if fail == "" && len(shares) == n {
		aggOf := func(es []entity, m []byte) sigInfo {
			var sgs []rtbls.Signature
			sum := new(big.Int)
			for _, e := range es {
				sgs = append(sgs, sign(e, m).sig)
				sum.Add(sum, e.sk)
			}
			ag, err := rtbls.Aggregate(sgs)
			if err != nil {
				t.Fatalf("aggregate: %v", err)
			}
			return sigInfo{sk: sum.Mod(sum, order), msg: m, sig: ag, by: fmt.Sprintf("aggregate of %d signers", len(es))}
		}
		vagg := func(es []entity, m []byte, s sigInfo, note string) {
			if fail != "" {
				return
			}
			var pks []rtbls.PublicKey
			sum := new(big.Int)
			for _, e := range es {
				pks = append(pks, e.pk)
				sum.Add(sum, e.sk)
			}
			sum.Mod(sum, order)
			c := Call{Op: "verify_aggregate", PKs: pkHex(pks), Msg: hex.EncodeToString(m), Sig: hex.EncodeToString(s.sig[:]),
				Expect: sum.Cmp(s.sk) == 0 && bytes.Equal(m, s.msg), Note: fmt.Sprintf("%s; %d public keys, signature: %s over a %d-byte message", note, len(es), s.by, len(s.msg))}
			calls = append(calls, c)
			got, _ := doCall(c)
			stats[fmt.Sprintf("verify_aggregate_expect_%v", c.Expect)]++
			if got != c.Expect {
				fail = fmt.Sprintf("call %d of the sequence (VerifyAggregate, %d-byte message; %s): verdict %v, the pure verification function gives %v", len(calls)-1, len(m), c.Note, got, c.Expect)
			}
		}
		sa := aggOf(shares, a)
		vagg(shares, rel[0], sa, "before any success: related message")
		vagg(shares, a, sa, "first verification")
		for _, b := range rel {
			vagg(shares, b, sa, "after the success: same signature, related message")
			vagg(shares, b, sa, "repeat of the wrong call")
		}
		vagg(shares[1:], a, sa, "one public key dropped")
		repl := append([]entity{foreign}, shares[1:]...)
		vagg(repl, a, sa, "one public key replaced by a foreign one")
		vagg(repl, a, sa, "repeat of the wrong call")
		vagg(repl, a, aggOf(repl, a), "valid call for the related key set")
		vagg(shares, a, sa, "the valid call again")
		// a single-key aggregate equals a plain signature: the two entrances must not leak into each other
		one := aggOf(shares[:1], a)
		vagg(shares[:1], a, one, "single-key aggregate")
		verify(shares[0], a, one, "plain Verify of the single-key aggregate")
		verify(shares[0], rel[0], one, "... offered for a related message")
		vagg(shares[:1], rel[0], one, "... and through VerifyAggregate")
	}
	return calls, fail, stats
}

func TestGen(t *testing.T) {
	out := Out{GroupKinds: map[string]int{}, Dist: map[string]int{}}
	var replay Scenario
	if ok, err := hx.ReadReplay(&replay); ok {
		if err != nil {
			t.Fatal(err)
		}
		out.GroupEvals = 1
		out.GroupKinds[replay.Kind]++
		if what, _ := runScenario(t, replay); what != "" {
			out.Violations = append(out.Violations, Violation{Key: "group:" + replay.Kind, What: what, Replay: replay})
		}
		if err := hx.WriteJSON("tbls_cases.json", out); err != nil {
			t.Fatal(err)
		}
		return
	}

	r := hx.Rand()
	thorough := hx.Thorough()

	gmax := 6
	if thorough {
		gmax = 7
	}
	sampledMax := 10

	// ---- A. Lagrange coefficients
	var sets [][]int
	if thorough {
		sets = subsetsOf(10, 1)
	} else {
		sets = subsetsOf(7, 1)
		for i := 0; i < 60; i++ {
			sets = append(sets, randSubset(r, 10, 2+r.Intn(9)))
		}
	}
	// id sets with large, wrapped (mod 256 / 2^16 / 2^32) and negative ids: the model computes over Z
	sets = append(sets, []int{257, 2, 3}, []int{1, 257}, []int{1, 2, 259}, []int{1, 257, 513}, []int{65537, 2, 3}, []int{1, 65537},
		[]int{2147483647, 1, 2}, []int{2147483649, 2, 3}, []int{4294967297, 2, 3}, []int{1, 4294967297}, []int{-255, 2, 3}, []int{-1, 1}, []int{255, 256, 257, 258})
	for i := 0; i < 12; i++ {
		s := randSubset(r, 7, 2+r.Intn(4))
		s[r.Intn(len(s))] += 256 * (1 + r.Intn(300))
		sets = append(sets, s)
	}
	for _, s := range sets {
		cs := lagrange(t, s)
		if cs == nil {
			out.Broken = append(out.Broken, fmt.Sprintf("RecoverSecret fails on the distinct non-zero share ids %v", s))
			continue
		}
		out.Lagrange = append(out.Lagrange, LagCase{ID: len(out.Lagrange), IDs: s, Coeffs: cs})
		out.Dist[fmt.Sprintf("lagrange_size_%d", len(s))]++
	}

	// ---- B. ThresholdSplitInsecure with a scripted reader
	addSplit := func(kind string, secret *big.Int, n, th int, script []*big.Int) (map[int]rtbls.PrivateKey, []*big.Int) {
		sh, given, err := splitInsecure(t, secret, n, th, script, r)
		c := SplitCase{ID: len(out.Split), Kind: kind, Secret: dec(secret), N: n, T: th, Chunks: decs(given), OK: err == nil}
		if err == nil {
			c.Shares = sharesList(sh, n)
			if c.Shares == nil {
				t.Fatalf("split returned a map without keys 1..%d", n)
			}
		}
		out.Split = append(out.Split, c)
		out.Dist["split_"+kind]++
		return sh, given
	}
	maxN := 7
	if thorough {
		maxN = 10
	}
	rm1 := new(big.Int).Sub(order, big.NewInt(1))
	for n := 2; n <= maxN; n++ {
		for th := 2; th <= n; th++ {
			reps := 1
			if thorough {
				reps = 3
			}
			for k := 0; k < reps; k++ {
				addSplit("random", randScalar(r), n, th, nil)
			}
			// retries: chunks >= r are skipped by generateInsecureSecret
			addSplit("retry", randScalar(r), n, th, []*big.Int{order, new(big.Int).Add(order, big.NewInt(5)), new(big.Int).Lsh(big.NewInt(1), 255), rm1, new(big.Int).Sub(new(big.Int).Lsh(big.NewInt(1), 256), big.NewInt(1))})
			// edge coefficients 0, 1, r-1
			addSplit("edge", []*big.Int{big.NewInt(0), big.NewInt(1), rm1, randScalar(r)}[r.Intn(4)], n, th, []*big.Int{big.NewInt(0), rm1, big.NewInt(1), big.NewInt(0)})
		}
	}
	addSplit("more_than_255_shares", randScalar(r), 300, 3, nil)
	addSplit("threshold_1", randScalar(r), 3, 1, nil)
	addSplit("threshold_0", randScalar(r), 3, 0, nil)
	addSplit("threshold_gt_total", randScalar(r), 2, 3, nil)
	addSplit("secret_ge_r", new(big.Int).Set(order), 3, 2, nil)
	addSplit("secret_ge_r", new(big.Int).Add(order, big.NewInt(1)), 3, 2, nil)
	{
		var bad []*big.Int
		for i := 0; i < 100; i++ {
			bad = append(bad, new(big.Int).Add(order, big.NewInt(int64(i))))
		}
		addSplit("reader_100_rejects", randScalar(r), 3, 2, bad)
		addSplit("reader_99_rejects", randScalar(r), 3, 2, bad[:99])
	}

	seen := map[string]bool{}
	eval := func(s Scenario) {
		out.GroupEvals++
		out.GroupKinds[s.Kind]++
		key := fmt.Sprintf("%s|%d|%d|%v|%d|%d|%s|%v", s.Kind, s.N, s.T, s.S, s.J, s.K, s.Shape, len(s.Shares) > 0)
		if !seen[key] {
			seen[key] = true
			if s.Kind != "positive" && len(out.Samples) < 3 && len(s.S) >= 3 {
				out.Samples = append(out.Samples, s)
			}
		}
		what, expect := runScenario(t, s)
		if expect {
			out.Degenerate++
		}
		if what != "" && len(out.Violations) < 20 {
			out.Violations = append(out.Violations, Violation{Key: "group:" + s.Kind, What: what, Replay: s})
		}
	}

	// ---- C. ThresholdSplit (CSPRNG)
	for n := 2; n <= maxN; n++ {
		for th := 2; th <= n; th++ {
			secret := randScalar(r)
			sh, err := rtbls.ThresholdSplit(sc(secret), uint(n), uint(th))
			if err != nil {
				t.Fatalf("ThresholdSplit: %v", err)
			}
			l := sharesList(sh, n)
			if l == nil || len(sh) != n {
				t.Fatalf("ThresholdSplit returned a map without exactly the keys 1..%d", n)
			}
			out.Secure = append(out.Secure, SecureCase{ID: len(out.Secure), Secret: dec(secret), N: n, T: th, Shares: l})
			// group-side monitors on the CSPRNG split as well (subsets exhaustive for small n, sampled above)
			var subs [][]int
			if n <= 6 {
				subs = subsetsOf(n, th)
			} else {
				for i := 0; i < 10; i++ {
					subs = append(subs, randSubset(r, n, th+r.Intn(n-th+1)))
				}
			}
			for _, s := range subs {
				eval(Scenario{Kind: "positive", Secret: dec(secret), N: n, T: th, S: s, Shares: l, Msg: hex.EncodeToString(randMsg(r, msgLens[(n+th+len(s))%len(msgLens)])), Shape: "csprng"})
			}
		}
	}

	// ---- D/E. per (n, t): polynomial, recover comparisons, group-side monitors
	for n := 2; n <= sampledMax; n++ {
		for th := 2; th <= n; th++ {
			if n > gmax && !thorough && r.Intn(3) != 0 {
				continue
			}
			shapes := []string{"random"}
			if n <= 5 || thorough {
				shapes = append(shapes, "flat", "zero_share")
			}
			for _, shape := range shapes {
				secret := randScalar(r)
				if secret.Sign() == 0 {
					secret = big.NewInt(1)
				}
				var coeffs []*big.Int
				for i := 1; i < th; i++ {
					coeffs = append(coeffs, randScalar(r))
				}
				zj := 0
				switch shape {
				case "flat": // all higher coefficients zero: every share equals the secret
					for i := range coeffs {
						coeffs[i] = big.NewInt(0)
					}
				case "zero_share": // choose the linear coefficient so that share zj is 0
					zj = 1 + r.Intn(n)
					x := big.NewInt(int64(zj))
					acc := new(big.Int).Set(secret)
					xp := new(big.Int).Set(x)
					for i := 1; i < len(coeffs); i++ {
						xp.Mul(xp, x)
						acc.Add(acc, new(big.Int).Mul(coeffs[i], xp))
					}
					acc.Mod(acc, order)
					inv := new(big.Int).ModInverse(x, order)
					c1 := new(big.Int).Mul(new(big.Int).Neg(acc), inv)
					coeffs[0] = c1.Mod(c1, order)
				}
				sh, given, err := splitInsecure(t, secret, n, th, coeffs, r)
				if err != nil || len(given) != len(coeffs) {
					out.Broken = append(out.Broken, fmt.Sprintf("ThresholdSplitInsecure(n=%d,t=%d) read %d coefficients from the reader, the model draws %d (err=%v)", n, th, len(given), len(coeffs), err))
					if err != nil {
						continue
					}
				}
				if zj != 0 && bi(sh[zj]).Sign() != 0 {
					out.Broken = append(out.Broken, fmt.Sprintf("ThresholdSplitInsecure(n=%d,t=%d): share %d of the scripted polynomial is not the model's value 0", n, th, zj))
					zj = 0
				}
				base := Scenario{Shape: shape, Secret: dec(secret), Coeffs: decs(coeffs), N: n, T: th}
				msgCtr := 0
				nextMsgs := func() (string, string) { // message lengths are cycled; the other message is a related one
					msgCtr++
					m := randMsg(r, msgLens[(msgCtr+n+th)%len(msgLens)])
					rel := relatedMsgs(r, m)
					out.Dist[fmt.Sprintf("msg_len_%d", len(m))]++
					return hex.EncodeToString(m), hex.EncodeToString(rel[r.Intn(len(rel))])
				}

				// subsets: exhaustive up to gmax, sampled above
				var subs [][]int
				if n <= gmax {
					subs = subsetsOf(n, 1)
				} else {
					for i := 0; i < 12; i++ {
						subs = append(subs, randSubset(r, n, 1+r.Intn(n)))
					}
				}
				for _, s := range subs {
					if len(s) >= th {
						sc := base
						sc.Msg, _ = nextMsgs()
						sc.Kind, sc.S = "positive", s
						eval(sc)
					}
					// model-vs-code comparison of RecoverSecret, also below the threshold (sampled)
					if shape == "random" && (r.Intn(8) == 0 || (thorough && r.Intn(3) == 0)) {
						rec, err := rtbls.RecoverSecret(pick(sh, s), uint(n), uint(th))
						c := RecCase{ID: len(out.Recover), T: th, IDs: s, OK: err == nil}
						for _, i := range s {
							c.Vals = append(c.Vals, dec(bi(sh[i])))
						}
						if err == nil {
							c.Result = dec(bi(rec))
						}
						out.Recover = append(out.Recover, c)
						if len(s) < th {
							out.Dist["recover_below_threshold"]++
						} else {
							out.Dist["recover_at_or_above_threshold"]++
						}
					}
					if len(s) < th {
						continue
					}
					// single substitutions: every position for small n, one random position otherwise
					var js []int
					if n <= 5 || (thorough && n <= gmax) {
						js = s
					} else {
						js = []int{s[r.Intn(len(s))]}
					}
					for _, j := range js {
						a := base
						a.Msg, a.Msg2 = nextMsgs()
						a.S, a.J = s, j
						a.Kind, a.Foreign = "wrong_share", dec(randScalar(r))
						eval(a)
						if r.Intn(4) == 0 {
							a.Foreign = dec(new(big.Int).Mod(new(big.Int).Add(bi(sh[j]), big.NewInt(1)), order))
							eval(a)
						}
						if r.Intn(16) == 0 { // "substitution" by the very same share: the only verifying case
							a.Foreign = dec(bi(sh[j]))
							eval(a)
						}
						a.Foreign = ""
						k := 1 + r.Intn(n)
						if k == j {
							k = k%n + 1
						}
						a.Kind, a.K = "wrong_index", k
						eval(a)
						if rest := notIn(s, n); len(rest) > 0 && len(s) >= th {
							a.Kind, a.K = "moved_index", rest[r.Intn(len(rest))]
							eval(a)
						}
						a.K = 0
						a.Kind = "wrong_message"
						eval(a)
					}
				}
				out.Dist["poly_"+shape]++
			}
		}
	}
	// ---- F. history independence: stateful call sequences against the process-wide implementation
	out.HistStats = map[string]int{}
	hmax := 5
	if thorough {
		hmax = 8
	}
	for n := 2; n <= hmax; n++ {
		for th := 2; th <= n; th++ {
			if !thorough && n > 3 && th != 2 && th != n && th != (n+2)/2 {
				continue
			}
			for li, ml := range msgLens {
				if !thorough && n > 3 && (li+n+th)%2 == 0 {
					continue
				}
				for _, tz := range []bool{false, true} {
					if tz && (ml < 3 || (!thorough && (n+th+li)%3 != 0)) {
						continue
					}
					calls, fail, st := historyBlock(t, r, n, th, ml, tz)
					out.HistBlocks++
					out.HistCalls += len(calls)
					for k, v := range st {
						out.HistStats[k] += v
					}
					out.HistStats[fmt.Sprintf("msg_len_%d", ml)] += len(calls)
					if fail != "" && len(out.Violations) < 20 {
						out.Violations = append(out.Violations, Violation{Key: "history:verdict-depends-on-earlier-calls", What: fail,
							Replay: Scenario{Kind: "sequence", N: n, T: th, Calls: calls}})
					}
				}
			}
		}
	}

	// ---- G. history independence, part 2: failing calls interleaved with honest calls (failhist_test.go)
	{
		b, c, st, vs := failureHistory(t, r, thorough)
		out.FailBlocks, out.FailCalls, out.FailStats = b, c, st
		out.Violations = append(out.Violations, vs...)
	}

	// ---- H. input aliasing (alias_test.go)
	for ci, cfg := range [][2]int{{3, 2}, {4, 3}, {5, 5}} {
		for li, ml := range msgLens {
			if ml == 0 || (!thorough && ci == 2 && li%2 == 0) {
				continue
			}
			n, th := cfg[0], cfg[1]
			var coeffs []*big.Int
			for i := 1; i < th; i++ {
				coeffs = append(coeffs, randScalar(r))
			}
			a := randMsg(r, ml)
			b := randMsg(r, ml)
			if ml >= 33 && li%2 == 1 {
				b = append(clone(a[:32]), randMsg(r, ml-32)...) // same 32-byte prefix
			}
			if bytes.Equal(a, b) {
				b[len(b)-1] ^= 1
			}
			sc := Scenario{Kind: "alias", Secret: dec(randScalar(r)), Coeffs: decs(coeffs), N: n, T: th, Msg: hex.EncodeToString(a), Msg2: hex.EncodeToString(b)}
			out.AliasBlocks++
			if what := aliasBlock(t, sc); what != "" && len(out.Violations) < 20 {
				out.Violations = append(out.Violations, Violation{Key: "history:input-aliasing", What: what, Replay: sc})
			}
		}
	}

	// ---- I. large, wrapped and negative share ids; splits with more than 255 shares (alias_test.go)
	{
		nv := 0
		for _, c := range farIDs(t, r, thorough) {
			out.FarIDCalls++
			if got := execG(t, c); got != c.Expect && nv < 6 {
				nv++
				out.Violations = append(out.Violations, Violation{Key: "index:large-or-wrapped-share-id",
					What:   fmt.Sprintf("%s(%v) [%s]: got %s, the pure function over the integers gives %s", c.Op, c.IDs, c.Note, short(got), short(c.Expect)),
					Replay: Scenario{Kind: "fail_sequence", N: c.N, T: c.T, GCalls: []GCall{c}}})
			}
		}
	}

	// ---- J. tblsconv: conversions are the byte-level identity, pure and history independent (conv_test.go)
	{
		seqs := convCalls(r)
		pairs := 2
		if thorough {
			pairs = 6
		}
		for k := 0; k < pairs; k++ {
			n := 3 + k%3
			if m := convMonitor(t, r, hx.Seed(), k, n, 2+k%(n-1), randMsg(r, msgLens[(k+2)%len(msgLens)])); m != nil {
				seqs = append([][]GCall{m}, seqs...) // monitor sequences first: they give the most telling replay
				out.ConvGround++
			}
		}
		nv := 0
		for _, seq := range seqs {
			for i, c := range seq {
				out.ConvCalls++
				if got := execG(t, c); got != c.Expect {
					if nv < 6 {
						nv++
						out.Violations = append(out.Violations, Violation{Key: "conv:result-depends-on-earlier-call",
							What:   fmt.Sprintf("call %d of the conversion sequence, %s [%s]: got %s, the pure conversion gives %s", i, c.Op, c.Note, short(got), short(c.Expect)),
							Replay: Scenario{Kind: "fail_sequence", GCalls: seq[:i+1]}})
					}
					break
				}
			}
		}
	}

	out.Distinct = len(seen)
	if err := hx.WriteJSON("tbls_cases.json", out); err != nil {
		t.Fatal(err)
	}
}
