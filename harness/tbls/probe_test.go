package tbls

import (
	"encoding/hex"
	"fmt"
	"math/big"
	"testing"

	rtbls "github.com/obolnetwork/charon/tbls"
)

func sc(v *big.Int) rtbls.PrivateKey {
	var p rtbls.PrivateKey
	v.FillBytes(p[:])
	return p
}

func TestProbe(t *testing.T) {
	r, _ := new(big.Int).SetString("73eda753299d7d483339d80809a1d80553bda402fffe5bfeffffffff00000001", 16)
	one := sc(big.NewInt(1))
	zero := sc(big.NewInt(0))
	two := sc(big.NewInt(2))
	// unit vector recover
	res, err := rtbls.RecoverSecret(map[int]rtbls.PrivateKey{1: one, 2: zero, 3: zero}, 3, 3)
	fmt.Println("unit recover", hex.EncodeToString(res[:]), err)
	res, err = rtbls.RecoverSecret(map[int]rtbls.PrivateKey{1: two, 2: one, 3: one}, 3, 3)
	fmt.Println("2,1,1 recover", hex.EncodeToString(res[:]), err)
	res, err = rtbls.RecoverSecret(map[int]rtbls.PrivateKey{1: sc(r)}, 3, 3)
	fmt.Println("r recover", hex.EncodeToString(res[:]), err)
	res, err = rtbls.RecoverSecret(map[int]rtbls.PrivateKey{1: sc(new(big.Int).Sub(r, big.NewInt(1)))}, 3, 3)
	fmt.Println("r-1 single recover", hex.EncodeToString(res[:]), err)
	res, err = rtbls.RecoverSecret(map[int]rtbls.PrivateKey{0: one, 1: two}, 3, 3)
	fmt.Println("id0 recover", hex.EncodeToString(res[:]), err)
	res, err = rtbls.RecoverSecret(map[int]rtbls.PrivateKey{}, 3, 3)
	fmt.Println("empty recover", hex.EncodeToString(res[:]), err)
	pk, err := rtbls.SecretToPublicKey(zero)
	fmt.Println("pub of zero", hex.EncodeToString(pk[:]), err)
	sig, err := rtbls.Sign(zero, []byte("m"))
	fmt.Println("sign zero", hex.EncodeToString(sig[:]), err)
	pk1, _ := rtbls.SecretToPublicKey(one)
	fmt.Println("verify inf sig under pk1", rtbls.Verify(pk1, []byte("m"), sig))
	agg, err := rtbls.ThresholdAggregate(map[int]rtbls.Signature{1: sig, 2: sig})
	fmt.Println("agg of inf", hex.EncodeToString(agg[:8]), err)
	rp, err := rtbls.RecoverPubkey(map[int]rtbls.PublicKey{1: pk1, 2: pk1})
	fmt.Println("recpub", hex.EncodeToString(rp[:8]), hex.EncodeToString(pk1[:8]), err)
	sh, err := rtbls.ThresholdSplitInsecure(t, sc(big.NewInt(5)), 3, 2, &rd{b: cat(sc(r), zero, sc(big.NewInt(7)))})
	fmt.Println("split", err)
	for i := 1; i <= 3; i++ {
		x := sh[i]
		fmt.Println(i, hex.EncodeToString(x[:]))
	}
	_, err = rtbls.ThresholdSplit(sc(big.NewInt(5)), 3, 1)
	fmt.Println("split t=1", err)
	sh2, err := rtbls.ThresholdSplit(sc(big.NewInt(5)), 2, 3)
	fmt.Println("split t>n", len(sh2), err)
}

type rd struct{ b []byte }

func (r *rd) Read(p []byte) (int, error) {
	n := copy(p, r.b)
	r.b = r.b[n:]
	fmt.Println("read", n)
	return n, nil
}

func cat(ps ...rtbls.PrivateKey) []byte {
	var b []byte
	for _, p := range ps {
		b = append(b, p[:]...)
	}
	return b
}
