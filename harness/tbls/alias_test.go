// Two more history/input classes for C08:
//
//  1. INPUT ALIASING: every byte slice / map / key slice handed to a tbls call is reused and mutated in place
//     after the call returned, then further calls are made with the mutated content from the same and from
//     fresh slices (Sign, Verify, VerifyAggregate, Aggregate, ThresholdAggregate, RecoverSecret, RecoverPubkey).
//     Every result is compared with the pure function on the CURRENT content (BLS signatures are deterministic:
//     the reference values are obtained from un-aliased calls on fresh copies before any aliasing and are
//     cross-checked with Verify; scalars by big.Int Lagrange interpolation).
//
//  2. LARGE AND WRAPPED SHARE INDICES: the pure function is over the integers (ids are i mod r, the model in
//     coq/Tbls/ShamirZ.v computes over Z): i +- 256k, 2^16+i, 2^31-1, 2^31+i, 2^32+i, negative ids, and splits
//     with up to 300 shares (share 257 is not share 1). A share filed under a wrong index congruent to the right
//     one modulo 256 / 2^16 / 2^32 must give exactly the model's (wrong) value and must not verify.
package tbls

import (
	"bytes"
	"encoding/hex"
	"fmt"
	"math/big"
	"math/rand"
	"strings"
	"testing"

	rtbls "github.com/obolnetwork/charon/tbls"
)

func clone(b []byte) []byte { return append([]byte(nil), b...) }

// aliasBlock runs the aliasing sequence for the key set of the scenario (Secret, Coeffs, N, T) and the two
// messages Msg (A) and Msg2 (B, same length as A). Deterministic: it is its own replay. "" = all results right.
func aliasBlock(t *testing.T, s Scenario) string {
	t.Helper()
	secret := undec(s.Secret)
	var script []*big.Int
	for _, c := range s.Coeffs {
		script = append(script, undec(c))
	}
	sh, _, err := splitInsecure(t, secret, s.N, s.T, script, rand.New(rand.NewSource(1)))
	if err != nil {
		return "split failed: " + err.Error()
	}
	a, b := unhex(s.Msg), unhex(s.Msg2)
	if len(a) != len(b) || bytes.Equal(a, b) {
		return "bad scenario: messages must differ and have the same length"
	}
	type key struct {
		name string
		sk   rtbls.PrivateKey
		pk   rtbls.PublicKey
	}
	mk := func(name string, sk rtbls.PrivateKey) (key, bool) {
		pk, err := rtbls.SecretToPublicKey(sk)
		return key{name, sk, pk}, err == nil
	}
	group, ok := mk("group key", sc(secret))
	if !ok {
		return ""
	}
	var shares []key
	for i := 1; i <= s.N; i++ {
		k, ok := mk(fmt.Sprintf("share %d", i), sh[i])
		if !ok {
			return ""
		}
		shares = append(shares, k)
	}
	sign := func(k key, m []byte) rtbls.Signature {
		sg, err := rtbls.Sign(k.sk, m)
		if err != nil {
			t.Fatalf("sign: %v", err)
		}
		return sg
	}
	ver := func(pk rtbls.PublicKey, m []byte, sg rtbls.Signature) bool { return rtbls.Verify(pk, m, sg) == nil }

	// references from un-aliased calls on fresh copies (never touched again), cross-checked by Verify
	keys := append([]key{group}, shares...)
	refA, refB := map[string]rtbls.Signature{}, map[string]rtbls.Signature{}
	for _, k := range keys {
		refA[k.name], refB[k.name] = sign(k, clone(a)), sign(k, clone(b))
		if !ver(k.pk, a, refA[k.name]) || !ver(k.pk, b, refB[k.name]) || ver(k.pk, b, refA[k.name]) || ver(k.pk, a, refB[k.name]) {
			return fmt.Sprintf("reference signatures of %s over fresh copies of the two messages do not verify as they should", k.name)
		}
	}
	want := func(step string, k key, got, exp rtbls.Signature) string {
		if got != exp {
			return fmt.Sprintf("input aliasing, %s (%s, %d-byte messages): Sign returns a signature other than the one of the CURRENT message content (valid for the current content: %v, valid for the earlier content of the buffer: %v)",
				step, k.name, len(a), ver(k.pk, b, got), ver(k.pk, a, got))
		}
		return ""
	}

	// --- Sign: the caller's message buffer is overwritten in place after the call
	for _, k := range []key{group, shares[0]} {
		buf := clone(a)
		if r := want("sign A from a buffer", k, sign(k, buf), refA[k.name]); r != "" {
			return r
		}
		copy(buf, b) // in place
		if r := want("buffer overwritten in place with B, sign from the same buffer", k, sign(k, buf), refB[k.name]); r != "" {
			return r
		}
		if r := want("... then sign B from a fresh slice", k, sign(k, clone(b)), refB[k.name]); r != "" {
			return r
		}
		if r := want("... then sign A from a fresh slice", k, sign(k, clone(a)), refA[k.name]); r != "" {
			return r
		}
		buf2 := clone(a)
		_ = sign(k, buf2)
		copy(buf2, b)
		if r := want("sign A from a buffer, overwrite it with B, sign B from a FRESH slice", k, sign(k, clone(b)), refB[k.name]); r != "" {
			return r
		}
		copy(buf2, a)
		if r := want("... buffer restored to A, sign B from a fresh slice again", k, sign(k, clone(b)), refB[k.name]); r != "" {
			return r
		}
		// same backing array, other length
		target := append(clone(b), 0x55)
		exp := sign(k, clone(target))
		if !ver(k.pk, target, exp) {
			return "reference signature over the extended message does not verify"
		}
		bb := make([]byte, len(a), len(a)+8)
		copy(bb, a)
		_ = sign(k, bb)
		bb = append(bb[:0], target...) // same backing array, one byte longer, other content
		if r := want("buffer reused with another length and content", k, sign(k, bb), exp); r != "" {
			return r
		}
	}
	// --- all shares sign B after a buffer that held A was overwritten: partials and their aggregate are for B
	{
		buf := clone(a)
		_ = sign(group, buf)
		copy(buf, b)
		sigs := map[int]rtbls.Signature{}
		for i := 0; i < s.T; i++ {
			sg := sign(shares[i], buf)
			if r := want("partial signature over B after the buffer that held A was overwritten", shares[i], sg, refB[shares[i].name]); r != "" {
				return r
			}
			sigs[i+1] = sg
		}
		agg, err := rtbls.ThresholdAggregate(sigs)
		if err != nil {
			return "ThresholdAggregate: " + err.Error()
		}
		if agg != refB[group.name] || !ver(group.pk, b, agg) || ver(group.pk, a, agg) {
			return fmt.Sprintf("input aliasing: the aggregate of %d partials over B (signed from an overwritten buffer) is not the group signature over B (valid for B: %v, for A: %v)", s.T, ver(group.pk, b, agg), ver(group.pk, a, agg))
		}
	}
	// --- Verify / VerifyAggregate: message buffer and key slice mutated after the call
	{
		k := shares[0]
		vbuf := clone(a)
		if !ver(k.pk, vbuf, refA[k.name]) {
			return "input aliasing: Verify(pk, A, sig_A) fails"
		}
		copy(vbuf, b)
		if ver(k.pk, vbuf, refA[k.name]) {
			return "input aliasing: after the message buffer was overwritten with B, Verify(pk, buffer, sig_A) still succeeds"
		}
		if !ver(k.pk, vbuf, refB[k.name]) || !ver(k.pk, clone(a), refA[k.name]) || ver(k.pk, clone(a), refB[k.name]) {
			return "input aliasing: Verify verdicts after overwriting the message buffer are not those of the current content"
		}
		var pks []rtbls.PublicKey
		var sgs []rtbls.Signature
		for _, x := range shares {
			pks = append(pks, x.pk)
			sgs = append(sgs, refA[x.name])
		}
		ag, err := rtbls.Aggregate(sgs)
		if err != nil {
			return "Aggregate: " + err.Error()
		}
		mbuf := clone(a)
		if rtbls.VerifyAggregate(pks, ag, mbuf) != nil {
			return "input aliasing: VerifyAggregate of the honest aggregate fails"
		}
		saved := pks[0]
		pks[0] = group.pk // key slice mutated in place
		if rtbls.VerifyAggregate(pks, ag, mbuf) == nil {
			return "input aliasing: VerifyAggregate still succeeds after a public key of the slice was replaced in place"
		}
		pks[0] = saved
		copy(mbuf, b)
		if rtbls.VerifyAggregate(pks, ag, mbuf) == nil {
			return "input aliasing: VerifyAggregate still succeeds after the message buffer was overwritten"
		}
		copy(mbuf, a)
		if rtbls.VerifyAggregate(pks, ag, mbuf) != nil {
			return "input aliasing: VerifyAggregate fails after keys and message were restored"
		}
		sgs[0] = refB[shares[0].name] // signature slice mutated in place after Aggregate returned
		ag2, err := rtbls.Aggregate(sgs)
		if err != nil {
			return "Aggregate: " + err.Error()
		}
		if ag2 == ag || rtbls.VerifyAggregate(pks, ag2, a) == nil {
			return "input aliasing: Aggregate over a signature slice mutated in place returns the aggregate of the earlier content"
		}
	}
	// --- maps mutated after the call: ThresholdAggregate / RecoverSecret / RecoverPubkey
	{
		ids := make([]int, s.T)
		for i := range ids {
			ids[i] = i + 1
		}
		sm := map[int]rtbls.Signature{}
		km := map[int]rtbls.PrivateKey{}
		pm := map[int]rtbls.PublicKey{}
		for _, i := range ids {
			sm[i], km[i], pm[i] = refA[shares[i-1].name], sh[i], shares[i-1].pk
		}
		agg, _ := rtbls.ThresholdAggregate(sm)
		rs, _ := rtbls.RecoverSecret(km, uint(s.N), uint(s.T))
		rp, _ := rtbls.RecoverPubkey(pm)
		if agg != refA[group.name] || bi(rs).Cmp(secret) != 0 || rp != group.pk {
			return "input aliasing: honest recovery from the first t shares is wrong"
		}
		if s.T < s.N { // swap the last entry for the next share: same result
			last, next := ids[len(ids)-1], s.T+1
			delete(sm, last)
			delete(km, last)
			delete(pm, last)
			sm[next], km[next], pm[next] = refA[shares[next-1].name], sh[next], shares[next-1].pk
			agg, _ = rtbls.ThresholdAggregate(sm)
			rs, _ = rtbls.RecoverSecret(km, uint(s.N), uint(s.T))
			rp, _ = rtbls.RecoverPubkey(pm)
			if agg != refA[group.name] || bi(rs).Cmp(secret) != 0 || rp != group.pk {
				return "input aliasing: after replacing an entry of the map handed to an earlier call by another honest share, recovery differs from the pure function's value"
			}
		}
		// corrupt an entry in place: the result must be the pure function of the current content
		sm[1], km[1], pm[1] = refB[shares[0].name], sc(big.NewInt(12345)), group.pk
		agg, _ = rtbls.ThresholdAggregate(sm)
		rs, _ = rtbls.RecoverSecret(km, uint(s.N), uint(s.T))
		rp, _ = rtbls.RecoverPubkey(pm)
		var kids []int
		var kvals []*big.Int
		for i, v := range km {
			kids = append(kids, i)
			kvals = append(kvals, bi(v))
		}
		if agg == refA[group.name] || ver(group.pk, a, agg) || rp == group.pk || bi(rs).Cmp(bigRecover(kids, kvals)) != 0 {
			return "input aliasing: after an entry of the map was replaced by a wrong one, recovery still returns the value of the earlier content (or not the pure function's value)"
		}
	}
	return ""
}

// farIDs builds exact-value calls with large / wrapped / negative share ids. Expected values are the pure
// function's over the integers (ids modulo the group order).
func farIDs(t *testing.T, r *rand.Rand, thorough bool) (calls []GCall) {
	t.Helper()
	far := func(i int) []int {
		out := []int{i + 256, i + 512, i + 65536, (1 << 31) - 1, i + (1 << 31), i + (1 << 32), i + 256*(3+r.Intn(200))}
		if i-256 != 0 {
			out = append(out, i-256) // negative: herumi reads the decimal string, i.e. the id is i-256 mod r
		}
		return out
	}
	cfgs := [][2]int{{3, 2}, {4, 3}}
	if thorough {
		cfgs = [][2]int{{3, 2}, {4, 3}, {5, 2}, {7, 4}}
	}
	for ci, cfg := range cfgs {
		n, th := cfg[0], cfg[1]
		msg := randMsg(r, msgLens[(ci+1)%len(msgLens)])
		ks, ok := newKeyset(t, r, n, th, msg)
		if !ok {
			continue
		}
		gpk := ks.pkOf(ks.secret)
		for j := 1; j <= n; j++ {
			for _, jf := range far(j) {
				// the share of j filed under the far index jf, next to th-1 (and n-1) honest entries
				for _, size := range []int{th, n} {
					ids := []int{jf}
					vals := []*big.Int{ks.sk[j]}
					for _, i := range r.Perm(n) {
						if i+1 != j && len(ids) < size {
							ids = append(ids, i+1)
							vals = append(vals, ks.sk[i+1])
						}
					}
					rec := bigRecover(ids, vals)
					note := fmt.Sprintf("share %d filed under index %d (= %d + %d), %d entries, t=%d", j, jf, j, jf-j, len(ids), th)
					cs := GCall{Op: "recover_secret", IDs: ids, Honest: true, N: n, T: th, Note: note, Expect: hx32(rec)}
					cp := GCall{Op: "recover_pubkey", IDs: ids, Honest: true, N: n, T: th, Note: note, Expect: ks.pkOf(rec)}
					ca := GCall{Op: "threshold_aggregate", IDs: ids, Honest: true, N: n, T: th, Note: note, Expect: ks.sigOf(rec, msg)}
					for k, i := range ids {
						src := i
						if k == 0 {
							src = j
						}
						cs.Items = append(cs.Items, hx32(ks.sk[src]))
						cp.Items = append(cp.Items, ks.pub[src])
						ca.Items = append(ca.Items, ks.sig[src])
					}
					if rec.Cmp(ks.secret) != 0 {
						// monitor: the combination with the wrongly indexed partial does not verify under the group key
						cv := GCall{Op: "aggregate_verify", IDs: ids, Items: ca.Items, Msg: hex.EncodeToString(msg), Chunks: []string{gpk}, Honest: true, N: n, T: th,
							Expect: "does-not-verify", Note: "wrong index: " + note + "; the aggregate is offered for verification under the group key"}
						calls = append(calls, cv)
					}
					calls = append(calls, cs, cp, ca)
				}
			}
		}
	}
	// splits with more than 255 shares: exact shares for every id, recovery from ids beyond 255
	bigNs := []int{300}
	if thorough {
		bigNs = []int{257, 300, 520}
	}
	for _, n := range bigNs {
		th := 2 + r.Intn(3)
		secret := randScalar(r)
		cs := []*big.Int{secret}
		c := GCall{Op: "split_insecure", Honest: true, N: n, T: th, Secret: hx32(secret), Note: fmt.Sprintf("%d-of-%d split: the share of id 257 is not the share of id 1", th, n)}
		for i := 1; i < th; i++ {
			v := randScalar(r)
			cs = append(cs, v)
			c.Chunks = append(c.Chunks, hx32(v))
		}
		var parts []string
		for i := 1; i <= n; i++ {
			parts = append(parts, hx32(bigEval(cs, i)))
		}
		c.Expect = strings.Join(parts, ",")
		calls = append(calls, c, GCall{Op: "split", Honest: true, N: n, T: th, Secret: hx32(randScalar(r)), Expect: "onpoly", Note: fmt.Sprintf("CSPRNG %d-of-%d split", th, n)})
		for k := 0; k < 6; k++ {
			ids := randSubset(r, n, th+r.Intn(2))
			if k < 3 {
				ids = ids[:0]
				for len(ids) < th {
					ids = append(ids, 256+len(ids)+k*th+1) // 257.., consecutive ids beyond one byte
				}
			}
			rc := GCall{Op: "recover_secret", IDs: ids, Honest: true, N: n, T: th, Expect: hx32(secret), Note: fmt.Sprintf("recovery from shares %v of the %d-share split", ids, n)}
			for _, i := range ids {
				rc.Items = append(rc.Items, hx32(bigEval(cs, i)))
			}
			calls = append(calls, rc)
		}
	}
	return calls
}
