// Correspondence harness for C16: drives the real core deadliner with a fake clock inside a
// synctest bubble and records the observed label sequence of every history.
package c16

import (
	"context"
	"fmt"
	"math/rand"
	"strconv"
	"strings"
	"testing"
	"testing/synctest"
	"time"

	"github.com/jonboulle/clockwork"
	"go.uber.org/zap"
	"go.uber.org/zap/zaptest/observer"

	"github.com/obolnetwork/charon/app/log"
	"github.com/obolnetwork/charon/core"

	"verif/harness/hx"
)

// Op is one scripted operation: add (D), adv (Dt seconds), read (N values, at most what is buffered).
type Op struct {
	Op string `json:"op"`
	D  int    `json:"d,omitempty"`
	Dt int    `json:"dt,omitempty"`
	N  int    `json:"n,omitempty"`
}

// History is a script and the labels observed when it ran.
type History struct {
	ID     int      `json:"id"`
	Kind   string   `json:"kind"`
	Script []Op     `json:"script"`
	Labels []string `json:"labels"`
	// NonTrivial: at least one fire happened and at least one add was refused or repeated.
	NonTrivial bool `json:"nontrivial"`
}

var types = []core.DutyType{core.DutyAttester, core.DutyProposer, core.DutyRandao, core.DutyExit}

func toDuty(d int) core.Duty { return core.Duty{Slot: uint64(d / 4), Type: types[d%4]} }

func fromDuty(d core.Duty) int {
	for i, t := range types {
		if t == d.Type {
			return int(d.Slot)*4 + i
		}
	}
	return -1
}

func parseDuty(s string) int {
	parts := strings.SplitN(s, "/", 2)
	slot, _ := strconv.Atoi(parts[0])
	for i, t := range types {
		if len(parts) == 2 && t.String() == parts[1] {
			return slot*4 + i
		}
	}
	return -1
}

func statusName(s core.DeadlineStatus) string {
	switch s {
	case core.DeadlineExpired:
		return "Expired"
	case core.DeadlineScheduled:
		return "Scheduled"
	case core.DeadlineExempt:
		return "Exempt"
	}
	return "Unknown"
}

// runScript executes one script against a fresh deadliner and returns the observed labels.
func runScript(t *testing.T, script []Op) []string {
	t.Helper()
	var labels []string
	synctest.Test(t, func(t *testing.T) {
		obsCore, logs := observer.New(zap.WarnLevel)
		ctx, cancel := context.WithCancel(log.WithLogger(context.Background(), zap.New(obsCore)))
		clock := clockwork.NewFakeClock()
		base := clock.Now()
		dlf := func(d core.Duty) (time.Time, bool) {
			if d.Type == core.DutyExit {
				return time.Time{}, false
			}
			return base.Add(time.Duration(d.Slot) * time.Second), true
		}
		dl := core.NewDeadlinerForT(ctx, t, dlf, clock)
		synctest.Wait()

		var slots []int // indices into labels of fires whose duty is not known yet
		seenLogs := 0
		observe := func(prevLen int) {
			synctest.Wait()
			for i := prevLen; i < len(dl.C()); i++ {
				slots = append(slots, len(labels))
				labels = append(labels, "")
			}
			for _, e := range logs.All()[seenLogs:] {
				seenLogs++
				if !strings.Contains(e.Message, "output channel full") {
					continue
				}
				for _, f := range e.Context {
					if f.Key == "duty" {
						s := f.String
						if s == "" && f.Interface != nil {
							s = fmt.Sprint(f.Interface)
						}
						labels = append(labels, fmt.Sprintf("LDrop %d", parseDuty(s)))
					}
				}
			}
			labels = append(labels, "LQuiet")
		}
		read := func() bool {
			select {
			case d := <-dl.C():
				v := fromDuty(d)
				if len(slots) == 0 {
					labels = append(labels, fmt.Sprintf("LFire %d", v)) // push the harness did not see
				} else {
					labels[slots[0]] = fmt.Sprintf("LFire %d", v)
					slots = slots[1:]
				}
				labels = append(labels, fmt.Sprintf("LRead %d", v))
				return true
			default:
				return false
			}
		}

		for _, op := range script {
			prev := len(dl.C())
			switch op.Op {
			case "add":
				st := dl.Add(toDuty(op.D))
				labels = append(labels, fmt.Sprintf("LAdd %d %s", op.D, statusName(st)))
				observe(prev)
			case "adv":
				clock.Advance(time.Duration(op.Dt) * time.Second)
				labels = append(labels, fmt.Sprintf("LAdv %d", op.Dt))
				observe(prev)
			case "advadd":
				// Race: the clock advance makes the timer ready and the Add is issued without waiting for
				// the run goroutine, so its select sees both; the harness cannot see which was served first.
				clock.Advance(time.Duration(op.Dt) * time.Second)
				labels = append(labels, fmt.Sprintf("LAdv %d", op.Dt))
				st := dl.Add(toDuty(op.D))
				labels = append(labels, fmt.Sprintf("RACE LAdd %d %s", op.D, statusName(st)))
				observe(prev)
			case "read":
				for i := 0; i < op.N; i++ {
					if !read() {
						break
					}
				}
			}
		}
		for read() {
		}
		cancel()
		synctest.Wait()
	})

	return labels
}

func genScript(r *rand.Rand, kind string) []Op {
	var s []Op
	switch kind {
	case "random":
		n := 4 + r.Intn(36)
		pool := 2 + r.Intn(14) // distinct duty ids in play: small pools give repeats and equal deadlines
		maxSlot := 1 + r.Intn(8)
		lag := r.Intn(4) == 0 // consumer that rarely reads
		for i := 0; i < n; i++ {
			switch x := r.Intn(10); {
			case x < 5:
				d := (r.Intn(maxSlot+1))*4 + r.Intn(4)
				if r.Intn(3) == 0 {
					d = (r.Intn(pool) % (maxSlot + 1) * 4) + r.Intn(3)
				}
				s = append(s, Op{Op: "add", D: d})
			case x < 8:
				s = append(s, Op{Op: "adv", Dt: r.Intn(3)})
			default:
				if !lag || r.Intn(4) == 0 {
					s = append(s, Op{Op: "read", N: 1 + r.Intn(12)})
				}
			}
		}
		s = append(s, Op{Op: "adv", Dt: 10})
	case "race": // adds issued while a timer is ready but possibly not yet served
		maxSlot := 2 + r.Intn(4)
		for i := 0; i < 3+r.Intn(5); i++ {
			s = append(s, Op{Op: "add", D: (1+r.Intn(maxSlot))*4 + r.Intn(3)})
		}
		var added []int
		for _, o := range s {
			if o.Op == "add" {
				added = append(added, o.D)
			}
		}
		for i := 0; i < 1+r.Intn(3); i++ {
			d := (r.Intn(maxSlot+2))*4 + r.Intn(3)
			if len(added) > 0 && r.Intn(10) < 7 {
				d = added[r.Intn(len(added))] // re-register a duty that may be pending and already due
			}
			s = append(s, Op{Op: "advadd", Dt: 1 + r.Intn(3), D: d})
			if r.Intn(2) == 0 {
				s = append(s, Op{Op: "read", N: 1 + r.Intn(3)})
			}
		}
		s = append(s, Op{Op: "adv", Dt: 10})
	case "duerace": // several duties share a deadline; one of them is re-registered at the instant the deadline is reached, racing the timer
		slot := 1 + r.Intn(4)
		k := 2 + r.Intn(4)
		var ds []int
		for i := 0; i < k; i++ {
			d := slot*4 + i%3
			if i >= 3 {
				d = (slot-1)*4 + i%3 // an earlier deadline as well
			}
			ds = append(ds, d)
			s = append(s, Op{Op: "add", D: d})
		}
		s = append(s, Op{Op: "advadd", Dt: slot, D: ds[r.Intn(len(ds))]})
		if r.Intn(2) == 0 {
			s = append(s, Op{Op: "advadd", Dt: 0, D: ds[r.Intn(len(ds))]})
		}
		s = append(s, Op{Op: "read", N: 10}, Op{Op: "adv", Dt: 3})
	case "far": // deadlines hours away, large clock steps: nothing may be reported before its deadline however long the wait
		k := 2 + r.Intn(5)
		var slots []int
		for i := 0; i < k; i++ {
			sl := 1800*(1+r.Intn(8)) + r.Intn(5)
			slots = append(slots, sl)
			s = append(s, Op{Op: "add", D: sl*4 + r.Intn(3)})
		}
		for i := 0; i < 4+r.Intn(6); i++ {
			switch r.Intn(4) {
			case 0:
				s = append(s, Op{Op: "adv", Dt: 3600})
			case 1:
				s = append(s, Op{Op: "adv", Dt: 600 + r.Intn(3000)})
			case 2:
				sl := slots[r.Intn(len(slots))]
				s = append(s, Op{Op: "add", D: sl*4 + r.Intn(3)}) // re-add (pending, or already reported)
			default:
				s = append(s, Op{Op: "read", N: 1 + r.Intn(4)})
			}
		}
		s = append(s, Op{Op: "adv", Dt: 20000})
	case "veryfar": // deadlines days away and idle periods longer than a day: a timer armed for less than the wait must not report early, and an idle deadliner reports nothing
		k := r.Intn(4) // 0 = nothing pending at all
		var slots []int
		for i := 0; i < k; i++ {
			sl := 90000 + r.Intn(800000) // 25 h .. ~10 days
			slots = append(slots, sl)
			s = append(s, Op{Op: "add", D: sl*4 + r.Intn(4)})
		}
		for i := 0; i < 3+r.Intn(5); i++ {
			switch x := r.Intn(5); {
			case x == 0:
				s = append(s, Op{Op: "adv", Dt: 86400})
			case x == 1:
				s = append(s, Op{Op: "adv", Dt: 86400 + 1 + r.Intn(200000)})
			case x == 2 && len(slots) > 0:
				sl := slots[r.Intn(len(slots))]
				s = append(s, Op{Op: "add", D: sl*4 + r.Intn(3)})
			case x == 3:
				s = append(s, Op{Op: "adv", Dt: 43200 + r.Intn(43200)})
			default:
				s = append(s, Op{Op: "read", N: 1 + r.Intn(4)})
			}
		}
		s = append(s, Op{Op: "adv", Dt: 1000000}, Op{Op: "read", N: 10})
	case "burst": // many duties with one deadline, consumer reads late: exercises the full queue
		k := 8 + r.Intn(20)
		slot := 1 + r.Intn(3)
		for i := 0; i < k; i++ {
			// distinct slots would give distinct deadlines; same deadline needs same slot, so use 3 types
			s = append(s, Op{Op: "add", D: (slot+i/3)*4 + i%3})
		}
		s = append(s, Op{Op: "adv", Dt: slot + k})
		s = append(s, Op{Op: "read", N: 100})
		s = append(s, Op{Op: "add", D: slot*4 + 0})
		s = append(s, Op{Op: "adv", Dt: 1})
	case "edge": // adds exactly at, just before and just after the deadline; re-adds after report
		d := (1+r.Intn(4))*4 + r.Intn(3)
		slot := d / 4
		s = append(s, Op{Op: "add", D: d}, Op{Op: "add", D: d})
		s = append(s, Op{Op: "adv", Dt: slot - 1 + r.Intn(2)})
		s = append(s, Op{Op: "add", D: d})
		s = append(s, Op{Op: "adv", Dt: r.Intn(2)})
		s = append(s, Op{Op: "add", D: d}, Op{Op: "read", N: 3})
		s = append(s, Op{Op: "adv", Dt: r.Intn(2)})
		s = append(s, Op{Op: "add", D: d}, Op{Op: "adv", Dt: 0}, Op{Op: "add", D: d + 4}, Op{Op: "adv", Dt: 2})
	}
	return s
}

func nonTrivial(labels []string) bool {
	fire, refusedOrRepeat := false, false
	seen := map[string]bool{}
	for _, l := range labels {
		if strings.HasPrefix(l, "LFire") {
			fire = true
		}
		if strings.HasPrefix(l, "LAdd") {
			if strings.HasSuffix(l, "Expired") || seen[l] {
				refusedOrRepeat = true
			}
			seen[l] = true
		}
	}
	return fire && refusedOrRepeat
}

func TestGen(t *testing.T) {
	var replay struct {
		Script []Op `json:"script"`
	}
	if ok, err := hx.ReadReplay(&replay); ok {
		if err != nil {
			t.Fatal(err)
		}
		h := History{ID: 0, Kind: "replay", Script: replay.Script}
		h.Labels = runScript(t, h.Script)
		if err := hx.WriteJSON("c16_traces.json", []History{h}); err != nil {
			t.Fatal(err)
		}
		return
	}

	r := hx.Rand()
	n := hx.IntEnv("VERIF_N", 500)
	var hs []History
	// corpus first: the minimised failing history of F4 (re-add at the deadline instant after the report)
	corpus := [][]Op{
		{{Op: "add", D: 20}, {Op: "adv", Dt: 5}, {Op: "add", D: 20}, {Op: "adv", Dt: 0}, {Op: "read", N: 5}},
		{{Op: "add", D: 4}, {Op: "add", D: 5}, {Op: "add", D: 8}, {Op: "adv", Dt: 1}, {Op: "read", N: 1}, {Op: "add", D: 4}, {Op: "adv", Dt: 1}},
		// seeded C16-r7m2: a duty registered more than a day before its deadline; an idle deadliner over several days
		{{Op: "add", D: 4 * 172800}, {Op: "adv", Dt: 86400}, {Op: "read", N: 2}, {Op: "adv", Dt: 86400}, {Op: "read", N: 2}, {Op: "adv", Dt: 10}},
		{{Op: "adv", Dt: 86400}, {Op: "adv", Dt: 86400}, {Op: "adv", Dt: 90000}, {Op: "read", N: 5}},
	}
	for _, c := range corpus {
		hs = append(hs, History{ID: len(hs), Kind: "corpus", Script: c})
	}
	for len(hs) < n {
		kind := "random"
		switch x := r.Intn(10); {
		case x == 0:
			kind = "burst"
		case x <= 2:
			kind = "edge"
		case x == 3:
			kind = "race"
		case x == 4:
			kind = "far"
		case x == 5:
			kind = "duerace"
		case x == 6 && r.Intn(2) == 0:
			kind = "veryfar"
		}
		hs = append(hs, History{ID: len(hs), Kind: kind, Script: genScript(r, kind)})
	}
	for i := range hs {
		hs[i].Labels = runScript(t, hs[i].Script)
		hs[i].NonTrivial = nonTrivial(hs[i].Labels)
	}
	if err := hx.WriteJSON("c16_traces.json", hs); err != nil {
		t.Fatal(err)
	}
}
