// Correspondence harness for C07: drives the real core/parsigdb.MemDB (NewMemDB, StoreExternal,
// StoreInternal, Trim, SubscribeThreshold, SubscribeInternal) with a scripted core.Deadliner and
// real core.ParSignedData values, and records for every history the sequence of atomic labels
// (ABegin / AEntry / AEnd / ATrim) of the model coq/Stores/ParSigDB.v.
//
// Observing the critical sections: in "probe" mode every core.SignedData handed to the store is
// wrapped in a type that embeds the real value and logs its Clone / MarshalJSON calls. MemDB.store
// calls exactly one of them on the incoming value while it holds db.mu (MarshalJSON for the
// same-share comparison, Clone when the value is appended), so the log order is the order of the
// critical sections: the Go map iteration order inside one call and the interleaving of
// concurrent calls are observed, not guessed. In "plain" mode the real values are stored
// unwrapped and the entries of a (sequential) call are listed in pubkey order; the model does not
// depend on the order inside one call since a set has one entry per pubkey.
package parsigdb

import (
	"context"
	"encoding/hex"
	"fmt"
	"math/rand"
	"runtime"
	"sort"
	"strings"
	"sync"
	"testing"
	"testing/synctest"
	"time"

	eth2api "github.com/attestantio/go-eth2-client/api"
	eth2v1 "github.com/attestantio/go-eth2-client/api/v1"
	eth2spec "github.com/attestantio/go-eth2-client/spec"
	"github.com/attestantio/go-eth2-client/spec/altair"
	"github.com/attestantio/go-eth2-client/spec/bellatrix"
	eth2p0 "github.com/attestantio/go-eth2-client/spec/phase0"
	"github.com/OffchainLabs/go-bitfield"
	"go.uber.org/zap"

	"github.com/obolnetwork/charon/app/log"
	"github.com/obolnetwork/charon/core"
	"github.com/obolnetwork/charon/core/parsigdb"

	"verif/harness/hx"
)

// Ent is one entry of a partial-signature set.
type Ent struct {
	PK    int  `json:"pk"`
	Share int  `json:"share"`
	Root  int  `json:"root"`          // content variant: changes the message root (and the encoding)
	Var   int  `json:"var,omitempty"` // signature variant: same root, different encoding
	Sub   int  `json:"sub,omitempty"` // sync subcommittee index (duty types 11, 12)
	Bad   bool `json:"bad,omitempty"` // payload of the wrong type for duty types 11, 12
}

// Call is one StoreExternal / StoreInternal call.
type Call struct {
	Internal bool   `json:"internal,omitempty"`
	Slot     int    `json:"slot"`
	Type     int    `json:"type"`
	Status   string `json:"status,omitempty"` // "" = by duty type (Exempt for 4 and 6, else Scheduled)
	Plain    bool   `json:"plain,omitempty"`
	Batch    []Ent  `json:"batch"`
}

// Op is one step of a script: "store" (Call), "conc" (Calls, run concurrently), "trim" (Slot, Type).
type Op struct {
	Op    string `json:"op"`
	Call  *Call  `json:"call,omitempty"`
	Calls []Call `json:"calls,omitempty"`
	Slot  int    `json:"slot,omitempty"`
	Type  int    `json:"type,omitempty"`
}

// Obs is the structured form of one observed label (the driver classifies findings with it).
type Obs struct {
	L      string         `json:"l"` // begin, entry, end, trim
	C      int            `json:"c,omitempty"`
	Slot   int            `json:"slot,omitempty"`
	Type   int            `json:"type,omitempty"`
	Status string         `json:"status,omitempty"`
	Err    string         `json:"err,omitempty"`
	Called bool           `json:"called,omitempty"`
	Out    map[string]int `json:"out,omitempty"` // "pk/sub" -> root id of the delivered group
	Ev     string         `json:"ev,omitempty"`  // entry: clone (accepted) or marshal (same share seen) in probe mode
}

// History is a script and what was observed when it ran.
type History struct {
	ID         int      `json:"id"`
	Kind       string   `json:"kind"`
	T          int      `json:"t"`
	Script     []Op     `json:"script"`
	Labels     []string `json:"labels"`
	Obs        []Obs    `json:"obs"`
	Verdicts   []int    `json:"verdicts"`        // one per AEntry label: 1 appended, 0 compared with a stored same-share partial, -1 not observed
	Flags      []string `json:"flags,omitempty"` // harness-level anomalies (must stay empty)
	NonTrivial bool     `json:"nontrivial"`
	Fired      int      `json:"fired"`
	Ignored    int      `json:"ignored"`
}

// ---- scripted deadliner ----

type scriptDL struct {
	mu sync.Mutex
	st map[core.Duty]core.DeadlineStatus
	ch chan core.Duty
}

func (d *scriptDL) Add(duty core.Duty) core.DeadlineStatus {
	d.mu.Lock()
	defer d.mu.Unlock()

	return d.st[duty]
}

func (d *scriptDL) C() <-chan core.Duty { return d.ch }

func (d *scriptDL) set(duty core.Duty, s core.DeadlineStatus) {
	d.mu.Lock()
	defer d.mu.Unlock()
	d.st[duty] = s
}

func resolveStatus(c Call) (core.DeadlineStatus, string) {
	switch c.Status {
	case "Expired":
		return core.DeadlineExpired, "Expired"
	case "Scheduled":
		return core.DeadlineScheduled, "Scheduled"
	case "Exempt":
		return core.DeadlineExempt, "Exempt"
	}
	if c.Type == int(core.DutyExit) || c.Type == int(core.DutyBuilderRegistration) {
		return core.DeadlineExempt, "Exempt"
	}

	return core.DeadlineScheduled, "Scheduled"
}

// ---- real payloads ----

func pubkey(pk int) core.PubKey { return core.PubKey(fmt.Sprintf("0x%096x", pk+1)) }

func pkOf(p core.PubKey) int {
	var v int
	_, _ = fmt.Sscanf(strings.TrimLeft(strings.TrimPrefix(string(p), "0x"), "0"), "%x", &v)

	return v - 1
}

func sigBytes(e Ent) eth2p0.BLSSignature {
	var s eth2p0.BLSSignature
	for i := range s {
		s[i] = byte(0xA0 + i%7)
	}
	s[0], s[1], s[2], s[3] = byte(e.Share), byte(e.PK), byte(e.Var), byte(e.Root)

	return s
}

func rootBytes(r int) eth2p0.Root {
	var x eth2p0.Root
	for i := range x {
		x[i] = byte(0x11 * (r + 1))
	}

	return x
}

func syncMsg(slot int, e Ent) core.ParSignedData {
	return core.NewPartialSignedSyncMessage(&altair.SyncCommitteeMessage{
		Slot: eth2p0.Slot(slot), BeaconBlockRoot: rootBytes(e.Root), ValidatorIndex: eth2p0.ValidatorIndex(e.PK), Signature: sigBytes(e),
	}, e.Share)
}

func mkPartial(typ, slot int, e Ent) (core.ParSignedData, error) {
	if e.Bad {
		return syncMsg(slot, e), nil
	}
	mix := uint64(slot*16 + e.Root)
	switch core.DutyType(typ) {
	case core.DutyAttester:
		return core.NewPartialVersionedAttestation(&eth2spec.VersionedAttestation{
			Version: eth2spec.DataVersionDeneb,
			Deneb: &eth2p0.Attestation{
				AggregationBits: bitfield.NewBitlist(8),
				Data: &eth2p0.AttestationData{Slot: eth2p0.Slot(slot), Index: 1, BeaconBlockRoot: rootBytes(e.Root),
					Source: &eth2p0.Checkpoint{Epoch: 1}, Target: &eth2p0.Checkpoint{Epoch: 2}},
				Signature: sigBytes(e),
			},
		}, e.Share)
	case core.DutySignature:
		s := sigBytes(e)
		return core.NewPartialSignature(core.Signature(s[:]), e.Share), nil
	case core.DutyExit:
		return core.NewPartialSignedVoluntaryExit(&eth2p0.SignedVoluntaryExit{
			Message: &eth2p0.VoluntaryExit{Epoch: eth2p0.Epoch(mix), ValidatorIndex: eth2p0.ValidatorIndex(e.PK)}, Signature: sigBytes(e),
		}, e.Share), nil
	case core.DutyBuilderRegistration:
		var pub eth2p0.BLSPubKey
		pub[0] = byte(e.PK + 1)
		return core.NewPartialVersionedSignedValidatorRegistration(&eth2api.VersionedSignedValidatorRegistration{
			Version: eth2spec.BuilderVersionV1,
			V1: &eth2v1.SignedValidatorRegistration{
				Message: &eth2v1.ValidatorRegistration{FeeRecipient: bellatrix.ExecutionAddress{1}, GasLimit: 30000000,
					Timestamp: time.Unix(int64(mix), 0).UTC(), Pubkey: pub},
				Signature: sigBytes(e),
			},
		}, e.Share)
	case core.DutyRandao:
		return core.NewPartialSignedRandao(eth2p0.Epoch(mix), sigBytes(e), e.Share), nil
	case core.DutyPrepareAggregator:
		return core.NewPartialSignedBeaconCommitteeSelection(&eth2v1.BeaconCommitteeSelection{
			ValidatorIndex: eth2p0.ValidatorIndex(e.PK), Slot: eth2p0.Slot(mix), SelectionProof: sigBytes(e),
		}, e.Share), nil
	case core.DutySyncMessage:
		return syncMsg(slot, e), nil
	case core.DutyPrepareSyncContribution:
		return core.NewPartialSignedSyncCommitteeSelection(&eth2v1.SyncCommitteeSelection{
			ValidatorIndex: eth2p0.ValidatorIndex(e.PK), Slot: eth2p0.Slot(mix), SubcommitteeIndex: uint64(e.Sub), SelectionProof: sigBytes(e),
		}, e.Share), nil
	case core.DutySyncContribution:
		return core.NewPartialSignedSyncContributionAndProof(&altair.SignedContributionAndProof{
			Message: &altair.ContributionAndProof{
				AggregatorIndex: eth2p0.ValidatorIndex(e.PK),
				Contribution: &altair.SyncCommitteeContribution{Slot: eth2p0.Slot(slot), BeaconBlockRoot: rootBytes(e.Root),
					SubcommitteeIndex: uint64(e.Sub), AggregationBits: bitfield.NewBitvector128(), Signature: sigBytes(Ent{Share: 99})},
				SelectionProof: sigBytes(Ent{Share: 98}),
			},
			Signature: sigBytes(e),
		}, e.Share), nil
	}

	return core.ParSignedData{}, fmt.Errorf("duty type %d not supported by the harness", typ)
}

// probe wraps a real SignedData; see the package comment.
type probe struct {
	core.SignedData
	rec  *recorder
	call int
	idx  int
}

func (p probe) Clone() (core.SignedData, error) {
	if inStore() {
		p.rec.entry(p.call, p.idx, "clone")
	}
	return p.SignedData.Clone()
}

func (p probe) MarshalJSON() ([]byte, error) {
	if inStore() {
		p.rec.entry(p.call, p.idx, "marshal")
	}
	return p.SignedData.MarshalJSON()
}

// inStore reports whether the caller runs inside (*MemDB).store, i.e. holds db.mu (StoreInternal
// also clones the set for its subscribers, outside of any critical section).
func inStore() bool {
	pcs := make([]uintptr, 32)
	n := runtime.Callers(2, pcs)
	frames := runtime.CallersFrames(pcs[:n])
	for {
		f, more := frames.Next()
		if strings.HasSuffix(f.Function, "parsigdb.(*MemDB).store") {
			return true
		}
		if !more {
			return false
		}
	}
}

// ---- recorder ----

type event struct {
	kind string // begin, entry, thrA, thrB, int, end
	call int
	idx  int
	ev   string
	out  string         // rendered outmap (thr)
	outm map[string]int // structured outmap
	err  error
}

type callInfo struct {
	c      Call
	status string
	ents   []string // rendered entries, index = position in Batch
	seen   map[int]bool
}

type recorder struct {
	mu    sync.Mutex
	evs   []event
	roots map[string]int
	pids  map[string]int
	calls map[int]*callInfo
	flags []string
}

type ctxKey struct{}

func (r *recorder) add(e event) {
	r.mu.Lock()
	defer r.mu.Unlock()
	r.evs = append(r.evs, e)
}

func (r *recorder) entry(call, idx int, ev string) {
	r.mu.Lock()
	defer r.mu.Unlock()
	ci := r.calls[call]
	if ci == nil || ci.seen[idx] {
		return // later Clone calls on the same value (StoreInternal clones the set for its subscribers)
	}
	ci.seen[idx] = true
	r.evs = append(r.evs, event{kind: "entry", call: call, idx: idx, ev: ev})
}

func (r *recorder) isBad(call, idx int) bool {
	r.mu.Lock()
	defer r.mu.Unlock()
	ci := r.calls[call]

	return ci != nil && strings.HasPrefix(ci.ents[idx], "EBad")
}

func (r *recorder) flag(s string) {
	r.mu.Lock()
	defer r.mu.Unlock()
	r.flags = append(r.flags, s)
}

// renderPartial interns the message root and the JSON encoding of a real partial signature.
// Callers hold r.mu.
func (r *recorder) renderPartial(typ int, p core.ParSignedData) (string, int) {
	rootID := 0
	if core.DutyType(typ) != core.DutySignature {
		rt, err := p.MessageRoot()
		if err != nil {
			r.flags = append(r.flags, "MessageRoot error: "+err.Error())
		}
		k := hex.EncodeToString(rt[:])
		if _, ok := r.roots[k]; !ok {
			r.roots[k] = len(r.roots) + 1
		}
		rootID = r.roots[k]
	}
	b, err := p.SignedData.MarshalJSON()
	if err != nil {
		r.flags = append(r.flags, "MarshalJSON error: "+err.Error())
	}
	if _, ok := r.pids[string(b)]; !ok {
		r.pids[string(b)] = len(r.pids) + 1
	}

	return fmt.Sprintf("(P %d %d %d)", p.ShareIdx, rootID, r.pids[string(b)]), rootID
}

func (r *recorder) renderOut(duty core.Duty, set map[core.PubKey][]core.ParSignedData) (string, map[string]int) {
	r.mu.Lock()
	defer r.mu.Unlock()
	var pks []int
	by := map[int]core.PubKey{}
	for pk := range set {
		pks = append(pks, pkOf(pk))
		by[pkOf(pk)] = pk
	}
	sort.Ints(pks)
	var elts []string
	m := map[string]int{}
	for _, pk := range pks {
		ps := set[by[pk]]
		sub := 0
		var parts []string
		groupRoot := 0
		for i, p := range ps {
			s, rid := r.renderPartial(int(duty.Type), p)
			parts = append(parts, strings.Trim(s, "()"))
			if i == 0 {
				groupRoot = rid
				si, err := core.SyncSubcommitteeIndex(duty.Type, p.SignedData)
				if err != nil {
					r.flags = append(r.flags, "subcommittee index of delivered partial: "+err.Error())
				}
				sub = int(si)
			}
		}
		elts = append(elts, fmt.Sprintf("(%d, %d, [%s])", pk, sub, strings.Join(parts, "; ")))
		m[fmt.Sprintf("%d/%d", pk, sub)] = groupRoot
	}

	return "[" + strings.Join(elts, "; ") + "]", m
}

func errClass(err error) string {
	switch {
	case err == nil:
		return "ENone"
	case strings.Contains(err.Error(), "mismatching partial signed data"):
		return "EMismatch"
	default:
		return "EOther"
	}
}

// ---- running a script ----

func runHistory(t *testing.T, h *History) {
	t.Helper()
	synctest.Test(t, func(t *testing.T) {
		ctx, cancel := context.WithCancel(log.WithLogger(context.Background(), zap.NewNop()))
		dl := &scriptDL{st: map[core.Duty]core.DeadlineStatus{}, ch: make(chan core.Duty)}
		db := parsigdb.NewMemDB(h.T, dl, parsigdb.NewMemDBMetadata(12, time.Unix(0, 0)))
		rec := &recorder{roots: map[string]int{}, pids: map[string]int{}, calls: map[int]*callInfo{}}

		thr := func(kind string) func(context.Context, core.Duty, map[core.PubKey][]core.ParSignedData) error {
			return func(ctx context.Context, duty core.Duty, set map[core.PubKey][]core.ParSignedData) error {
				c, _ := ctx.Value(ctxKey{}).(int)
				out, m := rec.renderOut(duty, set)
				rec.add(event{kind: kind, call: c, out: out, outm: m})

				return nil
			}
		}
		db.SubscribeThreshold(thr("thrA"))
		db.SubscribeThreshold(thr("thrB"))
		db.SubscribeInternal(func(ctx context.Context, _ core.Duty, _ core.ParSignedDataSet) error {
			c, _ := ctx.Value(ctxKey{}).(int)
			rec.add(event{kind: "int", call: c})

			return nil
		})
		go db.Trim(ctx)

		nextID := 0
		prepare := func(c Call) (int, core.Duty, core.ParSignedDataSet) {
			nextID++
			id := nextID
			duty := core.Duty{Slot: uint64(c.Slot), Type: core.DutyType(c.Type)}
			st, stName := resolveStatus(c)
			dl.set(duty, st)
			ci := &callInfo{c: c, status: stName, seen: map[int]bool{}}
			set := core.ParSignedDataSet{}
			rec.mu.Lock()
			for i, e := range c.Batch {
				p, err := mkPartial(c.Type, c.Slot, e)
				if err != nil {
					t.Fatalf("history %d: %v", h.ID, err)
				}
				if _, err := core.SyncSubcommitteeIndex(duty.Type, p.SignedData); err != nil || (!c.Plain && core.IsSyncSubcommitteeDuty(duty.Type)) {
					ci.ents = append(ci.ents, fmt.Sprintf("EBad %d", e.PK))
				} else {
					s, _ := rec.renderPartial(c.Type, p)
					si, _ := core.SyncSubcommitteeIndex(duty.Type, p.SignedData)
					ci.ents = append(ci.ents, fmt.Sprintf("EGood %d %d %s", e.PK, int(si), s))
				}
				if !c.Plain {
					p.SignedData = probe{SignedData: p.SignedData, rec: rec, call: id, idx: i}
				}
				if _, dup := set[pubkey(e.PK)]; dup {
					rec.flags = append(rec.flags, "script has two entries for one pubkey in a set")
				}
				set[pubkey(e.PK)] = p
			}
			rec.calls[id] = ci
			rec.mu.Unlock()

			return id, duty, set
		}
		invoke := func(id int, c Call, duty core.Duty, set core.ParSignedDataSet) {
			cctx := context.WithValue(ctx, ctxKey{}, id)
			rec.add(event{kind: "begin", call: id})
			if resolveStatusName(c) != "Expired" {
				// plain mode: order not observable, list the entries in pubkey order. Probe mode: only
				// the entries whose subcommittee index cannot be read (they never reach store).
				idx := make([]int, len(c.Batch))
				for i := range idx {
					idx[i] = i
				}
				sort.Slice(idx, func(a, b int) bool { return c.Batch[idx[a]].PK < c.Batch[idx[b]].PK })
				for _, i := range idx {
					if c.Plain || rec.isBad(id, i) {
						rec.entry(id, i, "")
					}
				}
			}
			var err error
			if c.Internal {
				err = db.StoreInternal(cctx, duty, set)
			} else {
				err = db.StoreExternal(cctx, duty, set)
			}
			rec.add(event{kind: "end", call: id, err: err})
		}

		for _, op := range h.Script {
			switch op.Op {
			case "store":
				id, duty, set := prepare(*op.Call)
				invoke(id, *op.Call, duty, set)
				synctest.Wait()
			case "conc":
				type prepared struct {
					id   int
					c    Call
					duty core.Duty
					set  core.ParSignedDataSet
				}
				var ps []prepared
				for _, c := range op.Calls {
					c.Plain = false
					id, duty, set := prepare(c)
					ps = append(ps, prepared{id, c, duty, set})
				}
				start := make(chan struct{})
				var wg sync.WaitGroup
				for _, p := range ps {
					wg.Add(1)
					go func() {
						defer wg.Done()
						<-start
						invoke(p.id, p.c, p.duty, p.set)
					}()
				}
				synctest.Wait()
				close(start)
				wg.Wait()
				synctest.Wait()
			case "trim":
				duty := core.Duty{Slot: uint64(op.Slot), Type: core.DutyType(op.Type)}
				dl.ch <- duty
				synctest.Wait()
				rec.add(event{kind: "trim", call: op.Slot, idx: op.Type})
			}
		}
		cancel()
		synctest.Wait()
		assemble(h, rec)
	})
}

func resolveStatusName(c Call) string {
	_, s := resolveStatus(c)
	return s
}

// assemble turns the event log into labels.
func assemble(h *History, rec *recorder) {
	rec.mu.Lock()
	defer rec.mu.Unlock()
	thrA := map[int][]event{}
	thrB := map[int][]event{}
	ints := map[int]int{}
	for _, e := range rec.evs {
		switch e.kind {
		case "thrA":
			thrA[e.call] = append(thrA[e.call], e)
		case "thrB":
			thrB[e.call] = append(thrB[e.call], e)
		case "int":
			ints[e.call]++
		}
	}
	ended := map[int]bool{}
	for _, e := range rec.evs {
		ci := rec.calls[e.call]
		switch e.kind {
		case "begin":
			ents := append([]string(nil), ci.ents...)
			// the set is a map: list it in pubkey order of the script
			order := make([]int, len(ents))
			for i := range order {
				order[i] = i
			}
			sort.Slice(order, func(a, b int) bool { return ci.c.Batch[order[a]].PK < ci.c.Batch[order[b]].PK })
			var sorted []string
			for _, i := range order {
				sorted = append(sorted, ents[i])
			}
			h.Labels = append(h.Labels, fmt.Sprintf("ABegin %d %t (%d, %d) %s [%s]", e.call, ci.c.Internal, ci.c.Slot, ci.c.Type, ci.status, strings.Join(sorted, "; ")))
			h.Obs = append(h.Obs, Obs{L: "begin", C: e.call, Slot: ci.c.Slot, Type: ci.c.Type, Status: ci.status})
		case "entry":
			if ended[e.call] {
				continue
			}
			h.Labels = append(h.Labels, fmt.Sprintf("AEntry %d (%s)", e.call, ci.ents[e.idx]))
			h.Obs = append(h.Obs, Obs{L: "entry", C: e.call, Ev: e.ev})
			switch e.ev {
			case "marshal":
				h.Ignored++
				h.Verdicts = append(h.Verdicts, 0)
			case "clone":
				h.Verdicts = append(h.Verdicts, 1)
			default:
				h.Verdicts = append(h.Verdicts, -1)
			}
		case "end":
			ended[e.call] = true
			out := "None"
			var outm map[string]int
			a, b := thrA[e.call], thrB[e.call]
			if len(a) > 1 || len(b) > 1 {
				h.Flags = append(h.Flags, fmt.Sprintf("call %d: a threshold subscriber was called %d/%d times", e.call, len(a), len(b)))
			}
			if len(a) != len(b) || (len(a) > 0 && a[0].out != b[0].out) {
				h.Flags = append(h.Flags, fmt.Sprintf("call %d: the two threshold subscribers saw different calls", e.call))
			}
			if len(a) > 0 {
				out = "(Some " + a[0].out + ")"
				outm = a[0].outm
				h.Fired += len(outm)
			}
			if ints[e.call] > 1 {
				h.Flags = append(h.Flags, fmt.Sprintf("call %d: internal subscriber called %d times", e.call, ints[e.call]))
			}
			ec := errClass(e.err)
			if ec != "ENone" {
				h.Ignored++
			}
			h.Labels = append(h.Labels, fmt.Sprintf("AEnd %d %s %s %t", e.call, ec, out, ints[e.call] > 0))
			h.Obs = append(h.Obs, Obs{L: "end", C: e.call, Err: ec, Called: len(a) > 0, Out: outm})
		case "trim":
			h.Labels = append(h.Labels, fmt.Sprintf("ATrim (%d, %d)", e.call, e.idx))
			h.Obs = append(h.Obs, Obs{L: "trim", Slot: e.call, Type: e.idx})
		}
	}
	for c, evs := range thrA {
		if !ended[c] || c == 0 {
			h.Flags = append(h.Flags, fmt.Sprintf("threshold subscriber called %d times outside a recorded call (%d)", len(evs), c))
		}
	}
	h.Flags = append(h.Flags, rec.flags...)
	h.Ignored += scriptRepeats(h.Script)
	h.NonTrivial = h.Fired > 0 && h.Ignored > 0
}

// scriptRepeats counts entries whose (duty, pubkey, sub, share) was already submitted since the
// last trim of the duty (duplicates and equivocations in plain mode, where the store result of
// a single entry is not observed directly).
func scriptRepeats(script []Op) int {
	type k struct{ slot, typ, pk, sub, share int }
	seen := map[k]bool{}
	n := 0
	visit := func(c Call) {
		if resolveStatusName(c) == "Expired" || !c.Plain {
			return
		}
		for _, e := range c.Batch {
			kk := k{c.Slot, c.Type, e.PK, e.Sub, e.Share}
			if seen[kk] {
				n++
			}
			seen[kk] = true
		}
	}
	for _, op := range script {
		switch op.Op {
		case "store":
			visit(*op.Call)
		case "conc":
			for _, c := range op.Calls {
				visit(c)
			}
		case "trim":
			for kk := range seen {
				if kk.slot == op.Slot && kk.typ == op.Type {
					delete(seen, kk)
				}
			}
		}
	}

	return n
}

// ---- script generators ----

var plainTypes = []int{2, 10, 7, 8, 3, 11, 12} // non-exempt duty types the harness builds payloads for
var probeTypes = []int{2, 10, 7, 8, 3}

func threshold(n int) int { return (2*n + 2) / 3 } // cluster.Threshold: ceil(2n/3)

func single(slot, typ int, plain bool, e Ent) Op {
	return Op{Op: "store", Call: &Call{Slot: slot, Type: typ, Plain: plain, Batch: []Ent{e}}}
}

func permutations(n int) [][]int {
	var res [][]int
	a := make([]int, n)
	for i := range a {
		a[i] = i + 1
	}
	var rec func(k int)
	rec = func(k int) {
		if k == n {
			res = append(res, append([]int(nil), a...))
			return
		}
		for i := k; i < n; i++ {
			a[k], a[i] = a[i], a[k]
			rec(k + 1)
			a[k], a[i] = a[i], a[k]
		}
	}
	rec(0)

	return res
}

// genPerm: every arrival order of n shares x every assignment of two roots, one call per share.
func genPerm(n int, hs *[]History) {
	th := threshold(n)
	for pi, perm := range permutations(n) {
		for mask := 0; mask < 1<<n; mask++ {
			idx := pi*(1<<n) + mask
			plain := idx%2 == 1
			typs := probeTypes
			if plain {
				typs = plainTypes
			}
			typ := typs[idx%len(typs)]
			var s []Op
			for _, sh := range perm {
				op := single(3, typ, plain, Ent{PK: 0, Share: sh, Root: (mask >> (sh - 1)) & 1, Sub: 2})
				op.Call.Internal = (idx+sh)%5 == 0
				s = append(s, op)
			}
			// a repeat of the first share (duplicate) and an equivocation of the last
			s = append(s, single(3, typ, plain, Ent{PK: 0, Share: perm[0], Root: (mask >> (perm[0] - 1)) & 1, Sub: 2}))
			s = append(s, single(3, typ, plain, Ent{PK: 0, Share: perm[n-1], Root: (mask >> (perm[n-1] - 1)) & 1, Var: 1, Sub: 2}))
			*hs = append(*hs, History{Kind: fmt.Sprintf("perm%d", n), T: th, Script: s})
		}
	}
}

func pickType(r *rand.Rand, plain bool) int {
	if r.Intn(6) == 0 {
		return []int{4, 6}[r.Intn(2)]
	}
	if plain {
		return plainTypes[r.Intn(len(plainTypes))]
	}

	return probeTypes[r.Intn(len(probeTypes))]
}

func genRandom(r *rand.Rand) History {
	n := 1 + r.Intn(7)
	th := threshold(n)
	if r.Intn(5) == 0 {
		th = 1 + r.Intn(n)
	}
	vals := 1 + r.Intn(4)
	slots := 1 + r.Intn(2)
	plain := r.Intn(2) == 0
	typ := pickType(r, plain)
	mixed := r.Intn(25) == 0 // deadliner that answers against the duty type: correspondence only
	nops := 4 + r.Intn(3*n+6)
	var s []Op
	mkCall := func() Call {
		c := Call{Slot: 1 + r.Intn(slots), Type: typ, Plain: plain, Internal: r.Intn(4) == 0}
		sh := 1 + r.Intn(n)
		used := map[int]bool{}
		k := 1 + r.Intn(vals)
		for i := 0; i < k; i++ {
			pk := r.Intn(vals)
			if used[pk] {
				continue
			}
			used[pk] = true
			e := Ent{PK: pk, Share: sh, Sub: r.Intn(2)}
			if r.Intn(8) == 0 {
				e.Share = 1 + r.Intn(n)
			}
			switch x := r.Intn(10); {
			case x < 7:
			case x < 9:
				e.Root = 1
			default:
				e.Root = 2
			}
			if r.Intn(10) == 0 {
				e.Var = 1
			}
			if (typ == 11 || typ == 12) && r.Intn(12) == 0 {
				e.Bad = true
			}
			c.Batch = append(c.Batch, e)
		}
		switch x := r.Intn(40); {
		case x == 0:
			c.Status = "Expired"
		case x == 1 && mixed:
			c.Status = []string{"Exempt", "Scheduled"}[r.Intn(2)]
		}
		return c
	}
	for i := 0; i < nops; i++ {
		switch x := r.Intn(20); {
		case x == 0 && typ != 4 && typ != 6:
			s = append(s, Op{Op: "trim", Slot: 1 + r.Intn(slots), Type: typ})
		case x == 1 && mixed:
			s = append(s, Op{Op: "trim", Slot: 1 + r.Intn(slots), Type: typ})
		default:
			c := mkCall()
			s = append(s, Op{Op: "store", Call: &c})
		}
	}
	kind := "random"
	if mixed {
		kind = "random-mixed-status"
	}

	return History{Kind: kind, T: th, Script: s}
}

// genMulti: several validators; a batch in which some validators reach the threshold while one
// entry equivocates (rejected), another is a duplicate and another is far from the threshold.
func genMulti(r *rand.Rand) History {
	n := 3 + r.Intn(5)
	th := threshold(n)
	vals := 3 + r.Intn(4)
	plain := r.Intn(3) == 0
	typ := pickType(r, plain)
	if typ == 11 || typ == 12 {
		typ = 10
	}
	var s []Op
	shares := r.Perm(n)
	bad := r.Intn(vals)
	for i, sh0 := range shares {
		sh := sh0 + 1
		c := Call{Slot: 2, Type: typ, Plain: plain, Internal: r.Intn(3) == 0}
		for pk := 0; pk < vals; pk++ {
			e := Ent{PK: pk, Share: sh}
			if pk == bad && i == th-1 {
				// the validator `bad` gets, in the batch in which the others reach the threshold, a
				// share index it has stored already, with other data
				e.Share = shares[0] + 1
				e.Var = 1
			}
			if pk == (bad+1)%vals && i == th-1 && r.Intn(2) == 0 {
				e.Share = shares[0] + 1 // exact duplicate of what is stored
			}
			if pk == (bad+2)%vals && r.Intn(3) == 0 {
				e.Root = 1 + i%2 // a validator whose shares disagree on the root
			}
			c.Batch = append(c.Batch, e)
		}
		s = append(s, Op{Op: "store", Call: &c})
	}

	return History{Kind: "multi", T: th, Script: s}
}

// genExempt: exit / builder registration duties, more than 10 distinct slots for one share.
func genExempt(r *rand.Rand, refire bool) History {
	n := 3 + r.Intn(3)
	th := threshold(n)
	typ := []int{4, 6}[r.Intn(2)]
	plain := r.Intn(2) == 0
	var s []Op
	flood := 1 + r.Intn(n)
	k := 9 + r.Intn(6)
	first := r.Perm(n)
	for _, sh := range first[:th] {
		s = append(s, single(0, typ, plain, Ent{PK: 0, Share: sh + 1}))
	}
	for slot := 1; slot <= k; slot++ {
		s = append(s, single(slot, typ, plain, Ent{PK: 0, Share: flood}))
		if r.Intn(4) == 0 {
			s = append(s, single(slot, typ, plain, Ent{PK: 0, Share: 1 + r.Intn(n)}))
		}
	}
	if refire {
		// the flooding share repeats what it sent for slot 0
		s = append(s, single(0, typ, plain, Ent{PK: 0, Share: flood}))
	} else {
		for _, sh := range first[th:] {
			s = append(s, single(0, typ, plain, Ent{PK: 0, Share: sh + 1}))
		}
		s = append(s, single(1, typ, plain, Ent{PK: 0, Share: 1 + r.Intn(n)}))
	}
	kind := "exempt"
	if refire {
		kind = "exempt-refire"
	}

	return History{Kind: kind, T: th, Script: s}
}

// genExemptBoundary: slot 0 holds fewer than t shares including the flooding share, which then sends
// exactly 8..11 further exits (the cap is 10 entries per share, the 11th evicts the oldest); then
// it repeats slot 0 and/or the other shares complete slot 0, so that whether and when its
// slot-0 signature was evicted shows in the verdicts and in the threshold calls.
func genExemptBoundary(r *rand.Rand) History {
	n := 4 + r.Intn(3)
	th := threshold(n)
	typ := []int{4, 6}[r.Intn(2)]
	plain := r.Intn(3) == 0
	flood := 1 + r.Intn(n)
	var s []Op
	others := r.Perm(n)
	have := 1 + r.Intn(th-1) // shares on slot 0 before the flood, flood included: < th
	s = append(s, single(0, typ, plain, Ent{PK: 0, Share: flood}))
	cnt := 1
	var rest []int
	for _, o := range others {
		if o+1 == flood {
			continue
		}
		if cnt < have {
			s = append(s, single(0, typ, plain, Ent{PK: 0, Share: o + 1}))
			cnt++
		} else {
			rest = append(rest, o+1)
		}
	}
	k := 8 + r.Intn(4)
	for slot := 1; slot <= k; slot++ {
		s = append(s, single(slot, typ, plain, Ent{PK: 0, Share: flood}))
	}
	if r.Intn(2) == 0 {
		s = append(s, single(0, typ, plain, Ent{PK: 0, Share: flood}))
	}
	for _, sh := range rest {
		s = append(s, single(0, typ, plain, Ent{PK: 0, Share: sh}))
	}
	s = append(s, single(0, typ, plain, Ent{PK: 0, Share: flood}), single(1, typ, plain, Ent{PK: 0, Share: flood}))

	return History{Kind: "exempt-boundary", T: th, Script: s}
}

// genConc: several goroutines store concurrently (shares racing for the threshold-th insert,
// duplicates, an equivocation), then a few sequential stores.
func genConc(r *rand.Rand) History {
	n := 3 + r.Intn(5)
	th := threshold(n)
	vals := 1 + r.Intn(3)
	typ := probeTypes[r.Intn(len(probeTypes))]
	if r.Intn(8) == 0 {
		typ = 4
	}
	var s []Op
	rounds := 1 + r.Intn(3)
	for round := 0; round < rounds; round++ {
		g := 2 + r.Intn(n+2)
		var calls []Call
		for i := 0; i < g; i++ {
			c := Call{Slot: 1, Type: typ, Internal: r.Intn(5) == 0}
			sh := 1 + r.Intn(n)
			for pk := 0; pk < vals; pk++ {
				if r.Intn(5) == 0 {
					continue
				}
				e := Ent{PK: pk, Share: sh}
				if r.Intn(6) == 0 {
					e.Root = 1
				}
				if r.Intn(12) == 0 {
					e.Var = 1
				}
				c.Batch = append(c.Batch, e)
			}
			calls = append(calls, c)
		}
		s = append(s, Op{Op: "conc", Calls: calls})
		if r.Intn(4) == 0 && typ != 4 {
			s = append(s, Op{Op: "trim", Slot: 1, Type: typ})
		}
	}
	for sh := 1; sh <= n; sh++ {
		if r.Intn(2) == 0 {
			s = append(s, single(1, typ, false, Ent{PK: 0, Share: sh}))
		}
	}

	return History{Kind: "conc", T: th, Script: s}
}

func corpus() []History {
	var hs []History
	// F1a (repaired by d3604d8): t shares on root 0 fire, then a share on another root.
	for _, plain := range []bool{false, true} {
		hs = append(hs, History{Kind: "corpus-F1a", T: 3, Script: []Op{
			single(5, 2, plain, Ent{Share: 1}), single(5, 2, plain, Ent{Share: 2}), single(5, 2, plain, Ent{Share: 3}),
			single(5, 2, plain, Ent{Share: 4, Root: 1}),
		}})
	}
	// F1b (repaired by d8f5add): a batch in which validators 0..4 reach the threshold and validator 5
	// equivocates; then one more share. Repeated because the outcome depended on map order.
	for i := 0; i < 12; i++ {
		var b1, b2, b3 []Ent
		for pk := 0; pk < 6; pk++ {
			b1 = append(b1, Ent{PK: pk, Share: 1})
			if pk == 5 {
				b2 = append(b2, Ent{PK: pk, Share: 1, Var: 1})
			} else {
				b2 = append(b2, Ent{PK: pk, Share: 2})
			}
			b3 = append(b3, Ent{PK: pk, Share: 3})
		}
		hs = append(hs, History{Kind: "corpus-F1b", T: 2, Script: []Op{
			{Op: "store", Call: &Call{Slot: 5, Type: 10, Plain: i%3 == 2, Batch: b1}},
			{Op: "store", Call: &Call{Slot: 5, Type: 10, Plain: i%3 == 2, Internal: i%2 == 0, Batch: b2}},
			{Op: "store", Call: &Call{Slot: 5, Type: 10, Plain: i%3 == 2, Batch: b3}},
		}})
	}
	// exempt duty: share 2 completes slot 0, sends ten more exits, then repeats the one of slot 0
	for _, plain := range []bool{false, true} {
		s := []Op{single(0, 4, plain, Ent{Share: 1}), single(0, 4, plain, Ent{Share: 2})}
		for slot := 1; slot <= 10; slot++ {
			s = append(s, single(slot, 4, plain, Ent{Share: 2}))
		}
		s = append(s, single(0, 4, plain, Ent{Share: 2}))
		hs = append(hs, History{Kind: "corpus-exempt-refire", T: 2, Script: s})
	}
	// expired duty, internal and external; trim, then the same shares again
	hs = append(hs, History{Kind: "corpus-expired-trim", T: 2, Script: []Op{
		{Op: "store", Call: &Call{Slot: 1, Type: 2, Status: "Expired", Batch: []Ent{{Share: 1}, {PK: 1, Share: 1}}}},
		{Op: "store", Call: &Call{Slot: 1, Type: 2, Status: "Expired", Internal: true, Batch: []Ent{{Share: 2}}}},
		single(1, 2, false, Ent{Share: 1}), single(1, 2, false, Ent{Share: 2}), single(1, 2, false, Ent{Share: 3}),
		{Op: "trim", Slot: 1, Type: 2},
		single(1, 2, false, Ent{Share: 1}), single(1, 2, false, Ent{Share: 1}), single(1, 2, false, Ent{Share: 2}),
		{Op: "store", Call: &Call{Slot: 1, Type: 2, Status: "Expired", Batch: []Ent{{Share: 3}}}},
	}})

	return hs
}

func TestGen(t *testing.T) {
	var replay struct {
		T      int  `json:"t"`
		Script []Op `json:"script"`
	}
	if ok, err := hx.ReadReplay(&replay); ok {
		if err != nil {
			t.Fatal(err)
		}
		// the outcome of a set with a rejected entry can depend on Go's map iteration order: run the
		// script several times
		var hs []History
		for i := 0; i < 16; i++ {
			h := History{ID: i, Kind: "replay", T: replay.T, Script: replay.Script}
			runHistory(t, &h)
			hs = append(hs, h)
		}
		if err := hx.WriteJSON("parsigdb_traces.json", hs); err != nil {
			t.Fatal(err)
		}
		return
	}

	r := hx.Rand()
	nRandom := hx.IntEnv("VERIF_N", 300)
	maxPerm := hx.IntEnv("VERIF_PERM", 4)
	hs := corpus()
	for n := 1; n <= maxPerm; n++ {
		genPerm(n, &hs)
	}
	// sampled arrival orders for n = 5..7 (and up to maxPerm+1..7)
	for n := maxPerm + 1; n <= 7; n++ {
		perms := permutations(n)
		for i := 0; i < nRandom/10; i++ {
			perm := perms[r.Intn(len(perms))]
			mask := r.Intn(1 << n)
			plain := r.Intn(2) == 0
			typ := probeTypes[r.Intn(len(probeTypes))]
			var s []Op
			for _, sh := range perm {
				s = append(s, single(3, typ, plain, Ent{Share: sh, Root: (mask >> (sh - 1)) & 1}))
			}
			s = append(s, single(3, typ, plain, Ent{Share: perm[0], Root: (mask >> (perm[0] - 1)) & 1}))
			hs = append(hs, History{Kind: fmt.Sprintf("permsample%d", n), T: threshold(n), Script: s})
		}
	}
	for i := 0; i < nRandom; i++ {
		hs = append(hs, genRandom(r))
	}
	for i := 0; i < nRandom/3; i++ {
		hs = append(hs, genMulti(r))
	}
	for i := 0; i < nRandom/10; i++ {
		hs = append(hs, genExempt(r, false))
	}
	for i := 0; i < nRandom/30; i++ {
		hs = append(hs, genExempt(r, true))
	}
	for i := 0; i < nRandom/10; i++ {
		hs = append(hs, genExemptBoundary(r))
	}
	for i := 0; i < nRandom/3; i++ {
		hs = append(hs, genConc(r))
	}
	for i := range hs {
		hs[i].ID = i
		runHistory(t, &hs[i])
	}
	if err := hx.WriteJSON("parsigdb_traces.json", hs); err != nil {
		t.Fatal(err)
	}
}
