// Correspondence harness for C06: drives the real dutydb.MemDB with a scripted core.Deadliner
// inside a synctest bubble (blocked Await* readers are goroutines; synctest.Wait() is the
// quiescence oracle) and records the observed label sequence of every history as Coq terms of
// type Stores.DutyDB.label.
package dutydb

import (
	"context"
	"encoding/hex"
	"encoding/json"
	"errors"
	"fmt"
	"math/big"
	"math/rand"
	"runtime"
	"sort"
	"strings"
	"sync"
	"sync/atomic"
	"testing"
	"testing/synctest"

	"github.com/OffchainLabs/go-bitfield"
	eth2api "github.com/attestantio/go-eth2-client/api"
	eth2v1 "github.com/attestantio/go-eth2-client/api/v1"
	eth2spec "github.com/attestantio/go-eth2-client/spec"
	"github.com/attestantio/go-eth2-client/spec/altair"
	"github.com/attestantio/go-eth2-client/spec/deneb"
	"github.com/attestantio/go-eth2-client/spec/electra"
	eth2p0 "github.com/attestantio/go-eth2-client/spec/phase0"

	"github.com/obolnetwork/charon/core"
	"github.com/obolnetwork/charon/core/dutydb"
	"github.com/obolnetwork/charon/testutil"

	"verif/harness/hx"
)

// ---- script ----

// Con is one sync committee contribution of an entry.
type Con struct {
	Slot  int `json:"slot"`
	Sub   int `json:"sub"`
	BRoot int `json:"broot"`
	Var   int `json:"var"` // aggregation bits / signature variant
}

// Entry is one element of an unsigned data set.
type Entry struct {
	K string `json:"k"` // att | pro | agg | con
	// att: Pk pubkey id, DSlot = Duty.Slot, Slot = Data.Slot, Comm = Duty.CommitteeIndex, VIdx, Head/Src/Tgt variants,
	//      Electra: Data.Index = 0 instead of Comm
	// pro: Slot, Blk (block variant, determines the root), Extra (KZG proofs variant: same root, other content)
	// agg: Slot, Data (attestation data variant), Comm, Bits (aggregation bits + signature variant), Electra
	// con: Cs, Single (a core.SyncContribution instead of core.SyncContributions; uses Cs[0])
	Pk      int   `json:"pk,omitempty"`
	DSlot   int   `json:"dslot,omitempty"`
	Slot    int   `json:"slot,omitempty"`
	Comm    int   `json:"comm,omitempty"`
	VIdx    int   `json:"vidx,omitempty"`
	Head    int   `json:"head,omitempty"`
	Src     int   `json:"src,omitempty"`
	Tgt     int   `json:"tgt,omitempty"`
	Electra bool  `json:"electra,omitempty"`
	Blk     int   `json:"blk,omitempty"`
	Extra   int   `json:"extra,omitempty"`
	Data    int   `json:"data,omitempty"`
	Bits    int   `json:"bits,omitempty"`
	Cs      []Con `json:"cs,omitempty"`
	Single  bool  `json:"single,omitempty"`
}

// Key names a query key. att: Slot, A = committee index. pro: Slot. agg: Slot, A = data variant,
// B = committee index, Electra as in the stored entry (the data root is computed from them).
// con: Slot, A = subcommittee, B = block root variant.
type Key struct {
	K       string `json:"k"`
	Slot    int    `json:"slot"`
	A       int    `json:"a,omitempty"`
	B       int    `json:"b,omitempty"`
	Electra bool   `json:"electra,omitempty"`
}

// Op is one scripted operation.
type Op struct {
	Op      string  `json:"op"` // store | await | cancel | expire | pubkey
	DT      string  `json:"dt,omitempty"`
	Slot    int     `json:"slot,omitempty"`
	Status  string  `json:"status,omitempty"`
	Entries []Entry `json:"entries,omitempty"`
	NoWait  bool    `json:"nowait,omitempty"` // do not wait for quiescence after this op (store/expire only)
	// await with a context that is already cancelled: if the key is present the response is queued during
	// registration and Go's select picks the response or ctx.Done() at random
	PreCancel bool `json:"precancel,omitempty"`
	// store only: operations performed while this Store is inside deadliner.Add, i.e. between its expiry
	// verdict and the rest of the call: "expire" (the deadliner emits a duty) and "store" (a complete other
	// Store, started on its own goroutine; on code that holds the lock around Add it can only run afterwards)
	During []Op `json:"during,omitempty"`
	Q       int     `json:"q,omitempty"`
	Key     *Key    `json:"key,omitempty"`
	Comm    int     `json:"comm,omitempty"`
	VIdx    int     `json:"vidx,omitempty"`
}

// History is a script and the labels observed when it ran.
type History struct {
	ID         int      `json:"id"`
	Kind       string   `json:"kind"`
	Script     []Op     `json:"script"`
	Labels     []string `json:"labels"`
	NonTrivial bool     `json:"nontrivial"`
	Blocked    int      `json:"blocked_then_resolved"`
	Clashes    int      `json:"clashes"`
}

// ---- values ----

func rootOf(tag string, id int) eth2p0.Root {
	var r eth2p0.Root
	copy(r[:], fmt.Sprintf("%s-%d", tag, id))
	return r
}

func pubkeyOf(id int) core.PubKey { return core.PubKey(fmt.Sprintf("0x%096x", id)) }

func pubkeyID(pk core.PubKey) int {
	v, ok := new(big.Int).SetString(strings.TrimPrefix(string(pk), "0x"), 16)
	if !ok {
		return -1
	}
	return int(v.Int64())
}

func sigOf(id int) eth2p0.BLSSignature {
	s := testutil.RandomEth2SignatureWithSeed(int64(id))
	return s
}

func attData(slot, index, head, src, tgt int) eth2p0.AttestationData {
	return eth2p0.AttestationData{
		Slot:            eth2p0.Slot(slot),
		Index:           eth2p0.CommitteeIndex(index),
		BeaconBlockRoot: rootOf("head", head),
		Source:          &eth2p0.Checkpoint{Epoch: eth2p0.Epoch(src), Root: rootOf("src", src)},
		Target:          &eth2p0.Checkpoint{Epoch: eth2p0.Epoch(10 + tgt), Root: rootOf("tgt", tgt)},
	}
}

func mkAtt(e Entry) core.AttestationData {
	idx := e.Comm
	if e.Electra {
		idx = 0
	}
	var pk eth2p0.BLSPubKey
	copy(pk[:], fmt.Sprintf("pk-%d", e.Pk))
	return core.AttestationData{
		Data: attData(e.Slot, idx, e.Head, e.Src, e.Tgt),
		Duty: eth2v1.AttesterDuty{
			PubKey:                  pk,
			Slot:                    eth2p0.Slot(e.DSlot),
			ValidatorIndex:          eth2p0.ValidatorIndex(e.VIdx),
			CommitteeIndex:          eth2p0.CommitteeIndex(e.Comm),
			CommitteeLength:         8,
			CommitteesAtSlot:        4,
			ValidatorCommitteeIndex: uint64(e.VIdx % 8),
		},
	}
}

// aggregate attestation data of variant (slot, data, comm, electra)
func aggAttData(slot, data, comm int, el bool) *eth2p0.AttestationData {
	idx := comm
	if el {
		idx = 0
	}
	d := attData(slot, idx, 100+data, 1, 1)
	return &d
}

func mkAgg(e Entry) core.VersionedAggregatedAttestation {
	// variant -> number of aggregation bits set: 1 -> 2, 2 -> 1, 3 -> 3, 4 -> 2 (other positions), 5 -> 4, ...
	counts := []int{2, 1, 3, 2, 4, 5, 1, 6}
	bits := bitfield.NewBitlist(64)
	for i := 0; i < counts[(e.Bits+7)%8]; i++ {
		bits.SetBitAt(uint64((e.Bits*11+i*5)%64), true)
	}
	if e.Electra {
		cb := bitfield.NewBitvector64()
		cb.SetBitAt(uint64(e.Comm), true)
		return core.VersionedAggregatedAttestation{VersionedAttestation: eth2spec.VersionedAttestation{
			Version: eth2spec.DataVersionElectra,
			Electra: &electra.Attestation{AggregationBits: bits, Data: aggAttData(e.Slot, e.Data, e.Comm, true), Signature: sigOf(e.Bits), CommitteeBits: cb},
		}}
	}
	return core.VersionedAggregatedAttestation{VersionedAttestation: eth2spec.VersionedAttestation{
		Version: eth2spec.DataVersionDeneb,
		Deneb:   &eth2p0.Attestation{AggregationBits: bits, Data: aggAttData(e.Slot, e.Data, e.Comm, false), Signature: sigOf(e.Bits)},
	}}
}

var blockCache = map[int]core.VersionedProposal{}

// mkPro: the block variant fixes a random block from testutil (cached for the run); slot and the KZG
// proofs outside the block are overridden.
func mkPro(t *testing.T, e Entry) core.VersionedProposal {
	t.Helper()
	base, ok := blockCache[e.Blk]
	if !ok {
		var p *eth2api.VersionedProposal
		switch e.Blk % 3 {
		case 0:
			p = testutil.RandomCapellaVersionedProposal()
		case 1:
			p = testutil.RandomDenebVersionedProposal()
		default:
			p = testutil.RandomElectraVersionedProposal()
		}
		var err error
		base, err = core.NewVersionedProposal(p)
		if err != nil {
			t.Fatal(err)
		}
		blockCache[e.Blk] = base
	}
	c, err := base.Clone()
	if err != nil {
		t.Fatal(err)
	}
	p := c.(core.VersionedProposal)
	var proofs []deneb.KZGProof
	for i := 0; i < e.Extra; i++ {
		var pr deneb.KZGProof
		copy(pr[:], fmt.Sprintf("kzg-%d-%d", e.Extra, i))
		proofs = append(proofs, pr)
	}
	switch p.Version {
	case eth2spec.DataVersionCapella:
		p.Capella.Slot = eth2p0.Slot(e.Slot)
	case eth2spec.DataVersionDeneb:
		p.Deneb.Block.Slot = eth2p0.Slot(e.Slot)
		p.Deneb.KZGProofs = append([]deneb.KZGProof{}, proofs...)
	case eth2spec.DataVersionElectra:
		p.Electra.Block.Slot = eth2p0.Slot(e.Slot)
		p.Electra.KZGProofs = append([]deneb.KZGProof{}, proofs...)
	}
	return p
}

func mkCon(c Con) core.SyncContribution {
	bits := bitfield.NewBitvector128()
	bits.SetBitAt(uint64(c.Var%128), true)
	return core.NewSyncContribution(&altair.SyncCommitteeContribution{
		Slot:              eth2p0.Slot(c.Slot),
		BeaconBlockRoot:   rootOf("bb", c.BRoot),
		SubcommitteeIndex: uint64(c.Sub),
		AggregationBits:   bits,
		Signature:         sigOf(1000 + c.Var),
	})
}

// ---- interning of contents: equal strings <-> equal ids ----

type interner struct{ m map[string]int }

func (in *interner) id(s string) int {
	if v, ok := in.m[s]; ok {
		return v
	}
	v := len(in.m) + 1
	in.m[s] = v
	return v
}

func mustJSON(t *testing.T, v json.Marshaler) string {
	t.Helper()
	b, err := v.MarshalJSON()
	if err != nil {
		t.Fatalf("marshal: %v", err)
	}
	return string(b)
}

// storeCall is one invocation of MemDB.Store and what the harness saw of it. Events that happen inside
// the call's critical section (deadliner.Add on code that locks around it, every Clone) are stamped from one
// sequence so that the labels of concurrent calls can be put in the order in which things really happened.
type storeCall struct {
	dts    string
	slot   int
	status string
	st     core.DeadlineStatus
	terms  []string
	order  []int // entries in the order they were visited (Clone calls)
	addSeq int64
	lastIn int64 // stamp of the last event known to be inside the call
	hook   func()
	err    error
	done   chan struct{}
}

type seqLog struct {
	n  atomic.Int64
	mu sync.Mutex
	ev []seqEvent
}

type seqEvent struct {
	key   float64
	label string
}

func (l *seqLog) next() int64 { return l.n.Add(1) }

func (l *seqLog) add(key float64, label string) {
	l.mu.Lock()
	l.ev = append(l.ev, seqEvent{key, label})
	l.mu.Unlock()
}

// spy makes Go's map iteration order observable: every store*Unsafe starts with Clone().
type spy struct {
	core.UnsignedData
	idx  int
	call *storeCall
	log  *seqLog
}

func (s spy) Clone() (core.UnsignedData, error) {
	s.call.order = append(s.call.order, s.idx)
	s.call.lastIn = s.log.next()
	return s.UnsignedData.Clone()
}

// fakeDeadliner: the verdict of Add is scripted per Store call; C() is fed by the harness. The harness
// queues the storeCall before it invokes Store, Add takes it from the queue (Add is the first thing Store does).
type fakeDeadliner struct {
	mu      sync.Mutex
	pending []*storeCall
	log     *seqLog
	ch      chan core.Duty
}

func (d *fakeDeadliner) Add(core.Duty) core.DeadlineStatus {
	d.mu.Lock()
	c := d.pending[0]
	d.pending = d.pending[1:]
	d.mu.Unlock()
	c.addSeq = d.log.next()
	c.lastIn = c.addSeq
	d.log.add(float64(c.addSeq), fmt.Sprintf("LAdd (%s, %d) %s", c.dts, c.slot, c.status))
	if c.hook != nil {
		c.hook()
		c.lastIn = d.log.next() // what happened in the hook happened inside this call, before the rest of it
	}
	return c.st
}

func (d *fakeDeadliner) C() <-chan core.Duty { return d.ch }

func dutyOf(dt string, slot int) (core.Duty, string) {
	s := uint64(slot)
	switch dt {
	case "att":
		return core.NewAttesterDuty(s), "DAtt"
	case "pro":
		return core.NewProposerDuty(s), "DPro"
	case "agg":
		return core.NewAggregatorDuty(s), "DAgg"
	case "con":
		return core.NewSyncContributionDuty(s), "DCon"
	case "builder":
		return core.Duty{Slot: s, Type: core.DutyBuilderProposer}, "DBuilder"
	case "randao":
		return core.NewRandaoDuty(s), "DOther"
	default:
		return core.NewVoluntaryExit(s), "DOther"
	}
}

func errClass(err error) string {
	if err == nil {
		return "None"
	}
	m := err.Error()
	table := []struct{ sub, cls string }{
		{"not storing unsigned data for expired or exempt duty", "ERefused"},
		{"unexpected proposer data set length", "ELen"},
		{"unsupported duty type", "EUnsupported"},
		{"invalid unsigned attestation data", "EInvalid"},
		{"invalid versioned proposal", "EInvalid"},
		{"invalid unsigned aggregated attestation", "EInvalid"},
		{"invalid unsigned sync committee contributions", "EInvalid"},
		{"clashing public key", "EClashPK"},
		{"clashing attestation data with hardcoded commidx=0 source", "EClashSrc"},
		{"clashing attestation data with hardcoded commidx=0 target", "EClashTgt"},
		{"clashing attestation data", "EClashAtt"},
		{"clashing blocks", "EClashPro"},
		{"clashing data root", "EClashAgg"},
		{"clashing sync contributions", "EClashCon"},
		{"unknown duty type", "EUnknownType"},
	}
	if errors.Is(err, core.ErrDeprecatedDutyBuilderProposer) {
		return "(Some EDeprecated)"
	}
	for _, e := range table {
		if strings.Contains(m, e.sub) {
			return "(Some " + e.cls + ")"
		}
	}
	return "LBAD_unclassified_error(" + m + ")"
}

type readerResult struct {
	q   int
	key     string // rendered key
	content string // canonical serialisation of the returned value (interned on the main goroutine)
	err     error
}

// runScript executes one script against a fresh MemDB and returns the observed labels.
func runScript(t *testing.T, script []Op) []string {
	t.Helper()
	var labels []string
	in := &interner{m: map[string]int{}}

	// entry -> (value, rendered Coq term)
	build := func(e Entry) (core.UnsignedData, string) {
		switch e.K {
		case "att":
			a := mkAtt(e)
			cid := in.id("att:" + a.Data.String())
			src := in.id("cp:" + a.Data.Source.String())
			tgt := in.id("cp:" + a.Data.Target.String())
			return a, fmt.Sprintf("EAtt %d %d %d %d %d %d %d %d", e.Pk, e.DSlot, e.Slot, e.Comm, e.VIdx, cid, src, tgt)
		case "pro":
			p := mkPro(t, e)
			root, err := p.Root()
			if err != nil {
				t.Fatal(err)
			}
			return p, fmt.Sprintf("EPro %d %d %d", e.Slot, in.id("root:"+hex.EncodeToString(root[:])), in.id("pro:"+mustJSON(t, p)))
		case "agg":
			a := mkAgg(e)
			d, err := a.Data()
			if err != nil {
				t.Fatal(err)
			}
			root, err := d.HashTreeRoot()
			if err != nil {
				t.Fatal(err)
			}
			return a, fmt.Sprintf("EAgg %d %d %d %d", e.Slot, in.id("root:"+hex.EncodeToString(root[:])), e.Comm, in.id("agg:"+mustJSON(t, a)))
		case "con":
			var cs core.SyncContributions
			var terms []string
			for _, c := range e.Cs {
				sc := mkCon(c)
				cs = append(cs, sc)
				terms = append(terms, fmt.Sprintf("(%d, %d, %d, %d)", c.Slot, c.Sub, c.BRoot, in.id("con:"+mustJSON(t, sc))))
				if e.Single {
					break
				}
			}
			term := "ECon [" + strings.Join(terms, "; ") + "]"
			if e.Single && len(cs) > 0 {
				return cs[0], term
			}
			return cs, term
		}
		t.Fatalf("bad entry kind %q", e.K)
		return nil, ""
	}

	synctest.Test(t, func(t *testing.T) {
		slog := &seqLog{}
		dl := &fakeDeadliner{log: slog, ch: make(chan core.Duty, 4096)}
		db := dutydb.NewMemDB(dl)
		results := make(chan readerResult, 4096)
		cancels := map[int]context.CancelFunc{}
		live := map[int]bool{}

		collect := func() {
			synctest.Wait()
			var rs []readerResult
			for {
				select {
				case r := <-results:
					rs = append(rs, r)
					continue
				default:
				}
				break
			}
			sort.Slice(rs, func(i, j int) bool { return rs[i].q < rs[j].q })
			for _, r := range rs {
				delete(live, r.q)
				switch {
				case r.err == nil:
					labels = append(labels, fmt.Sprintf("LAnswer %d %s %d", r.q, r.key, in.id(r.content)))
				case errors.Is(r.err, context.Canceled):
					labels = append(labels, fmt.Sprintf("LCancel %d", r.q))
				default:
					labels = append(labels, fmt.Sprintf("LBAD_reader_error(%d, %v)", r.q, r.err))
				}
			}
			labels = append(labels, "LQuiet")
		}

		// prepare builds the call object and the data set of a store op (on the main goroutine: interning)
		prepare := func(op Op) (*storeCall, core.Duty, core.UnsignedDataSet) {
			duty, dts := dutyOf(op.DT, op.Slot)
			c := &storeCall{dts: dts, slot: op.Slot, status: "Scheduled", st: core.DeadlineScheduled, done: make(chan struct{})}
			switch op.Status {
			case "Expired":
				c.status, c.st = "Expired", core.DeadlineExpired
			case "Exempt":
				c.status, c.st = "Exempt", core.DeadlineExempt
			}
			set := core.UnsignedDataSet{}
			for i, e := range op.Entries {
				v, term := build(e)
				pk := pubkeyOf(900 + i)
				if e.K == "att" {
					pk = pubkeyOf(e.Pk)
				}
				if _, dup := set[pk]; dup {
					continue // a Go map cannot hold it twice; not part of the set
				}
				set[pk] = spy{UnsignedData: v, idx: len(c.terms), call: c, log: slog}
				c.terms = append(c.terms, term)
			}
			return c, duty, set
		}
		storeLabel := func(c *storeCall) string {
			seen := map[int]bool{}
			var vis, unv []string
			for _, i := range c.order {
				seen[i] = true
				vis = append(vis, c.terms[i])
			}
			for i, tm := range c.terms {
				if !seen[i] {
					unv = append(unv, tm)
				}
			}
			return fmt.Sprintf("LStore (%s, %d) %s [%s] [%s] %s", c.dts, c.slot, c.status,
				strings.Join(vis, "; "), strings.Join(unv, "; "), errClass(c.err))
		}
		// runStore performs a store op. Its During ops run while the call is inside deadliner.Add.
		runStore := func(op Op) {
			c, duty, set := prepare(op)
			var nested []*storeCall
			if len(op.During) > 0 {
				c.hook = func() {
					for _, d := range op.During {
						switch d.Op {
						case "expire":
							du, dts := dutyOf(d.DT, d.Slot)
							dl.ch <- du
							slog.add(float64(slog.next()), fmt.Sprintf("LExpire (%s, %d)", dts, d.Slot))
						case "store":
							nc, nduty, nset := prepare(d)
							nested = append(nested, nc)
							dl.mu.Lock()
							dl.pending = append(dl.pending, nc)
							dl.mu.Unlock()
							var fin atomic.Bool
							go func() {
								nc.err = db.Store(context.Background(), nduty, nset)
								fin.Store(true)
								close(nc.done)
							}()
							// Give the other Store the chance to run to completion now. On code that holds the
							// lock around Add it cannot (it waits for the lock) and runs after this call.
							for i := 0; i < 20000 && !fin.Load(); i++ {
								runtime.Gosched()
							}
						}
					}
				}
			}
			dl.mu.Lock()
			dl.pending = append(dl.pending, c)
			dl.mu.Unlock()
			c.err = db.Store(context.Background(), duty, set)
			for _, nc := range nested {
				<-nc.done
			}
			// The LStore label of a call is placed right after the last event known to be inside that call.
			slog.add(float64(c.lastIn)+0.5, storeLabel(c))
			for _, nc := range nested {
				slog.add(float64(nc.lastIn)+0.5, storeLabel(nc))
			}
			slog.mu.Lock()
			sort.SliceStable(slog.ev, func(i, j int) bool { return slog.ev[i].key < slog.ev[j].key })
			for _, e := range slog.ev {
				labels = append(labels, e.label)
			}
			slog.ev = nil
			slog.mu.Unlock()
		}

		for _, op := range script {
			switch op.Op {
			case "store":
				runStore(op)
				if !op.NoWait {
					collect()
				}
			case "expire":
				duty, dts := dutyOf(op.DT, op.Slot)
				dl.ch <- duty
				labels = append(labels, fmt.Sprintf("LExpire (%s, %d)", dts, op.Slot))
				if !op.NoWait {
					collect()
				}
			case "await":
				if live[op.Q] || op.Key == nil {
					continue
				}
				ctx, cancel := context.WithCancel(context.Background())
				cancels[op.Q] = cancel
				live[op.Q] = true
				q, k := op.Q, *op.Key
				var kterm string
				var call func() (string, error)
				switch k.K {
				case "att":
					kterm = fmt.Sprintf("(K KAtt %d %d 0)", k.Slot, k.A)
					call = func() (string, error) {
						v, err := db.AwaitAttestation(ctx, uint64(k.Slot), uint64(k.A))
						if err != nil {
							return "", err
						}
						return "att:" + v.String(), nil
					}
				case "pro":
					kterm = fmt.Sprintf("(K KPro %d 0 0)", k.Slot)
					call = func() (string, error) {
						v, err := db.AwaitProposal(ctx, uint64(k.Slot))
						if err != nil {
							return "", err
						}
						b, err := core.VersionedProposal{VersionedProposal: *v}.MarshalJSON()
						return "pro:" + string(b), err
					}
				case "agg":
					root, err := aggAttData(k.Slot, k.A, k.B, k.Electra).HashTreeRoot()
					if err != nil {
						t.Fatal(err)
					}
					kterm = fmt.Sprintf("(K KAgg %d %d %d)", k.Slot, in.id("root:"+hex.EncodeToString(root[:])), k.B)
					call = func() (string, error) {
						v, err := db.AwaitAggAttestation(ctx, uint64(k.Slot), root, eth2p0.CommitteeIndex(k.B))
						if err != nil {
							return "", err
						}
						b, err := core.VersionedAggregatedAttestation{VersionedAttestation: *v}.MarshalJSON()
						return "agg:" + string(b), err
					}
				case "con":
					kterm = fmt.Sprintf("(K KCon %d %d %d)", k.Slot, k.A, k.B)
					call = func() (string, error) {
						v, err := db.AwaitSyncContribution(ctx, uint64(k.Slot), uint64(k.A), rootOf("bb", k.B))
						if err != nil {
							return "", err
						}
						b, err := core.SyncContribution{SyncCommitteeContribution: *v}.MarshalJSON()
						return "con:" + string(b), err
					}
				default:
					t.Fatalf("bad key kind %q", k.K)
				}
				labels = append(labels, fmt.Sprintf("LAwaitReg %d %s", q, kterm))
				if op.PreCancel {
					cancel()
				}
				go func() {
					s, err := call()
					results <- readerResult{q: q, key: kterm, content: s, err: err}
				}()
				collect()
			case "cancel":
				if !live[op.Q] {
					continue
				}
				cancels[op.Q]()
				collect()
			case "pubkey":
				pk, err := db.PubKeyByAttestation(context.Background(), uint64(op.Slot), uint64(op.Comm), uint64(op.VIdx))
				r := "None"
				if err == nil {
					r = fmt.Sprintf("(Some %d)", pubkeyID(pk))
				} else if !strings.Contains(err.Error(), "pubkey not found") {
					r = "LBAD_pubkey_error"
				}
				labels = append(labels, fmt.Sprintf("LPubKey %d %d %d %s", op.Slot, op.Comm, op.VIdx, r))
			}
		}
		// end of history: release every reader still blocked
		var rest []int
		for q := range live {
			rest = append(rest, q)
		}
		sort.Ints(rest)
		for _, q := range rest {
			cancels[q]()
		}
		collect()
		for _, c := range cancels {
			c()
		}
	})

	return labels
}

// ---- generator ----

var mainTypes = []string{"att", "pro", "agg", "con"}

type gen struct {
	r     *rand.Rand
	disc  bool // disciplined: entry slots = duty slot, no Scheduled after the duty was emitted by the deadliner
	focus []string
	base  int
	dead  map[string]bool
	nextQ int
}

func (g *gen) pct(p int) bool { return g.r.Intn(100) < p }

func (g *gen) slot() int { return g.base + g.r.Intn(2) }

func (g *gen) typ() string {
	if g.pct(85) {
		return g.focus[g.r.Intn(len(g.focus))]
	}
	return mainTypes[g.r.Intn(4)]
}

func (g *gen) entrySlot(dutySlot int) int {
	if g.disc || g.pct(80) {
		return dutySlot
	}
	return g.slot()
}

func (g *gen) oneOr(p int, other int) int { // 1 with probability p%, else 1 + Intn(other)
	if g.pct(p) {
		return 1
	}
	return 1 + g.r.Intn(other)
}

func (g *gen) entry(t string, dutySlot int) Entry {
	switch t {
	case "att":
		v := 1 + g.r.Intn(3)
		pk := v
		if g.pct(10) {
			pk = 1 + g.r.Intn(4)
		}
		return Entry{K: "att", Pk: pk, DSlot: g.entrySlot(dutySlot), Slot: g.entrySlot(dutySlot), Comm: g.r.Intn(3), VIdx: v,
			Head: g.oneOr(75, 2), Src: g.oneOr(90, 2), Tgt: g.oneOr(90, 2), Electra: g.pct(20)}
	case "pro":
		return Entry{K: "pro", Slot: g.entrySlot(dutySlot), Blk: g.oneOr(65, 4), Extra: g.oneOr(70, 3) - 1}
	case "agg":
		return Entry{K: "agg", Slot: g.entrySlot(dutySlot), Data: g.oneOr(60, 2), Comm: g.r.Intn(2), Bits: g.oneOr(40, 5), Electra: g.pct(30)}
	default:
		n := 1 + g.r.Intn(3)
		e := Entry{K: "con", Single: g.pct(25)}
		for i := 0; i < n; i++ {
			e.Cs = append(e.Cs, Con{Slot: g.entrySlot(dutySlot), Sub: g.r.Intn(3), BRoot: g.oneOr(70, 2), Var: g.oneOr(70, 2)})
		}
		return e
	}
}

func (g *gen) store(nested bool) Op {
	t := g.typ()
	if g.pct(4) {
		t = []string{"builder", "randao", "exit"}[g.r.Intn(3)]
	}
	sl := g.slot()
	op := Op{Op: "store", DT: t, Slot: sl, Status: "Scheduled", NoWait: g.pct(5)}
	x := g.r.Intn(100)
	if g.disc {
		if g.dead[fmt.Sprintf("%s/%d", t, sl)] {
			op.Status = "Expired"
		} else if x < 4 {
			op.Status = "Expired"
		} else if x < 7 {
			op.Status = "Exempt"
		}
	} else if x < 10 {
		op.Status = "Expired"
	} else if x < 15 {
		op.Status = "Exempt"
	}
	et := t
	if t == "builder" || t == "randao" || t == "exit" {
		et = mainTypes[g.r.Intn(4)]
	}
	n := 1
	y := g.r.Intn(100)
	if et == "pro" {
		switch {
		case y < 5:
			n = 0
		case y < 15:
			n = 2
		}
	} else {
		switch {
		case y < 3:
			n = 0
		case y < 58:
			n = 1
		case y < 83:
			n = 2
		case y < 95:
			n = 3
		default:
			n = 4
		}
	}
	for i := 0; i < n; i++ {
		k := et
		if g.pct(4) {
			k = mainTypes[g.r.Intn(4)]
		}
		op.Entries = append(op.Entries, g.entry(k, sl))
	}
	if !nested && g.pct(10) { // things happen between this Store's expiry verdict and the rest of the call
		if g.pct(70) {
			ex := Op{Op: "expire", DT: t, Slot: sl}
			if g.pct(25) {
				ex = g.expire()
				ex.NoWait = false
			}
			g.dead[fmt.Sprintf("%s/%d", ex.DT, ex.Slot)] = true
			op.During = append(op.During, ex)
		}
		if g.pct(85) {
			op.During = append(op.During, g.store(true))
		}
	}
	return op
}

func (g *gen) key() *Key {
	switch g.typ() {
	case "att":
		return &Key{K: "att", Slot: g.slot(), A: g.r.Intn(3)}
	case "pro":
		return &Key{K: "pro", Slot: g.slot()}
	case "agg":
		return &Key{K: "agg", Slot: g.slot(), A: g.oneOr(60, 2), B: g.r.Intn(2), Electra: g.pct(30)}
	default:
		return &Key{K: "con", Slot: g.slot(), A: g.r.Intn(3), B: g.oneOr(70, 2)}
	}
}

func (g *gen) await() Op {
	g.nextQ++
	return Op{Op: "await", Q: g.nextQ, Key: g.key(), PreCancel: g.pct(6)}
}

func (g *gen) expire() Op {
	t := g.typ()
	if g.pct(8) {
		t = []string{"builder", "randao"}[g.r.Intn(2)]
	}
	sl := g.slot()
	g.dead[fmt.Sprintf("%s/%d", t, sl)] = true
	return Op{Op: "expire", DT: t, Slot: sl, NoWait: g.pct(10)}
}

func genRandom(r *rand.Rand) []Op {
	g := &gen{r: r, disc: r.Intn(10) < 6, base: 1 + r.Intn(3), dead: map[string]bool{}}
	nf := 1 + r.Intn(2)
	for _, i := range r.Perm(4)[:nf] {
		g.focus = append(g.focus, mainTypes[i])
	}
	n := 1 + r.Intn(40)
	var s []Op
	for len(s) < n {
		switch x := r.Intn(100); {
		case x < 38:
			s = append(s, g.store(false))
		case x < 68:
			s = append(s, g.await())
		case x < 76:
			if g.nextQ > 0 {
				s = append(s, Op{Op: "cancel", Q: 1 + r.Intn(g.nextQ)})
			}
		case x < 84:
			s = append(s, g.expire())
		case x < 92:
			s = append(s, Op{Op: "pubkey", Slot: g.slot(), Comm: r.Intn(3), VIdx: 1 + r.Intn(3)})
		case x < 96: // race: a store resolves readers and one of them is cancelled before it runs
			if g.nextQ > 0 {
				st := g.store(false)
				st.NoWait = true
				s = append(s, st, Op{Op: "cancel", Q: 1 + r.Intn(g.nextQ)})
			}
		default: // several readers on one key
			k := g.key()
			for i := 0; i < 2+r.Intn(2); i++ {
				g.nextQ++
				kk := *k
				s = append(s, Op{Op: "await", Q: g.nextQ, Key: &kk})
			}
		}
	}
	return s
}

// templates: scenario families with the parameters drawn from r
func genTemplate(r *rand.Rand, which int) []Op {
	sl := 1 + r.Intn(5)
	st := func(dt string, slot int, es ...Entry) Op {
		return Op{Op: "store", DT: dt, Slot: slot, Status: "Scheduled", Entries: es}
	}
	aw := func(q int, k Key) Op { return Op{Op: "await", Q: q, Key: &k} }
	att := func(pk, comm, v, head, src, tgt int) Entry {
		return Entry{K: "att", Pk: pk, DSlot: sl, Slot: sl, Comm: comm, VIdx: v, Head: head, Src: src, Tgt: tgt}
	}
	switch which {
	case 0: // F2 shape: same aggregate key, other aggregation bits; every reader must see the first
		el := r.Intn(2) == 0
		a1 := Entry{K: "agg", Slot: sl, Data: 1, Comm: 1, Bits: 1, Electra: el} // 2 aggregation bits
		a2, a3, a4, a5 := a1, a1, a1, a1
		a2.Bits, a3.Bits, a4.Bits, a5.Bits = 2, 3, 4, 5 // 1, 3, 2 (other positions), 4 bits; other signatures
		k := Key{K: "agg", Slot: sl, A: 1, B: 1, Electra: el}
		return []Op{aw(1, k), st("agg", sl, a1), aw(2, k), st("agg", sl, a2), aw(3, k), st("agg", sl, a3), aw(4, k),
			st("agg", sl, a4), aw(5, k), st("agg", sl, a1, a5), aw(6, k), st("agg", sl, a5, a3, a2), aw(7, k)}
	case 1: // several blocked readers, one store wakes them all; other keys stay blocked
		k := Key{K: "att", Slot: sl, A: 1}
		return []Op{aw(1, k), aw(2, k), aw(3, Key{K: "att", Slot: sl, A: 0}), aw(4, Key{K: "att", Slot: sl, A: 2}), aw(5, Key{K: "pro", Slot: sl}),
			st("att", sl, att(1, 1, 1, 1, 1, 1)), aw(6, k), {Op: "cancel", Q: 4}, st("att", sl, att(2, 2, 2, 1, 1, 1))}
	case 2: // partial failure: one entry stored, another clashes; nobody is woken until the next resolve
		return []Op{st("att", sl, att(1, 1, 1, 1, 1, 1)), aw(1, Key{K: "att", Slot: sl, A: 2}),
			st("att", sl, att(2, 2, 2, 1, 1, 1), att(1, 1, 1, 2, 1, 1)), // head clash on (sl,1); (sl,2) stored or not depending on order
			{Op: "pubkey", Slot: sl, Comm: 2, VIdx: 2},
			aw(2, Key{K: "att", Slot: sl + 1, A: 0}),
			st("att", sl, att(1, 1, 1, 1, 1, 1))}
	case 3: // committee-index-0 copy: other head accepted, other source / target refused, value of (sl,0) never changes
		return []Op{st("att", sl, att(1, 1, 1, 1, 1, 1)), aw(1, Key{K: "att", Slot: sl, A: 0}),
			st("att", sl, att(2, 2, 2, 2, 1, 1)), aw(2, Key{K: "att", Slot: sl, A: 0}), aw(3, Key{K: "att", Slot: sl, A: 2}),
			st("att", sl, att(3, 3, 3, 1+r.Intn(2), 2, 1)), st("att", sl, att(3, 4, 3, 1+r.Intn(2), 1, 2)), aw(5, Key{K: "att", Slot: sl, A: 3}), aw(6, Key{K: "att", Slot: sl, A: 4}),
			st("att", sl, att(3, 0, 3, 2, 1, 1)), aw(4, Key{K: "att", Slot: sl, A: 0}),
			{Op: "pubkey", Slot: sl, Comm: 0, VIdx: 3}, {Op: "pubkey", Slot: sl, Comm: 0, VIdx: 2}}
	case 4: // public key clashes (own committee and committee 0)
		return []Op{st("att", sl, att(1, 1, 1, 1, 1, 1)), st("att", sl, att(2, 1, 1, 1, 1, 1)), st("att", sl, att(2, 2, 1, 1, 1, 1)),
			{Op: "pubkey", Slot: sl, Comm: 1, VIdx: 1}, {Op: "pubkey", Slot: sl, Comm: 2, VIdx: 1}, {Op: "pubkey", Slot: sl, Comm: 0, VIdx: 1},
			aw(1, Key{K: "att", Slot: sl, A: 2})}
	case 5: // expiry: deleted at the next store that gets through; refused afterwards
		p := Entry{K: "pro", Slot: sl, Blk: 1}
		p2 := Entry{K: "pro", Slot: sl + 1, Blk: 2}
		return []Op{st("pro", sl, p), aw(1, Key{K: "pro", Slot: sl}), {Op: "expire", DT: "pro", Slot: sl}, aw(2, Key{K: "pro", Slot: sl}),
			st("pro", sl+1, p2), aw(3, Key{K: "pro", Slot: sl}),
			{Op: "store", DT: "pro", Slot: sl, Status: "Expired", Entries: []Entry{p}}, {Op: "cancel", Q: 3}}
	case 6: // deleteDutyUnsafe errors surface from an unrelated, otherwise successful store
		dt := []string{"builder", "randao"}[r.Intn(2)]
		c := Entry{K: "con", Cs: []Con{{Slot: sl, Sub: 1, BRoot: 1, Var: 1}}}
		return []Op{aw(1, Key{K: "con", Slot: sl, A: 1, B: 1}), {Op: "expire", DT: dt, Slot: sl}, {Op: "expire", DT: "con", Slot: sl},
			st("con", sl, c), aw(2, Key{K: "con", Slot: sl, A: 1, B: 1}), st("con", sl+1), aw(3, Key{K: "con", Slot: sl, A: 1, B: 1})}
	case 7: // plural contributions whose k-th entry clashes
		k := r.Intn(3)
		cs := []Con{{Slot: sl, Sub: 0, BRoot: 1, Var: 1}, {Slot: sl, Sub: 1, BRoot: 1, Var: 1}, {Slot: sl, Sub: 2, BRoot: 1, Var: 1}}
		first := Entry{K: "con", Cs: []Con{cs[k]}, Single: r.Intn(2) == 0}
		cs2 := append([]Con{}, cs...)
		cs2[k].Var = 2
		return []Op{st("con", sl, first), aw(1, Key{K: "con", Slot: sl, A: 2, B: 1}), aw(2, Key{K: "con", Slot: sl, A: 0, B: 1}),
			st("con", sl, Entry{K: "con", Cs: cs2}), aw(3, Key{K: "con", Slot: sl, A: (k + 1) % 3, B: 1}), st("con", sl, Entry{K: "con", Cs: cs})}
	case 8: // proposals: same slot other block; same block other blobs; set of two
		p1 := Entry{K: "pro", Slot: sl, Blk: 1}
		p1x := Entry{K: "pro", Slot: sl, Blk: 1, Extra: 1}
		p2 := Entry{K: "pro", Slot: sl, Blk: 2}
		return []Op{aw(1, Key{K: "pro", Slot: sl}), st("pro", sl, p1, p2), st("pro", sl), st("pro", sl, p1), st("pro", sl, p2), st("pro", sl, p1x),
			aw(2, Key{K: "pro", Slot: sl}), st("pro", sl, Entry{K: "agg", Slot: sl, Data: 1, Bits: 1})}
	case 9: // cancelled reader is not served; race between response and cancellation
		k := Key{K: "agg", Slot: sl, A: 1, B: 0}
		a := Entry{K: "agg", Slot: sl, Data: 1, Comm: 0, Bits: 1}
		s1 := st("agg", sl, a)
		s1.NoWait = true
		pc := func(q int) Op { return Op{Op: "await", Q: q, Key: &k, PreCancel: true} }
		return []Op{pc(9), aw(1, k), aw(2, k), aw(3, k), {Op: "cancel", Q: 2}, s1, {Op: "cancel", Q: 3}, aw(4, k), pc(5), pc(6), pc(7), pc(8)}
	case 10: // attester buckets are indexed by Duty.Slot, keys by Data.Slot
		e := Entry{K: "att", Pk: 1, DSlot: sl + 1, Slot: sl, Comm: 1, VIdx: 1, Head: 1, Src: 1, Tgt: 1}
		e2 := Entry{K: "att", Pk: 2, DSlot: sl, Slot: sl, Comm: 2, VIdx: 2, Head: 1, Src: 1, Tgt: 1}
		return []Op{st("att", sl, e, e2), {Op: "expire", DT: "att", Slot: sl}, st("att", sl+2),
			{Op: "pubkey", Slot: sl, Comm: 1, VIdx: 1}, {Op: "pubkey", Slot: sl, Comm: 2, VIdx: 2}, {Op: "pubkey", Slot: sl, Comm: 0, VIdx: 1},
			aw(1, Key{K: "att", Slot: sl, A: 1}), aw(2, Key{K: "att", Slot: sl, A: 2}), aw(3, Key{K: "att", Slot: sl, A: 0}),
			{Op: "expire", DT: "att", Slot: sl + 1}, st("att", sl+2), aw(4, Key{K: "att", Slot: sl, A: 1}), aw(5, Key{K: "att", Slot: sl, A: 0})}
	case 12, 13, 14, 15: // another Store processes the duty's expiry between the verdict and the write of a Store
		var x, y, other Entry
		var k Key
		var dt, odt string
		conflicting := r.Intn(3) != 0
		v := 1
		if conflicting {
			v = 2
		}
		switch which {
		case 12:
			dt, odt = "att", "pro"
			x, y = att(1, 1, 1, 1, 1, 1), att(1, 1, 1, v, 1, 1)
			k = Key{K: "att", Slot: sl, A: 1}
			other = Entry{K: "pro", Slot: sl + 1, Blk: 1}
		case 13:
			dt, odt = "pro", "att"
			x, y = Entry{K: "pro", Slot: sl, Blk: 1}, Entry{K: "pro", Slot: sl, Blk: v}
			k = Key{K: "pro", Slot: sl}
			other = Entry{K: "att", Pk: 1, DSlot: sl + 1, Slot: sl + 1, Comm: 1, VIdx: 1, Head: 1, Src: 1, Tgt: 1}
		case 14:
			dt, odt = "agg", "con"
			x, y = Entry{K: "agg", Slot: sl, Data: 1, Comm: 1, Bits: 1}, Entry{K: "agg", Slot: sl, Data: 1, Comm: 1, Bits: 1 + 2*(v-1)}
			k = Key{K: "agg", Slot: sl, A: 1, B: 1}
			other = Entry{K: "con", Cs: []Con{{Slot: sl + 1, Sub: 0, BRoot: 1, Var: 1}}}
		default:
			dt, odt = "con", "agg"
			x, y = Entry{K: "con", Cs: []Con{{Slot: sl, Sub: 1, BRoot: 1, Var: 1}}}, Entry{K: "con", Cs: []Con{{Slot: sl, Sub: 1, BRoot: 1, Var: v}}}
			k = Key{K: "con", Slot: sl, A: 1, B: 1}
			other = Entry{K: "agg", Slot: sl + 1, Data: 1, Comm: 0, Bits: 1}
		}
		second := st(dt, sl, y)
		second.During = []Op{{Op: "expire", DT: dt, Slot: sl}, st(odt, sl+1, other)}
		late := st(dt, sl, y)
		late.Status = "Expired"
		return []Op{aw(1, k), st(dt, sl, x), aw(2, k), second, aw(3, k), late, st(odt, sl+1, other), aw(4, k)}
	case 17, 18, 19, 20, 21, 22, 23, 24, 25, 26, 27, 28:
		// A query is blocked; a FAILING multi-entry Store writes the awaited key as a partial effect (nobody is
		// woken); a later SUCCESSFUL Store of that type - of the same key and value (variant 0), of other keys
		// only (variant 1), or an idempotent re-store of a set that was stored before (variant 2) - does not make
		// any map grow, and must still wake the reader. Per duty type; proposer sets cannot fail half-way (at most
		// one entry), there the failing Store is the two-entry set.
		typ, variant := (which-17)/3, (which-17)%3
		var dt string
		var pre []Op          // stores needed so that a later entry can clash
		var kE, oE, bad Entry // entry of the awaited key, entry of another key, entry that makes a set fail
		var kK, oK Key
		switch typ {
		case 0:
			dt = "att"
			pre = []Op{st("att", sl, att(4, 3, 4, 1, 1, 1))}
			kE, oE, bad = att(1, 1, 1, 1, 1, 1), att(2, 2, 2, 1, 1, 1), att(4, 3, 4, 2, 1, 1)
			kK, oK = Key{K: "att", Slot: sl, A: 1}, Key{K: "att", Slot: sl, A: 2}
		case 1:
			dt = "pro"
			kE, oE, bad = Entry{K: "pro", Slot: sl, Blk: 1}, Entry{K: "pro", Slot: sl + 1, Blk: 2}, Entry{K: "pro", Slot: sl, Blk: 3}
			kK, oK = Key{K: "pro", Slot: sl}, Key{K: "pro", Slot: sl + 1}
		case 2:
			dt = "agg"
			kE, oE = Entry{K: "agg", Slot: sl, Data: 1, Comm: 1, Bits: 1}, Entry{K: "agg", Slot: sl, Data: 2, Comm: 0, Bits: 1}
			bad = Entry{K: "pro", Slot: sl, Blk: 1} // wrong type: the only way an aggregator set fails
			kK, oK = Key{K: "agg", Slot: sl, A: 1, B: 1}, Key{K: "agg", Slot: sl, A: 2, B: 0}
		default:
			dt = "con"
			pre = []Op{st("con", sl, Entry{K: "con", Cs: []Con{{Slot: sl, Sub: 0, BRoot: 1, Var: 1}}})}
			kE = Entry{K: "con", Cs: []Con{{Slot: sl, Sub: 1, BRoot: 1, Var: 1}}, Single: r.Intn(2) == 0}
			oE = Entry{K: "con", Cs: []Con{{Slot: sl, Sub: 2, BRoot: 1, Var: 1}}}
			bad = Entry{K: "con", Cs: []Con{{Slot: sl, Sub: 0, BRoot: 1, Var: 2}}}
			kK, oK = Key{K: "con", Slot: sl, A: 1, B: 1}, Key{K: "con", Slot: sl, A: 2, B: 1}
		}
		// failing stores that (very likely) leave entry e behind
		failing := func(e Entry) []Op {
			if dt == "con" && r.Intn(2) == 0 { // plural contributions: stored in slice order, deterministic
				return []Op{st("con", sl, Entry{K: "con", Cs: append(append([]Con{}, e.Cs...), bad.Cs...)})}
			}
			var ops []Op
			for i := 0; i < 3; i++ { // map iteration order: e is written unless the failing entry comes first every time
				ops = append(ops, st(dt, sl, e, bad))
			}
			return ops
		}
		slotOf := func(e Entry) int {
			if e.K == "pro" {
				return e.Slot
			}
			return sl
		}
		one := func(e Entry) Op { return st(dt, slotOf(e), e) }
		s := append([]Op{}, pre...)
		switch variant {
		case 0:
			s = append(s, aw(1, kK), aw(2, kK))
			s = append(s, failing(kE)...)
			s = append(s, one(kE), aw(3, kK), one(kE))
		case 1:
			s = append(s, aw(1, kK), aw(2, oK))
			s = append(s, failing(kE)...)
			s = append(s, one(oE), one(kE), aw(3, kK))
		default:
			s = append(s, one(kE), aw(1, oK), one(kE))
			s = append(s, failing(oE)...)
			s = append(s, one(kE), aw(2, oK), one(oE))
		}
		return s
	default: // undisciplined deadliner: a store accepted after the expiry serves other data (why C06 needs C16)
		p1 := Entry{K: "pro", Slot: sl, Blk: 1}
		p2 := Entry{K: "pro", Slot: sl, Blk: 2}
		return []Op{st("pro", sl, p1), aw(1, Key{K: "pro", Slot: sl}), {Op: "expire", DT: "pro", Slot: sl}, st("pro", sl+1), st("pro", sl, p2), aw(2, Key{K: "pro", Slot: sl})}
	}
}

const nTemplates = 29

func classify(labels []string) (blocked, clashes int) {
	waiting := map[string]bool{}
	for i, l := range labels {
		f := strings.Fields(l)
		switch {
		case strings.HasPrefix(l, "LAwaitReg") && i+1 < len(labels) && labels[i+1] == "LQuiet":
			waiting[f[1]] = true
		case strings.HasPrefix(l, "LAnswer") && waiting[f[1]]:
			blocked++
			delete(waiting, f[1])
		case strings.HasPrefix(l, "LStore") && strings.Contains(l, "(Some EClash"):
			clashes++
		}
	}
	return blocked, clashes
}

func TestGen(t *testing.T) {
	var replay struct {
		Script []Op `json:"script"`
	}
	if ok, err := hx.ReadReplay(&replay); ok {
		if err != nil {
			t.Fatal(err)
		}
		h := History{ID: 0, Kind: "replay", Script: replay.Script}
		h.Labels = runScript(t, h.Script)
		h.Blocked, h.Clashes = classify(h.Labels)
		h.NonTrivial = h.Blocked > 0 || h.Clashes > 0
		if err := hx.WriteJSON("dutydb_traces.json", []History{h}); err != nil {
			t.Fatal(err)
		}
		return
	}

	r := hx.Rand()
	n := hx.IntEnv("VERIF_N", 300)
	var hs []History
	for i := 0; i < nTemplates; i++ { // corpus: one instance of every template first (0 = the minimised F2 history)
		hs = append(hs, History{ID: len(hs), Kind: fmt.Sprintf("template%d", i), Script: genTemplate(r, i)})
	}
	for len(hs) < n {
		if r.Intn(8) == 0 {
			i := r.Intn(nTemplates)
			// a template followed by random operations
			s := append(genTemplate(r, i), genRandom(r)...)
			if len(s) > 40 {
				s = s[:40]
			}
			hs = append(hs, History{ID: len(hs), Kind: fmt.Sprintf("template%d+random", i), Script: s})
			continue
		}
		hs = append(hs, History{ID: len(hs), Kind: "random", Script: genRandom(r)})
	}
	for i := range hs {
		hs[i].Labels = runScript(t, hs[i].Script)
		hs[i].Blocked, hs[i].Clashes = classify(hs[i].Labels)
		hs[i].NonTrivial = hs[i].Blocked > 0 || hs[i].Clashes > 0
	}
	if err := hx.WriteJSON("dutydb_traces.json", hs); err != nil {
		t.Fatal(err)
	}
}
