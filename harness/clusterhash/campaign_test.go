package clusterhash

import (
	"bytes"
	"context"
	"encoding/hex"
	"encoding/json"
	"fmt"
	"io"
	"math/rand"
	"net/http"
	"net/http/httptest"
	"os"
	"path/filepath"
	"regexp"
	"sort"
	"strings"
	"sync"
	"testing"
	"time"

	eth2v1 "github.com/attestantio/go-eth2-client/api/v1"
	"github.com/attestantio/go-eth2-client/spec/bellatrix"
	eth2p0 "github.com/attestantio/go-eth2-client/spec/phase0"
	k1 "github.com/decred/dcrd/dcrec/secp256k1/v4"

	"github.com/obolnetwork/charon/cluster"
	"github.com/obolnetwork/charon/cmd/combine"
	"github.com/obolnetwork/charon/eth2util"
	"github.com/obolnetwork/charon/eth2util/deposit"
	"github.com/obolnetwork/charon/eth2util/keystore"
	"github.com/obolnetwork/charon/tbls"

	"verif/harness/hx"
)

// ------------------------------------------------------------------------------------------
// mutation campaign

// Source identifies a file that is mutated.
type Source struct {
	Kind    string     `json:"kind"` // golden-lock | golden-def | fresh-lock | fresh-def | cli-lock
	Version string     `json:"version"`
	File    string     `json:"file,omitempty"`  // golden: file name under cluster/testdata
	Spec    *FreshSpec `json:"spec,omitempty"`  // fresh: how to rebuild it
	Shape   *Shape     `json:"shape,omitempty"` // cli: create-cluster arguments (keys are random: replay re-creates)
}

// Survivor is a mutated file that still verifies.
type Survivor struct {
	Source   Source   `json:"source"`
	Mutation Mutation `json:"mutation"`
	Class    string   `json:"class"` // value-preserving | allowed:<why> | F6 | violation
	Key      string   `json:"key,omitempty"`
	Orig     string   `json:"orig,omitempty"`
	New      string   `json:"new,omitempty"`
}

// MutateReport is what TestMutate hands to the driver.
type MutateReport struct {
	Mutants  int                       `json:"mutants"`
	Files    int                       `json:"files"`
	Classes  map[string]int            `json:"classes"`  // how mutants were rejected
	ByAlt    map[string]int            `json:"by_alt"`   // mutants per alteration kind
	Coverage map[string]map[string]int `json:"coverage"` // "<version> <leaf pattern>" -> rejection class -> count (value-changing alterations only)
	Allowed  map[string]int            `json:"allowed"`  // enumerated legitimate exceptions -> count
	// HashGaps: alterations that the hashes alone do not detect (seen on golden files, whose signatures
	// cannot be checked) but that full verification of a fresh file of the same version rejects.
	HashGaps    map[string]int     `json:"hash_only_gaps_closed_by_other_checks"`
	Survivors   []Survivor         `json:"survivors"`
	Panics      []Survivor         `json:"panics"`
	Skipped     int                `json:"skipped_over_budget"`
	Notes       []string           `json:"notes"`
	LargeCount  []LargeCountResult `json:"large_count_probe"`
	RoundTrips  int                `json:"round_trips"`
	RoundTripNG []string           `json:"round_trip_failures"`
	Baselines   []string           `json:"baseline_failures"`
}

// respelling reports whether an alteration that left the decoded object unchanged also left the JSON
// value unchanged up to spelling.
func respelling(alt, orig, now string) bool {
	emptyLike := func(v string) bool {
		switch v {
		case "<absent>", "null", `""`, `"0x"`, "[]":
			return true
		}
		return false
	}
	var zeroTree func(v any) bool
	zeroTree = func(v any) bool {
		switch x := v.(type) {
		case nil:
			return true
		case string:
			return x == "" || x == "0x" || x == "0"
		case bool:
			return !x
		case json.Number:
			return x == "0"
		case []any:
			for _, e := range x {
				if !zeroTree(e) {
					return false
				}
			}
			return true
		case map[string]any:
			for _, e := range x {
				if !zeroTree(e) {
					return false
				}
			}
			return true
		}
		return false
	}
	zeroLike := func(v string) bool {
		if v == "<absent>" {
			return true
		}
		t, err := decodeTree([]byte(v))
		return err == nil && zeroTree(t)
	}
	switch {
	case strings.HasPrefix(alt, "spell."):
		return true
	case alt == "delete":
		return zeroLike(orig)
	}
	return emptyLike(orig) && emptyLike(now)
}

// lengthAltering: alterations that change the length of a byte field or of a list.
func lengthAltering(alt string) bool {
	switch alt {
	case "hex.append00", "hex.prepend00", "hex.dropfirst", "hex.droplast", "hex.empty", "hex.0x",
		"b64.append00", "b64.prepend00", "b64.droplast", "b64.empty", "b64.set01", "delete", "str.empty",
		"arr.droplast", "arr.duplast", "arr.empty", "arr.addempty", "str.set0x00":
		return true
	}
	return false
}

var reAddrLeaf = regexp.MustCompile(`(^|\.)(address|fee_recipient_address|withdrawal_address)$`)

// allowedException names the legitimate reasons for a value-changing alteration to verify.
func allowedException(src Source, m Mutation) string {
	vi := vnum(src.Version)
	pat := pathPattern(m.Path)
	switch {
	case vi >= vnum("v1.3.0") && reAddrLeaf.MatchString(pat) && (strings.HasPrefix(m.Alt, "spell.") || m.Alt == "str.lower" || m.Alt == "str.upper"):
		return "address-spelling: from v1.3 the hashes and EIP-712 signatures cover the 20 decoded bytes of an address, not its hex spelling (letter case, 0x prefix)"
	case vi <= vnum("v1.1.0") && pat == "signature_aggregate" && (m.Alt == "b64.empty" || m.Alt == "delete"):
		return "legacy-empty-aggregate: Lock.VerifySignatures accepts an empty signature_aggregate for v1.0/v1.1 (documented: early create-cluster did not populate it)"
	}
	return ""
}

var f6Leaf = regexp.MustCompile(`(^|\.)(uuid|name|dkg_algorithm|timestamp|enr|version|fee_recipient_address|withdrawal_address|address|fork_version)$`)

// normalise maps null, "" and [] to one marker so that nil/empty differences do not count.
func normalise(v any) any {
	switch x := v.(type) {
	case nil:
		return "<empty>"
	case string:
		if x == "" {
			return "<empty>"
		}
		return x
	case []any:
		if len(x) == 0 {
			return "<empty>"
		}
		out := make([]any, len(x))
		for i, e := range x {
			out[i] = normalise(e)
		}
		return out
	case map[string]any:
		out := make(map[string]any, len(x))
		for k, e := range x {
			out[k] = normalise(e)
		}
		return out
	}
	return v
}

func sameDecoded(a, b []byte) bool {
	ta, err1 := decodeTree(a)
	tb, err2 := decodeTree(b)
	if err1 != nil || err2 != nil {
		return false
	}
	ja, _ := json.Marshal(normalise(ta))
	jb, _ := json.Marshal(normalise(tb))
	return bytes.Equal(ja, jb)
}

// canonical re-encodes a decoded file (nil when it does not decode).
func canonical(doc []byte, isLock bool) []byte {
	defer func() { _ = recover() }()
	if isLock {
		var l cluster.Lock
		if json.Unmarshal(doc, &l) != nil {
			return nil
		}
		b, _ := json.Marshal(l)
		return b
	}
	var d cluster.Definition
	if json.Unmarshal(doc, &d) != nil {
		return nil
	}
	b, _ := json.Marshal(d)
	return b
}

type campaign struct {
	rep     MutateReport
	judged  map[string]string // fresh files: "<version> <lock|def> <pattern> <alt>" -> rejection class ("ok" if it verified)
	pending []Survivor        // golden survivors waiting for the verdict of the fresh files
}

func judgeKey(version string, isLock bool, pat, alt string) string {
	k := "def"
	if isLock {
		k = "lock"
	}
	return version + " " + k + " " + pat + " " + alt
}

func leafString(doc []byte, path string) string {
	t, err := decodeTree(doc)
	if err != nil {
		return ""
	}
	var nodes []node
	walk(t, nil, &nodes)
	for _, n := range nodes {
		if pathString(n.path) == path {
			b, _ := json.Marshal(n.val)
			if len(b) > 200 {
				b = append(b[:200], "..."...)
			}
			return string(b)
		}
	}
	return "<absent>"
}

// run mutates one file. withSigs=false for golden files (their signatures are random bytes): then
// only hash coverage is judged and the signature-only fields are skipped.
func (c *campaign) run(src Source, doc []byte, isLock, withSigs bool) {
	verify := verifyDefJSON
	if isLock {
		verify = verifyLockJSON
	}
	verifyRaw := verify
	verify = func(b []byte, sigs bool) (cl string, detail string) {
		fin, _ := withTimeout(caseTimeout, fmt.Sprintf("verification of a %s %s file", src.Kind, src.Version), func() { cl, detail = verifyRaw(b, sigs) })
		if !fin {
			return "stalled", "no verdict within " + caseTimeout.String()
		}
		return cl, detail
	}
	if overBudget("the mutation campaign") {
		return
	}
	if cl, d := verify(doc, withSigs); cl != "ok" {
		c.rep.Baselines = append(c.rep.Baselines, fmt.Sprintf("%s %s %s: unmutated file fails verification: %s %s", src.Kind, src.Version, src.File, cl, d))
		return
	}
	c.rep.Files++
	canon := canonical(doc, isLock)
	b64 := vnum(src.Version) <= vnum("v1.1.0")
	_ = mutants(doc, b64, func(m Mutation, mut []byte) {
		pat := pathPattern(m.Path)
		if !withSigs && (pat == "signature_aggregate" || strings.HasPrefix(pat, "node_signatures")) {
			return // covered by signatures only; judged on the fresh files
		}
		if overBudget("the mutation campaign") {
			c.rep.Skipped++
			return
		}
		c.rep.Mutants++
		c.rep.ByAlt[m.Alt]++
		cl, detail := verify(mut, withSigs)
		if cl == "stalled" {
			note("stalled mutant: %s %s %s %s", src.Kind, src.Version, m.Path, m.Alt)
		}
		c.rep.Classes[cl]++
		if withSigs {
			jk := judgeKey(src.Version, isLock, pat, m.Alt)
			if old, seen := c.judged[jk]; !seen || old != "ok" {
				c.judged[jk] = cl
			}
		}
		valueChanging := !strings.HasPrefix(m.Alt, "spell.")
		if cl != "ok" && valueChanging {
			k := src.Version + " " + pat
			if c.rep.Coverage[k] == nil {
				c.rep.Coverage[k] = map[string]int{}
			}
			c.rep.Coverage[k][cl]++
		}
		if cl == "panic" {
			c.rep.Panics = append(c.rep.Panics, Survivor{Source: src, Mutation: m, Class: "panic", Key: "panic:verify:" + src.Version + ":" + pat + ":" + m.Alt, Orig: detail})
			return
		}
		// length-changing alterations: the signature checks must not panic even when the hashes already failed
		if (cl == "hashes" || cl == "signatures") && lengthAltering(m.Alt) {
			var desc string
			if fin, _ := withTimeout(caseTimeout, "panic probe", func() { desc = panicProbe(mut, isLock) }); fin && desc != "" {
				c.rep.Panics = append(c.rep.Panics, Survivor{Source: src, Mutation: m, Class: "panic", Key: "panic:verify:" + src.Version + ":" + pat + ":" + m.Alt, Orig: desc})
			}
		}
		if cl != "ok" {
			return
		}
		s := Survivor{Source: src, Mutation: m, Orig: leafString(doc, m.Path), New: leafString(mut, m.Path)}
		if c2 := canonical(mut, isLock); c2 != nil && sameDecoded(c2, canon) {
			// The file decodes to the original object. That is a mere re-spelling only if the JSON VALUE was not
			// changed (hex letter case / 0x prefix, an empty value written another way, a zero-valued key left
			// out); a changed value that the decoder does not see means the leaf is ignored on load: the file
			// loads, verifies and has the original hashes although a leaf was altered.
			if respelling(m.Alt, s.Orig, s.New) {
				s.Class = "value-preserving"
				c.rep.Allowed["value-preserving: the mutated file decodes to the same object (hex letter case / missing 0x of byte fields, null vs empty, zero-valued key omitted)"]++
				return
			}
			s.Class, s.Key = "violation", "altered-leaf-ignored-on-load:"+src.Version+":"+pat
			if !withSigs {
				c.pending = append(c.pending, s)
				return
			}
			c.rep.Survivors = append(c.rep.Survivors, s)
			return
		}
		if why := allowedException(src, m); why != "" {
			s.Class = "allowed"
			c.rep.Allowed[why]++
			return
		}
		switch {
		case vnum(src.Version) <= vnum("v1.2.0") && f6Leaf.MatchString(pat) && m.Alt == "str.appendNUL":
			s.Class, s.Key = "F6", "F6:legacy-string-padding"
		case strings.HasSuffix(pat, "builder_registration.message.fee_recipient") && (m.Alt == "hex.append00" || m.Alt == "hex.droplast"):
			// zero padding on the right is invisible to the bare PutBytes of hashRegistration
			s.Class, s.Key = "violation", "registration-fee-recipient-padding"
		default:
			s.Class, s.Key = "violation", "mutation-verifies:"+src.Version+":"+pat+":"+m.Alt
		}
		if !withSigs {
			// golden file: only the hashes were judged; the fresh files of this version decide
			c.pending = append(c.pending, s)
			return
		}
		c.rep.Survivors = append(c.rep.Survivors, s)
	})
	c.roundTrip(src, doc, isLock)
}

// roundTrip: decode -> encode -> decode keeps every hash and still verifies.
func (c *campaign) roundTrip(src Source, doc []byte, isLock bool) {
	c.rep.RoundTrips++
	fail := func(why string) {
		c.rep.RoundTripNG = append(c.rep.RoundTripNG, fmt.Sprintf("%s %s %s: %s", src.Kind, src.Version, src.File, why))
	}
	hashesOf := func(b []byte) (map[string]string, error) {
		out := map[string]string{}
		if isLock {
			var l cluster.Lock
			if err := json.Unmarshal(b, &l); err != nil {
				return nil, err
			}
			if err := l.VerifyHashes(); err != nil {
				return nil, err
			}
			out["lock"], out["def"], out["config"] = hex.EncodeToString(l.LockHash), hex.EncodeToString(l.DefinitionHash), hex.EncodeToString(l.ConfigHash)
			return out, nil
		}
		var d cluster.Definition
		if err := json.Unmarshal(b, &d); err != nil {
			return nil, err
		}
		if err := d.VerifyHashes(); err != nil {
			return nil, err
		}
		out["def"], out["config"] = hex.EncodeToString(d.DefinitionHash), hex.EncodeToString(d.ConfigHash)
		return out, nil
	}
	h1, err := hashesOf(doc)
	if err != nil {
		fail("original: " + shortErr(err))
		return
	}
	re := canonical(doc, isLock)
	if re == nil {
		fail("re-encode failed")
		return
	}
	h2, err := hashesOf(re)
	if err != nil {
		fail("re-encoded file: " + shortErr(err))
		return
	}
	for k, v := range h1 {
		if h2[k] != v {
			fail(fmt.Sprintf("%s hash changed by decode/encode: %s -> %s", k, v, h2[k]))
		}
	}
	if !sameDecoded(doc, re) {
		// nil/empty and spelling aside the re-encoded file must carry the same JSON values
		if re2 := canonical(re, isLock); !bytes.Equal(re2, re) {
			fail("encoding is not idempotent")
		}
	}
}

// addressShift is an adversarial two-field alteration suggested by the well-formedness analysis of
// the generated hash programs: up to v1.4 the single fee-recipient / withdrawal address pair is
// hashed by PutBytes calls that append nothing for an empty value, so a file with only a fee
// recipient address and the same file with that address moved to withdrawal_address have the same
// chunk sequence.  It builds a fully signed lock with fee recipient A and no withdrawal address and
// returns it with its altered twin.
func addressShift(t *testing.T, version string, seed int) (orig, mutated []byte) {
	t.Helper()
	const a = "0x52fdfc072182654f163f5f0f9a621d729566c74d"
	r := rand.New(rand.NewSource(int64(seed))) //nolint:gosec
	lock, keys, shares := cluster.NewForT(t, 1, 3, 4, seed, r, cluster.WithVersion(version), cluster.WithLegacyVAddrs(a, ""),
		func(d *cluster.Definition) {
			d.TargetGasLimit = 0
			d.Timestamp = "2022-07-19T18:19:58+02:00"
		})
	for i := range lock.Validators {
		lock.Validators[i].BuilderRegistration = cluster.BuilderRegistration{}
	}
	lock = resign(t, lock, keys, shares)
	orig, err := json.Marshal(lock)
	if err != nil {
		t.Fatal(err)
	}
	tree, _ := decodeTree(orig)
	def := tree.(map[string]any)["cluster_definition"].(map[string]any)
	delete(def, "fee_recipient_address")
	def["withdrawal_address"] = a
	mutated, _ = json.Marshal(tree)
	return orig, mutated
}

// zeroAddressEmptied builds a fully signed lock whose withdrawal addresses are the zero address and
// its twin with the first one replaced by the empty string.
func zeroAddressEmptied(t *testing.T, sp FreshSpec) (orig, mutated []byte) {
	t.Helper()
	lock, _, _ := freshLock(t, sp)
	orig, err := json.Marshal(lock)
	if err != nil {
		t.Fatal(err)
	}
	tree, _ := decodeTree(orig)
	v := tree.(map[string]any)["cluster_definition"].(map[string]any)["validators"].([]any)[0].(map[string]any)
	v["withdrawal_address"] = ""
	mutated, _ = json.Marshal(tree)
	return orig, mutated
}

func goldenSources(t *testing.T) []struct {
	src    Source
	doc    []byte
	isLock bool
} {
	t.Helper()
	var out []struct {
		src    Source
		doc    []byte
		isLock bool
	}
	for _, v := range Versions {
		fn := strings.ReplaceAll(v, ".", "_")
		for _, kind := range []string{"definition", "lock"} {
			name := "cluster_" + kind + "_" + fn + ".json"
			b, err := os.ReadFile(filepath.Join(repoDir(), "cluster", "testdata", name))
			if err != nil {
				t.Fatalf("golden: %v", err)
			}
			k := "golden-def"
			if kind == "lock" {
				k = "golden-lock"
			}
			out = append(out, struct {
				src    Source
				doc    []byte
				isLock bool
			}{Source{Kind: k, Version: v, File: name}, b, kind == "lock"})
		}
	}
	return out
}

func freshSpecs(thorough bool, seed int64) []FreshSpec {
	var out []FreshSpec
	nets := []string{"goerli", "mainnet", "sepolia", "gnosis", "hoodi", "chiado"}
	for i, v := range Versions {
		out = append(out, FreshSpec{Version: v, DV: 2, K: 3, N: 4, Seed: int(seed)*100 + i + 1, Network: nets[i%len(nets)], Amounts: []int{8, 24}})
		if thorough {
			out = append(out, FreshSpec{Version: v, DV: 1, K: 2, N: 3, Seed: int(seed)*100 + 50 + i, Network: nets[(i+1)%len(nets)], Amounts: []int{32}, Name: "x"})
			out = append(out, FreshSpec{Version: v, DV: 3, K: 4, N: 5, Seed: int(seed)*100 + 70 + i, Network: nets[(i+2)%len(nets)], Amounts: []int{1, 1, 30}})
		}
	}
	return out
}

// TestMutate runs the mutation campaign and the decode/encode stability check.
func TestMutate(t *testing.T) {
	c := &campaign{judged: map[string]string{}, rep: MutateReport{Classes: map[string]int{}, ByAlt: map[string]int{}, Coverage: map[string]map[string]int{}, Allowed: map[string]int{}, HashGaps: map[string]int{}}}
	for _, g := range goldenSources(t) {
		c.run(g.src, g.doc, g.isLock, false)
	}
	for _, sp := range freshSpecs(hx.Thorough(), hx.Seed()) {
		sp := sp
		if overBudget("the mutation campaign") {
			break
		}
		var lock cluster.Lock
		if fin, p := withTimeout(30*time.Second, fmt.Sprintf("building the fresh lock %+v", sp), func() { lock, _, _ = freshLock(t, sp) }); !fin || p != nil {
			if p != nil {
				note("building the fresh lock %+v panicked: %v", sp, p)
			}
			continue
		}
		b, err := json.MarshalIndent(lock, "", " ")
		if err != nil {
			t.Fatal(err)
		}
		c.run(Source{Kind: "fresh-lock", Version: sp.Version, Spec: &sp}, b, true, true)
		db, err := json.MarshalIndent(lock.Definition, "", " ")
		if err != nil {
			t.Fatal(err)
		}
		c.run(Source{Kind: "fresh-def", Version: sp.Version, Spec: &sp}, db, false, true)
	}
	if bin := os.Getenv("VERIF_CHARON_BIN"); bin != "" {
		shapes := []Shape{{Nodes: 4, Threshold: 3, Validators: 2, Network: "mainnet", Amounts: nil}}
		if hx.Thorough() {
			shapes = append(shapes, Shape{Nodes: 3, Threshold: 2, Validators: 1, Network: "hoodi", Amounts: []int{16, 16}, Compounding: true, MultiAddr: true})
		}
		for _, sh := range shapes {
			sh := sh
			dir := t.TempDir()
			if out, err := createCluster(bin, dir, sh); err != nil {
				t.Fatalf("create cluster: %v\n%s", err, out)
			}
			b, err := os.ReadFile(filepath.Join(dir, "node0", "cluster-lock.json"))
			if err != nil {
				t.Fatal(err)
			}
			c.run(Source{Kind: "cli-lock", Version: Versions[len(Versions)-1], Shape: &sh}, b, true, true)
		}
	}
	// decode/encode stability with SEVERAL partial deposits per validator in non-sorted amount order, every version
	for i, v := range Versions {
		if overBudget("the mutation campaign") {
			break
		}
		sp := FreshSpec{Version: v, DV: 2, K: 2, N: 3, Seed: int(hx.Seed())*10 + i, Network: "sepolia", Amounts: []int{8, 24}}
		var lock cluster.Lock
		var keys []*k1.PrivateKey
		var shares [][]tbls.PrivateKey
		if fin, p := withTimeout(30*time.Second, fmt.Sprintf("building the fresh lock %+v", sp), func() { lock, keys, shares = freshLock(t, sp) }); !fin || p != nil {
			continue
		}
		for j := range lock.Validators {
			var dds []cluster.DepositData
			for k, eth := range []int{8, 32, 1, 16} {
				wc := make([]byte, 32)
				wc[0] = 1
				wc[31] = byte(j + 1)
				sig := make([]byte, 96)
				for x := range sig {
					sig[x] = byte(7*x + k + 11*j + 1)
				}
				dds = append(dds, cluster.DepositData{PubKey: lock.Validators[j].PubKey, WithdrawalCredentials: wc, Amount: eth * deposit.OneEthInGwei, Signature: sig})
			}
			lock.Validators[j].PartialDepositData = dds
		}
		lock = resign(t, lock, keys, shares)
		c.rep.RoundTrips++
		b, err := json.Marshal(lock)
		if err != nil {
			c.rep.RoundTripNG = append(c.rep.RoundTripNG, fmt.Sprintf("multi-deposit %s: lock with deposits [8,32,1,16] ETH per validator does not encode: %v", v, err))
			continue
		}
		var back cluster.Lock
		switch err := json.Unmarshal(b, &back); {
		case err != nil:
			c.rep.RoundTripNG = append(c.rep.RoundTripNG, fmt.Sprintf("multi-deposit %s: the encoded lock (deposits [8,32,1,16] ETH per validator) does not decode: %v", v, shortErr(err)))
		case back.VerifyHashes() != nil:
			c.rep.RoundTripNG = append(c.rep.RoundTripNG, fmt.Sprintf("multi-deposit %s: the encoded lock (deposits [8,32,1,16] ETH per validator, hashed and signed in memory) fails VerifyHashes after decoding: %v", v, shortErr(back.VerifyHashes())))
		case !bytes.Equal(back.LockHash, lock.LockHash):
			c.rep.RoundTripNG = append(c.rep.RoundTripNG, fmt.Sprintf("multi-deposit %s: lock_hash changed by encode/decode: %x -> %x", v, lock.LockHash, back.LockHash))
		case back.VerifySignatures(nil) != nil:
			c.rep.RoundTripNG = append(c.rep.RoundTripNG, fmt.Sprintf("multi-deposit %s: the encoded lock fails VerifySignatures after decoding: %v", v, shortErr(back.VerifySignatures(nil))))
		default:
			c.roundTrip(Source{Kind: "fresh-lock-multi-deposit", Version: v, Spec: &sp}, b, true)
		}
	}
	// adversarial two-field template (formats with a single address pair: up to v1.4)
	for _, v := range Versions[:5] {
		orig, mut := addressShift(t, v, 7)
		c0, d0 := verifyLockJSON(orig, true)
		if c0 != "ok" {
			c.rep.Baselines = append(c.rep.Baselines, fmt.Sprintf("template address-shift %s: lock with only a fee recipient address fails verification: %s %s", v, c0, d0))
			continue
		}
		c.rep.Mutants++
		c.rep.ByAlt["template.address-shift"]++
		c1, _ := verifyLockJSON(mut, true)
		c.rep.Classes[c1]++
		if c1 == "ok" {
			c.rep.Survivors = append(c.rep.Survivors, Survivor{Source: Source{Kind: "template-address-shift", Version: v},
				Mutation: Mutation{Path: "cluster_definition.fee_recipient_address -> cluster_definition.withdrawal_address", Alt: "template.address-shift"},
				Class:    "violation", Key: "legacy-address-shift", Orig: "fee_recipient_address=A, no withdrawal_address", New: "no fee_recipient_address, withdrawal_address=A"})
		}
	}
	// adversarial template: from v1.5 an address is hashed as its 20 decoded bytes and the EMPTY string
	// as 20 zero bytes, so a zero withdrawal address can be emptied
	for _, v := range Versions[5:] {
		sp := FreshSpec{Version: v, DV: 1, K: 2, N: 3, Seed: 9, Network: "hoodi", ZeroWithdrawal: true}
		orig, mut := zeroAddressEmptied(t, sp)
		c0, d0 := verifyLockJSON(orig, true)
		if c0 != "ok" {
			c.rep.Baselines = append(c.rep.Baselines, fmt.Sprintf("template zero-address %s: lock with zero withdrawal address fails verification: %s %s", v, c0, d0))
			continue
		}
		c.rep.Mutants++
		c.rep.ByAlt["template.zero-address-emptied"]++
		c1, _ := verifyLockJSON(mut, true)
		c.rep.Classes[c1]++
		if c1 == "ok" {
			c.rep.Survivors = append(c.rep.Survivors, Survivor{Source: Source{Kind: "template-zero-address", Version: v, Spec: &sp},
				Mutation: Mutation{Path: "cluster_definition.validators[0].withdrawal_address", Alt: "template.zero-address-emptied"},
				Class:    "violation", Key: "empty-address-equals-zero-address", Orig: zeroAddr, New: "\"\""})
		}
	}
	// golden survivors: a gap of the hashes that full verification closes is enumerated, not reported
	for _, s := range c.pending {
		pat := pathPattern(s.Mutation.Path)
		jk := judgeKey(s.Source.Version, s.Source.Kind == "golden-lock", pat, s.Mutation.Alt)
		if cl, seen := c.judged[jk]; seen && cl != "ok" {
			c.rep.HashGaps[fmt.Sprintf("%s %s %s: not detected by the hashes, rejected by %s", s.Source.Version, pat, s.Mutation.Alt, cl)]++
			continue
		}
		c.rep.Survivors = append(c.rep.Survivors, s)
	}
	sort.Slice(c.rep.Survivors, func(i, j int) bool { return c.rep.Survivors[i].Key < c.rep.Survivors[j].Key })
	// the one deliberate large-count input per version, in a child process with a time budget
	if !overBudget("the large-count probe") {
		c.rep.LargeCount = largeCountProbe(t, 2000000)
	}
	c.rep.Notes = takeNotes()
	if err := hx.WriteJSON("c12_mutate.json", c.rep); err != nil {
		t.Fatal(err)
	}
	fmt.Printf("c12 mutate: files=%d mutants=%d classes=%v survivors=%d panics=%d roundtrip_failures=%d\n",
		c.rep.Files, c.rep.Mutants, c.rep.Classes, len(c.rep.Survivors), len(c.rep.Panics), len(c.rep.RoundTripNG))
}

// ------------------------------------------------------------------------------------------
// black box: create cluster / combine

// Shape is one create-cluster configuration.
type Shape struct {
	Nodes       int    `json:"nodes"`
	Threshold   int    `json:"threshold"` // 0 = default
	Validators  int    `json:"validators"`
	Network     string `json:"network"`
	Amounts     []int  `json:"amounts,omitempty"`
	Compounding bool   `json:"compounding,omitempty"`
	MultiAddr   bool   `json:"multi_addr,omitempty"` // one fee recipient / withdrawal address per validator
	// DefFile: create the cluster with --definition-file from a definition of version DefVersion built
	// in the harness (cluster.NewDefinition; Signed = operators and creator signed, cluster.NewForT).
	DefFile    bool   `json:"def_file,omitempty"`
	DefVersion string `json:"def_version,omitempty"`
	Signed     bool   `json:"signed,omitempty"`
	// CreatorSigned: Definition is a ready-made definition signed by its creator only (operators
	// without address), built in-package by harness/overlay/cluster/zz_verif_c12_test.go.
	// Testnet: custom network given with the --testnet-* flags. Network is then what --network carries
	// ("" = `--network=`), OmitNetwork leaves the flag out (the command defaults it to mainnet).
	// Keymanager: the key shares go to one keymanager per node (--keymanager-addresses) instead of to disk.
	Keymanager    bool            `json:"keymanager,omitempty"`
	Testnet       *Testnet        `json:"testnet,omitempty"`
	OmitNetwork   bool            `json:"omit_network,omitempty"`
	CreatorSigned bool            `json:"creator_signed,omitempty"`
	Definition    json.RawMessage `json:"definition,omitempty"`
}

// Testnet is a custom test network (eth2util.Network).
type Testnet struct {
	Name             string `json:"name"`
	ForkVersion      string `json:"fork_version"`
	ChainID          uint64 `json:"chain_id"`
	GenesisTimestamp int64  `json:"genesis_timestamp"`
}

func (tn *Testnet) network() eth2util.Network {
	if tn == nil {
		return eth2util.Network{}
	}
	return eth2util.Network{Name: tn.Name, GenesisForkVersionHex: tn.ForkVersion, ChainID: tn.ChainID, GenesisTimestamp: tn.GenesisTimestamp}
}

// independent re-computation of the consensus-spec signing roots from the LOCK's fork version
// (nothing here looks at the network name the command used)

func computeDomain(domainType [4]byte, forkVersion []byte) ([32]byte, error) {
	var fv eth2p0.Version
	if len(forkVersion) != len(fv) {
		return [32]byte{}, fmt.Errorf("fork version of %d bytes", len(forkVersion))
	}
	copy(fv[:], forkVersion)
	fd := eth2p0.ForkData{CurrentVersion: fv} // genesis validators root = zero
	r, err := fd.HashTreeRoot()
	if err != nil {
		return [32]byte{}, err
	}
	var d [32]byte
	copy(d[:4], domainType[:])
	copy(d[4:], r[:28])
	return d, nil
}

func signingRoot(objRoot [32]byte, domain [32]byte) ([32]byte, error) {
	sd := eth2p0.SigningData{ObjectRoot: objRoot, Domain: domain}
	return sd.HashTreeRoot()
}

func depositSigningRoot(pub, wc []byte, amount uint64, forkVersion []byte) ([32]byte, error) {
	if len(pub) != 48 || len(wc) != 32 {
		return [32]byte{}, fmt.Errorf("deposit pubkey/credentials of %d/%d bytes", len(pub), len(wc))
	}
	msg := eth2p0.DepositMessage{PublicKey: eth2p0.BLSPubKey(pub), WithdrawalCredentials: wc, Amount: eth2p0.Gwei(amount)}
	mr, err := msg.HashTreeRoot()
	if err != nil {
		return [32]byte{}, err
	}
	dom, err := computeDomain([4]byte{0x03, 0, 0, 0}, forkVersion) // DOMAIN_DEPOSIT
	if err != nil {
		return [32]byte{}, err
	}
	return signingRoot(mr, dom)
}

func registrationSigningRoot(reg cluster.Registration, forkVersion []byte) ([32]byte, error) {
	if len(reg.FeeRecipient) != 20 || len(reg.PubKey) != 48 {
		return [32]byte{}, fmt.Errorf("registration fee recipient/pubkey of %d/%d bytes", len(reg.FeeRecipient), len(reg.PubKey))
	}
	m := eth2v1.ValidatorRegistration{FeeRecipient: bellatrix.ExecutionAddress(reg.FeeRecipient), GasLimit: uint64(reg.GasLimit), Timestamp: reg.Timestamp, Pubkey: eth2p0.BLSPubKey(reg.PubKey)}
	mr, err := m.HashTreeRoot()
	if err != nil {
		return [32]byte{}, err
	}
	dom, err := computeDomain([4]byte{0x00, 0, 0, 0x01}, forkVersion) // DOMAIN_APPLICATION_BUILDER
	if err != nil {
		return [32]byte{}, err
	}
	return signingRoot(mr, dom)
}

func (s Shape) String() string {
	return fmt.Sprintf("n=%d t=%d v=%d %s amounts=%v comp=%v multi=%v def=%v %s signed=%v", s.Nodes, s.Threshold, s.Validators, s.Network, s.Amounts, s.Compounding, s.MultiAddr, s.DefFile, s.DefVersion, s.Signed)
}

func shapeAddrs(s Shape) (fee, wd []string) {
	k := 1
	if s.MultiAddr {
		k = s.Validators
	}
	for i := 0; i < k; i++ {
		f, w := make([]byte, 20), make([]byte, 20)
		for j := range f {
			f[j] = byte(17*i + j + 1)
			w[j] = byte(29*i + 3*j + 2)
		}
		fee = append(fee, addrOf(f))
		wd = append(wd, addrOf(w))
	}
	return fee, wd
}

// validatorAddrs is shapeAddrs expanded to one pair per validator.
func validatorAddrs(s Shape) (fee, wd []string) {
	f, w := shapeAddrs(s)
	for i := 0; i < s.Validators; i++ {
		fee = append(fee, f[i%len(f)])
		wd = append(wd, w[i%len(w)])
	}
	return fee, wd
}

// buildDefinition makes the definition file content for a DefFile shape.
func buildDefinition(t *testing.T, s Shape) cluster.Definition {
	t.Helper()
	fee, wd := validatorAddrs(s)
	for i := range fee { // the definition-file path insists on EIP-55 checksummed addresses
		var e1, e2 error
		fee[i], e1 = eth2util.ChecksumAddress(fee[i])
		wd[i], e2 = eth2util.ChecksumAddress(wd[i])
		if e1 != nil || e2 != nil {
			t.Fatal(e1, e2)
		}
	}
	th := s.Threshold
	if th == 0 {
		th = cluster.Threshold(s.Nodes)
	}
	fv, err := eth2util.NetworkToForkVersion(s.Network)
	if err != nil && s.Testnet == nil {
		t.Fatal(err)
	}
	fvb, _ := eth2util.NetworkToForkVersionBytes(s.Network)
	if s.Testnet != nil {
		fv = s.Testnet.ForkVersion
		fvb, _ = hex.DecodeString(strings.TrimPrefix(fv, "0x"))
	}
	vi := vnum(s.DefVersion)
	gas := uint(0)
	if vi >= vnum("v1.10.0") {
		gas = 30000000
	}
	amounts := s.Amounts
	if vi < vnum("v1.8.0") {
		amounts = nil
	}
	opts := []func(*cluster.Definition){cluster.WithVersion(s.DefVersion), func(d *cluster.Definition) { d.Timestamp = "2024-01-02T03:04:05Z" }}
	if vi < vnum("v1.5.0") {
		opts = append(opts, cluster.WithLegacyVAddrs(fee[0], wd[0]))
	}
	if s.Signed {
		opts = append(opts, cluster.WithForkVersion(fvb), func(d *cluster.Definition) {
			d.Name = "verif"
			d.TargetGasLimit = gas
			d.Compounding = s.Compounding && vi >= vnum("v1.10.0")
			d.DepositAmounts = deposit.EthsToGweis(amounts)
			if vi >= vnum("v1.5.0") {
				for i := range d.ValidatorAddresses {
					d.ValidatorAddresses[i] = cluster.ValidatorAddresses{FeeRecipientAddress: fee[i], WithdrawalAddress: wd[i]}
				}
			}
		})
		lock, _, _ := cluster.NewForT(t, s.Validators, th, s.Nodes, 77, rand.New(rand.NewSource(77)), opts...) //nolint:gosec
		return lock.Definition
	}
	def, err := cluster.NewDefinition("verif", s.Validators, th, fee, wd, fv, cluster.Creator{}, make([]cluster.Operator, s.Nodes), amounts,
		"", gas, s.Compounding && vi >= vnum("v1.10.0"), rand.New(rand.NewSource(int64(s.Nodes*100+s.Validators))), opts...) //nolint:gosec
	if err != nil {
		t.Fatalf("build definition %s: %v", s, err)
	}
	return def
}

// createFromDefinition writes def to a file and runs `charon create cluster --definition-file`.
func createFromDefinition(bin, dir string, def cluster.Definition, tn *Testnet) (string, []byte, error) {
	b, err := json.MarshalIndent(def, "", " ")
	if err != nil {
		return "", nil, err
	}
	fn := filepath.Join(dir, "input-definition.json")
	if err := os.MkdirAll(dir, 0o755); err != nil {
		return "", b, err
	}
	if err := os.WriteFile(fn, b, 0o600); err != nil {
		return "", b, err
	}
	args := []string{"create", "cluster", "--insecure-keys", "--cluster-dir=" + dir, "--definition-file=" + fn}
	if tn != nil {
		args = append(args, "--testnet-name="+tn.Name, "--testnet-fork-version="+tn.ForkVersion,
			fmt.Sprintf("--testnet-chain-id=%d", tn.ChainID), fmt.Sprintf("--testnet-genesis-timestamp=%d", tn.GenesisTimestamp))
	}
	out, err := runCmd(90*time.Second, append(os.Environ(), "HOME="+dir), bin, args...)
	return out, b, err
}

// fakeKeymanager is a keymanager API endpoint that records, in order, every (keystore, password) pair it
// is asked to import and answers 200 like real keymanagers (per-key status would be in the body).
type fakeKeymanager struct {
	mu        sync.Mutex
	keystores []string
	passwords []string
	requests  int
	bad       []string
	srv       *httptest.Server
}

func newFakeKeymanager() *fakeKeymanager {
	k := &fakeKeymanager{}
	k.srv = httptest.NewServer(http.HandlerFunc(func(w http.ResponseWriter, r *http.Request) {
		defer r.Body.Close()
		data, err := io.ReadAll(r.Body)
		var req struct {
			Keystores []string `json:"keystores"`
			Passwords []string `json:"passwords"`
		}
		k.mu.Lock()
		defer k.mu.Unlock()
		k.requests++
		if err != nil || json.Unmarshal(data, &req) != nil || len(req.Keystores) != len(req.Passwords) || !strings.HasSuffix(r.URL.Path, "/eth/v1/keystores") || r.Method != http.MethodPost {
			k.bad = append(k.bad, fmt.Sprintf("malformed import request %s %s (%d keystores, %d passwords)", r.Method, r.URL.Path, len(req.Keystores), len(req.Passwords)))
			w.WriteHeader(http.StatusBadRequest)
			return
		}
		k.keystores = append(k.keystores, req.Keystores...)
		k.passwords = append(k.passwords, req.Passwords...)
		w.WriteHeader(http.StatusOK)
	}))
	return k
}

// materialise writes what the keymanager received as keystore-<i>.json / .txt (receive order) so that the
// same monitor as for disk output reads it: each keystore must decrypt with the password sent WITH it.
func (k *fakeKeymanager) materialise(dir string) error {
	k.mu.Lock()
	defer k.mu.Unlock()
	if err := os.MkdirAll(dir, 0o755); err != nil {
		return err
	}
	for i := range k.keystores {
		if err := os.WriteFile(filepath.Join(dir, fmt.Sprintf("keystore-insecure-%d.json", i)), []byte(k.keystores[i]), 0o600); err != nil {
			return err
		}
		if err := os.WriteFile(filepath.Join(dir, fmt.Sprintf("keystore-insecure-%d.txt", i)), []byte(k.passwords[i]), 0o600); err != nil {
			return err
		}
	}
	return nil
}

// createCluster runs `charon create cluster` (the binary built from the checked working tree).
func createCluster(bin, dir string, s Shape, extra ...string) (string, error) {
	fee, wd := shapeAddrs(s)
	args := []string{"create", "cluster", "--insecure-keys", "--cluster-dir=" + dir, "--name=verif",
		fmt.Sprintf("--nodes=%d", s.Nodes), fmt.Sprintf("--num-validators=%d", s.Validators),
		"--fee-recipient-addresses=" + strings.Join(fee, ","), "--withdrawal-addresses=" + strings.Join(wd, ",")}
	if !s.OmitNetwork {
		args = append(args, "--network="+s.Network)
	}
	if tn := s.Testnet; tn != nil {
		args = append(args, "--testnet-name="+tn.Name, "--testnet-fork-version="+tn.ForkVersion,
			fmt.Sprintf("--testnet-chain-id=%d", tn.ChainID), fmt.Sprintf("--testnet-genesis-timestamp=%d", tn.GenesisTimestamp))
	}
	if s.Threshold != 0 {
		args = append(args, fmt.Sprintf("--threshold=%d", s.Threshold))
	}
	if len(s.Amounts) > 0 {
		var a []string
		for _, x := range s.Amounts {
			a = append(a, fmt.Sprint(x))
		}
		args = append(args, "--deposit-amounts="+strings.Join(a, ","))
	}
	if s.Compounding {
		args = append(args, "--compounding")
	}
	args = append(args, extra...)
	return runCmd(90*time.Second, append(os.Environ(), "HOME="+dir), bin, args...)
}

// ShapeResult is what was checked for one shape.
type ShapeResult struct {
	Shape    Shape    `json:"shape"`
	Version  string   `json:"version"`
	Subsets  int      `json:"subsets_combined"`
	Checks   int      `json:"checks"`
	Failures []string `json:"failures"`
	Refused  bool     `json:"refused,omitempty"` // the command refused the (operator-signed) definition, as it must
	// InputDefinition: the definition file handed to --definition-file (DefFile shapes).
	InputDefinition json.RawMessage `json:"input_definition,omitempty"`
}

func subsetsOf(n, k int) [][]int {
	var out [][]int
	var rec func(start int, cur []int)
	rec = func(start int, cur []int) {
		if len(cur) == k {
			out = append(out, append([]int(nil), cur...))
			return
		}
		for i := start; i < n; i++ {
			rec(i+1, append(cur, i))
		}
	}
	rec(0, nil)
	return out
}

func checkShape(t *testing.T, bin string, s Shape, exhaustive bool, rnd func(int) int) ShapeResult {
	t.Helper()
	res := ShapeResult{Shape: s}
	failf := func(format string, a ...any) { res.Failures = append(res.Failures, fmt.Sprintf(format, a...)) }
	ok := func() { res.Checks++ }
	dir := t.TempDir()
	if s.Testnet != nil {
		eth2util.AddTestNetwork(s.Testnet.network()) // so that this process can verify the lock (chain id lookup)
	}
	fee, wd := validatorAddrs(s)
	var inDef *cluster.Definition
	if s.DefFile {
		var def cluster.Definition
		if len(s.Definition) > 0 {
			if err := json.Unmarshal(s.Definition, &def); err != nil {
				failf("ready-made definition does not decode: %v", err)
				return res
			}
		} else {
			def = buildDefinition(t, s)
		}
		inDef = &def
		out, raw, err := createFromDefinition(bin, dir, def, s.Testnet)
		res.InputDefinition = raw
		if err != nil && s.Signed {
			// A definition carrying operator addresses / signatures cannot be turned into a valid lock by
			// create cluster (it replaces the operators): the command must refuse it and write no lock.
			res.Refused = true
			for i := 0; i < s.Nodes; i++ {
				if _, e := os.Stat(filepath.Join(dir, fmt.Sprintf("node%d", i), "cluster-lock.json")); e == nil {
					failf("create cluster refused the operator-signed definition but wrote node%d/cluster-lock.json", i)
				}
			}
			ok()
			return res
		}
		if err != nil {
			failf("create cluster --definition-file failed on a valid definition: %v: %s", err, lastLines(out, 3))
			return res
		}
		fee, wd = def.FeeRecipientAddresses(), def.WithdrawalAddresses()
	} else if s.Keymanager {
		var kms []*fakeKeymanager
		var addrs, toks []string
		for i := 0; i < s.Nodes; i++ {
			km := newFakeKeymanager()
			defer km.srv.Close()
			kms = append(kms, km)
			addrs = append(addrs, km.srv.URL)
			toks = append(toks, fmt.Sprintf("token%d", i))
		}
		if out, err := createCluster(bin, dir, s, "--keymanager-addresses="+strings.Join(addrs, ","), "--keymanager-auth-tokens="+strings.Join(toks, ",")); err != nil {
			failf("create cluster with keymanagers failed: %v: %s", err, lastLines(out, 3))
			return res
		}
		for i, km := range kms {
			if len(km.bad) > 0 {
				failf("keymanager of node%d: %s", i, km.bad[0])
			}
			if _, err := os.Stat(filepath.Join(dir, fmt.Sprintf("node%d", i), "validator_keys")); err == nil {
				failf("keymanager mode wrote key stores of node%d to disk as well", i)
				return res
			}
			if len(km.keystores) != s.Validators {
				failf("keymanager of node%d received %d keystores in %d requests, want %d (one per validator); nothing is on disk in keymanager mode, so missing shares are lost", i, len(km.keystores), km.requests, s.Validators)
				return res
			}
			// what the keymanager received = that node's key stores; checked by the monitor below
			if err := km.materialise(filepath.Join(dir, fmt.Sprintf("node%d", i), "validator_keys")); err != nil {
				t.Fatal(err)
			}
		}
	} else if out, err := createCluster(bin, dir, s); err != nil {
		failf("create cluster failed: %v: %s", err, lastLines(out, 3))
		return res
	}
	// (1) every node got the same lock; it verifies completely
	var lockBytes []byte
	for i := 0; i < s.Nodes; i++ {
		b, err := os.ReadFile(filepath.Join(dir, fmt.Sprintf("node%d", i), "cluster-lock.json"))
		if err != nil {
			failf("node%d: %v", i, err)
			return res
		}
		if i == 0 {
			lockBytes = b
		} else if !bytes.Equal(b, lockBytes) {
			failf("node%d holds a different lock file than node0", i)
		}
	}
	ok()
	var lock cluster.Lock
	if err := json.Unmarshal(lockBytes, &lock); err != nil {
		failf("lock does not decode: %v", err)
		return res
	}
	res.Version = lock.Version
	if err := lock.VerifyHashes(); err != nil {
		failf("lock.VerifyHashes: %v", err)
	}
	ok()
	if err := lock.VerifySignatures(nil); err != nil {
		failf("lock.VerifySignatures: %v", err)
	}
	ok()
	wantT := s.Threshold
	if wantT == 0 {
		wantT = cluster.Threshold(s.Nodes)
	}
	if lock.Threshold != wantT || len(lock.Operators) != s.Nodes || len(lock.Validators) != s.Validators || lock.NumValidators != s.Validators {
		failf("lock shape: threshold=%d operators=%d validators=%d", lock.Threshold, len(lock.Operators), len(lock.Validators))
	}
	ok()
	fv, _ := eth2util.NetworkToForkVersionBytes(s.Network)
	if s.Testnet != nil { // the custom test network takes precedence over --network
		fv, _ = hex.DecodeString(strings.TrimPrefix(s.Testnet.ForkVersion, "0x"))
	}
	if !bytes.Equal(lock.ForkVersion, fv) {
		failf("fork version %x, want %x", lock.ForkVersion, fv)
	}
	ok()
	// (2) key shares: node i's keystore j is the secret of the lock's public share i of validator j
	secrets := make([][]tbls.PrivateKey, s.Nodes)
	for i := 0; i < s.Nodes; i++ {
		kf, err := keystore.LoadFilesUnordered(filepath.Join(dir, fmt.Sprintf("node%d", i), "validator_keys"))
		if err != nil && s.Keymanager {
			failf("keymanager of node%d: a received keystore does not decrypt with the password sent with it (nothing is on disk in keymanager mode: that share is lost): %v", i, shortErr(err))
			return res
		}
		if err != nil {
			failf("node%d keystores: %v", i, err)
			return res
		}
		keys, err := kf.SequencedKeys()
		if err != nil {
			failf("node%d keystores: %v", i, err)
			return res
		}
		if len(keys) != s.Validators {
			failf("node%d has %d keystores, want %d", i, len(keys), s.Validators)
			return res
		}
		secrets[i] = keys
		for j, sec := range keys {
			pk, err := tbls.SecretToPublicKey(sec)
			if err != nil {
				failf("node%d key %d: %v", i, j, err)
				continue
			}
			if !bytes.Equal(pk[:], lock.Validators[j].PubShares[i]) {
				failf("node%d keystore %d does not match the lock's public share [validator %d][node %d]", i, j, j, i)
			}
			ok()
		}
	}
	vi := vnum(lock.Version)
	compounding := s.Compounding
	wantAmounts := deposit.EthsToGweis(s.Amounts)
	if inDef != nil {
		compounding, wantAmounts = inDef.Compounding, inDef.DepositAmounts
		// (1b) the definition inside the lock is the input definition: the command only fills in the operators
		want := *inDef
		want.Operators = lock.Operators
		want, err := want.SetDefinitionHashes()
		if err != nil {
			failf("input definition with the lock's operators does not hash: %v", err)
		} else {
			if !bytes.Equal(want.ConfigHash, lock.ConfigHash) || !bytes.Equal(want.DefinitionHash, lock.DefinitionHash) {
				failf("the lock's definition is not the input definition (with the generated operators): config hash %x, want %x", lock.ConfigHash, want.ConfigHash)
			}
			a, _ := json.Marshal(want)
			b, _ := json.Marshal(lock.Definition)
			if !sameDecoded(a, b) {
				failf("the lock's definition differs from the input definition: %s", firstDiff(a, b))
			}
		}
		unsigned := true
		for _, o := range inDef.Operators {
			if o.Address != "" {
				unsigned = false
			}
		}
		if unsigned && !bytes.Equal(inDef.ConfigHash, lock.ConfigHash) {
			failf("config hash of the lock %x is not the config hash of the input definition %x", lock.ConfigHash, inDef.ConfigHash)
		}
		ok()
	}
	if vi >= vnum("v1.8.0") && fmt.Sprint(lock.DepositAmounts) != fmt.Sprint(wantAmounts) {
		failf("definition deposit amounts %v, want %v", lock.DepositAmounts, wantAmounts)
	}
	ok()
	// (3) deposit data: in the lock and in the per-node files, for the lock's validator keys
	amounts := deposit.DefaultDepositAmounts(compounding)
	if len(wantAmounts) > 0 {
		amounts = deposit.DedupAmounts(append([]eth2p0.Gwei(nil), wantAmounts...))
	}
	lockNetwork, err := eth2util.ForkVersionToNetwork(lock.ForkVersion)
	if err != nil {
		failf("the lock's fork version %x is no known network: %v", lock.ForkVersion, err)
	}
	verifyDD := func(where string, pub, wc []byte, amount uint64, sig []byte, vIdx int) {
		if !bytes.Equal(pub, lock.Validators[vIdx].PubKey) {
			failf("%s: deposit pubkey is not validator %d's key", where, vIdx)
		}
		w := wd[vIdx]
		wantWC := make([]byte, 32)
		wantWC[0] = 0x01
		if compounding {
			wantWC[0] = 0x02
		}
		ab, _ := hex.DecodeString(strings.TrimPrefix(w, "0x"))
		copy(wantWC[12:], ab)
		if !bytes.Equal(wantWC, wc) {
			failf("%s: withdrawal credentials %x do not derive from the withdrawal address %s", where, wc, w)
		}
		// signing root recomputed from the LOCK's fork version: compute_domain(DOMAIN_DEPOSIT, fork_version, zero root)
		root, err := depositSigningRoot(pub, wc, amount, lock.ForkVersion)
		if err != nil {
			failf("%s: %v", where, err)
			return
		}
		if len(sig) != 96 {
			failf("%s: signature length %d", where, len(sig))
			return
		}
		if err := tbls.Verify(tbls.PublicKey(pub), root[:], tbls.Signature(sig)); err != nil {
			failf("%s: deposit signature does not verify for the lock's validator key under the deposit domain of the lock's fork version %x: %v", where, lock.ForkVersion, err)
		}
		ok()
	}
	for j, v := range lock.Validators {
		wantN := len(amounts)
		switch {
		case vi < vnum("v1.6.0"):
			wantN = 0 // the format carries no deposit data
		case vi < vnum("v1.8.0"):
			wantN = 1 // a single deposit_data entry
		}
		if len(v.PartialDepositData) != wantN {
			failf("validator %d has %d partial deposits, want %d", j, len(v.PartialDepositData), wantN)
		}
		seen := map[uint64]bool{}
		for _, dd := range v.PartialDepositData {
			seen[uint64(dd.Amount)] = true
			verifyDD(fmt.Sprintf("lock validator %d amount %d", j, dd.Amount), dd.PubKey, dd.WithdrawalCredentials, uint64(dd.Amount), dd.Signature, j)
		}
		for _, a := range amounts {
			if vi >= vnum("v1.8.0") && !seen[uint64(a)] {
				failf("validator %d: no deposit data for amount %d", j, a)
			}
		}
	}
	pubIdx := map[string]int{}
	for j, v := range lock.Validators {
		pubIdx[string(v.PubKey)] = j
	}
	for i := 0; i < s.Nodes; i++ {
		sets, err := deposit.ReadDepositDataFiles(filepath.Join(dir, fmt.Sprintf("node%d", i)))
		if err != nil {
			failf("node%d deposit files: %v", i, err)
			continue
		}
		// the files' own fork_version / network_name must be the lock's
		files, _ := filepath.Glob(filepath.Join(dir, fmt.Sprintf("node%d", i), "deposit-data*.json"))
		for _, fn := range files {
			raw, _ := os.ReadFile(fn)
			var ents []struct {
				ForkVersion string `json:"fork_version"`
				NetworkName string `json:"network_name"`
			}
			if err := json.Unmarshal(raw, &ents); err != nil {
				failf("node%d %s: %v", i, filepath.Base(fn), err)
				continue
			}
			for _, e := range ents {
				if e.ForkVersion != hex.EncodeToString(lock.ForkVersion) {
					failf("node%d %s: fork_version %s is not the lock's fork version %x", i, filepath.Base(fn), e.ForkVersion, lock.ForkVersion)
				}
				if e.NetworkName != lockNetwork {
					failf("node%d %s: network_name %q is not the lock's network %q", i, filepath.Base(fn), e.NetworkName, lockNetwork)
				}
			}
			ok()
		}
		n := 0
		for _, set := range sets {
			for _, dd := range set {
				j, found := pubIdx[string(dd.PublicKey[:])]
				if !found {
					failf("node%d deposit file names a key that is not in the lock", i)
					continue
				}
				n++
				verifyDD(fmt.Sprintf("node%d deposit file", i), dd.PublicKey[:], dd.WithdrawalCredentials, uint64(dd.Amount), dd.Signature[:], j)
			}
		}
		if n != len(amounts)*s.Validators {
			failf("node%d deposit files hold %d entries, want %d", i, n, len(amounts)*s.Validators)
		}
	}
	// (4) builder registrations (signature checked by VerifySignatures): message consistent with the lock
	for j, v := range lock.Validators {
		if vi < vnum("v1.7.0") {
			break // the format carries no registrations
		}
		f := fee[j]
		reg := v.BuilderRegistration
		if !strings.EqualFold(addrOf(reg.Message.FeeRecipient), f) {
			failf("validator %d: registration fee recipient %x, want %s", j, reg.Message.FeeRecipient, f)
		}
		if !bytes.Equal(reg.Message.PubKey, v.PubKey) {
			failf("validator %d: registration pubkey is not the validator key", j)
		}
		if _, err := v.Eth2Registration(); err != nil {
			failf("validator %d: Eth2Registration: %v", j, err)
		}
		if rr, err := registrationSigningRoot(reg.Message, lock.ForkVersion); err != nil {
			failf("validator %d: registration: %v", j, err)
		} else if len(reg.Signature) != 96 {
			failf("validator %d: registration signature of %d bytes", j, len(reg.Signature))
		} else if err := tbls.Verify(tbls.PublicKey(v.PubKey), rr[:], tbls.Signature(reg.Signature)); err != nil {
			failf("validator %d: registration signature does not verify under the builder domain of the lock's fork version %x: %v", j, lock.ForkVersion, err)
		}
		if !strings.EqualFold(lock.ValidatorAddresses[j].FeeRecipientAddress, f) {
			failf("validator %d: definition fee recipient %s, want %s", j, lock.ValidatorAddresses[j].FeeRecipientAddress, f)
		}
		ok()
	}
	// (5) combine: every threshold subset (and some larger ones) yields the validators' private keys
	t0 := lock.Threshold
	subs := subsetsOf(s.Nodes, t0)
	if !exhaustive && len(subs) > 4 {
		pick := [][]int{subs[0], subs[len(subs)-1]}
		for len(pick) < 4 {
			pick = append(pick, subs[rnd(len(subs))])
		}
		subs = pick
	}
	if t0 < s.Nodes {
		all := make([]int, s.Nodes)
		for i := range all {
			all[i] = i
		}
		subs = append(subs, all)
		if t0+1 < s.Nodes {
			subs = append(subs, subsetsOf(s.Nodes, t0+1)[rnd(len(subsetsOf(s.Nodes, t0+1)))])
		}
	}
	for _, sub := range subs {
		in, outDir := t.TempDir(), filepath.Join(t.TempDir(), "out")
		for _, i := range sub {
			if err := copyNode(filepath.Join(dir, fmt.Sprintf("node%d", i)), filepath.Join(in, fmt.Sprintf("node%d", i))); err != nil {
				t.Fatal(err)
			}
		}
		var err error
		if fin, p := withTimeout(90*time.Second, fmt.Sprintf("combine of nodes %v (%s)", sub, s), func() {
			err = combine.Combine(context.Background(), in, outDir, true, false, "", s.Testnet.network(), combine.WithInsecureKeysForT(t))
		}); !fin || p != nil {
			failf("combine of nodes %v did not finish (stalled or panicked: %v)", sub, p)
			continue
		}
		if err != nil {
			failf("combine of nodes %v failed: %v", sub, shortErr(err))
			continue
		}
		kf, err := keystore.LoadFilesUnordered(outDir)
		if err != nil {
			failf("combine of nodes %v: output keystores: %v", sub, err)
			continue
		}
		keys, err := kf.SequencedKeys()
		if err != nil || len(keys) != s.Validators {
			failf("combine of nodes %v: %d output keys (%v)", sub, len(keys), err)
			continue
		}
		for j, sec := range keys {
			pk, err := tbls.SecretToPublicKey(sec)
			if err != nil || !bytes.Equal(pk[:], lock.Validators[j].PubKey) {
				failf("combine of nodes %v: key %d is not the private key of the lock's validator key", sub, j)
			}
			ok()
		}
		res.Subsets++
	}
	// fewer than threshold shares must be refused
	if t0 > 1 {
		in, outDir := t.TempDir(), filepath.Join(t.TempDir(), "out")
		for i := 0; i < t0-1; i++ {
			_ = copyNode(filepath.Join(dir, fmt.Sprintf("node%d", i)), filepath.Join(in, fmt.Sprintf("node%d", i)))
		}
		var err error
		fin, _ := withTimeout(90*time.Second, "combine below threshold", func() {
			err = combine.Combine(context.Background(), in, outDir, true, false, "", s.Testnet.network(), combine.WithInsecureKeysForT(t))
		})
		if fin && err == nil {
			failf("combine with %d < threshold %d shares succeeded", t0-1, t0)
		}
		ok()
	}
	return res
}

// copyNode copies what combine reads of a node directory: the lock file and the key stores.
func copyNode(from, to string) error {
	if err := os.MkdirAll(filepath.Join(to, "validator_keys"), 0o755); err != nil {
		return err
	}
	cp := func(a, b string) error {
		data, err := os.ReadFile(a)
		if err != nil {
			return err
		}
		return os.WriteFile(b, data, 0o600)
	}
	if err := cp(filepath.Join(from, "cluster-lock.json"), filepath.Join(to, "cluster-lock.json")); err != nil {
		return err
	}
	ents, err := os.ReadDir(filepath.Join(from, "validator_keys"))
	if err != nil {
		return err
	}
	for _, e := range ents {
		if err := cp(filepath.Join(from, "validator_keys", e.Name()), filepath.Join(to, "validator_keys", e.Name())); err != nil {
			return err
		}
	}
	return nil
}

// firstDiff names the first JSON path at which two documents differ.
func firstDiff(a, b []byte) string {
	ta, _ := decodeTree(a)
	tb, _ := decodeTree(b)
	var na, nb []node
	walk(normalise(ta), nil, &na)
	walk(normalise(tb), nil, &nb)
	for i := range na {
		if i >= len(nb) {
			break
		}
		_, ca := na[i].val.(map[string]any)
		_, la := na[i].val.([]any)
		if ca || la {
			continue
		}
		ja, _ := json.Marshal(na[i].val)
		jb, _ := json.Marshal(nb[i].val)
		if pathString(na[i].path) != pathString(nb[i].path) || !bytes.Equal(ja, jb) {
			return fmt.Sprintf("%s: input %s, lock %s", pathString(na[i].path), ja, jb)
		}
	}
	return "structure differs"
}

func lastLines(s string, n int) string {
	l := strings.Split(strings.TrimSpace(s), "\n")
	if len(l) > n {
		l = l[len(l)-n:]
	}
	return strings.Join(l, " | ")
}

func shapes(thorough bool, rnd func(int) int) []Shape {
	quick := []Shape{
		{Nodes: 3, Threshold: 0, Validators: 1, Network: "mainnet"},
		{Nodes: 4, Threshold: 3, Validators: 2, Network: "hoodi", Amounts: []int{1, 31}},
		{Nodes: 5, Threshold: 3, Validators: 1, Network: "gnosis", Amounts: []int{8, 8, 8, 8}, MultiAddr: true},
		{Nodes: 6, Threshold: 0, Validators: 2, Network: "sepolia", Amounts: []int{32}, MultiAddr: true},
		{Nodes: 7, Threshold: 5, Validators: 1, Network: "chiado", Amounts: []int{32, 2016}, Compounding: true},
		{Nodes: 10, Threshold: 0, Validators: 1, Network: "goerli"},
	}
	// custom test network given with --testnet-*: alone (--network defaults to mainnet), with an explicit
	// other --network, and with an empty --network
	tn := &Testnet{Name: "veriftestnet", ForkVersion: "0x12345678", ChainID: 424242, GenesisTimestamp: 1700000000}
	quick = append(quick,
		Shape{Nodes: 3, Threshold: 2, Validators: 1, Testnet: tn, OmitNetwork: true, Network: "mainnet"},
		Shape{Nodes: 4, Threshold: 3, Validators: 2, Testnet: tn, Network: "sepolia", Amounts: []int{16, 16}, MultiAddr: true},
		Shape{Nodes: 3, Threshold: 0, Validators: 1, Testnet: tn, Network: "", Amounts: []int{32}},
	)
	// key shares sent to one keymanager per node instead of to disk (more than 10 validators as well)
	quick = append(quick,
		Shape{Keymanager: true, Nodes: 3, Threshold: 2, Validators: 12, Network: "hoodi", Amounts: []int{32}},
		Shape{Keymanager: true, Nodes: 4, Threshold: 3, Validators: 2, Network: "sepolia", MultiAddr: true},
	)
	// create cluster FROM A DEFINITION FILE (insecure keys are refused on mainnet/gnosis): deposit amount
	// lists in every order and with repeats, per-validator addresses, old versions, signed definitions
	quick = append(quick,
		Shape{DefFile: true, DefVersion: "v1.11.0", Nodes: 4, Threshold: 3, Validators: 2, Network: "hoodi", Amounts: []int{32, 1}, MultiAddr: true},
		Shape{DefFile: true, DefVersion: "v1.10.0", Nodes: 3, Threshold: 2, Validators: 1, Network: "sepolia", Amounts: []int{16, 8, 8}},
		Shape{DefFile: true, DefVersion: "v1.8.0", Nodes: 5, Threshold: 0, Validators: 2, Network: "chiado", Amounts: []int{8, 16, 8}, MultiAddr: true},
		Shape{DefFile: true, DefVersion: "v1.9.0", Nodes: 3, Threshold: 3, Validators: 1, Network: "goerli", Amounts: []int{1, 32}},
		Shape{DefFile: true, DefVersion: "v1.11.0", Nodes: 4, Threshold: 0, Validators: 1, Network: "hoodi", Amounts: []int{2016, 32, 32}, Compounding: true},
		Shape{DefFile: true, DefVersion: "v1.7.0", Nodes: 3, Threshold: 2, Validators: 2, Network: "goerli", MultiAddr: true},
		Shape{DefFile: true, DefVersion: "v1.4.0", Nodes: 4, Threshold: 3, Validators: 2, Network: "sepolia"},
		// a definition signed by operators and creator (the command accepts it)
		Shape{DefFile: true, Signed: true, DefVersion: "v1.11.0", Nodes: 4, Threshold: 3, Validators: 2, Network: "hoodi", Amounts: []int{8, 24}, MultiAddr: true},
	)
	// a definition file of EVERY supported version with the default deposits (1 ETH and 32 ETH: several
	// partial deposits also for the formats that store one or none)
	for i, v := range Versions {
		quick = append(quick, Shape{DefFile: true, DefVersion: v, Nodes: 3, Threshold: 2, Validators: 1 + i%2, Network: []string{"hoodi", "sepolia", "goerli", "chiado"}[i%4], MultiAddr: i%2 == 1 && i >= 5})
	}
	if !thorough {
		return quick
	}
	out := append([]Shape{}, quick...)
	for i, nv := range []int{1, 10, 11, 21, 13} {
		out = append(out, Shape{Keymanager: true, Nodes: 3 + i%3, Threshold: 0, Validators: nv, Network: []string{"hoodi", "chiado", "goerli"}[i%3], Amounts: []int{32}, MultiAddr: i%2 == 1})
	}
	tn2 := &Testnet{Name: "verifnet2", ForkVersion: "0x00abcdef", ChainID: 777, GenesisTimestamp: 1650000000}
	out = append(out,
		Shape{Nodes: 5, Threshold: 4, Validators: 2, Testnet: tn2, OmitNetwork: true, Network: "mainnet", Amounts: []int{8, 24}, MultiAddr: true},
		Shape{Nodes: 6, Threshold: 0, Validators: 1, Testnet: tn2, Network: "gnosis", Amounts: []int{32, 2016}, Compounding: true},
		Shape{Nodes: 3, Threshold: 3, Validators: 3, Testnet: tn, Network: "hoodi"},
		Shape{Nodes: 4, Threshold: 2, Validators: 1, Testnet: tn2, Network: "", MultiAddr: true},
		// (a definition file of a custom test network is refused by the command even with the --testnet-*
		// flags: loadDefinition verifies the definition before validateCreateConfig registers the network)
	)
	defAmounts := [][]int{nil, {32}, {1, 31}, {31, 1}, {32, 1}, {16, 16}, {16, 8, 8}, {8, 16, 8}, {8, 8, 16}, {8, 8, 8, 8}, {30, 1, 1}, {1, 30, 1}, {32, 32}, {4, 3, 2, 1, 22}}
	defNets := []string{"hoodi", "sepolia", "goerli", "chiado"}
	for i, am := range defAmounts {
		n := 3 + i%5
		out = append(out, Shape{DefFile: true, DefVersion: []string{"v1.11.0", "v1.10.0", "v1.9.0", "v1.8.0"}[i%4], Nodes: n, Threshold: []int{0, 2, n}[i%3],
			Validators: 1 + i%3, Network: defNets[i%4], Amounts: am, MultiAddr: i%2 == 0})
	}
	for i, v := range Versions {
		out = append(out, Shape{DefFile: true, DefVersion: v, Nodes: 3 + i%4, Threshold: 0, Validators: 1 + i%2, Network: defNets[i%4], Amounts: []int{24, 8}, MultiAddr: i%2 == 1 && i >= 5})
	}
	out = append(out, Shape{DefFile: true, DefVersion: "v1.11.0", Nodes: 4, Threshold: 3, Validators: 2, Network: "hoodi", Amounts: []int{500, 32, 100}, Compounding: true, MultiAddr: true})
	for _, v := range []string{"v1.2.0", "v1.3.0", "v1.5.0", "v1.8.0", "v1.10.0"} {
		out = append(out, Shape{DefFile: true, Signed: true, DefVersion: v, Nodes: 3, Threshold: 2, Validators: 1, Network: "sepolia", Amounts: []int{32}})
	}
	nets := []string{"mainnet", "goerli", "sepolia", "hoodi", "gnosis", "chiado"}
	amountSets := [][]int{nil, {32}, {1, 31}, {16, 16}, {8, 8, 8, 8}, {1, 1, 30}, {32, 32}}
	mk := func(n, th int) Shape {
		sh := Shape{Nodes: n, Threshold: th, Validators: 1 + rnd(3), Network: nets[rnd(len(nets))], Amounts: amountSets[rnd(len(amountSets))], MultiAddr: rnd(2) == 0}
		if rnd(5) == 0 {
			sh.Compounding = true
			sh.Amounts = [][]int{nil, {32, 100}, {2048}, {1, 31, 500}}[rnd(4)]
		}
		return sh
	}
	for n := 3; n <= 10; n++ {
		ths := []int{0}
		if n <= 6 {
			for th := 2; th <= n; th++ { // every threshold the command accepts
				ths = append(ths, th)
			}
		} else {
			ths = append(ths, 2, n, n-1, 2+rnd(n-2))
		}
		for _, th := range ths {
			out = append(out, mk(n, th))
		}
	}
	for len(out) < 60 {
		n := 3 + rnd(8)
		out = append(out, mk(n, []int{0, 2 + rnd(n-1)}[rnd(2)]))
	}
	return out
}

// creatorShapes turns the creator-signed definitions written by the cluster overlay helper into shapes.
func creatorShapes(t *testing.T, thorough bool) []Shape {
	t.Helper()
	fn := os.Getenv("VERIF_C12_CREATOR_DEFS")
	if fn == "" {
		return nil
	}
	b, err := os.ReadFile(fn)
	if err != nil {
		t.Fatalf("creator-signed definitions: %v", err)
	}
	var raws []json.RawMessage
	if err := json.Unmarshal(b, &raws); err != nil {
		t.Fatal(err)
	}
	var out []Shape
	for i, raw := range raws {
		if !thorough && i >= 2 {
			break
		}
		var d cluster.Definition
		if err := json.Unmarshal(raw, &d); err != nil {
			t.Fatalf("creator-signed definition %d: %v", i, err)
		}
		net, err := eth2util.ForkVersionToNetwork(d.ForkVersion)
		if err != nil {
			t.Fatal(err)
		}
		var am []int
		for _, g := range d.DepositAmounts {
			am = append(am, int(g/deposit.OneEthInGwei))
		}
		out = append(out, Shape{DefFile: true, CreatorSigned: true, DefVersion: d.Version, Nodes: len(d.Operators), Threshold: d.Threshold,
			Validators: d.NumValidators, Network: net, Amounts: am, Compounding: d.Compounding, MultiAddr: true, Definition: raw})
	}
	return out
}

// TestBlackbox creates clusters with the built binary and checks the artefacts against each other.
func TestBlackbox(t *testing.T) {
	bin := os.Getenv("VERIF_CHARON_BIN")
	if bin == "" {
		t.Fatal("VERIF_CHARON_BIN not set")
	}
	r := hx.Rand()
	rnd := func(n int) int { return r.Intn(n) }
	var shs []Shape
	var rp struct {
		Shape *Shape `json:"shape"`
	}
	if isReplay, err := hx.ReadReplay(&rp); isReplay && err == nil && rp.Shape != nil {
		shs = []Shape{*rp.Shape}
	} else {
		shs = append(shapes(hx.Thorough(), rnd), creatorShapes(t, hx.Thorough())...)
	}
	var results []ShapeResult
	for _, s := range shs {
		if overBudget("the black-box campaign") {
			break
		}
		exhaustive := hx.Thorough() && s.Nodes <= 6
		results = append(results, checkShape(t, bin, s, exhaustive, rnd))
	}
	if err := hx.WriteJSON("c12_blackbox.json", results); err != nil {
		t.Fatal(err)
	}
	nf := 0
	for _, r := range results {
		nf += len(r.Failures)
	}
	fmt.Printf("c12 blackbox: shapes=%d failures=%d\n", len(results), nf)
}

// TestReplay re-applies one recorded mutation and prints how the real code judges it.
func TestReplay(t *testing.T) {
	var rp struct {
		Source   *Source   `json:"source"`
		Mutation *Mutation `json:"mutation"`
	}
	isReplay, err := hx.ReadReplay(&rp)
	if !isReplay || err != nil || rp.Source == nil || rp.Mutation == nil {
		t.Skip("no mutation replay")
	}
	src := *rp.Source
	var doc []byte
	isLock, withSigs := true, true
	switch src.Kind {
	case "golden-lock", "golden-def":
		doc, err = os.ReadFile(filepath.Join(repoDir(), "cluster", "testdata", src.File))
		if err != nil {
			t.Fatal(err)
		}
		isLock, withSigs = src.Kind == "golden-lock", false
	case "fresh-lock", "fresh-def":
		lock, _, _ := freshLock(t, *src.Spec)
		if src.Kind == "fresh-lock" {
			doc, _ = json.MarshalIndent(lock, "", " ")
		} else {
			doc, _ = json.MarshalIndent(lock.Definition, "", " ")
			isLock = false
		}
	case "template-address-shift":
		orig, mut := addressShift(t, src.Version, 7)
		c0, _ := verifyLockJSON(orig, true)
		c1, d1 := verifyLockJSON(mut, true)
		_ = hx.WriteJSON("c12_replay.json", map[string]any{"source": src, "mutation": rp.Mutation, "original_verifies": c0, "mutated_verifies": c1, "detail": d1})
		fmt.Printf("c12 replay: address-shift %s: original=%s mutated=%s %s\n", src.Version, c0, c1, d1)
		return
	case "template-zero-address":
		orig, mut := zeroAddressEmptied(t, *src.Spec)
		c0, _ := verifyLockJSON(orig, true)
		c1, d1 := verifyLockJSON(mut, true)
		_ = hx.WriteJSON("c12_replay.json", map[string]any{"source": src, "mutation": rp.Mutation, "original_verifies": c0, "mutated_verifies": c1, "detail": d1})
		return
	case "cli-lock":
		dir := t.TempDir()
		if out, err := createCluster(os.Getenv("VERIF_CHARON_BIN"), dir, *src.Shape); err != nil {
			t.Fatalf("create cluster: %v\n%s", err, out)
		}
		doc, _ = os.ReadFile(filepath.Join(dir, "node0", "cluster-lock.json"))
	default:
		t.Fatalf("unknown source kind %q", src.Kind)
	}
	mut, found := applyMutation(doc, vnum(src.Version) <= vnum("v1.1.0"), *rp.Mutation)
	if !found {
		t.Fatalf("mutation %+v does not apply", *rp.Mutation)
	}
	verify := verifyDefJSON
	if isLock {
		verify = verifyLockJSON
	}
	c0, _ := verify(doc, withSigs)
	c1, d1 := verify(mut, withSigs)
	out := map[string]any{"source": src, "mutation": rp.Mutation, "original_verifies": c0, "mutated_verifies": c1, "detail": d1, "panic_probe": panicProbe(mut, isLock),
		"orig_value": leafString(doc, rp.Mutation.Path), "new_value": leafString(mut, rp.Mutation.Path)}
	_ = hx.WriteJSON("c12_replay.json", out)
	fmt.Printf("c12 replay: %s %s %s %s: original=%s mutated=%s %s\n", src.Kind, src.Version, rp.Mutation.Path, rp.Mutation.Alt, c0, c1, d1)
}
