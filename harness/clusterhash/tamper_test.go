package clusterhash

import (
	"bytes"
	"context"
	"encoding/hex"
	"encoding/json"
	"fmt"
	"os"
	"path/filepath"
	"sort"
	"strings"
	"testing"
	"time"

	"github.com/obolnetwork/charon/cluster"
	"github.com/obolnetwork/charon/cmd/combine"
	"github.com/obolnetwork/charon/eth2util"
	"github.com/obolnetwork/charon/eth2util/keystore"
	"github.com/obolnetwork/charon/tbls"

	"verif/harness/hx"
)

// Combine against directory sets in which ONE node directory holds an altered copy of the lock (the
// stored lock_hash value is kept), or a node directory of a different cluster: with verification on
// combine must refuse; with --no-verify it may proceed (recorded).

// TamperCase is one directory set handed to combine.
type TamperCase struct {
	Alteration string `json:"alteration"`
	Position   int    `json:"position"`                  // index of the node directory that holds the altered / foreign lock
	AloneClass string `json:"altered_lock_alone"`        // how the altered lock is judged on its own (must not be "ok")
	Verify     string `json:"combine_with_verification"` // refused | ACCEPTED | stalled
	NoVerify   string `json:"combine_no_verify"`         // refused | accepted | stalled
	Detail     string `json:"detail,omitempty"`
}

// TamperResult is the outcome for one cluster shape.
type TamperResult struct {
	Shape    Shape        `json:"shape"`
	Cases    []TamperCase `json:"cases"`
	Folders  []FolderCase `json:"folder_sets"`
	Failures []string     `json:"failures"`
}

// FolderCase is one input directory for combine built from (possibly duplicated, arbitrarily named)
// copies of the node folders of a valid cluster.
type FolderCase struct {
	Folders  []string `json:"folders"` // "<folder name>=node<i>", in the directory (name) order combine reads them
	Distinct int      `json:"distinct_shares"`
	Expect   string   `json:"expected"` // recovers | fails  (recovers iff at least threshold DISTINCT shares are present)
	Got      string   `json:"got"`
}

type folder struct {
	name string
	node int
}

// folderSets lists directory layouts with duplicated node folders, more than t folders, exactly t distinct
// shares plus duplicates, fewer than t distinct shares hidden behind duplicates, and names whose sorted
// order is not the node order.
func folderSets(n, th int) [][]folder {
	nm := func(i int) string { return fmt.Sprintf("node%d", i) }
	var sets [][]folder
	add := func(fs ...folder) { sets = append(sets, fs) }
	distinct := func(from, k int) []folder { // k distinct nodes starting at `from`
		var fs []folder
		for i := 0; i < k; i++ {
			fs = append(fs, folder{nm((from + i) % n), (from + i) % n})
		}
		return fs
	}
	// exactly t distinct, one of them twice; the duplicate sorts right after its original (first, middle, last)
	for _, dupAt := range []int{0, th / 2, th - 1} {
		fs := distinct(0, th)
		fs = append(fs, folder{nm(fs[dupAt].node) + "-backup", fs[dupAt].node})
		add(fs...)
	}
	// the duplicate sorts before everything / after everything
	fs := distinct(n-th, th)
	add(append([]folder{{"0-copy-of-" + nm(fs[0].node), fs[0].node}}, fs...)...)
	add(append(distinct(0, th), folder{"zz-copy", th - 1})...)
	// a share three times among exactly t distinct ones
	fs = distinct(0, th)
	add(append(fs, folder{nm(0) + "-a", 0}, folder{nm(0) + "-b", 0})...)
	// all n folders plus duplicates of two of them
	add(append(distinct(0, n), folder{nm(1) + "-backup", 1}, folder{"aa-" + nm(n-1), n - 1})...)
	// names whose sorted order is the reverse of the node order, with a duplicate
	var rev []folder
	for i := 0; i < th; i++ {
		rev = append(rev, folder{fmt.Sprintf("%c-dir", 'z'-i), i})
	}
	add(append(rev, folder{"m-dir", 0})...)
	// FEWER than t distinct shares although at least t folders: must fail
	if th >= 2 {
		fs = distinct(0, th-1)
		add(append(fs, folder{nm(0) + "-backup", 0})...)
		add(append(fs, folder{nm(0) + "-backup", 0}, folder{nm(th-2) + "-backup", th - 2}, folder{"zz", 0})...)
	}
	return sets
}

func runFolderSets(t *testing.T, dirA string, s Shape, lockA []byte, res *TamperResult) {
	t.Helper()
	failf := func(format string, a ...any) { res.Failures = append(res.Failures, fmt.Sprintf(format, a...)) }
	var lock cluster.Lock
	if err := json.Unmarshal(lockA, &lock); err != nil {
		failf("lock does not decode: %v", err)
		return
	}
	for _, set := range folderSets(s.Nodes, lock.Threshold) {
		if overBudget("the combine folder campaign") {
			return
		}
		in := t.TempDir()
		seen := map[int]bool{}
		fc := FolderCase{}
		sorted := append([]folder(nil), set...)
		sort.Slice(sorted, func(i, j int) bool { return sorted[i].name < sorted[j].name })
		for _, f := range sorted {
			if err := copyNode(filepath.Join(dirA, fmt.Sprintf("node%d", f.node)), filepath.Join(in, f.name)); err != nil {
				t.Fatal(err)
			}
			seen[f.node] = true
			fc.Folders = append(fc.Folders, fmt.Sprintf("%s=node%d", f.name, f.node))
		}
		fc.Distinct = len(seen)
		fc.Expect = "fails"
		if fc.Distinct >= lock.Threshold {
			fc.Expect = "recovers"
		}
		outDir := filepath.Join(t.TempDir(), "out")
		var err error
		fin, p := withTimeout(90*time.Second, fmt.Sprintf("combine of folders %v", fc.Folders), func() {
			err = combine.Combine(context.Background(), in, outDir, true, false, "", eth2util.Network{}, combine.WithInsecureKeysForT(t))
		})
		switch {
		case !fin:
			fc.Got = "stalled"
		case p != nil:
			fc.Got = fmt.Sprintf("panicked: %v", p)
		case err != nil:
			fc.Got = "fails: " + shortErr(err)
		default:
			fc.Got = "recovers"
			kf, e := keystore.LoadFilesUnordered(outDir)
			var keys []tbls.PrivateKey
			if e == nil {
				keys, e = kf.SequencedKeys()
			}
			if e != nil || len(keys) != len(lock.Validators) {
				fc.Got = fmt.Sprintf("succeeded but wrote %d keys (%v)", len(keys), e)
			} else {
				for j, sec := range keys {
					pk, e := tbls.SecretToPublicKey(sec)
					if e != nil || !bytes.Equal(pk[:], lock.Validators[j].PubKey) {
						fc.Got = fmt.Sprintf("succeeded but key %d is not the secret of the lock's validator key", j)
					}
				}
			}
		}
		res.Folders = append(res.Folders, fc)
		if !strings.HasPrefix(fc.Got, fc.Expect) {
			failf("combine of folders [%s] (%d distinct shares, threshold %d) should %s but %s", strings.Join(fc.Folders, " "), fc.Distinct, lock.Threshold, map[string]string{"recovers": "recover the validator keys", "fails": "fail"}[fc.Expect], fc.Got)
		}
	}
}

func flipHexAt(s string, i int) string {
	raw, err := hex.DecodeString(s[2:])
	if err != nil || len(raw) == 0 {
		return s + "00"
	}
	raw[i%len(raw)] ^= 1
	return "0x" + hex.EncodeToString(raw)
}

// lockAlterations are raw edits of a lock file that keep its stored lock_hash.
func lockAlterations(n int) []struct {
	name string
	edit func(root map[string]any) bool
} {
	def := func(r map[string]any) map[string]any { return r["cluster_definition"].(map[string]any) }
	vals := func(r map[string]any) []any { return r["distributed_validators"].([]any) }
	return []struct {
		name string
		edit func(root map[string]any) bool
	}{
		{"hashed:name", func(r map[string]any) bool { def(r)["name"] = fmt.Sprint(def(r)["name"]) + "x"; return true }},
		{"hashed:threshold-lowered", func(r map[string]any) bool {
			t, err := def(r)["threshold"].(json.Number).Int64()
			if err != nil || t < 2 {
				return false
			}
			def(r)["threshold"] = json.Number(fmt.Sprint(t - 1))
			return true
		}},
		{"hashed:fee-recipient", func(r map[string]any) bool {
			v := def(r)["validators"].([]any)[0].(map[string]any)
			v["fee_recipient_address"] = flipHexAt(v["fee_recipient_address"].(string), 19)
			return true
		}},
		{"hashed:public-shares-swapped", func(r map[string]any) bool {
			sh := vals(r)[0].(map[string]any)["public_shares"].([]any)
			sh[0], sh[1] = sh[1], sh[0]
			return true
		}},
		{"hashed:validator-public-key", func(r map[string]any) bool {
			vs := vals(r)
			if len(vs) < 2 {
				return false
			}
			a, b := vs[0].(map[string]any), vs[1].(map[string]any)
			a["distributed_public_key"], b["distributed_public_key"] = b["distributed_public_key"], a["distributed_public_key"]
			return true
		}},
		{"hashed:registration-signature", func(r map[string]any) bool {
			reg := vals(r)[0].(map[string]any)["builder_registration"].(map[string]any)
			reg["signature"] = flipHexAt(reg["signature"].(string), 50)
			return true
		}},
		{"signed:signature-aggregate", func(r map[string]any) bool {
			r["signature_aggregate"] = flipHexAt(r["signature_aggregate"].(string), 40)
			return true
		}},
		{"signed:node-signature", func(r map[string]any) bool {
			ns := r["node_signatures"].([]any)
			ns[n-1] = flipHexAt(ns[n-1].(string), 10)
			return true
		}},
		{"signed:node-signatures-swapped", func(r map[string]any) bool {
			ns := r["node_signatures"].([]any)
			ns[0], ns[1] = ns[1], ns[0]
			return true
		}},
		{"structural:validators-reordered", func(r map[string]any) bool {
			vs := vals(r)
			if len(vs) < 2 {
				return false
			}
			vs[0], vs[1] = vs[1], vs[0]
			return true
		}},
	}
}

func runCombine(t *testing.T, in string, noverify bool) string {
	t.Helper()
	out := filepath.Join(t.TempDir(), "out")
	var err error
	fin, p := withTimeout(90*time.Second, "combine of a tampered directory set", func() {
		err = combine.Combine(context.Background(), in, out, true, noverify, "", eth2util.Network{}, combine.WithInsecureKeysForT(t))
	})
	switch {
	case !fin:
		return "stalled"
	case p != nil:
		return "refused" // a panic is not an acceptance; recorded by the caller through the detail
	case err != nil:
		return "refused"
	}
	return "accepted"
}

func tamperShape(t *testing.T, bin string, s Shape) TamperResult {
	t.Helper()
	res := TamperResult{Shape: s}
	failf := func(format string, a ...any) { res.Failures = append(res.Failures, fmt.Sprintf(format, a...)) }
	dirA, dirB := t.TempDir(), t.TempDir()
	for _, d := range []string{dirA, dirB} {
		if out, err := createCluster(bin, d, s); err != nil {
			failf("create cluster failed: %v: %s", err, lastLines(out, 2))
			return res
		}
	}
	lockA, err := os.ReadFile(filepath.Join(dirA, "node0", "cluster-lock.json"))
	if err != nil {
		failf("%v", err)
		return res
	}
	positions := []int{0, s.Nodes / 2, s.Nodes - 1}
	// the full, untampered set must combine
	stage := func(pos int, altered []byte, foreign bool) string {
		in := t.TempDir()
		for i := 0; i < s.Nodes; i++ {
			src := filepath.Join(dirA, fmt.Sprintf("node%d", i))
			if foreign && i == pos {
				src = filepath.Join(dirB, fmt.Sprintf("node%d", i))
			}
			if err := copyNode(src, filepath.Join(in, fmt.Sprintf("node%d", i))); err != nil {
				t.Fatal(err)
			}
		}
		if altered != nil {
			if err := os.WriteFile(filepath.Join(in, fmt.Sprintf("node%d", pos), "cluster-lock.json"), altered, 0o600); err != nil {
				t.Fatal(err)
			}
		}
		return in
	}
	if v := runCombine(t, stage(0, nil, false), false); v != "accepted" {
		failf("combine of the untampered directory set was %s", v)
		return res
	}
	for _, alt := range lockAlterations(s.Nodes) {
		tree, err := decodeTree(lockA)
		if err != nil {
			t.Fatal(err)
		}
		if !alt.edit(tree.(map[string]any)) {
			continue
		}
		altered, _ := json.MarshalIndent(tree, "", " ")
		alone, detail := verifyLockJSON(altered, true)
		if alone == "ok" {
			failf("alteration %s of the lock verifies on its own (not an alteration combine could be blamed for)", alt.name)
			continue
		}
		for _, pos := range positions {
			if overBudget("the combine tamper campaign") {
				return res
			}
			c := TamperCase{Alteration: alt.name, Position: pos, AloneClass: alone, Detail: detail}
			c.Verify = runCombine(t, stage(pos, altered, false), false)
			c.NoVerify = runCombine(t, stage(pos, altered, false), true)
			if c.Verify == "accepted" {
				c.Verify = "ACCEPTED"
				failf("combine (verification on) accepted a directory set whose node%d holds a lock altered by %s (that lock alone fails: %s %s)", pos, alt.name, alone, detail)
			}
			res.Cases = append(res.Cases, c)
		}
	}
	// duplicated / renamed / surplus node folders
	runFolderSets(t, dirA, s, lockA, &res)
	// the dual: one node directory (lock and key shares) of a different cluster of the same shape
	for _, pos := range positions {
		c := TamperCase{Alteration: "foreign:node-directory-of-another-cluster", Position: pos, AloneClass: "ok (valid lock of another cluster)"}
		c.Verify = runCombine(t, stage(pos, nil, true), false)
		c.NoVerify = runCombine(t, stage(pos, nil, true), true)
		if c.Verify == "accepted" {
			c.Verify = "ACCEPTED"
			failf("combine (verification on) accepted a directory set whose node%d belongs to a different cluster", pos)
		}
		res.Cases = append(res.Cases, c)
	}
	return res
}

// TestCombineTamper runs the tampered-copy campaign against cmd/combine.Combine.
func TestCombineTamper(t *testing.T) {
	bin := os.Getenv("VERIF_CHARON_BIN")
	if bin == "" {
		t.Fatal("VERIF_CHARON_BIN not set")
	}
	shs := []Shape{{Nodes: 4, Threshold: 3, Validators: 2, Network: "hoodi", Amounts: []int{1, 31}, MultiAddr: true}}
	if hx.Thorough() {
		shs = append(shs, Shape{Nodes: 3, Threshold: 2, Validators: 2, Network: "sepolia"},
			Shape{Nodes: 7, Threshold: 5, Validators: 3, Network: "chiado", Amounts: []int{32}, MultiAddr: true})
	}
	var rp struct {
		Shape         *Shape `json:"shape"`
		CombineTamper bool   `json:"combine_tamper"`
	}
	if isReplay, err := hx.ReadReplay(&rp); isReplay && err == nil && rp.Shape != nil && rp.CombineTamper {
		shs = []Shape{*rp.Shape}
	}
	var out []TamperResult
	for _, s := range shs {
		out = append(out, tamperShape(t, bin, s))
	}
	if err := hx.WriteJSON("c12_combine_tamper.json", out); err != nil {
		t.Fatal(err)
	}
}
