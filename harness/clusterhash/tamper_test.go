package clusterhash

import (
	"context"
	"encoding/hex"
	"encoding/json"
	"fmt"
	"os"
	"path/filepath"
	"testing"
	"time"

	"github.com/obolnetwork/charon/cmd/combine"
	"github.com/obolnetwork/charon/eth2util"

	"verif/harness/hx"
)

// Combine against directory sets in which ONE node directory holds an altered copy of the lock (the
// stored lock_hash value is kept), or a node directory of a different cluster: with verification on
// combine must refuse; with --no-verify it may proceed (recorded).

// TamperCase is one directory set handed to combine.
type TamperCase struct {
	Alteration string `json:"alteration"`
	Position   int    `json:"position"`                  // index of the node directory that holds the altered / foreign lock
	AloneClass string `json:"altered_lock_alone"`        // how the altered lock is judged on its own (must not be "ok")
	Verify     string `json:"combine_with_verification"` // refused | ACCEPTED | stalled
	NoVerify   string `json:"combine_no_verify"`         // refused | accepted | stalled
	Detail     string `json:"detail,omitempty"`
}

// TamperResult is the outcome for one cluster shape.
type TamperResult struct {
	Shape    Shape        `json:"shape"`
	Cases    []TamperCase `json:"cases"`
	Failures []string     `json:"failures"`
}

func flipHexAt(s string, i int) string {
	raw, err := hex.DecodeString(s[2:])
	if err != nil || len(raw) == 0 {
		return s + "00"
	}
	raw[i%len(raw)] ^= 1
	return "0x" + hex.EncodeToString(raw)
}

// lockAlterations are raw edits of a lock file that keep its stored lock_hash.
func lockAlterations(n int) []struct {
	name string
	edit func(root map[string]any) bool
} {
	def := func(r map[string]any) map[string]any { return r["cluster_definition"].(map[string]any) }
	vals := func(r map[string]any) []any { return r["distributed_validators"].([]any) }
	return []struct {
		name string
		edit func(root map[string]any) bool
	}{
		{"hashed:name", func(r map[string]any) bool { def(r)["name"] = fmt.Sprint(def(r)["name"]) + "x"; return true }},
		{"hashed:threshold-lowered", func(r map[string]any) bool {
			t, err := def(r)["threshold"].(json.Number).Int64()
			if err != nil || t < 2 {
				return false
			}
			def(r)["threshold"] = json.Number(fmt.Sprint(t - 1))
			return true
		}},
		{"hashed:fee-recipient", func(r map[string]any) bool {
			v := def(r)["validators"].([]any)[0].(map[string]any)
			v["fee_recipient_address"] = flipHexAt(v["fee_recipient_address"].(string), 19)
			return true
		}},
		{"hashed:public-shares-swapped", func(r map[string]any) bool {
			sh := vals(r)[0].(map[string]any)["public_shares"].([]any)
			sh[0], sh[1] = sh[1], sh[0]
			return true
		}},
		{"hashed:validator-public-key", func(r map[string]any) bool {
			vs := vals(r)
			if len(vs) < 2 {
				return false
			}
			a, b := vs[0].(map[string]any), vs[1].(map[string]any)
			a["distributed_public_key"], b["distributed_public_key"] = b["distributed_public_key"], a["distributed_public_key"]
			return true
		}},
		{"hashed:registration-signature", func(r map[string]any) bool {
			reg := vals(r)[0].(map[string]any)["builder_registration"].(map[string]any)
			reg["signature"] = flipHexAt(reg["signature"].(string), 50)
			return true
		}},
		{"signed:signature-aggregate", func(r map[string]any) bool {
			r["signature_aggregate"] = flipHexAt(r["signature_aggregate"].(string), 40)
			return true
		}},
		{"signed:node-signature", func(r map[string]any) bool {
			ns := r["node_signatures"].([]any)
			ns[n-1] = flipHexAt(ns[n-1].(string), 10)
			return true
		}},
		{"signed:node-signatures-swapped", func(r map[string]any) bool {
			ns := r["node_signatures"].([]any)
			ns[0], ns[1] = ns[1], ns[0]
			return true
		}},
		{"structural:validators-reordered", func(r map[string]any) bool {
			vs := vals(r)
			if len(vs) < 2 {
				return false
			}
			vs[0], vs[1] = vs[1], vs[0]
			return true
		}},
	}
}

func runCombine(t *testing.T, in string, noverify bool) string {
	t.Helper()
	out := filepath.Join(t.TempDir(), "out")
	var err error
	fin, p := withTimeout(90*time.Second, "combine of a tampered directory set", func() {
		err = combine.Combine(context.Background(), in, out, true, noverify, "", eth2util.Network{}, combine.WithInsecureKeysForT(t))
	})
	switch {
	case !fin:
		return "stalled"
	case p != nil:
		return "refused" // a panic is not an acceptance; recorded by the caller through the detail
	case err != nil:
		return "refused"
	}
	return "accepted"
}

func tamperShape(t *testing.T, bin string, s Shape) TamperResult {
	t.Helper()
	res := TamperResult{Shape: s}
	failf := func(format string, a ...any) { res.Failures = append(res.Failures, fmt.Sprintf(format, a...)) }
	dirA, dirB := t.TempDir(), t.TempDir()
	for _, d := range []string{dirA, dirB} {
		if out, err := createCluster(bin, d, s); err != nil {
			failf("create cluster failed: %v: %s", err, lastLines(out, 2))
			return res
		}
	}
	lockA, err := os.ReadFile(filepath.Join(dirA, "node0", "cluster-lock.json"))
	if err != nil {
		failf("%v", err)
		return res
	}
	positions := []int{0, s.Nodes / 2, s.Nodes - 1}
	// the full, untampered set must combine
	stage := func(pos int, altered []byte, foreign bool) string {
		in := t.TempDir()
		for i := 0; i < s.Nodes; i++ {
			src := filepath.Join(dirA, fmt.Sprintf("node%d", i))
			if foreign && i == pos {
				src = filepath.Join(dirB, fmt.Sprintf("node%d", i))
			}
			if err := copyNode(src, filepath.Join(in, fmt.Sprintf("node%d", i))); err != nil {
				t.Fatal(err)
			}
		}
		if altered != nil {
			if err := os.WriteFile(filepath.Join(in, fmt.Sprintf("node%d", pos), "cluster-lock.json"), altered, 0o600); err != nil {
				t.Fatal(err)
			}
		}
		return in
	}
	if v := runCombine(t, stage(0, nil, false), false); v != "accepted" {
		failf("combine of the untampered directory set was %s", v)
		return res
	}
	for _, alt := range lockAlterations(s.Nodes) {
		tree, err := decodeTree(lockA)
		if err != nil {
			t.Fatal(err)
		}
		if !alt.edit(tree.(map[string]any)) {
			continue
		}
		altered, _ := json.MarshalIndent(tree, "", " ")
		alone, detail := verifyLockJSON(altered, true)
		if alone == "ok" {
			failf("alteration %s of the lock verifies on its own (not an alteration combine could be blamed for)", alt.name)
			continue
		}
		for _, pos := range positions {
			if overBudget("the combine tamper campaign") {
				return res
			}
			c := TamperCase{Alteration: alt.name, Position: pos, AloneClass: alone, Detail: detail}
			c.Verify = runCombine(t, stage(pos, altered, false), false)
			c.NoVerify = runCombine(t, stage(pos, altered, false), true)
			if c.Verify == "accepted" {
				c.Verify = "ACCEPTED"
				failf("combine (verification on) accepted a directory set whose node%d holds a lock altered by %s (that lock alone fails: %s %s)", pos, alt.name, alone, detail)
			}
			res.Cases = append(res.Cases, c)
		}
	}
	// the dual: one node directory (lock and key shares) of a different cluster of the same shape
	for _, pos := range positions {
		c := TamperCase{Alteration: "foreign:node-directory-of-another-cluster", Position: pos, AloneClass: "ok (valid lock of another cluster)"}
		c.Verify = runCombine(t, stage(pos, nil, true), false)
		c.NoVerify = runCombine(t, stage(pos, nil, true), true)
		if c.Verify == "accepted" {
			c.Verify = "ACCEPTED"
			failf("combine (verification on) accepted a directory set whose node%d belongs to a different cluster", pos)
		}
		res.Cases = append(res.Cases, c)
	}
	return res
}

// TestCombineTamper runs the tampered-copy campaign against cmd/combine.Combine.
func TestCombineTamper(t *testing.T) {
	bin := os.Getenv("VERIF_CHARON_BIN")
	if bin == "" {
		t.Fatal("VERIF_CHARON_BIN not set")
	}
	shs := []Shape{{Nodes: 4, Threshold: 3, Validators: 2, Network: "hoodi", Amounts: []int{1, 31}, MultiAddr: true}}
	if hx.Thorough() {
		shs = append(shs, Shape{Nodes: 3, Threshold: 2, Validators: 2, Network: "sepolia"},
			Shape{Nodes: 7, Threshold: 5, Validators: 3, Network: "chiado", Amounts: []int{32}, MultiAddr: true})
	}
	var rp struct {
		Shape         *Shape `json:"shape"`
		CombineTamper bool   `json:"combine_tamper"`
	}
	if isReplay, err := hx.ReadReplay(&rp); isReplay && err == nil && rp.Shape != nil && rp.CombineTamper {
		shs = []Shape{*rp.Shape}
	}
	var out []TamperResult
	for _, s := range shs {
		out = append(out, tamperShape(t, bin, s))
	}
	if err := hx.WriteJSON("c12_combine_tamper.json", out); err != nil {
		t.Fatal(err)
	}
}
