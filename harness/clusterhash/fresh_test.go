// Package clusterhash is the Go side of the C12 check: it produces definitions/locks of every
// format version (fresh, fully signed ones and the repository's golden files), the field
// environments + Go-computed hashes for the Coq translation validation, the field-mutation
// campaign, and the black-box create-cluster / combine runs.
package clusterhash

import (
	"encoding/json"
	"fmt"
	"math/rand"
	"runtime/debug"
	"strings"
	"testing"
	"time"

	eth2p0 "github.com/attestantio/go-eth2-client/spec/phase0"
	k1 "github.com/decred/dcrd/dcrec/secp256k1/v4"

	"github.com/obolnetwork/charon/app/k1util"
	"github.com/obolnetwork/charon/cluster"
	"github.com/obolnetwork/charon/eth2util"
	"github.com/obolnetwork/charon/eth2util/deposit"
	"github.com/obolnetwork/charon/tbls"
)

// Versions are the supported format versions, oldest first.
var Versions = []string{"v1.0.0", "v1.1.0", "v1.2.0", "v1.3.0", "v1.4.0", "v1.5.0", "v1.6.0", "v1.7.0", "v1.8.0", "v1.9.0", "v1.10.0", "v1.11.0"}

func vnum(v string) int {
	for i, x := range Versions {
		if x == v {
			return i
		}
	}
	return -1
}

// FreshSpec describes a fresh lock to build.
type FreshSpec struct {
	Version string `json:"version"`
	DV      int    `json:"dv"`
	K       int    `json:"k"`
	N       int    `json:"n"`
	Seed    int    `json:"seed"`
	Network string `json:"network"`
	Amounts []int  `json:"amounts,omitempty"` // ETH, only v1.8+
	Name    string `json:"name,omitempty"`
	// ZeroWithdrawal sets every withdrawal address to the zero address (v1.5+).
	ZeroWithdrawal bool `json:"zero_withdrawal,omitempty"`
}

const zeroAddr = "0x0000000000000000000000000000000000000000"

// freshLock builds a fully valid, fully signed lock of the given version: cluster.NewForT (operator
// and creator EIP-712 signatures, builder registrations, aggregate and node signatures) extended
// with real deposit data for the versions that hash them, then re-hashed and re-signed.
func freshLock(t *testing.T, sp FreshSpec) (cluster.Lock, []*k1.PrivateKey, [][]tbls.PrivateKey) {
	t.Helper()
	r := rand.New(rand.NewSource(int64(sp.Seed)*7919 + 13)) //nolint:gosec
	vi := vnum(sp.Version)
	net, err := eth2util.NetworkToForkVersionBytes(sp.Network)
	if err != nil {
		t.Fatalf("network %s: %v", sp.Network, err)
	}
	opts := []func(*cluster.Definition){
		cluster.WithVersion(sp.Version),
		cluster.WithForkVersion(net),
		func(d *cluster.Definition) {
			d.Timestamp = time.Unix(1655733600+int64(sp.Seed), 0).UTC().Format(time.RFC3339)
			if sp.Name != "" {
				d.Name = sp.Name
			}
			if vi < vnum("v1.10.0") {
				d.TargetGasLimit = 0
			}
			if vi >= vnum("v1.8.0") && len(sp.Amounts) > 0 {
				d.DepositAmounts = deposit.EthsToGweis(sp.Amounts)
			}
			if vi >= vnum("v1.9.0") {
				d.ConsensusProtocol = "qbft"
			}
			if sp.ZeroWithdrawal {
				for i := range d.ValidatorAddresses {
					d.ValidatorAddresses[i].WithdrawalAddress = zeroAddr
				}
			}
		},
	}
	if vi < vnum("v1.5.0") {
		a := make([]byte, 40)
		r.Read(a)
		opts = append(opts, cluster.WithLegacyVAddrs(addrOf(a[:20]), addrOf(a[20:])))
	}
	lock, p2pKeys, shares := cluster.NewForT(t, sp.DV, sp.K, sp.N, safeSeed(sp.Seed, sp.N), r, opts...)

	// Deposit data (hashed from v1.6 on).
	if vi >= vnum("v1.6.0") {
		amounts := []eth2p0.Gwei{deposit.DefaultDepositAmount}
		if vi >= vnum("v1.8.0") && len(lock.DepositAmounts) > 0 {
			amounts = deposit.DedupAmounts(lock.DepositAmounts)
		}
		for i := range lock.Validators {
			m := map[int]tbls.PrivateKey{}
			for j := 0; j < sp.K; j++ {
				m[j+1] = shares[i][j]
			}
			root, err := tbls.RecoverSecret(m, uint(sp.N), uint(sp.K))
			if err != nil {
				t.Fatal(err)
			}
			var dds []cluster.DepositData
			for _, am := range amounts {
				msg, err := deposit.NewMessage(eth2p0.BLSPubKey(lock.Validators[i].PubKey), lock.ValidatorAddresses[i].WithdrawalAddress, am, lock.Compounding)
				if err != nil {
					t.Fatal(err)
				}
				sr, err := deposit.GetMessageSigningRoot(msg, sp.Network)
				if err != nil {
					t.Fatal(err)
				}
				sig, err := tbls.Sign(root, sr[:])
				if err != nil {
					t.Fatal(err)
				}
				dds = append(dds, cluster.DepositData{PubKey: msg.PublicKey[:], WithdrawalCredentials: msg.WithdrawalCredentials, Amount: int(msg.Amount), Signature: sig[:]})
			}
			lock.Validators[i].PartialDepositData = dds
		}
	}
	if vi < vnum("v1.7.0") {
		for i := range lock.Validators {
			lock.Validators[i].BuilderRegistration = cluster.BuilderRegistration{}
		}
	}
	return resign(t, lock, p2pKeys, shares), p2pKeys, shares
}

// resign recomputes the lock hash and all signatures over it.
func resign(t *testing.T, lock cluster.Lock, p2pKeys []*k1.PrivateKey, shares [][]tbls.PrivateKey) cluster.Lock {
	t.Helper()
	lock, err := lock.SetLockHash()
	if err != nil {
		t.Fatal(err)
	}
	var sigs []tbls.Signature
	for _, ss := range shares {
		for _, s := range ss {
			sig, err := tbls.Sign(s, lock.LockHash)
			if err != nil {
				t.Fatal(err)
			}
			sigs = append(sigs, sig)
		}
	}
	agg, err := tbls.Aggregate(sigs)
	if err != nil {
		t.Fatal(err)
	}
	lock.SignatureAggregate = agg[:]
	lock.NodeSignatures = nil
	if vnum(lock.Version) >= vnum("v1.7.0") {
		for _, k := range p2pKeys {
			ns, err := k1util.Sign(k, lock.LockHash)
			if err != nil {
				t.Fatal(err)
			}
			lock.NodeSignatures = append(lock.NodeSignatures, ns)
		}
	}
	return lock
}

func addrOf(b []byte) string {
	const hexd = "0123456789abcdef"
	out := []byte("0x")
	for _, x := range b {
		out = append(out, hexd[x>>4], hexd[x&15])
	}
	return string(out)
}

// verifyLockJSON decodes a lock file and runs the full verification; it returns a short class:
// "ok", "decode", "hashes", "signatures", or "panic:<where>".
func verifyLockJSON(b []byte, withSigs bool) (class string, detail string) {
	defer func() {
		if r := recover(); r != nil {
			class, detail = "panic", shortErr(r)
		}
	}()
	var l cluster.Lock
	if err := json.Unmarshal(b, &l); err != nil {
		return "decode", shortErr(err)
	}
	if err := l.VerifyHashes(); err != nil {
		return "hashes", shortErr(err)
	}
	if withSigs {
		if err := l.VerifySignatures(nil); err != nil {
			return "signatures", shortErr(err)
		}
	}
	return "ok", ""
}

// panicProbe runs the signature verification and the peer listing of a decoded file REGARDLESS of the
// hash verdict (as the --no-verify loaders do: cluster.LoadClusterLock calls VerifySignatures even when
// VerifyHashes failed) and returns the description of a panic, "" if none.
func panicProbe(b []byte, isLock bool) (desc string) {
	run := func(what string, f func()) {
		defer func() {
			if r := recover(); r != nil && desc == "" {
				site := ""
				for _, ln := range strings.Split(string(debug.Stack()), "\n") {
					if strings.Contains(ln, "/charon/") || strings.Contains(ln, "/repo/") || strings.Contains(ln, "/wt_") {
						if strings.Contains(ln, ".go:") {
							site = strings.TrimSpace(ln)
							break
						}
					}
				}
				desc = fmt.Sprintf("%s panicked: %v at %s", what, r, site)
			}
		}()
		f()
	}
	if isLock {
		var l cluster.Lock
		if json.Unmarshal(b, &l) != nil {
			return ""
		}
		run("Lock.VerifySignatures", func() { _ = l.VerifySignatures(nil) })
		run("Lock.VerifyHashes", func() { _ = l.VerifyHashes() })
		run("Definition.Peers", func() { _, _ = l.Peers() })
		return desc
	}
	var d cluster.Definition
	if json.Unmarshal(b, &d) != nil {
		return ""
	}
	run("Definition.VerifySignatures", func() { _ = d.VerifySignatures(nil) })
	run("Definition.VerifyHashes", func() { _ = d.VerifyHashes() })
	run("Definition.Peers", func() { _, _ = d.Peers() })
	return desc
}

// verifyDefJSON is verifyLockJSON for a definition file.
func verifyDefJSON(b []byte, withSigs bool) (class string, detail string) {
	defer func() {
		if r := recover(); r != nil {
			class, detail = "panic", shortErr(r)
		}
	}()
	var d cluster.Definition
	if err := json.Unmarshal(b, &d); err != nil {
		return "decode", shortErr(err)
	}
	if err := d.VerifyHashes(); err != nil {
		return "hashes", shortErr(err)
	}
	if withSigs {
		if err := d.VerifySignatures(nil); err != nil {
			return "signatures", shortErr(err)
		}
	}
	return "ok", ""
}

func shortErr(e any) string {
	s := ""
	switch x := e.(type) {
	case error:
		s = x.Error()
	default:
		b, _ := json.Marshal(x)
		s = string(b)
		if es, ok := e.(interface{ Error() string }); ok {
			s = es.Error()
		}
	}
	if len(s) > 120 {
		s = s[:120]
	}
	return s
}
