package clusterhash

import (
	"encoding/hex"
	"encoding/json"
	"fmt"
	"os"
	"runtime/debug"
	"sort"
	"strings"
	"testing"

	"github.com/obolnetwork/charon/cluster"
)

func TestProbeLen(t *testing.T) {
	seen := map[string]int{}
	okset := map[string]int{}
	try := func(v, what, path, alt string, f func() error) {
		defer func() {
			if r := recover(); r != nil {
				st := string(debug.Stack())
				site := ""
				for _, ln := range strings.Split(st, "\n") {
					if strings.Contains(ln, "/repo/") {
						site = strings.TrimSpace(ln)
						break
					}
				}
				seen[fmt.Sprintf("PANIC %s %s %s %s :: %v @ %s", v, what, pathPattern(path), alt, r, site)]++
			}
		}()
		if err := f(); err == nil {
			okset[fmt.Sprintf("%s %s %s %s", v, what, pathPattern(path), alt)]++
		}
	}
	for _, v := range Versions {
		for _, net := range []string{"mainnet", "sepolia"} {
			lock, _, _ := freshLock(t, FreshSpec{Version: v, DV: 2, K: 3, N: 4, Seed: 3, Network: net, Amounts: []int{8, 24}})
			b, _ := json.Marshal(lock)
			root, _ := decodeTree(b)
			var nodes []node
			walk(root, nil, &nodes)
			for _, n := range nodes {
				s, ok := n.val.(string)
				if !ok || !isHex0x(s) || len(s) <= 2 {
					continue
				}
				raw, _ := hex.DecodeString(s[2:])
				alts := map[string][]byte{"keep1": raw[:1], "keeplast1": raw[len(raw)-1:], "dropfirst": raw[1:], "droplast": raw[:len(raw)-1], "append": append(append([]byte{}, raw...), 0), "prepend": append([]byte{0}, raw...), "empty": {}, "half": raw[:len(raw)/2]}
				for an, ab := range alts {
					mt := setAt(root, n.path, "0x"+hex.EncodeToString(ab))
					mb, _ := json.Marshal(mt)
					var l cluster.Lock
					if json.Unmarshal(mb, &l) != nil {
						continue
					}
					p := pathString(n.path)
					try(v, "VerifyHashes", p, an, l.VerifyHashes)
					try(v, "VerifySignatures", p, an, func() error { return l.VerifySignatures(nil) })
					try(v, "Def.VerifySignatures", p, an, func() error { return l.Definition.VerifySignatures(nil) })
					try(v, "Peers", p, an, func() error { _, err := l.Peers(); return err })
				}
			}
		}
	}
	var keys []string
	for k, c := range seen {
		keys = append(keys, fmt.Sprintf("%s x%d", k, c))
	}
	sort.Strings(keys)
	var oks []string
	for k := range okset {
		if strings.Contains(k, "VerifyHashes") && !strings.Contains(k, "signature") {
			oks = append(oks, k)
		}
	}
	sort.Strings(oks)
	_ = os.WriteFile("/verif/.work/c12_probe_len.txt", []byte(strings.Join(keys, "\n")+"\n---- VerifyHashes passes:\n"+strings.Join(oks, "\n")+"\n"), 0o644)
}
