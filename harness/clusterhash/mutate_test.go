package clusterhash

import (
	"bytes"
	"encoding/base64"
	"encoding/hex"
	"encoding/json"
	"fmt"
	"sort"
	"strconv"
	"strings"
)

// A Mutation is one alteration of one node of a JSON document.
type Mutation struct {
	Path string `json:"path"` // e.g. cluster_definition.operators[1].enr
	Alt  string `json:"alt"`  // alteration name
}

type seg struct {
	key string
	idx int // -1 when key is used
}

func pathString(p []seg) string {
	var sb strings.Builder
	for i, s := range p {
		if s.idx >= 0 {
			fmt.Fprintf(&sb, "[%d]", s.idx)
		} else {
			if i > 0 {
				sb.WriteByte('.')
			}
			sb.WriteString(s.key)
		}
	}
	return sb.String()
}

// pathPattern replaces indices by [*] (used to group results).
func pathPattern(p string) string {
	var sb strings.Builder
	in := false
	for _, c := range p {
		switch {
		case c == '[':
			in = true
			sb.WriteString("[*")
		case c == ']':
			in = false
			sb.WriteByte(']')
		case in:
		default:
			sb.WriteRune(c)
		}
	}
	return sb.String()
}

func decodeTree(b []byte) (any, error) {
	dec := json.NewDecoder(bytes.NewReader(b))
	dec.UseNumber()
	var v any
	err := dec.Decode(&v)
	return v, err
}

func cloneTree(v any) any {
	switch x := v.(type) {
	case map[string]any:
		m := make(map[string]any, len(x))
		for k, e := range x {
			m[k] = cloneTree(e)
		}
		return m
	case []any:
		a := make([]any, len(x))
		for i, e := range x {
			a[i] = cloneTree(e)
		}
		return a
	}
	return v
}

type node struct {
	path []seg
	val  any
}

// walk lists every node (leaves and containers) in a deterministic order.
func walk(v any, p []seg, out *[]node) {
	*out = append(*out, node{path: append([]seg(nil), p...), val: v})
	switch x := v.(type) {
	case map[string]any:
		keys := make([]string, 0, len(x))
		for k := range x {
			keys = append(keys, k)
		}
		sort.Strings(keys)
		for _, k := range keys {
			walk(x[k], append(p, seg{key: k, idx: -1}), out)
		}
	case []any:
		for i, e := range x {
			walk(e, append(p, seg{idx: i}), out)
		}
	}
}

const deleteMarker = "\x00<delete>"

// setAt returns a copy of root with the node at p replaced (or deleted from its parent object).
func setAt(root any, p []seg, nv any) any {
	if len(p) == 0 {
		return nv
	}
	switch x := root.(type) {
	case map[string]any:
		m := make(map[string]any, len(x))
		for k, e := range x {
			m[k] = e
		}
		if len(p) == 1 {
			if s, ok := nv.(string); ok && s == deleteMarker {
				delete(m, p[0].key)
				return m
			}
		}
		m[p[0].key] = setAt(x[p[0].key], p[1:], nv)
		return m
	case []any:
		a := append([]any(nil), x...)
		a[p[0].idx] = setAt(x[p[0].idx], p[1:], nv)
		return a
	}
	return root
}

func isHex0x(s string) bool {
	if !strings.HasPrefix(s, "0x") || len(s)%2 != 0 {
		return false
	}
	_, err := hex.DecodeString(s[2:])
	return err == nil
}

var b64Keys = map[string]bool{"config_hash": true, "definition_hash": true, "lock_hash": true, "signature_aggregate": true,
	"public_shares": true, "config_signature": true, "enr_signature": true}

// leafKey returns the last object key on the path (array indices skipped).
func leafKey(p []seg) string {
	for i := len(p) - 1; i >= 0; i-- {
		if p[i].idx < 0 {
			return p[i].key
		}
	}
	return ""
}

type alt struct {
	name string
	val  any
}

func flipByte(b []byte, i int) []byte {
	c := append([]byte(nil), b...)
	c[i] ^= 1
	return c
}

// alterations returns the representative alterations of one node. b64 says whether []byte fields
// are base64 (v1.0/v1.1 files).
func alterations(n node, b64 bool) []alt {
	var out []alt
	add := func(name string, v any) { out = append(out, alt{name, v}) }
	if len(n.path) > 0 && n.path[len(n.path)-1].idx < 0 {
		add("delete", deleteMarker)
	}
	switch x := n.val.(type) {
	case string:
		key := leafKey(n.path)
		switch {
		case isHex0x(x) && len(x) > 2:
			raw, _ := hex.DecodeString(x[2:])
			enc := func(b []byte) string { return "0x" + hex.EncodeToString(b) }
			add("hex.flipfirst", enc(flipByte(raw, 0)))
			add("hex.fliplast", enc(flipByte(raw, len(raw)-1)))
			add("hex.flipmid", enc(flipByte(raw, len(raw)/2)))
			add("hex.append00", enc(append(append([]byte(nil), raw...), 0)))
			add("hex.prepend00", enc(append([]byte{0}, raw...)))
			add("hex.dropfirst", enc(raw[1:]))
			add("hex.droplast", enc(raw[:len(raw)-1]))
			add("hex.empty", "")
			add("hex.0x", "0x")
			if up := "0x" + strings.ToUpper(x[2:]); up != x {
				add("spell.upper", up)
			}
			add("spell.noprefix", x[2:])
		case b64 && b64Keys[key]:
			raw, err := base64.StdEncoding.DecodeString(x)
			if err == nil && len(raw) > 0 {
				enc := base64.StdEncoding.EncodeToString
				add("b64.flipfirst", enc(flipByte(raw, 0)))
				add("b64.fliplast", enc(flipByte(raw, len(raw)-1)))
				add("b64.append00", enc(append(append([]byte(nil), raw...), 0)))
				add("b64.prepend00", enc(append([]byte{0}, raw...)))
				add("b64.droplast", enc(raw[:len(raw)-1]))
				add("b64.empty", "")
			} else {
				add("b64.set01", base64.StdEncoding.EncodeToString([]byte{1}))
			}
		case x == "":
			add("str.setx", "x")
			add("str.set0x00", "0x00")
		default:
			if _, err := strconv.ParseUint(x, 10, 64); err == nil {
				u, _ := strconv.ParseUint(x, 10, 64)
				add("numstr.inc", strconv.FormatUint(u+1, 10))
				add("numstr.dec", strconv.FormatUint(u-1, 10))
				add("numstr.zero", "0")
				break
			}
			add("str.appendx", x+"x")
			add("str.appendNUL", x+"\x00")
			add("str.prependNUL", "\x00"+x)
			add("str.prependspace", " "+x)
			mid := len(x) / 2
			c := x[mid]
			r := byte('A')
			if c == 'A' {
				r = 'B'
			}
			add("str.changemid", x[:mid]+string(r)+x[mid+1:])
			if low := strings.ToLower(x); low != x {
				add("str.lower", low)
			} else if up := strings.ToUpper(x); up != x {
				add("str.upper", up)
			}
			add("str.droplast", x[:len(x)-1])
			add("str.empty", "")
		}
	case json.Number:
		if i, err := strconv.ParseInt(string(x), 10, 64); err == nil {
			add("num.inc", json.Number(strconv.FormatInt(i+1, 10)))
			add("num.dec", json.Number(strconv.FormatInt(i-1, 10)))
			if i != 0 {
				add("num.zero", json.Number("0"))
				add("num.neg", json.Number(strconv.FormatInt(-i, 10)))
			}
			// (no huge values: legacy decoders allocate num_validators entries before any check)
			add("num.plus1000", json.Number(strconv.FormatInt(i+1000, 10)))
		}
	case bool:
		add("bool.flip", !x)
	case nil:
		add("null.setempty", "")
	case []any:
		if len(x) > 0 {
			add("arr.droplast", append([]any(nil), x[:len(x)-1]...))
			add("arr.duplast", append(append([]any(nil), x...), x[len(x)-1]))
			add("arr.empty", []any{})
			if len(x) > 1 {
				a := append([]any(nil), x...)
				a[0], a[1] = a[1], a[0]
				ja, _ := json.Marshal(a)
				jx, _ := json.Marshal(x)
				if !bytes.Equal(ja, jx) {
					add("arr.swap01", a)
				}
			}
		} else {
			add("arr.addempty", []any{map[string]any{}})
		}
	case map[string]any:
	}
	return out
}

// mutants enumerates (mutation, mutated document) pairs of a JSON document.
func mutants(doc []byte, b64 bool, visit func(m Mutation, mutated []byte)) error {
	root, err := decodeTree(doc)
	if err != nil {
		return err
	}
	var nodes []node
	walk(root, nil, &nodes)
	for _, n := range nodes {
		for _, a := range alterations(n, b64) {
			mt := setAt(root, n.path, a.val)
			b, err := json.Marshal(mt)
			if err != nil {
				return err
			}
			visit(Mutation{Path: pathString(n.path), Alt: a.name}, b)
		}
	}
	return nil
}

// applyMutation re-applies one mutation (for replays).
func applyMutation(doc []byte, b64 bool, want Mutation) ([]byte, bool) {
	var res []byte
	_ = mutants(doc, b64, func(m Mutation, mutated []byte) {
		if m == want && res == nil {
			res = mutated
		}
	})
	return res, res != nil
}
