package clusterhash

import (
	"context"
	"encoding/json"
	"fmt"
	"os"
	"os/exec"
	"runtime"
	"strconv"
	"strings"
	"sync"
	"testing"
	"time"

	"github.com/obolnetwork/charon/cluster"

	"verif/harness/hx"
)

// Robustness of the harness itself: no single case may stall the run and the whole run has a budget.
//
//   - withTimeout runs one case in its own goroutine and gives up on it after caseTimeout (the case
//     is recorded as a note and skipped; its goroutine is abandoned);
//   - the run has a deadline (VERIF_BUDGET_S, default 120 s quick / 1500 s thorough): once it has
//     passed, the campaigns stop taking new cases and say so in the notes;
//   - seeds handed to cluster.NewForT / testutil.GenerateInsecureK1Key are mapped into the range in
//     which that helper terminates (see safeSeed).

const caseTimeout = 8 * time.Second

var (
	runStart  = time.Now()
	notesMu   sync.Mutex
	runNotes  []string
	stalled   int
	budgetHit bool
)

func budget() time.Duration {
	def := 120
	if hx.Thorough() {
		def = 1500
	}
	return time.Duration(hx.IntEnv("VERIF_BUDGET_S", def)) * time.Second
}

// overBudget reports (once, as a note) that the run's time budget is used up.
func overBudget(where string) bool {
	if time.Since(runStart) < budget() {
		return false
	}
	notesMu.Lock()
	defer notesMu.Unlock()
	if !budgetHit {
		budgetHit = true
		runNotes = append(runNotes, fmt.Sprintf("time budget of %s used up in %s: the remaining cases were skipped", budget(), where))
	}
	return true
}

func note(format string, a ...any) {
	notesMu.Lock()
	defer notesMu.Unlock()
	if len(runNotes) < 50 {
		runNotes = append(runNotes, fmt.Sprintf(format, a...))
	}
}

func takeNotes() []string {
	notesMu.Lock()
	defer notesMu.Unlock()
	return append([]string(nil), runNotes...)
}

// withTimeout runs f; false = f did not finish within d (it keeps running in an abandoned goroutine)
// or panicked (the panic value is returned).
func withTimeout(d time.Duration, what string, f func()) (finished bool, panicked any) {
	done := make(chan any, 1)
	go func() {
		defer func() { done <- recover() }()
		f()
	}()
	select {
	case p := <-done:
		return true, p
	case <-time.After(d):
		notesMu.Lock()
		stalled++
		notesMu.Unlock()
		note("case stalled for more than %s and was skipped: %s", d, what)
		return false, nil
	}
}

// safeSeed maps any seed into the range where cluster.NewForT(…, seed, …) terminates for n operators:
// testutil.GenerateInsecureK1Key(t, s) feeds ecdsa.GenerateKey a reader of the constant BYTE s+1, which
// loops forever when that byte is 0x00 (zero key) or 0xff (above the group order); NewForT uses the
// seeds seed … seed+n-1.
func safeSeed(seed, n int) int {
	if seed < 0 {
		seed = -seed
	}
	return 1 + seed%(250-n)
}

// runCmd runs an external command with a timeout.
func runCmd(timeout time.Duration, env []string, name string, args ...string) (string, error) {
	ctx, cancel := context.WithTimeout(context.Background(), timeout)
	defer cancel()
	cmd := exec.CommandContext(ctx, name, args...)
	cmd.Env = env
	out, err := cmd.CombinedOutput()
	if ctx.Err() != nil {
		return string(out), fmt.Errorf("timed out after %s", timeout)
	}
	return string(out), err
}

// ------------------------------------------------------------------------------------------
// the one deliberate "large count" probe per version, in a child process with a time budget

// LargeCountResult is what one probe observed.
type LargeCountResult struct {
	Version   string  `json:"version"`
	Count     int     `json:"num_validators"`
	Outcome   string  `json:"outcome"` // decoded | rejected | timeout | crashed
	Seconds   float64 `json:"seconds"`
	AllocMiB  float64 `json:"alloc_mib"`
	Detail    string  `json:"detail,omitempty"`
	PerRecord float64 `json:"alloc_bytes_per_unit_of_count,omitempty"`
}

// TestLargeCountChild is the child side: decode the definition in VERIF_C12_PROBE_FILE and report.
func TestLargeCountChild(t *testing.T) {
	fn := os.Getenv("VERIF_C12_PROBE_FILE")
	if fn == "" {
		t.Skip("child of TestLargeCount only")
	}
	b, err := os.ReadFile(fn)
	if err != nil {
		t.Fatal(err)
	}
	var m0, m1 runtime.MemStats
	runtime.ReadMemStats(&m0)
	t0 := time.Now()
	var d cluster.Definition
	err = json.Unmarshal(b, &d)
	el := time.Since(t0)
	runtime.ReadMemStats(&m1)
	out := "decoded"
	detail := ""
	if err != nil {
		out, detail = "rejected", shortErr(err)
	}
	fmt.Printf("PROBE %s %.3f %.1f %s\n", out, el.Seconds(), float64(m1.TotalAlloc-m0.TotalAlloc)/(1<<20), detail)
}

// largeCountProbe decodes, in a child process killed after 20 s, a valid definition of every version
// whose num_validators was replaced by a large number (the validators list is left alone).
func largeCountProbe(t *testing.T, count int) []LargeCountResult {
	t.Helper()
	var res []LargeCountResult
	for _, v := range Versions {
		lock, _, _ := freshLock(t, FreshSpec{Version: v, DV: 1, K: 2, N: 3, Seed: 3, Network: "goerli"})
		b, _ := json.Marshal(lock.Definition)
		tree, _ := decodeTree(b)
		tree.(map[string]any)["num_validators"] = json.Number(strconv.Itoa(count))
		mb, _ := json.Marshal(tree)
		fn := t.TempDir() + "/probe.json"
		if err := os.WriteFile(fn, mb, 0o600); err != nil {
			t.Fatal(err)
		}
		t0 := time.Now()
		out, err := runCmd(20*time.Second, append(os.Environ(), "VERIF_C12_PROBE_FILE="+fn, "GOMEMLIMIT=1500MiB"), os.Args[0], "-test.run=^TestLargeCountChild$", "-test.v")
		r := LargeCountResult{Version: v, Count: count, Seconds: time.Since(t0).Seconds()}
		var o, detail string
		var secs, mib float64
		found := false
		for _, ln := range splitLines(out) {
			f := strings.SplitN(ln, " ", 5)
			if len(f) >= 4 && f[0] == "PROBE" {
				o = f[1]
				secs, _ = strconv.ParseFloat(f[2], 64)
				mib, _ = strconv.ParseFloat(f[3], 64)
				if len(f) == 5 {
					detail = f[4]
				}
				found = true
			}
		}
		switch {
		case found:
			r.Outcome, r.Seconds, r.AllocMiB, r.Detail = o, secs, mib, detail
			if o == "decoded" {
				r.PerRecord = mib * (1 << 20) / float64(count)
			}
		case err != nil && err.Error() == "timed out after 20s":
			r.Outcome = "timeout"
		default:
			r.Outcome, r.Detail = "crashed", lastLines(out, 2)
		}
		res = append(res, r)
	}
	return res
}

func splitLines(s string) []string {
	var out []string
	cur := ""
	for _, c := range s {
		if c == '\n' {
			out = append(out, cur)
			cur = ""
		} else {
			cur += string(c)
		}
	}
	return append(out, cur)
}
