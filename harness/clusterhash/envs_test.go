package clusterhash

import (
	"encoding/hex"
	"encoding/json"
	"fmt"
	"math/rand"
	"os"
	"path/filepath"
	"reflect"
	"sort"
	"strings"
	"testing"
	"time"

	eth2p0 "github.com/attestantio/go-eth2-client/spec/phase0"

	"github.com/obolnetwork/charon/cluster"

	"verif/harness/hx"
)

// EnvCase is one translation-validation case: the Coq program named Prog, evaluated on Env with
// SHA-256, must give Want (or fail when Want is "none").
type EnvCase struct {
	ID    int    `json:"id"`
	Prog  string `json:"prog"`
	Src   string `json:"src"`
	EnvID int    `json:"env_id"`
	Want  string `json:"want"`
}

// EnvFile is the file handed to the driver: environments are shared between cases.
type EnvFile struct {
	Envs  []string  `json:"envs"`
	Cases []EnvCase `json:"cases"`
	// GoldenMismatch: golden files of the repository whose stored hash is not the recomputed one.
	GoldenMismatch []string `json:"golden_mismatch"`
}

func repoDir() string {
	if d := os.Getenv("VERIF_REPO"); d != "" {
		return d
	}
	return "/repo"
}

// coqBytes renders a byte string as (hx "<hex>") (Codec/HashEval.v).
func coqBytes(b []byte) string {
	return `(hx "` + hex.EncodeToString(b) + `")`
}

var timeType = reflect.TypeOf(time.Time{})

// coqValue renders a Go value as a term of Charon.Codec.HashProg.value, field names = Go names.
func coqValue(v reflect.Value) string {
	if v.Type() == timeType {
		return fmt.Sprintf("VNum %d", uint64(v.Interface().(time.Time).Unix()))
	}
	switch v.Kind() {
	case reflect.String:
		return "VBytes " + coqBytes([]byte(v.String()))
	case reflect.Bool:
		if v.Bool() {
			return "VBool true"
		}
		return "VBool false"
	case reflect.Int, reflect.Int64, reflect.Int32:
		return fmt.Sprintf("VNum %d", uint64(v.Int()))
	case reflect.Uint, reflect.Uint64, reflect.Uint32:
		return fmt.Sprintf("VNum %d", v.Uint())
	case reflect.Slice:
		if v.Type().Elem().Kind() == reflect.Uint8 {
			return "VBytes " + coqBytes(v.Bytes())
		}
		parts := make([]string, v.Len())
		for i := range parts {
			parts[i] = coqValue(v.Index(i))
		}
		return "VList [" + strings.Join(parts, "; ") + "]"
	case reflect.Struct:
		var parts []string
		for i := 0; i < v.NumField(); i++ {
			f := v.Type().Field(i)
			if !f.IsExported() {
				continue
			}
			parts = append(parts, fmt.Sprintf("(%q, %s)", f.Name, coqValue(v.Field(i))))
		}
		return "VStruct [" + strings.Join(parts, "; ") + "]"
	}
	panic("coqValue: unsupported kind " + v.Kind().String() + " of " + v.Type().String())
}

func vtag(v string) string {
	p := strings.Split(strings.TrimPrefix(v, "v"), ".")
	return "v" + p[0] + "_" + p[1]
}

type envGen struct {
	envs   []string
	cases  []EnvCase
	golden []string
}

func (g *envGen) add(prog, src string, env any, want []byte, failed bool) {
	w := "none"
	if !failed {
		w = coqBytes(want)
	}
	e := coqValue(reflect.ValueOf(env))
	id := len(g.envs)
	if id > 0 && g.envs[id-1] == e {
		id--
	} else {
		g.envs = append(g.envs, e)
	}
	g.cases = append(g.cases, EnvCase{ID: len(g.cases), Prog: prog, Src: src, EnvID: id, Want: w})
}

// addDefinition records config and definition hash of d as Go computes them.
func (g *envGen) addDefinition(src string, d cluster.Definition) {
	tag := vtag(d.Version)
	d2, err := d.SetDefinitionHashes()
	if err != nil {
		// Both hashes share the failure causes that the generators produce (over-long fields).
		g.add("config_"+tag, src, d, nil, true)
		return
	}
	g.add("config_"+tag, src, d2, d2.ConfigHash, false)
	g.add("def_"+tag, src, d2, d2.DefinitionHash, false)
}

func (g *envGen) addLock(src string, l cluster.Lock) {
	tag := vtag(l.Version)
	d2, err := l.Definition.SetDefinitionHashes()
	if err == nil {
		l.Definition = d2
	}
	l2, err := l.SetLockHash()
	if err != nil {
		g.add("lock_"+tag, src, l, nil, true)
		return
	}
	g.add("lock_"+tag, src, l2, l2.LockHash, false)
}

func randBytes(r *rand.Rand, n int) []byte {
	b := make([]byte, n)
	r.Read(b)
	return b
}

const alnum = "abcdefghijklmnopqrstuvwxyzABCDEFGHIJKLMNOPQRSTUVWXYZ0123456789-_ "

func randStr(r *rand.Rand, n int) string {
	b := make([]byte, n)
	for i := range b {
		b[i] = alnum[r.Intn(len(alnum))]
	}
	return string(b)
}

func pick[T any](r *rand.Rand, xs ...T) T { return xs[r.Intn(len(xs))] }

func randAddr(r *rand.Rand) string {
	b := randBytes(r, 20)
	if r.Intn(6) == 0 {
		b[0] = 0
	}
	s := addrOf(b)
	switch r.Intn(4) {
	case 0:
		s = "0x" + strings.ToUpper(s[2:])
	case 1:
		// mixed case
		x := []byte(s)
		for i := 2; i < len(x); i++ {
			if r.Intn(2) == 0 {
				x[i] = strings.ToUpper(string(x[i]))[0]
			}
		}
		s = string(x)
	}
	return s
}

// randDefinition builds a structurally valid (not cryptographically valid) definition with edge-case
// field lengths; over=true makes one field exceed its limit (Go must fail, and so must the model).
func randDefinition(r *rand.Rand, version string, over bool) cluster.Definition {
	vi := vnum(version)
	lens := []int{0, 1, 5, 31, 32, 33, 63, 64}
	d := cluster.Definition{
		Version:       version,
		UUID:          randStr(r, pick(r, 36, 36, 0, 1, 31, 32, 33, 64)),
		Name:          randStr(r, pick(r, append(lens, 65, 100, 255, 256)...)),
		Timestamp:     pick(r, "2022-07-19T18:19:58+02:00", "", time.Unix(r.Int63n(2e9), 0).UTC().Format(time.RFC3339), randStr(r, 32)),
		Threshold:     r.Intn(10),
		DKGAlgorithm:  pick(r, "default", "frost", "", randStr(r, 32)),
		ForkVersion:   pick(r, []byte{0, 0, 0, 0}, []byte{0, 0, 0x10, 0x20}, []byte{0x90, 0, 0, 0x69}, randBytes(r, 4)),
		NumValidators: r.Intn(4),
	}
	nops := pick(r, 0, 1, 2, 3, 4, 7)
	for i := 0; i < nops; i++ {
		o := cluster.Operator{Address: randAddr(r), ENR: "enr:-" + randStr(r, pick(r, 0, 27, 28, 59, 60, 150, 1019))}
		switch {
		case vi < vnum("v1.3.0"):
			// legacy files carry no operator signatures
			if r.Intn(3) == 0 {
				o.ConfigSignature, o.ENRSignature = randBytes(r, 65), randBytes(r, 65)
			}
		case vi < vnum("v1.11.0"):
			if r.Intn(4) != 0 {
				o.ConfigSignature, o.ENRSignature = randBytes(r, 65), randBytes(r, 65)
			}
		default:
			o.ConfigSignature, o.ENRSignature = randBytes(r, 65*r.Intn(4)), randBytes(r, 65*r.Intn(3))
		}
		if r.Intn(5) == 0 {
			o.Address = ""
		}
		d.Operators = append(d.Operators, o)
	}
	if vi >= vnum("v1.4.0") {
		d.Creator = cluster.Creator{Address: randAddr(r)}
		if vi >= vnum("v1.11.0") {
			d.Creator.ConfigSignature = randBytes(r, 65*r.Intn(3))
		} else if r.Intn(2) == 0 {
			d.Creator.ConfigSignature = randBytes(r, 65)
		}
	}
	first := cluster.ValidatorAddresses{FeeRecipientAddress: randAddr(r), WithdrawalAddress: randAddr(r)}
	for i := 0; i < d.NumValidators; i++ {
		if vi < vnum("v1.5.0") {
			d.ValidatorAddresses = append(d.ValidatorAddresses, first)
		} else {
			d.ValidatorAddresses = append(d.ValidatorAddresses, cluster.ValidatorAddresses{FeeRecipientAddress: randAddr(r), WithdrawalAddress: randAddr(r)})
		}
	}
	if vi >= vnum("v1.8.0") {
		for i, n := 0, pick(r, 0, 1, 2, 3, 4, 5, 9); i < n; i++ {
			d.DepositAmounts = append(d.DepositAmounts, eth2p0.Gwei(r.Uint64()>>uint(r.Intn(40))))
		}
	}
	if vi >= vnum("v1.9.0") {
		d.ConsensusProtocol = pick(r, "", "qbft", "abft", randStr(r, 256))
	}
	if vi >= vnum("v1.10.0") {
		d.TargetGasLimit = uint(r.Intn(100000000))
		d.Compounding = r.Intn(2) == 0
	}
	if over && vi >= vnum("v1.3.0") {
		switch r.Intn(3) {
		case 0:
			d.Name = randStr(r, 257)
		case 1:
			d.UUID = randStr(r, 65)
		default:
			d.DKGAlgorithm = randStr(r, 33)
		}
	}
	return d
}

func randLock(r *rand.Rand, version string) cluster.Lock {
	vi := vnum(version)
	l := cluster.Lock{Definition: randDefinition(r, version, false)}
	nsh := len(l.Operators)
	for i := 0; i < l.NumValidators; i++ {
		v := cluster.DistValidator{PubKey: randBytes(r, 48)}
		for j := 0; j < nsh; j++ {
			v.PubShares = append(v.PubShares, randBytes(r, 48))
		}
		ndd := 0
		switch {
		case vi >= vnum("v1.8.0"):
			ndd = r.Intn(4)
		case vi >= vnum("v1.6.0"):
			ndd = r.Intn(2)
		}
		for j := 0; j < ndd; j++ {
			wc := randBytes(r, 32)
			wc[0] = byte(1 + r.Intn(2))
			v.PartialDepositData = append(v.PartialDepositData, cluster.DepositData{PubKey: v.PubKey, WithdrawalCredentials: wc, Amount: int(r.Int63n(2048e9)), Signature: randBytes(r, 96)})
		}
		if vi >= vnum("v1.7.0") {
			v.BuilderRegistration = cluster.BuilderRegistration{
				Message:   cluster.Registration{FeeRecipient: randBytes(r, 20), GasLimit: r.Intn(60000000), Timestamp: time.Unix(r.Int63n(2e9), 0), PubKey: v.PubKey},
				Signature: randBytes(r, 96),
			}
		}
		l.Validators = append(l.Validators, v)
	}
	return l
}

// TestGenEnvs emits the translation-validation cases.
func TestGenEnvs(t *testing.T) {
	r := hx.Rand()
	perVersion := hx.IntEnv("VERIF_TV_PER_VERSION", 1)
	g := &envGen{}
	// the versions the code supports must be the ones this harness covers
	supported := cluster.SupportedVersionsForT(t)
	sort.Strings(supported)
	mine := append([]string{}, Versions...)
	sort.Strings(mine)
	if strings.Join(supported, ",") != strings.Join(mine, ",") {
		g.golden = append(g.golden, "versions: the code supports "+strings.Join(supported, ",")+" but the harness covers "+strings.Join(mine, ","))
	}
	for _, v := range Versions {
		// golden files of the repository
		fn := strings.ReplaceAll(v, ".", "_")
		for _, kind := range []string{"definition", "lock"} {
			p := filepath.Join(repoDir(), "cluster", "testdata", "cluster_"+kind+"_"+fn+".json")
			b, err := os.ReadFile(p)
			if err != nil {
				t.Fatalf("golden %s: %v", p, err)
			}
			if kind == "definition" {
				var d cluster.Definition
				if err := json.Unmarshal(b, &d); err != nil {
					t.Fatalf("golden %s: %v", p, err)
				}
				want := [][]byte{d.ConfigHash, d.DefinitionHash}
				g.addDefinition("golden:"+filepath.Base(p), d)
				// the hashes stored in the golden file must be the ones recomputed
				n := len(g.cases)
				if g.cases[n-2].Want != coqBytes(want[0]) || g.cases[n-1].Want != coqBytes(want[1]) {
					g.golden = append(g.golden, filepath.Base(p)+": stored config/definition hash differs from the recomputed one")
				}
			} else {
				var l cluster.Lock
				if err := json.Unmarshal(b, &l); err != nil {
					t.Fatalf("golden %s: %v", p, err)
				}
				want := l.LockHash
				g.addLock("golden:"+filepath.Base(p), l)
				if g.cases[len(g.cases)-1].Want != coqBytes(want) {
					g.golden = append(g.golden, filepath.Base(p)+": stored lock hash differs from the recomputed one")
				}
			}
		}
		// a fresh, fully signed lock
		sp := FreshSpec{Version: v, DV: 1 + r.Intn(2), K: 2, N: 3, Seed: 1 + r.Intn(1000), Network: "goerli", Amounts: []int{1, 31}}
		var lock cluster.Lock
		if fin, p := withTimeout(30*time.Second, fmt.Sprintf("building the fresh lock %+v", sp), func() { lock, _, _ = freshLock(t, sp) }); fin && p == nil {
			g.addDefinition("fresh", lock.Definition)
			g.addLock("fresh", lock)
		}
		// random edge-case shapes
		for i := 0; i < perVersion; i++ {
			g.addDefinition(fmt.Sprintf("random-def-%d", i), randDefinition(r, v, false))
			g.addLock(fmt.Sprintf("random-lock-%d", i), randLock(r, v))
		}
		if vnum(v) >= vnum("v1.3.0") {
			g.addDefinition("random-def-overlong", randDefinition(r, v, true))
		}
	}
	if err := hx.WriteJSON("c12_envs.json", EnvFile{Envs: g.envs, Cases: g.cases, GoldenMismatch: g.golden}); err != nil {
		t.Fatal(err)
	}
	fmt.Printf("c12 envs: %d cases\n", len(g.cases))
}
