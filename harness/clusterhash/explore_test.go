package clusterhash

import (
	"encoding/json"
	"fmt"
	"os"
	"sort"
	"testing"

	"github.com/obolnetwork/charon/cluster"
)

func TestExplore(t *testing.T) {
	surv := map[string]int{}
	b, err := os.ReadFile("/tmp/cc1/node0/cluster-lock.json")
	if err != nil {
		t.Fatal(err)
	}
	c, d := verifyLockJSON(b, true)
	fmt.Println("baseline:", c, d)
	var orig cluster.Lock
	_ = json.Unmarshal(b, &orig)
	canon, _ := json.Marshal(orig)
	_ = mutants(b, false, func(m Mutation, mut []byte) {
		c, d := verifyLockJSON(mut, true)
		if c == "panic" {
			surv[fmt.Sprintf("PANIC %s %s :: %s", pathPattern(m.Path), m.Alt, d)]++
		}
		if c == "ok" {
			var l2 cluster.Lock
			_ = json.Unmarshal(mut, &l2)
			c2, _ := json.Marshal(l2)
			kind := "REAL"
			if string(c2) == string(canon) {
				kind = "noop"
			}
			surv[fmt.Sprintf("%s %s %s", kind, pathPattern(m.Path), m.Alt)]++
		}
	})
	var keys []string
	for k := range surv {
		keys = append(keys, k)
	}
	sort.Strings(keys)
	for _, k := range keys {
		fmt.Printf("%s x%d\n", k, surv[k])
	}
	// two-field template on v1.3 / v1.4
	for _, v := range []string{"v1.3.0", "v1.4.0"} {
		lock, keys, shares := freshLock(t, FreshSpec{Version: v, DV: 2, K: 3, N: 4, Seed: 3, Network: "goerli"})
		_ = keys
		_ = shares
		bb, _ := json.Marshal(lock)
		tree, _ := decodeTree(bb)
		def := tree.(map[string]any)["cluster_definition"].(map[string]any)
		fmt.Println(v, "fee", def["fee_recipient_address"], "wd", def["withdrawal_address"])
	}
}
