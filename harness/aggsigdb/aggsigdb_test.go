// Correspondence harness for C17: drives the real aggsigdb.MemDB (v1, actor) and aggsigdb.MemDBV2
// (v2, mutex + broadcast channel) inside a synctest bubble with a scripted core.Deadliner and
// records, for every history, the label sequence of the Coq models (Stores/AggSigDBv1.v,
// Stores/AggSigDBv2.v).
//
// What is observed: after every harness operation synctest.Wait() (every goroutine durably blocked)
// and then the set of Await calls that have returned, with which value / error; the error returned
// by Store.  What is inferred (labels that are not individually observable): for v2, that after a
// Store every reader that was waiting woke up and looked its key up again (LWake r; LLookup r res,
// res = the value it returned with, or None if it is still blocked); for a Store of several
// entries that failed, the iteration order "entries now present with the stored data, then the
// conflicting entry, then the rest" — determined with probe reads after the Store.  A reader that
// stays blocked although its key is stored therefore yields `LLookup r None` with the key present:
// refused by the model and flagged by the monitor.
package c17

import (
	"context"
	"errors"
	"fmt"
	"math/rand"
	"sort"
	"strings"
	"sync"
	"sync/atomic"
	"testing"
	"testing/synctest"

	"github.com/OffchainLabs/go-bitfield"
	eth2v1 "github.com/attestantio/go-eth2-client/api/v1"
	eth2spec "github.com/attestantio/go-eth2-client/spec"
	"github.com/attestantio/go-eth2-client/spec/altair"
	eth2p0 "github.com/attestantio/go-eth2-client/spec/phase0"

	"github.com/obolnetwork/charon/core"
	"github.com/obolnetwork/charon/core/aggsigdb"

	"verif/harness/hx"
)

// Entry is one (validator, value) pair of a Store set.
type Entry struct {
	PK int `json:"pk"`
	V  int `json:"v"`
}

// Read is one Await call: reader id, duty id, validator, subcommittee index.
type Read struct {
	R   int `json:"r"`
	D   int `json:"d"`
	PK  int `json:"pk"`
	Sub int `json:"sub,omitempty"`
	// K > 0: the reader's context cancels itself during its K-th Done()/Err() call; K < 0: it is
	// cancelled before Await is called.
	K int `json:"k,omitempty"`
}

// Op is one scripted operation.
//
//	await  : start reader R (goroutine calling Await) for (D, PK, Sub)
//	store  : Store(D, Es) from the harness goroutine
//	cancel : cancel the context of reader R
//	expire : send duty D on the deadliner channel
//	cread  : start reader R with a context that cancels itself during its K-th Done()/Err() call
//	         (a read racing with its own cancellation; it may return the value or the context
//	         error), then check that the database loop still consumes messages (an expiry of the
//	         unused duty 0 must be received)
//	astore : an abandoned Store(D, {PK: V}): its caller's context is cancelled at a controlled point,
//	         Mode "before" (cancelled before the call), "k" (during its K-th Done()/Err() call) or
//	         "during" (by a hook in the value's MarshalJSON, i.e. while the store compares it with
//	         the existing data; for v1 the hook — which runs in the Run goroutine — also waits until
//	         the abandoned Store call has returned).  It may or may not take effect (observed by a
//	         probe read); afterwards the database loop must still consume messages
//	probe  : Store(D, {PK: V}) of a fresh key and an Await of it, started together: both must complete
//	par    : start the readers Rs and a Store(D, Es) concurrently (store goroutine launched after
//	         the first Pos readers), then wait for quiescence
type Op struct {
	Op  string  `json:"op"`
	R   int     `json:"r,omitempty"`
	D   int     `json:"d,omitempty"`
	PK  int     `json:"pk,omitempty"`
	Sub int     `json:"sub,omitempty"`
	Es  []Entry `json:"es,omitempty"`
	Rs  []Read  `json:"rs,omitempty"`
	Pos int     `json:"pos,omitempty"`
	K    int    `json:"k,omitempty"`
	V    int    `json:"v,omitempty"`
	Mode string `json:"mode,omitempty"`
}

// History is a script, the implementation it ran against and the labels observed.
type History struct {
	ID     int      `json:"id"`
	Kind   string   `json:"kind"`
	Impl   string   `json:"impl"`
	Script []Op     `json:"script"`
	Labels []string `json:"labels"`
	// Anomaly: something the label language cannot express (unexpected error, unknown value, ...).
	Anomaly string `json:"anomaly,omitempty"`
	// MaxBlocked: the largest number of readers blocked at the moment of a store.
	MaxBlocked int  `json:"max_blocked"`
	NonTrivial bool `json:"nontrivial"`
}

var types = []core.DutyType{core.DutyAttester, core.DutySyncMessage, core.DutyRandao, core.DutyPrepareSyncContribution}

const maxV = 6

func toDuty(d int) core.Duty { return core.Duty{Slot: uint64(d / 4), Type: types[d%4]} }

func toPK(pk int) core.PubKey { return core.PubKey(fmt.Sprintf("0x%096x", pk)) }

func sig(v int) eth2p0.BLSSignature {
	var s eth2p0.BLSSignature
	for i := range s {
		s[i] = byte(v + i)
	}
	return s
}

func root(v int) eth2p0.Root {
	var s eth2p0.Root
	for i := range s {
		s[i] = byte(3*v + i)
	}
	return s
}

// subOf is the sync subcommittee index carried by value v (only used by sync-aggregator duties).
func subOf(d, v int) int {
	if core.IsSyncSubcommitteeDuty(types[d%4]) {
		return v % 2
	}
	return 0
}

// mkValue builds the real core.SignedData for value id v under (duty d, validator pk).
func mkValue(d, pk, v int) core.SignedData {
	slot := eth2p0.Slot(d / 4)
	switch d % 4 {
	case 0:
		bits := bitfield.NewBitlist(8)
		bits.SetBitAt(uint64(v%8), true)
		vIdx := eth2p0.ValidatorIndex(pk)
		return core.VersionedAttestation{VersionedAttestation: eth2spec.VersionedAttestation{
			Version:        eth2spec.DataVersionDeneb,
			ValidatorIndex: &vIdx,
			Deneb: &eth2p0.Attestation{
				AggregationBits: bits,
				Data: &eth2p0.AttestationData{
					Slot: slot, Index: eth2p0.CommitteeIndex(pk), BeaconBlockRoot: root(v),
					Source: &eth2p0.Checkpoint{Epoch: 1, Root: root(1)},
					Target: &eth2p0.Checkpoint{Epoch: 2, Root: root(2)},
				},
				Signature: sig(v),
			},
		}}
	case 1:
		return core.NewSignedSyncMessage(&altair.SyncCommitteeMessage{
			Slot: slot, BeaconBlockRoot: root(v), ValidatorIndex: eth2p0.ValidatorIndex(pk), Signature: sig(v),
		})
	case 2:
		return core.NewSignedRandao(eth2p0.Epoch(slot), sig(v))
	default:
		return core.NewSyncCommitteeSelection(&eth2v1.SyncCommitteeSelection{
			ValidatorIndex: eth2p0.ValidatorIndex(pk), Slot: slot, SubcommitteeIndex: uint64(v % 2), SelectionProof: sig(v),
		})
	}
}

func jsonOf(x core.SignedData) string {
	b, err := x.MarshalJSON()
	if err != nil {
		return "marshal-error:" + err.Error()
	}
	return string(b)
}

// valueID maps a returned value back to its id by JSON equality (what dataEqual compares).
func valueID(d, pk int, x core.SignedData) int {
	if x == nil {
		return -1
	}
	j := jsonOf(x)
	for v := 0; v <= maxV; v++ {
		if jsonOf(mkValue(d, pk, v)) == j {
			return v
		}
	}
	return -1
}

type scripted struct {
	mu    sync.Mutex
	ch    chan core.Duty
	added map[core.Duty]int
}

func (s *scripted) Add(d core.Duty) core.DeadlineStatus {
	s.mu.Lock()
	s.added[d]++
	s.mu.Unlock()
	return core.DeadlineScheduled
}

func (s *scripted) C() <-chan core.Duty { return s.ch }

type db interface {
	Run(ctx context.Context)
	Store(ctx context.Context, duty core.Duty, set core.SignedDataSet) error
	Await(ctx context.Context, duty core.Duty, pubKey core.PubKey, subcommIdx core.SubcommitteeIndex) (core.SignedData, error)
}

type outcome struct {
	val core.SignedData
	err error
}

type reader struct {
	Read
	cancel context.CancelFunc
}

// cancelAtCtx cancels itself during its at-th Done()/Err() call: a deterministic scheduling point
// inside Await (public API only) for reads that race with their own cancellation.
type cancelAtCtx struct {
	context.Context

	cancel context.CancelFunc
	calls  atomic.Int64
	at     int64
}

func (c *cancelAtCtx) tick() {
	if c.calls.Add(1) == c.at {
		c.cancel()
	}
}

func (c *cancelAtCtx) Done() <-chan struct{} {
	c.tick()
	return c.Context.Done()
}

func (c *cancelAtCtx) Err() error {
	c.tick()
	return c.Context.Err()
}

func keyTerm(d, pk, sub int) string { return fmt.Sprintf("(%d, %d)", d, pk*4+sub) }

// runner executes one script against one implementation.
type runner struct {
	t       *testing.T
	impl    string
	db      db
	dl      *scripted
	root    context.Context
	mu      sync.Mutex
	results map[int]*outcome
	open    []*reader // readers not yet seen to have returned, in start order
	used    map[int]bool
	labels  []string
	anomaly []string
	nextPro int
	maxBlk  int
	stop    chan struct{} // closed at the end of the history: releases harness goroutines that are still blocked
	wedged  bool
}

func (x *runner) v1() bool { return x.impl == "v1" }

func (x *runner) emit(format string, a ...any) { x.labels = append(x.labels, fmt.Sprintf(format, a...)) }

func (x *runner) quiet() {
	if x.v1() {
		x.emit("LQuiet")
	} else {
		x.emit("LQuiet2")
	}
}

func (x *runner) anom(format string, a ...any) {
	x.anomaly = append(x.anomaly, fmt.Sprintf(format, a...))
}

func (x *runner) start(rd Read) *reader {
	base, cancel := context.WithCancel(x.root)
	var ctx context.Context = base
	if rd.K > 0 {
		ctx = &cancelAtCtx{Context: base, cancel: cancel, at: int64(rd.K)}
	} else if rd.K < 0 {
		cancel() // abandoned before the call
	}
	r := &reader{Read: rd, cancel: cancel}
	x.open = append(x.open, r)
	x.used[rd.R] = true
	go func() {
		v, err := x.db.Await(ctx, toDuty(rd.D), toPK(rd.PK), core.SubcommitteeIndex(rd.Sub))
		x.mu.Lock()
		x.results[rd.R] = &outcome{val: v, err: err}
		x.mu.Unlock()
	}()
	return r
}

// ret describes how a reader returned: value id >= 0, or -1 = context.Canceled.
type ret struct {
	r   *reader
	val int
}

// collect waits for quiescence and removes from open the readers that have returned.
func (x *runner) collect() map[int]ret {
	synctest.Wait()
	got := map[int]ret{}
	var still []*reader
	x.mu.Lock()
	defer x.mu.Unlock()
	for _, r := range x.open {
		o := x.results[r.R]
		if o == nil {
			still = append(still, r)
			continue
		}
		switch {
		case o.err == nil:
			v := valueID(r.D, r.PK, o.val)
			if v < 0 {
				x.anom("reader %d returned a value that was never stored under its key: %s", r.R, jsonOf(o.val))
			}
			got[r.R] = ret{r: r, val: v}
		case errors.Is(o.err, context.Canceled):
			got[r.R] = ret{r: r, val: -1}
		default:
			x.anom("reader %d returned unexpected error %q", r.R, o.err.Error())
			got[r.R] = ret{r: r, val: -1}
		}
	}
	x.open = still
	return got
}

// answers renders the value returns among got for the readers listed (in that order).
func (x *runner) lookups(rs []*reader, got map[int]ret, wake bool) {
	for _, r := range rs {
		g, ok := got[r.R]
		selfCancelled := ok && g.val < 0 && r.K != 0
		if x.v1() {
			if ok && g.val >= 0 {
				x.emit("LAnswer %d %d", r.R, g.val)
			} else if selfCancelled {
				x.emit("LCancel %d", r.R)
			}
			continue
		}
		if wake {
			x.emit("LWake %d", r.R)
		}
		if selfCancelled {
			x.emit("LCancel2 %d", r.R)
		} else if ok && g.val >= 0 {
			x.emit("LLookup %d (Some %d)", r.R, g.val)
		} else {
			x.emit("LLookup %d None", r.R)
		}
	}
	for _, r := range rs {
		if g, ok := got[r.R]; ok && g.val < 0 && r.K == 0 {
			x.anom("reader %d returned a context error without being cancelled", r.R)
		}
	}
}

func (x *runner) begin(rd Read) {
	if x.v1() {
		x.emit("LQuery %d %s", rd.R, keyTerm(rd.D, rd.PK, rd.Sub))
	} else {
		x.emit("LAwait %d %s", rd.R, keyTerm(rd.D, rd.PK, rd.Sub))
	}
}

func (x *runner) opAwait(rd Read) {
	if x.used[rd.R] {
		return
	}
	r := x.start(rd)
	got := x.collect()
	x.begin(rd)
	x.lookups([]*reader{r}, got, false)
	x.quiet()
}

func (x *runner) opCancel(id int) {
	for _, r := range x.open {
		if r.R != id {
			continue
		}
		r.cancel()
		got := x.collect()
		g, ok := got[id]
		switch {
		case !ok:
			x.anom("reader %d did not return after its context was cancelled", id)
		case g.val >= 0:
			x.anom("reader %d returned a value when its context was cancelled while it was blocked", id)
		}
		if x.v1() {
			x.emit("LCancel %d", id)
		} else {
			x.emit("LCancel2 %d", id)
		}
		for rid := range got {
			if rid != id {
				x.anom("reader %d returned because another reader was cancelled", rid)
			}
		}
		x.quiet()
		return
	}
}

// deliver sends duty d on the deadliner channel from a goroutine and reports whether the database
// loop received it by the next quiescent point.
func (x *runner) deliver(d int) (bool, map[int]ret) {
	var delivered atomic.Bool
	go func() {
		select {
		case x.dl.ch <- toDuty(d):
			delivered.Store(true)
		case <-x.stop:
		}
	}()
	got := x.collect()
	return delivered.Load(), got
}

func (x *runner) wedge(format string, a ...any) {
	x.wedged = true
	x.anom("wedged: "+format, a...)
}

// hookedData is a core.SignedData that runs a hook (once) when it is serialised, i.e. at the
// moment the store compares it with the data already stored under the key.
type hookedData struct {
	core.SignedData

	once *sync.Once
	hook func()
}

func (d hookedData) Clone() (core.SignedData, error) { return d, nil }

func (d hookedData) MarshalJSON() ([]byte, error) {
	d.once.Do(d.hook)
	return d.SignedData.MarshalJSON()
}

// ping checks that the database loop still consumes messages (expiry of the unused duty 0).
func (x *runner) ping(what string) bool {
	ok, got := x.deliver(0)
	if !ok {
		x.wedge("%s the database loop no longer receives from the deadliner channel: every later Await and Store hangs", what)
		return false
	}
	if x.v1() {
		x.emit("LExpire 0")
	} else {
		x.emit("LExpire2 0")
	}
	x.lookups(x.openBefore(got), got, false)
	x.quiet()
	return true
}

// opAStore: a Store abandoned by its caller at a controlled point.
func (x *runner) opAStore(op Op) {
	d, e := op.D, Entry{PK: op.PK, V: op.V}
	before := append([]*reader(nil), x.open...)
	if len(before) > x.maxBlk {
		x.maxBlk = len(before)
	}
	base, cancel := context.WithCancel(x.root)
	defer cancel()
	var ctx context.Context = base
	returned := make(chan struct{})
	val := mkValue(d, e.PK, e.V)
	mode := op.Mode
	if mode == "during" && core.IsSyncSubcommitteeDuty(types[d%4]) {
		mode = "k" // SyncSubcommitteeIndex switches on the concrete type: no wrapper for these duties
	}
	switch mode {
	case "before":
		cancel()
	case "k":
		k := op.K
		if k <= 0 {
			k = 2
		}
		ctx = &cancelAtCtx{Context: base, cancel: cancel, at: int64(k)}
	case "during":
		val = hookedData{SignedData: val, once: new(sync.Once), hook: func() {
			cancel()
			if x.v1() {
				select {
				case <-returned:
				case <-x.stop:
				}
			}
		}}
	}
	var (
		done bool
		err  error
	)
	go func() {
		e := x.db.Store(ctx, toDuty(d), core.SignedDataSet{toPK(op.PK): val})
		x.mu.Lock()
		err, done = e, true
		x.mu.Unlock()
		close(returned)
	}()
	got := x.collect()
	x.mu.Lock()
	isDone, serr := done, err
	x.mu.Unlock()
	if !isDone {
		x.wedge("abandoned Store(duty %d, mode %s) did not return although every goroutine is blocked", d, op.Mode)
		return
	}
	res := ""
	switch {
	case serr == nil:
		res = "WOk"
	case errors.Is(serr, context.Canceled):
		res = "?"
	case strings.Contains(serr.Error(), "mismatching data"):
		res = "WMismatch"
	default:
		x.anom("abandoned Store returned unexpected error %q", serr.Error())
		return
	}
	var probes []func()
	if res == "?" { // did it take effect? (both are admissible)
		x.nextPro++
		p := Read{R: 1000 + x.nextPro, D: d, PK: e.PK, Sub: subOf(d, e.V)}
		pr := x.start(p)
		pg := x.collect()
		g, ok := pg[p.R]
		res = ""
		if ok && g.val == e.V {
			res = "WOk"
		}
		for rid := range pg {
			if rid != p.R {
				x.anom("reader %d returned during a probe read", rid)
			}
		}
		probes = append(probes, func() {
			x.begin(p)
			x.lookups([]*reader{pr}, pg, false)
			x.quiet()
		})
		if !ok {
			pr.cancel()
			cg := x.collect()
			if c, ok := cg[p.R]; !ok || c.val >= 0 {
				x.anom("probe reader %d did not return its context error", p.R)
			}
			probes = append(probes, func() {
				if x.v1() {
					x.emit("LCancel %d", p.R)
				} else {
					x.emit("LCancel2 %d", p.R)
				}
				x.quiet()
			})
		}
	}
	k := keyTerm(d, e.PK, subOf(d, e.V))
	if res != "" {
		if x.v1() {
			x.emit("LWrite %s %d %s", k, e.V, res)
		} else {
			x.emit("LStore %d [(%s, %d)] %s", d, k, e.V, res)
		}
		x.lookups(before, got, true)
	} else if len(got) > 0 { // readers returned although the store had no visible effect
		x.lookups(x.openBefore(got), got, true)
	}
	x.quiet()
	for _, p := range probes {
		p()
	}
	x.ping(fmt.Sprintf("after an abandoned Store (duty %d, mode %s)", d, op.Mode))
}

// opCread: a read that races with its own cancellation, then a liveness check of the loop.
func (x *runner) opCread(rd Read) {
	if x.used[rd.R] {
		return
	}
	r := x.start(rd)
	got := x.collect()
	x.begin(rd)
	x.lookups([]*reader{r}, got, false)
	x.quiet()
	x.ping(fmt.Sprintf("after read %d (context cancelled during its Done/Err call number %d)", rd.R, rd.K))
}

// openBefore lists the readers that returned in got (they are no longer in x.open).
func (x *runner) openBefore(got map[int]ret) []*reader {
	var rs []*reader
	for _, g := range got {
		rs = append(rs, g.r)
	}
	sort.Slice(rs, func(i, j int) bool { return rs[i].R < rs[j].R })
	return rs
}

func (x *runner) opExpire(d int) {
	ok, got := x.deliver(d)
	if !ok {
		x.wedge("the database loop did not receive expired duty %d", d)
		return
	}
	if x.v1() {
		x.emit("LExpire %d", d)
	} else {
		x.emit("LExpire2 %d", d)
	}
	for rid := range got {
		x.anom("reader %d returned because a duty expired", rid)
	}
	x.quiet()
}

func sortedEntries(es []Entry) []Entry {
	out := append([]Entry(nil), es...)
	sort.Slice(out, func(i, j int) bool { return out[i].PK < out[j].PK })
	return out
}

// opStore runs Store(d, es), with the readers rs started concurrently (par) or none.
func (x *runner) opStore(d int, es []Entry, rs []Read, pos int) {
	set := core.SignedDataSet{}
	for _, e := range es {
		set[toPK(e.PK)] = mkValue(d, e.PK, e.V)
	}
	es = nil
	for pk := 0; pk < 64; pk++ { // the set is a map: one entry per validator (the last one given)
		if v, ok := set[toPK(pk)]; ok {
			es = append(es, Entry{PK: pk, V: valueID(d, pk, v)})
		}
	}
	before := append([]*reader(nil), x.open...)
	if len(before) > x.maxBlk {
		x.maxBlk = len(before)
	}
	var (
		storeErr  error
		storeDone bool
		fresh     []*reader
	)
	{
		launch := func() {
			go func() {
				err := x.db.Store(x.root, toDuty(d), set)
				x.mu.Lock()
				storeErr, storeDone = err, true
				x.mu.Unlock()
			}()
		}
		launched := false
		for i, rd := range rs {
			if i == pos {
				launch()
				launched = true
			}
			if x.used[rd.R] {
				continue
			}
			fresh = append(fresh, x.start(rd))
		}
		if !launched {
			launch()
		}
	}
	got := x.collect()
	x.mu.Lock()
	done, err := storeDone, storeErr
	x.mu.Unlock()
	if !done {
		x.wedge("Store(duty %d) did not return although every goroutine is blocked", d)
		return
	}
	res := "WOk"
	if err != nil {
		res = "WMismatch"
		if !strings.Contains(err.Error(), "mismatching data") {
			x.anom("Store returned unexpected error %q", err.Error())
		}
	}

	// iteration order consistent with what can be observed
	order := sortedEntries(es)
	nOK := len(order)
	var probes []func()
	if err != nil && len(order) > 1 {
		var okG, conflictG, absentG []Entry
		for _, e := range order {
			e := e
			x.nextPro++
			p := Read{R: 1000 + x.nextPro, D: d, PK: e.PK, Sub: subOf(d, e.V)}
			pr := x.start(p)
			pg := x.collect()
			g, ok := pg[p.R]
			switch {
			case ok && g.val == e.V:
				okG = append(okG, e)
			case ok:
				conflictG = append(conflictG, e)
			default:
				absentG = append(absentG, e)
			}
			for rid := range pg {
				if rid != p.R {
					x.anom("reader %d returned during a probe read", rid)
				}
			}
			probes = append(probes, func() {
				x.begin(p)
				x.lookups([]*reader{pr}, pg, false)
				x.quiet()
			})
			if !ok {
				pr.cancel()
				cg := x.collect()
				if c, ok := cg[p.R]; !ok || c.val >= 0 {
					x.anom("probe reader %d did not return its context error", p.R)
				}
				probes = append(probes, func() {
					if x.v1() {
						x.emit("LCancel %d", p.R)
					} else {
						x.emit("LCancel2 %d", p.R)
					}
					x.quiet()
				})
			}
		}
		order = append(append(okG, conflictG...), absentG...)
		nOK = len(okG)
	} else if err != nil {
		nOK = 0
	}

	if x.v1() {
		for i, e := range order {
			k := keyTerm(d, e.PK, subOf(d, e.V))
			if err == nil || i < nOK {
				x.emit("LWrite %s %d WOk", k, e.V)
				if err != nil && i == len(order)-1 {
					x.emit("LWrite %s %d WMismatch", k, e.V) // an error although every entry is readable
				}
				continue
			}
			x.emit("LWrite %s %d WMismatch", k, e.V)
			break
		}
	} else {
		var items []string
		for _, e := range order {
			items = append(items, fmt.Sprintf("(%s, %d)", keyTerm(d, e.PK, subOf(d, e.V)), e.V))
		}
		x.emit("LStore %d [%s] %s", d, strings.Join(items, "; "), res)
	}
	x.lookups(before, got, true)
	for _, r := range fresh {
		x.begin(r.Read)
		x.lookups([]*reader{r}, got, false)
	}
	x.quiet()
	for _, p := range probes {
		p()
	}
}

func runScript(t *testing.T, impl string, script []Op) (labels []string, anomaly string, maxBlocked int) {
	t.Helper()
	// A database loop that is wedged for good (blocked on a channel nobody will ever use) cannot
	// leave the bubble: synctest then panics with a deadlock report after the results were taken.
	defer func() {
		if p := recover(); p != nil {
			if !strings.Contains(fmt.Sprint(p), "deadlock") {
				panic(p)
			}
			if anomaly == "" {
				anomaly = "wedged: goroutines of the database remain blocked for good after shutdown: " + fmt.Sprint(p)
			}
		}
	}()
	synctest.Test(t, func(t *testing.T) {
		rootCtx, cancelRoot := context.WithCancel(context.Background())
		dl := &scripted{ch: make(chan core.Duty), added: map[core.Duty]int{}}
		x := &runner{t: t, impl: impl, dl: dl, root: rootCtx, results: map[int]*outcome{}, used: map[int]bool{}, stop: make(chan struct{})}
		if impl == "v1" {
			x.db = aggsigdb.NewMemDB(dl)
		} else {
			x.db = aggsigdb.NewMemDBV2(dl)
		}
		go x.db.Run(rootCtx)
		synctest.Wait()

		for _, op := range script {
			if len(x.anomaly) > 0 {
				break
			}
			switch op.Op {
			case "await":
				x.opAwait(Read{R: op.R, D: op.D, PK: op.PK, Sub: op.Sub})
			case "store":
				x.opStore(op.D, op.Es, nil, 0)
			case "par":
				x.opStore(op.D, op.Es, op.Rs, op.Pos)
			case "cread":
				x.opCread(Read{R: op.R, D: op.D, PK: op.PK, Sub: op.Sub, K: op.K})
			case "astore":
				x.opAStore(op)
			case "probe":
				x.opStore(op.D, []Entry{{PK: op.PK, V: op.V}}, []Read{{R: op.R, D: op.D, PK: op.PK, Sub: subOf(op.D, op.V)}}, 0)
			case "cancel":
				x.opCancel(op.R)
			case "expire":
				x.opExpire(op.D)
			}
		}
		labels, anomaly, maxBlocked = x.labels, strings.Join(x.anomaly, "; "), x.maxBlk
		close(x.stop)
		cancelRoot()
		synctest.Wait()
	})

	return labels, anomaly, maxBlocked
}

// ---------------------------------------------------------------------------------------------
// generation

type gkey struct{ d, pk, sub int }

// gen mirrors (for generation only, never for checking) what should be stored and who waits.
type gen struct {
	r       *rand.Rand
	ops     []Op
	present map[gkey]int
	blocked map[int]gkey
	nextR   int
	duties  []int
	pks     int
	vals    int
	nProbe  int
}

func newGen(r *rand.Rand) *gen {
	g := &gen{r: r, present: map[gkey]int{}, blocked: map[int]gkey{}, nextR: 1}
	nd := 1 + r.Intn(3)
	seen := map[int]bool{}
	for len(g.duties) < nd {
		d := (10+r.Intn(2))*4 + r.Intn(4)
		if !seen[d] {
			seen[d] = true
			g.duties = append(g.duties, d)
		}
	}
	g.pks = 1 + r.Intn(3)
	g.vals = 2 + r.Intn(3)
	return g
}

func (g *gen) duty() int { return g.duties[g.r.Intn(len(g.duties))] }

func (g *gen) read(d int) Read {
	rd := Read{R: g.nextR, D: d, PK: 1 + g.r.Intn(g.pks)}
	g.nextR++
	if core.IsSyncSubcommitteeDuty(types[d%4]) {
		rd.Sub = g.r.Intn(2)
	} else if g.r.Intn(12) == 0 {
		rd.Sub = 1 // never stored for other duty types
	}
	return rd
}

func (g *gen) noteRead(rd Read) {
	k := gkey{rd.D, rd.PK, rd.Sub}
	if _, ok := g.present[k]; !ok {
		g.blocked[rd.R] = k
	}
}

func (g *gen) await(d int) {
	rd := g.read(d)
	g.ops = append(g.ops, Op{Op: "await", R: rd.R, D: rd.D, PK: rd.PK, Sub: rd.Sub})
	g.noteRead(rd)
}

func (g *gen) entries(d, n int, conflictBias bool) []Entry {
	perm := g.r.Perm(g.pks)
	if n > len(perm) {
		n = len(perm)
	}
	var es []Entry
	for _, p := range perm[:n] {
		pk := p + 1
		v := 1 + g.r.Intn(g.vals)
		if conflictBias {
			for sub := 0; sub < 2; sub++ {
				if old, ok := g.present[gkey{d, pk, sub}]; ok && g.r.Intn(2) == 0 {
					v = old%g.vals + 1 // other data under a present key
					if subOf(d, v) != sub {
						v = old + 2
					}
				}
			}
		}
		es = append(es, Entry{PK: pk, V: v})
	}
	return es
}

func (g *gen) noteStore(d int, es []Entry) {
	// pessimistic mirror: only record when no entry conflicts (else which ones are stored depends on map order)
	for _, e := range es {
		k := gkey{d, e.PK, subOf(d, e.V)}
		if old, ok := g.present[k]; ok && old != e.V {
			return
		}
	}
	for _, e := range es {
		k := gkey{d, e.PK, subOf(d, e.V)}
		if _, ok := g.present[k]; !ok {
			g.present[k] = e.V
		}
		for r, bk := range g.blocked {
			if bk == k {
				delete(g.blocked, r)
			}
		}
	}
}

func (g *gen) store(d int, es []Entry) {
	g.ops = append(g.ops, Op{Op: "store", D: d, Es: es})
	g.noteStore(d, es)
}

func (g *gen) par(d int, es []Entry, n int) {
	var rs []Read
	for i := 0; i < n; i++ {
		rs = append(rs, g.read(d))
	}
	g.ops = append(g.ops, Op{Op: "par", D: d, Es: es, Rs: rs, Pos: g.r.Intn(n + 1)})
	g.noteStore(d, es)
	for _, rd := range rs {
		g.noteRead(rd)
	}
}

// cread: a read that cancels itself at its k-th Done()/Err() call, preferably of a present key.
func (g *gen) cread(d, k int, present bool) {
	rd := g.read(d)
	if present {
		var ks []gkey
		for pk := 1; pk <= 63; pk++ {
			for sub := 0; sub < 2; sub++ {
				if _, ok := g.present[gkey{d, pk, sub}]; ok {
					ks = append(ks, gkey{d, pk, sub})
				}
			}
		}
		if len(ks) > 0 {
			c := ks[g.r.Intn(len(ks))]
			rd.PK, rd.Sub = c.pk, c.sub
		}
	}
	rd.K = k
	g.ops = append(g.ops, Op{Op: "cread", R: rd.R, D: rd.D, PK: rd.PK, Sub: rd.Sub, K: k})
	g.noteRead(rd)
}

// astore: an abandoned store of the same value / other data under a present key, or of a new key.
func (g *gen) astore(d int) {
	modes := []string{"during", "during", "k", "k", "before"}
	op := Op{Op: "astore", D: d, PK: 1 + g.r.Intn(g.pks), V: 1 + g.r.Intn(g.vals), Mode: modes[g.r.Intn(len(modes))], K: 1 + g.r.Intn(3)}
	var ks []gkey
	for k := range g.present {
		if k.d == d {
			ks = append(ks, k)
		}
	}
	sort.Slice(ks, func(i, j int) bool { return ks[i].pk*2+ks[i].sub < ks[j].pk*2+ks[j].sub })
	if len(ks) > 0 && g.r.Intn(4) > 0 {
		c := ks[g.r.Intn(len(ks))]
		op.PK, op.V = c.pk, g.present[c]
		if g.r.Intn(3) > 0 { // other data under the same key
			op.V = g.present[c] + 2
			if op.V > maxV {
				op.V = g.present[c] - 2
			}
		}
	}
	g.ops = append(g.ops, op)
	// the mirror does not know whether it took effect: treat the key as unknown from now on
	k := gkey{d, op.PK, subOf(d, op.V)}
	if _, ok := g.present[k]; !ok {
		for r, bk := range g.blocked {
			if bk == k {
				delete(g.blocked, r)
			}
		}
	}
}

// probe: a fresh key is stored and read at the same time; both must complete.
func (g *gen) probe(d int) {
	g.nProbe++
	v := 1 + g.r.Intn(g.vals)
	op := Op{Op: "probe", R: g.nextR, D: d, PK: 8 + g.nProbe, V: v}
	g.nextR++
	g.ops = append(g.ops, op)
	g.present[gkey{d, op.PK, subOf(d, v)}] = v
}

func (g *gen) cancel() {
	var ids []int
	for r := range g.blocked {
		ids = append(ids, r)
	}
	if len(ids) == 0 {
		return
	}
	sort.Ints(ids)
	id := ids[g.r.Intn(len(ids))]
	delete(g.blocked, id)
	g.ops = append(g.ops, Op{Op: "cancel", R: id})
}

func (g *gen) expire(d int) {
	g.ops = append(g.ops, Op{Op: "expire", D: d})
	for k := range g.present {
		if k.d == d {
			delete(g.present, k)
		}
	}
}

func genScript(r *rand.Rand, kind string) []Op {
	g := newGen(r)
	switch kind {
	case "random":
		n := 6 + r.Intn(28)
		maxOpen := 1 + r.Intn(8)
		for i := 0; i < n; i++ {
			d := g.duty()
			switch x := r.Intn(100); {
			case x < 34:
				if len(g.blocked) < maxOpen {
					g.await(d)
				} else {
					g.store(d, g.entries(d, 1, false))
				}
			case x < 52:
				g.store(d, g.entries(d, 1, r.Intn(3) == 0))
			case x < 66:
				g.store(d, g.entries(d, 2+r.Intn(2), r.Intn(2) == 0))
			case x < 72:
				g.cancel()
			case x < 74:
				g.astore(d)
			case x < 76:
				g.cread(d, []int{-1, 1, 2, 3, 4}[r.Intn(5)], r.Intn(3) > 0)
				if r.Intn(3) == 0 {
					g.probe(d)
				}
			case x < 84:
				g.expire(d)
			default:
				g.par(d, g.entries(d, 1+r.Intn(2), r.Intn(4) == 0), 1+r.Intn(4))
			}
		}
	case "waiters": // 2..8 readers blocked on at most two keys of one duty, then stores in some order
		d := g.duty()
		k := 2 + r.Intn(7)
		g.pks = 1 + r.Intn(2)
		for i := 0; i < k; i++ {
			g.await(d)
		}
		if r.Intn(3) == 0 {
			g.cancel()
		}
		for i := 0; i < 2+r.Intn(3); i++ {
			g.store(d, g.entries(d, 1, i > 0))
			if r.Intn(4) == 0 {
				g.await(d)
			}
		}
		g.store(d, g.entries(d, g.pks, true))
	case "partial": // a multi-entry Store one of whose entries conflicts, with readers waiting for the others
		d := g.duty()
		g.pks = 2 + r.Intn(2)
		first := g.entries(d, 1, false)
		g.store(d, first)
		for i := 0; i < 2+r.Intn(5); i++ {
			g.await(d)
		}
		es := g.entries(d, g.pks, false)
		for i := range es {
			if es[i].PK == first[0].PK {
				es[i].V = first[0].V + 2 // same subcommittee, other data
			}
		}
		has := false
		for _, e := range es {
			has = has || e.PK == first[0].PK
		}
		if !has {
			es = append(es, Entry{PK: first[0].PK, V: first[0].V + 2})
		}
		if r.Intn(3) == 0 {
			g.par(d, es, 1+r.Intn(3))
		} else {
			g.store(d, es)
		}
		g.await(d)
		g.store(d, g.entries(d, g.pks, false))
	case "expiry": // store, read, expire, readers wait again, other data is accepted after the expiry
		d := g.duty()
		es := g.entries(d, g.pks, false)
		g.store(d, es)
		g.await(d)
		g.expire(d)
		for i := 0; i < 2+r.Intn(4); i++ {
			g.await(d)
		}
		if r.Intn(2) == 0 {
			g.expire(g.duty())
		}
		var es2 []Entry
		for _, e := range es {
			es2 = append(es2, Entry{PK: e.PK, V: e.V%g.vals + 1})
		}
		g.store(d, es2)
		g.store(d, es)
		g.await(d)
	case "cancelrace": // reads of present keys racing with their own cancellation, then independent probes
		d := g.duty()
		g.pks = 1 + r.Intn(2)
		g.store(d, g.entries(d, g.pks, false))
		if r.Intn(2) == 0 {
			g.await(g.duty()) // possibly a plain reader blocked on another key
		}
		ks := []int{2, 2, 2, 1, 3, 4}
		n := 10 + r.Intn(30)
		for i := 0; i < n; i++ {
			g.cread(d, ks[r.Intn(len(ks))], r.Intn(6) > 0)
			if r.Intn(10) == 0 {
				g.store(d, g.entries(d, 1, r.Intn(2) == 0))
			}
		}
		g.probe(d)
		g.await(d)
		g.store(d, g.entries(d, g.pks, true))
		g.probe(g.duty())
	case "abandon": // abandoned stores and reads, then liveness: present keys readable, new keys storable, waiters woken
		d := g.duty()
		g.pks = 2 + r.Intn(2)
		g.store(d, g.entries(d, 1+r.Intn(2), false))
		for i := 0; i < 1+r.Intn(3); i++ {
			g.await(d)
		}
		n := 3 + r.Intn(8)
		for i := 0; i < n; i++ {
			switch r.Intn(5) {
			case 0:
				g.cread(d, []int{-1, -1, 1, 2, 3}[r.Intn(5)], r.Intn(2) == 0)
			default:
				g.astore(d)
			}
			if r.Intn(4) == 0 {
				g.await(d)
			}
		}
		g.await(d)
		g.probe(d)
		g.store(d, g.entries(d, g.pks, false)) // wakes whoever still waits for these keys
		g.store(d, g.entries(d, g.pks, true))
	case "par": // many concurrent readers racing with stores
		d := g.duty()
		g.pks = 1 + r.Intn(2)
		for i := 0; i < r.Intn(3); i++ {
			g.await(d)
		}
		for i := 0; i < 2+r.Intn(3); i++ {
			g.par(d, g.entries(d, 1+r.Intn(2), i > 0 && r.Intn(3) == 0), 2+r.Intn(6))
		}
	}
	return g.ops
}

func corpus() [][]Op {
	var wedge []Op // seeded C17-r2m2: reads of a stored key cancelled right after submission, then probes
	wedge = append(wedge, Op{Op: "store", D: 40, Es: []Entry{{PK: 1, V: 1}}})
	for i := 0; i < 24; i++ {
		wedge = append(wedge, Op{Op: "cread", R: 1 + i, D: 40, PK: 1, K: 1 + (i+1)%2*1 + i%8/7*2})
	}
	wedge = append(wedge, Op{Op: "await", R: 100, D: 40, PK: 1}, Op{Op: "probe", R: 101, D: 40, PK: 9, V: 2})
	// seeded C17-r6m2: a conflicting re-store abandoned while the actor compares the data
	abandon := []Op{{Op: "store", D: 40, Es: []Entry{{PK: 1, V: 1}}}, {Op: "await", R: 1, D: 40, PK: 2},
		{Op: "astore", D: 40, PK: 1, V: 3, Mode: "during"}, {Op: "astore", D: 40, PK: 1, V: 3, Mode: "k", K: 2},
		{Op: "astore", D: 40, PK: 1, V: 1, Mode: "during"}, {Op: "astore", D: 40, PK: 3, V: 1, Mode: "k", K: 2}, {Op: "astore", D: 40, PK: 1, V: 3, Mode: "before"},
		{Op: "await", R: 2, D: 40, PK: 1}, {Op: "probe", R: 3, D: 40, PK: 9, V: 2}, {Op: "store", D: 40, Es: []Entry{{PK: 2, V: 1}}}}
	return [][]Op{
		wedge,
		abandon,
		// F3: two readers wait for one key, one store (v2 before 8db1efa wakes only one)
		{{Op: "await", R: 1, D: 41, PK: 1}, {Op: "await", R: 2, D: 41, PK: 1}, {Op: "store", D: 41, Es: []Entry{{PK: 1, V: 1}}}},
		// F3: three readers over two keys; the token could go to the reader of the other key
		{{Op: "await", R: 1, D: 41, PK: 1}, {Op: "await", R: 2, D: 41, PK: 2}, {Op: "await", R: 3, D: 41, PK: 1},
			{Op: "store", D: 41, Es: []Entry{{PK: 1, V: 2}}}, {Op: "store", D: 41, Es: []Entry{{PK: 2, V: 1}}}},
		// partial failure with a waiter for the entry that is stored
		{{Op: "store", D: 41, Es: []Entry{{PK: 2, V: 1}}}, {Op: "await", R: 1, D: 41, PK: 1}, {Op: "await", R: 2, D: 41, PK: 3},
			{Op: "store", D: 41, Es: []Entry{{PK: 1, V: 3}, {PK: 2, V: 2}, {PK: 3, V: 1}}}},
		// conflicting re-store, expiry, re-store of other data
		{{Op: "store", D: 42, Es: []Entry{{PK: 1, V: 1}}}, {Op: "store", D: 42, Es: []Entry{{PK: 1, V: 2}}}, {Op: "await", R: 1, D: 42, PK: 1},
			{Op: "expire", D: 42}, {Op: "await", R: 2, D: 42, PK: 1}, {Op: "await", R: 3, D: 42, PK: 1}, {Op: "store", D: 42, Es: []Entry{{PK: 1, V: 2}}}},
		// cancellation of one of two waiters, sync-aggregator duty keyed by subcommittee
		{{Op: "await", R: 1, D: 43, PK: 1, Sub: 1}, {Op: "await", R: 2, D: 43, PK: 1, Sub: 0}, {Op: "await", R: 3, D: 43, PK: 1, Sub: 1}, {Op: "cancel", R: 1},
			{Op: "store", D: 43, Es: []Entry{{PK: 1, V: 1}}}, {Op: "store", D: 43, Es: []Entry{{PK: 1, V: 2}}}, {Op: "store", D: 43, Es: []Entry{{PK: 1, V: 3}}}},
	}
}

func TestGen(t *testing.T) {
	var replay struct {
		Script []Op   `json:"script"`
		Impl   string `json:"impl"`
	}
	if ok, err := hx.ReadReplay(&replay); ok {
		if err != nil {
			t.Fatal(err)
		}
		var hs []History
		for i, impl := range []string{"v1", "v2"} {
			if replay.Impl != "" && replay.Impl != impl {
				continue
			}
			h := History{ID: i, Kind: "replay", Impl: impl, Script: replay.Script}
			h.Labels, h.Anomaly, h.MaxBlocked = runScript(t, impl, h.Script)
			h.NonTrivial = h.MaxBlocked >= 2
			hs = append(hs, h)
		}
		if err := hx.WriteJSON("c17_traces.json", hs); err != nil {
			t.Fatal(err)
		}
		return
	}

	r := hx.Rand()
	n := hx.IntEnv("VERIF_N", 300)
	type sc struct {
		kind   string
		script []Op
	}
	var scripts []sc
	for _, c := range corpus() {
		scripts = append(scripts, sc{"corpus", c})
	}
	for len(scripts) < n {
		kind := "random"
		switch x := r.Intn(20); {
		case x < 3:
			kind = "waiters"
		case x < 6:
			kind = "partial"
		case x < 8:
			kind = "expiry"
		case x < 11:
			kind = "par"
		case x < 13:
			kind = "cancelrace"
		case x < 15:
			kind = "abandon"
		}
		scripts = append(scripts, sc{kind, genScript(r, kind)})
	}
	var hs []History
	for _, s := range scripts {
		for _, impl := range []string{"v1", "v2"} {
			h := History{ID: len(hs), Kind: s.kind, Impl: impl, Script: s.script}
			h.Labels, h.Anomaly, h.MaxBlocked = runScript(t, impl, s.script)
			h.NonTrivial = h.MaxBlocked >= 2
			hs = append(hs, h)
		}
	}
	if err := hx.WriteJSON("c17_traces.json", hs); err != nil {
		t.Fatal(err)
	}
}
