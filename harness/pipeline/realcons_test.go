// Second simulation mode of harness/pipeline ("real", "real-staleprep"): every honest node ALSO runs
// the REAL consensus component core/consensus/qbft (NewConsensus + Start, the default timers of the
// feature set, i.e. the eager double-linear round timer) wired through core.Wire in place of the
// consensus stub.  The fetcher stub proposes a DIFFERENT candidate per node (another head root), so
// the decided value, the DutyDB content, the partial signatures, the threshold trigger, the
// aggregate and the broadcast all come from real components.  The transport between the consensus
// instances is an in-memory fake of the libp2p host (only ID / SetStreamHandlerMatch / NewStream
// are implemented): the bytes p2p.Send writes to a stream are handed to the harness, which delivers
// them to the addressee's registered stream handler later, twice, or never.  Time is real (the
// beacon mock used here has 1 s slots and its genesis at the start of the test, the duty is the
// next one whose start is ahead of now), so a run takes a few seconds and only positive
// observations are evidence; runs are not bit-for-bit replayable.
package pipeline

import (
	"bytes"
	"context"
	"crypto/sha256"
	"encoding/binary"
	"encoding/hex"
	"fmt"
	"io"
	"sort"
	"sync"
	"time"

	eth2api "github.com/attestantio/go-eth2-client/api"
	eth2p0 "github.com/attestantio/go-eth2-client/spec/phase0"
	k1 "github.com/decred/dcrd/dcrec/secp256k1/v4"
	"github.com/libp2p/go-libp2p/core/host"
	"github.com/libp2p/go-libp2p/core/network"
	"github.com/libp2p/go-libp2p/core/peer"
	"github.com/libp2p/go-libp2p/core/protocol"
	"google.golang.org/protobuf/proto"

	"github.com/obolnetwork/charon/core"
	cqbft "github.com/obolnetwork/charon/core/consensus/qbft"
	pbv1 "github.com/obolnetwork/charon/core/corepb/v1"
	"github.com/obolnetwork/charon/p2p"
)

type decideEv struct {
	node int
	duty core.Duty
	set  core.UnsignedDataSet
	err  error
}

func (s *sim) onDecide(nd *node, d core.Duty, set core.UnsignedDataSet, err error) {
	s.evMu.Lock()
	defer s.evMu.Unlock()
	s.decEv = append(s.decEv, decideEv{node: nd.idx, duty: d, set: set, err: err})
}

// ------------------------------------------------------------------------------------------------
// in-memory libp2p fake

type wireMsg struct {
	from, to int
	proto    protocol.ID
	data     []byte
	typ      int64
	round    int64
	vh       string
	seq      int
}

func (m *wireMsg) String() string {
	names := []string{"?", "PRE-PREPARE", "PREPARE", "COMMIT", "ROUND-CHANGE", "DECIDED"}
	t := "?"
	if m.typ >= 0 && int(m.typ) < len(names) {
		t = names[m.typ]
	}
	vh := m.vh
	if len(vh) > 8 {
		vh = vh[:8]
	}

	return fmt.Sprintf("%s(r%d,%s) %d->%d", t, m.round, vh, m.from, m.to)
}

type fakeNet struct {
	s      *sim
	mu     sync.Mutex
	hosts  []*fakeHost
	ids    map[peer.ID]int
	closed bool
	seq    map[string]int
	policy func(m *wireMsg) []time.Duration // delays of the deliveries of m (nil = never)
	sent   int
	dlvd   int
}

func newFakeNet(s *sim, n int) *fakeNet {
	fn := &fakeNet{s: s, ids: map[peer.ID]int{}, seq: map[string]int{}}
	for i := 0; i < n; i++ {
		seed := sha256.Sum256([]byte(fmt.Sprintf("verif-c01-k1-%d-%d", n, i)))
		key := k1.PrivKeyFromBytes(seed[:])
		id, err := p2p.PeerIDFromKey(key.PubKey())
		if err != nil {
			panic(err)
		}
		fn.hosts = append(fn.hosts, &fakeHost{net: fn, idx: i, id: id, key: key})
		fn.ids[id] = i
	}

	return fn
}

func (fn *fakeNet) peers() []p2p.Peer {
	var ps []p2p.Peer
	for i, h := range fn.hosts {
		ps = append(ps, p2p.Peer{ID: h.id, Index: i, Name: fmt.Sprintf("node%d", i)})
	}

	return ps
}

type fakeHost struct {
	host.Host // nil: every method the components do not need panics loudly
	net       *fakeNet
	idx       int
	id        peer.ID
	key       *k1.PrivateKey
	mu        sync.Mutex
	handler   network.StreamHandler
	down      bool
}

func (h *fakeHost) ID() peer.ID { return h.id }
func (h *fakeHost) SetStreamHandlerMatch(_ protocol.ID, _ func(protocol.ID) bool, fn network.StreamHandler) {
	h.mu.Lock()
	defer h.mu.Unlock()
	h.handler = fn
}
func (h *fakeHost) SetStreamHandler(_ protocol.ID, fn network.StreamHandler) {
	h.SetStreamHandlerMatch("", nil, fn)
}
func (h *fakeHost) NewStream(_ context.Context, p peer.ID, pids ...protocol.ID) (network.Stream, error) {
	to, ok := h.net.ids[p]
	h.mu.Lock()
	down := h.down
	h.mu.Unlock()
	if !ok || down || len(pids) == 0 {
		return nil, fmt.Errorf("fake host: no route")
	}

	return &fakeStream{net: h.net, from: h.idx, to: to, proto: pids[0], remote: p}, nil
}

type fakeConn struct {
	network.Conn
	remote peer.ID
}

func (c fakeConn) RemotePeer() peer.ID { return c.remote }

// fakeStream is a write-only stream on the sending side (submitted to the network on Close) and a
// read-only one on the receiving side.
type fakeStream struct {
	net    *fakeNet
	from   int
	to     int
	proto  protocol.ID
	remote peer.ID
	wbuf   bytes.Buffer
	rbuf   *bytes.Reader
	once   sync.Once
}

func (s *fakeStream) Read(p []byte) (int, error) {
	if s.rbuf == nil {
		return 0, io.EOF
	}

	return s.rbuf.Read(p)
}
func (s *fakeStream) Write(p []byte) (int, error) { return s.wbuf.Write(p) }
func (s *fakeStream) Close() error {
	if s.rbuf == nil {
		s.once.Do(func() { s.net.submit(s.from, s.to, s.proto, append([]byte(nil), s.wbuf.Bytes()...)) })
	}

	return nil
}
func (s *fakeStream) CloseWrite() error                          { return s.Close() }
func (*fakeStream) CloseRead() error                             { return nil }
func (*fakeStream) Reset() error                                 { return nil }
func (*fakeStream) ResetWithError(network.StreamErrorCode) error { return nil }
func (*fakeStream) SetDeadline(time.Time) error                  { return nil }
func (*fakeStream) SetReadDeadline(time.Time) error              { return nil }
func (*fakeStream) SetWriteDeadline(time.Time) error             { return nil }
func (*fakeStream) ID() string                                   { return "fake" }
func (s *fakeStream) Protocol() protocol.ID                      { return s.proto }
func (s *fakeStream) SetProtocol(id protocol.ID) error           { s.proto = id; return nil }
func (*fakeStream) Stat() network.Stats                          { return network.Stats{} }
func (s *fakeStream) Conn() network.Conn                         { return fakeConn{remote: s.remote} }
func (*fakeStream) Scope() network.StreamScope                   { return nil }

func (fn *fakeNet) submit(from, to int, pid protocol.ID, data []byte) {
	if len(data) == 0 {
		return
	}
	m := &wireMsg{from: from, to: to, proto: pid, data: data, typ: -1}
	if l, k := binary.Uvarint(data); k > 0 && int(l) == len(data)-k {
		var pb pbv1.QBFTConsensusMsg
		if proto.Unmarshal(data[k:], &pb) == nil && pb.GetMsg() != nil {
			m.typ, m.round, m.vh = pb.GetMsg().GetType(), pb.GetMsg().GetRound(), hex.EncodeToString(pb.GetMsg().GetValueHash())
		}
	}
	fn.mu.Lock()
	if fn.closed {
		fn.mu.Unlock()
		return
	}
	fn.sent++
	k := fmt.Sprintf("%d/%d/%d/%d/%s", from, to, m.typ, m.round, m.vh)
	fn.seq[k]++
	m.seq = fn.seq[k]
	delays := fn.policy(m)
	fn.mu.Unlock()
	for _, d := range delays {
		fn.deliverAfter(m, d)
	}
}

func (fn *fakeNet) deliverAfter(m *wireMsg, d time.Duration) {
	fn.s.wg.Add(1)
	time.AfterFunc(d, func() {
		defer fn.s.wg.Done()
		fn.mu.Lock()
		closed := fn.closed
		fn.mu.Unlock()
		h := fn.hosts[m.to]
		h.mu.Lock()
		handler, down := h.handler, h.down
		h.mu.Unlock()
		if closed || down || handler == nil {
			return
		}
		fn.mu.Lock()
		fn.dlvd++
		fn.mu.Unlock()
		handler(&fakeStream{net: fn, from: m.from, to: m.to, proto: m.proto, remote: fn.hosts[m.from].id, rbuf: bytes.NewReader(m.data)})
	})
}

// hrand is a pseudo-random number in [0,1) that depends only on the scenario seed and the identity of
// the message (not on goroutine scheduling).
func hrand(seed int64, m *wireMsg, salt string) float64 {
	h := sha256.Sum256([]byte(fmt.Sprintf("%d|%d|%d|%d|%d|%s|%d|%s", seed, m.from, m.to, m.typ, m.round, m.vh, m.seq, salt)))

	return float64(binary.BigEndian.Uint32(h[:4])) / float64(1<<32)
}

// randomPolicy: most messages arrive within 40 ms; some are delayed by 0.3 .. 1.5 s (past a round
// timeout), some duplicated, a few lost.
func (fn *fakeNet) randomPolicy(seed int64) func(*wireMsg) []time.Duration {
	return func(m *wireMsg) []time.Duration {
		x := hrand(seed, m, "kind")
		base := time.Duration(hrand(seed, m, "d") * float64(40*time.Millisecond))
		switch {
		case x < 0.03:
			fn.s.stat("cons_lost")
			return nil
		case x < 0.18:
			fn.s.stat("cons_delayed")
			return []time.Duration{300*time.Millisecond + time.Duration(hrand(seed, m, "l")*float64(1200*time.Millisecond))}
		case x < 0.25:
			fn.s.stat("cons_duplicated")
			return []time.Duration{base, base + time.Duration(hrand(seed, m, "u")*float64(500*time.Millisecond))}
		default:
			return []time.Duration{base}
		}
	}
}

// stalePolicy is an adversarial but admissible schedule (benign asynchrony, no faulty process): all
// PREPAREs of round 1 are delayed until the cluster has moved on and a quorum has sent PREPAREs for
// another value in a later round; then the old PREPAREs arrive everywhere.  COMMITs for the round-1
// value reach only node x, COMMITs for other values and DECIDED messages reach only the others / are
// lost.  A correct QBFT ignores the stale PREPAREs, so nobody ever commits the round-1 value.
func (fn *fakeNet) stalePolicy(x int) func(*wireMsg) []time.Duration {
	var (
		hashA    string
		held     []*wireMsg
		released bool
		prepB    = map[int64]map[int]bool{}
	)
	now := []time.Duration{0}

	return func(m *wireMsg) []time.Duration {
		switch m.typ {
		case 1: // PRE-PREPARE
			if m.round == 1 && hashA == "" {
				hashA = m.vh
			}

			return now
		case 2: // PREPARE
			if m.round == 1 && !released {
				held = append(held, m)
				fn.s.stat("cons_held")

				return nil
			}
			if m.round >= 2 && m.vh != hashA && !released {
				if prepB[m.round] == nil {
					prepB[m.round] = map[int]bool{}
				}
				prepB[m.round][m.from] = true
				if len(prepB[m.round]) >= 3 {
					released = true
					for _, h := range held {
						fn.deliverAfter(h, 0)
					}
					fn.s.stat("cons_stale_prepares_released")
				}
			}

			return now
		case 3: // COMMIT
			if m.round >= 2 && m.vh == hashA {
				fn.s.stat("cons_commit_for_stale_value")
				if m.to == x {
					return now
				}

				return nil
			}
			if m.round >= 2 && m.to == x {
				return nil
			}

			return now
		case 5: // DECIDED
			return nil
		default:
			return now
		}
	}
}

// ------------------------------------------------------------------------------------------------

func (s *sim) buildRealConsensus(nd *node, dl core.Deadliner) {
	h := s.net.hosts[nd.idx]
	nd.host = h
	c, err := cqbft.NewConsensus(nd.ctx, s.bm, h, new(p2p.Sender), s.net.peers(), h.key, dl,
		func(core.Duty) bool { return true }, func(*pbv1.SniffedConsensusInstance) {}, false)
	if err != nil {
		panic(err)
	}
	nd.rcons = c
	c.Start(nd.ctx)
}

// triggerReal is the scheduler announcing the duty on nd: like app.go's async wiring, every
// subscriber (Fetcher.Fetch -> Consensus.Propose, and Consensus.Participate) runs on its own goroutine.
func (s *sim) triggerReal(nd *node, d core.Duty, fetchDelay time.Duration) {
	defs := core.DutyDefinitionSet{}
	for _, v := range s.vals {
		ad := s.attDuty(v, d.Slot)
		defs[v.pubkey] = core.NewAttesterDefinition(&ad)
	}
	nd.sched.defs[d] = defs
	inner := nd.fetch.candidate
	nd.fetch.candidate = func(d core.Duty, ds core.DutyDefinitionSet) core.UnsignedDataSet {
		select { // the beacon node takes a while
		case <-time.After(fetchDelay):
		case <-nd.ctx.Done():
		}

		return inner(d, ds)
	}
	for _, sub := range nd.sched.dutySubs {
		s.wg.Add(1)
		go func() {
			defer s.wg.Done()
			_ = sub(nd.ctx, d, defs)
		}()
	}
}

// runConsensusPhase runs the real consensus for the attester duty on all honest nodes and returns the
// index of the decided candidate (-1 if nothing was decided).
func (s *sim) runConsensusPhase(honest []*node, att core.Duty, crashBudget int, stale bool) int {
	r := s.r
	seed := s.res.Seed
	if stale {
		s.net.policy = s.net.stalePolicy(honest[0].idx)
	} else {
		s.net.policy = s.net.randomPolicy(seed)
	}
	dutyStart := s.w.t0.Add(time.Duration(att.Slot)*time.Second + time.Second/3)

	// faults at the consensus level: crashes (<= the part of f not used by Byzantine nodes), late starts
	type plan struct {
		start, fetch time.Duration
		never        bool
		crashAt      time.Duration
	}
	plans := map[int]*plan{}
	for _, nd := range honest {
		p := &plan{fetch: time.Duration(r.Intn(150)) * time.Millisecond}
		if !stale && r.Intn(4) == 0 {
			p.start = time.Duration(r.Intn(900)) * time.Millisecond // late start
			s.stat("cons_late_start")
		}
		plans[nd.idx] = p
	}
	if !stale {
		for _, i := range r.Perm(len(honest)) {
			if crashBudget == 0 {
				break
			}
			if r.Intn(2) == 0 {
				continue
			}
			crashBudget--
			p := plans[honest[i].idx]
			if r.Intn(2) == 0 {
				p.never = true
			} else {
				p.crashAt = time.Duration(100+r.Intn(1200)) * time.Millisecond
			}
			honest[i].crashed = true
			s.stat("cons_crashed")
		}
	}
	if d := time.Until(dutyStart) - 20*time.Millisecond; d > 0 {
		time.Sleep(d)
	}
	for _, nd := range honest {
		p := plans[nd.idx]
		if p.never {
			nd.host.mu.Lock()
			nd.host.down = true
			nd.host.mu.Unlock()
			s.logf("consensus: node %d never starts", nd.idx)

			continue
		}
		ndc := nd
		s.wg.Add(1)
		time.AfterFunc(p.start, func() {
			defer s.wg.Done()
			s.triggerReal(ndc, att, p.fetch)
		})
		if p.crashAt > 0 {
			s.wg.Add(1)
			time.AfterFunc(p.crashAt, func() {
				defer s.wg.Done()
				ndc.host.mu.Lock()
				ndc.host.down = true
				ndc.host.mu.Unlock()
				ndc.cancel()
			})
			s.logf("consensus: node %d crashes %v after the duty start", nd.idx, p.crashAt)
		}
	}

	// wait until every node that keeps running has decided, or give up
	limit := 9 * time.Second * waitScale
	if stale {
		limit = 7 * time.Second * waitScale
	}
	deadline := time.Now().Add(limit)
	var othersAt time.Time
	for time.Now().Before(deadline) {
		time.Sleep(25 * time.Millisecond)
		s.evMu.Lock()
		got := map[int]bool{}
		for _, e := range s.decEv {
			got[e.node] = true
		}
		s.evMu.Unlock()
		all, others := true, true
		for i, nd := range honest {
			if !nd.crashed && !got[nd.idx] {
				all = false
				if i != 0 {
					others = false
				}
			}
		}
		if all {
			break
		}
		// stale-PREPARE schedule: node x (honest[0]) is cut off from the others' COMMITs and normally never
		// decides; once the others have, give it one more second and stop waiting
		if stale && others {
			if othersAt.IsZero() {
				othersAt = time.Now()
			} else if time.Since(othersAt) > time.Second*waitScale {
				break
			}
		}
	}
	time.Sleep(50 * time.Millisecond * waitScale)
	s.net.mu.Lock()
	s.net.closed = true
	s.res.Stats["cons_msgs_sent"] = s.net.sent
	s.res.Stats["cons_msgs_delivered"] = s.net.dlvd
	s.net.mu.Unlock()
	for _, nd := range honest {
		nd.cancel()
	}
	time.Sleep(50 * time.Millisecond)
	done := make(chan struct{})
	go func() { s.wg.Wait(); close(done) }()
	select {
	case <-done:
	case <-time.After(5 * time.Second * waitScale):
		s.logf("consensus: goroutines still running after the phase")
	}

	// labels and monitors from the REAL decisions (Consensus.Subscribe -> DutyDB.Store through core.Wire)
	s.evMu.Lock()
	evs := append([]decideEv(nil), s.decEv...)
	s.evMu.Unlock()
	candRoots := map[eth2p0.Root]int{}
	for _, nd := range honest {
		candRoots[attData(att.Slot, s.spe, nd.cand).BeaconBlockRoot] = nd.cand
	}
	decidedCand := -1
	for _, e := range evs {
		ok := "true"
		if e.err != nil {
			ok = "false"
		}
		for _, pk := range sortedKeys(e.set) {
			ad, isAtt := e.set[pk].(core.AttestationData)
			if !isAtt {
				s.hit("decided-not-proposed", "node %d: decided value for %v is not attestation data", e.node, e.duty)
				continue
			}
			root, err := ad.Data.HashTreeRoot()
			if err != nil {
				panic(err)
			}
			s.label(fmt.Sprintf("LDecide %d %d %d %s", e.node, s.keyID(e.duty, pk), s.rootID(root), ok))
			c, known := candRoots[ad.Data.BeaconBlockRoot]
			if !known {
				s.hit("decided-not-proposed", "node %d decided head %x for %v, which no honest node proposed", e.node, ad.Data.BeaconBlockRoot[:8], e.duty)
			} else if decidedCand < 0 {
				decidedCand = c
			}
		}
		if e.err == nil {
			s.nodes[e.node].decided[e.duty] = true
		}
		s.logf("consensus: node %d decided %v (DutyDB.Store err=%v)", e.node, e.duty, e.err)
		s.stat("cons_decided")
	}

	// the C02 o C06 hypothesis of C01_honest_sign_same, observed: all honest DutyDBs answer alike
	for _, v := range s.vals {
		answers := map[string][]int{}
		for _, nd := range honest {
			if !nd.decided[att] {
				continue
			}
			ctx, cancel := context.WithTimeout(s.ctx, 2*time.Second*waitScale)
			resp, err := nd.vapi.AttestationData(ctx, &eth2api.AttestationDataOpts{Slot: eth2p0.Slot(att.Slot), CommitteeIndex: eth2p0.CommitteeIndex(v.valIdx)})
			cancel()
			if err != nil { // no answer in time: nothing observed (only two DIFFERENT answers are a finding)
				s.stat("dutydb_no_answer")
				continue
			}
			root, err := resp.Data.HashTreeRoot()
			if err != nil {
				panic(err)
			}
			k := hex.EncodeToString(root[:])
			answers[k] = append(answers[k], nd.idx)
		}
		if len(answers) > 1 {
			var parts []string
			for k, nds := range answers {
				parts = append(parts, fmt.Sprintf("nodes %v serve %s", nds, k[:16]))
			}
			sort.Strings(parts)
			s.hit("dutydb-divergence", "honest duty stores answer differently for %v validator %d after real consensus: %v", att, v.valIdx, parts)
		}
	}

	return decidedCand
}
