// E-SIM / correspondence harness for C01: a deterministic, seed-driven cluster of n = 3..7 nodes in
// one process.  Per honest node the REAL components dutydb.MemDB, validatorapi.Component (secure,
// real public shares), parsigdb.MemDB, sigagg.Aggregator (+ sigagg.NewVerifier), aggsigdb.MemDB /
// MemDBV2 are stitched with the REAL core.Wire (options core.WithTracing and core.WithTracking, as
// app.go passes them; WithAsyncRetry is left out to keep one goroutine per action).  Harness stubs:
// Scheduler / Fetcher / Consensus (the harness decides ONE candidate per duty and hands the same
// decided set to every node, at different times or never), ParSigEx (the harness is the network:
// delay, reorder, duplicate, drop; messages make the protobuf round trip of the real ParSigEx and
// pass parsigex.NewEth2Verifier like ParSigEx.handle does, unless a scenario bypasses it) and
// Broadcaster (captures what would go to the beacon node).  Validator clients are played by the
// harness through the real ValidatorAPI: AttestationData is served by the node's DutyDB, the
// attestation is signed with the node's real tbls key share and submitted with
// SubmitAttestations; sync committee messages are signed over a head root the client chooses and
// submitted with SubmitSyncCommitteeMessages.  Byzantine nodes (<= f) are scripted: partials made
// with their real shares over other roots, for other validators, replays, garbage.
//
// Monitor on the real outputs (AggSigDB.Store input, Broadcaster.Broadcast input, any node, any
// time): the object verifies under the validator's group public key (core.VerifyEth2SignedData
// and, independently, signing.GetDataRoot + tbls.Verify), and no two objects for the same duty
// and validator differ in signing root.  Every run is also rendered as a label sequence of the
// cluster model coq/Flow/Pipeline.v for the trace-inclusion check.
package pipeline

import (
	"context"
	"encoding/hex"
	"encoding/json"
	"fmt"
	"math/rand"
	"os"
	"runtime"
	"sort"
	"strings"
	"sync"
	"testing"
	"time"

	"github.com/OffchainLabs/go-bitfield"
	eth2api "github.com/attestantio/go-eth2-client/api"
	eth2v1 "github.com/attestantio/go-eth2-client/api/v1"
	eth2spec "github.com/attestantio/go-eth2-client/spec"
	"github.com/attestantio/go-eth2-client/spec/altair"
	"github.com/attestantio/go-eth2-client/spec/electra"
	eth2p0 "github.com/attestantio/go-eth2-client/spec/phase0"
	"github.com/libp2p/go-libp2p/core/protocol"

	"github.com/obolnetwork/charon/core"
	"github.com/obolnetwork/charon/core/aggsigdb"
	"github.com/obolnetwork/charon/core/bcast"
	cqbft "github.com/obolnetwork/charon/core/consensus/qbft"
	"github.com/obolnetwork/charon/core/dutydb"
	"github.com/obolnetwork/charon/core/parsigdb"
	"github.com/obolnetwork/charon/core/parsigex"
	"github.com/obolnetwork/charon/core/sigagg"
	"github.com/obolnetwork/charon/core/validatorapi"
	"github.com/obolnetwork/charon/eth2util/signing"
	"github.com/obolnetwork/charon/tbls"
	"github.com/obolnetwork/charon/tbls/tblsconv"
	"github.com/obolnetwork/charon/testutil/beaconmock"

	"verif/harness/hx"
)

const (
	maxVals  = 3
	minNodes = 3
	maxNodes = 7
	slotBase = 64 // duties live in slots slotBase, slotBase+1
)

// ------------------------------------------------------------------------------------------------
// keys and beacon mock (shared by all scenarios; read-only after setup)

type valKeys struct {
	valIdx  eth2p0.ValidatorIndex
	group   tbls.PublicKey
	pubkey  core.PubKey
	eth2pk  eth2p0.BLSPubKey
	shares  map[int]tbls.PrivateKey // 1-based share index
	pubshrs map[int]tbls.PublicKey
}

type world struct {
	bmock  beaconmock.Mock
	bmock2 beaconmock.Mock // 1 s slots, genesis = start of the test: aligns the eager round timers with real time
	t0     time.Time
	keys   map[int][]valKeys // n -> validators
	spe    uint64
	other  tbls.PrivateKey
	doms   sync.Map // beacon mock / domain name / epoch -> eth2p0.Domain
}

// waitScale multiplies every wait and timeout of the harness (1 normally, 3 in the sequential retry
// of real-time runs that did not decide under load). Only changed while no scenario is running.
var waitScale = time.Duration(1)

// infraErr is a failure of the harness's own infrastructure (beacon mock HTTP timeout under load):
// the run is aborted and counted, never reported as a finding.
type infraErr struct{ err error }

// sigData is signing.GetDataRoot with the domain cached and retried, so that after the first call
// the harness's own signature work never depends on the beacon mock's HTTP server being fast.
func (s *sim) sigData(dom signing.DomainName, epoch eth2p0.Epoch, root eth2p0.Root) [32]byte {
	key := fmt.Sprintf("%v/%s/%d", s.real, dom, epoch)
	var domain eth2p0.Domain
	if v, ok := s.w.doms.Load(key); ok {
		domain = v.(eth2p0.Domain)
	} else {
		var err error
		for i := 0; i < 6; i++ {
			domain, err = signing.GetDomain(s.ctx, s.bm, dom, epoch)
			if err == nil {
				break
			}
			time.Sleep(200 * time.Millisecond * waitScale)
		}
		if err != nil {
			panic(infraErr{err})
		}
		s.w.doms.Store(key, domain)
	}
	msg, err := (&eth2p0.SigningData{ObjectRoot: root, Domain: domain}).HashTreeRoot()
	if err != nil {
		panic(err)
	}

	return msg
}

// sigEpochDomain returns the signing domain and epoch of the two object kinds the harness uses,
// computed from the object itself (no beacon mock call).
func (s *sim) sigEpochDomain(sd core.SignedData) (signing.DomainName, eth2p0.Epoch, bool) {
	switch x := sd.(type) {
	case core.VersionedAttestation:
		data, err := x.Data()
		if err != nil || data.Target == nil {
			return "", 0, false
		}

		return signing.DomainBeaconAttester, data.Target.Epoch, true
	case core.SignedSyncMessage:
		return signing.DomainSyncCommittee, eth2p0.Epoch(uint64(x.Slot) / s.spe), true
	case core.SignedVoluntaryExit:
		if x.Message == nil {
			return "", 0, false
		}

		return signing.DomainExit, x.Message.Epoch, true
	default:
		return "", 0, false
	}
}

// verifies reports whether sd's signature is the BLS signature of key pk over sd's signing root
// (pure computation once the domain is cached).
func (s *sim) verifies(sd core.SignedData, pk tbls.PublicKey) bool {
	dom, epoch, ok := s.sigEpochDomain(sd)
	if !ok {
		return false
	}
	root, err := sd.MessageRoot()
	if err != nil {
		return false
	}
	sig, err := tblsconv.SigFromCore(sd.Signature())
	if err != nil {
		return false
	}
	msg := s.sigData(dom, epoch, root)

	return tbls.Verify(pk, msg[:], sig) == nil
}

func quorum(n int) int { return (2*n + 2) / 3 }
func faulty(n int) int { return (n - 1) / 3 }

func newWorld(t *testing.T) *world {
	t.Helper()
	w := &world{keys: map[int][]valKeys{}}
	set := beaconmock.ValidatorSet{}
	next := eth2p0.ValidatorIndex(1)
	for n := minNodes; n <= maxNodes; n++ {
		for v := 0; v < maxVals; v++ {
			kr := rand.New(rand.NewSource(int64(7919*n + 31*v + 5))) //nolint:gosec
			sk, err := tbls.GenerateInsecureKey(t, kr)
			if err != nil {
				t.Fatal(err)
			}
			pk, err := tbls.SecretToPublicKey(sk)
			if err != nil {
				t.Fatal(err)
			}
			shares, err := tbls.ThresholdSplitInsecure(t, sk, uint(n), uint(quorum(n)), kr)
			if err != nil {
				t.Fatal(err)
			}
			ps := map[int]tbls.PublicKey{}
			for i, s := range shares {
				p, err := tbls.SecretToPublicKey(s)
				if err != nil {
					t.Fatal(err)
				}
				ps[i] = p
			}
			cpk, err := core.PubKeyFromBytes(pk[:])
			if err != nil {
				t.Fatal(err)
			}
			val := *beaconmock.ValidatorSetA[1]
			inner := *val.Validator
			inner.PublicKey = eth2p0.BLSPubKey(pk)
			val.Validator = &inner
			val.Index = next
			set[next] = &val
			w.keys[n] = append(w.keys[n], valKeys{valIdx: next, group: pk, pubkey: cpk, eth2pk: eth2p0.BLSPubKey(pk), shares: shares, pubshrs: ps})
			next++
		}
	}
	bmock, err := beaconmock.New(t.Context(), beaconmock.WithValidatorSet(set))
	if err != nil {
		t.Fatal(err)
	}
	w.bmock = bmock
	w.spe, err = bmock.SlotsPerEpoch(context.Background())
	if err != nil {
		t.Fatal(err)
	}
	w.t0 = time.Now().Truncate(time.Second)
	w.bmock2, err = beaconmock.New(t.Context(), beaconmock.WithValidatorSet(set), beaconmock.WithGenesisTime(w.t0), beaconmock.WithSlotDuration(time.Second))
	if err != nil {
		t.Fatal(err)
	}
	w.other, err = tbls.GenerateInsecureKey(t, rand.New(rand.NewSource(99))) //nolint:gosec
	if err != nil {
		t.Fatal(err)
	}

	return w
}

// ------------------------------------------------------------------------------------------------
// stubs

type nopDeadliner struct{ ch chan core.Duty }

func (nopDeadliner) Add(core.Duty) core.DeadlineStatus { return core.DeadlineScheduled }
func (d nopDeadliner) C() <-chan core.Duty             { return d.ch }

type stubSched struct {
	dutySubs []func(context.Context, core.Duty, core.DutyDefinitionSet) error
	defs     map[core.Duty]core.DutyDefinitionSet
}

func (s *stubSched) SubscribeDuties(fn func(context.Context, core.Duty, core.DutyDefinitionSet) error) {
	s.dutySubs = append(s.dutySubs, fn)
}
func (*stubSched) SubscribeSlots(func(context.Context, core.Slot) error) {}
func (s *stubSched) GetDutyDefinition(_ context.Context, d core.Duty) (core.DutyDefinitionSet, error) {
	if def, ok := s.defs[d]; ok {
		return def, nil
	}

	return nil, fmt.Errorf("duty not found")
}
func (*stubSched) RegisterFetcherFetchOnly(func(context.Context, core.Duty, core.DutyDefinitionSet, string, eth2p0.Root) error) {
}

type stubFetch struct {
	subs      []func(context.Context, core.Duty, core.UnsignedDataSet) error
	candidate func(core.Duty, core.DutyDefinitionSet) core.UnsignedDataSet
}

func (f *stubFetch) Fetch(ctx context.Context, d core.Duty, defs core.DutyDefinitionSet) error {
	set := f.candidate(d, defs)
	for _, sub := range f.subs {
		if err := sub(ctx, d, set); err != nil {
			return err
		}
	}

	return nil
}
func (*stubFetch) FetchOnly(context.Context, core.Duty, core.DutyDefinitionSet, string, eth2p0.Root) error {
	return nil
}
func (f *stubFetch) Subscribe(fn func(context.Context, core.Duty, core.UnsignedDataSet) error) {
	f.subs = append(f.subs, fn)
}
func (*stubFetch) RegisterAggSigDB(func(context.Context, core.Duty, core.PubKey, core.SubcommitteeIndex) (core.SignedData, error)) {
}
func (*stubFetch) RegisterAwaitAttData(func(ctx context.Context, slot uint64, commIdx uint64) (*eth2p0.AttestationData, error)) {
}

type stubCons struct {
	subs         []func(context.Context, core.Duty, core.UnsignedDataSet) error
	proposed     map[core.Duty]core.UnsignedDataSet
	participated map[core.Duty]bool
}

func (*stubCons) ProtocolID() protocol.ID { return "/verif/consensus-stub" }
func (*stubCons) Start(context.Context)   {}
func (c *stubCons) Participate(_ context.Context, d core.Duty) error {
	c.participated[d] = true
	return nil
}
func (c *stubCons) Propose(_ context.Context, d core.Duty, set core.UnsignedDataSet) error {
	c.proposed[d] = set
	return nil
}
func (c *stubCons) Subscribe(fn func(context.Context, core.Duty, core.UnsignedDataSet) error) {
	c.subs = append(c.subs, fn)
}

type released struct {
	from int
	duty core.Duty
	set  core.ParSignedDataSet
}

type stubParSigEx struct {
	subs []func(context.Context, core.Duty, core.ParSignedDataSet) error
	out  func(core.Duty, core.ParSignedDataSet)
}

func (p *stubParSigEx) Broadcast(_ context.Context, d core.Duty, set core.ParSignedDataSet) error {
	p.out(d, set)
	return nil
}
func (p *stubParSigEx) Subscribe(fn func(context.Context, core.Duty, core.ParSignedDataSet) error) {
	p.subs = append(p.subs, fn)
}

type stubBcast struct {
	out func(core.Duty, core.SignedDataSet)
}

func (b *stubBcast) Broadcast(_ context.Context, d core.Duty, set core.SignedDataSet) error {
	b.out(d, set)
	return nil
}

// event is one tracker callback observed during an action.
type event struct {
	kind   string
	duty   core.Duty
	parset core.ParSignedDataSet
	aggin  map[core.PubKey][]core.ParSignedData
	signed core.SignedDataSet
	err    error
}

type recTracker struct {
	ev       *[]event
	mu       *sync.Mutex
	onDutyDB func(core.Duty, core.UnsignedDataSet, error)
}

func (r recTracker) add(e event) {
	r.mu.Lock()
	defer r.mu.Unlock()
	*r.ev = append(*r.ev, e)
}

func (recTracker) FetcherFetched(core.Duty, core.DutyDefinitionSet, error)  {}
func (recTracker) ConsensusProposed(core.Duty, core.UnsignedDataSet, error) {}
func (r recTracker) DutyDBStored(d core.Duty, set core.UnsignedDataSet, err error) {
	if r.onDutyDB != nil {
		r.onDutyDB(d, set, err)
		return
	}
	r.add(event{kind: "dutydb", duty: d, err: err})
}
func (r recTracker) ParSigDBStoredInternal(d core.Duty, s core.ParSignedDataSet, err error) {
	r.add(event{kind: "internal", duty: d, parset: s, err: err})
}
func (r recTracker) ParSigExBroadcasted(d core.Duty, s core.ParSignedDataSet, err error) {
	r.add(event{kind: "psxbcast", duty: d, parset: s, err: err})
}
func (r recTracker) ParSigDBStoredExternal(d core.Duty, s core.ParSignedDataSet, err error) {
	r.add(event{kind: "external", duty: d, parset: s, err: err})
}
func (r recTracker) SigAggAggregated(d core.Duty, s map[core.PubKey][]core.ParSignedData, err error) {
	r.add(event{kind: "sigagg", duty: d, aggin: s, err: err})
}
func (r recTracker) AggSigDBStored(d core.Duty, s core.SignedDataSet, err error) {
	r.add(event{kind: "aggsigdb", duty: d, signed: s, err: err})
}
func (r recTracker) BroadcasterBroadcast(d core.Duty, s core.SignedDataSet, err error) {
	r.add(event{kind: "bcast", duty: d, signed: s, err: err})
}
func (recTracker) InclusionChecked(core.Duty, core.PubKey, core.SignedData, error) {}

type nopInclusion struct{}

func (nopInclusion) Submitted(core.Duty, core.SignedDataSet) error { return nil }

// ------------------------------------------------------------------------------------------------
// scenario

// Spec identifies a scenario; everything else derives from (Kind, Seed).
type Spec struct {
	ID   int    `json:"id"`
	Kind string `json:"kind"`
	Seed int64  `json:"seed"`
}

// Hit is a monitor hit on real outputs.
type Hit struct {
	Key  string `json:"key"`
	What string `json:"what"`
}

// Result of one scenario.
type Result struct {
	Spec
	N          int            `json:"n"`
	T          int            `json:"t"`
	Byz        []int          `json:"byz"`
	Vals       int            `json:"vals"`
	V2         bool           `json:"aggsigdb_v2"`
	Cfg        string         `json:"cfg"`
	Labels     []string       `json:"labels"`
	Script     []string       `json:"script"`
	Hits       []Hit          `json:"hits"`
	Stats      map[string]int `json:"stats"`
	NonTrivial bool           `json:"nontrivial"`
	Outputs    int            `json:"outputs"`
	Aborted    string         `json:"aborted,omitempty"`
	Retried    bool           `json:"retried,omitempty"`
}

type node struct {
	idx     int
	byz     bool
	crashed bool
	started bool
	dutyDB  *dutydb.MemDB
	vapi    *validatorapi.Component
	psdb    *parsigdb.MemDB
	agg     *sigagg.Aggregator
	asdb    core.AggSigDB
	sched   *stubSched
	fetch   *stubFetch
	cons    *stubCons
	rcons   *cqbft.Consensus // real consensus component (real mode)
	host    *fakeHost
	ctx     context.Context
	cancel  context.CancelFunc
	psx     *stubParSigEx
	bc      core.Broadcaster // the REAL core/bcast Broadcaster over a recording beacon mock
	events  []event
	decided map[core.Duty]bool
	cand    int // candidate index this node's beacon node serves
}

type output struct {
	node  int
	where string
	duty  core.Duty
	pk    core.PubKey
	root  string
}

// bobs is one object handed to the beacon node by a node's real Broadcaster.
type bobs struct {
	node int
	kind string // att | sync | exit
	at   uint64 // slot (att, sync) or epoch (exit)
	val  eth2p0.ValidatorIndex
	root string
}

type sim struct {
	w        *world
	sameComm bool // all validators attest in ONE committee of the slot (else one committee each)
	legacy   bool // peers are on versions whose partial attestations do not carry the validator index
	vcDown   map[int]bool
	attSlot  uint64
	beacon   []bobs
	bm       beaconmock.Mock
	spe      uint64
	real     bool
	evMu     sync.Mutex
	net      *fakeNet
	decEv    []decideEv
	wg       sync.WaitGroup
	r        *rand.Rand
	res      *Result
	ctx      context.Context
	nodes    []*node
	vals     []valKeys
	pool     []released
	outs     []output
	roots    map[string]int
	tags     map[string]int
	keyIDs   map[string]int
	klass    map[string]bool // json of ParSignedData+pubkey -> genuine
	aggd     map[string]bool // node/key -> has aggregated
	bypass   bool
	verify   func(context.Context, core.Duty, core.PubKey, core.ParSignedData) error
	duties   []core.Duty
	byzSet   map[int]bool
}

func (s *sim) stat(k string) { s.res.Stats[k]++ }
func (s *sim) logf(f string, a ...any) {
	s.res.Script = append(s.res.Script, fmt.Sprintf(f, a...))
}
func (s *sim) label(l string) { s.res.Labels = append(s.res.Labels, l) }
func (s *sim) hit(key, f string, a ...any) {
	s.res.Hits = append(s.res.Hits, Hit{Key: key, What: fmt.Sprintf(f, a...)})
}

func (s *sim) rootID(r [32]byte) int {
	h := hex.EncodeToString(r[:])
	if id, ok := s.roots[h]; ok {
		return id
	}
	id := len(s.roots) + 1
	s.roots[h] = id

	return id
}

// keyID numbers (duty, validator); even = consensus duty (attester), odd = sync message.
func (s *sim) keyID(d core.Duty, pk core.PubKey) int {
	k := d.String() + "/" + string(pk)
	if id, ok := s.keyIDs[k]; ok {
		return id
	}
	id := 2 * (len(s.keyIDs) + 1)
	if d.Type != core.DutyAttester {
		id++
	}
	s.keyIDs[k] = id

	return id
}

func (s *sim) valOf(pk core.PubKey) (valKeys, bool) {
	for _, v := range s.vals {
		if v.pubkey == pk {
			return v, true
		}
	}

	return valKeys{}, false
}

// partialTerm renders one partial as (share, root, tag): tag 0 iff the signature verifies under the
// public share of the claimed share index of that validator (classified with the repo's own
// verification code), else a positive number identifying the object's bytes.
func (s *sim) partialTerm(d core.Duty, pk core.PubKey, p core.ParSignedData) (string, bool) {
	root, err := p.MessageRoot()
	if err != nil {
		panic(err)
	}
	js, err := json.Marshal(p)
	if err != nil {
		panic(err)
	}
	ck := string(pk) + "|" + d.String() + "|" + string(js)
	gen, ok := s.klass[ck]
	if !ok {
		gen = false
		if v, okv := s.valOf(pk); okv {
			if ps, okp := v.pubshrs[p.ShareIdx]; okp {
				gen = s.verifies(p.SignedData, ps)
			}
		}
		s.klass[ck] = gen
	}
	tag := 0
	if !gen {
		t, ok := s.tags[ck]
		if !ok {
			t = len(s.tags) + 1
			s.tags[ck] = t
		}
		tag = t
	}
	sh := p.ShareIdx - 1
	if sh < 0 {
		sh = 1000 - p.ShareIdx
	}

	return fmt.Sprintf("mkP %d %d %d", sh, s.rootID(root), tag), gen
}

func sortedKeys[V any](m map[core.PubKey]V) []core.PubKey {
	var ks []core.PubKey
	for k := range m {
		ks = append(ks, k)
	}
	sort.Slice(ks, func(i, j int) bool { return ks[i] < ks[j] })

	return ks
}

func (s *sim) batchTerm(d core.Duty, set core.ParSignedDataSet) string {
	var parts []string
	for _, pk := range sortedKeys(set) {
		pt, _ := s.partialTerm(d, pk, set[pk])
		parts = append(parts, fmt.Sprintf("(%d, %s)", s.keyID(d, pk), pt))
	}

	return "[" + strings.Join(parts, "; ") + "]"
}

func (s *sim) ownBatchTerm(d core.Duty, set core.ParSignedDataSet) string {
	var parts []string
	for _, pk := range sortedKeys(set) {
		root, err := set[pk].MessageRoot()
		if err != nil {
			panic(err)
		}
		parts = append(parts, fmt.Sprintf("(%d, %d)", s.keyID(d, pk), s.rootID(root)))
	}

	return "[" + strings.Join(parts, "; ") + "]"
}

func obsOf(err error) string {
	switch {
	case err == nil:
		return "ObsOk"
	case strings.Contains(err.Error(), "mismatching partial signed data"):
		return "ObsMismatch"
	default:
		return "ObsOther"
	}
}

// checkOutput is the monitor on one object reaching AggSigDB.Store / Broadcast.
func (s *sim) checkOutput(nd int, where string, d core.Duty, pk core.PubKey, sd core.SignedData) string {
	root, err := sd.MessageRoot()
	if err != nil {
		s.hit("output-no-root", "node %d %s %v %s: MessageRoot failed: %v", nd, where, d, pk, err)
		return ""
	}
	rh := hex.EncodeToString(root[:])
	v, ok := s.valOf(pk)
	if !ok {
		s.hit("output-unknown-validator", "node %d %s %v: object for unknown validator %s", nd, where, d, pk)
		return rh
	}
	e2, ok := sd.(core.Eth2SignedData)
	if !ok {
		s.hit("output-not-eth2", "node %d %s %v %s: not an eth2 signed object", nd, where, d, pk)
		return rh
	}
	// The finding is a delivered object whose signature is NOT the group signature over its signing
	// root: decided by tbls.Verify on a signing root computed here (domain and epoch chosen by the
	// harness, independent of core/eth2signeddata.go). The repo's own verifier is consulted as well,
	// but its error alone (it calls the beacon mock, which can time out under load) is not a finding.
	if !s.verifies(sd, v.group) {
		s.hit("invalid-signature", "node %d %s %v validator %d: tbls.Verify of the published signature under the group key on the signing root fails", nd, where, d, v.valIdx)
	} else if err := core.VerifyEth2SignedData(s.ctx, s.bm, e2, v.group); err != nil {
		s.stat("repo_verifier_error_on_valid_signature")
		s.logf("node %d %s %v: core.VerifyEth2SignedData: %v (signature valid by tbls.Verify)", nd, where, d, err)
	}
	for _, o := range s.outs {
		if o.duty == d && o.pk == pk && o.root != rh {
			s.hit("two-roots", "duty %v validator %d: node %d (%s) emitted root %s, node %d (%s) emitted root %s",
				d, v.valIdx, o.node, o.where, o.root[:32], nd, where, rh[:32])
			break
		}
	}
	s.outs = append(s.outs, output{node: nd, where: where, duty: d, pk: pk, root: rh})

	return rh
}

// harvest turns the tracker events of the action just performed on node nd into model labels (after
// the store label the caller has already emitted) and feeds the output monitor.
func (s *sim) harvest(nd *node) {
	s.evMu.Lock()
	evs := nd.events
	nd.events = nil
	s.evMu.Unlock()
	type outinfo struct{ roots map[string]bool }
	outs := map[string]*outinfo{}
	for _, e := range evs {
		if e.kind != "aggsigdb" && e.kind != "bcast" {
			continue
		}
		if e.kind == "aggsigdb" && e.err != nil && strings.Contains(e.err.Error(), "mismatching data") {
			s.hit("aggsigdb-mismatch", "node %d: AggSigDB.Store refused a second, different object for %v", nd.idx, e.duty)
		}
		for _, pk := range sortedKeys(e.signed) {
			if va, ok := e.signed[pk].(core.VersionedAttestation); ok && e.kind == "bcast" && va.ValidatorIndex == nil {
				s.stat("bcast_input_att_without_validator_index") // the broadcaster's index fallback runs
			}
			rh := s.checkOutput(nd.idx, e.kind, e.duty, pk, e.signed[pk])
			k := e.duty.String() + "/" + string(pk)
			if outs[k] == nil {
				outs[k] = &outinfo{roots: map[string]bool{}}
			}
			outs[k].roots[rh] = true
		}
	}
	for _, e := range evs {
		if e.kind != "sigagg" {
			continue
		}
		for _, pk := range sortedKeys(e.aggin) {
			k := e.duty.String() + "/" + string(pk)
			kid := s.keyID(e.duty, pk)
			oi := outs[k]
			if oi == nil {
				s.label(fmt.Sprintf("LAggFail %d %d", nd.idx, kid))
				s.stat("agg_fail")
				continue
			}
			var shares []string
			for _, p := range e.aggin[pk] {
				shares = append(shares, fmt.Sprint(p.ShareIdx-1))
			}
			for rh := range oi.roots {
				b, _ := hex.DecodeString(rh)
				var r32 [32]byte
				copy(r32[:], b)
				s.label(fmt.Sprintf("LAggregate %d %d %d [%s]", nd.idx, kid, s.rootID(r32), strings.Join(shares, "; ")))
			}
			s.aggd[fmt.Sprintf("%d/%s", nd.idx, k)] = true
			s.stat("aggregates")
		}
	}
	for _, e := range evs {
		if e.kind == "psxbcast" {
			s.label(fmt.Sprintf("LRelease %d %s", nd.idx, s.ownBatchTerm(e.duty, e.parset)))
		}
	}
}

func attData(slot uint64, spe uint64, cand int) eth2p0.AttestationData {
	var bbr eth2p0.Root
	copy(bbr[:], fmt.Sprintf("head-candidate-%02d-slot-%d", cand, slot))
	epoch := eth2p0.Epoch(slot / spe)
	var src, tgt eth2p0.Root
	copy(src[:], "source-root")
	copy(tgt[:], "target-root")

	return eth2p0.AttestationData{
		Slot: eth2p0.Slot(slot), Index: 0, BeaconBlockRoot: bbr,
		Source: &eth2p0.Checkpoint{Epoch: epoch - min(epoch, 1), Root: src},
		Target: &eth2p0.Checkpoint{Epoch: epoch, Root: tgt},
	}
}

func (s *sim) attDuty(v valKeys, slot uint64) eth2v1.AttesterDuty {
	comm, pos := eth2p0.CommitteeIndex(v.valIdx), uint64(3)
	if s.sameComm {
		comm = 1
		for i, x := range s.vals {
			if x.valIdx == v.valIdx {
				pos = uint64(i)
			}
		}
	}

	return eth2v1.AttesterDuty{
		PubKey: v.eth2pk, Slot: eth2p0.Slot(slot), ValidatorIndex: v.valIdx,
		CommitteeIndex: comm, CommitteeLength: 8, CommitteesAtSlot: 64, ValidatorCommitteeIndex: pos,
	}
}

func (s *sim) candidateSet(d core.Duty, cand int) core.UnsignedDataSet {
	set := core.UnsignedDataSet{}
	for _, v := range s.vals {
		set[v.pubkey] = core.AttestationData{Data: attData(d.Slot, s.spe, cand), Duty: s.attDuty(v, d.Slot)}
	}

	return set
}

func (s *sim) signAtt(v valKeys, share tbls.PrivateKey, slot uint64, data *eth2p0.AttestationData) *eth2spec.VersionedAttestation {
	root, err := data.HashTreeRoot()
	if err != nil {
		panic(err)
	}
	sigData := s.sigData(signing.DomainBeaconAttester, data.Target.Epoch, root)
	sig, err := tbls.Sign(share, sigData[:])
	if err != nil {
		panic(err)
	}
	duty := s.attDuty(v, slot)
	aggBits := bitfield.NewBitlist(duty.CommitteeLength)
	aggBits.SetBitAt(duty.ValidatorCommitteeIndex, true)
	commBits := bitfield.NewBitvector64()
	commBits.SetBitAt(uint64(duty.CommitteeIndex), true)
	vi := v.valIdx

	return &eth2spec.VersionedAttestation{
		Version: eth2spec.DataVersionFulu, ValidatorIndex: &vi,
		Fulu: &electra.Attestation{AggregationBits: aggBits, Data: data, Signature: eth2p0.BLSSignature(sig), CommitteeBits: commBits},
	}
}

func (s *sim) signSync(v valKeys, share tbls.PrivateKey, slot uint64, head eth2p0.Root) *altair.SyncCommitteeMessage {
	sigData := s.sigData(signing.DomainSyncCommittee, eth2p0.Epoch(slot/s.spe), head)
	sig, err := tbls.Sign(share, sigData[:])
	if err != nil {
		panic(err)
	}

	return &altair.SyncCommitteeMessage{Slot: eth2p0.Slot(slot), BeaconBlockRoot: head, ValidatorIndex: v.valIdx, Signature: eth2p0.BLSSignature(sig)}
}

func headRoot(i int, slot uint64) eth2p0.Root {
	var r eth2p0.Root
	copy(r[:], fmt.Sprintf("sync-head-%02d-slot-%d", i, slot))

	return r
}

func (s *sim) build(n, nvals int, byz []int, v2 bool) {
	if s.real {
		s.net = newFakeNet(s, n)
	}
	s.vals = s.w.keys[n][:nvals]
	pubShares := map[core.PubKey]map[int]tbls.PublicKey{}
	for _, v := range s.vals {
		pubShares[v.pubkey] = v.pubshrs
	}
	vf, err := parsigex.NewEth2Verifier(s.bm, pubShares)
	if err != nil {
		panic(err)
	}
	s.verify = func(ctx context.Context, d core.Duty, pk core.PubKey, p core.ParSignedData) error {
		return vf(ctx, "", d, pk, p)
	}
	s.byzSet = map[int]bool{}
	for _, b := range byz {
		s.byzSet[b] = true
	}
	for i := 0; i < n; i++ {
		nd := &node{idx: i, byz: s.byzSet[i], decided: map[core.Duty]bool{}}
		s.nodes = append(s.nodes, nd)
		if nd.byz {
			continue
		}
		dl := nopDeadliner{ch: make(chan core.Duty)}
		nd.dutyDB = dutydb.NewMemDB(dl)
		nd.vapi, err = validatorapi.NewComponent(s.bm, pubShares, i+1, nil, false, 30000000)
		if err != nil {
			panic(err)
		}
		nd.psdb = parsigdb.NewMemDB(quorum(n), dl, parsigdb.NewMemDBMetadata(12, time.Unix(0, 0)))
		nd.agg, err = sigagg.New(quorum(n), sigagg.NewVerifier(s.bm))
		if err != nil {
			panic(err)
		}
		if v2 {
			db := aggsigdb.NewMemDBV2(dl)
			go db.Run(s.ctx)
			nd.asdb = db
		} else {
			db := aggsigdb.NewMemDB(dl)
			go db.Run(s.ctx)
			nd.asdb = db
		}
		nd.sched = &stubSched{defs: map[core.Duty]core.DutyDefinitionSet{}}
		ndc := nd
		nd.fetch = &stubFetch{candidate: func(d core.Duty, _ core.DutyDefinitionSet) core.UnsignedDataSet {
			return s.candidateSet(d, ndc.cand)
		}}
		nd.cons = &stubCons{proposed: map[core.Duty]core.UnsignedDataSet{}, participated: map[core.Duty]bool{}}
		nd.psx = &stubParSigEx{out: func(d core.Duty, set core.ParSignedDataSet) {
			// what the real ParSigEx puts on the wire: the protobuf encoding of the set
			pb, err := core.ParSignedDataSetToProto(set)
			if err != nil {
				panic(err)
			}
			back, err := core.ParSignedDataSetFromProto(d.Type, pb)
			if err != nil {
				panic(err)
			}
			if s.legacy && d.Type == core.DutyAttester {
				// peers on v1.3.0/v1.3.1/v1.4.0/v1.4.1: the validator index is not sent over the wire
				for pk, p := range back {
					if va, ok := p.SignedData.(core.VersionedAttestation); ok {
						va.ValidatorIndex = nil
						p.SignedData = va
						back[pk] = p
					}
				}
			}
			s.pool = append(s.pool, released{from: ndc.idx, duty: d, set: back})
		}}
		nd.bc, err = bcast.New(s.ctx, s.beaconFor(ndc))
		if err != nil {
			panic(infraErr{err})
		}
		var cons core.Consensus = nd.cons
		tr := recTracker{ev: &nd.events, mu: &s.evMu}
		if s.real {
			nd.ctx, nd.cancel = context.WithCancel(s.ctx)
			s.buildRealConsensus(nd, dl)
			cons = nd.rcons
			tr.onDutyDB = func(d core.Duty, set core.UnsignedDataSet, err error) { s.onDecide(ndc, d, set, err) }
		}
		core.Wire(nd.sched, nd.fetch, cons, nd.dutyDB, nd.vapi, nd.psdb, nd.psx, nd.agg, nd.asdb, nd.bc,
			core.WithTracing(), core.WithTracking(tr, nopInclusion{}))
	}
}

// beaconFor returns the beacon node of nd's Broadcaster: the shared beacon mock with the attester
// duties of this scenario and with recording submission endpoints. Everything the real core/bcast
// Broadcaster hands to the beacon node passes the monitor below.
func (s *sim) beaconFor(nd *node) beaconmock.Mock {
	bn := s.bm
	bn.AttesterDutiesFunc = func(_ context.Context, epoch eth2p0.Epoch, idxs []eth2p0.ValidatorIndex) ([]*eth2v1.AttesterDuty, error) {
		var out []*eth2v1.AttesterDuty
		if uint64(epoch) != s.attSlot/s.spe {
			return out, nil
		}
		for _, v := range s.vals {
			for _, i := range idxs {
				if i == v.valIdx {
					d := s.attDuty(v, s.attSlot)
					out = append(out, &d)
				}
			}
		}

		return out, nil
	}
	bn.SubmitAttestationsFunc = func(_ context.Context, opts *eth2api.SubmitAttestationsOpts) error {
		for _, a := range opts.Attestations {
			s.beaconAtt(nd.idx, a)
		}

		return nil
	}
	bn.SubmitSyncCommitteeMessagesFunc = func(_ context.Context, msgs []*altair.SyncCommitteeMessage) error {
		for _, m := range msgs {
			s.beaconObj(nd.idx, "sync", uint64(m.Slot), m.ValidatorIndex, core.NewSignedSyncMessage(m))
		}

		return nil
	}
	bn.SubmitVoluntaryExitFunc = func(_ context.Context, e *eth2p0.SignedVoluntaryExit) error {
		s.beaconObj(nd.idx, "exit", uint64(e.Message.Epoch), e.Message.ValidatorIndex, core.NewSignedVoluntaryExit(e))

		return nil
	}

	return bn
}

func (s *sim) valByIdx(i eth2p0.ValidatorIndex) (valKeys, bool) {
	for _, v := range s.vals {
		if v.valIdx == i {
			return v, true
		}
	}

	return valKeys{}, false
}

// beaconObj: an object naming validator val reached the beacon node. It must carry that validator's
// group signature over its own signing root, and all objects for one duty and validator have one root.
func (s *sim) beaconObj(nd int, kind string, at uint64, val eth2p0.ValidatorIndex, sd core.SignedData) {
	s.stat("beacon_submissions")
	root, err := sd.MessageRoot()
	if err != nil {
		s.hit("beacon-no-root", "node %d handed the beacon node a %s object without a message root: %v", nd, kind, err)
		return
	}
	rh := hex.EncodeToString(root[:])
	v, ok := s.valByIdx(val)
	if !ok {
		s.hit("beacon-unknown-validator", "node %d handed the beacon node a %s object naming validator %d, which is not a cluster validator", nd, kind, val)
		return
	}
	if !s.verifies(sd, v.group) {
		s.hit("beacon-invalid-signature", "node %d handed the beacon node a %s object (slot/epoch %d) naming validator %d whose signature does not verify under that validator's group key", nd, kind, at, val)
	}
	for _, o := range s.beacon {
		if o.kind == kind && o.at == at && o.val == val && o.root != rh {
			s.hit("beacon-two-roots", "%s slot/epoch %d validator %d: node %d submitted root %s, node %d submitted root %s", kind, at, val, o.node, o.root[:32], nd, rh[:32])
			break
		}
	}
	s.beacon = append(s.beacon, bobs{node: nd, kind: kind, at: at, val: val, root: rh})
}

// beaconAtt: an attestation names its validator twice, by the validator index (electra+) and by
// committee bits + aggregation bit; both must name the same cluster validator.
func (s *sim) beaconAtt(nd int, a *eth2spec.VersionedAttestation) {
	data, err := a.Data()
	if err != nil {
		s.hit("beacon-no-root", "node %d submitted an attestation without data: %v", nd, err)
		return
	}
	var byBits *valKeys
	comm, err1 := a.CommitteeIndex()
	bits, err2 := a.AggregationBits()
	if err1 == nil && err2 == nil && len(bits.BitIndices()) == 1 {
		pos := uint64(bits.BitIndices()[0])
		for i := range s.vals {
			d := s.attDuty(s.vals[i], uint64(data.Slot))
			if d.CommitteeIndex == comm && d.ValidatorCommitteeIndex == pos {
				byBits = &s.vals[i]
			}
		}
	}
	wrap, err := core.NewVersionedAttestation(a)
	if err != nil {
		s.hit("beacon-no-root", "node %d submitted a malformed attestation: %v", nd, err)
		return
	}
	switch {
	case a.ValidatorIndex != nil:
		if byBits != nil && byBits.valIdx != *a.ValidatorIndex {
			s.hit("beacon-attestation-names-two-validators", "node %d submitted an attestation for slot %d with validator index %d whose committee/aggregation bits are validator %d's", nd, data.Slot, *a.ValidatorIndex, byBits.valIdx)
		}
		s.beaconObj(nd, "att", uint64(data.Slot), *a.ValidatorIndex, wrap)
	case byBits != nil:
		s.stat("beacon_att_without_index")
		s.beaconObj(nd, "att", uint64(data.Slot), byBits.valIdx, wrap)
	default:
		s.hit("beacon-unknown-validator", "node %d submitted an attestation for slot %d that names no cluster validator", nd, data.Slot)
	}
}

func (s *sim) signExit(v valKeys, share tbls.PrivateKey, epoch eth2p0.Epoch) *eth2p0.SignedVoluntaryExit {
	msg := &eth2p0.VoluntaryExit{Epoch: epoch, ValidatorIndex: v.valIdx}
	root, err := msg.HashTreeRoot()
	if err != nil {
		panic(err)
	}
	sd := s.sigData(signing.DomainExit, epoch, root)
	sig, err := tbls.Sign(share, sd[:])
	if err != nil {
		panic(err)
	}

	return &eth2p0.SignedVoluntaryExit{Message: msg, Signature: eth2p0.BLSSignature(sig)}
}

// actVCExit: the validator client submits a partially signed voluntary exit per validator.
func (s *sim) actVCExit(nd *node, d core.Duty) {
	for _, v := range s.vals {
		e := s.signExit(v, v.shares[nd.idx+1], eth2p0.Epoch(d.Slot/s.spe))
		err := nd.vapi.SubmitVoluntaryExit(s.ctx, e)
		s.finishSign(nd, d, core.ParSignedDataSet{v.pubkey: core.NewPartialSignedVoluntaryExit(e, nd.idx+1)}, err)
	}
}

// ---- actions

func (s *sim) actTrigger(nd *node, d core.Duty) {
	defs := core.DutyDefinitionSet{}
	for _, v := range s.vals {
		ad := s.attDuty(v, d.Slot)
		defs[v.pubkey] = core.NewAttesterDefinition(&ad)
	}
	nd.sched.defs[d] = defs
	for _, sub := range nd.sched.dutySubs {
		if err := sub(s.ctx, d, defs); err != nil {
			s.logf("trigger node %d %v: %v", nd.idx, d, err)
		}
	}
	nd.events = nil
	s.logf("trigger node %d %v candidate %d", nd.idx, d, nd.cand)
}

func (s *sim) actDecide(nd *node, d core.Duty, set core.UnsignedDataSet) {
	var err error
	for _, sub := range nd.cons.subs {
		if e := sub(s.ctx, d, set); e != nil {
			err = e
		}
	}
	nd.events = nil
	for _, pk := range sortedKeys(set) {
		ad := set[pk].(core.AttestationData)
		root, e := ad.Data.HashTreeRoot()
		if e != nil {
			panic(e)
		}
		ok := "true"
		if err != nil {
			ok = "false"
		}
		s.label(fmt.Sprintf("LDecide %d %d %d %s", nd.idx, s.keyID(d, pk), s.rootID(root), ok))
	}
	if err == nil {
		nd.decided[d] = true
	}
	s.logf("decide node %d %v err=%v", nd.idx, d, err)
}

// actVCAttest: the validator client of nd asks the node for attestation data (served by its DutyDB),
// signs it with the node's share for the chosen validators and submits.
func (s *sim) actVCAttest(nd *node, d core.Duty, vals []valKeys) {
	var atts []*eth2spec.VersionedAttestation
	set := core.ParSignedDataSet{}
	for _, v := range vals {
		ctx, cancel := context.WithTimeout(s.ctx, 5*time.Second*waitScale)
		resp, err := nd.vapi.AttestationData(ctx, &eth2api.AttestationDataOpts{Slot: eth2p0.Slot(d.Slot), CommitteeIndex: s.attDuty(v, d.Slot).CommitteeIndex})
		cancel()
		if err != nil {
			s.logf("vc node %d %v: AttestationData: %v", nd.idx, d, err)
			return
		}
		att := s.signAtt(v, v.shares[nd.idx+1], d.Slot, resp.Data)
		atts = append(atts, att)
		p, err := core.NewPartialVersionedAttestation(att, nd.idx+1)
		if err != nil {
			panic(err)
		}
		set[v.pubkey] = p
	}
	err := nd.vapi.SubmitAttestations(s.ctx, &eth2api.SubmitAttestationsOpts{Attestations: atts})
	s.finishSign(nd, d, set, err)
}

func (s *sim) actVCSync(nd *node, d core.Duty, vals []valKeys, head int) {
	var msgs []*altair.SyncCommitteeMessage
	set := core.ParSignedDataSet{}
	for _, v := range vals {
		m := s.signSync(v, v.shares[nd.idx+1], d.Slot, headRoot(head, d.Slot))
		msgs = append(msgs, m)
		set[v.pubkey] = core.NewPartialSignedSyncMessage(m, nd.idx+1)
	}
	err := nd.vapi.SubmitSyncCommitteeMessages(s.ctx, msgs)
	s.finishSign(nd, d, set, err)
}

func (s *sim) finishSign(nd *node, d core.Duty, set core.ParSignedDataSet, err error) {
	// the store phase happened iff the tracker saw StoreInternal being called
	called := false
	for _, e := range nd.events {
		if e.kind == "internal" {
			called = true
		}
	}
	if !called {
		s.logf("vc node %d %v: submission refused before the store: %v", nd.idx, d, err)
		nd.events = nil
		return
	}
	s.label(fmt.Sprintf("LSign %d %s %s", nd.idx, s.ownBatchTerm(d, set), obsOf(err)))
	s.logf("vc node %d signs %v (%d validators) -> %s", nd.idx, d, len(set), obsOf(err))
	s.stat("signs")
	if obsOf(err) == "ObsMismatch" {
		s.stat("own_mismatch")
	}
	s.harvest(nd)
}

func (s *sim) touchesAggregated(nd *node, d core.Duty, set core.ParSignedDataSet) bool {
	for pk := range set {
		if s.aggd[fmt.Sprintf("%d/%s/%s", nd.idx, d.String(), string(pk))] {
			return true
		}
	}

	return false
}

// actDeliver hands a set to nd's ParSigEx subscribers (= ParSigDB.StoreExternal through core.Wire)
// after the verification ParSigEx.handle performs.
func (s *sim) actDeliver(nd *node, d core.Duty, set core.ParSignedDataSet, lab string, bypass bool) {
	if !bypass {
		for _, pk := range sortedKeys(set) {
			if err := s.verify(s.ctx, d, pk, set[pk]); err != nil {
				s.stat("dropped_by_parsigex_verifier")
				s.logf("%s to node %d %v dropped by the ParSigEx verifier: %v", lab, nd.idx, d, err)
				return
			}
		}
	}
	after := s.touchesAggregated(nd, d, set)
	var err error
	for _, sub := range nd.psx.subs {
		if e := sub(s.ctx, d, set); e != nil {
			err = e
		}
	}
	s.label(fmt.Sprintf("%s %d %s %s", lab, nd.idx, s.batchTerm(d, set), obsOf(err)))
	s.logf("%s to node %d %v %s -> %s", lab, nd.idx, d, s.batchTerm(d, set), obsOf(err))
	if after {
		s.stat("delivery_after_aggregation")
	}
	if lab == "LInject" {
		s.stat("injected")
	} else {
		s.stat("delivered")
	}
	if obsOf(err) == "ObsMismatch" {
		s.stat("mismatch_rejected")
	}
	s.harvest(nd)
}

// byzSet builds a set made by Byzantine node b for duty d.
func (s *sim) byzMake(b int, d core.Duty, decidedCand int) (core.ParSignedDataSet, bool, string) {
	set := core.ParSignedDataSet{}
	bypass := false
	var what []string
	for _, v := range s.vals {
		if s.r.Intn(4) == 0 && len(s.vals) > 1 {
			continue
		}
		mode := s.r.Intn(10)
		share := v.shares[b+1]
		idx := b + 1
		rootSel := decidedCand
		switch {
		case mode < 3: // honest-looking
			what = append(what, "same-root")
		case mode < 7: // another root
			rootSel = 10 + s.r.Intn(3)
			what = append(what, "other-root")
		case mode == 7: // signed with the share of ANOTHER validator (or a foreign key)
			if len(s.vals) > 1 {
				share = s.vals[(int(v.valIdx)+1)%len(s.vals)].shares[b+1]
			} else {
				share = s.w.other
			}
			what = append(what, "wrong-key")
		case mode == 8 && s.bypass: // garbage under an arbitrary share index (also honest ones)
			idx = 1 + s.r.Intn(len(s.nodes))
			share = s.w.other
			bypass = true
			if s.r.Intn(2) == 0 {
				rootSel = decidedCand
			}
			what = append(what, "garbage")
		default:
			rootSel = 10 + s.r.Intn(3)
			what = append(what, "other-root")
		}
		if d.Type == core.DutyAttester {
			data := attData(d.Slot, s.spe, rootSel)
			att := s.signAtt(v, share, d.Slot, &data)
			p, err := core.NewPartialVersionedAttestation(att, idx)
			if err != nil {
				panic(err)
			}
			set[v.pubkey] = p
		} else if d.Type == core.DutyExit {
			if len(set) > 0 {
				continue // exits travel one validator per set
			}
			set[v.pubkey] = core.NewPartialSignedVoluntaryExit(s.signExit(v, share, eth2p0.Epoch(d.Slot/s.spe)), idx)
		} else {
			m := s.signSync(v, share, d.Slot, headRoot(rootSel, d.Slot))
			set[v.pubkey] = core.NewPartialSignedSyncMessage(m, idx)
		}
	}
	if len(set) == 0 {
		return nil, false, ""
	}
	// proto round trip like any wire message
	pb, err := core.ParSignedDataSetToProto(set)
	if err != nil {
		panic(err)
	}
	back, err := core.ParSignedDataSetFromProto(d.Type, pb)
	if err != nil {
		panic(err)
	}

	return back, bypass, strings.Join(what, ",")
}

func pick[T any](r *rand.Rand, xs []T) T { return xs[r.Intn(len(xs))] }

// runOverbound is the self-test OUTSIDE the property's assumptions: f+1 Byzantine nodes, and the
// honest clients' beacon nodes see two different heads for a sync committee message.  The f+1
// Byzantine shares complete a threshold for BOTH heads, at two different honest nodes, so the real
// components publish two signing roots for one duty and validator; the monitors must say so.
func (s *sim) runOverbound(n int, byz []int) {
	t, f := quorum(n), faulty(n)
	need := t - (f + 1)
	var hon []*node
	for _, nd := range s.nodes {
		if !nd.byz {
			hon = append(hon, nd)
		}
	}
	if need < 1 || 2*need > len(hon) {
		s.logf("overbound: n=%d does not admit the split", n)
		return
	}
	syn := core.NewSyncMessageDuty(slotBase + 1)
	groups := [][]*node{hon[:need], hon[need : 2*need]}
	for g, grp := range groups {
		for _, nd := range grp {
			s.actVCSync(nd, syn, s.vals, 1+g)
		}
	}
	for g, grp := range groups {
		target := grp[0]
		for _, m := range append([]released(nil), s.pool...) {
			inGroup := false
			for _, nd := range grp {
				if nd.idx == m.from {
					inGroup = true
				}
			}
			if inGroup && m.from != target.idx {
				s.actDeliver(target, m.duty, m.set, "LDeliver", false)
			}
		}
		for _, b := range byz {
			set := core.ParSignedDataSet{}
			for _, v := range s.vals {
				set[v.pubkey] = core.NewPartialSignedSyncMessage(s.signSync(v, v.shares[b+1], syn.Slot, headRoot(1+g, syn.Slot)), b+1)
			}
			s.actDeliver(target, syn, set, "LInject", false)
		}
	}
}

func runScenario(w *world, sp Spec) (res *Result) {
	r := rand.New(rand.NewSource(sp.Seed)) //nolint:gosec
	res = &Result{Spec: sp, Stats: map[string]int{}}
	ctx, cancel := context.WithCancel(context.Background())
	defer cancel()
	s := &sim{w: w, bm: w.bmock, spe: w.spe, r: r, res: res, ctx: ctx, roots: map[string]int{}, tags: map[string]int{}, keyIDs: map[string]int{},
		klass: map[string]bool{}, aggd: map[string]bool{}}
	if strings.HasPrefix(sp.Kind, "real") {
		s.real = true
		s.bm = w.bmock2
	}
	defer func() {
		if p := recover(); p != nil {
			// an aborted run proves nothing either way: counted, never a finding
			res.Aborted = fmt.Sprint(p)
		}
	}()

	n := minNodes + r.Intn(maxNodes-minNodes+1)
	nvals := 1 + r.Intn(maxVals)
	f := faulty(n)
	nbyz := 0
	divergent, lossy, equivVC := false, false, false
	switch sp.Kind {
	case "happy":
	case "divergent":
		divergent = true
	case "byzantine":
		for f == 0 {
			n = 4 + r.Intn(4)
			f = faulty(n)
		}
		nbyz = 1 + r.Intn(f)
		divergent = r.Intn(2) == 0
	case "garbage":
		for f == 0 {
			n = 4 + r.Intn(4)
			f = faulty(n)
		}
		nbyz = 1 + r.Intn(f)
		s.bypass = true
	case "lossy":
		lossy = true
		divergent = r.Intn(2) == 0
		if f > 0 {
			nbyz = r.Intn(f + 1)
		}
	case "equivvc":
		equivVC = true
		if f > 0 {
			nbyz = r.Intn(f + 1)
		}
	case "legacyidx":
		// peers' partial attestations do not carry the validator index and one node's client is down: that
		// node reaches the threshold from peers only, for >= 2 validators of one slot in one set, so its
		// Broadcaster has to resolve the validator indices itself (core/bcast index fallback)
		if nvals < 2 {
			nvals = 2 + r.Intn(maxVals-1)
		}
		divergent = r.Intn(2) == 0
		if f > 0 {
			nbyz = r.Intn(f + 1)
		}
	case "real":
		// every node runs the real QBFT consensus component; faulty nodes (<= f) are either Byzantine
		// (silent in consensus, injecting partial signatures later) or crash / never start
		if os.Getenv("VERIF_TIER") != "thorough" {
			n = 4
		}
		f = faulty(n)
		divergent = true
		if f > 0 {
			nbyz = r.Intn(f + 1)
		}
	case "real-staleprep":
		n, f, nbyz, divergent = 4, 1, 0, true
	case "overbound":
		// NOT within the property's assumptions: f+1 Byzantine nodes. Used only to show that the
		// monitors can fire on the real components (reported separately, never as a violation).
		n = []int{4, 6, 7}[r.Intn(3)]
		f = faulty(n)
		nbyz = f + 1
	}
	perm := r.Perm(n)
	byz := append([]int(nil), perm[:nbyz]...)
	sort.Ints(byz)
	res.N, res.T, res.Byz, res.Vals, res.V2 = n, quorum(n), byz, nvals, r.Intn(2) == 0
	var bs []string
	for _, b := range byz {
		bs = append(bs, fmt.Sprint(b))
	}
	res.Cfg = fmt.Sprintf("mkCfg %d %d [%s] Nat.even", n, quorum(n), strings.Join(bs, "; "))
	s.sameComm = r.Intn(2) == 0
	s.legacy = sp.Kind == "legacyidx" || (sp.Kind != "happy" && r.Intn(5) < 2)
	s.vcDown = map[int]bool{}
	if s.legacy {
		for i := 0; i < n; i++ {
			s.vcDown[i] = sp.Kind != "legacyidx" && r.Intn(3) == 0 // this node's client never attests: thresholds come from peers' partials only
		}
		res.Stats["legacy_peer_runs"] = 1
	}
	s.attSlot = slotBase
	s.build(n, nvals, byz, res.V2)

	attSlot := uint64(slotBase)
	if s.real {
		// the duty whose start (slot start + 1/3 slot) is the next one at least 150 ms ahead of now
		attSlot = uint64((time.Since(w.t0)+150*time.Millisecond*waitScale-time.Second/3)/time.Second) + 1
	}
	att := core.NewAttesterDuty(attSlot)
	syn := core.NewSyncMessageDuty(attSlot + 1)
	exit := core.NewVoluntaryExit(w.spe * (attSlot / w.spe))
	s.attSlot = attSlot
	s.duties = []core.Duty{att, syn, exit}
	if sp.Kind == "overbound" {
		s.runOverbound(n, byz)
		res.Outputs = len(s.outs)
		res.NonTrivial = true

		return res
	}

	var honest []*node
	for _, nd := range s.nodes {
		if !nd.byz {
			honest = append(honest, nd)
			if divergent {
				nd.cand = r.Intn(3)
			}
		}
	}
	// crashes / late starts: nodes that stop (or have not begun) taking steps
	crashAt := map[int]int{}
	startAt := map[int]int{}
	if sp.Kind != "happy" && !s.real {
		for _, nd := range honest {
			switch r.Intn(6) {
			case 0:
				crashAt[nd.idx] = r.Intn(60)
			case 1:
				startAt[nd.idx] = r.Intn(40)
			}
		}
	}

	decidedCand := -1
	var decidedSet core.UnsignedDataSet
	if s.real {
		if divergent {
			for i, nd := range honest { // every node's beacon node serves another head
				nd.cand = i
			}
		}
		decidedCand = s.runConsensusPhase(honest, att, f-nbyz, sp.Kind == "real-staleprep")
		for _, nd := range honest {
			if nd.crashed {
				crashAt[nd.idx] = 0
			}
		}
	}
	triggered := map[int]bool{}
	attSigned := map[int]bool{}
	synSigned := map[int]int{}
	exitSigned := map[int]bool{}
	deliveredTo := map[string]int{}
	if sp.Kind == "legacyidx" && len(honest) > 0 {
		// prologue: everybody decides, every client but the first node's attests (all validators in one
		// submission), and everything released reaches the first node
		first := honest[0]
		s.vcDown[first.idx] = true
		for _, nd := range honest {
			triggered[nd.idx] = true
			s.actTrigger(nd, att)
			if decidedSet == nil {
				decidedCand, decidedSet = nd.cand, nd.cons.proposed[att]
			}
		}
		for _, nd := range honest {
			if decidedSet != nil {
				s.actDecide(nd, att, decidedSet)
			}
			if nd != first && nd.decided[att] {
				attSigned[nd.idx] = true
				s.actVCAttest(nd, att, s.vals)
			}
		}
		for _, m := range append([]released(nil), s.pool...) {
			s.actDeliver(first, m.duty, m.set, "LDeliver", false)
		}
	}
	steps := 60 + r.Intn(120)
	for step := 0; step < steps; step++ {
		var alive []*node
		for _, nd := range honest {
			if c, ok := crashAt[nd.idx]; ok && step >= c {
				if !nd.crashed {
					nd.crashed = true
					s.logf("node %d crashes at step %d", nd.idx, step)
					s.stat("crashes")
				}
				continue
			}
			if st, ok := startAt[nd.idx]; ok && step < st {
				continue
			}
			alive = append(alive, nd)
		}
		if len(alive) == 0 {
			break
		}
		nd := pick(r, alive)
		switch c := r.Intn(100); {
		case c < 8: // scheduler triggers the attester duty: fetch -> propose
			if s.real {
				continue
			}
			if !triggered[nd.idx] {
				triggered[nd.idx] = true
				s.actTrigger(nd, att)
				if decidedCand < 0 {
					// the harness's "consensus": the first proposal made in the cluster is decided
					decidedCand = nd.cand
					decidedSet = nd.cons.proposed[att]
					if decidedSet == nil {
						s.hit("wiring", "node %d: scheduler trigger did not reach Consensus.Propose", nd.idx)
						decidedCand = -1
					} else if !nd.cons.participated[att] {
						s.hit("wiring", "node %d: scheduler trigger did not reach Consensus.Participate", nd.idx)
					}
				}
			}
		case c < 18: // consensus delivers the decided set
			if !s.real && decidedSet != nil && !nd.decided[att] && (!lossy || r.Intn(3) > 0) {
				s.actDecide(nd, att, decidedSet)
			}
		case c < 30: // validator client attests
			if s.vcDown[nd.idx] {
				continue
			}
			if nd.decided[att] && !attSigned[nd.idx] {
				attSigned[nd.idx] = true
				if r.Intn(3) == 0 && len(s.vals) > 1 { // one validator at a time
					for _, v := range s.vals {
						s.actVCAttest(nd, att, []valKeys{v})
					}
				} else {
					s.actVCAttest(nd, att, s.vals)
				}
			} else if nd.decided[att] && r.Intn(4) == 0 { // the client re-submits the same attestation
				s.actVCAttest(nd, att, s.vals)
				s.stat("resubmits")
			}
		case c < 40 && r.Intn(4) == 0: // validator client submits voluntary exits
			if !exitSigned[nd.idx] {
				exitSigned[nd.idx] = true
				s.actVCExit(nd, exit)
			}
		case c < 40: // validator client signs a sync committee message
			head := 0
			if divergent && r.Intn(4) == 0 {
				head = 1 + nd.idx%2 // this node's beacon node sees another head
			}
			if synSigned[nd.idx] == 0 {
				synSigned[nd.idx] = 1
				s.actVCSync(nd, syn, s.vals, head)
			} else if equivVC && synSigned[nd.idx] == 1 {
				synSigned[nd.idx] = 2
				s.actVCSync(nd, syn, s.vals, 5) // a client that signs a second, different root (all clients the same one)
				s.stat("vc_equivocation")
			}
		case c < 82: // the network delivers a released message (any, again, in any order)
			if len(s.pool) == 0 {
				continue
			}
			m := pick(r, s.pool)
			if lossy && r.Intn(3) == 0 {
				s.stat("lost")
				continue
			}
			if m.from == nd.idx && r.Intn(5) > 0 {
				continue
			}
			mk := fmt.Sprintf("%d>%d/%v/%d", m.from, nd.idx, m.duty, len(m.set))
			deliveredTo[mk]++
			if deliveredTo[mk] > 1 {
				s.stat("duplicates")
			}
			s.actDeliver(nd, m.duty, m.set, "LDeliver", false)
		default: // a Byzantine node sends something
			if len(byz) == 0 {
				continue
			}
			b := pick(r, byz)
			d := pick(r, s.duties)
			if r.Intn(5) == 0 && len(s.pool) > 0 { // replay of an honest message under its own connection
				m := pick(r, s.pool)
				s.actDeliver(nd, m.duty, m.set, "LInject", false)
				s.stat("replays")
				continue
			}
			dc := decidedCand
			if dc < 0 || d.Type != core.DutyAttester {
				dc = 0
			}
			set, bypass, what := s.byzMake(b, d, dc)
			if set == nil {
				continue
			}
			s.logf("byzantine node %d makes %s for %v", b, what, d)
			s.actDeliver(nd, d, set, "LInject", bypass)
		}
	}

	// read back the AggSigDBs: what is stored is what was observed at the Store input
	seen := map[string]bool{}
	for _, o := range s.outs {
		k := fmt.Sprintf("%d/%v/%s", o.node, o.duty, o.pk)
		if seen[k] {
			continue
		}
		seen[k] = true
		cctx, ccancel := context.WithTimeout(ctx, 5*time.Second*waitScale)
		sd, err := s.nodes[o.node].asdb.Await(cctx, o.duty, o.pk, 0)
		ccancel()
		if err != nil { // no answer (slow machine, or the store had been refused): not an observation of the property
			s.stat("aggsigdb_await_no_answer")
			continue
		}
		root, _ := sd.MessageRoot()
		if hex.EncodeToString(root[:]) != o.root {
			s.hit("two-roots", "node %d: AggSigDB serves root %x for %v, the Store input had %s", o.node, root[:6], o.duty, o.root[:12])
		}
	}
	res.Outputs = len(s.outs)
	res.NonTrivial = res.Outputs > 0 && (res.Stats["injected"] > 0 || res.Stats["delivery_after_aggregation"] > 0)

	return res
}

var kinds = []string{"happy", "divergent", "byzantine", "byzantine", "garbage", "lossy", "equivvc", "legacyidx"}

// TestGen runs the scenarios and writes pipeline_runs.json.
func TestGen(t *testing.T) {
	w := newWorld(t)
	var specs []Spec
	var rp Spec
	if ok, err := hx.ReadReplay(&rp); ok {
		if err != nil {
			t.Fatal(err)
		}
		specs = []Spec{rp}
	} else {
		n := hx.IntEnv("VERIF_N", 200)
		r := hx.Rand()
		for i := 0; i < n; i++ {
			specs = append(specs, Spec{ID: i, Kind: kinds[i%len(kinds)], Seed: r.Int63()})
		}
		// runs in which every node also runs the REAL consensus component (real time, round timers)
		nr := hx.IntEnv("VERIF_REAL", 12)
		for i := 0; i < nr; i++ {
			k := "real"
			if i%3 == 2 {
				k = "real-staleprep"
			}
			specs = append(specs, Spec{ID: 100000 + i, Kind: k, Seed: r.Int63()})
		}
		// a few runs OUTSIDE the assumptions (f+1 Byzantine nodes); reported apart
		for i := 0; i < hx.IntEnv("VERIF_OVER", 3); i++ {
			specs = append(specs, Spec{ID: n + i, Kind: "overbound", Seed: r.Int63()})
		}
	}
	results := make([]*Result, len(specs))
	var wg sync.WaitGroup
	// real-time runs first, in batches on an otherwise idle machine (they mostly sleep on round timers)
	var realIdx []int
	for i := range specs {
		if strings.HasPrefix(specs[i].Kind, "real") {
			realIdx = append(realIdx, i)
		}
	}
	batch := hx.IntEnv("VERIF_REAL_BATCH", 12)
	for b := 0; b < len(realIdx); b += batch {
		for _, i := range realIdx[b:min(b+batch, len(realIdx))] {
			wg.Add(1)
			go func(i int) {
				defer wg.Done()
				results[i] = runScenario(w, specs[i])
			}(i)
		}
		wg.Wait()
	}
	// Load tolerance: when fewer than half of the real-time runs decided (a saturated machine makes the
	// round timers fire before messages are processed), the undecided ones are re-run ONCE, one at a
	// time, with every wait of the harness tripled.
	forceRetry := os.Getenv("VERIF_REAL_FORCE_RETRY") != "" // exercises the retry path itself
	decidedRun := func(r *Result) bool { return !forceRetry && r != nil && r.Stats["cons_decided"] > 0 }
	nd := 0
	for _, i := range realIdx {
		if decidedRun(results[i]) {
			nd++
		}
	}
	if len(realIdx) > 0 && 2*nd < len(realIdx) && os.Getenv("VERIF_REPLAY") == "" {
		waitScale = 3
		for _, i := range realIdx {
			if decidedRun(results[i]) {
				continue
			}
			results[i] = runScenario(w, specs[i])
			results[i].Retried = true
		}
		waitScale = 1
	}
	sem := make(chan struct{}, runtime.NumCPU())
	for i := range specs {
		if strings.HasPrefix(specs[i].Kind, "real") {
			continue
		}
		wg.Add(1)
		sem <- struct{}{}
		go func(i int) {
			defer wg.Done()
			defer func() { <-sem }()
			results[i] = runScenario(w, specs[i])
		}(i)
	}
	wg.Wait()
	if err := hx.WriteJSON("pipeline_runs.json", results); err != nil {
		t.Fatal(err)
	}
	hits, over := 0, 0
	for _, r := range results {
		if r.Kind == "overbound" {
			over += len(r.Hits)
			continue
		}
		hits += len(r.Hits)
	}
	t.Logf("scenarios=%d monitor_hits=%d overbound_hits=%d", len(results), hits, over)
}
