// Package hx holds helpers shared by the correspondence harnesses.
package hx

import (
	"encoding/json"
	"math/rand"
	"os"
	"path/filepath"
	"strconv"
)

// Seed returns VERIF_SEED (default 1).
func Seed() int64 {
	if s := os.Getenv("VERIF_SEED"); s != "" {
		if v, err := strconv.ParseInt(s, 10, 64); err == nil {
			return v
		}
	}
	return 1
}

// Thorough reports whether VERIF_TIER=thorough.
func Thorough() bool { return os.Getenv("VERIF_TIER") == "thorough" }

// IntEnv returns an integer environment variable or def.
func IntEnv(name string, def int) int {
	if s := os.Getenv(name); s != "" {
		if v, err := strconv.Atoi(s); err == nil {
			return v
		}
	}
	return def
}

// OutDir returns VERIF_OUT (the directory the driver reads results from).
func OutDir() string {
	d := os.Getenv("VERIF_OUT")
	if d == "" {
		d = os.TempDir()
	}
	_ = os.MkdirAll(d, 0o755)
	return d
}

// Rand returns the harness PRNG; every random choice of a run derives from it.
func Rand() *rand.Rand { return rand.New(rand.NewSource(Seed())) } //nolint:gosec

// WriteOut writes a file into OutDir.
func WriteOut(name string, data []byte) error {
	return os.WriteFile(filepath.Join(OutDir(), name), data, 0o644)
}

// WriteJSON writes v as JSON into OutDir.
func WriteJSON(name string, v any) error {
	b, err := json.MarshalIndent(v, "", " ")
	if err != nil {
		return err
	}
	return WriteOut(name, b)
}

// ReadReplay loads the JSON file named by VERIF_REPLAY into v; ok=false when unset.
func ReadReplay(v any) (bool, error) {
	p := os.Getenv("VERIF_REPLAY")
	if p == "" {
		return false, nil
	}
	b, err := os.ReadFile(p)
	if err != nil {
		return true, err
	}
	var wrap struct {
		Replay json.RawMessage `json:"replay"`
	}
	if err := json.Unmarshal(b, &wrap); err == nil && len(wrap.Replay) > 0 {
		return true, json.Unmarshal(wrap.Replay, v)
	}
	return true, json.Unmarshal(b, v)
}
