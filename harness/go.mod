// Placeholder that marks the module root. The module graph actually used is generated on every
// run from /repo/go.mod by lib/vp.py (harness_prepare) and passed with -modfile.
module verif/harness

go 1.26
